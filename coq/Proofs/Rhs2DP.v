(* Lemmas about the hand-written 2-D and node-level ODE right-hand sides of Model/Rhs2D.v
   (C06 conservation / sign, C07 regular-graph reductions, C08 tau = 0 / gamma = 0 limits,
   single-edge exactness of the pair-based system).  Everything is over Q and closed under
   the global context.  The small systems the reductions map to (homogeneous mean-field /
   pairwise) are the GENERATED definitions of Gen/Rhs.v. *)
From EoNV Require Import Prelude Vec VecP Graph Aux Rhs Rhs7P Rhs2D.
From Coq Require Import Qpower Lqa Setoid Morphisms.

(* ====================================================================== *)
(* sums over lists, tabulations                                            *)
(* ====================================================================== *)
Section ListSums.
Context {A : Type}.
Implicit Types (l : list A) (f g : A -> Q).
Lemma sumQ_cons (x : Q) (v : list Q) : sumQ (x :: v) = x + sumQ v. Proof. reflexivity. Qed.
Lemma sumQ_nil : sumQ [] = 0. Proof. reflexivity. Qed.

Lemma sum_map_ext l f g : (forall x, In x l -> f x == g x) -> sumQ (map f l) == sumQ (map g l).
Proof.
  induction l as [|a l IH]; intros H; cbn [map]; [reflexivity|]. rewrite !sumQ_cons.
  rewrite (H a) by (left; reflexivity). rewrite IH by (intros x Hx; apply H; right; exact Hx). reflexivity.
Qed.
Lemma sum_map_add l f g : sumQ (map (fun x => f x + g x) l) == sumQ (map f l) + sumQ (map g l).
Proof. induction l as [|a l IH]; cbn [map]; rewrite ?sumQ_cons, ?sumQ_nil; [ring|]. rewrite IH. ring. Qed.
Lemma sum_map_sub l f g : sumQ (map (fun x => f x - g x) l) == sumQ (map f l) - sumQ (map g l).
Proof. induction l as [|a l IH]; cbn [map]; rewrite ?sumQ_cons, ?sumQ_nil; [ring|]. rewrite IH. ring. Qed.
Lemma sum_map_scal l c f : sumQ (map (fun x => c * f x) l) == c * sumQ (map f l).
Proof. induction l as [|a l IH]; cbn [map]; rewrite ?sumQ_cons, ?sumQ_nil; [ring|]. rewrite IH. ring. Qed.
Lemma sum_map_opp l f : sumQ (map (fun x => - f x) l) == - sumQ (map f l).
Proof. induction l as [|a l IH]; cbn [map]; rewrite ?sumQ_cons, ?sumQ_nil; [ring|]. rewrite IH. ring. Qed.
Lemma sum_map_zero l f : (forall x, In x l -> f x == 0) -> sumQ (map f l) == 0.
Proof.
  induction l as [|a l IH]; intros H; cbn [map]; rewrite ?sumQ_cons, ?sumQ_nil; [reflexivity|].
  rewrite (H a) by (left; reflexivity). rewrite IH by (intros x Hx; apply H; right; exact Hx). ring.
Qed.
Lemma sum_map_nonneg l f : (forall x, In x l -> 0 <= f x) -> 0 <= sumQ (map f l).
Proof.
  induction l as [|a l IH]; intros H; cbn [map]; rewrite ?sumQ_cons, ?sumQ_nil; [apply Qle_refl|].
  assert (H1 : 0 <= f a) by (apply H; left; reflexivity).
  assert (H2 : 0 <= sumQ (map f l)) by (apply IH; intros x Hx; apply H; right; exact Hx). lra.
Qed.
Lemma Qnat_S n : Qnat (S n) == Qnat n + 1.
Proof. unfold Qnat. rewrite Nat2Z.inj_succ. unfold Z.succ. rewrite inject_Z_plus. reflexivity. Qed.
Lemma sum_map_const l c f : (forall x, In x l -> f x == c) -> sumQ (map f l) == Qnat (length l) * c.
Proof.
  induction l as [|a l IH]; intros H; cbn [map length]; rewrite ?sumQ_cons, ?sumQ_nil.
  - unfold Qnat. cbn. ring.
  - rewrite (H a) by (left; reflexivity).
    rewrite IH by (intros x Hx; apply H; right; exact Hx). rewrite Qnat_S. ring.
Qed.
End ListSums.

Lemma Qnat_nonneg n : 0 <= Qnat n.
Proof. unfold Qnat. change 0 with (inject_Z 0). rewrite <- Zle_Qle. lia. Qed.
Lemma Qnat_pred n : (1 <= n)%nat -> Qnat (n - 1) == Qnat n - 1.
Proof. intros H. destruct n; [lia|]. rewrite Qnat_S. replace (S n - 1)%nat with n by lia. ring. Qed.
Lemma Qnat_0 : Qnat 0 == 0. Proof. reflexivity. Qed.

Lemma tab_length n f : length (tab n f) = n.
Proof. unfold tab. rewrite map_length, seq_length. reflexivity. Qed.
Lemma nth_tab n f i : (i < n)%nat -> nth i (tab n f) 0 = f i.
Proof.
  intros H. unfold tab.
  rewrite (nth_indep _ 0 (f 0%nat)) by (rewrite map_length, seq_length; lia).
  rewrite map_nth, seq_nth by lia. reflexivity.
Qed.
Lemma flat_tab_length c (f : nat -> nat -> Q) a r :
  length (flat_map (fun i => tab c (f i)) (seq a r)) = (r * c)%nat.
Proof. revert a; induction r; intros a; cbn [seq flat_map]; [reflexivity|]. rewrite app_length, tab_length, IHr. lia. Qed.
Lemma tab2_length r c f : length (tab2 r c f) = (r * c)%nat.
Proof. apply flat_tab_length. Qed.
Lemma nth_flat_tab c (f : nat -> nat -> Q) a r s i :
  (s < r)%nat -> (i < c)%nat -> nth (s * c + i) (flat_map (fun i => tab c (f i)) (seq a r)) 0 = f (a + s)%nat i.
Proof.
  revert a s; induction r; intros a s Hs Hi; [lia|]. cbn [seq flat_map].
  destruct s as [|s].
  - rewrite app_nth1 by (rewrite tab_length; lia). cbn [Nat.mul Nat.add]. rewrite nth_tab by lia. rewrite Nat.add_0_r. reflexivity.
  - rewrite app_nth2 by (rewrite tab_length; lia). rewrite tab_length.
    replace (S s * c + i - c)%nat with (s * c + i)%nat by lia.
    rewrite IHr by lia. f_equal. lia.
Qed.
Lemma nth_tab2 r c f s i : (s < r)%nat -> (i < c)%nat -> nth (s * c + i) (tab2 r c f) 0 = f s i.
Proof. intros. unfold tab2. rewrite nth_flat_tab by assumption. reflexivity. Qed.
Lemma nth_app_at (A B : vec) n k : length A = n -> nth (n + k) (A ++ B) 0 = nth k B 0.
Proof. intros <-. apply app_nth2_plus. Qed.
Lemma nth_app_lt (A B : vec) k : (k < length A)%nat -> nth k (A ++ B) 0 = nth k A 0.
Proof. intros. apply app_nth1. assumption. Qed.

Lemma sumn_ext n f g : (forall i, (i < n)%nat -> f i == g i) -> sumn n f == sumn n g.
Proof. intros H. unfold sumn, tab, vsum. apply sum_map_ext. intros x Hx. apply in_seq in Hx. apply H. lia. Qed.
Lemma sumn_add n f g : sumn n (fun i => f i + g i) == sumn n f + sumn n g.
Proof. unfold sumn, tab, vsum. apply sum_map_add. Qed.
Lemma sumn_sub n f g : sumn n (fun i => f i - g i) == sumn n f - sumn n g.
Proof. unfold sumn, tab, vsum. apply sum_map_sub. Qed.
Lemma sumn_scal n c f : sumn n (fun i => c * f i) == c * sumn n f.
Proof. unfold sumn, tab, vsum. apply sum_map_scal. Qed.
Lemma sumn_opp n f : sumn n (fun i => - f i) == - sumn n f.
Proof. unfold sumn, tab, vsum. apply sum_map_opp. Qed.
Lemma sumn_zero n f : (forall i, (i < n)%nat -> f i == 0) -> sumn n f == 0.
Proof. intros H. unfold sumn, tab, vsum. apply sum_map_zero. intros x Hx. apply in_seq in Hx. apply H. lia. Qed.
Lemma sumn_const n c f : (forall i, (i < n)%nat -> f i == c) -> sumn n f == Qnat n * c.
Proof.
  intros H. unfold sumn, tab, vsum. rewrite (sum_map_const _ c) by (intros x Hx; apply in_seq in Hx; apply H; lia).
  rewrite seq_length. reflexivity.
Qed.
Lemma sumn_nonneg n f : (forall i, (i < n)%nat -> 0 <= f i) -> 0 <= sumn n f.
Proof. intros H. unfold sumn, tab, vsum. apply sum_map_nonneg. intros x Hx. apply in_seq in Hx. apply H. lia. Qed.
Lemma sumn_O f : sumn 0 f == 0. Proof. reflexivity. Qed.
Lemma sumn_S_last n f : sumn (S n) f == sumn n f + f n.
Proof.
  unfold sumn, tab. rewrite seq_S, map_app, vsum_app. cbn [map Nat.add]. unfold vsum, sumQ. cbn [fold_right]. ring.
Qed.
Lemma sumn_S_first n f : sumn (S n) f == f 0%nat + sumn n (fun i => f (S i)).
Proof.
  unfold sumn, tab. cbn [seq map]. rewrite <- seq_shift, map_map. unfold vsum, sumQ. cbn [fold_right]. reflexivity.
Qed.
Lemma vsum_flat_tab c (f : nat -> nat -> Q) a r :
  vsum (flat_map (fun i => tab c (f i)) (seq a r)) == sumQ (map (fun s => sumn c (f s)) (seq a r)).
Proof.
  revert a; induction r; intros a; cbn [seq flat_map map]; [reflexivity|].
  rewrite vsum_app, IHr. unfold sumn at 2. cbn [sumQ fold_right]. reflexivity.
Qed.
Lemma vsum_tab2 r c f : vsum (tab2 r c f) == sumn2 r c f.
Proof. unfold tab2, sumn2. rewrite vsum_flat_tab. reflexivity. Qed.
Lemma vsum_tab n f : vsum (tab n f) = sumn n f. Proof. reflexivity. Qed.

Lemma guard0_nz v : ~ v == 0 -> guard0 v == v.
Proof.
  intros H. unfold guard0, Qeqb. destruct (Qeq_bool v 0) eqn:E; [|reflexivity].
  apply Qeq_bool_eq in E. contradiction.
Qed.
Lemma inv0_nz v : ~ v == 0 -> inv0 v == 1 / v.
Proof.
  intros H. unfold inv0, Qeqb. destruct (Qeq_bool v 0) eqn:E; [|reflexivity].
  apply Qeq_bool_eq in E. contradiction.
Qed.
Lemma inv0_proper a b : a == b -> inv0 a == inv0 b.
Proof.
  intros H. unfold inv0, Qeqb.
  destruct (Qeq_bool a 0) eqn:Ea, (Qeq_bool b 0) eqn:Eb; try reflexivity.
  - apply Qeq_bool_eq in Ea. apply Qeq_bool_neq in Eb. exfalso. apply Eb. rewrite <- H. exact Ea.
  - apply Qeq_bool_eq in Eb. apply Qeq_bool_neq in Ea. exfalso. apply Ea. rewrite H. exact Eb.
  - rewrite H. reflexivity.
Qed.

Lemma nonneg_vnth (V : vec) : Forall (fun x => 0 <= x) V -> forall k, 0 <= vnth k V.
Proof.
  intros H k. unfold vnth. revert k. induction H as [|x V Hx HV IH]; intros [|k]; cbn; try apply Qle_refl; auto.
Qed.

(* ====================================================================== *)
(* individual-based systems                                                *)
(* ====================================================================== *)
Section IndividualBased.
Variables (G : graph) (nodelist : list node) (idx : node -> nat) (tr : node -> node -> Q) (rc : node -> Q).
Notation N_ := (nN nodelist).
Notation nd := (node_at nodelist).
Notation ibX := (ibSIR_dX G nodelist idx tr).
Notation ibY := (ibSIR_dY G nodelist idx tr rc).
Notation isY := (ibSIS_dY G nodelist idx tr rc).

(* layout of the returned vectors *)
Lemma ibSIS_layout Y t i : (i < N_)%nat -> vnth i (dSIS_individual_based G nodelist idx tr rc Y t) = isY Y i.
Proof. intros H. unfold dSIS_individual_based, vnth. apply nth_tab. exact H. Qed.
Lemma ibSIR_layout V t i : (i < N_)%nat ->
  vnth i (dSIR_individual_based G nodelist idx tr rc V t) = ibX V i /\
  vnth (N_ + i) (dSIR_individual_based G nodelist idx tr rc V t) = ibY V i.
Proof.
  intros H. unfold dSIR_individual_based, vnth. split.
  - rewrite nth_app_lt by (rewrite tab_length; exact H). apply nth_tab. exact H.
  - rewrite nth_app_at by apply tab_length. apply nth_tab. exact H.
Qed.

(* C06: Z_i = 1 - X_i - Y_i, so dZ_i = -(dX_i + dY_i) = gamma_i Y_i *)
Lemma ibSIR_conserve V i : ibX V i + ibY V i == - rc (nd i) * vnth (N_ + i) V.
Proof. unfold ibSIR_dY. ring. Qed.
Lemma ibSIR_sign_dX V i :
  (forall u v, 0 <= tr u v) -> Forall (fun x => 0 <= x) V -> ibX V i <= 0.
Proof.
  intros Ht HV. unfold ibSIR_dX.
  assert (H1 : 0 <= vnth i V) by (apply nonneg_vnth; exact HV).
  assert (H2 : 0 <= sumQ (map (fun nbr => tr (nd i) nbr * vnth (N_ + idx nbr) V) (gadj G (nd i)))).
  { apply sum_map_nonneg. intros x _. apply Qmult_le_0_compat; [apply Ht|apply nonneg_vnth; exact HV]. }
  set (s := sumQ _) in *. assert (H3 : 0 <= vnth i V * s) by (apply Qmult_le_0_compat; assumption). lra.
Qed.
Lemma ibSIR_sign_dZ V i : 0 <= rc (nd i) -> 0 <= vnth (N_ + i) V -> 0 <= - (ibX V i + ibY V i).
Proof. intros H1 H2. rewrite ibSIR_conserve. assert (H3 : 0 <= rc (nd i) * vnth (N_ + i) V) by (apply Qmult_le_0_compat; assumption). lra. Qed.

(* C06 (SIS; X_i = 1 - Y_i is structural): the faces Y_i = 0 and Y_i = 1 of the unit cube are not crossed *)
Lemma ibSIS_face0 Y i :
  (forall u v, 0 <= tr u v) -> Forall (fun x => 0 <= x) Y -> vnth i Y == 0 -> 0 <= isY Y i.
Proof.
  intros Ht HY H0. unfold ibSIS_dY. cbv zeta.
  set (s := sumQ _).
  assert (H2 : 0 <= s).
  { apply sum_map_nonneg. intros x _. apply Qmult_le_0_compat; [|apply nonneg_vnth; exact HY].
    apply Qmult_le_0_compat; [apply Ht|lra]. }
  rewrite H0. lra.
Qed.
Lemma ibSIS_face1 Y i : 0 <= rc (nd i) -> vnth i Y == 1 -> isY Y i <= 0.
Proof.
  intros Hr H1. unfold ibSIS_dY. cbv zeta.
  rewrite sum_map_zero by (intros x _; rewrite H1; ring). rewrite H1. lra.
Qed.

(* C08 tau = 0 *)
Lemma ibSIS_tau0 Y i : (forall u v, tr u v == 0) -> isY Y i == - rc (nd i) * vnth i Y.
Proof. intros Ht. unfold ibSIS_dY. cbv zeta. rewrite sum_map_zero by (intros x _; rewrite Ht; ring). ring. Qed.
Lemma ibSIR_tau0 V i : (forall u v, tr u v == 0) -> ibX V i == 0 /\ ibY V i == - rc (nd i) * vnth (N_ + i) V.
Proof.
  intros Ht. assert (H : ibX V i == 0).
  { unfold ibSIR_dX. cbv zeta. rewrite sum_map_zero by (intros x _; rewrite Ht; ring). ring. }
  split; [exact H|]. unfold ibSIR_dY. rewrite H. ring.
Qed.

(* C08 gamma = 0: at X = 1 - Y the SIS field is the Y-part of the SIR field, and dX = -dY *)
Lemma ib_gamma0 Y i :
  (forall u, rc u == 0) -> (i < N_)%nat ->
  let V := tab N_ (fun k => 1 - vnth k Y) ++ Y in
  isY Y i == ibY V i /\ ibX V i == - isY Y i.
Proof.
  intros Hr Hi V.
  assert (HX : vnth i V = 1 - vnth i Y).
  { unfold V, vnth. rewrite nth_app_lt by (rewrite tab_length; exact Hi). apply nth_tab. exact Hi. }
  assert (HY : forall k, vnth (N_ + k) V = vnth k Y).
  { intros k. unfold V, vnth. apply nth_app_at. apply tab_length. }
  assert (E : ibX V i == - isY Y i).
  { unfold ibSIR_dX, ibSIS_dY. cbv zeta. rewrite HX, Hr.
    rewrite (sum_map_ext _ (fun nbr => tr (nd i) nbr * (1 - vnth i Y) * vnth (idx nbr) Y)
                           (fun nbr => (1 - vnth i Y) * (tr (nd i) nbr * vnth (N_ + idx nbr) V)))
      by (intros x _; rewrite HY; ring).
    rewrite sum_map_scal. ring. }
  split; [|exact E]. unfold ibSIR_dY. rewrite E, Hr. ring.
Qed.

(* C07 (a): d-regular graph, uniform rates, uniform state *)
Definition ib_regularb (d : nat) : bool :=
  forallb (fun i => Nat.eqb (length (gadj G (nd i))) d && forallb (fun v => Nat.ltb (idx v) N_) (gadj G (nd i))) (seq 0 N_).
Lemma ib_regular_spec d i : ib_regularb d = true -> (i < N_)%nat ->
  length (gadj G (nd i)) = d /\ forall v, In v (gadj G (nd i)) -> (idx v < N_)%nat.
Proof.
  intros H Hi. unfold ib_regularb in H. rewrite forallb_forall in H.
  specialize (H i). rewrite in_seq in H. specialize (H ltac:(lia)).
  apply andb_prop in H. destruct H as [H1 H2]. apply Nat.eqb_eq in H1. split; [exact H1|].
  intros v Hv. rewrite forallb_forall in H2. apply Nat.ltb_lt. apply H2. exact Hv.
Qed.

Lemma ibSIS_uniform d tau g y Y i :
  ib_regularb d = true -> (forall u v, tr u v == tau) -> (forall u, rc u == g) ->
  (forall k, (k < N_)%nat -> vnth k Y == y) -> (i < N_)%nat ->
  isY Y i == tau * Qnat d * (1 - y) * y - g * y.
Proof.
  intros Hreg Ht Hr HY Hi. destruct (ib_regular_spec d i Hreg Hi) as [Hd Hx].
  unfold ibSIS_dY. cbv zeta. rewrite (sum_map_const _ (tau * (1 - y) * y)).
  - rewrite Hd, Hr, (HY i Hi). ring.
  - intros v Hv. rewrite Ht, (HY i Hi), (HY (idx v)) by (apply Hx; exact Hv). reflexivity.
Qed.
Lemma ibSIR_uniform d tau g x y V i :
  ib_regularb d = true -> (forall u v, tr u v == tau) -> (forall u, rc u == g) ->
  (forall k, (k < N_)%nat -> vnth k V == x /\ vnth (N_ + k) V == y) -> (i < N_)%nat ->
  ibX V i == - (tau * Qnat d * x * y) /\ ibY V i == tau * Qnat d * x * y - g * y.
Proof.
  intros Hreg Ht Hr HV Hi. destruct (ib_regular_spec d i Hreg Hi) as [Hd Hx].
  assert (E : ibX V i == - (tau * Qnat d * x * y)).
  { unfold ibSIR_dX. cbv zeta. rewrite (sum_map_const _ (tau * y)).
    - rewrite Hd. destruct (HV i Hi) as [-> _]. ring.
    - intros v Hv. rewrite Ht. destruct (HV (idx v) (Hx v Hv)) as [_ ->]. reflexivity. }
  split; [exact E|]. unfold ibSIR_dY. rewrite E, Hr. destruct (HV i Hi) as [_ ->]. ring.
Qed.

(* Phi (Y) = (sum (1 - Y_i), sum Y_i); Phi o rhs_big = rhs_small o Phi with n = d, i.e. n_over_N = d / N *)
Lemma ibSIS_lump d tau g y Y t :
  ib_regularb d = true -> (forall u v, tr u v == tau) -> (forall u, rc u == g) ->
  (forall k, (k < N_)%nat -> vnth k Y == y) -> ~ Qnat N_ == 0 ->
  let D := dSIS_individual_based G nodelist idx tr rc Y t in
  let small := dSIS_homogeneous_meanfield [sumn N_ (fun k => 1 - vnth k Y); sumn N_ (fun k => vnth k Y)] t (Qnat d / Qnat N_) tau g in
  (forall k, (k < N_)%nat -> vnth k D == tau * Qnat d * (1 - y) * y - g * y) /\
  veq [sumn N_ (fun k => - vnth k D); sumn N_ (fun k => vnth k D)] small.
Proof.
  intros Hreg Ht Hr HY HN D small.
  assert (HD : forall k, (k < N_)%nat -> vnth k D == tau * Qnat d * (1 - y) * y - g * y).
  { intros k Hk. unfold D. rewrite ibSIS_layout by exact Hk. apply (ibSIS_uniform d tau g y); assumption. }
  split; [exact HD|].
  assert (S1 : sumn N_ (fun k => 1 - vnth k Y) == Qnat N_ * (1 - y)) by (apply sumn_const; intros k Hk; rewrite (HY k Hk); reflexivity).
  assert (S2 : sumn N_ (fun k => vnth k Y) == Qnat N_ * y) by (apply sumn_const; intros k Hk; rewrite (HY k Hk); reflexivity).
  assert (S3 : sumn N_ (fun k => vnth k D) == Qnat N_ * (tau * Qnat d * (1 - y) * y - g * y)) by (apply sumn_const; exact HD).
  unfold small, dSIS_homogeneous_meanfield. cbn [vnth nth].
  repeat constructor; rewrite ?sumn_opp, S1, S2, S3; field; exact HN.
Qed.
Lemma ibSIR_lump d tau g x y V t :
  ib_regularb d = true -> (forall u v, tr u v == tau) -> (forall u, rc u == g) ->
  (forall k, (k < N_)%nat -> vnth k V == x /\ vnth (N_ + k) V == y) -> ~ Qnat N_ == 0 ->
  let D := dSIR_individual_based G nodelist idx tr rc V t in
  let small := dSIR_homogeneous_meanfield [sumn N_ (fun k => vnth k V); sumn N_ (fun k => vnth (N_ + k) V)] t (Qnat d / Qnat N_) tau g in
  (forall k, (k < N_)%nat -> vnth k D == - (tau * Qnat d * x * y) /\ vnth (N_ + k) D == tau * Qnat d * x * y - g * y) /\
  veq [sumn N_ (fun k => vnth k D); sumn N_ (fun k => vnth (N_ + k) D)] small.
Proof.
  intros Hreg Ht Hr HV HN D small.
  assert (HD : forall k, (k < N_)%nat -> vnth k D == - (tau * Qnat d * x * y) /\ vnth (N_ + k) D == tau * Qnat d * x * y - g * y).
  { intros k Hk. unfold D. destruct (ibSIR_layout V t k Hk) as [-> ->]. apply (ibSIR_uniform d tau g x y); assumption. }
  split; [exact HD|].
  assert (S1 : sumn N_ (fun k => vnth k V) == Qnat N_ * x) by (apply sumn_const; intros k Hk; apply (HV k Hk)).
  assert (S2 : sumn N_ (fun k => vnth (N_ + k) V) == Qnat N_ * y) by (apply sumn_const; intros k Hk; apply (HV k Hk)).
  assert (S3 : sumn N_ (fun k => vnth k D) == Qnat N_ * (- (tau * Qnat d * x * y))) by (apply sumn_const; intros k Hk; apply (HD k Hk)).
  assert (S4 : sumn N_ (fun k => vnth (N_ + k) D) == Qnat N_ * (tau * Qnat d * x * y - g * y)) by (apply sumn_const; intros k Hk; apply (HD k Hk)).
  unfold small, dSIR_homogeneous_meanfield. cbn [vnth nth].
  repeat constructor; rewrite S1, S2, ?S3, ?S4; field; exact HN.
Qed.
End IndividualBased.

(* ====================================================================== *)
(* adjacency lists                                                         *)
(* ====================================================================== *)
Lemma mem_In x l : mem x l = true <-> In x l.
Proof.
  unfold mem. rewrite existsb_exists. split.
  - intros [y [Hy E]]. apply N.eqb_eq in E. subst. exact Hy.
  - intros H. exists x. split; [exact H|apply N.eqb_refl].
Qed.
Lemma others_In u l w : In w (others u l) -> In w l.
Proof. unfold others. rewrite filter_In. tauto. Qed.
Lemma others_cons u x l : others u (x :: l) = if negb (N.eqb x u) then x :: others u l else others u l.
Proof. reflexivity. Qed.
Lemma mem_cons u x l : mem u (x :: l) = (N.eqb u x || mem u l)%bool.
Proof. reflexivity. Qed.
Lemma others_notin u l : mem u l = false -> others u l = l.
Proof.
  induction l as [|x l IH]; intros H; [reflexivity|].
  rewrite mem_cons in H. apply orb_false_elim in H. destruct H as [H1 H2].
  rewrite others_cons, N.eqb_sym, H1. cbn [negb]. rewrite IH by exact H2. reflexivity.
Qed.
Lemma others_length u l : nodupb l = true -> mem u l = true -> length (others u l) = (length l - 1)%nat.
Proof.
  induction l as [|x l IH]; intros Hn Hm; [discriminate|].
  cbn [nodupb] in Hn. apply andb_prop in Hn. destruct Hn as [Hx Hn].
  rewrite mem_cons in Hm. rewrite others_cons.
  destruct (N.eqb u x) eqn:E.
  - apply N.eqb_eq in E. subst x. rewrite N.eqb_refl. cbn [negb length].
    rewrite others_notin by (destruct (mem u l); [discriminate|reflexivity]). lia.
  - rewrite N.eqb_sym, E. cbn [negb length orb] in *. rewrite IH by assumption.
    destruct l; [discriminate|cbn [length]; lia].
Qed.

(* ====================================================================== *)
(* pair-based systems                                                      *)
(* ====================================================================== *)
Section PairBased.
Variables (G : graph) (nodelist : list node) (idx : node -> nat) (tr : node -> node -> Q) (rc : node -> Q).
Notation N_ := (nN nodelist).
Notation nd := (node_at nodelist).
Notation edge := (is_edge G nodelist).
Notation rX := (prX). Notation rY := (prY nodelist). Notation rXY := (prXY nodelist). Notation rXX := (prXX nodelist).
Notation sY := (psY). Notation sX := (psX). Notation sXY := (psXY nodelist). Notation sXX := (psXX nodelist).
Notation rdX := (pbSIR_dX G nodelist idx tr). Notation rdY := (pbSIR_dY G nodelist idx tr rc).
Notation rdXY := (pbSIR_dXY G nodelist idx tr rc). Notation rdXX := (pbSIR_dXX G nodelist idx tr).
Notation sdY := (pbSIS_dY G nodelist idx tr rc).
Notation sdXY := (pbSIS_dXY G nodelist idx tr rc). Notation sdXX := (pbSIS_dXX G nodelist idx tr rc).
Notation tin := (triples_in G nodelist idx tr). Notation tout := (triples_out G nodelist idx tr).

Lemma cell_lt i j : (i < N_)%nat -> (j < N_)%nat -> (i * N_ + j < N_ * N_)%nat.
Proof. intros. nia. Qed.

(* layout: the derivative vector has the layout of the state vector *)
Lemma pbSIR_layout V t i j : (i < N_)%nat -> (j < N_)%nat ->
  let D := dSIR_pair_based G nodelist idx tr rc V t in
  rX D i = rdX V i /\ rY D i = rdY V i /\ rXY D i j = rdXY V i j /\ rXX D i j = rdXX V i j.
Proof.
  intros Hi Hj D. unfold D, dSIR_pair_based, prX, prY, prXY, prXX, vnth. repeat split.
  - rewrite nth_app_lt by (rewrite tab_length; exact Hi). apply nth_tab. exact Hi.
  - rewrite nth_app_at by apply tab_length. rewrite nth_app_lt by (rewrite tab_length; exact Hi). apply nth_tab. exact Hi.
  - replace (2 * N_ + i * N_ + j)%nat with (N_ + (N_ + (i * N_ + j)))%nat by lia.
    rewrite !nth_app_at by apply tab_length.
    rewrite nth_app_lt by (rewrite tab2_length; apply cell_lt; assumption). apply nth_tab2; assumption.
  - replace (2 * N_ + N_ * N_ + i * N_ + j)%nat with (N_ + (N_ + (N_ * N_ + (i * N_ + j))))%nat by lia.
    rewrite !nth_app_at by apply tab_length. rewrite nth_app_at by apply tab2_length. apply nth_tab2; assumption.
Qed.
Lemma pbSIS_layout V t i j : (i < N_)%nat -> (j < N_)%nat ->
  let D := dSIS_pair_based G nodelist idx tr rc V t in
  sY D i = sdY V i /\ sXY D i j = sdXY V i j /\ sXX D i j = sdXX V i j.
Proof.
  intros Hi Hj D. unfold D, dSIS_pair_based, psY, psXY, psXX, vnth. repeat split.
  - rewrite nth_app_lt by (rewrite tab_length; exact Hi). apply nth_tab. exact Hi.
  - replace (N_ + i * N_ + j)%nat with (N_ + (i * N_ + j))%nat by lia.
    rewrite nth_app_at by apply tab_length.
    rewrite nth_app_lt by (rewrite tab2_length; apply cell_lt; assumption). apply nth_tab2; assumption.
  - replace (N_ + N_ * N_ + i * N_ + j)%nat with (N_ + (N_ * N_ + (i * N_ + j)))%nat by lia.
    rewrite nth_app_at by apply tab_length. rewrite nth_app_at by apply tab2_length. apply nth_tab2; assumption.
Qed.

(* C06: dX_i + dY_i = - gamma_i Y_i (Z_i = 1 - X_i - Y_i grows at rate gamma_i Y_i); dX_i <= 0 *)
Lemma pbSIR_dX_opp V i :
  rdX V i == - sumQ (map (fun v => tr (nd i) v * rXY V i (idx v)) (gadj G (nd i))).
Proof.
  unfold pbSIR_dX. cbv zeta. rewrite <- sum_map_opp. apply sum_map_ext. intros x _. ring.
Qed.
Lemma pbSIR_conserve V i : rdX V i + rdY V i == - rc (nd i) * rY V i.
Proof. rewrite pbSIR_dX_opp. unfold pbSIR_dY. cbv zeta. ring. Qed.
Lemma pbSIR_sign_dX V i : (forall u v, 0 <= tr u v) -> Forall (fun x => 0 <= x) V -> rdX V i <= 0.
Proof.
  intros Ht HV. rewrite pbSIR_dX_opp.
  assert (H : 0 <= sumQ (map (fun v => tr (nd i) v * rXY V i (idx v)) (gadj G (nd i)))).
  { apply sum_map_nonneg. intros x _. apply Qmult_le_0_compat; [apply Ht|apply nonneg_vnth; exact HV]. }
  lra.
Qed.

(* C08 tau = 0 *)
Lemma pbSIR_tau0 V i : (forall u v, tr u v == 0) -> rdX V i == 0 /\ rdY V i == - rc (nd i) * rY V i.
Proof.
  intros Ht. split.
  - unfold pbSIR_dX. cbv zeta. apply sum_map_zero. intros x _. rewrite Ht. ring.
  - unfold pbSIR_dY. cbv zeta. rewrite sum_map_zero by (intros x _; rewrite Ht; ring). ring.
Qed.
Lemma pbSIS_tau0 V i : (forall u v, tr u v == 0) -> sdY V i == - rc (nd i) * sY V i.
Proof. intros Ht. unfold pbSIS_dY. cbv zeta. rewrite sum_map_zero by (intros x _; rewrite Ht; ring). ring. Qed.

(* congruence of the closure sums in their accessors *)
Lemma tin_ext Xi Xi' XY XY' XX XX' i j :
  Xi j == Xi' j -> (forall k, XY j k == XY' j k) -> XX i j == XX' i j -> tin Xi XY XX i j == tin Xi' XY' XX' i j.
Proof. intros H1 H2 H3. unfold triples_in. cbv zeta. apply sum_map_ext. intros w _. rewrite H1, H2, H3. reflexivity. Qed.
Lemma tout_ext Xi Xi' XY XY' A A' i j :
  Xi i == Xi' i -> (forall k, XY i k == XY' i k) -> A i j == A' i j -> tout Xi XY A i j == tout Xi' XY' A' i j.
Proof. intros H1 H2 H3. unfold triples_out. cbv zeta. apply sum_map_ext. intros w _. rewrite H1, H2, H3. reflexivity. Qed.

(* C08 gamma = 0: at X = 1 - Y the SIS system and the (Y, XY, XX) part of the SIR system coincide, dX = -dY *)
Lemma pb_gamma0 W i j :
  (forall u, rc u == 0) -> (i < N_)%nat -> (j < N_)%nat ->
  let V := tab N_ (fun k => 1 - vnth k W) ++ W in
  rdY V i == sdY W i /\ rdX V i == - sdY W i /\ rdXY V i j == sdXY W i j /\ rdXX V i j == sdXX W i j.
Proof.
  intros Hr Hi Hj V.
  assert (EY : forall k, rY V k = sY W k) by (intros k; unfold V, prY, psY, vnth; apply nth_app_at; apply tab_length).
  assert (EXY : forall a b, rXY V a b = sXY W a b).
  { intros a b. unfold V, prXY, psXY, vnth. replace (2 * N_ + a * N_ + b)%nat with (N_ + (N_ + a * N_ + b))%nat by lia.
    apply nth_app_at. apply tab_length. }
  assert (EXX : forall a b, rXX V a b = sXX W a b).
  { intros a b. unfold V, prXX, psXX, vnth. replace (2 * N_ + N_ * N_ + a * N_ + b)%nat with (N_ + (N_ + N_ * N_ + a * N_ + b))%nat by lia.
    apply nth_app_at. apply tab_length. }
  assert (EX : forall k, (k < N_)%nat -> rX V k = sX W k).
  { intros k Hk. unfold V, prX, psX, psY, vnth. rewrite nth_app_lt by (rewrite tab_length; exact Hk). apply nth_tab. exact Hk. }
  assert (E1 : rdY V i == sdY W i).
  { unfold pbSIR_dY, pbSIS_dY. cbv zeta. rewrite EY. apply Qplus_comp; [reflexivity|].
    apply sum_map_ext. intros v _. rewrite EXY. reflexivity. }
  assert (Ein : tin (fun k => inv0 (rX V k)) (rXY V) (rXX V) i j == tin (fun k => inv0 (sX W k)) (sXY W) (sXX W) i j).
  { apply tin_ext; [rewrite EX by exact Hj; reflexivity | intros k; rewrite EXY; reflexivity | rewrite EXX; reflexivity]. }
  assert (Eo1 : tout (fun k => inv0 (rX V k)) (rXY V) (rXY V) i j == tout (fun k => inv0 (sX W k)) (sXY W) (sXY W) i j).
  { apply tout_ext; [rewrite EX by exact Hi; reflexivity | intros k; rewrite EXY; reflexivity | rewrite EXY; reflexivity]. }
  assert (Eo2 : tout (fun k => inv0 (rX V k)) (rXY V) (rXX V) i j == tout (fun k => inv0 (sX W k)) (sXY W) (sXX W) i j).
  { apply tout_ext; [rewrite EX by exact Hi; reflexivity | intros k; rewrite EXY; reflexivity | rewrite EXX; reflexivity]. }
  split; [exact E1|]. split; [|split].
  - rewrite <- E1. assert (C := pbSIR_conserve V i). rewrite Hr in C. lra.
  - unfold pbSIR_dXY, pbSIS_dXY. cbv zeta. destruct (edge i j); [|reflexivity].
    rewrite Ein, Eo1, EXY, !Hr. ring.
  - unfold pbSIR_dXX, pbSIS_dXX. cbv zeta. destruct (edge i j); [|reflexivity].
    rewrite Ein, Eo2, !Hr. ring.
Qed.

(* ---- C07 (b): d-regular simple graph, uniform rates, uniform state ---- *)
Definition pb_regularb (d : nat) : bool :=
  forallb (fun i => let u := nd i in
     Nat.eqb (length (gadj G u)) d && nodupb (gadj G u) &&
     forallb (fun v => Nat.ltb (idx v) N_ && N.eqb (nd (idx v)) v && mem u (gadj G v)) (gadj G u)) (seq 0 N_).
Lemma pb_regular_spec d i : pb_regularb d = true -> (i < N_)%nat ->
  length (gadj G (nd i)) = d /\ nodupb (gadj G (nd i)) = true /\
  forall v, In v (gadj G (nd i)) -> (idx v < N_)%nat /\ nd (idx v) = v /\ mem (nd i) (gadj G v) = true.
Proof.
  intros H Hi. unfold pb_regularb in H. rewrite forallb_forall in H.
  specialize (H i). rewrite in_seq in H. specialize (H ltac:(lia)). cbv zeta in H.
  apply andb_prop in H. destruct H as [H12 H3]. apply andb_prop in H12. destruct H12 as [H1 H2].
  apply Nat.eqb_eq in H1. repeat split; try assumption.
  - rewrite forallb_forall in H3. specialize (H3 v H). apply andb_prop in H3. destruct H3 as [H3 _].
    apply andb_prop in H3. destruct H3 as [H3 _]. apply Nat.ltb_lt. exact H3.
  - rewrite forallb_forall in H3. specialize (H3 v H). apply andb_prop in H3. destruct H3 as [H3 _].
    apply andb_prop in H3. destruct H3 as [_ H3]. apply N.eqb_eq. exact H3.
  - rewrite forallb_forall in H3. specialize (H3 v H). apply andb_prop in H3. destruct H3 as [_ H3]. exact H3.
Qed.
Lemma edge_nbr d i v : pb_regularb d = true -> (i < N_)%nat -> In v (gadj G (nd i)) -> (idx v < N_)%nat /\ edge i (idx v) = true.
Proof.
  intros Hreg Hi Hv. destruct (pb_regular_spec d i Hreg Hi) as [_ [_ H]]. destruct (H v Hv) as [H1 [H2 _]].
  split; [exact H1|]. unfold is_edge. rewrite H2. apply mem_In. exact Hv.
Qed.
Lemma edge_sym d i j : pb_regularb d = true -> (i < N_)%nat -> edge i j = true -> edge j i = true.
Proof.
  intros Hreg Hi He. unfold is_edge in *. apply mem_In in He.
  destruct (pb_regular_spec d i Hreg Hi) as [_ [_ H]]. destruct (H _ He) as [_ [_ H3]]. exact H3.
Qed.

Section Uniform.
Variables (d : nat) (tau p : Q).
Hypothesis Hreg : pb_regularb d = true.
Hypothesis Htr : forall u v, tr u v == tau.

Lemma tin_uniform Xi XY XX xi q i j :
  (i < N_)%nat -> (j < N_)%nat -> edge i j = true ->
  Xi j == xi -> (forall k, (k < N_)%nat -> edge j k = true -> XY j k == p) -> XX i j == q ->
  tin Xi XY XX i j == (Qnat d - 1) * (tau * q * p * xi).
Proof.
  intros Hi Hj He HXi HXY HXX. unfold triples_in. cbv zeta.
  destruct (pb_regular_spec d j Hreg Hj) as [Hd [Hnd _]].
  assert (Hji := edge_sym d i j Hreg Hi He). unfold is_edge in Hji.
  rewrite (sum_map_const _ (tau * q * p * xi)).
  - rewrite others_length by assumption. rewrite Hd. rewrite Qnat_pred; [reflexivity|].
    apply mem_In in Hji. rewrite <- Hd. destruct (gadj G (nd j)); [destruct Hji|cbn; lia].
  - intros w Hw. apply others_In in Hw. destruct (edge_nbr d j w Hreg Hj Hw) as [Hk Hek].
    rewrite Htr, HXi, HXX, (HXY _ Hk Hek). reflexivity.
Qed.
Lemma tout_uniform Xi XY A xi a i j :
  (i < N_)%nat -> (j < N_)%nat -> edge i j = true ->
  Xi i == xi -> (forall k, (k < N_)%nat -> edge i k = true -> XY i k == p) -> A i j == a ->
  tout Xi XY A i j == (Qnat d - 1) * (tau * p * a * xi).
Proof.
  intros Hi Hj He HXi HXY HA. unfold triples_out. cbv zeta.
  destruct (pb_regular_spec d i Hreg Hi) as [Hd [Hnd _]].
  rewrite (sum_map_const _ (tau * p * a * xi)).
  - rewrite others_length by assumption. rewrite Hd. rewrite Qnat_pred; [reflexivity|].
    unfold is_edge in He. apply mem_In in He. rewrite <- Hd. destruct (gadj G (nd i)); [destruct He|cbn; lia].
  - intros w Hw. apply others_In in Hw. destruct (edge_nbr d i w Hreg Hi Hw) as [Hk Hek].
    rewrite Htr, HXi, HA, (HXY _ Hk Hek). reflexivity.
Qed.
Lemma nbr_sum_uniform XY i : (i < N_)%nat -> (forall k, (k < N_)%nat -> edge i k = true -> XY i k == p) ->
  sumQ (map (fun v => XY i (idx v)) (gadj G (nd i))) == Qnat d * p.
Proof.
  intros Hi HXY. destruct (pb_regular_spec d i Hreg Hi) as [Hd _].
  rewrite (sum_map_const _ p); [rewrite Hd; reflexivity|].
  intros v Hv. destruct (edge_nbr d i v Hreg Hi Hv) as [Hk Hek]. apply HXY; assumption.
Qed.
End Uniform.

(* [SI] = sum_i sum_{v ~ i} <X_i Y_v>, [SS] likewise: the pair counts of the population-level models *)
Definition pb_pairs (XY : nat -> nat -> Q) : Q :=
  sumn N_ (fun i => sumQ (map (fun v => XY i (idx v)) (gadj G (nd i)))).
Lemma pb_pairs_uniform d p XY : pb_regularb d = true ->
  (forall i k, (i < N_)%nat -> (k < N_)%nat -> edge i k = true -> XY i k == p) -> pb_pairs XY == Qnat N_ * (Qnat d * p).
Proof.
  intros Hreg H. unfold pb_pairs. apply sumn_const. intros i Hi.
  apply (nbr_sum_uniform d p Hreg); [exact Hi|]. intros k Hk He. apply H; assumption.
Qed.

Definition pbSIR_uniform (V : vec) (x y p q : Q) : Prop :=
  (forall k, (k < N_)%nat -> rX V k == x /\ rY V k == y) /\
  (forall i j, (i < N_)%nat -> (j < N_)%nat -> edge i j = true -> rXY V i j == p /\ rXX V i j == q).
Definition pbSIS_uniform (V : vec) (y p q : Q) : Prop :=
  (forall k, (k < N_)%nat -> sY V k == y) /\
  (forall i j, (i < N_)%nat -> (j < N_)%nat -> edge i j = true -> sXY V i j == p /\ sXX V i j == q).

Lemma pbSIR_uniform_field d tau g x y p q V :
  pb_regularb d = true -> (forall u v, tr u v == tau) -> (forall u, rc u == g) -> pbSIR_uniform V x y p q ->
  forall i, (i < N_)%nat ->
    rdX V i == - (tau * Qnat d * p) /\ rdY V i == tau * Qnat d * p - g * y /\
    forall j, (j < N_)%nat -> edge i j = true ->
      rdXY V i j == - (tau + g) * p + (Qnat d - 1) * tau * (q - p) * p * inv0 x /\
      rdXX V i j == - (2 * (Qnat d - 1) * tau * p * q * inv0 x).
Proof.
  intros Hreg Ht Hr [HU1 HU2] i Hi.
  assert (HXYi : forall a k, (a < N_)%nat -> (k < N_)%nat -> edge a k = true -> rXY V a k == p) by (intros a k Ha Hk He; apply (HU2 a k Ha Hk He)).
  assert (Hs : sumQ (map (fun v => tr (nd i) v * rXY V i (idx v)) (gadj G (nd i))) == tau * (Qnat d * p)).
  { rewrite <- (nbr_sum_uniform d p Hreg (rXY V) i Hi (fun k => HXYi i k Hi)). rewrite <- sum_map_scal.
    apply sum_map_ext. intros v _. rewrite Ht. reflexivity. }
  split; [|split].
  - rewrite pbSIR_dX_opp, Hs. ring.
  - unfold pbSIR_dY. cbv zeta. rewrite Hs, Hr. destruct (HU1 i Hi) as [_ ->]. ring.
  - intros j Hj He. destruct (HU2 i j Hi Hj He) as [Ep Eq].
    assert (Ii : inv0 (rX V i) == inv0 x) by (apply inv0_proper; apply (HU1 i Hi)).
    assert (Ij : inv0 (rX V j) == inv0 x) by (apply inv0_proper; apply (HU1 j Hj)).
    unfold pbSIR_dXY, pbSIR_dXX. cbv zeta. rewrite He.
    rewrite (tin_uniform d tau p Hreg Ht _ _ _ (inv0 x) q i j Hi Hj He Ij (fun k => HXYi j k Hj) Eq).
    rewrite (tout_uniform d tau p Hreg Ht _ _ (rXY V) (inv0 x) p i j Hi Hj He Ii (fun k => HXYi i k Hi) Ep).
    rewrite (tout_uniform d tau p Hreg Ht _ _ (rXX V) (inv0 x) q i j Hi Hj He Ii (fun k => HXYi i k Hi) Eq).
    rewrite Ht, Hr, Ep. split; ring.
Qed.

Lemma pbSIS_uniform_field d tau g y p q V :
  pb_regularb d = true -> (forall u v, tr u v == tau) -> (forall u, rc u == g) -> pbSIS_uniform V y p q ->
  forall i, (i < N_)%nat ->
    sdY V i == tau * Qnat d * p - g * y /\
    forall j, (j < N_)%nat -> edge i j = true ->
      sdXY V i j == - (tau + g) * p + g * (1 - 2 * p - q) + (Qnat d - 1) * tau * (q - p) * p * inv0 (1 - y) /\
      sdXX V i j == 2 * g * p - 2 * (Qnat d - 1) * tau * p * q * inv0 (1 - y).
Proof.
  intros Hreg Ht Hr [HU1 HU2] i Hi.
  assert (HXYi : forall a k, (a < N_)%nat -> (k < N_)%nat -> edge a k = true -> sXY V a k == p) by (intros a k Ha Hk He; apply (HU2 a k Ha Hk He)).
  assert (Hs : sumQ (map (fun v => tr (nd i) v * sXY V i (idx v)) (gadj G (nd i))) == tau * (Qnat d * p)).
  { rewrite <- (nbr_sum_uniform d p Hreg (sXY V) i Hi (fun k => HXYi i k Hi)). rewrite <- sum_map_scal.
    apply sum_map_ext. intros v _. rewrite Ht. reflexivity. }
  split.
  - unfold pbSIS_dY. cbv zeta. rewrite Hs, Hr, (HU1 i Hi). ring.
  - intros j Hj He. destruct (HU2 i j Hi Hj He) as [Ep Eq].
    assert (Heji := edge_sym d i j Hreg Hi He). destruct (HU2 j i Hj Hi Heji) as [Ep' _].
    assert (Ii : inv0 (sX V i) == inv0 (1 - y)) by (apply inv0_proper; unfold psX; rewrite (HU1 i Hi); reflexivity).
    assert (Ij : inv0 (sX V j) == inv0 (1 - y)) by (apply inv0_proper; unfold psX; rewrite (HU1 j Hj); reflexivity).
    unfold pbSIS_dXY, pbSIS_dXX. cbv zeta. rewrite He.
    rewrite (tin_uniform d tau p Hreg Ht _ _ _ (inv0 (1 - y)) q i j Hi Hj He Ij (fun k => HXYi j k Hj) Eq).
    rewrite (tout_uniform d tau p Hreg Ht _ _ (sXY V) (inv0 (1 - y)) p i j Hi Hj He Ii (fun k => HXYi i k Hi) Ep).
    rewrite (tout_uniform d tau p Hreg Ht _ _ (sXX V) (inv0 (1 - y)) q i j Hi Hj He Ii (fun k => HXYi i k Hi) Eq).
    unfold psYY. rewrite Ht, !Hr, Ep, Ep', Eq. split; ring.
Qed.

(* Phi (V) = (sum X_i, sum Y_i, [SI], [SS]); on the symmetric subspace of a d-regular graph the pair-based field is
   tangent to the subspace and Phi o rhs_big = rhs_small o Phi with rhs_small the homogeneous pairwise model, n = d *)
Lemma pbSIR_lump d tau g x y p q V t :
  pb_regularb d = true -> (forall u v, tr u v == tau) -> (forall u, rc u == g) -> pbSIR_uniform V x y p q ->
  ~ x == 0 -> ~ Qnat N_ == 0 -> ~ Qnat d == 0 ->
  let D := dSIR_pair_based G nodelist idx tr rc V t in
  let Phi := fun W => [sumn N_ (rX W); sumn N_ (rY W); pb_pairs (rXY W); pb_pairs (rXX W)] in
  pbSIR_uniform D (- (tau * Qnat d * p)) (tau * Qnat d * p - g * y)
                  (- (tau + g) * p + (Qnat d - 1) * tau * (q - p) * p * inv0 x) (- (2 * (Qnat d - 1) * tau * p * q * inv0 x)) /\
  veq (Phi D) (dSIR_homogeneous_pairwise (Phi V) t (Qnat d) tau g).
Proof.
  intros Hreg Ht Hr HU Hx HN Hd D Phi.
  assert (F := pbSIR_uniform_field d tau g x y p q V Hreg Ht Hr HU).
  assert (HD : pbSIR_uniform D (- (tau * Qnat d * p)) (tau * Qnat d * p - g * y)
                  (- (tau + g) * p + (Qnat d - 1) * tau * (q - p) * p * inv0 x) (- (2 * (Qnat d - 1) * tau * p * q * inv0 x))).
  { split.
    - intros k Hk. destruct (pbSIR_layout V t k k Hk Hk) as [E1 [E2 _]]. fold D in E1, E2. rewrite E1, E2.
      destruct (F k Hk) as [F1 [F2 _]]. split; assumption.
    - intros i j Hi Hj He. destruct (pbSIR_layout V t i j Hi Hj) as [_ [_ [E3 E4]]]. fold D in E3, E4. rewrite E3, E4.
      destruct (F i Hi) as [_ [_ F3]]. apply F3; assumption. }
  split; [exact HD|].
  destruct HU as [U1 U2]. destruct HD as [D1 D2].
  assert (S1 : sumn N_ (rX V) == Qnat N_ * x) by (apply sumn_const; intros k Hk; apply (U1 k Hk)).
  assert (S2 : sumn N_ (rY V) == Qnat N_ * y) by (apply sumn_const; intros k Hk; apply (U1 k Hk)).
  assert (S3 : pb_pairs (rXY V) == Qnat N_ * (Qnat d * p)) by (apply pb_pairs_uniform; [exact Hreg|intros i k Hi Hk He; apply (U2 i k Hi Hk He)]).
  assert (S4 : pb_pairs (rXX V) == Qnat N_ * (Qnat d * q)) by (apply pb_pairs_uniform; [exact Hreg|intros i k Hi Hk He; apply (U2 i k Hi Hk He)]).
  assert (T1 : sumn N_ (rX D) == Qnat N_ * (- (tau * Qnat d * p))) by (apply sumn_const; intros k Hk; apply (D1 k Hk)).
  assert (T2 : sumn N_ (rY D) == Qnat N_ * (tau * Qnat d * p - g * y)) by (apply sumn_const; intros k Hk; apply (D1 k Hk)).
  assert (T3 : pb_pairs (rXY D) == Qnat N_ * (Qnat d * (- (tau + g) * p + (Qnat d - 1) * tau * (q - p) * p * inv0 x)))
    by (apply pb_pairs_uniform; [exact Hreg|intros i k Hi Hk He; apply (D2 i k Hi Hk He)]).
  assert (T4 : pb_pairs (rXX D) == Qnat N_ * (Qnat d * (- (2 * (Qnat d - 1) * tau * p * q * inv0 x))))
    by (apply pb_pairs_uniform; [exact Hreg|intros i k Hi Hk He; apply (D2 i k Hi Hk He)]).
  unfold Phi, dSIR_homogeneous_pairwise. cbn [vnth nth].
  repeat constructor; rewrite ?T1, ?T2, ?T3, ?T4, ?S1, ?S2, ?S3, ?S4, ?(inv0_nz x Hx); field; repeat split; assumption.
Qed.

(* SIS: Phi (V) = (S = sum (1 - Y_i), [SI], [SS]) with N and n = d parameters of the homogeneous pairwise model;
   dPhi (D) = (- sum D_Y, [dXY], [dXX]) *)
Lemma pbSIS_lump d tau g y p q V t :
  pb_regularb d = true -> (forall u v, tr u v == tau) -> (forall u, rc u == g) -> pbSIS_uniform V y p q ->
  ~ 1 - y == 0 -> ~ Qnat N_ == 0 -> ~ Qnat d == 0 ->
  let D := dSIS_pair_based G nodelist idx tr rc V t in
  pbSIS_uniform D (tau * Qnat d * p - g * y)
                  (- (tau + g) * p + g * (1 - 2 * p - q) + (Qnat d - 1) * tau * (q - p) * p * inv0 (1 - y))
                  (2 * g * p - 2 * (Qnat d - 1) * tau * p * q * inv0 (1 - y)) /\
  veq [- sumn N_ (sY D); pb_pairs (sXY D); pb_pairs (sXX D)]
      (dSIS_homogeneous_pairwise [sumn N_ (sX V); pb_pairs (sXY V); pb_pairs (sXX V)] t (Qnat N_) (Qnat d) tau g).
Proof.
  intros Hreg Ht Hr HU Hx HN Hd D.
  assert (F := pbSIS_uniform_field d tau g y p q V Hreg Ht Hr HU).
  assert (HD : pbSIS_uniform D (tau * Qnat d * p - g * y)
                  (- (tau + g) * p + g * (1 - 2 * p - q) + (Qnat d - 1) * tau * (q - p) * p * inv0 (1 - y))
                  (2 * g * p - 2 * (Qnat d - 1) * tau * p * q * inv0 (1 - y))).
  { split.
    - intros k Hk. destruct (pbSIS_layout V t k k Hk Hk) as [E1 _]. fold D in E1. rewrite E1. apply (F k Hk).
    - intros i j Hi Hj He. destruct (pbSIS_layout V t i j Hi Hj) as [_ [E3 E4]]. fold D in E3, E4. rewrite E3, E4.
      destruct (F i Hi) as [_ F3]. apply F3; assumption. }
  split; [exact HD|].
  destruct HU as [U1 U2]. destruct HD as [D1 D2].
  assert (S1 : sumn N_ (sX V) == Qnat N_ * (1 - y)) by (apply sumn_const; intros k Hk; unfold psX; rewrite (U1 k Hk); reflexivity).
  assert (S3 : pb_pairs (sXY V) == Qnat N_ * (Qnat d * p)) by (apply pb_pairs_uniform; [exact Hreg|intros i k Hi Hk He; apply (U2 i k Hi Hk He)]).
  assert (S4 : pb_pairs (sXX V) == Qnat N_ * (Qnat d * q)) by (apply pb_pairs_uniform; [exact Hreg|intros i k Hi Hk He; apply (U2 i k Hi Hk He)]).
  assert (T1 : sumn N_ (sY D) == Qnat N_ * (tau * Qnat d * p - g * y)) by (apply sumn_const; intros k Hk; apply (D1 k Hk)).
  assert (T3 : pb_pairs (sXY D) == Qnat N_ * (Qnat d * (- (tau + g) * p + g * (1 - 2 * p - q) + (Qnat d - 1) * tau * (q - p) * p * inv0 (1 - y))))
    by (apply pb_pairs_uniform; [exact Hreg|intros i k Hi Hk He; apply (D2 i k Hi Hk He)]).
  assert (T4 : pb_pairs (sXX D) == Qnat N_ * (Qnat d * (2 * g * p - 2 * (Qnat d - 1) * tau * p * q * inv0 (1 - y))))
    by (apply pb_pairs_uniform; [exact Hreg|intros i k Hi Hk He; apply (D2 i k Hi Hk He)]).
  unfold dSIS_homogeneous_pairwise. cbn [vnth nth].
  repeat constructor; rewrite ?T1, ?T3, ?T4, ?S1, ?S3, ?S4, ?(inv0_nz (1 - y) Hx); field; repeat split; assumption.
Qed.
End PairBased.

(* ====================================================================== *)
(* heterogeneous pairwise                                                  *)
(* ====================================================================== *)
Lemma Qmult_nz a b : ~ a == 0 -> ~ b == 0 -> ~ a * b == 0.
Proof. intros Ha Hb H. apply Qmult_integral in H. tauto. Qed.

Section HetPair.
Variables (tau gamma : Q) (Ks : vec).
Notation kc := (length Ks).

(* layout *)
Lemma hpSIS_layout X Nk NkNl t i j : (i < kc)%nat -> (j < kc)%nat ->
  let D := dSIS_heterogeneous_pairwise X Nk NkNl tau gamma Ks t in
  vnth i D = hs_dSk X Nk tau gamma Ks i /\
  vnth (kc + i * kc + j) D = hs_dSkSl X tau gamma Ks i j /\
  vnth (kc + kc * kc + i * kc + j) D = hs_dSkIl X NkNl tau gamma Ks i j.
Proof.
  intros Hi Hj D. unfold D, dSIS_heterogeneous_pairwise, hs_kc, vnth. repeat split.
  - rewrite nth_app_lt by (rewrite tab_length; exact Hi). apply nth_tab. exact Hi.
  - replace (kc + i * kc + j)%nat with (kc + (i * kc + j))%nat by lia. rewrite nth_app_at by apply tab_length.
    rewrite nth_app_lt by (rewrite tab2_length; nia). apply nth_tab2; assumption.
  - replace (kc + kc * kc + i * kc + j)%nat with (kc + (kc * kc + (i * kc + j)))%nat by lia.
    rewrite nth_app_at by apply tab_length. rewrite nth_app_at by apply tab2_length. apply nth_tab2; assumption.
Qed.
Lemma hpSIR_layout X t i j : (i < kc)%nat -> (j < kc)%nat ->
  let D := dSIR_heterogeneous_pairwise X tau gamma Ks t in
  vnth i D = hr_dSk X tau Ks i /\ vnth (kc + i) D = hr_dIk X tau gamma Ks i /\
  vnth (2 * kc + i * kc + j) D = hr_dSkSl X tau Ks i j /\
  vnth (2 * kc + kc * kc + i * kc + j) D = hr_dSkIl X tau gamma Ks i j.
Proof.
  intros Hi Hj D. unfold D, dSIR_heterogeneous_pairwise, hr_kc, vnth. repeat split.
  - rewrite nth_app_lt by (rewrite tab_length; exact Hi). apply nth_tab. exact Hi.
  - rewrite nth_app_at by apply tab_length. rewrite nth_app_lt by (rewrite tab_length; exact Hi). apply nth_tab. exact Hi.
  - replace (2 * kc + i * kc + j)%nat with (kc + (kc + (i * kc + j)))%nat by lia. rewrite !nth_app_at by apply tab_length.
    rewrite nth_app_lt by (rewrite tab2_length; nia). apply nth_tab2; assumption.
  - replace (2 * kc + kc * kc + i * kc + j)%nat with (kc + (kc + (kc * kc + (i * kc + j))))%nat by lia.
    rewrite !nth_app_at by apply tab_length. rewrite nth_app_at by apply tab2_length. apply nth_tab2; assumption.
Qed.

(* C06.  SIS: [I_k] = N_k - [S_k] and [I_k I_l] = N_kl - [S_k S_l] - [S_k I_l] - [I_k S_l] are not coordinates, the returned
   tuple rebuilds them by subtraction (structural conservation); what the right-hand side must preserve is the symmetry
   [S_k S_l] = [S_l S_k] that the subtraction relies on.  SIR: [R_k] = N_k - [S_k] - [I_k] grows at rate gamma [I_k]. *)
Lemma hpSIS_dSkSl_sym X i j : hs_dSkSl X tau gamma Ks i j == hs_dSkSl X tau gamma Ks j i.
Proof. unfold hs_dSkSl. ring. Qed.
Lemma hpSIR_dSkSl_sym X i j : hr_dSkSl X tau Ks i j == hr_dSkSl X tau Ks j i.
Proof. unfold hr_dSkSl. ring. Qed.
Lemma hpSIR_conserve X i : hr_dSk X tau Ks i + hr_dIk X tau gamma Ks i == - gamma * hr_Ik X Ks i.
Proof. unfold hr_dSk, hr_dIk. ring. Qed.
Lemma hpSIR_sign_dS X i : 0 <= tau -> Forall (fun x => 0 <= x) X -> hr_dSk X tau Ks i <= 0.
Proof.
  intros Ht HX. unfold hr_dSk.
  assert (H : 0 <= hr_SkI X Ks i) by (unfold hr_SkI; apply sumn_nonneg; intros j _; apply nonneg_vnth; exact HX).
  assert (H2 : 0 <= tau * hr_SkI X Ks i) by (apply Qmult_le_0_compat; assumption). lra.
Qed.
Lemma hpSIS_layout_Sk X Nk NkNl t i : (i < kc)%nat ->
  vnth i (dSIS_heterogeneous_pairwise X Nk NkNl tau gamma Ks t) = hs_dSk X Nk tau gamma Ks i.
Proof.
  intros Hi. unfold dSIS_heterogeneous_pairwise, hs_kc, vnth.
  rewrite nth_app_lt by (rewrite tab_length; exact Hi). apply nth_tab. exact Hi.
Qed.
Lemma hpSIS_sum_dSk X Nk NkNl t :
  let D := dSIS_heterogeneous_pairwise X Nk NkNl tau gamma Ks t in
  sumn kc (fun i => vnth i D) == gamma * sumn kc (hs_Ik X Nk) - tau * sumn kc (hs_SkI X Ks).
Proof.
  intros D. rewrite <- !sumn_scal, <- sumn_sub. apply sumn_ext. intros i Hi.
  unfold D. rewrite hpSIS_layout_Sk by exact Hi. reflexivity.
Qed.
End HetPair.

(* C08 tau = 0 *)
Lemma hpSIS_tau0 X Nk gamma Ks i : hs_dSk X Nk 0 gamma Ks i == gamma * hs_Ik X Nk i.
Proof. unfold hs_dSk. ring. Qed.
Lemma hpSIR_tau0 X gamma Ks i : hr_dSk X 0 Ks i == 0 /\ hr_dIk X 0 gamma Ks i == - gamma * hr_Ik X Ks i.
Proof. unfold hr_dSk, hr_dIk. split; ring. Qed.

(* C08 gamma = 0: SIS state Sk ++ M (M = SkSl ++ SkIl), SIR state Sk ++ Ik ++ M; where no guard fires
   (k [S_k] <> 0 for every class) the S-subsystems have the same right-hand side *)
Lemma hp_gamma0 Sk Ik M Nk NkNl tau Ks i j :
  length Sk = length Ks -> length Ik = length Ks ->
  (forall l, (l < length Ks)%nat -> ~ vnth l Ks == 0 /\ ~ vnth l Sk == 0) ->
  (i < length Ks)%nat -> (j < length Ks)%nat ->
  let Xs := Sk ++ M in let Xr := Sk ++ Ik ++ M in
  hs_dSk Xs Nk tau 0 Ks i == hr_dSk Xr tau Ks i /\
  hs_dSkSl Xs tau 0 Ks i j == hr_dSkSl Xr tau Ks i j /\
  hs_dSkIl Xs NkNl tau 0 Ks i j == hr_dSkIl Xr tau 0 Ks i j.
Proof.
  intros LS LI Hnz Hi Hj Xs Xr. set (kc := length Ks) in *.
  assert (ES : forall l, (l < kc)%nat -> hs_Sk Xs l = hr_Sk Xr l).
  { intros l Hl. unfold hs_Sk, hr_Sk, Xs, Xr, vnth. rewrite !nth_app_lt by lia. reflexivity. }
  assert (ESS : forall a b, hs_SkSl Xs Ks a b = hr_SkSl Xr Ks a b).
  { intros a b. unfold hs_SkSl, hr_SkSl, hs_kc, hr_kc, Xs, Xr, vnth. fold kc.
    replace (kc + a * kc + b)%nat with (kc + (a * kc + b))%nat by lia.
    replace (2 * kc + a * kc + b)%nat with (kc + (kc + (a * kc + b)))%nat by lia.
    rewrite !nth_app_at by assumption. reflexivity. }
  assert (ESI : forall a b, hs_SkIl Xs Ks a b = hr_SkIl Xr Ks a b).
  { intros a b. unfold hs_SkIl, hr_SkIl, hs_kc, hr_kc, Xs, Xr, vnth. fold kc.
    replace (kc + kc * kc + a * kc + b)%nat with (kc + (kc * kc + a * kc + b))%nat by lia.
    replace (2 * kc + kc * kc + a * kc + b)%nat with (kc + (kc + (kc * kc + a * kc + b)))%nat by lia.
    rewrite !nth_app_at by assumption. reflexivity. }
  assert (EI : forall l, hs_SkI Xs Ks l == hr_SkI Xr Ks l).
  { intros l. unfold hs_SkI, hr_SkI, hs_kc, hr_kc. apply sumn_ext. intros b _. rewrite ESI. reflexivity. }
  assert (ED : forall l, (l < kc)%nat -> hs_kxSk Xs Ks l == hr_den Xr Ks l).
  { intros l Hl. destruct (Hnz l Hl) as [HK HS]. unfold hs_kxSk, hr_den. rewrite <- (ES l Hl).
    assert (HS' : ~ hs_Sk Xs l == 0) by (unfold hs_Sk, Xs, vnth; rewrite nth_app_lt by lia; exact HS).
    rewrite !guard0_nz; [ring| | |].
    - intro H. apply HS'. lra.
    - intro H. apply HK. lra.
    - apply Qmult_nz; [exact HK|]. intro H. apply HS'. lra. }
  assert (E3 : forall a b, (b < kc)%nat -> hs_SkSlI Xs Ks a b == hr_SkSlI Xr Ks a b).
  { intros a b Hb. unfold hs_SkSlI, hr_SkSlI. rewrite ESS, EI, (ED b Hb). reflexivity. }
  assert (E4 : forall a b, (a < kc)%nat -> hs_ISkIl Xs Ks a b == hr_ISkIl Xr Ks a b).
  { intros a b Ha. unfold hs_ISkIl, hr_ISkIl. rewrite ESI, EI, (ED a Ha). reflexivity. }
  split; [|split].
  - unfold hs_dSk, hr_dSk. rewrite EI. ring.
  - unfold hs_dSkSl, hr_dSkSl. rewrite !E3 by assumption. ring.
  - unfold hs_dSkIl, hr_dSkIl. rewrite E3, E4, ESI by assumption. ring.
Qed.

(* C07 (c): a single degree class k (what the *_from_graph wrappers build on a k-regular graph) is the homogeneous
   pairwise model with n = k.  Heterogeneous layout (S, SS, SI) / (S, I, SS, SI), homogeneous (S, SI, SS) / (S, I, SI, SS). *)
Ltac hp_compute :=
  cbv [dSIS_heterogeneous_pairwise dSIR_heterogeneous_pairwise tab tab2 hs_kc hr_kc
       hs_dSk hs_dSkSl hs_dSkIl hs_Ik hs_SkI hs_IkIl hs_kxSk hs_SkSlI hs_ISkIl hs_Sk hs_SkSl hs_SkIl
       hr_dSk hr_dIk hr_dSkSl hr_dSkIl hr_Ik hr_SkI hr_den hr_SkSlI hr_ISkIl hr_Sk hr_SkSl hr_SkIl
       sumn vsum sumQ seq map flat_map app fold_right length Nat.add Nat.mul vnth nth].
Lemma hpSIS_single_class S SS SI N k tau gamma t :
  ~ k == 0 -> ~ S == 0 ->
  let small := dSIS_homogeneous_pairwise [S; SI; SS] t N k tau gamma in
  veq (dSIS_heterogeneous_pairwise [S; SS; SI] [N] [N * k] tau gamma [k] t) [vnth 0 small; vnth 2 small; vnth 1 small].
Proof.
  intros Hk HS small. unfold small, dSIS_homogeneous_pairwise. hp_compute.
  assert (Hg : guard0 (k * (1 * S)) == k * S) by (rewrite guard0_nz; [ring|]; apply Qmult_nz; [exact Hk|]; intro H; apply HS; lra).
  repeat constructor; rewrite ?Hg; field; repeat split; assumption.
Qed.
Lemma hpSIR_single_class S I SS SI k tau gamma t :
  ~ k == 0 -> ~ S == 0 ->
  let small := dSIR_homogeneous_pairwise [S; I; SI; SS] t k tau gamma in
  veq (dSIR_heterogeneous_pairwise [S; I; SS; SI] tau gamma [k] t) [vnth 0 small; vnth 1 small; vnth 3 small; vnth 2 small].
Proof.
  intros Hk HS small. unfold small, dSIR_homogeneous_pairwise. hp_compute.
  assert (Hg1 : guard0 (1 * k) == k) by (rewrite guard0_nz; [ring|]; intro H; apply Hk; lra).
  assert (Hg2 : guard0 (1 * S) == S) by (rewrite guard0_nz; [ring|]; intro H; apply HS; lra).
  repeat constructor; rewrite ?Hg1, ?Hg2; field; repeat split; assumption.
Qed.

(* ====================================================================== *)
(* effective degree: double sums and index shifts                          *)
(* ====================================================================== *)
Lemma sumn2_ext r c f g : (forall s i, (s < r)%nat -> (i < c)%nat -> f s i == g s i) -> sumn2 r c f == sumn2 r c g.
Proof. intros H. unfold sumn2. apply sumn_ext. intros s Hs. apply sumn_ext. intros i Hi. apply H; assumption. Qed.
Lemma sumn2_add r c f g : sumn2 r c (fun s i => f s i + g s i) == sumn2 r c f + sumn2 r c g.
Proof. unfold sumn2. rewrite <- sumn_add. apply sumn_ext. intros s _. apply sumn_add. Qed.
Lemma sumn2_sub r c f g : sumn2 r c (fun s i => f s i - g s i) == sumn2 r c f - sumn2 r c g.
Proof. unfold sumn2. rewrite <- sumn_sub. apply sumn_ext. intros s _. apply sumn_sub. Qed.
Lemma sumn2_scal r c a f : sumn2 r c (fun s i => a * f s i) == a * sumn2 r c f.
Proof. unfold sumn2. rewrite <- sumn_scal. apply sumn_ext. intros s _. apply sumn_scal. Qed.
Lemma sumn2_swap r c f : sumn2 r c f == sumn2 c r (fun i s => f s i).
Proof.
  unfold sumn2. induction r.
  - rewrite sumn_O. symmetry. apply sumn_zero. intros i _. apply sumn_O.
  - rewrite sumn_S_last, IHr. rewrite <- sumn_add. apply sumn_ext. intros i _. rewrite sumn_S_last. reflexivity.
Qed.

(* sum_s [s <> 0] g (s-1) = sum_{s < n-1} g s *)
Lemma sum_shift_up n g : sumn n (fun s => if Nat.eqb s 0 then 0 else g (s - 1)%nat) == sumn (n - 1) g.
Proof.
  destruct n; [reflexivity|]. rewrite sumn_S_first. cbn [Nat.eqb]. replace (S n - 1)%nat with n by lia.
  rewrite (sumn_ext n _ g) by (intros i _; cbn [Nat.eqb]; replace (S i - 1)%nat with i by lia; reflexivity). ring.
Qed.
(* sum_i [i+1 <> c] h (i+1) = sum_{i < c} h i - h 0 *)
Lemma sum_shift_down c h : (1 <= c)%nat -> sumn c (fun i => if Nat.eqb (i + 1) c then 0 else h (i + 1)%nat) == sumn c h - h 0%nat.
Proof.
  intros Hc. destruct c as [|c]; [lia|]. rewrite sumn_S_last, (sumn_S_first c h).
  replace (Nat.eqb (c + 1) (S c)) with true by (symmetry; apply Nat.eqb_eq; lia).
  rewrite (sumn_ext c _ (fun i => h (S i))).
  - ring.
  - intros i Hi. replace (Nat.eqb (i + 1) (S c)) with false by (symmetry; apply Nat.eqb_neq; lia).
    replace (i + 1)%nat with (S i) by lia. reflexivity.
Qed.
Lemma Qnat_add1 i : Qnat (i + 1) == Qnat i + 1.
Proof. replace (i + 1)%nat with (S i) by lia. apply Qnat_S. Qed.

Section Shifts.
Variables (r c : nat) (A : nat -> nat -> Q).
(* an infected neighbour recovers: (s, i) <- (s-1, i+1) [SIS] or (s, i+1) [SIR], leaving at rate i *)
Lemma gamma_shift_SIS : (1 <= r)%nat -> (1 <= c)%nat ->
  sumn2 r c (fun s i => (Qnat i + 1) * sm1ip1 c A s i - Qnat i * A s i) == - sumn c (fun i => Qnat i * A (r - 1)%nat i).
Proof.
  intros Hr Hc. rewrite sumn2_sub. unfold sumn2.
  rewrite (sumn_ext r (fun s => sumn c (fun i => (Qnat i + 1) * sm1ip1 c A s i))
                      (fun s => if Nat.eqb s 0 then 0 else sumn c (fun i => Qnat i * A (s - 1)%nat i))).
  - rewrite (sum_shift_up r (fun s => sumn c (fun i => Qnat i * A s i))). destruct r as [|r']; [lia|]. replace (S r' - 1)%nat with r' by lia. rewrite sumn_S_last. ring.
  - intros s Hs. unfold sm1ip1. destruct (Nat.eqb s 0) eqn:E.
    + cbn [orb]. apply sumn_zero. intros i _. ring.
    + cbn [orb]. rewrite (sumn_ext c _ (fun i => if Nat.eqb (i + 1) c then 0 else (fun k => Qnat k * A (s - 1)%nat k) (i + 1)%nat)).
      * rewrite (sum_shift_down c (fun k => Qnat k * A (s - 1)%nat k)) by exact Hc. cbn beta. rewrite Qnat_0. ring.
      * intros i _. destruct (Nat.eqb (i + 1) c); [ring|]. cbn beta. rewrite Qnat_add1. reflexivity.
Qed.
Lemma gamma_shift_SIR s :
  sumn c (fun i => (Qnat i + 1) * sip1 c A s i - Qnat i * A s i) == 0.
Proof.
  destruct c as [|c'] eqn:Ec; [reflexivity|]. rewrite <- Ec. assert (Hc : (1 <= c)%nat) by lia.
  rewrite sumn_sub.
  rewrite (sumn_ext c _ (fun i => if Nat.eqb (i + 1) c then 0 else (fun k => Qnat k * A s k) (i + 1)%nat)).
  - rewrite (sum_shift_down c (fun k => Qnat k * A s k)) by exact Hc. cbn beta. rewrite Qnat_0. ring.
  - intros i _. unfold sip1. destruct (Nat.eqb (i + 1) c); [ring|]. cbn beta. rewrite Qnat_add1. reflexivity.
Qed.
End Shifts.
(* a susceptible neighbour is infected: (s, i) <- (s+1, i-1), leaving at rate s: the transposed shift *)
Lemma tau_shift r c A : (1 <= r)%nat -> (1 <= c)%nat ->
  sumn2 r c (fun s i => (Qnat s + 1) * sp1im1 r A s i - Qnat s * A s i) == - sumn r (fun s => Qnat s * A s (c - 1)%nat).
Proof.
  intros Hr Hc. rewrite sumn2_swap.
  rewrite <- (gamma_shift_SIS c r (fun a b => A b a) Hc Hr).
  apply sumn2_ext. intros i s _ _. unfold sp1im1, sm1ip1. reflexivity.
Qed.

Lemma sumn2_lin4 r c a1 a2 a3 a4 f1 f2 f3 f4 :
  sumn2 r c (fun s i => a1 * f1 s i + a2 * f2 s i + a3 * f3 s i + a4 * f4 s i)
  == a1 * sumn2 r c f1 + a2 * sumn2 r c f2 + a3 * sumn2 r c f3 + a4 * sumn2 r c f4.
Proof.
  rewrite (sumn2_add r c (fun s i => a1 * f1 s i + a2 * f2 s i + a3 * f3 s i) (fun s i => a4 * f4 s i)).
  rewrite (sumn2_add r c (fun s i => a1 * f1 s i + a2 * f2 s i) (fun s i => a3 * f3 s i)).
  rewrite (sumn2_add r c (fun s i => a1 * f1 s i) (fun s i => a2 * f2 s i)).
  rewrite !sumn2_scal. reflexivity.
Qed.

(* ====================================================================== *)
(* effective degree                                                        *)
(* ====================================================================== *)
Section EffDeg.
Variables (r c : nat).
Hypothesis Hr : (1 <= r)%nat.
Hypothesis Hc : (1 <= c)%nat.

(* the cells from which the code's zero-padded shifts lose mass: last row (s = r-1, i >= 1) and last column
   (i = c-1, s >= 1).  In the model's feasible region S_{s,i} = 0 for s + i > kmax = r-1 = c-1, so both vanish. *)
Definition lost_row (A : nat -> nat -> Q) : Q := sumn c (fun i => Qnat i * A (r - 1)%nat i).
Definition lost_col (A : nat -> nat -> Q) : Q := sumn r (fun s => Qnat s * A s (c - 1)%nat).
Definition boundary0 (A : nat -> nat -> Q) : Prop :=
  (forall i, (1 <= i < c)%nat -> A (r - 1)%nat i == 0) /\ (forall s, (1 <= s < r)%nat -> A s (c - 1)%nat == 0).
Lemma boundary0_lost A : boundary0 A -> lost_row A == 0 /\ lost_col A == 0.
Proof.
  intros [H1 H2]. split.
  - apply sumn_zero. intros i Hi. destruct i; [rewrite Qnat_0; ring|]. rewrite H1 by lia. ring.
  - apply sumn_zero. intros s Hs. destruct s; [rewrite Qnat_0; ring|]. rewrite H2 by lia. ring.
Qed.

Section SIS.
Variables (X : vec) (tau gamma : Q).
Notation S := (es_S X c). Notation I := (es_I X r c).
Notation dS := (es_dS X r c tau gamma). Notation dI := (es_dI X r c tau gamma).

Lemma edSIS_layout t s i : (s < r)%nat -> (i < c)%nat ->
  let D := dSIS_effective_degree X r c tau gamma t in
  vnth (s * c + i) D = dS s i /\ vnth (r * c + s * c + i) D = dI s i.
Proof.
  intros Hs Hi D. unfold D, dSIS_effective_degree, vnth. split.
  - rewrite nth_app_lt by (rewrite tab2_length; nia). apply nth_tab2; assumption.
  - replace (r * c + s * c + i)%nat with (r * c + (s * c + i))%nat by lia.
    rewrite nth_app_at by apply tab2_length. apply nth_tab2; assumption.
Qed.
Lemma edSIS_totals t :
  let D := dSIS_effective_degree X r c tau gamma t in
  vsum (firstn (r * c) D) == sumn2 r c dS /\ vsum (skipn (r * c) D) == sumn2 r c dI.
Proof.
  intros D. unfold D, dSIS_effective_degree. split.
  - rewrite <- (tab2_length r c dS) at 1. rewrite firstn_app, Nat.sub_diag, firstn_all. cbn [firstn]. rewrite app_nil_r. apply vsum_tab2.
  - rewrite <- (tab2_length r c dS) at 1. rewrite skipn_app, Nat.sub_diag, skipn_all. cbn [skipn app]. apply vsum_tab2.
Qed.

(* exact totals of the two blocks of the right-hand side *)
Lemma edSIS_sum_dS :
  sumn2 r c dS == - tau * es_SI X r c + gamma * sumn2 r c I - gamma * lost_row S - tau * es_ISS X r c / es_SS X r c * lost_col S.
Proof.
  rewrite (sumn2_ext r c dS (fun s i =>
     (- tau) * (Qnat i * S s i) + gamma * I s i
     + gamma * ((Qnat i + 1) * sm1ip1 c S s i - Qnat i * S s i)
     + (tau * es_ISS X r c / es_SS X r c) * ((Qnat s + 1) * sp1im1 r S s i - Qnat s * S s i)))
    by (intros s i _ _; unfold es_dS, Qdiv; ring).
  rewrite sumn2_lin4, gamma_shift_SIS, tau_shift by assumption. unfold es_SI, lost_row, lost_col. ring.
Qed.
Lemma edSIS_sum_dI :
  sumn2 r c dI == tau * es_SI X r c - gamma * sumn2 r c I - gamma * lost_row I - tau * (es_ISI X r c / es_SI X r c + 1) * lost_col I.
Proof.
  rewrite (sumn2_ext r c dI (fun s i =>
     tau * (Qnat i * S s i) + (- gamma) * I s i
     + gamma * ((Qnat i + 1) * sm1ip1 c I s i - Qnat i * I s i)
     + (tau * (es_ISI X r c / es_SI X r c + 1)) * ((Qnat s + 1) * sp1im1 r I s i - Qnat s * I s i)))
    by (intros s i _ _; unfold es_dI, Qdiv; ring).
  rewrite sumn2_lin4, gamma_shift_SIS, tau_shift by assumption. unfold es_SI, lost_row, lost_col. ring.
Qed.
(* C06: S = sum S_si and I = sum I_si are both read from the solver: S + I = N rests on this *)
Lemma edSIS_conserve : boundary0 S -> boundary0 I -> sumn2 r c dS + sumn2 r c dI == 0.
Proof.
  intros HS HI. destruct (boundary0_lost _ HS) as [S1 S2]. destruct (boundary0_lost _ HI) as [I1 I2].
  rewrite edSIS_sum_dS, edSIS_sum_dI, S1, S2, I1, I2. ring.
Qed.
End SIS.

(* C08 tau = 0 (SIS): S' = + gamma I, I' = - gamma I for the totals *)
Lemma edSIS_tau0 X gamma : boundary0 (es_S X c) -> boundary0 (es_I X r c) ->
  sumn2 r c (es_dS X r c 0 gamma) == gamma * sumn2 r c (es_I X r c) /\
  sumn2 r c (es_dI X r c 0 gamma) == - gamma * sumn2 r c (es_I X r c).
Proof.
  intros HS HI. destruct (boundary0_lost _ HS) as [S1 S2]. destruct (boundary0_lost _ HI) as [I1 I2].
  rewrite edSIS_sum_dS, edSIS_sum_dI, S1, S2, I1, I2. split; unfold Qdiv; ring.
Qed.

Section SIR.
Variables (X : vec) (N tau gamma : Q).
Notation S := (er_S X c).
Notation dS := (er_dS X r c tau gamma).
Lemma edSIR_layout t s i : (s < r)%nat -> (i < c)%nat ->
  let D := dSIR_effective_degree X N r c tau gamma t in
  vnth (s * c + i) D = dS s i /\ vnth (r * c) D = er_dR X N r c gamma.
Proof.
  intros Hs Hi D. unfold D, dSIR_effective_degree, vnth. split.
  - rewrite nth_app_lt by (rewrite tab2_length; nia). apply nth_tab2; assumption.
  - rewrite <- (Nat.add_0_r (r * c)). rewrite nth_app_at by apply tab2_length. reflexivity.
Qed.
Lemma edSIR_sum_dS :
  sumn2 r c dS == - tau * sumn2 r c (fun s i => Qnat i * S s i) - tau * er_ISS X r c / er_SS X r c * lost_col S.
Proof.
  rewrite (sumn2_ext r c dS (fun s i =>
     (- tau) * (Qnat i * S s i) + 0 * 0
     + gamma * ((Qnat i + 1) * sip1 c S s i - Qnat i * S s i)
     + (tau * er_ISS X r c / er_SS X r c) * ((Qnat s + 1) * sp1im1 r S s i - Qnat s * S s i)))
    by (intros s i _ _; unfold er_dS, Qdiv; ring).
  rewrite sumn2_lin4, tau_shift by assumption.
  assert (G : sumn2 r c (fun s i => (Qnat i + 1) * sip1 c S s i - Qnat i * S s i) == 0)
    by (unfold sumn2; apply sumn_zero; intros s _; apply gamma_shift_SIR).
  rewrite G. unfold lost_col. ring.
Qed.
(* C06: R' = gamma I with I = N - S - R the very expression the wrapper returns; S' <= 0 *)
Lemma edSIR_dR : er_dR X N r c gamma == gamma * (N - sumn2 r c S - er_R X r c).
Proof. reflexivity. Qed.
Lemma edSIR_sign_dS : boundary0 S -> 0 <= tau -> Forall (fun x => 0 <= x) X -> sumn2 r c dS <= 0.
Proof.
  intros HS Ht HX. destruct (boundary0_lost _ HS) as [_ S2]. rewrite edSIR_sum_dS, S2.
  assert (H : 0 <= sumn2 r c (fun s i => Qnat i * S s i)).
  { unfold sumn2. apply sumn_nonneg. intros s _. apply sumn_nonneg. intros i _.
    apply Qmult_le_0_compat; [apply Qnat_nonneg|apply nonneg_vnth; exact HX]. }
  assert (H2 : 0 <= tau * sumn2 r c (fun s i => Qnat i * S s i)) by (apply Qmult_le_0_compat; assumption).
  unfold Qdiv. lra.
Qed.
End SIR.
(* C08 tau = 0 (SIR): S' = 0 for the total (no boundary condition needed), hence I' = -S' - R' = - gamma I *)
Lemma edSIR_tau0 X N gamma :
  sumn2 r c (er_dS X r c 0 gamma) == 0 /\
  - sumn2 r c (er_dS X r c 0 gamma) - er_dR X N r c gamma == - gamma * (N - sumn2 r c (er_S X c) - er_R X r c).
Proof.
  assert (E : sumn2 r c (er_dS X r c 0 gamma) == 0) by (rewrite edSIR_sum_dS; unfold Qdiv; ring).
  split; [exact E|]. rewrite E, edSIR_dR. ring.
Qed.

(* C08 gamma = 0: the S-blocks of the SIS and SIR systems coincide cell by cell *)
Lemma ed_gamma0 Ssi Isi (R : Q) tau s i :
  length Ssi = (r * c)%nat -> (s < r)%nat -> (i < c)%nat ->
  es_dS (Ssi ++ Isi) r c tau 0 s i == er_dS (Ssi ++ [R]) r c tau 0 s i.
Proof.
  intros HL Hs Hi.
  assert (EA : forall a b, (a < r)%nat -> (b < c)%nat -> es_S (Ssi ++ Isi) c a b = er_S (Ssi ++ [R]) c a b).
  { intros a b Ha Hb. unfold es_S, er_S, vnth. rewrite !nth_app_lt by (rewrite HL; nia). reflexivity. }
  assert (E1 : es_ISS (Ssi ++ Isi) r c == er_ISS (Ssi ++ [R]) r c)
    by (unfold es_ISS, er_ISS; apply sumn2_ext; intros a b Ha Hb; rewrite EA by assumption; reflexivity).
  assert (E2 : es_SS (Ssi ++ Isi) r c == er_SS (Ssi ++ [R]) r c)
    by (unfold es_SS, er_SS; apply sumn2_ext; intros a b Ha Hb; rewrite EA by assumption; reflexivity).
  assert (E3 : sp1im1 r (es_S (Ssi ++ Isi) c) s i = sp1im1 r (er_S (Ssi ++ [R]) c) s i).
  { unfold sp1im1. destruct (Nat.eqb i 0) eqn:Ei; [reflexivity|]. destruct (Nat.eqb (s + 1) r) eqn:Es; [reflexivity|].
    cbn [orb]. apply Nat.eqb_neq in Ei, Es. apply EA; lia. }
  unfold es_dS, er_dS. rewrite E1, E2, E3, (EA s i Hs Hi). unfold Qdiv. ring.
Qed.
End EffDeg.

(* ====================================================================== *)
(* C08: the pair-based SIR system on a single edge is exact                *)
(* ====================================================================== *)
(* Graph 0 - 1.  Rates as the code reads them: a susceptible u is infected by an infected neighbour v at rate
   trans_rate_fxn(u, v); u recovers at rate rec_rate_fxn(u).  The 9-state Markov chain on (status of 0, status of 1)
   has the generator `master1` below (p_ab = probability that node 0 is in a, node 1 in b).  The marginals
   X_i, Y_i, <X_i Y_j>, <X_i X_j> of ANY probability vector p (a fortiori of the states reachable from a pure initial
   condition) evolve by the pair-based right-hand side: no closure term is left because neither endpoint has a
   second neighbour.  This is an identity between the two right-hand sides; the lift to solutions is ODE uniqueness
   for this linear system (cited). *)
Definition edge_adj (u : node) : list node := match u with N0 => [1%N] | Npos xH => [0%N] | _ => [] end.
Definition edge_graph : graph := mkGraph [0%N; 1%N] edge_adj edge_adj false (fun _ _ => 1) (fun _ => 1) false false.
Definition edge_idx (u : node) : nat := match u with N0 => 0%nat | _ => 1%nat end.
Section SingleEdge.
Variables (t01 t10 g0 g1 : Q).
Definition edge_tr (u v : node) : Q := match u with N0 => t01 | _ => t10 end.
Definition edge_rc (u : node) : Q := match u with N0 => g0 | _ => g1 end.
(* p = [SS; SI; SR; IS; II; IR; RS; RI; RR] *)
Definition master1 (p : vec) : vec :=
  let SS := vnth 0 p in let SI := vnth 1 p in let SR := vnth 2 p in
  let IS := vnth 3 p in let II := vnth 4 p in let IR := vnth 5 p in
  let RS := vnth 6 p in let RI := vnth 7 p in let RR := vnth 8 p in
  [ 0;                                           (* SS: nobody can infect *)
    - (t01 + g1) * SI;                           (* SI: 0 is infected by 1 at rate trans(0,1); 1 recovers *)
    g1 * SI;                                     (* SR *)
    - (t10 + g0) * IS;                           (* IS *)
    t10 * IS + t01 * SI - (g0 + g1) * II;        (* II *)
    g1 * II - g0 * IR;                           (* IR *)
    g0 * IS;                                     (* RS *)
    g0 * II - g1 * RI;                           (* RI *)
    g0 * IR + g1 * RI ].                         (* RR *)
(* marginals in the layout of _dSIR_pair_based_: X ++ Y ++ XY (2x2) ++ XX (2x2); diagonal (non-edge) cells are 0 *)
Definition marginals1 (p : vec) : vec :=
  let SS := vnth 0 p in let SI := vnth 1 p in let SR := vnth 2 p in
  let IS := vnth 3 p in let II := vnth 4 p in let IR := vnth 5 p in
  let RS := vnth 6 p in let RI := vnth 7 p in
  [ SS + SI + SR; SS + IS + RS;  IS + II + IR; SI + II + RI;  0; SI; IS; 0;  0; SS; SS; 0 ].

Lemma pair_based_single_edge_exact pSS pSI pSR pIS pII pIR pRS pRI pRR t :
  let p := [pSS; pSI; pSR; pIS; pII; pIR; pRS; pRI; pRR] in
  veq (dSIR_pair_based edge_graph [0%N; 1%N] edge_idx edge_tr edge_rc (marginals1 p) t)
      (marginals1 (master1 p)).
Proof.
  cbv [dSIR_pair_based pbSIR_dX pbSIR_dY pbSIR_dXY pbSIR_dXX triples_in triples_out prX prY prXY prXX
       is_edge others node_at nN mem existsb filter negb orb N.eqb Pos.eqb
       edge_graph edge_adj edge_idx edge_tr edge_rc gadj marginals1 master1
       tab tab2 sumQ seq map flat_map app fold_right length Nat.add Nat.mul vnth nth].
  repeat constructor; ring.
Qed.
(* the closure sums are empty on this graph: the system is closed without the pair approximation *)
Lemma single_edge_no_closure Xi XY XX i j :
  (i < 2)%nat -> (j < 2)%nat -> is_edge edge_graph [0%N; 1%N] i j = true ->
  triples_in edge_graph [0%N; 1%N] edge_idx edge_tr Xi XY XX i j == 0 /\
  triples_out edge_graph [0%N; 1%N] edge_idx edge_tr Xi XY XX i j == 0.
Proof.
  intros Hi Hj. destruct i as [|[|i]], j as [|[|j]]; try lia;
    cbv [is_edge node_at nth mem existsb edge_graph gadj edge_adj N.eqb Pos.eqb orb];
    intros H; try discriminate H; split; reflexivity.
Qed.
End SingleEdge.

(* ====================================================================== *)
(* heterogeneous pairwise SIS: structural conservation, pair-count consistency *)
(* ====================================================================== *)
Section HetPairConsistency.
Variables (X Nk NkNl : vec) (tau gamma : Q) (Ks : vec).
Notation kc := (length Ks).
Notation Sk := (hs_Sk X). Notation Ik := (hs_Ik X Nk).
Notation SkSl := (hs_SkSl X Ks). Notation SkIl := (hs_SkIl X Ks). Notation IkIl := (hs_IkIl X NkNl Ks).
(* [S_k] + [I_k] = N_k and [S_k S_l] + [S_k I_l] + [I_k S_l] + [I_k I_l] = N_kl hold by construction *)
Lemma hpSIS_structural i j :
  Sk i + Ik i == vnth i Nk /\ SkSl i j + SkIl i j + SkIl j i + IkIl i j == vnth (i * kc + j) NkNl.
Proof. unfold hs_Ik, hs_IkIl, hs_kc. split; ring. Qed.
(* the pairs around class k are counted consistently with the class sizes, sum_l ([S_k S_l] + [S_k I_l]) = k [S_k] and
   sum_l ([I_k S_l] + [I_k I_l]) = k [I_k]: where this holds (and [S_k S_l] is symmetric) it is preserved to first order *)
Lemma hpSIS_pair_count_consistency k :
  ~ vnth k Ks * (1 * Sk k) == 0 ->
  (forall l, (l < kc)%nat -> SkSl l k == SkSl k l) ->
  sumn kc (fun l => SkSl k l + SkIl k l) == vnth k Ks * Sk k ->
  sumn kc (fun l => SkIl l k + IkIl k l) == vnth k Ks * Ik k ->
  sumn kc (fun l => hs_dSkSl X tau gamma Ks k l + hs_dSkIl X NkNl tau gamma Ks k l) == vnth k Ks * hs_dSk X Nk tau gamma Ks k.
Proof.
  intros Hnz Hsym HS HI.
  set (a := (vnth k Ks - 1) * hs_SkI X Ks k / hs_kxSk X Ks k).
  rewrite (sumn_ext kc _ (fun l => gamma * (SkIl l k + IkIl k l) + ((- tau * a) * (SkSl l k + SkIl k l) + (- tau) * SkIl k l))).
  2:{ intros l _. unfold hs_dSkSl, hs_dSkIl, hs_SkSlI, hs_ISkIl, a, Qdiv. ring. }
  rewrite sumn_add, sumn_add, !sumn_scal.
  rewrite (sumn_ext kc (fun l => SkSl l k + SkIl k l) (fun l => SkSl k l + SkIl k l)) by (intros l Hl; rewrite (Hsym l Hl); reflexivity).
  rewrite HS, HI. fold (hs_SkI X Ks k). unfold a, hs_dSk, hs_kxSk. rewrite guard0_nz by exact Hnz.
  change (sumn kc (SkIl k)) with (hs_SkI X Ks k). set (K := vnth k Ks) in *. set (S := Sk k) in *. set (I := Ik k). set (SI := hs_SkI X Ks k).
  field. split; intro H; apply Hnz; rewrite H; ring.
Qed.
End HetPairConsistency.

(* ====================================================================== *)
(* a concrete 2-regular graph (triangle) for the non-vacuity examples      *)
(* ====================================================================== *)
Definition tri_adj (u : node) : list node :=
  match u with N0 => [1%N; 2%N] | Npos xH => [0%N; 2%N] | Npos (xO xH) => [0%N; 1%N] | _ => [] end.
Definition tri_graph : graph := mkGraph [0%N; 1%N; 2%N] tri_adj tri_adj false (fun _ _ => 1) (fun _ => 1) false false.
Definition tri_nodes : list node := [0%N; 1%N; 2%N].
Definition tri_idx (u : node) : nat := N.to_nat u.
Definition tri_V (x y p q : Q) : vec :=
  [x; x; x;  y; y; y;  0; p; p;  p; 0; p;  p; p; 0;  0; q; q;  q; 0; q;  q; q; 0].
Definition tri_W (y p q : Q) : vec :=
  [y; y; y;  0; p; p;  p; 0; p;  p; p; 0;  0; q; q;  q; 0; q;  q; q; 0].
Lemma tri_regular : pb_regularb tri_graph tri_nodes tri_idx 2 = true /\ ib_regularb tri_graph tri_nodes tri_idx 2 = true.
Proof. split; vm_compute; reflexivity. Qed.
Lemma tri_uniform_SIR x y p q : pbSIR_uniform tri_graph tri_nodes (tri_V x y p q) x y p q.
Proof.
  split.
  - intros k Hk. change (nN tri_nodes) with 3%nat in Hk. destruct k as [|[|[|k]]]; try lia; split; reflexivity.
  - intros i j Hi Hj. change (nN tri_nodes) with 3%nat in Hi, Hj.
    destruct i as [|[|[|i]]]; try lia; destruct j as [|[|[|j]]]; try lia; intros He; try discriminate He; split; reflexivity.
Qed.
Lemma tri_uniform_SIS y p q : pbSIS_uniform tri_graph tri_nodes (tri_W y p q) y p q.
Proof.
  split.
  - intros k Hk. change (nN tri_nodes) with 3%nat in Hk. destruct k as [|[|[|k]]]; try lia; reflexivity.
  - intros i j Hi Hj. change (nN tri_nodes) with 3%nat in Hi, Hj.
    destruct i as [|[|[|i]]]; try lia; destruct j as [|[|[|j]]]; try lia; intros He; try discriminate He; split; reflexivity.
Qed.


(* ====================================================================== *)
(* C07 (c'): heterogeneous pairwise on the single class k = compact pairwise on the classes 0..k with only class k
   occupied (through the homogeneous pairwise model: Rhs7P.lump_*_compact_pairwise_regular) *)
(* ====================================================================== *)
Lemma unitv_veq k a b : a == b -> veq (unitv k a) (unitv k b).
Proof. intros H. unfold unitv. apply veq_app; [reflexivity|]. constructor; [exact H|constructor]. Qed.

Lemma hp_to_compact_SIS kk s SI SS N t tau g :
  ~ Qnat kk == 0 -> ~ s == 0 ->
  let hp := dSIS_heterogeneous_pairwise [s; SS; SI] [N] [N * Qnat kk] tau g [Qnat kk] t in
  veq (dSIS_compact_pairwise (unitv kk s ++ [SI; SS]) t (unitv kk N) (N * Qnat kk) tau g)
      (unitv kk (vnth 0 hp) ++ [vnth 2 hp; vnth 1 hp]).
Proof.
  intros Hk Hs hp.
  assert (H1 := lump_SIS_compact_pairwise_regular t tau g kk s SI SS N Hk Hs). cbv zeta in H1.
  assert (H2 := hpSIS_single_class s SS SI N (Qnat kk) tau g t Hk Hs). cbv zeta in H2. fold hp in H2.
  set (small := dSIS_homogeneous_pairwise [s; SI; SS] t N (Qnat kk) tau g) in *.
  assert (E0 : vnth 0 hp == vnth 0 small) by (apply (veq_nth_all _ _ H2 0%nat)).
  assert (E1 : vnth 1 hp == vnth 2 small) by (apply (veq_nth_all _ _ H2 1%nat)).
  assert (E2 : vnth 2 hp == vnth 1 small) by (apply (veq_nth_all _ _ H2 2%nat)).
  etransitivity; [exact H1|]. apply veq_app; [apply unitv_veq; symmetry; exact E0|].
  repeat constructor; symmetry; assumption.
Qed.
Lemma hp_to_compact_SIR kk s SS SI R N t tau g :
  ~ Qnat kk == 0 -> ~ s == 0 ->
  let hp := dSIR_heterogeneous_pairwise [s; N - s - R; SS; SI] tau g [Qnat kk] t in
  veq (dSIR_compact_pairwise (unitv kk s ++ [SS; SI; R]) t N tau g)
      (unitv kk (vnth 0 hp) ++ [vnth 2 hp; vnth 3 hp; - (vnth 0 hp + vnth 1 hp)]).
Proof.
  intros Hk Hs hp.
  destruct (lump_SIR_compact_pairwise_regular t tau g kk s SS SI R N Hk Hs) as [H1 H1']. cbv zeta in H1, H1'.
  assert (H2 := hpSIR_single_class s (N - s - R) SS SI (Qnat kk) tau g t Hk Hs). cbv zeta in H2. fold hp in H2.
  set (small := dSIR_homogeneous_pairwise [s; N - s - R; SI; SS] t (Qnat kk) tau g) in *.
  assert (E0 : vnth 0 hp == vnth 0 small) by (apply (veq_nth_all _ _ H2 0%nat)).
  assert (E1 : vnth 1 hp == vnth 1 small) by (apply (veq_nth_all _ _ H2 1%nat)).
  assert (E2 : vnth 2 hp == vnth 3 small) by (apply (veq_nth_all _ _ H2 2%nat)).
  assert (E3 : vnth 3 hp == vnth 2 small) by (apply (veq_nth_all _ _ H2 3%nat)).
  etransitivity; [exact H1|]. apply veq_app; [apply unitv_veq; symmetry; exact E0|].
  repeat constructor; try (symmetry; assumption). rewrite E0, E1, H1'. ring.
Qed.
