(* Proofs about Model/EventSIS.v, part 3: the event loop of fast_nonMarkov_SIS
   simulates the reference agenda (stuttering on attempts that hit an infected
   target), the initial phase, and the refinement theorem of C13. *)
From EoNV Require Import Prelude Samp Graph EventSIS EventSISP EventSISP2.
From Coq Require Import Permutation Sorted Lqa.

Section NM3.
Variable g : graph.
Variable dur : node -> nat -> Q.
Variable delays : node -> node -> nat -> list Q.
Variable tmax : xtime.

Notation vis := (vis tmax).
Notation Rel := (Rel tmax).
Notation QI := (QI tmax).
Notation entry_ok := (entry_ok tmax).
Notation nloop := (n_loop g dur delays tmax).
Notation rloop := (r_loop g dur delays tmax).

Definition set_items (S : nst) (l : list (qent nev)) : nst :=
  mkN (ns_stat S) (ns_rec S) (ns_ord S) (mkQ l (q_ctr (ns_q S))) (ns_log S).

Lemma n_loop_mono : forall f s s', nloop f s = Ok s' -> nloop (S f) s = Ok s'.
Proof.
  induction f as [|f IH]; intros s s' H.
  - cbn [n_loop] in *. destruct (q_items (ns_q s)) as [|[[t c] e] rest]; [exact H|discriminate].
  - cbn [n_loop] in H. remember (S f) as f1. cbn [n_loop]. subst f1.
    destruct (q_items (ns_q s)) as [|[[t c] e] rest]; [exact H|]. apply IH. exact H.
Qed.

Lemma expand_time_ge : forall stat rec e x, entry_ok stat rec e -> In x (expand e) -> qtime e <= fst x.
Proof.
  intros stat rec [[t c] e] x [V He] Hx. cbn [qtime fst snd] in *. destruct e as [v|[u|] v fut]; cbn [expand] in Hx.
  - destruct Hx as [<-|[]]. cbn [fst]. lra.
  - unfold atts in Hx. apply in_map_iff in Hx. destruct Hx as [tx [<- Hin]]. cbn [fst].
    destruct Hin as [<-|Hin]; [lra|]. destruct (ascending_cons t fut He) as [_ F].
    rewrite Forall_forall in F. specialize (F tx Hin). cbn beta in F. lra.
  - destruct Hx.
Qed.

Definition hd_item (e : qent nev) : Q * aev :=
  match snd e with
  | NRec v => (qtime e, ARec v)
  | NTrans (Some u) v _ => (qtime e, AAtt u v)
  | NTrans None v _ => (qtime e, ARec v)
  end.
Definition tl_items (e : qent nev) : list (Q * aev) :=
  match snd e with
  | NTrans (Some u) v fut => atts u v fut
  | _ => []
  end.
Lemma expand_hd_tl : forall stat rec e, entry_ok stat rec e -> expand e = hd_item e :: tl_items e.
Proof.
  intros stat rec [[t c] e] [V He]. cbn [snd] in He. destruct e as [v|[u|] v fut]; try reflexivity. destruct He.
Qed.

(* the earliest agenda item is the head of the earliest queue entry, unless it is dead *)
Lemma head_is_head : forall stat rec e q' t a rest,
  QI stat rec (e :: q') ->
  StronglySorted ltT ((t, a) :: rest) ->
  (forall x, In x (vis (expandQ (e :: q'))) -> In x ((t, a) :: rest)) ->
  In (t, a) (vis (expandQ (e :: q'))) ->
  hd_item e = (t, a).
Proof.
  intros stat rec e q' t a rest [Hs Hf] Hsort Hsub Hin.
  inversion Hf as [|? ? He Hf']; subst. inversion Hs as [|? ? Hs' Hle]; subst.
  assert (Hhd : In (hd_item e) ((t, a) :: rest)).
  { apply Hsub. apply in_vis. split.
    - cbn [expandQ flat_map]. apply in_or_app. left. rewrite (expand_hd_tl stat rec e He). left. reflexivity.
    - destruct He as [V _]. destruct e as [[te c] ev]. unfold hd_item. cbn [snd qtime fst] in *.
      destruct ev as [v|[u|] v fut]; exact V. }
  destruct Hhd as [E|Hr]; [symmetry; exact E|exfalso].
  inversion Hsort as [|? ? _ Frest]; subst. rewrite Forall_forall in Frest. specialize (Frest _ Hr). unfold ltT in Frest. cbn [fst] in Frest.
  assert (Ht : fst (hd_item e) = qtime e) by (destruct e as [[te c] [v|[u|] v fut]]; reflexivity).
  rewrite Ht in Frest.
  apply in_vis in Hin. destruct Hin as [Hin _]. cbn [expandQ flat_map] in Hin. apply in_app_or in Hin.
  destruct Hin as [Hin|Hin].
  - pose proof (expand_time_ge stat rec e (t, a) He Hin) as K. cbn [fst] in K. lra.
  - apply in_flat_map in Hin. destruct Hin as [ej [Hj Hin]].
    rewrite Forall_forall in Hle, Hf'. specialize (Hle ej Hj). cbn beta in Hle.
    pose proof (expand_time_ge stat rec ej (t, a) (Hf' ej Hj) Hin) as K. cbn [fst] in K. lra.
Qed.

Lemma rel_items_nil : forall now S R, Rel now S R -> r_ag R = [] -> q_items (ns_q S) = [].
Proof.
  intros now S R H E. destruct (rel_ag _ _ _ _ H) as [dead [Hp _]]. rewrite E in Hp.
  apply Permutation_nil in Hp. apply app_eq_nil in Hp. destruct Hp as [Hp _].
  destruct (q_items (ns_q S)) as [|e q'] eqn:Eq; [reflexivity|exfalso].
  destruct (rel_q _ _ _ _ H) as [_ Hf]. rewrite Eq in Hf. inversion Hf as [|? ? He _]; subst.
  assert (K : In (hd_item e) (vis (expandQ (e :: q')))).
  { apply in_vis. split.
    - cbn [expandQ flat_map]. apply in_or_app. left. rewrite (expand_hd_tl _ _ e He). left. reflexivity.
    - destruct He as [V _]. destruct e as [[te c] ev]. unfold hd_item. cbn [snd qtime fst] in *.
      destruct ev as [v|[u|] v fut]; exact V. }
  rewrite Hp in K. destruct K.
Qed.

Lemma sim_main : forall f S R now R',
  Rel now S R -> rloop f R = Ok R' -> r_ok R' = true ->
  exists S', nloop f S = Ok S' /\ ns_log S' = r_log R'.
Proof.
  induction f as [|f IH]; intros S R now R' HR Hl Hok.
  - cbn [r_loop] in Hl. destruct (r_ag R) as [|[t a] rest] eqn:Ea; [|discriminate]. injection Hl as <-.
    exists S. cbn [n_loop]. rewrite (rel_items_nil now S R HR Ea). split; [reflexivity|apply (rel_log _ _ _ _ HR)].
  - cbn [r_loop] in Hl. destruct (r_ag R) as [|[t a] rest] eqn:Ea.
    { injection Hl as <-. exists S. cbn [n_loop]. rewrite (rel_items_nil now S R HR Ea).
      split; [reflexivity|apply (rel_log _ _ _ _ HR)]. }
    set (R0 := mkR (r_stat R) (r_ord R) rest (r_log R) (r_ok R)) in *.
    pose proof (r_loop_ok_mono g dur delays tmax f _ _ Hl Hok) as Hok1.
    destruct HR as [Hst Hord Hlog [dead [Hp Hd]] Hq Hrec [Hsort Hnow] Hbin].
    rewrite Ea in Hp, Hsort, Hnow.
    assert (Hsort' : StronglySorted ltT rest) by (inversion Hsort; assumption).
    assert (Hgt : Forall (fun x => t < fst x) rest) by (inversion Hsort; assumption).
    assert (Hinv0 : RInv t rest) by (split; assumption).
    assert (HrecR : forall w, ns_stat S w = stI -> xlt (ns_rec S w) tmax = true ->
                              In (ns_rec S w, ARec w) ((t, a) :: rest)) by (intros; rewrite <- Ea; auto).
    assert (Hx : In (t, a) (vis (expandQ (q_items (ns_q S))) ++ dead)) by (eapply Permutation_in; [exact Hp|left; reflexivity]).
    apply in_app_or in Hx. destruct Hx as [Hx|Hx].
    + (* the head of the first queue entry *)
      destruct (q_items (ns_q S)) as [|e q'] eqn:Eq; [destruct Hx|].
      assert (Hsub : forall x, In x (vis (expandQ (e :: q'))) -> In x ((t, a) :: rest)).
      { intros x K. eapply Permutation_in; [apply Permutation_sym; exact Hp|]. apply in_or_app. left. exact K. }
      pose proof (head_is_head _ _ e q' t a rest Hq Hsort Hsub Hx) as Hhd.
      destruct Hq as [Hts Hf]. inversion Hf as [|? ? He Hf']; subst. inversion Hts as [|? ? Hts' Hle]; subst.
      assert (Hq' : QI (ns_stat S) (ns_rec S) q') by (split; assumption).
      assert (Hp' : Permutation rest (vis (tl_items e) ++ vis (expandQ q') ++ dead)).
      { cbn [expandQ flat_map] in Hp. rewrite (expand_hd_tl _ _ e He), Hhd in Hp.
        change ((t, a) :: tl_items e) with ([(t, a)] ++ tl_items e) in Hp. rewrite <- app_assoc, !vis_app in Hp.
        assert (V : vis [(t, a)] = [(t, a)]).
        { unfold EventSISP.vis. cbn [filter fst]. destruct He as [V _].
          assert (Ht : qtime e = t).
          { destruct e as [[te c] [v|[u|] v fut]]; unfold hd_item in Hhd; cbn [snd qtime fst] in Hhd |- *; congruence. }
          rewrite <- Ht, V. reflexivity. }
        rewrite V in Hp. cbn [app] in Hp. apply Permutation_cons_inv in Hp. rewrite <- app_assoc in Hp. exact Hp. }
      set (S0 := set_items S q').
      destruct e as [[te c] ev]. destruct He as [Ve Hev]. cbn [snd qtime fst] in Hev, Ve.
      cbn [n_loop]. rewrite Eq.
      change (mkN (ns_stat S) (ns_rec S) (ns_ord S) (mkQ q' (q_ctr (ns_q S))) (ns_log S)) with S0.
      destruct ev as [v|[u|] v fut]; [| |destruct Hev].
      * (* recovery *)
        unfold hd_item in Hhd. cbn [snd qtime fst] in Hhd. injection Hhd as -> <-.
        destruct Hev as [HvI Hrv]. cbn [tl_items snd] in Hp'. unfold EventSISP.vis at 1 in Hp'. cbn [filter app] in Hp'.
        cbn [r_event] in Hl, Hok1. cbn [n_event].
        refine (IH (n_recover t v S0) _ t R' _ Hl Hok).
        constructor; cbn [n_recover S0 set_items ns_stat ns_rec ns_ord ns_log ns_q q_items r_stat r_ord r_log r_ag R0].
        -- intro x. unfold fupdN. destruct (N.eqb x v); [reflexivity|apply Hst].
        -- exact Hord.
        -- rewrite Hlog. reflexivity.
        -- exists dead. split; [exact Hp'|]. apply Forall_forall. intros [tx [w|u w]] Hin; unfold deadP; cbn [snd fst].
           ++ rewrite Forall_forall in Hd. apply (Hd _ Hin).
           ++ rewrite Forall_forall in Hd. specialize (Hd _ Hin). unfold deadP in Hd. cbn [snd fst] in Hd.
              destruct Hd as [H1 H2]. destruct (N.eq_dec w v) as [->|Nw].
              ** exfalso. assert (K : In (tx, AAtt u v) rest).
                 { eapply Permutation_in; [apply Permutation_sym; exact Hp'|]. apply in_or_app. right. exact Hin. }
                 rewrite Forall_forall in Hgt. specialize (Hgt _ K). cbn [fst] in Hgt. rewrite Hrv in H2. lra.
              ** rewrite fupdN_other by assumption. split; assumption.
        -- split; [exact Hts'|]. apply Forall_forall. intros [[tw cw] ew] Hin. rewrite Forall_forall in Hf'.
           specialize (Hf' _ Hin). destruct Hf' as [Vw Hw]. split; [exact Vw|]. cbn [snd qtime fst] in *.
           destruct ew as [w|[u|] w fut]; try exact Hw. destruct Hw as [H1 H2].
           destruct (N.eq_dec w v) as [->|Nw]; [|rewrite fupdN_other by assumption; split; assumption].
           exfalso. assert (K : In (tw, ARec v) rest).
           { eapply Permutation_in; [apply Permutation_sym; exact Hp'|]. apply in_or_app. left. apply in_vis.
             split; [|exact Vw]. apply in_flat_map. exists (tw, cw, NRec v). split; [exact Hin|left; reflexivity]. }
           rewrite Forall_forall in Hgt. specialize (Hgt _ K). cbn [fst] in Hgt. rewrite H2 in Hrv. rewrite Hrv in Hgt. lra.
        -- intros w Hw Vw. destruct (N.eq_dec w v) as [->|Nw]; [rewrite fupdN_same in Hw; discriminate|].
           rewrite fupdN_other in Hw by assumption. destruct (HrecR w Hw Vw) as [K|K]; [|exact K].
           injection K as _ K. congruence.
        -- exact Hinv0.
        -- intro x. unfold fupdN. destruct (N.eqb x v); [left; reflexivity|apply Hbin].
      * (* an attempt u -> v with stored later attempts *)
        unfold hd_item in Hhd. cbn [snd qtime fst] in Hhd. injection Hhd as -> <-.
        cbn [tl_items snd] in Hp'. cbn [n_event].
        destruct (ascending_cons t fut Hev) as [Hasc Hfut].
        assert (HrecR0 : forall w, ns_stat S w = stI -> xlt (ns_rec S w) tmax = true -> In (ns_rec S w, ARec w) rest).
        { intros w Hw Vw. destruct (HrecR w Hw Vw) as [K|K]; [discriminate K|exact K]. }
        cbn [r_event] in Hl, Hok1. change (r_stat R0 v) with (r_stat R v) in Hl, Hok1. rewrite <- (Hst v) in Hl, Hok1.
        destruct (N.eqb_spec (ns_stat S v) stS) as [HvS|HvS].
        -- refine (IH (n_trans g dur delays tmax t (Some u) v fut S0) _ t R' _ Hl Hok).
           apply (infect_rel g dur delays tmax t (Some u) v fut S0 R0 dead); cbn [S0 set_items ns_stat ns_rec ns_ord ns_log ns_q q_items R0 r_stat r_ord r_log r_ag]; try assumption.
           discriminate.
        -- assert (HvI : ns_stat S v = stI) by (destruct (Hbin v); [contradiction|assumption]).
           rewrite (n_trans_I g dur delays tmax t (Some u) v fut S0) by exact HvS.
           cbn [S0 set_items ns_stat ns_rec ns_ord ns_log ns_q].
           set (rv := ns_rec S v).
           set (futk := filter (fun x => Qltb rv x) fut).
           set (futd := filter (fun x => negb (Qltb rv x)) fut).
           assert (Hfk : ascending futk = true) by (apply ascending_filter; exact Hasc).
           refine (IH _ R0 t R' _ Hl Hok).
           constructor; cbn [ns_stat ns_rec ns_ord ns_log ns_q R0 r_stat r_ord r_log r_ag]; try assumption.
           ++ exists (dead ++ vis (atts u v futd)). split.
              ** pose proof (chain_expand tmax (mkQ q' (q_ctr (ns_q S))) u v futk Hfk) as HE. cbn [q_items] in HE.
                 pose proof (atts_split tmax u v (fun x => Qltb rv x) fut) as HG.
                 apply perm_cnt. intro x. rewrite perm_cnt in Hp', HE, HG.
                 specialize (Hp' x). specialize (HE x). specialize (HG x). unfold futk, futd in *. cbv beta in *.
                 rewrite !count_occ_app in *. lia.
              ** apply Forall_app. split; [exact Hd|]. apply Forall_forall. intros x Hin. apply in_vis in Hin.
                 destruct Hin as [Hin Vx]. unfold atts in Hin. apply in_map_iff in Hin. destruct Hin as [tx [<- Htx]].
                 unfold futd in Htx. apply filter_In in Htx. destruct Htx as [Hin Hle2].
                 apply negb_true_iff in Hle2. apply Qltb_false in Hle2. unfold deadP. cbn [snd fst] in *.
                 split; [exact HvI|]. fold rv.
                 assert (K : In (tx, AAtt u v) rest).
                 { eapply Permutation_in; [apply Permutation_sym; exact Hp'|]. apply in_or_app. left. apply in_vis.
                   split; [|exact Vx]. unfold atts. apply in_map_iff. exists tx. split; [reflexivity|exact Hin]. }
                 eapply (strict_from_agenda tmax rest); [exact Hsort'|exact K| |exact Vx|exact Hle2].
                 intro V. apply HrecR0; assumption.
           ++ apply QI_chain; assumption.
    + (* a dead attempt: the reference does nothing, the queue does not move *)
      rewrite Forall_forall in Hd. pose proof (Hd _ Hx) as Hdx. unfold deadP in Hdx. cbn [snd fst] in Hdx.
      destruct a as [v|u v]; [destruct Hdx|]. destruct Hdx as [HvI Hlt].
      cbn [r_event] in Hl. change (r_stat R0 v) with (r_stat R v) in Hl. rewrite <- (Hst v), HvI in Hl.
      change (N.eqb stI stS) with false in Hl. cbv iota in Hl.
      apply in_split in Hx. destruct Hx as [d1 [d2 ->]].
      assert (Hp' : Permutation rest (vis (expandQ (q_items (ns_q S))) ++ d1 ++ d2)).
      { rewrite app_assoc in Hp. apply Permutation_cons_app_inv in Hp. rewrite <- app_assoc in Hp. exact Hp. }
      destruct (IH S R0 t R') as [S' [H1 H2]]; [|exact Hl|exact Hok|].
      * constructor; cbn [R0 r_stat r_ord r_log r_ag]; try assumption.
        -- exists (d1 ++ d2). split; [exact Hp'|]. apply Forall_forall. intros x K. apply Hd.
           apply in_app_or in K. apply in_or_app. destruct K as [K|K]; [left; exact K|right; right; exact K].
        -- intros w Hw Vw. destruct (HrecR w Hw Vw) as [K|K]; [discriminate K|exact K].
      * exists S'. split; [apply n_loop_mono; exact H1|exact H2].
Qed.


(* ---------------- the initial phase ---------------- *)
(* queue transformers that only add entries later than t commute with a prefix
   of entries at or before t *)
Definition pfx (t : Q) (F : queue nev -> queue nev) : Prop :=
  forall P l c, Forall (fun p : qent nev => qtime p <= t) P ->
    F (mkQ (P ++ l) c) = mkQ (P ++ q_items (F (mkQ l c))) (q_ctr (F (mkQ l c))).

Lemma pfx_id : forall t, pfx t (fun q => q).
Proof. intros t P l c _. reflexivity. Qed.
Lemma pfx_comp : forall t F G, pfx t F -> pfx t G -> pfx t (fun q => G (F q)).
Proof.
  intros t F G HF HG P l c HP. rewrite (HF P l c HP). rewrite (HG P _ _ HP).
  destruct (F (mkQ l c)) as [l1 c1]. reflexivity.
Qed.
Lemma pfx_ext : forall t F G, (forall q, F q = G q) -> pfx t G -> pfx t F.
Proof. intros t F G E HG P l c HP. rewrite !E. apply HG. exact HP. Qed.
Lemma pfx_add : forall t x e, (xlt x tmax = true -> t < x) -> pfx t (fun q => q_add tmax q x e).
Proof.
  intros t x e Hx P l c HP. unfold q_add. cbn [q_items q_ctr]. destruct (xlt x tmax) eqn:V; cbn [q_items q_ctr]; [|reflexivity].
  rewrite qins_prefix; [reflexivity|]. eapply Forall_impl; [|exact HP]. intros p Hp. cbn beta in Hp.
  cbn [qtime fst]. specialize (Hx eq_refl). lra.
Qed.
Lemma pfx_chain : forall t src v tt,
  (forall x, In x tt -> xlt x tmax = true -> t < x) -> pfx t (fun q => chain tmax q src v tt).
Proof.
  intros t src v [|h tl] H; cbn [chain]; [apply pfx_id|]. apply pfx_add. apply H. left. reflexivity.
Qed.
Lemma pfx_fold : forall t (G : queue nev -> node -> queue nev) ws,
  (forall w, In w ws -> pfx t (fun q => G q w)) -> pfx t (fun q => fold_left G ws q).
Proof.
  intros t G ws. induction ws as [|w ws IH]; intro H; cbn [fold_left]; [apply pfx_id|].
  apply (pfx_comp t (fun q => G q w) (fun q => fold_left G ws q)).
  - apply H. left. reflexivity.
  - apply IH. intros w' Hw'. apply H. right. exact Hw'.
Qed.

Lemma set_items_fields : forall S l,
  ns_stat (set_items S l) = ns_stat S /\ ns_rec (set_items S l) = ns_rec S /\
  ns_ord (set_items S l) = ns_ord S /\ ns_log (set_items S l) = ns_log S.
Proof. intros. unfold set_items. cbn. tauto. Qed.

Lemma n_trans_init_prefix : forall t v S P l,
  ns_stat S v = stS ->
  Forall (fun p : qent nev => qtime p <= t) P ->
  (let k := ns_ord S v in
   (xlt (tadd t (dur v k)) tmax = true -> t < tadd t (dur v k)) /\
   forall w d, In w (gadj g v) -> In d (delays v w k) -> xlt (tadd t d) tmax = true -> t < tadd t d) ->
  let S1 := n_trans g dur delays tmax t None v [] (set_items S l) in
  n_trans g dur delays tmax t None v [] (set_items S (P ++ l)) = set_items S1 (P ++ q_items (ns_q S1)).
Proof.
  intros t v S P l HvS HP [Hrt Hd] S1. subst S1.
  rewrite !n_trans_S by (cbn [set_items ns_stat]; exact HvS). cbv zeta.
  cbn [set_items ns_stat ns_rec ns_ord ns_log ns_q filter chain q_ctr q_items].
  set (k := ns_ord S v) in *. set (rt := tadd t (dur v k)) in *.
  set (stat' := fupdN (ns_stat S) v stI). set (rec' := fupdN (ns_rec S) v rt).
  set (F := fun q : queue nev => fold_left (n_sched delays tmax t v k stat' rec') (gadj g v)
                                   (if xlt rt tmax then q_add tmax q rt (NRec v) else q)).
  assert (HF : pfx t F).
  { unfold F. apply (pfx_comp t (fun q => if xlt rt tmax then q_add tmax q rt (NRec v) else q)
                                (fun q => fold_left (n_sched delays tmax t v k stat' rec') (gadj g v) q)).
    - destruct (xlt rt tmax) eqn:V; [|apply pfx_id]. apply pfx_add. intros _. apply Hrt. reflexivity.
    - apply pfx_fold. intros w Hw.
      apply (pfx_ext t _ (fun q => chain tmax q (Some v) w (keptw delays t v k stat' rec' w))).
      { intro q. apply n_sched_eq. }
      apply pfx_chain. intros x Hx Vx. unfold keptw, allw in Hx.
      assert (Hx' : In x (map (fun d => tadd t d) (delays v w k))).
      { destruct (N.eqb (stat' w) stI); [apply filter_In in Hx; tauto|exact Hx]. }
      apply in_map_iff in Hx'. destruct Hx' as [d [<- Hdin]]. apply (Hd w d Hw Hdin Vx). }
  change (fold_left (n_sched delays tmax t v k stat' rec') (gadj g v)
            (if xlt rt tmax then q_add tmax (mkQ (P ++ l) (q_ctr (ns_q S))) rt (NRec v) else mkQ (P ++ l) (q_ctr (ns_q S))))
    with (F (mkQ (P ++ l) (q_ctr (ns_q S)))).
  change (fold_left (n_sched delays tmax t v k stat' rec') (gadj g v)
            (if xlt rt tmax then q_add tmax (mkQ l (q_ctr (ns_q S))) rt (NRec v) else mkQ l (q_ctr (ns_q S))))
    with (F (mkQ l (q_ctr (ns_q S)))).
  rewrite (HF P l _ HP). reflexivity.
Qed.


Fixpoint initq (tmin : Q) (c : nat) (l : list node) : list (qent nev) :=
  match l with
  | [] => []
  | u :: l' => (tmin, c, NTrans None u []) :: initq tmin (S c) l'
  end.

Lemma qins_end : forall (x : qent nev) P, Forall (fun p => qbefore x p = false) P -> qins x P = P ++ [x].
Proof.
  intros x P F. induction F as [|p P Hp F IH]; [reflexivity|]. cbn [qins app]. rewrite Hp, IH. reflexivity.
Qed.

Lemma init_queue : forall tmin l P c,
  xlt tmin tmax = true ->
  Forall (fun p : qent nev => qtime p = tmin /\ (qctr p < c)%nat) P ->
  q_items (fold_left (fun q u => q_add tmax q tmin (NTrans None u [])) l (mkQ P c)) = P ++ initq tmin c l.
Proof.
  intros tmin l. induction l as [|u l IH]; intros P c V HP; cbn [fold_left initq q_items]; [rewrite app_nil_r; reflexivity|].
  unfold q_add at 2. rewrite V. cbn [q_items q_ctr]. rewrite qins_end.
  - rewrite IH; [rewrite <- app_assoc; reflexivity|exact V|].
    apply Forall_app. split.
    + eapply Forall_impl; [|exact HP]. intros p [H1 H2]. split; [exact H1|lia].
    + constructor; [|constructor]. cbn [qtime qctr fst snd]. split; [reflexivity|lia].
  - eapply Forall_impl; [|exact HP]. intros p [H1 H2]. unfold qbefore. cbn [qtime qctr fst snd].
    fold (qtime p). fold (qctr p). rewrite H1.
    assert (Qltb tmin tmin = false) as -> by (apply Qltb_false; lra).
    assert (Nat.ltb c (qctr p) = false) as -> by (apply Nat.ltb_ge; lia).
    rewrite andb_false_r. reflexivity.
Qed.

Definition r_init_step (tmin : Q) (s : rst) (u : node) : rst :=
  if N.eqb (r_stat s u) stS then r_infect g dur delays tmax tmin None u s
  else mkR (r_stat s) (r_ord s) (r_ag s) (r_log s) false.

Lemma r_infect_ok_mono : forall t src v s, r_ok (r_infect g dur delays tmax t src v s) = true -> r_ok s = true.
Proof.
  intros t src v s H. rewrite r_infect_unfold in H.
  assert (K : forall ws s1, r_ok (fold_left (r_sched delays tmax t v (r_ord s v)) ws s1) = true -> r_ok s1 = true).
  { induction ws as [|w' ws IH]; intros s2 H2; [exact H2|].
    cbn [fold_left] in H2. apply IH in H2. unfold r_sched in H2.
    apply (r_insert_fold_ok_mono tmax t (fun d => (tadd t d, AAtt v w')) (delays v w' (r_ord s v))) in H2. cbn [r_ok] in H2.
    apply andb_prop in H2. tauto. }
  apply K in H. apply r_insert_ok_mono in H. exact H.
Qed.

Lemma r_init_fold_ok_mono : forall tmin l s, r_ok (fold_left (r_init_step tmin) l s) = true -> r_ok s = true.
Proof.
  intros tmin l. induction l as [|u l IH]; intros s H; [exact H|]. cbn [fold_left] in H. apply IH in H.
  unfold r_init_step in H. destruct (N.eqb (r_stat s u) stS); [|discriminate H].
  apply r_infect_ok_mono in H. exact H.
Qed.

Lemma set_items_self : forall S, set_items S (q_items (ns_q S)) = S.
Proof. intros [st rc od [it ct] lg]. reflexivity. Qed.
Lemma set_items_twice : forall S l l', set_items (set_items S l) l' = set_items S l'.
Proof. intros. reflexivity. Qed.

Lemma phase1 : forall tmin l c S qm R,
  q_items (ns_q S) = initq tmin c l ++ qm ->
  Rel tmin (set_items S qm) R ->
  r_ok (fold_left (r_init_step tmin) l R) = true ->
  exists S1, (forall f, nloop (length l + f) S = nloop f S1) /\ Rel tmin S1 (fold_left (r_init_step tmin) l R).
Proof.
  intros tmin l. induction l as [|u l IH]; intros c S qm R Eq HR Hok.
  - cbn [initq app] in Eq. exists S. split; [reflexivity|]. cbn [fold_left]. rewrite <- Eq, set_items_self in HR. exact HR.
  - cbn [fold_left] in *. cbn [initq app] in Eq.
    pose proof (r_init_fold_ok_mono tmin l _ Hok) as Hok1.
    unfold r_init_step at 2 in Hok. unfold r_init_step at 2. unfold r_init_step in Hok1.
    destruct HR as [Hst Hord Hlog [dead [Hp Hd]] Hq Hrec Hinv Hbin].
    cbn [set_items ns_stat ns_rec ns_ord ns_log ns_q q_items] in *.
    destruct (N.eqb_spec (r_stat R u) stS) as [EuS|EuS]; [|discriminate Hok1].
    assert (HvS : ns_stat S u = stS) by (rewrite Hst; exact EuS).
    set (S1' := n_trans g dur delays tmax tmin None u [] (set_items S qm)).
    assert (HR1 : Rel tmin S1' (r_infect g dur delays tmax tmin None u R)).
    { apply (infect_rel g dur delays tmax tmin None u [] (set_items S qm) R dead);
        cbn [set_items ns_stat ns_rec ns_ord ns_log ns_q q_items]; try assumption; try reflexivity. }
    destruct (r_infect_spec g dur delays tmax tmin None u R Hinv Hok1) as [_ [_ [[_ Hgt] [HpA _]]]].
    rewrite <- (Hord u) in HpA.
    assert (Hcond : let k := ns_ord S u in
       (xlt (tadd tmin (dur u k)) tmax = true -> tmin < tadd tmin (dur u k)) /\
       forall w d, In w (gadj g u) -> In d (delays u w k) -> xlt (tadd tmin d) tmax = true -> tmin < tadd tmin d).
    { cbv zeta. rewrite Forall_forall in Hgt. split.
      - intro V. apply (Hgt (tadd tmin (dur u (ns_ord S u)), ARec u)).
        eapply Permutation_in; [apply Permutation_sym; exact HpA|]. apply in_or_app. right. apply in_or_app. left.
        unfold EventSISP.vis1. apply in_vis. split; [left; reflexivity|exact V].
      - intros w d Hw Hdin V. apply (Hgt (tadd tmin d, AAtt u w)).
        eapply Permutation_in; [apply Permutation_sym; exact HpA|]. apply in_or_app. left. apply in_vis.
        split; [|exact V]. unfold EventSISP.new_atts. apply in_flat_map. exists w. split; [exact Hw|].
        unfold atts. apply in_map_iff. exists (tadd tmin d). split; [reflexivity|]. apply in_map_iff. exists d. split; [reflexivity|exact Hdin]. }
    assert (HP : Forall (fun p : qent nev => qtime p <= tmin) (initq tmin (Datatypes.S c) l)).
    { clear. generalize (Datatypes.S c). induction l as [|x l IH]; intro n; cbn [initq]; constructor; [cbn [qtime fst]; lra|apply IH]. }
    pose proof (n_trans_init_prefix tmin u S (initq tmin (Datatypes.S c) l) qm HvS HP Hcond) as Hpre. cbv zeta in Hpre. fold S1' in Hpre.
    set (Snext := set_items S1' (initq tmin (Datatypes.S c) l ++ q_items (ns_q S1'))) in *.
    destruct (IH (Datatypes.S c) Snext (q_items (ns_q S1')) (r_infect g dur delays tmax tmin None u R)) as [S2 [H1 H2]].
    + reflexivity.
    + unfold Snext. rewrite set_items_twice, set_items_self. exact HR1.
    + exact Hok.
    + exists S2. split; [|exact H2]. intro f. rewrite <- H1.
      change (length (u :: l) + f)%nat with (Datatypes.S (length l + f)). cbn [n_loop]. rewrite Eq.
      cbn [n_event]. fold (set_items S (initq tmin (Datatypes.S c) l ++ qm)). rewrite Hpre. reflexivity.
Qed.

(* ---------------- C13: refinement ---------------- *)
Theorem nmsis_refines : forall tmin full fuel i0 out,
  xlt tmin tmax = true ->
  ref_sis g dur delays tmax tmin full fuel i0 = Ok (out, true) ->
  nm_run g dur delays tmax tmin full (length i0 + fuel) i0 = Ok out.
Proof.
  intros tmin full fuel i0 out V H. unfold ref_sis in H. unfold nm_run.
  destruct (r_loop g dur delays tmax fuel (r_init g dur delays tmax tmin i0)) as [R'|e] eqn:El; [|discriminate H].
  cbn [rbind] in H. injection H as <- Hok.
  change (r_init g dur delays tmax tmin i0)
    with (fold_left (r_init_step tmin) i0 (mkR (fun _ => stS) (fun _ => O) [] (logs0 g tmin) true)) in El.
  set (Re := mkR (fun _ => stS) (fun _ => O) [] (logs0 g tmin) true) in *.
  pose proof (r_loop_ok_mono g dur delays tmax fuel _ _ El Hok) as Hok1.
  destruct (phase1 tmin i0 0 (n_init g tmax tmin i0) [] Re) as [S1 [H1 H2]].
  - rewrite app_nil_r. unfold n_init. cbn [ns_q]. unfold q_empty. rewrite init_queue; [reflexivity|exact V|constructor].
  - constructor; cbn [set_items n_init ns_stat ns_rec ns_ord ns_log ns_q q_items Re r_stat r_ord r_log r_ag]; try reflexivity.
    + exists []. split; [constructor|constructor].
    + split; constructor.
    + intros v Hv. discriminate Hv.
    + split; constructor.
    + intro x. left. reflexivity.
  - exact Hok1.
  - destruct (sim_main fuel S1 _ tmin R' H2 El Hok) as [S' [K1 K2]].
    rewrite H1, K1. cbn [rbind]. rewrite K2. reflexivity.
Qed.

End NM3.
