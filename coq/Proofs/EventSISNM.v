(* fast_nonMarkov_SIS ([nm_run], every rule table [dur], [delays]): the invariant of
   the event loop that carries the lock-step logs, proved directly on [n_loop].
   Hypotheses on the user's rules, and what each buys:
     [Hdur], [Hdel]  durations and delays are >= 0 and every delay list is
                     non-decreasing (what _process_trans_SIS_nonMarkov_ assumes when
                     it queues only the head of the list): time never runs backwards;
     [Hstrict]       (only for chk = true) every delay is STRICTLY before the
                     recovery of the same infection: then every transmission comes
                     from a node that is infectious in the replayed statuses, strictly
                     before its recovery.  Without it (chk = false) the model only
                     guarantees the target half: edge, susceptible target, one entry per
                     infection. *)
From EoNV Require Import Prelude Samp Graph ListDict ListDictP Gillespie KldP GillespieInv SampP GillespieP GillespieLog.
From EoNV Require Import Investigation InvestigationP GillespieC10.
From EoNV Require Import EventSIS EventSISP EventSISP4 EventSISRows EventSISLog EventSISTrace EventSISRel EventSISFast.
From Coq Require Import Permutation Sorted Lqa.

(* ---------------- non-decreasing lists ---------------- *)
Notation nondecr := (StronglySorted Qle).

Lemma nondecr_filter : forall p l, nondecr l -> nondecr (filter p l).
Proof.
  intros p l H. induction H as [|a l H IH F]; [constructor|]. cbn [filter]. destruct (p a); [|exact IH].
  constructor; [exact IH|]. apply Forall_forall. intros x Hx. apply filter_In in Hx. rewrite Forall_forall in F. apply F. apply Hx.
Qed.
Lemma nondecr_map_tadd : forall t l, nondecr l -> nondecr (map (fun d => tadd t d) l).
Proof.
  intros t l H. induction H as [|a l H IH F]; [constructor|]. cbn [map]. constructor; [exact IH|].
  apply Forall_forall. intros x Hx. apply in_map_iff in Hx. destruct Hx as [d [<- Hd]].
  rewrite Forall_forall in F. specialize (F d Hd). rewrite !tadd_eq. lra.
Qed.
Lemma nondecr_tail : forall a l, nondecr (a :: l) -> nondecr l /\ Forall (fun x => a <= x) l.
Proof. intros a l H. inversion H; subst. split; assumption. Qed.

Section NM.
Variable g : graph.
Hypothesis Hnd : NoDup (gnodes g).
Hypothesis Hadj : forall u v, In v (gadj g u) -> In v (gnodes g).
Variable dur : node -> nat -> Q.
Variable delays : node -> node -> nat -> list Q.
Variable tmax : xtime.
Variable tmin : Q.
Hypothesis Hvis : xlt tmin tmax = true.
Variable i0 : list node.
Hypothesis Hi0 : NoDup i0.
Hypothesis Hinc : incl i0 (gnodes g).
Variable chk : bool.
Hypothesis Hdur : forall v k, 0 <= dur v k.
Hypothesis Hdel : forall v w k, nondecr (delays v w k) /\ Forall (fun d => 0 <= d) (delays v w k).
Hypothesis Hstrict : chk = true -> forall v w k d, In d (delays v w k) -> d < dur v k.

Notation LL := (LL g tmin tmax i0).
Notation lnow := (lnow tmin).
Notation chainq := (chain tmax).

Definition nsourced (x : qent nev) : Prop := match snd x with NTrans None _ _ => False | _ => True end.
Definition nrec_nodes (l : list (qent nev)) : list node :=
  flat_map (fun x => match snd x with NRec v => [v] | _ => [] end) l.

Definition ent_ok (stat : node -> N) (rec : node -> Q) (x : qent nev) : Prop :=
  match snd x with
  | NRec v => stat v = stI /\ rec v = qtime x
  | NTrans (Some u) v fut =>
    In v (gadj g u) /\ nondecr (qtime x :: fut) /\
    (chk = true -> stat u = stI /\ Forall (fun y => y < rec u) (qtime x :: fut))
  | NTrans None _ fut => fut = []
  end.

Record QOK (clock : Q) (stat : node -> N) (rec : node -> Q) (q : queue nev) : Prop := mkQOK {
  k_sorted : tsorted (q_items q);
  k_q : Forall (fun x => clock <= qtime x) (q_items q);
  k_vis : Forall (fun x => xlt (qtime x) tmax = true) (q_items q);
  k_recs : NoDup (nrec_nodes (q_items q));
  k_ent : Forall (ent_ok stat rec) (q_items q)
}.

Lemma nrec_nodes_perm : forall a b, Permutation a b -> Permutation (nrec_nodes a) (nrec_nodes b).
Proof. intros a b H. unfold nrec_nodes. apply Permutation_flat_map. exact H. Qed.

Lemma in_nrec_nodes : forall v l, In v (nrec_nodes l) -> exists x, In x l /\ snd x = NRec v.
Proof.
  intros v l H. unfold nrec_nodes in H. apply in_flat_map in H. destruct H as [x [Hx Hv]].
  exists x. split; [exact Hx|]. destruct (snd x) as [w|? ? ?]; [|destruct Hv]. destruct Hv as [->|[]]. reflexivity.
Qed.

Lemma QOK_add : forall clock stat rec q t e,
  QOK clock stat rec q -> clock <= t -> (xlt t tmax = true -> ent_ok stat rec (t, q_ctr q, e)) ->
  (forall v, e = NRec v -> ~ In v (nrec_nodes (q_items q))) ->
  QOK clock stat rec (q_add tmax q t e).
Proof.
  intros clock stat rec q t e [Hs Hq Hv Hn He] Hct Hok Hfresh. unfold q_add. destruct (xlt t tmax) eqn:V; [|constructor; assumption].
  constructor; cbn [q_items].
  - apply qins_sorted. exact Hs.
  - eapply Permutation_Forall; [apply Permutation_sym; apply qins_perm|]. constructor; [exact Hct|exact Hq].
  - eapply Permutation_Forall; [apply Permutation_sym; apply qins_perm|]. constructor; [exact V|exact Hv].
  - eapply Permutation_NoDup; [apply Permutation_sym; apply nrec_nodes_perm; apply qins_perm|].
    unfold nrec_nodes. cbn [flat_map snd]. fold (nrec_nodes (q_items q)).
    destruct e as [v|src tgt fut]; [|exact Hn]. cbn [app]. constructor; [apply (Hfresh v eq_refl)|exact Hn].
  - eapply Permutation_Forall; [apply Permutation_sym; apply qins_perm|]. constructor; [apply Hok; reflexivity|exact He].
Qed.

(* Q.add of the head of a list of attempt times of (u,v) *)
Lemma QOK_chain : forall clock stat rec q u v tt,
  QOK clock stat rec q -> In v (gadj g u) -> nondecr tt -> Forall (fun x => clock <= x) tt ->
  (chk = true -> stat u = stI /\ Forall (fun y => y < rec u) tt) ->
  QOK clock stat rec (chainq q (Some u) v tt).
Proof.
  intros clock stat rec q u v [|h tl] Hq Ha Hs Hc Hst; cbn [chain]; [exact Hq|].
  apply QOK_add; [exact Hq|inversion Hc; assumption| |intros w Hw; discriminate Hw].
  intros _. unfold ent_ok. cbn [snd qtime fst]. split; [exact Ha|]. split; [exact Hs|exact Hst].
Qed.

Lemma chain_none : forall q v, chainq q None v [] = q.
Proof. reflexivity. Qed.

(* the attempt times the code keeps for the neighbour w of the freshly infected v *)
Definition kept (t : Q) (v : node) (k : nat) (stat : node -> N) (rec : node -> Q) (w : node) : list Q :=
  let tt := map (fun d => tadd t d) (delays v w k) in
  if N.eqb (stat w) stI then filter (fun x => Qltb (rec w) x) tt else tt.

Lemma n_sched_kept : forall t v k stat rec q w,
  n_sched delays tmax t v k stat rec q w = chainq q (Some v) w (kept t v k stat rec w).
Proof.
  intros. unfold n_sched, kept. destruct (delays v w k) as [|d dl]; [|reflexivity].
  cbn [map filter]. destruct (N.eqb (stat w) stI); reflexivity.
Qed.

Lemma kept_sub : forall t v k stat rec w x, In x (kept t v k stat rec w) -> exists d, In d (delays v w k) /\ x = tadd t d.
Proof.
  intros t v k stat rec w x H. unfold kept in H.
  assert (K : In x (map (fun d => tadd t d) (delays v w k))).
  { destruct (N.eqb (stat w) stI); [apply filter_In in H; apply H|exact H]. }
  apply in_map_iff in K. destruct K as [d [E Hd]]. exists d. split; [exact Hd|symmetry; exact E].
Qed.
Lemma kept_nondecr : forall t v k stat rec w, nondecr (kept t v k stat rec w).
Proof.
  intros. unfold kept. destruct (Hdel v w k) as [Hs _]. destruct (N.eqb (stat w) stI).
  - apply nondecr_filter. apply nondecr_map_tadd. exact Hs.
  - apply nondecr_map_tadd. exact Hs.
Qed.

Lemma QOK_sched_fold : forall clock t v k stat rec ws q,
  QOK clock stat rec q -> clock <= t -> (forall w, In w ws -> In w (gadj g v)) ->
  (chk = true -> stat v = stI /\ rec v = tadd t (dur v k)) ->
  QOK clock stat rec (fold_left (n_sched delays tmax t v k stat rec) ws q).
Proof.
  intros clock t v k stat rec ws. induction ws as [|w ws IH]; intros q Hq Hct Hn Hst; cbn [fold_left]; [exact Hq|].
  apply IH; [|exact Hct|intros x Hx; apply Hn; right; exact Hx|exact Hst].
  rewrite n_sched_kept. apply QOK_chain; [exact Hq|apply Hn; left; reflexivity|apply kept_nondecr| |].
  - apply Forall_forall. intros x Hx. destruct (kept_sub _ _ _ _ _ _ _ Hx) as [d [Hd ->]].
    destruct (Hdel v w k) as [_ Hp]. rewrite Forall_forall in Hp. specialize (Hp d Hd). rewrite tadd_eq. lra.
  - intro Hc. destruct (Hst Hc) as [A B]. split; [exact A|]. apply Forall_forall. intros x Hx.
    destruct (kept_sub _ _ _ _ _ _ _ Hx) as [d [Hd ->]]. rewrite B, !tadd_eq.
    pose proof (Hstrict Hc v w k d Hd). lra.
Qed.

(* the maps change at a susceptible node: no entry speaks about it *)
Lemma QOK_infect : forall clock stat rec q v r,
  QOK clock stat rec q -> stat v = stS -> QOK clock (fupdN stat v stI) (fupdN rec v r) q.
Proof.
  intros clock stat rec q v r [Hs Hq Hv Hn He] HS. constructor; try assumption.
  eapply Forall_impl; [|exact He]. intros [[t c] e] Hx. unfold ent_ok in *. cbn [snd qtime fst] in *.
  destruct e as [w|[u|] w fut]; [| |exact Hx].
  - destruct Hx as [A B]. assert (w <> v) by (intro; subst; rewrite HS in A; discriminate).
    unfold fupdN. destruct (N.eqb_spec w v); [contradiction|]. split; assumption.
  - destruct Hx as [A [B C]]. split; [exact A|]. split; [exact B|]. intro Hc. destruct (C Hc) as [C1 C2].
    assert (u <> v) by (intro; subst; rewrite HS in C1; discriminate).
    unfold fupdN. destruct (N.eqb_spec u v); [contradiction|]. split; assumption.
Qed.

(* ---------------- the phase ---------------- *)
Definition txJn (rec : node -> Q) (txs : list tx) : Prop :=
  forall t u v, In (t, Some u, v) txs -> t < rec u.

Inductive PH (pend : list node) (stat : node -> N) (rec : node -> Q) (q : queue nev) (lg : logs) : Prop :=
| ph_init : forall done rem P l, i0 = done ++ pend ++ rem -> q_items q = P ++ l -> front tmin P (q_ctr q) ->
    map snd P = map (fun u => NTrans None u []) rem -> Forall nsourced l ->
    lg = linit g tmin done -> stat = st_init done [] -> PH pend stat rec q lg
| ph_main : forall evs txs, pend = [] -> LL chk evs txs lg stat -> Forall nsourced (q_items q) ->
    (chk = true -> txJn rec txs /\ strict_ok evs txs = true) -> PH pend stat rec q lg.

Lemma PH_add : forall pend stat rec q lg t e,
  PH pend stat rec q lg -> tmin <= t -> nsourced (t, O, e) -> PH pend stat rec (q_add tmax q t e) lg.
Proof.
  intros pend stat rec q lg t e Hp Ht He.
  destruct Hp as [done rem P l E1 E2 E3 E4 E5 E6 E7|evs txs Ep HL Hs HJ].
  - destruct (q_add_front tmax tmin q P l t e E2 E3 Ht) as [l' [F1 [F2 F3]]].
    apply (ph_init _ _ _ _ _ done rem P l'); try assumption.
    destruct F3 as [->|[_ F3]]; [exact E5|].
    eapply Permutation_Forall; [apply Permutation_sym; exact F3|]. constructor; [exact He|exact E5].
  - apply (ph_main _ _ _ _ _ evs txs); try assumption.
    apply Forall_q_add; [exact Hs|intros _; exact He].
Qed.

Lemma PH_chain : forall pend stat rec q lg u v tt,
  PH pend stat rec q lg -> Forall (fun x => tmin <= x) tt -> PH pend stat rec (chainq q (Some u) v tt) lg.
Proof.
  intros pend stat rec q lg u v [|h tl] Hp Ht; cbn [chain]; [exact Hp|].
  apply PH_add; [exact Hp|inversion Ht; assumption|exact I].
Qed.

Lemma PH_sched_fold : forall pend stat rec lg t v k st' rc' ws q,
  PH pend stat rec q lg -> tmin <= t ->
  PH pend stat rec (fold_left (n_sched delays tmax t v k st' rc') ws q) lg.
Proof.
  intros pend stat rec lg t v k st' rc' ws. induction ws as [|w ws IH]; intros q Hp Ht; cbn [fold_left]; [exact Hp|].
  apply IH; [|exact Ht]. rewrite n_sched_kept. apply PH_chain; [exact Hp|].
  apply Forall_forall. intros x Hx. destruct (kept_sub _ _ _ _ _ _ _ Hx) as [d [Hd ->]].
  destruct (Hdel v w k) as [_ Hp']. rewrite Forall_forall in Hp'. specialize (Hp' d Hd). rewrite tadd_eq. lra.
Qed.

(* ---------------- the state invariant ---------------- *)
Record NInvP (pend : list node) (clock : Q) (s : nst) : Prop := mkNInv {
  n_qok : QOK clock (ns_stat s) (ns_rec s) (ns_q s);
  n_ph : PH pend (ns_stat s) (ns_rec s) (ns_q s) (ns_log s);
  n_tmin : tmin <= clock;
  n_now : lnow (ns_log s) <= clock;
  n_K : forall u, ns_stat s u = stS -> ns_rec s u <= clock;
  n_nodes : forall u, ns_stat s u = stI -> In u (gnodes g)
}.

Lemma NInv_init : NInvP [] tmin (n_init g tmax tmin i0).
Proof.
  destruct (init_front tmax tmin (fun u => NTrans None u []) i0 [] 0 Hvis (Forall_nil _)) as [P' [E1 [E2 E3]]].
  cbn [app] in E1, E3. fold (@q_empty nev) in E1, E3.
  assert (Hent : forall p, In p P' -> exists u, snd p = NTrans None u []).
  { intros p Hp. assert (K : In (snd p) (map snd P')) by (apply in_map; exact Hp). rewrite E2 in K.
    apply in_map_iff in K. destruct K as [u [E _]]. exists u. symmetry. exact E. }
  constructor; cbn [n_init ns_stat ns_rec ns_q ns_log].
  - constructor; rewrite E1.
    + unfold tsorted. clear -E3. induction P' as [|p P IH]; [constructor|]. apply Forall_cons_iff in E3. destruct E3 as [[H1 _] F].
      constructor; [apply IH; exact F|]. eapply Forall_impl; [|exact F]. intros x [Hx _]. rewrite H1, Hx. lra.
    + eapply Forall_impl; [|exact E3]. intros p [H1 _]. rewrite H1. lra.
    + eapply Forall_impl; [|exact E3]. intros p [H1 _]. rewrite H1. exact Hvis.
    + assert (K : nrec_nodes P' = []).
      { unfold nrec_nodes. clear -Hent. induction P' as [|p P IH]; [reflexivity|]. cbn [flat_map].
        destruct (Hent p (or_introl eq_refl)) as [u ->]. cbn [app]. apply IH. intros x Hx. apply Hent. right. exact Hx. }
      rewrite K. constructor.
    + apply Forall_forall. intros p Hp. destruct (Hent p Hp) as [u E]. unfold ent_ok. rewrite E. reflexivity.
  - apply (ph_init _ _ _ _ _ [] i0 P' []); cbn [app]; try reflexivity.
    + rewrite app_nil_r. exact E1.
    + exact E3.
    + exact E2.
    + constructor.
  - lra.
  - change (logs0 g tmin) with (linit g tmin []). rewrite lnow_linit. lra.
  - intros u _. lra.
  - intros u H. discriminate H.
Qed.

(* popping the head *)
Definition npop (s : nst) (rest : list (qent nev)) : nst :=
  mkN (ns_stat s) (ns_rec s) (ns_ord s) (mkQ rest (q_ctr (ns_q s))) (ns_log s).

Inductive npopped (t : Q) (e : nev) (s0 : nst) : Prop :=
| npop_init : forall done u rem P l, i0 = done ++ [u] ++ rem -> e = NTrans None u [] -> t = tmin ->
    q_items (ns_q s0) = P ++ l -> front tmin P (q_ctr (ns_q s0)) -> map snd P = map (fun u => NTrans None u []) rem ->
    Forall nsourced l -> ns_log s0 = linit g tmin done -> ns_stat s0 = st_init done [] -> npopped t e s0
| npop_main : forall evs txs, nsourced (t, O, e) -> LL chk evs txs (ns_log s0) (ns_stat s0) ->
    Forall nsourced (q_items (ns_q s0)) ->
    (chk = true -> txJn (ns_rec s0) txs /\ strict_ok evs txs = true) -> npopped t e s0.

Lemma nodup_app_r' : forall {T} (a b : list T), NoDup (a ++ b) -> NoDup b.
Proof. intros T a b. induction a as [|x a IH]; intro H; [exact H|]. inversion H; subst. apply IH. assumption. Qed.

Lemma NInv_pop : forall clock s t c e rest,
  NInvP [] clock s -> q_items (ns_q s) = (t, c, e) :: rest ->
  clock <= t /\ xlt t tmax = true /\ ent_ok (ns_stat s) (ns_rec s) (t, c, e) /\
  (forall v, e = NRec v -> ~ In v (nrec_nodes rest)) /\
  QOK t (ns_stat s) (ns_rec s) (mkQ rest (q_ctr (ns_q s))) /\ npopped t e (npop s rest) /\
  tmin <= t /\ lnow (ns_log s) <= t /\ (forall u, ns_stat s u = stS -> ns_rec s u <= t).
Proof.
  intros clock s t c e rest [[Hs Hq Hv Hn He] Hp Ht Hnow HK HN] Eq. rewrite Eq in Hs, Hq, Hv, Hn, He.
  inversion Hs as [|? ? Hs' Hle]; subst. inversion Hq as [|? ? Hq1 Hq2]; subst. inversion Hv as [|? ? Hv1 Hv2]; subst.
  inversion He as [|? ? He1 He2]; subst. cbn [qtime fst] in Hq1, Hv1, Hle.
  split; [exact Hq1|]. split; [exact Hv1|]. split; [exact He1|]. split.
  { intros v ->. unfold nrec_nodes in Hn. cbn [flat_map snd app] in Hn. inversion Hn; assumption. }
  split.
  { constructor; cbn [q_items]; try assumption.
    unfold nrec_nodes in Hn. cbn [flat_map] in Hn. apply nodup_app_r' in Hn. exact Hn. }
  split; [|split; [lra|split; [lra|intros u Hu; specialize (HK u Hu); lra]]].
  destruct Hp as [done rem P l E1 E2 E3 E4 E5 E6 E7|evs txs _ HL Hsr HJ].
  - cbn [app] in E1. rewrite Eq in E2. destruct P as [|p P'].
    + destruct rem as [|? ?]; [|discriminate E4]. rewrite app_nil_r in E1. subst done.
      cbn [app] in E2. subst l. inversion E5 as [|? ? S1 S2]; subst.
      apply (npop_main t e _ [] []); cbn [npop ns_log ns_stat ns_q ns_rec q_items].
      * exact S1.
      * rewrite E6, E7. apply LL_start.
      * exact S2.
      * intros _. split; [intros t' u v []|reflexivity].
    + cbn [app] in E2. injection E2 as Ep Er. subst p rest.
      destruct rem as [|u rem']; [discriminate E4|]. cbn [map snd] in E4. injection E4 as Ee E4.
      inversion E3 as [|? ? [F1 F2] F3]; subst. cbn [qtime fst] in F1.
      apply (npop_init t (NTrans None u []) _ done u rem' P' l); cbn [npop ns_log ns_stat ns_q ns_rec q_items q_ctr app]; try assumption; reflexivity.
  - rewrite Eq in Hsr. inversion Hsr as [|? ? S1 S2]; subst.
    apply (npop_main t e _ evs txs); cbn [npop ns_log ns_stat ns_q ns_rec q_items]; assumption.
Qed.

(* ---------------- a recovery ---------------- *)
Lemma nrec_pres : forall clock s t c v rest,
  NInvP [] clock s -> q_items (ns_q s) = (t, c, NRec v) :: rest ->
  NInvP [] t (n_recover t v (npop s rest)).
Proof.
  intros clock s t c v rest Hi Eq.
  destruct (NInv_pop clock s t c (NRec v) rest Hi Eq) as [Hct [Hx [Hent [Hfresh [Hq [Hpop [Htm [Hnow HK]]]]]]]].
  unfold ent_ok in Hent. cbn [snd qtime fst] in Hent. destruct Hent as [HvI Hrv].
  pose proof (n_nodes _ _ _ Hi) as HN.
  destruct Hpop as [done u rem P l E1 Ee|evs txs Hs HL Hsr HJ]; [discriminate Ee|].
  cbn [npop ns_log ns_stat ns_q ns_rec q_items] in *.
  constructor; cbn [n_recover npop ns_log ns_stat ns_q ns_rec q_items].
  - destruct Hq as [Hs' Hq' Hv' Hn' He']. constructor; try assumption. cbn [q_items] in *.
    rewrite Forall_forall in *. intros [[tx cx] ex] Hin. pose proof (He' _ Hin) as Hx'. pose proof (Hq' _ Hin) as Htx.
    unfold ent_ok in *. cbn [snd qtime fst] in *. destruct ex as [w|[u|] w fut]; [| |exact Hx'].
    + destruct Hx' as [A B]. assert (w <> v).
      { intro; subst w. apply (Hfresh v eq_refl). unfold nrec_nodes. apply in_flat_map. exists (tx, cx, NRec v). split; [exact Hin|left; reflexivity]. }
      unfold fupdN. destruct (N.eqb_spec w v); [contradiction|]. split; assumption.
    + destruct Hx' as [A [B C]]. split; [exact A|]. split; [exact B|]. intro Hc. destruct (C Hc) as [C1 C2].
      assert (u <> v).
      { intro; subst u. pose proof (Forall_inv C2) as C3. cbn beta in C3. rewrite Hrv in C3. lra. }
      unfold fupdN. destruct (N.eqb_spec u v); [contradiction|]. split; assumption.
  - apply (ph_main _ _ _ _ _ ((t, v, stS) :: evs) txs).
    + reflexivity.
    + apply (LL_rec g Hnd tmin tmax i0 Hi0 Hinc); try assumption.
      * apply HN. exact HvI.
      * apply (prev_le_lnow tmin). exact Hnow.
    + exact Hsr.
    + intro Hc. destruct (HJ Hc) as [J1 J2]. split; [exact J1|].
      cbn [strict_ok]. change (N.eqb stS stI) with false. cbv iota. rewrite J2, andb_true_r.
      apply forallb_forall. intros [[t' [u'|]] v'] Hin; cbn [fst snd]; [|reflexivity].
      destruct (N.eqb_spec u' v) as [->|_]; [|reflexivity]. cbn [negb orb].
      apply Qltb_true. rewrite <- Hrv. apply (J1 t' v v' Hin).
  - exact Htm.
  - rewrite lnow_rec. lra.
  - intros u Hu. destruct (N.eq_dec u v) as [E|E].
    + rewrite E, Hrv. lra.
    + apply HK. unfold fupdN in Hu. destruct (N.eqb_spec u v) as [E2|_]; [contradiction|exact Hu].
  - intros u Hu. unfold fupdN in Hu. destruct (N.eqb u v); [discriminate Hu|]. apply HN. exact Hu.
Qed.

(* ---------------- a transmission event ---------------- *)
Lemma filter_sub_Forall : forall (P : Q -> Prop) p l, Forall P l -> Forall P (filter p l).
Proof.
  intros P p l H. apply Forall_forall. intros x Hx. apply filter_In in Hx. rewrite Forall_forall in H. apply H. apply Hx.
Qed.

Lemma ntrans_pres : forall clock s t c src tgt fut rest,
  NInvP [] clock s -> q_items (ns_q s) = (t, c, NTrans src tgt fut) :: rest ->
  NInvP [] t (n_trans g dur delays tmax t src tgt fut (npop s rest)).
Proof.
  intros clock s t c src tgt fut rest Hi Eq.
  destruct (NInv_pop clock s t c (NTrans src tgt fut) rest Hi Eq) as [Hct [Hx [Hent [_ [Hq [Hpop [Htm [Hnow HK]]]]]]]].
  pose proof (n_nodes _ _ _ Hi) as HN.
  set (s0 := npop s rest) in *.
  (* what the popped entry says about the list of later attempts *)
  assert (Hfut : forall (rc : node -> Q) (st : node -> N) q,
            QOK t st rc q -> (forall u, src = Some u -> chk = true -> st u = stI /\ rc u = ns_rec s u) ->
            QOK t st rc (chainq q src tgt (filter (fun x => Qltb (rc tgt) x) fut)) /\
            (forall pend lg, PH pend st rc q lg -> PH pend st rc (chainq q src tgt (filter (fun x => Qltb (rc tgt) x) fut)) lg)).
  { intros rc st q Hq' Hsrc. unfold ent_ok in Hent. cbn [snd qtime fst] in Hent. destruct src as [u|].
    - destruct Hent as [A [B C]]. destruct (nondecr_tail _ _ B) as [B1 B2]. split.
      + apply QOK_chain; [exact Hq'|exact A|apply nondecr_filter; exact B1|apply filter_sub_Forall; exact B2|].
        intro Hc. destruct (C Hc) as [C1 C2]. destruct (Hsrc u eq_refl Hc) as [D1 D2]. split; [exact D1|].
        apply filter_sub_Forall. rewrite D2. apply (Forall_inv_tail C2).
      + intros pend lg Hp. apply PH_chain; [exact Hp|]. apply filter_sub_Forall.
        eapply Forall_impl; [|exact B2]. intros x Hx'. cbn beta in Hx'. lra.
    - subst fut. cbn [filter]. split; [exact Hq'|intros pend lg Hp; exact Hp]. }
  unfold n_trans. destruct (N.eqb_spec (ns_stat s0 tgt) stS) as [HS|HS].
  - (* infection *)
    cbn [s0 npop ns_stat ns_rec ns_ord ns_q ns_log] in *. cbv zeta.
    set (k := ns_ord s tgt). set (rt := tadd t (dur tgt k)).
    set (stat' := fupdN (ns_stat s) tgt stI). set (rec' := fupdN (ns_rec s) tgt rt).
    set (q0 := mkQ rest (q_ctr (ns_q s))) in *.
    set (q1 := if xlt rt tmax then q_add tmax q0 rt (NRec tgt) else q0).
    set (q2 := fold_left (n_sched delays tmax t tgt k stat' rec') (gadj g tgt) q1).
    cbn [ns_stat ns_rec ns_ord ns_q ns_log].
    assert (Hrt : t <= rt) by (unfold rt; rewrite tadd_eq; pose proof (Hdur tgt k); lra).
    assert (Est : stat' tgt = stI) by (unfold stat'; unfold fupdN; rewrite N.eqb_refl; reflexivity).
    assert (Erc : rec' tgt = rt) by (unfold rec'; unfold fupdN; rewrite N.eqb_refl; reflexivity).
    assert (Hq0 : QOK t stat' rec' q0) by (apply QOK_infect; assumption).
    assert (Hq1 : QOK t stat' rec' q1).
    { unfold q1. destruct (xlt rt tmax) eqn:V; [|exact Hq0]. apply QOK_add; [exact Hq0|exact Hrt| |].
      - intros _. unfold ent_ok. cbn [snd qtime fst]. split; assumption.
      - intros v Ev Hin. injection Ev as <-. apply in_nrec_nodes in Hin. destruct Hin as [x [Hin Ex]].
        destruct Hq as [_ _ _ _ He']. rewrite Forall_forall in He'. specialize (He' x Hin). unfold ent_ok in He'. rewrite Ex in He'.
        destruct He' as [A _]. rewrite HS in A. discriminate A. }
    assert (Hq2 : QOK t stat' rec' q2).
    { unfold q2. apply QOK_sched_fold; [exact Hq1|lra|intros w Hw; exact Hw|]. intros _. split; [exact Est|exact Erc]. }
    assert (Hsrc' : forall u, src = Some u -> chk = true -> stat' u = stI /\ rec' u = ns_rec s u).
    { intros u -> Hc. unfold ent_ok in Hent. cbn [snd] in Hent. destruct Hent as [_ [_ C]]. destruct (C Hc) as [C1 _].
      assert (u <> tgt) by (intro; subst; rewrite HS in C1; discriminate).
      unfold stat', rec', fupdN. destruct (N.eqb_spec u tgt); [contradiction|]. split; [exact C1|reflexivity]. }
    destruct (Hfut rec' stat' q2 Hq2 Hsrc') as [Hq3 Hph3].
    assert (Hin : In tgt (gnodes g)).
    { destruct Hpop as [done u rem P l E1 Ee|evs txs Hs HL Hsr HJ].
      - injection Ee as -> -> ->. apply Hinc. rewrite E1. apply in_or_app. right. left. reflexivity.
      - destruct src as [u|]; [|destruct Hs]. unfold ent_ok in Hent. cbn [snd] in Hent. destruct Hent as [A _].
        apply (Hadj u). exact A. }
    constructor; cbn [ns_stat ns_rec ns_ord ns_q ns_log].
    + exact Hq3.
    + apply Hph3. unfold q2. apply PH_sched_fold; [|exact Htm].
      assert (Hadd1 : forall pend lg, PH pend stat' rec' q0 lg -> PH pend stat' rec' q1 lg).
      { intros pend lg Hp. unfold q1. destruct (xlt rt tmax); [|exact Hp]. apply PH_add; [exact Hp|lra|exact I]. }
      apply Hadd1.
      destruct Hpop as [done u rem P l E1 Ee Et E2 E3 E4 E5 E6 E7|evs txs Hs HL Hsr HJ].
      * injection Ee as E_s E_t E_f. subst src fut u. subst t. cbn [s0 npop ns_stat ns_rec ns_ord ns_q ns_log] in *.
        apply (ph_init _ _ _ _ _ (done ++ [tgt]) rem P l); try assumption.
        -- rewrite E1, <- app_assoc. reflexivity.
        -- rewrite E6. apply linit_snoc.
        -- unfold stat'. rewrite E7. apply st_init_snoc.
      * destruct src as [u|]; [|destruct Hs]. unfold ent_ok in Hent. cbn [snd qtime fst] in Hent. destruct Hent as [A [B C]].
        cbn [s0 npop ns_stat ns_rec ns_ord ns_q ns_log] in *.
        apply (ph_main _ _ _ _ _ ((t, tgt, stI) :: evs) ((t, Some u, tgt) :: txs)).
        -- reflexivity.
        -- apply (LL_inf g Hnd tmin tmax i0 Hi0 Hinc); try assumption.
           ++ intro Hc. destruct (C Hc) as [C1 _]. exact C1.
           ++ apply (prev_le_lnow tmin). exact Hnow.
        -- exact Hsr.
        -- intro Hc. destruct (HJ Hc) as [J1 J2]. destruct (C Hc) as [C1 C2]. split.
           ++ intros t' u' v' [E|Hin']; unfold rec', fupdN.
              ** injection E as <- <- <-. destruct (N.eqb_spec u tgt) as [->|_]; [rewrite HS in C1; discriminate C1|].
                 apply (Forall_inv C2).
              ** destruct (N.eqb_spec u' tgt) as [->|_]; [|apply (J1 t' u' v' Hin')].
                 pose proof (J1 t' tgt v' Hin') as Hold. pose proof (HK tgt HS). lra.
           ++ cbn [strict_ok]. change (N.eqb stI stI) with true. cbv iota. exact J2.
    + exact Htm.
    + rewrite lnow_inf. lra.
    + intros u Hu. unfold stat', rec', fupdN in *. destruct (N.eqb u tgt); [discriminate Hu|]. apply HK. exact Hu.
    + intros u Hu. destruct (N.eq_dec u tgt) as [E|E]; [rewrite E; exact Hin|]. apply HN.
      unfold stat', fupdN in Hu. destruct (N.eqb_spec u tgt) as [E2|_]; [contradiction|exact Hu].
  - (* the target is infected already: only the stored attempts move *)
    cbn [s0 npop ns_stat ns_rec ns_ord ns_q ns_log] in *.
    assert (Hsrc' : forall u, src = Some u -> chk = true -> ns_stat s u = stI /\ ns_rec s u = ns_rec s u).
    { intros u -> Hc. unfold ent_ok in Hent. cbn [snd] in Hent. destruct Hent as [_ [_ C]]. destruct (C Hc) as [C1 _]. split; [exact C1|reflexivity]. }
    destruct (Hfut (ns_rec s) (ns_stat s) _ Hq Hsrc') as [Hq3 Hph3].
    constructor; cbn [ns_stat ns_rec ns_ord ns_q ns_log]; try assumption.
    + apply Hph3. destruct Hpop as [done u rem P l E1 Ee Et E2 E3 E4 E5 E6 E7|evs txs Hs HL Hsr HJ].
      * exfalso. injection Ee as E_s E_t E_f. subst src fut u. apply HS. cbn [s0 npop ns_stat] in E7. rewrite E7. unfold st_init. cbn [set_all fold_left].
        apply (set_all_notin done (fun _ => stS) stI tgt).
        intro Hin. pose proof Hi0 as Hn. rewrite E1 in Hn. apply NoDup_remove_2 in Hn. apply Hn. apply in_or_app. left. exact Hin.
      * cbn [s0 npop ns_stat ns_rec ns_ord ns_q ns_log] in *. apply (ph_main _ _ _ _ _ evs txs); try assumption. reflexivity.
Qed.

(* ---------------- every run ---------------- *)
Definition NI (s : nst) : Prop := exists clock, NInvP [] clock s.

Lemma n_loop_NI : forall fuel s s', n_loop g dur delays tmax fuel s = Ok s' -> NI s -> NI s' /\ q_items (ns_q s') = [].
Proof.
  induction fuel as [|f IH]; intros s s' H Hi; cbn [n_loop] in H.
  - destruct (q_items (ns_q s)) as [|[[t c] e] rest] eqn:Eq; [|discriminate H]. injection H as <-. split; assumption.
  - destruct (q_items (ns_q s)) as [|[[t c] e] rest] eqn:Eq; [injection H as <-; split; assumption|].
    apply IH in H; [exact H|]. destruct Hi as [clock Hi]. exists t. destruct e as [v|src tgt fut]; cbn [n_event].
    + apply (nrec_pres clock s t c v rest Hi Eq).
    + apply (ntrans_pres clock s t c src tgt fut rest Hi Eq).
Qed.

Theorem nm_run_logs : forall full fuel out,
  nm_run g dur delays tmax tmin full fuel i0 = Ok out ->
  exists evs txs lg st, LL chk evs txs lg st /\ (chk = true -> strict_ok evs txs = true) /\
                        out = finish g tmin full (length i0) lg.
Proof.
  intros full fuel out H. unfold nm_run in H.
  destruct (n_loop g dur delays tmax fuel (n_init g tmax tmin i0)) as [s'|e] eqn:El; [|discriminate H].
  cbn [rbind] in H. injection H as <-.
  destruct (n_loop_NI fuel _ s' El (ex_intro _ tmin NInv_init)) as [[clock Hi] Eq].
  destruct (n_ph _ _ _ Hi) as [done rem P l E1 E2 E3 E4 E5 E6 E7|evs txs _ HL Hs HJ].
  - rewrite Eq in E2. symmetry in E2. apply app_eq_nil in E2. destruct E2 as [-> ->].
    destruct rem; [|discriminate E4]. cbn [app] in E1. rewrite app_nil_r in E1. subst done.
    exists [], [], (ns_log s'), (ns_stat s'). split; [rewrite E6, E7; apply LL_start|]. split; [reflexivity|reflexivity].
  - exists evs, txs, (ns_log s'), (ns_stat s'). split; [exact HL|]. split; [|reflexivity]. intro Hc. apply (HJ Hc).
Qed.

End NM.
