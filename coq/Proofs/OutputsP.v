(* Generic facts about Model/Outputs.v: the time grid, the shape of a returned tuple, reading row j of a
   returned series, and the inversion lemma `run_inv` that every per-entry-point proof starts from.
   What is assumed about the integrator (scipy.integrate.odeint / the integrate.ode loop of _my_odeint_) is
   `msolver_ok`: one row per time, every row as wide as the initial vector, row 0 = the initial vector. *)
From EoNV Require Import Prelude Graph Aux Vec IC Wrappers VecP Outputs.
From Coq Require Import Lqa Setoid Morphisms.

Definition msolver_ok (sv : msolver) : Prop :=
  forall x0 ts, length (sv x0 ts) = length ts /\
                (forall j, (j < length ts)%nat -> length (nth j (sv x0 ts) []) = length x0) /\
                (ts <> [] -> nth 0 (sv x0 ts) [] = x0).

(* ---------------- linspace ---------------- *)
Lemma nth_map_seq' {A} (f : nat -> A) n j d : (j < n)%nat -> nth j (map f (seq 0 n)) d = f j.
Proof. intros H. rewrite (nth_indep _ d (f 0%nat)) by (rewrite map_length, seq_length; exact H). rewrite map_nth, seq_nth by exact H. reflexivity. Qed.

Lemma linspace_length a b n : length (linspace a b n) = n.
Proof. destruct n as [|[|n]]; cbn [linspace length]; try reflexivity. rewrite map_length, seq_length. reflexivity. Qed.

Lemma linspace_nonempty a b n : (0 < n)%nat -> linspace a b n <> [].
Proof. intros H E. pose proof (linspace_length a b n) as L. rewrite E in L. cbn in L. lia. Qed.

Lemma linspace_first a b n : (0 < n)%nat -> nth 0 (linspace a b n) 0 == a.
Proof.
  destruct n as [|[|n]]; [lia| reflexivity|]. intros _. unfold linspace.
  change (seq 0 (S (S n))) with (0%nat :: seq 1 (S n)). cbn [map nth]. cbn [Nat.eqb Nat.sub].
  unfold Qnat. cbn [Z.of_nat inject_Z]. ring.
Qed.

Lemma linspace_last a b n : (1 < n)%nat -> nth (n - 1) (linspace a b n) 0 = b.
Proof.
  destruct n as [|[|n]]; [lia|lia|]. intros _. unfold linspace.
  rewrite nth_map_seq' by lia. rewrite Nat.eqb_refl. reflexivity.
Qed.

Lemma linspace_nth a b n j : (1 < n)%nat -> (j < n - 1)%nat ->
  nth j (linspace a b n) 0 == a + Qnat j * ((b - a) / Qnat (n - 1)).
Proof.
  destruct n as [|[|n]]; [lia|lia|]. intros _ Hj. unfold linspace.
  rewrite nth_map_seq' by lia.
  destruct (Nat.eqb j (S (S n) - 1)) eqn:E; [apply Nat.eqb_eq in E; lia|reflexivity].
Qed.

(* ---------------- reading a returned tuple ---------------- *)
(* series nm of an assembled output at row j (scalar / vector / matrix valued); 0 / [] when the series is absent or of another
   kind - the theorems pin the list of names, so a missing series cannot make a statement true by default *)
Definition sser (nm : oname) (j : nat) (o : olist) : Q := match oget nm o with Some (Sc f) => f j | _ => 0 end.
Definition vser (nm : oname) (j : nat) (o : olist) : vec := match oget nm o with Some (Ve f) => f j | _ => [] end.
Definition mser (nm : oname) (j : nat) (o : olist) : list vec := match oget nm o with Some (Ma f) => f j | _ => [] end.
Definition sval (nm : oname) (j : nat) (r : oret) : Q := match oget nm (r_series r) with Some (RS l) => nth j l 0 | _ => 0 end.
Definition vval (nm : oname) (j : nat) (r : oret) : vec := match oget nm (r_series r) with Some (RV l) => nth j l [] | _ => [] end.
Definition mval (nm : oname) (j : nat) (r : oret) : list vec := match oget nm (r_series r) with Some (RM l) => nth j l [] | _ => [] end.
(* every returned array has n rows *)
Definition all_len (n : nat) (r : oret) : Prop := Forall (fun ns => rlen (snd ns) = n) (r_series r).

Lemma oget_map {A B} (f : A -> B) nm (o : list (oname * A)) :
  oget nm (map (fun ns => (fst ns, f (snd ns))) o) = option_map f (oget nm o).
Proof. induction o as [|[m s] o IH]; [reflexivity|]. cbn [map oget fst snd]. destruct (oname_eqb nm m); [reflexivity|exact IH]. Qed.

Lemma names_map {A B} (f : A -> B) (o : list (oname * A)) : names (map (fun ns => (fst ns, f (snd ns))) o) = names o.
Proof. unfold names. rewrite map_map. reflexivity. Qed.

Lemma mat_rlen n s : rlen (mat n s) = n.
Proof. destruct s; cbn [mat rlen]; rewrite map_length, seq_length; reflexivity. Qed.

Section Read.
Variables (ts : list Q) (x0 : vec) (L : nat) (o : olist).
Let r := mkRet ts x0 (map (fun ns => (fst ns, mat L (snd ns))) o).
Lemma sval_mat nm j : (j < L)%nat -> sval nm j r = sser nm j o.
Proof.
  intros H. unfold sval, sser, r. cbn [r_series]. rewrite oget_map. destruct (oget nm o) as [[f|f|f]|]; cbn [option_map mat]; try reflexivity.
  apply nth_map_seq'. exact H.
Qed.
Lemma vval_mat nm j : (j < L)%nat -> vval nm j r = vser nm j o.
Proof.
  intros H. unfold vval, vser, r. cbn [r_series]. rewrite oget_map. destruct (oget nm o) as [[f|f|f]|]; cbn [option_map mat]; try reflexivity.
  apply nth_map_seq'. exact H.
Qed.
Lemma mval_mat nm j : (j < L)%nat -> mval nm j r = mser nm j o.
Proof.
  intros H. unfold mval, mser, r. cbn [r_series]. rewrite oget_map. destruct (oget nm o) as [[f|f|f]|]; cbn [option_map mat]; try reflexivity.
  apply nth_map_seq'. exact H.
Qed.
Lemma all_len_mat : all_len L r.
Proof. unfold all_len, r. cbn [r_series]. apply Forall_forall. intros ns H. apply in_map_iff in H. destruct H as [[m s] [<- _]]. apply mat_rlen. Qed.
End Read.

(* ---------------- inversion of a run ---------------- *)
(* the facts about the matrix X = sv x0 ts that the per-entry proofs use, with x = traj_of X *)
Record run_facts (sv : msolver) (m : emodel) (tmin tmax : Q) (n : nat) (r : oret) (x0 : vec) (asm : traj -> result olist) (o : olist) (x : traj) : Prop := {
  rf_model : m = Ok (x0, asm);
  rf_x : x = traj_of (sv x0 (linspace tmin tmax n));
  rf_asm : asm x = Ok o;
  rf_row0 : x 0%nat = x0;
  rf_width : forall j, (j < n)%nat -> length (x j) = length x0;
  rf_times : r_times r = linspace tmin tmax n;
  rf_X0 : r_X0 r = x0;
  rf_names : names (r_series r) = names o;
  rf_len : all_len n r;
  rf_s : forall nm j, (j < n)%nat -> sval nm j r = sser nm j o;
  rf_v : forall nm j, (j < n)%nat -> vval nm j r = vser nm j o;
  rf_m : forall nm j, (j < n)%nat -> mval nm j r = mser nm j o }.

Lemma run_inv m tmin tmax n sv r : msolver_ok sv -> (0 < n)%nat -> run_model m tmin tmax n sv = Ok r ->
  exists x0 asm o x, run_facts sv m tmin tmax n r x0 asm o x.
Proof.
  intros OK Hn. unfold run_model. destruct m as [[x0 asm]|e]; cbn [rbind fst snd]; [|discriminate].
  unfold run_ode. set (ts := linspace tmin tmax n). set (X := sv x0 ts).
  destruct (asm (traj_of X)) as [o|e] eqn:EA; cbn [rbind]; [|discriminate]. intros H. injection H as <-.
  destruct (OK x0 ts) as (HL & HW & H0). fold X in HL, HW, H0.
  assert (Lts : length ts = n) by apply linspace_length.
  exists x0, asm, o, (traj_of X). split; try reflexivity.
  - exact EA.
  - unfold traj_of. apply H0. apply linspace_nonempty. exact Hn.
  - intros j Hj. unfold traj_of. apply HW. lia.
  - cbn [r_series]. apply names_map.
  - rewrite HL, Lts. apply all_len_mat.
  - intros nm j Hj. rewrite HL, Lts. apply sval_mat. exact Hj.
  - intros nm j Hj. rewrite HL, Lts. apply vval_mat. exact Hj.
  - intros nm j Hj. rewrite HL, Lts. apply mval_mat. exact Hj.
Qed.

Arguments rf_model {sv m tmin tmax n r x0 asm o x} _.
Arguments rf_x {sv m tmin tmax n r x0 asm o x} _.
Arguments rf_asm {sv m tmin tmax n r x0 asm o x} _.
Arguments rf_row0 {sv m tmin tmax n r x0 asm o x} _.
Arguments rf_width {sv m tmin tmax n r x0 asm o x} _.
Arguments rf_times {sv m tmin tmax n r x0 asm o x} _.
Arguments rf_X0 {sv m tmin tmax n r x0 asm o x} _.
Arguments rf_names {sv m tmin tmax n r x0 asm o x} _.
Arguments rf_len {sv m tmin tmax n r x0 asm o x} _.
Arguments rf_s {sv m tmin tmax n r x0 asm o x} _.
Arguments rf_v {sv m tmin tmax n r x0 asm o x} _.
Arguments rf_m {sv m tmin tmax n r x0 asm o x} _.

(* a run returns whenever the argument checks pass *)
Lemma run_ok m tmin tmax n sv x0 asm : m = Ok (x0, asm) -> (forall x, exists o, asm x = Ok o) -> exists r, run_model m tmin tmax n sv = Ok r.
Proof.
  intros -> HA. unfold run_model. cbn [rbind fst snd]. unfold run_ode.
  destruct (HA (traj_of (sv x0 (linspace tmin tmax n)))) as [o ->]. cbn [rbind]. eauto.
Qed.

(* the shape of a returned tuple: times = linspace, every array has tcount rows, the solver was started at X0, the series are
   the documented ones in the documented order *)
Definition shaped (r : oret) (tmin tmax : Q) (n : nat) (X0 : vec) (nms : list oname) : Prop :=
  r_times r = linspace tmin tmax n /\ all_len n r /\ r_X0 r = X0 /\ names (r_series r) = nms.

(* the run fails exactly when the argument checks fail (no solver behaviour involved) *)
Lemma run_err m tmin tmax n sv e : run_model m tmin tmax n sv = Err e ->
  m = Err e \/ exists x0 asm x, m = Ok (x0, asm) /\ asm x = Err e.
Proof.
  unfold run_model. destruct m as [[x0 asm]|e']; cbn [rbind fst snd].
  - unfold run_ode. destruct (asm _) as [o|e'] eqn:EA; cbn [rbind]; [discriminate|]. intros H. injection H as <-. right. eauto.
  - intros H. injection H as <-. left. reflexivity.
Qed.

(* ---------------- a solver that satisfies the hypothesis, and one that preserves a linear invariant ---------------- *)
(* explicit Euler on the grid for a system of dimension d: row j+1 = row j + (t_{j+1} - t_j) * f(row j, t_j)
   (initial vectors of another dimension are outside the system: constant rows) *)
Fixpoint euler_rows (f : vec -> Q -> vec) (x : vec) (t : Q) (ts : list Q) : list vec :=
  match ts with
  | [] => []
  | t' :: ts' => let x' := vadd x (smul (t' - t) (f x t)) in x' :: euler_rows f x' t' ts'
  end.
Definition euler_solver (d : nat) (f : vec -> Q -> vec) : msolver :=
  fun x0 ts => if Nat.eqb (length x0) d then match ts with [] => [] | t0 :: ts' => x0 :: euler_rows f x0 t0 ts' end
               else map (fun _ => x0) ts.
(* the right-hand side returns as many components as the state has (true of every dfunc of analytic.py) *)
Definition shape_preserving (d : nat) (f : vec -> Q -> vec) : Prop := forall x t, length x = d -> length (f x t) = d.

Lemma nth_map_const {A B} (c : B) (l : list A) j d : (j < length l)%nat -> nth j (map (fun _ => c) l) d = c.
Proof. revert j. induction l as [|a l IH]; intros j Hj; cbn in Hj; [lia|]. destruct j; cbn; [reflexivity|apply IH; lia]. Qed.

Lemma euler_rows_length f x t ts : length (euler_rows f x t ts) = length ts.
Proof. revert x t. induction ts as [|t' ts IH]; intros; cbn; [reflexivity|]. rewrite IH. reflexivity. Qed.

Lemma euler_rows_width d f : shape_preserving d f -> forall ts x t j, length x = d -> (j < length ts)%nat -> length (nth j (euler_rows f x t ts) []) = d.
Proof.
  intros SP ts. induction ts as [|t' ts IH]; intros x t j Hx Hj; cbn in Hj; [lia|]. cbn [euler_rows].
  assert (W : length (vadd x (smul (t' - t) (f x t))) = d) by (rewrite vadd_length, smul_length, SP, Hx by exact Hx; lia).
  destruct j as [|j]; cbn [nth]; [exact W|]. apply IH; [exact W|lia].
Qed.

Lemma euler_solver_ok d f : shape_preserving d f -> msolver_ok (euler_solver d f).
Proof.
  intros SP x0 ts. unfold euler_solver. destruct (Nat.eqb (length x0) d) eqn:E.
  - apply Nat.eqb_eq in E. destruct ts as [|t0 ts].
    + split; [reflexivity|]. split; [intros j Hj; cbn in Hj; lia|]. intros H; congruence.
    + split; [cbn; rewrite euler_rows_length; reflexivity|]. split; [|reflexivity].
      intros [|j] Hj; cbn [nth]; [reflexivity|]. rewrite E. apply (euler_rows_width d); [exact SP|exact E|cbn in Hj; lia].
  - split; [apply map_length|]. split.
    + intros j Hj. rewrite nth_map_const by exact Hj. reflexivity.
    + destruct ts as [|t0 ts]; [congruence|reflexivity].
Qed.

(* a solver preserves the linear functional w . x when every row has the value of row 0 *)
Definition preserves (w : vec -> Q) (sv : msolver) : Prop :=
  forall x0 ts j, (j < length ts)%nat -> w (nth j (sv x0 ts) []) == w x0.

Lemma vsum_vadd a b : length a = length b -> vsum (vadd a b) == vsum a + vsum b.
Proof.
  revert b. induction a as [|x a IH]; intros [|y b] H; cbn in H; try discriminate; [cbn; ring|].
  change (vadd (x :: a) (y :: b)) with ((x + y) :: vadd a b). rewrite !vsum_cons. rewrite IH by congruence. ring.
Qed.
Lemma vsum_smul c a : vsum (smul c a) == c * vsum a.
Proof. induction a as [|x a IH]; [cbn; ring|]. change (smul c (x :: a)) with ((c * x) :: smul c a). rewrite !vsum_cons, IH. ring. Qed.

(* if the components of the right-hand side sum to zero at every state of dimension d (the conserve_ theorems of
   Props/C06.v over the generated right-hand sides), explicit Euler keeps the sum of the components *)
Lemma euler_preserves_vsum d f : shape_preserving d f -> (forall x t, length x = d -> vsum (f x t) == 0) -> preserves vsum (euler_solver d f).
Proof.
  intros SP Z x0 ts j Hj. unfold euler_solver. destruct (Nat.eqb (length x0) d) eqn:E.
  2:{ rewrite nth_map_const by exact Hj. reflexivity. }
  apply Nat.eqb_eq in E. destruct ts as [|t0 ts]; [cbn in Hj; lia|].
  destruct j as [|j]; cbn [nth]; [reflexivity|]. cbn in Hj. assert (Hj' : (j < length ts)%nat) by lia. clear Hj.
  revert x0 t0 j E Hj'. induction ts as [|t' ts IH]; intros x0 t0 j E Hj; cbn in Hj; [lia|]. cbn [euler_rows].
  assert (W : length (vadd x0 (smul (t' - t0) (f x0 t0))) = d) by (rewrite vadd_length, smul_length, SP, E by exact E; lia).
  assert (EQ : vsum (vadd x0 (smul (t' - t0) (f x0 t0))) == vsum x0).
  { rewrite vsum_vadd by (rewrite smul_length, SP, E by exact E; reflexivity). rewrite vsum_smul, Z by exact E. ring. }
  destruct j as [|j]; cbn [nth]; [exact EQ|]. rewrite IH by (try exact W; lia). exact EQ.
Qed.

(* ---------------- list / slice helpers for the per-entry proofs ---------------- *)
Lemma slice_app_l a b n : length a = n -> slice 0 n (a ++ b) = a.
Proof. intros <-. unfold slice. rewrite Nat.sub_0_r. cbn [skipn]. rewrite firstn_app, Nat.sub_diag, firstn_all. cbn. apply app_nil_r. Qed.
Lemma slice_app_mid a b c n m : length a = n -> length b = (m - n)%nat -> slice n m (a ++ b ++ c) = b.
Proof.
  intros Ha Hb. unfold slice. rewrite skipn_app, Ha, Nat.sub_diag, skipn_all2 by lia. cbn [skipn app].
  rewrite firstn_app, Hb, Nat.sub_diag, <- Hb, firstn_all. cbn. apply app_nil_r.
Qed.
Lemma skipn_app_l {A} (a b : list A) n : length a = n -> skipn n (a ++ b) = b.
Proof. intros <-. rewrite skipn_app, Nat.sub_diag, skipn_all. reflexivity. Qed.
Lemma ones_length n : length (ones n) = n.
Proof. unfold ones. rewrite map_length, seq_length. reflexivity. Qed.
Lemma vsum_ones n : vsum (ones n) == Qnat n.
Proof.
  unfold ones. generalize 0%nat. induction n as [|n IH]; intros s; [reflexivity|].
  cbn [seq map]. rewrite vsum_cons, IH. unfold Qnat. rewrite Nat2Z.inj_succ, <- Z.add_1_l, inject_Z_plus. ring.
Qed.
Lemma vsum_vsub a b : length a = length b -> vsum (vsub a b) == vsum a - vsum b.
Proof.
  revert b. induction a as [|x a IH]; intros [|y b] H; cbn in H; try discriminate; [cbn; ring|].
  change (vsub (x :: a) (y :: b)) with ((x - y) :: vsub a b). rewrite !vsum_cons. rewrite IH by congruence. ring.
Qed.
Lemma slice_length a b (x : vec) : (b <= length x)%nat -> length (slice a b x) = (b - a)%nat.
Proof. intros H. unfold slice. rewrite firstn_length, skipn_length. lia. Qed.
Lemma slice_from_length a (x : vec) : length (slice_from a x) = (length x - a)%nat.
Proof. unfold slice_from. apply skipn_length. Qed.
(* X[:n] and X[n:] partition X *)
Lemma vsum_split n (x : vec) : vsum (slice 0 n x) + vsum (slice_from n x) == vsum x.
Proof. unfold slice, slice_from. rewrite Nat.sub_0_r. cbn [skipn]. rewrite <- vsum_app, firstn_skipn. reflexivity. Qed.
