(* C08, tree exactness, step (3a) for EVERY graph: the marginals of the master equation obey the unclosed moment
   system,  marginals (master_rhs p) = open_rhs p,  for every p (summation by parts over the joint states).
     decomp        sum over all states = sum over the states with s_k = S of the three values s, s[k:=I], s[k:=R]
     term_sum      adjoint form of the events at one position
     moment        d/dt Prob(c) as a sum over positions
     force_sum     sum of force * p over an event = sum over neighbours of rate * Prob(event and neighbour infected)
   Closed under the global context. *)
From EoNV Require Import Prelude Vec VecP Graph Rhs2D Rhs2DP Rhs2 Rhs2GenP Master C08tG C08tS C08tR.
From Coq Require Import Lqa Setoid Morphisms.

Definition ind (b : bool) : Q := if b then 1 else 0.

Lemma sum_swap {A B} (G : A -> B -> Q) (l1 : list A) (l2 : list B) :
  sumQ (map (fun a => sumQ (map (fun b => G a b) l2)) l1) == sumQ (map (fun b => sumQ (map (fun a => G a b) l1)) l2).
Proof.
  induction l1 as [|a l1 IH]; cbn [map]; rewrite ?sumQ_nil, ?sumQ_cons.
  - symmetry. apply sum_map_zero. intros; reflexivity.
  - rewrite IH. rewrite <- sum_map_add. apply sum_map_ext. intros b _. rewrite sumQ_cons. reflexivity.
Qed.
Lemma sum_if_scal {A} (c : bool) (f : A -> Q) (x : Q) l :
  (if c then sumQ (map f l) * x else 0) == sumQ (map (fun v => if c then f v * x else 0) l).
Proof.
  destruct c.
  - rewrite Qmult_comm, <- sum_map_scal. apply sum_map_ext. intros; ring.
  - symmetry. apply sum_map_zero. intros; reflexivity.
Qed.
Lemma sum_seq_one (g : nat -> Q) n i : (i < n)%nat -> (forall k, (k < n)%nat -> k <> i -> g k == 0) ->
  sumQ (map g (seq 0 n)) == g i.
Proof.
  intros Hi Hz. assert (Hin : In i (seq 0 n)) by (apply in_seq; lia).
  destruct (in_split _ _ Hin) as [l1 [l2 E]]. assert (ND := seq_NoDup n 0). rewrite E in ND.
  apply NoDup_remove_2 in ND. rewrite E, map_app, sumQ_app. cbn [map]. rewrite sumQ_cons.
  assert (Z : forall l, (forall k, In k l -> In k (seq 0 n) /\ k <> i) -> sumQ (map g l) == 0).
  { intros l H. apply sum_map_zero. intros k Hk. destruct (H k Hk) as [A B]. apply in_seq in A. apply Hz; [lia|exact B]. }
  rewrite (Z l1), (Z l2); [ring| |].
  - intros k Hk. split; [rewrite E; apply in_or_app; right; right; exact Hk|]. intros ->. apply ND. apply in_or_app. right. exact Hk.
  - intros k Hk. split; [rewrite E; apply in_or_app; left; exact Hk|]. intros ->. apply ND. apply in_or_app. left. exact Hk.
Qed.

(* ---------------- states ---------------- *)
Lemma is1_cons_S k x a t : is1 (S k) x (a :: t) = is1 k x t. Proof. reflexivity. Qed.
Lemma upd_cons_S k x a t : upd (a :: t) (S k) x = a :: upd t k x. Proof. reflexivity. Qed.
Lemma upd_upd s k x y : upd (upd s k y) k x = upd s k x.
Proof. revert k; induction s as [|a s IH]; intros k; [reflexivity|]. destruct k; cbn [upd]; [reflexivity|]. rewrite IH. reflexivity. Qed.
Lemma upd_same s k : (k < length s)%nat -> upd s k (st_at s k) = s.
Proof.
  unfold st_at. revert k; induction s as [|a s IH]; intros k Hk; [cbn in Hk; lia|].
  destruct k; cbn [upd nth]; [reflexivity|]. rewrite IH by (cbn [length] in Hk; lia). reflexivity.
Qed.
Lemma is1_upd s k x i a : (k < length s)%nat -> is1 i a (upd s k x) = if Nat.eqb i k then N.eqb x a else is1 i a s.
Proof. intros Hk. unfold is1. rewrite st_at_upd by exact Hk. destruct (Nat.eqb i k); reflexivity. Qed.

Lemma sum_all_S n (F : state -> Q) :
  sumQ (map F (all_states (S n))) == sumQ (map (fun t => F (stS :: t) + F (stI :: t) + F (stR :: t)) (all_states n)).
Proof.
  cbn [all_states flat_map]. rewrite app_nil_r, !map_app, !sumQ_app, !map_map. unfold state in *.
  rewrite !sum_map_add. ring.
Qed.
Lemma decomp n k (F : state -> Q) : (k < n)%nat ->
  sumQ (map F (all_states n))
  == sumQ (map (fun s => if is1 k stS s then F s + F (upd s k stI) + F (upd s k stR) else 0) (all_states n)).
Proof.
  revert k F; induction n as [|n IH]; intros k F Hk; [lia|]. rewrite !sum_all_S. destruct k as [|k].
  - apply sum_map_ext. intros t _. cbv [is1 st_at nth upd stS stI stR N.eqb Pos.eqb]. ring.
  - unfold state in *. rewrite !sum_map_add.
    rewrite (IH k (fun t => F (stS :: t))), (IH k (fun t => F (stI :: t))), (IH k (fun t => F (stR :: t))) by lia.
    reflexivity.
Qed.

Lemma others_zero (x : node) (l : list node) (g : node -> Q) : g x == 0 ->
  sumQ (map g l) == sumQ (map g (others x l)).
Proof.
  intros Hx. induction l as [|y l IH]; [reflexivity|]. rewrite others_cons. cbn [map]. rewrite sumQ_cons, IH.
  destruct (N.eqb y x) eqn:E; cbn [negb map]; rewrite ?sumQ_cons; [|reflexivity].
  apply N.eqb_eq in E. subst y. rewrite Hx. ring.
Qed.
Lemma others_split (x : node) (l : list node) (g : node -> Q) : nodupb l = true -> mem x l = true ->
  sumQ (map g l) == g x + sumQ (map g (others x l)).
Proof.
  induction l as [|y l IH]; intros Hn Hm; [discriminate Hm|].
  cbn [nodupb] in Hn. apply andb_prop in Hn. destruct Hn as [Hy Hn]. apply negb_true_iff in Hy.
  rewrite mem_cons in Hm. rewrite others_cons. cbn [map]. rewrite sumQ_cons.
  destruct (N.eqb x y) eqn:E.
  - apply N.eqb_eq in E. subst y. rewrite N.eqb_refl. cbn [negb]. rewrite (others_notin x l Hy). reflexivity.
  - cbn [orb] in Hm. rewrite N.eqb_sym, E. cbn [negb map]. rewrite sumQ_cons, (IH Hn Hm). ring.
Qed.

Section Open.
Variables (G : graph) (nodelist : list node) (idx : node -> nat) (tr : node -> node -> Q) (rc : node -> Q).
Hypothesis W : pb_wfb G nodelist idx = true.
Notation n_ := (nN nodelist).
Notation nd := (node_at nodelist).
Notation edge := (is_edge G nodelist).
Notation AS := (all_states n_).
Notation frc := (force G nodelist idx tr).
Notation term := (master_term G nodelist idx tr rc).
Notation master := (master_rhs G nodelist idx tr rc).
Notation P := (prob nodelist).
Variable p : state -> Q.

(* adjoint form of the events at position k, on the states with s_k = S *)
Definition Lc (k : nat) (c : state -> bool) (s : state) : Q :=
  (ind (c (upd s k stI)) - ind (c s)) * frc s k * p s
  + (ind (c (upd s k stR)) - ind (c (upd s k stI))) * rc (nd k) * p (upd s k stI).

Lemma term_sum k (c : state -> bool) : (k < n_)%nat ->
  sumQ (map (fun s => if c s then term p s k else 0) AS) == sumQ (map (fun s => if is1 k stS s then Lc k c s else 0) AS).
Proof.
  intros Hk. rewrite (decomp n_ k (fun s => if c s then term p s k else 0) Hk).
  apply sum_map_ext. intros s Hs. destruct (is1 k stS s) eqn:E; [|reflexivity].
  apply in_all_states in Hs. destruct Hs as [L _]. assert (Hk' : (k < length s)%nat) by (rewrite L; exact Hk).
  unfold is1 in E. apply N.eqb_eq in E.
  assert (E1 : st_at (upd s k stI) k = stI) by (rewrite st_at_upd by exact Hk'; rewrite Nat.eqb_refl; reflexivity).
  assert (E2 : st_at (upd s k stR) k = stR) by (rewrite st_at_upd by exact Hk'; rewrite Nat.eqb_refl; reflexivity).
  assert (B : upd s k stS = s) by (rewrite <- E; apply upd_same; exact Hk').
  unfold master_term, Lc, ind. rewrite E, E1, E2, !upd_upd, B. unfold stS, stI, stR.
  destruct (c s), (c (upd s k 1%N)), (c (upd s k 2%N)); ring.
Qed.

Lemma moment (c : state -> bool) :
  P (master p) c == sumQ (map (fun k => sumQ (map (fun s => if is1 k stS s then Lc k c s else 0) AS)) (seq 0 n_)).
Proof.
  unfold prob, master_rhs.
  transitivity (sumQ (map (fun s => sumQ (map (fun k => if c s then term p s k else 0) (seq 0 n_))) AS)).
  - apply sum_map_ext. intros s _. destruct (c s); [reflexivity|]. symmetry. apply sum_map_zero. intros; reflexivity.
  - rewrite sum_swap. apply sum_map_ext. intros k Hk. apply in_seq in Hk. apply term_sum. lia.
Qed.

(* sum of force * p over an event *)
Lemma force_sum (e : state -> bool) i :
  sumQ (map (fun s => if e s then frc s i * p s else 0) AS)
  == sumQ (map (fun v => tr (nd i) v * P p (fun s => e s && is1 (idx v) stI s)) (gadj G (nd i))).
Proof.
  unfold force.
  rewrite (sum_map_ext AS _ (fun s => sumQ (map (fun v => if e s then (if is1 (idx v) stI s then tr (nd i) v else 0) * p s else 0) (gadj G (nd i)))))
    by (intros s _; apply sum_if_scal).
  rewrite sum_swap. apply sum_map_ext. intros v _. unfold prob. rewrite <- sum_map_scal. apply sum_map_ext. intros s _.
  destruct (e s), (is1 (idx v) stI s); cbn [andb]; ring.
Qed.
(* states with s_k = I, re-indexed by the states with s_k = S *)
Lemma infected_sum (e : state -> bool) k : (k < n_)%nat ->
  P p (fun s => is1 k stI s && e s)
  == sumQ (map (fun s => if is1 k stS s then (if e (upd s k stI) then p (upd s k stI) else 0) else 0) AS).
Proof.
  intros Hk. unfold prob. rewrite (decomp n_ k _ Hk). apply sum_map_ext. intros s Hs.
  destruct (is1 k stS s) eqn:E; [|reflexivity].
  apply in_all_states in Hs. destruct Hs as [L _]. assert (Hk' : (k < length s)%nat) by (rewrite L; exact Hk).
  rewrite !is1_upd by exact Hk'. rewrite Nat.eqb_refl. unfold is1 in E |- *. apply N.eqb_eq in E. rewrite E.
  cbv [stS stI stR N.eqb Pos.eqb andb]. ring.
Qed.

(* ---------------- the four kinds of events ---------------- *)
Lemma Lc_indep k (c : state -> bool) s : c (upd s k stI) = c s -> c (upd s k stR) = c s -> Lc k c s == 0.
Proof. intros H1 H2. unfold Lc. rewrite H1, H2. ring. Qed.
Lemma inner_zero k (c : state -> bool) : (forall s x, In s AS -> c (upd s k x) = c s) ->
  sumQ (map (fun s => if is1 k stS s then Lc k c s else 0) AS) == 0.
Proof.
  intros H. apply sum_map_zero. intros s Hs. destruct (is1 k stS s); [|reflexivity]. apply Lc_indep; apply H; exact Hs.
Qed.
Lemma len_of s : In s AS -> length s = n_.
Proof. intros H. apply in_all_states in H. apply H. Qed.
Lemma neqb i k : i <> k -> Nat.eqb i k = false. Proof. apply Nat.eqb_neq. Qed.

Lemma ev_X i : (i < n_)%nat ->
  P (master p) (is1 i stS) == - sumQ (map (fun v => tr (nd i) v * P p (fun s => is1 i stS s && is1 (idx v) stI s)) (gadj G (nd i))).
Proof.
  intros Hi. rewrite moment. rewrite (sum_seq_one _ n_ i Hi).
  - rewrite <- force_sum. rewrite <- sum_map_opp. apply sum_map_ext. intros s Hs.
    destruct (is1 i stS s) eqn:E; [|ring]. unfold Lc. rewrite !is1_upd by (rewrite (len_of s Hs); exact Hi).
    rewrite Nat.eqb_refl, E. cbv [ind stS stI stR N.eqb Pos.eqb]. ring.
  - intros k Hk Nk. apply inner_zero. intros s x Hs. rewrite is1_upd by (rewrite (len_of s Hs); exact Hk).
    rewrite (neqb i k) by congruence. reflexivity.
Qed.

Lemma ev_Y i : (i < n_)%nat ->
  P (master p) (is1 i stI)
  == sumQ (map (fun v => tr (nd i) v * P p (fun s => is1 i stS s && is1 (idx v) stI s)) (gadj G (nd i))) - rc (nd i) * P p (is1 i stI).
Proof.
  intros Hi. rewrite moment. rewrite (sum_seq_one _ n_ i Hi).
  - rewrite <- force_sum.
    rewrite (prob_ext nodelist p (is1 i stI) (fun s => is1 i stI s && (fun _ => true) s)) by (intros s; rewrite andb_true_r; reflexivity).
    rewrite (infected_sum (fun _ => true) i Hi). rewrite <- sum_map_scal, <- sum_map_sub. apply sum_map_ext. intros s Hs.
    destruct (is1 i stS s) eqn:E; [|ring]. unfold Lc. rewrite !is1_upd by (rewrite (len_of s Hs); exact Hi).
    rewrite Nat.eqb_refl. unfold is1 in E |- *. apply N.eqb_eq in E. rewrite E. cbv [ind stS stI stR N.eqb Pos.eqb]. ring.
  - intros k Hk Nk. apply inner_zero. intros s x Hs. rewrite is1_upd by (rewrite (len_of s Hs); exact Hk).
    rewrite (neqb i k) by congruence. reflexivity.
Qed.

Lemma sum_seq_two (g : nat -> Q) n i j : (i < n)%nat -> (j < n)%nat -> i <> j ->
  (forall k, (k < n)%nat -> k <> i -> k <> j -> g k == 0) -> sumQ (map g (seq 0 n)) == g i + g j.
Proof.
  intros Hi Hj Nij Hz.
  rewrite (sum_map_ext (seq 0 n) g (fun k => (if Nat.eqb k i then g k else 0) + (if Nat.eqb k i then 0 else g k)))
    by (intros k _; destruct (Nat.eqb k i); ring).
  rewrite sum_map_add.
  rewrite (sum_seq_one (fun k => if Nat.eqb k i then g k else 0) n i Hi)
    by (intros k _ Nk; rewrite (neqb k i Nk); reflexivity).
  rewrite (sum_seq_one (fun k => if Nat.eqb k i then 0 else g k) n j Hj).
  - rewrite Nat.eqb_refl. rewrite (neqb j i) by congruence. reflexivity.
  - intros k Hk Nk. destruct (Nat.eqb k i) eqn:E; [reflexivity|]. apply Nat.eqb_neq in E. apply Hz; assumption.
Qed.

Lemma ev_XY i j : (i < n_)%nat -> (j < n_)%nat -> i <> j ->
  P (master p) (fun s => is1 i stS s && is1 j stI s)
  == - sumQ (map (fun v => tr (nd i) v * P p (fun s => is1 i stS s && is1 j stI s && is1 (idx v) stI s)) (gadj G (nd i)))
     + sumQ (map (fun w => tr (nd j) w * P p (fun s => is1 i stS s && is1 j stS s && is1 (idx w) stI s)) (gadj G (nd j)))
     - rc (nd j) * P p (fun s => is1 i stS s && is1 j stI s).
Proof.
  intros Hi Hj Nij. rewrite moment. rewrite (sum_seq_two _ n_ i j Hi Hj Nij).
  - rewrite <- !force_sum.
    rewrite (prob_ext nodelist p (fun s => is1 i stS s && is1 j stI s) (fun s => is1 j stI s && is1 i stS s)) by (intros s; apply andb_comm).
    rewrite (infected_sum (is1 i stS) j Hj).
    rewrite <- sum_map_scal, <- sum_map_opp, <- !sum_map_add, <- sum_map_sub. apply sum_map_ext. intros s Hs.
    assert (L := len_of s Hs). unfold Lc. rewrite !is1_upd by (rewrite L; assumption).
    rewrite !Nat.eqb_refl, (neqb i j Nij), (neqb j i) by congruence.
    assert (X : is1 j stS s = true -> is1 j stI s = false) by (unfold is1; intros H; apply N.eqb_eq in H; rewrite H; reflexivity).
    destruct (is1 j stS s) eqn:Ej; [rewrite (X eq_refl)|]; destruct (is1 i stS s) eqn:Ei; destruct (is1 j stI s) eqn:Ej';
      cbv [ind stS stI stR N.eqb Pos.eqb andb]; ring.
  - intros k Hk Nki Nkj. apply inner_zero. intros s x Hs. rewrite !is1_upd by (rewrite (len_of s Hs); exact Hk).
    rewrite (neqb i k), (neqb j k) by congruence. reflexivity.
Qed.

Lemma ev_XX i j : (i < n_)%nat -> (j < n_)%nat -> i <> j ->
  P (master p) (fun s => is1 i stS s && is1 j stS s)
  == - sumQ (map (fun v => tr (nd i) v * P p (fun s => is1 i stS s && is1 j stS s && is1 (idx v) stI s)) (gadj G (nd i)))
     - sumQ (map (fun w => tr (nd j) w * P p (fun s => is1 i stS s && is1 j stS s && is1 (idx w) stI s)) (gadj G (nd j))).
Proof.
  intros Hi Hj Nij. rewrite moment. rewrite (sum_seq_two _ n_ i j Hi Hj Nij).
  - rewrite <- !force_sum. rewrite <- !sum_map_opp, <- sum_map_add, <- sum_map_sub. apply sum_map_ext. intros s Hs.
    assert (L := len_of s Hs). unfold Lc. rewrite !is1_upd by (rewrite L; assumption).
    rewrite !Nat.eqb_refl, (neqb i j Nij), (neqb j i) by congruence.
    destruct (is1 j stS s) eqn:Ej; destruct (is1 i stS s) eqn:Ei; cbv [ind stS stI stR N.eqb Pos.eqb andb]; ring.
  - intros k Hk Nki Nkj. apply inner_zero. intros s x Hs. rewrite !is1_upd by (rewrite (len_of s Hs); exact Hk).
    rewrite (neqb i k), (neqb j k) by congruence. reflexivity.
Qed.

(* ---------------- assembly ---------------- *)
Hypothesis NL : forall i, (i < n_)%nat -> edge i i = false.

Lemma nbr_XY i v : (i < n_)%nat -> In v (gadj G (nd i)) ->
  prXY nodelist (marginals G nodelist p) i (idx v) = P p (fun s => is1 i stS s && is1 (idx v) stI s).
Proof.
  intros Hi Hv. destruct (nbr_edge G nodelist idx W i v Hi Hv) as [Hk E].
  destruct (marg_layout G nodelist p i (idx v) Hi Hk) as [_ [_ [EXY _]]]. rewrite EXY. unfold mXY. rewrite E. reflexivity.
Qed.

(* the loss sum over the neighbours of i, split at the neighbour j *)
Lemma out_split (a : N) i j : (i < n_)%nat -> (j < n_)%nat -> edge i j = true ->
  sumQ (map (fun v => tr (nd i) v * P p (fun s => is1 i stS s && is1 j a s && is1 (idx v) stI s)) (gadj G (nd i)))
  == tr (nd i) (nd j) * P p (fun s => is1 i stS s && is1 j a s && is1 j stI s) + open_out G nodelist idx tr p a i j.
Proof.
  intros Hi Hj E. destruct (pb_wf_spec _ _ _ W) as [_ WF]. destruct (WF i Hi) as [_ [ND _]]. destruct (WF j Hj) as [Ij _].
  rewrite (others_split (nd j) (gadj G (nd i)) _ ND E). rewrite Ij. apply Qplus_comp; [reflexivity|].
  unfold open_out. cbv zeta. apply sum_map_ext. intros w _. apply Qmult_comp; [reflexivity|].
  unfold m3. apply prob_ext. intros s. destruct (is1 i stS s), (is1 j a s), (is1 (idx w) stI s); reflexivity.
Qed.
(* the gain / loss sum over the neighbours of j: the neighbour i contributes nothing *)
Lemma in_split_ i j : (i < n_)%nat -> (j < n_)%nat ->
  sumQ (map (fun w => tr (nd j) w * P p (fun s => is1 i stS s && is1 j stS s && is1 (idx w) stI s)) (gadj G (nd j)))
  == open_in G nodelist idx tr p i j.
Proof.
  intros Hi Hj. destruct (pb_wf_spec _ _ _ W) as [_ WF]. destruct (WF i Hi) as [Ii _].
  rewrite (others_zero (nd i)); [reflexivity|]. rewrite Ii.
  assert (Z : P p (fun s => is1 i stS s && is1 j stS s && is1 i stI s) == 0).
  { unfold prob. apply sum_map_zero. intros s _. unfold is1. destruct (st_at s i) as [|[q|q|]]; cbn; try reflexivity;
      destruct (N.eqb (st_at s j) stS); reflexivity. }
  rewrite Z. ring.
Qed.

Theorem open_general : veq (open_rhs G nodelist idx tr rc p) (marginals G nodelist (master p)).
Proof.
  unfold open_rhs. unfold marginals at 3. apply veq_app; [|apply veq_app; [|apply veq_app]].
  - apply veq_tab. intros i Hi. unfold pbSIR_dX, mX, m1. cbv zeta. rewrite (ev_X i Hi). rewrite <- sum_map_opp.
    apply sum_map_ext. intros v Hv. rewrite (nbr_XY i v Hi Hv). ring.
  - apply veq_tab. intros i Hi. unfold pbSIR_dY, mY, m1. cbv zeta. rewrite (ev_Y i Hi).
    destruct (marg_layout G nodelist p i i Hi Hi) as [_ [EY _]]. rewrite EY. unfold mY, m1.
    rewrite (sum_map_ext (gadj G (nd i)) (fun v => tr (nd i) v * prXY nodelist (marginals G nodelist p) i (idx v))
                         (fun v => tr (nd i) v * P p (fun s => is1 i stS s && is1 (idx v) stI s)))
      by (intros v Hv; rewrite (nbr_XY i v Hi Hv); reflexivity).
    ring.
  - apply veq_tab2. intros i j Hi Hj. unfold open_dXY, mXY. destruct (edge i j) eqn:E; [|reflexivity].
    assert (Nij : i <> j) by (intros ->; rewrite (NL j Hj) in E; discriminate E).
    unfold m2 at 2. rewrite (ev_XY i j Hi Hj Nij). rewrite (out_split stI i j Hi Hj E), (in_split_ i j Hi Hj).
    assert (Idem : P p (fun s => is1 i stS s && is1 j stI s && is1 j stI s) == m2 nodelist p stS i stI j).
    { unfold m2. apply prob_ext. intros s. destruct (is1 i stS s), (is1 j stI s); reflexivity. }
    rewrite Idem. unfold m2. ring.
  - apply veq_tab2. intros i j Hi Hj. unfold open_dXX, mXX. destruct (edge i j) eqn:E; [|reflexivity].
    assert (Nij : i <> j) by (intros ->; rewrite (NL j Hj) in E; discriminate E).
    unfold m2. rewrite (ev_XX i j Hi Hj Nij). rewrite (out_split stS i j Hi Hj E), (in_split_ i j Hi Hj).
    assert (Z : P p (fun s => is1 i stS s && is1 j stS s && is1 j stI s) == 0).
    { unfold prob. apply sum_map_zero. intros s _. unfold is1. destruct (st_at s j) as [|[q|q|]]; cbn; try reflexivity;
        destruct (N.eqb (st_at s i) stS); reflexivity. }
    rewrite Z. ring.
Qed.
End Open.
