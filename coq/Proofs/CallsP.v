(* Lemmas about Python's argument-binding rule [bindx]/[bind] of Model/Calls.v and
   about what [site_ok] guarantees. *)
From Coq Require Import String List Bool NArith Arith Lia.
From EoNV Require Import Prelude.
Require Import EoNV.Model.Calls.
Import ListNotations.
Open Scope string_scope.
Open Scope nat_scope.
Open Scope list_scope.

(* ------------------------------------------------------------ helpers ---- *)
Lemma smem_In : forall x l, smem x l = true <-> In x l.
Proof.
  intros x l. unfold smem. rewrite existsb_exists. split.
  - intros [y [Hy He]]. apply String.eqb_eq in He. subst. exact Hy.
  - intros H. exists x. split; [exact H | apply String.eqb_refl].
Qed.

Lemma smem_false : forall x l, smem x l = false <-> ~ In x l.
Proof.
  intros x l. rewrite <- smem_In. destruct (smem x l); split; intro H; try reflexivity;
  try discriminate; try (intro H'; discriminate). exfalso. apply H. reflexivity.
Qed.

Lemma nodupb_NoDup : forall l, nodupb l = true <-> NoDup l.
Proof.
  induction l as [|x l IH]; cbn [nodupb].
  - split; intros; [constructor | reflexivity].
  - rewrite andb_true_iff, negb_true_iff, smem_false, IH. split.
    + intros [H1 H2]. constructor; assumption.
    + intros H. inversion H; subst. split; assumption.
Qed.

Lemma NoDup_map_filter : forall (A B : Type) (f : A -> B) (g : A -> bool) l,
  NoDup (map f l) -> NoDup (map f (filter g l)).
Proof.
  intros A B f g l. induction l as [|a l IH]; cbn [map filter]; intro H.
  - constructor.
  - inversion H as [|? ? Hn Hd]; subst. destruct (g a); cbn [map].
    + constructor; [|apply IH; exact Hd].
      intro Hin. apply Hn. apply in_map_iff in Hin. destruct Hin as [y [Hy Hin]].
      apply filter_In in Hin. apply in_map_iff. exists y. tauto.
    + apply IH; exact Hd.
Qed.

Lemma map_fst_combine_firstn : forall (A B : Type) (l : list A) (m : list B),
  map fst (combine l m) = firstn (length m) l.
Proof.
  intros A B l. induction l as [|x l IH]; intros [|y m]; cbn; try reflexivity.
  f_equal. apply IH.
Qed.

Lemma In_firstn_in : forall (A : Type) n (l : list A) x, In x (firstn n l) -> In x l.
Proof.
  intros A n l x H. rewrite <- (firstn_skipn n l). apply in_or_app. left. exact H.
Qed.

Lemma NoDup_firstn : forall (A : Type) n (l : list A), NoDup l -> NoDup (firstn n l).
Proof.
  intros A n. induction n as [|n IH]; intros [|x l] H; cbn [firstn]; try constructor.
  - inversion H as [|? ? Hn Hd]; subst. intro Hin. apply Hn.
    apply In_firstn_in with (n := n). exact Hin.
  - inversion H as [|? ? Hn Hd]; subst. apply IH. exact Hd.
Qed.

Lemma NoDup_snoc : forall (A : Type) (l : list A) k, ~ In k l -> NoDup l -> NoDup (l ++ [k]).
Proof.
  intros A l k. induction l as [|y l IHl]; intros Hk Hn; cbn.
  - constructor; [intros []|constructor].
  - inversion Hn as [|? ? Hy Hd]; subst. constructor.
    + intro Hin. apply in_app_or in Hin. destruct Hin as [Hin|[->|[]]].
      * exact (Hy Hin).
      * apply Hk. left. reflexivity.
    + apply IHl; [|exact Hd]. intro Hin. apply Hk. right. exact Hin.
Qed.

(* ------------------------------------------------- step 1: positionals ---- *)
Lemma bind_pos_closed : forall ps args,
  bind_pos ps args = (combine (map p_name ps) args, skipn (length ps) args).
Proof.
  induction ps as [|p ps IH]; intros [|a args]; cbn [bind_pos map combine skipn length]; try reflexivity.
  rewrite IH. reflexivity.
Qed.

(* --------------------------------------------------- step 2: keywords ---- *)
Definition kw_is_param (sg : signature) (ka : string * argexpr) : bool :=
  smem (fst ka) (param_names sg).

Lemma bind_kw_closed : forall sg kws named xkw b,
  bind_kw sg named xkw kws = BOk b ->
  b_named b = named ++ filter (kw_is_param sg) kws /\
  b_xkw b = xkw ++ filter (fun ka => negb (kw_is_param sg ka)) kws /\
  b_xpos b = [].
Proof.
  intros sg kws. induction kws as [|[k a] kws IH]; intros named xkw b H; cbn [bind_kw] in H.
  - inversion H; subst; cbn. rewrite !app_nil_r. auto.
  - cbn [filter]. change (kw_is_param sg (k, a)) with (smem k (param_names sg)).
    destruct (smem k (map fst named)) eqn:E1; [discriminate|].
    destruct (smem k (param_names sg)) eqn:E2; cbn [negb].
    + apply IH in H. destruct H as [H1 [H2 H3]]. rewrite H1, H2, <- app_assoc. auto.
    + destruct (sg_kwargs sg); [|discriminate].
      destruct (smem k (map fst xkw)) eqn:E3; [discriminate|].
      apply IH in H. destruct H as [H1 [H2 H3]]. rewrite H1, H2, <- app_assoc. auto.
Qed.

Lemma bind_kw_nodup : forall sg kws named xkw b,
  bind_kw sg named xkw kws = BOk b ->
  NoDup (map fst named) -> NoDup (map fst (b_named b)).
Proof.
  intros sg kws. induction kws as [|[k a] kws IH]; intros named xkw b H Hn; cbn [bind_kw] in H.
  - inversion H; subst; exact Hn.
  - destruct (smem k (map fst named)) eqn:E1; [discriminate|].
    apply smem_false in E1.
    destruct (smem k (param_names sg)) eqn:E2.
    + apply IH in H; [exact H|]. rewrite map_app. cbn [map fst].
      apply NoDup_snoc; assumption.
    + destruct (sg_kwargs sg); [|discriminate].
      destruct (smem k (map fst xkw)); [discriminate|].
      apply IH in H; assumption.
Qed.

Lemma bind_kw_xkw_nodup : forall sg kws named xkw b,
  bind_kw sg named xkw kws = BOk b ->
  NoDup (map fst xkw) -> NoDup (map fst (b_xkw b)).
Proof.
  intros sg kws. induction kws as [|[k a] kws IH]; intros named xkw b H Hn; cbn [bind_kw] in H.
  - inversion H; subst; exact Hn.
  - destruct (smem k (map fst named)); [discriminate|].
    destruct (smem k (param_names sg)).
    + apply IH in H; assumption.
    + destruct (sg_kwargs sg); [|discriminate].
      destruct (smem k (map fst xkw)) eqn:E3; [discriminate|]. apply smem_false in E3.
      apply IH in H; [exact H|]. rewrite map_app. cbn [map fst].
      apply NoDup_snoc; assumption.
Qed.

Lemma bind_kw_no_kwargs : forall sg kws named xkw b,
  sg_kwargs sg = false -> bind_kw sg named xkw kws = BOk b -> b_xkw b = xkw.
Proof.
  intros sg kws. induction kws as [|[k a] kws IH]; intros named xkw b Hk H; cbn [bind_kw] in H.
  - inversion H; subst; reflexivity.
  - destruct (smem k (map fst named)); [discriminate|].
    destruct (smem k (param_names sg)).
    + eapply IH; eassumption.
    + rewrite Hk in H. discriminate.
Qed.

(* --------------------------------------------------- step 3: defaults ---- *)
Lemma first_missing_none : forall ps bn,
  first_missing ps bn = None ->
  forall p, In p ps -> p_default p = false -> In (p_name p) bn.
Proof.
  induction ps as [|q ps IH]; intros bn H p Hin Hd; cbn [first_missing] in H.
  - destruct Hin.
  - destruct (negb (p_default q) && negb (smem (p_name q) bn)) eqn:E; [discriminate|].
    destruct Hin as [->|Hin].
    + rewrite Hd in E. cbn in E. apply negb_false_iff in E. apply smem_In. exact E.
    + eapply IH; eassumption.
Qed.

Lemma first_missing_some : forall ps bn x,
  first_missing ps bn = Some x ->
  exists p, In p ps /\ p_name p = x /\ p_default p = false /\ ~ In x bn.
Proof.
  induction ps as [|q ps IH]; intros bn x H; cbn [first_missing] in H.
  - discriminate.
  - destruct (negb (p_default q) && negb (smem (p_name q) bn)) eqn:E.
    + inversion H; subst. apply andb_true_iff in E. destruct E as [E1 E2].
      apply negb_true_iff in E1, E2. apply smem_false in E2.
      exists q. split; [left; reflexivity|]. auto.
    + apply IH in H. destruct H as [p [Hin Hp]]. exists p. split; [right; exact Hin | exact Hp].
Qed.

(* ------------------------------------------------------ the whole rule ---- *)
(* unfolding of a successful binding *)
Lemma bindx_ok_inv : forall sg c b,
  bindx sg c = BOk b ->
  existsb is_star (c_pos c) = false /\
  existsb (fun ka => is_star (snd ka)) (c_kw c) = false /\
  b_named b = combine (map p_name (pos_params sg)) (c_pos c) ++ filter (kw_is_param sg) (c_kw c) /\
  b_xpos b = skipn (length (pos_params sg)) (c_pos c) /\
  b_xkw b = filter (fun ka => negb (kw_is_param sg ka)) (c_kw c) /\
  (b_xpos b <> [] -> sg_varargs sg = true) /\
  (b_xkw b <> [] -> sg_kwargs sg = true) /\
  first_missing (sg_params sg) (map fst (b_named b)) = None /\
  exists b0, bind_kw sg (combine (map p_name (pos_params sg)) (c_pos c)) [] (c_kw c) = BOk b0 /\
             b_named b0 = b_named b /\ b_xkw b0 = b_xkw b.
Proof.
  intros sg c b H. unfold bindx in H.
  destruct (existsb is_star (c_pos c) || existsb (fun ka => is_star (snd ka)) (c_kw c)) eqn:Es;
    [discriminate|].
  apply orb_false_iff in Es. destruct Es as [Es1 Es2].
  rewrite bind_pos_closed in H.
  set (named := combine (map p_name (pos_params sg)) (c_pos c)) in *.
  set (xpos := skipn (length (pos_params sg)) (c_pos c)) in *.
  assert (Hx : xpos = [] \/ sg_varargs sg = true).
  { destruct xpos; [left; reflexivity|]. destruct (sg_varargs sg); [right; reflexivity|discriminate]. }
  assert (H' : match bind_kw sg named [] (c_kw c) with
               | BErr e => BErr e
               | BOk b => match first_missing (sg_params sg) (map fst (b_named b)) with
                          | Some p => BErr (MissingRequired p)
                          | None => BOk (mkBound (b_named b) xpos (b_xkw b)) end end = BOk b).
  { destruct xpos; [exact H|]. destruct (sg_varargs sg); [exact H|discriminate]. }
  clear H. destruct (bind_kw sg named [] (c_kw c)) as [b0|e] eqn:Ek; [|discriminate].
  destruct (first_missing (sg_params sg) (map fst (b_named b0))) eqn:Em; [discriminate|].
  inversion H'; subst b; cbn [b_named b_xpos b_xkw].
  pose proof (bind_kw_closed _ _ _ _ _ Ek) as [K1 [K2 K3]]. cbn [app] in K2.
  repeat split; try assumption.
  - intro Hne. destruct Hx as [Hx|Hx]; [contradiction|exact Hx].
  - intro Hne. destruct (sg_kwargs sg) eqn:Ekw; [reflexivity|].
    exfalso. apply Hne. eapply bind_kw_no_kwargs in Ek; eassumption.
  - exists b0. auto.
Qed.

Lemma pos_params_names_nodup : forall sg,
  sig_wfb sg = true -> NoDup (map p_name (pos_params sg)).
Proof.
  intros sg H. apply nodupb_NoDup in H. unfold pos_params. apply NoDup_map_filter. exact H.
Qed.

Lemma pos_params_incl : forall sg p, In p (pos_params sg) -> In p (sg_params sg).
Proof. intros sg p H. unfold pos_params in H. apply filter_In in H. tauto. Qed.

(* (a1) no parameter is bound twice *)
Lemma bindx_named_nodup : forall sg c b,
  sig_wfb sg = true -> bindx sg c = BOk b -> NoDup (map fst (b_named b)).
Proof.
  intros sg c b Hwf H. apply bindx_ok_inv in H.
  destruct H as (_ & _ & _ & _ & _ & _ & _ & _ & b0 & Hk & Hn & _).
  rewrite <- Hn. eapply bind_kw_nodup; [exact Hk|].
  rewrite map_fst_combine_firstn. apply NoDup_firstn. apply pos_params_names_nodup. exact Hwf.
Qed.

(* (a2) every required parameter is bound *)
Lemma bindx_required_bound : forall sg c b p,
  bindx sg c = BOk b -> In p (sg_params sg) -> p_default p = false ->
  In (p_name p) (map fst (b_named b)).
Proof.
  intros sg c b p H Hin Hd. apply bindx_ok_inv in H.
  destruct H as (_ & _ & _ & _ & _ & _ & _ & Hm & _).
  eapply first_missing_none; eassumption.
Qed.

(* (a2') ... exactly once *)
Lemma bindx_required_bound_once : forall sg c b p,
  sig_wfb sg = true -> bindx sg c = BOk b -> In p (sg_params sg) -> p_default p = false ->
  count_occ string_dec (map fst (b_named b)) (p_name p) = 1.
Proof.
  intros sg c b p Hwf H Hin Hd.
  apply NoDup_count_occ'; [eapply bindx_named_nodup; eassumption|].
  eapply bindx_required_bound; eassumption.
Qed.

(* (a3) every bound name is a parameter of the callee (whether or not it has
   **kwargs: what goes to **kwargs is kept apart in b_xkw) *)
Lemma bindx_named_are_params : forall sg c b k,
  bindx sg c = BOk b -> In k (map fst (b_named b)) -> In k (param_names sg).
Proof.
  intros sg c b k H Hin. apply bindx_ok_inv in H.
  destruct H as (_ & _ & Hn & _). rewrite Hn, map_app in Hin.
  apply in_app_or in Hin. destruct Hin as [Hin|Hin].
  - rewrite map_fst_combine_firstn in Hin. apply In_firstn_in in Hin.
    apply in_map_iff in Hin. destruct Hin as [p [Hp Hin]]. subst k.
    apply in_map_iff. exists p. split; [reflexivity|]. apply pos_params_incl. exact Hin.
  - apply in_map_iff in Hin. destruct Hin as [[k' a] [Hk Hin]]. cbn in Hk. subst k'.
    apply filter_In in Hin. destruct Hin as [_ Hin]. unfold kw_is_param in Hin. cbn in Hin.
    apply smem_In. exact Hin.
Qed.

(* (a4) without *args / **kwargs nothing is left over *)
Lemma bindx_no_surplus : forall sg c b,
  bindx sg c = BOk b ->
  (sg_varargs sg = false -> b_xpos b = []) /\ (sg_kwargs sg = false -> b_xkw b = []).
Proof.
  intros sg c b H. apply bindx_ok_inv in H.
  destruct H as (_ & _ & _ & _ & _ & Hv & Hk & _). split; intro Hf.
  - destruct (b_xpos b); [reflexivity|]. rewrite Hv in Hf; [discriminate|]. discriminate.
  - destruct (b_xkw b); [reflexivity|]. rewrite Hk in Hf; [discriminate|]. discriminate.
Qed.

(* (b) the i-th positional argument is bound to the i-th positional parameter *)
Lemma bindx_positional : forall sg c b i a p,
  bindx sg c = BOk b ->
  nth_error (c_pos c) i = Some a -> nth_error (pos_params sg) i = Some p ->
  nth_error (b_named b) i = Some (p_name p, a).
Proof.
  intros sg c b i a p H Ha Hp. apply bindx_ok_inv in H.
  destruct H as (_ & _ & Hn & _). rewrite Hn. clear Hn.
  assert (Hc : nth_error (combine (map p_name (pos_params sg)) (c_pos c)) i = Some (p_name p, a)).
  { revert i Ha Hp. generalize (c_pos c) as args. generalize (pos_params sg) as ps.
    induction ps as [|q ps IH]; intros [|x args] [|i] Ha Hp; cbn in *; try discriminate.
    - inversion Ha; inversion Hp; subst. reflexivity.
    - apply IH; assumption. }
  rewrite nth_error_app1; [exact Hc|]. apply nth_error_Some. rewrite Hc. discriminate.
Qed.

(* (b') surplus positionals are exactly those beyond the positional parameters *)
Lemma bindx_surplus_positional : forall sg c b,
  bindx sg c = BOk b -> b_xpos b = skipn (length (pos_params sg)) (c_pos c).
Proof. intros sg c b H. apply bindx_ok_inv in H. tauto. Qed.

(* (c) keyword argument k=a is bound to the parameter named k; when there is no
   such parameter it goes to **kwargs *)
Lemma bindx_keyword : forall sg c b k a,
  bindx sg c = BOk b -> In (k, a) (c_kw c) ->
  (In k (param_names sg) -> In (k, a) (b_named b)) /\
  (~ In k (param_names sg) -> In (k, a) (b_xkw b) /\ sg_kwargs sg = true).
Proof.
  intros sg c b k a H Hin. apply bindx_ok_inv in H.
  destruct H as (_ & _ & Hn & _ & Hx & _ & Hk & _). split; intro Hp.
  - rewrite Hn. apply in_or_app. right. apply filter_In. split; [exact Hin|].
    unfold kw_is_param. cbn. apply smem_In. exact Hp.
  - assert (Hi : In (k, a) (b_xkw b)).
    { rewrite Hx. apply filter_In. split; [exact Hin|]. unfold kw_is_param. cbn.
      apply negb_true_iff. apply smem_false. exact Hp. }
    split; [exact Hi|]. apply Hk. intro He. rewrite He in Hi. destruct Hi.
Qed.

(* (d) provenance: every binding comes from the positional argument of the same
   rank or from a keyword argument of that name -- nothing is invented *)
Lemma bindx_provenance : forall sg c b p a,
  bindx sg c = BOk b -> In (p, a) (b_named b) ->
  (exists i q, nth_error (c_pos c) i = Some a /\ nth_error (pos_params sg) i = Some q /\ p_name q = p)
  \/ In (p, a) (c_kw c).
Proof.
  intros sg c b p a H Hin. apply bindx_ok_inv in H.
  destruct H as (_ & _ & Hn & _). rewrite Hn in Hin. apply in_app_or in Hin.
  destruct Hin as [Hin|Hin].
  - left. revert Hin. generalize (c_pos c) as args. generalize (pos_params sg) as ps.
    induction ps as [|q ps IH]; intros [|x args] Hin; cbn in Hin; try contradiction.
    destruct Hin as [He|Hin].
    + inversion He; subst. exists 0, q. cbn. auto.
    + apply IH in Hin. destruct Hin as [i [q' [H1 [H2 H3]]]]. exists (S i), q'. cbn. auto.
  - right. apply filter_In in Hin. tauto.
Qed.

(* (e) a keyword that names a parameter already filled positionally is refused,
   so a successful binding has every keyword name absent from the positional part *)
Lemma bindx_keyword_not_positional : forall sg c b k a,
  sig_wfb sg = true -> bindx sg c = BOk b -> In (k, a) (c_kw c) ->
  ~ In k (firstn (length (c_pos c)) (map p_name (pos_params sg))).
Proof.
  intros sg c b k a Hwf H Hin Hpos.
  pose proof (bindx_named_nodup _ _ _ Hwf H) as Hnd.
  assert (Hp : In k (param_names sg)).
  { apply In_firstn_in in Hpos. apply in_map_iff in Hpos. destruct Hpos as [q [Hq Hqin]].
    subst k. apply in_map_iff. exists q. split; [reflexivity|apply pos_params_incl; exact Hqin]. }
  apply bindx_ok_inv in H. destruct H as (_ & _ & Hn & _).
  rewrite Hn, map_app in Hnd.
  rewrite map_fst_combine_firstn in Hnd.
  clear Hn.
  revert Hnd. set (l1 := firstn (length (c_pos c)) (map p_name (pos_params sg))) in *.
  set (l2 := map fst (filter (kw_is_param sg) (c_kw c))).
  assert (H2 : In k l2).
  { unfold l2. apply in_map_iff. exists (k, a). split; [reflexivity|].
    apply filter_In. split; [exact Hin|]. unfold kw_is_param. cbn. apply smem_In. exact Hp. }
  intro Hnd. clear - Hpos H2 Hnd. induction l1 as [|y l1 IH]; [destruct Hpos|].
  cbn in Hnd. inversion Hnd as [|? ? Hy Hd]; subst. destruct Hpos as [->|Hpos].
  - apply Hy. apply in_or_app. right. exact H2.
  - apply IH; assumption.
Qed.

(* ------------------------------------------------ errors are justified ---- *)
Lemma bindx_star : forall sg c,
  bindx sg c = BErr StarArg <->
  existsb is_star (c_pos c) || existsb (fun ka => is_star (snd ka)) (c_kw c) = true.
Proof.
  intros sg c. unfold bindx.
  destruct (existsb is_star (c_pos c) || existsb (fun ka => is_star (snd ka)) (c_kw c)) eqn:E.
  - split; reflexivity.
  - split; [|discriminate]. rewrite bind_pos_closed.
    assert (Hk : forall kws n x, bind_kw sg n x kws <> BErr StarArg).
    { induction kws as [|[k a] kws IH]; intros n x; cbn [bind_kw]; [discriminate|].
      destruct (smem k (map fst n)); [discriminate|].
      destruct (smem k (param_names sg)); [apply IH|].
      destruct (sg_kwargs sg); [|discriminate].
      destruct (smem k (map fst x)); [discriminate|apply IH]. }
    intro H. exfalso.
    set (n := combine (map p_name (pos_params sg)) (c_pos c)) in *.
    destruct (skipn (length (pos_params sg)) (c_pos c)); [|destruct (sg_varargs sg); [|discriminate]];
      (destruct (bind_kw sg n [] (c_kw c)) eqn:Ek;
       [destruct (first_missing (sg_params sg) (map fst (b_named b))); discriminate
       | inversion H; subst; exact (Hk _ _ _ Ek)]).
Qed.

Lemma bindx_too_many : forall sg c,
  bindx sg c = BErr TooManyPositional ->
  length (pos_params sg) < length (c_pos c) /\ sg_varargs sg = false.
Proof.
  intros sg c H. unfold bindx in H.
  destruct (existsb is_star (c_pos c) || existsb (fun ka => is_star (snd ka)) (c_kw c)); [discriminate|].
  rewrite bind_pos_closed in H.
  assert (Hk : forall kws n x, bind_kw sg n x kws <> BErr TooManyPositional).
  { induction kws as [|[k a] kws IH]; intros n x; cbn [bind_kw]; [discriminate|].
    destruct (smem k (map fst n)); [discriminate|].
    destruct (smem k (param_names sg)); [apply IH|].
    destruct (sg_kwargs sg); [|discriminate].
    destruct (smem k (map fst x)); [discriminate|apply IH]. }
  set (n := combine (map p_name (pos_params sg)) (c_pos c)) in *.
  destruct (skipn (length (pos_params sg)) (c_pos c)) eqn:Es.
  - exfalso. destruct (bind_kw sg n [] (c_kw c)) eqn:Ek;
      [destruct (first_missing (sg_params sg) (map fst (b_named b))); discriminate
      | inversion H; subst; exact (Hk _ _ _ Ek)].
  - destruct (sg_varargs sg).
    + exfalso. destruct (bind_kw sg n [] (c_kw c)) eqn:Ek;
        [destruct (first_missing (sg_params sg) (map fst (b_named b))); discriminate
        | inversion H; subst; exact (Hk _ _ _ Ek)].
    + split; [|reflexivity].
      destruct (Nat.lt_ge_cases (length (pos_params sg)) (length (c_pos c))) as [Hl|Hl]; [exact Hl|].
      rewrite skipn_all2 in Es; [discriminate|exact Hl].
Qed.

Lemma bind_kw_unknown : forall sg kws n x k,
  bind_kw sg n x kws = BErr (UnknownKeyword k) ->
  In k (map fst kws) /\ ~ In k (param_names sg) /\ sg_kwargs sg = false.
Proof.
  intros sg kws. induction kws as [|[k' a] kws IH]; intros n x k H; cbn [bind_kw] in H; [discriminate|].
  destruct (smem k' (map fst n)); [discriminate|].
  destruct (smem k' (param_names sg)) eqn:E2.
  - apply IH in H. cbn. tauto.
  - destruct (sg_kwargs sg) eqn:Ek.
    + destruct (smem k' (map fst x)); [discriminate|]. apply IH in H.
      destruct H as [H1 [H2 H3]]. discriminate.
    + inversion H; subst. apply smem_false in E2. cbn. auto.
Qed.

Lemma bindx_unknown_keyword : forall sg c k,
  bindx sg c = BErr (UnknownKeyword k) ->
  In k (map fst (c_kw c)) /\ ~ In k (param_names sg) /\ sg_kwargs sg = false.
Proof.
  intros sg c k H. unfold bindx in H.
  destruct (existsb is_star (c_pos c) || existsb (fun ka => is_star (snd ka)) (c_kw c)); [discriminate|].
  rewrite bind_pos_closed in H.
  set (n := combine (map p_name (pos_params sg)) (c_pos c)) in *.
  assert (H' : match bind_kw sg n [] (c_kw c) with
               | BErr e => BErr e
               | BOk b => match first_missing (sg_params sg) (map fst (b_named b)) with
                          | Some p => BErr (MissingRequired p)
                          | None => BOk (mkBound (b_named b) (skipn (length (pos_params sg)) (c_pos c)) (b_xkw b)) end end
               = BErr (UnknownKeyword k)).
  { destruct (skipn (length (pos_params sg)) (c_pos c)); [exact H|].
    destruct (sg_varargs sg); [exact H|discriminate]. }
  destruct (bind_kw sg n [] (c_kw c)) eqn:Ek.
  - destruct (first_missing (sg_params sg) (map fst (b_named b))); discriminate.
  - inversion H'; subst. eapply bind_kw_unknown. exact Ek.
Qed.

Lemma bind_kw_twice : forall sg kws n x k,
  bind_kw sg n x kws = BErr (BoundTwice k) ->
  exists pre a post, kws = pre ++ (k, a) :: post /\
    (In k (map fst n) \/ In k (map fst x) \/ In k (map fst pre)).
Proof.
  intros sg kws. induction kws as [|[k' a'] kws IH]; intros n x k H; cbn [bind_kw] in H; [discriminate|].
  destruct (smem k' (map fst n)) eqn:E1.
  - inversion H; subst. apply smem_In in E1. exists [], a', kws. cbn. auto.
  - destruct (smem k' (param_names sg)).
    + apply IH in H. destruct H as [pre [a [post [Hk Hor]]]].
      exists ((k', a') :: pre), a, post. split; [cbn; rewrite Hk; reflexivity|].
      rewrite map_app in Hor. cbn [map fst] in *.
      destruct Hor as [Hor|[Hor|Hor]]; [|right; left; exact Hor|right; right; right; exact Hor].
      apply in_app_or in Hor. destruct Hor as [Hor|[->|[]]]; [left; exact Hor|].
      right. right. left. reflexivity.
    + destruct (sg_kwargs sg); [|discriminate].
      destruct (smem k' (map fst x)) eqn:E3.
      * inversion H; subst. apply smem_In in E3. exists [], a', kws. cbn. auto.
      * apply IH in H. destruct H as [pre [a [post [Hk Hor]]]].
        exists ((k', a') :: pre), a, post. split; [cbn; rewrite Hk; reflexivity|].
        rewrite map_app in Hor. cbn [map fst] in *.
        destruct Hor as [Hor|[Hor|Hor]]; [left; exact Hor| |right; right; right; exact Hor].
        apply in_app_or in Hor. destruct Hor as [Hor|[->|[]]]; [right; left; exact Hor|].
        right. right. left. reflexivity.
Qed.

(* "multiple values for argument k": k is a keyword of the call and is either
   already filled by a positional argument or repeated among the keywords *)
Lemma bindx_bound_twice : forall sg c k,
  bindx sg c = BErr (BoundTwice k) ->
  exists pre a post, c_kw c = pre ++ (k, a) :: post /\
    (In k (firstn (length (c_pos c)) (map p_name (pos_params sg))) \/ In k (map fst pre)).
Proof.
  intros sg c k H. unfold bindx in H.
  destruct (existsb is_star (c_pos c) || existsb (fun ka => is_star (snd ka)) (c_kw c)); [discriminate|].
  rewrite bind_pos_closed in H.
  set (n := combine (map p_name (pos_params sg)) (c_pos c)) in *.
  assert (H' : match bind_kw sg n [] (c_kw c) with
               | BErr e => BErr e
               | BOk b => match first_missing (sg_params sg) (map fst (b_named b)) with
                          | Some p => BErr (MissingRequired p)
                          | None => BOk (mkBound (b_named b) (skipn (length (pos_params sg)) (c_pos c)) (b_xkw b)) end end
               = BErr (BoundTwice k)).
  { destruct (skipn (length (pos_params sg)) (c_pos c)); [exact H|].
    destruct (sg_varargs sg); [exact H|discriminate]. }
  destruct (bind_kw sg n [] (c_kw c)) eqn:Ek.
  - destruct (first_missing (sg_params sg) (map fst (b_named b))); discriminate.
  - inversion H'; subst. apply bind_kw_twice in Ek.
    destruct Ek as [pre [a [post [Hk Hor]]]]. exists pre, a, post. split; [exact Hk|].
    unfold n in Hor. rewrite map_fst_combine_firstn in Hor. cbn in Hor. tauto.
Qed.

Lemma bind_kw_missing_never : forall sg kws n x p, bind_kw sg n x kws <> BErr (MissingRequired p).
Proof.
  intros sg kws. induction kws as [|[k a] kws IH]; intros n x p; cbn [bind_kw]; [discriminate|].
  destruct (smem k (map fst n)); [discriminate|].
  destruct (smem k (param_names sg)); [apply IH|].
  destruct (sg_kwargs sg); [|discriminate].
  destruct (smem k (map fst x)); [discriminate|apply IH].
Qed.

(* a reported missing parameter is a required parameter of the callee that neither a
   positional argument (by rank) nor a keyword argument (by name) fills *)
Lemma bindx_missing_required : forall sg c x,
  bindx sg c = BErr (MissingRequired x) ->
  exists p, In p (sg_params sg) /\ p_name p = x /\ p_default p = false /\
            ~ In x (firstn (length (c_pos c)) (map p_name (pos_params sg))) /\
            ~ In x (map fst (c_kw c)).
Proof.
  intros sg c x H. unfold bindx in H.
  destruct (existsb is_star (c_pos c) || existsb (fun ka => is_star (snd ka)) (c_kw c)); [discriminate|].
  rewrite bind_pos_closed in H.
  set (n := combine (map p_name (pos_params sg)) (c_pos c)) in *.
  assert (H' : match bind_kw sg n [] (c_kw c) with
               | BErr e => BErr e
               | BOk b => match first_missing (sg_params sg) (map fst (b_named b)) with
                          | Some p => BErr (MissingRequired p)
                          | None => BOk (mkBound (b_named b) (skipn (length (pos_params sg)) (c_pos c)) (b_xkw b)) end end
               = BErr (MissingRequired x)).
  { destruct (skipn (length (pos_params sg)) (c_pos c)); [exact H|].
    destruct (sg_varargs sg); [exact H|discriminate]. }
  clear H. destruct (bind_kw sg n [] (c_kw c)) as [b0|e] eqn:Ek.
  - destruct (first_missing (sg_params sg) (map fst (b_named b0))) eqn:Em; [|discriminate].
    inversion H'; subst s. apply first_missing_some in Em.
    destruct Em as [p [Hin [Hn [Hd Hnot]]]]. exists p. repeat split; try assumption.
    + intro Hc. apply Hnot. apply bind_kw_closed in Ek. destruct Ek as [K1 _].
      rewrite K1, map_app. apply in_or_app. left. unfold n.
      rewrite map_fst_combine_firstn. exact Hc.
    + intro Hc. apply Hnot. apply bind_kw_closed in Ek. destruct Ek as [K1 _].
      rewrite K1, map_app. apply in_or_app. right.
      apply in_map_iff in Hc. destruct Hc as [[k a] [Hk Hc]]. cbn in Hk. subst k.
      apply in_map_iff. exists (x, a). split; [reflexivity|]. apply filter_In. split; [exact Hc|].
      unfold kw_is_param. cbn. apply smem_In. apply in_map_iff. exists p. auto.
  - inversion H'; subst. exfalso. exact (bind_kw_missing_never _ _ _ _ _ Ek).
Qed.

(* the coarse view *)
Lemma bind_ok_iff : forall sg c l,
  bind sg c = Ok l <-> exists b, bindx sg c = BOk b /\ b_named b = l.
Proof.
  intros sg c l. unfold bind. destruct (bindx sg c) as [b|e]; split.
  - intro H. inversion H; subst. exists b. auto.
  - intros [b' [H1 H2]]. inversion H1; subst. reflexivity.
  - discriminate.
  - intros [b' [H1 _]]. discriminate.
Qed.

Lemma bind_err_is_TypeErr : forall sg c e, bind sg c = Err e -> e = TypeErr.
Proof. intros sg c e H. unfold bind in H. destruct (bindx sg c); inversion H; reflexivity. Qed.

(* ------------------------------------------------ what site_ok guarantees -- *)
Lemma flat_map_nil : forall (A B : Type) (f : A -> list B) l,
  flat_map f l = [] -> forall x, In x l -> f x = [].
Proof.
  intros A B f l. induction l as [|y l IH]; intros H x Hin; [destruct Hin|].
  cbn in H. apply app_eq_nil in H. destruct H as [H1 H2].
  destruct Hin as [->|Hin]; [exact H1|apply IH; assumption].
Qed.

Lemma site_ok_sound : forall s,
  site_ok s = true ->
  exists b, bindx (s_sig s) (s_call s) = BOk b /\
    (* forward: bare wrapper parameters land on the parameter of the same meaning *)
    (forall p x r, In (p, ABare x r) (b_named b) -> same_meaning (s_callee s) x p = true) /\
    (forall p x, In (p, ALocal x) (b_named b) -> x = p \/ ~ In x (param_names (s_sig s))) /\
    (* no argument mentions an undefined name *)
    (forall x, ~ In (AUndefined x) (c_pos (s_call s))) /\
    (forall k x, ~ In (k, AUndefined x) (c_kw (s_call s))) /\
    (* reverse: a name shared by wrapper and callee is bound, and not to a constant *)
    (forall x, In x (s_wparams s) -> In x (param_names (s_sig s)) ->
       exists a, lookup x (b_named b) = Some a /\ forall r, a <> AConst r).
Proof.
  intros s H. unfold site_ok, site_check in H.
  destruct (bindx (s_sig s) (s_call s)) as [b|e] eqn:Eb; [|discriminate].
  match type of H with match ?l with _ => _ end = true => destruct l eqn:El; [|discriminate] end.
  apply app_eq_nil in El. destruct El as [Eu El].
  apply app_eq_nil in Eu. destruct Eu as [Eu1 Eu2].
  apply app_eq_nil in El. destruct El as [En El].
  apply app_eq_nil in El. destruct El as [_ Es].
  exists b. split; [reflexivity|]. repeat split.
  - intros p x r Hin. pose proof (flat_map_nil _ _ _ _ En _ Hin) as Hc. cbn in Hc.
    destruct (same_meaning (s_callee s) x p); [reflexivity|discriminate].
  - intros p x Hin. pose proof (flat_map_nil _ _ _ _ En _ Hin) as Hc. cbn in Hc.
    destruct (String.eqb x p) eqn:Ex; [left; apply String.eqb_eq; exact Ex|]. right.
    cbn in Hc. destruct (smem x (param_names (s_sig s))) eqn:Em; [discriminate|].
    apply smem_false. exact Em.
  - intros x Hin. pose proof (flat_map_nil _ _ _ _ Eu1 _ Hin) as Hc. cbn in Hc. discriminate.
  - intros k x Hin. pose proof (flat_map_nil _ _ _ _ Eu2 _ Hin) as Hc. cbn in Hc. discriminate.
  - intros x Hw Hp. pose proof (flat_map_nil _ _ _ _ Es _ Hw) as Hc. unfold shadow_check in Hc.
    apply smem_In in Hp. rewrite Hp in Hc.
    destruct (lookup x (b_named b)) as [a|]; [|discriminate].
    exists a. split; [reflexivity|]. intros r Hr. subst a. discriminate.
Qed.

(* ------------------------------------- summary in terms of the coarse [bind] -- *)
Lemma bind_correct : forall sg c l,
  sig_wfb sg = true -> bind sg c = Ok l ->
  (* (a) *)
  NoDup (map fst l) /\
  (forall p, In p (sg_params sg) -> p_default p = false ->
             count_occ string_dec (map fst l) (p_name p) = 1) /\
  (forall k, In k (map fst l) -> In k (param_names sg)) /\
  (* (b) *)
  (forall i a p, nth_error (c_pos c) i = Some a -> nth_error (pos_params sg) i = Some p ->
                 nth_error l i = Some (p_name p, a)) /\
  (* (c) *)
  (forall k a, In (k, a) (c_kw c) -> In k (param_names sg) -> In (k, a) l) /\
  (* (d) *)
  (forall p a, In (p, a) l ->
     (exists i q, nth_error (c_pos c) i = Some a /\ nth_error (pos_params sg) i = Some q /\ p_name q = p)
     \/ In (p, a) (c_kw c)).
Proof.
  intros sg c l Hwf H. apply bind_ok_iff in H. destruct H as [b [Hb Hl]]. subst l.
  split; [eapply bindx_named_nodup; eassumption|].
  split; [intros p Hp Hd; eapply bindx_required_bound_once; eassumption|].
  split; [intros k Hk; eapply bindx_named_are_params; eassumption|].
  split; [intros i a p Ha Hp; eapply bindx_positional; eassumption|].
  split; [intros k a Hin Hp; eapply (proj1 (bindx_keyword _ _ _ _ _ Hb Hin)); exact Hp|].
  intros p a Hin. eapply bindx_provenance; eassumption.
Qed.

(* without *args and **kwargs (every EoN definition) a successful binding consumes
   every argument of the call: as many bindings as arguments *)
Lemma bindx_consumes_all : forall sg c b,
  sg_varargs sg = false -> sg_kwargs sg = false -> bindx sg c = BOk b ->
  length (b_named b) = length (c_pos c) + length (c_kw c).
Proof.
  intros sg c b Hv Hk H. pose proof (bindx_no_surplus _ _ _ H) as [S1 S2].
  specialize (S1 Hv). specialize (S2 Hk).
  apply bindx_ok_inv in H. destruct H as (_ & _ & Hn & Hxp & Hxk & _).
  rewrite Hn, app_length, combine_length, map_length.
  rewrite S1 in Hxp. rewrite S2 in Hxk.
  assert (L1 : length (c_pos c) <= length (pos_params sg)).
  { destruct (Nat.le_gt_cases (length (c_pos c)) (length (pos_params sg))) as [Hl|Hl]; [exact Hl|].
    exfalso. assert (Hs : length (skipn (length (pos_params sg)) (c_pos c)) = 0) by (rewrite <- Hxp; reflexivity).
    rewrite skipn_length in Hs. lia. }
  assert (L2 : filter (kw_is_param sg) (c_kw c) = c_kw c).
  { clear - Hxk. induction (c_kw c) as [|ka l IH]; [reflexivity|]. cbn [filter] in *.
    destruct (kw_is_param sg ka); cbn [negb] in Hxk; [|discriminate]. f_equal. apply IH. exact Hxk. }
  rewrite L2. lia.
Qed.
