(* Lemmas about Model/EventSIR.v, part 1: extended times, the queue, the
   scheduling loop of _process_trans_SIR_. *)
From EoNV Require Import Prelude Samp Graph EventSIR.
Require Import Lqa.

(* ---------------- booleans over Q ---------------- *)
Lemma Qltb_true : forall a b, Qltb a b = true <-> a < b.
Proof. intros a b. unfold Qltb. destruct (Qlt_le_dec a b); split; intros; try discriminate; auto; lra. Qed.
Lemma Qltb_false : forall a b, Qltb a b = false <-> b <= a.
Proof. intros a b. unfold Qltb. destruct (Qlt_le_dec a b); split; intros; try discriminate; auto; lra. Qed.
Lemma Qleb_true : forall a b, Qleb a b = true <-> a <= b.
Proof. intros a b. unfold Qleb. destruct (Qlt_le_dec b a); split; intros; try discriminate; auto; lra. Qed.
Lemma Qleb_false : forall a b, Qleb a b = false <-> b < a.
Proof. intros a b. unfold Qleb. destruct (Qlt_le_dec b a); split; intros; try discriminate; auto; lra. Qed.

Lemma xltb_SS : forall a b, xltb (Some a) (Some b) = true <-> a < b.
Proof. intros; simpl; apply Qltb_true. Qed.
Lemma xleb_SS : forall a b, xleb (Some a) (Some b) = true <-> a <= b.
Proof. intros; simpl; apply Qleb_true. Qed.

Lemma xltb_xleb : forall a b, xltb a b = true -> xleb a b = true.
Proof.
  intros [a|] [b|]; simpl; auto; try discriminate.
  rewrite Qltb_true, Qleb_true. lra.
Qed.

(* t + d <= t + r  iff  d <= r, on extended times *)
Lemma xleb_xadd : forall t d r, xleb (xadd t d) (xadd t r) = xleb d r.
Proof.
  intros t [d|] [r|]; simpl; auto.
  destruct (Qleb d r) eqn:E.
  - apply Qleb_true. apply Qleb_true in E. lra.
  - apply Qleb_false. apply Qleb_false in E. lra.
Qed.

Lemma xltb_le_trans : forall a b m, a <= b -> xltb (Some b) m = true -> xltb (Some a) m = true.
Proof. intros a b [m|] H; simpl; auto. rewrite !Qltb_true. lra. Qed.

Lemma xltb_proper : forall a b m, a == b -> xltb (Some a) m = xltb (Some b) m.
Proof.
  intros a b [m|] H; simpl; auto.
  destruct (Qltb b m) eqn:E.
  - apply Qltb_true. apply Qltb_true in E. lra.
  - apply Qltb_false. apply Qltb_false in E. lra.
Qed.

Lemma Neqb_neq : forall a b : N, a <> b -> N.eqb a b = false.
Proof. intros. apply N.eqb_neq; auto. Qed.

Lemma mem_In : forall x l, mem x l = true <-> In x l.
Proof.
  intros x l. unfold mem. rewrite existsb_exists. split.
  - intros [y [Hy E]]. apply N.eqb_eq in E. subst; auto.
  - intros H. exists x. split; auto. apply N.eqb_refl.
Qed.

Lemma fupdN_same : forall V (f : node -> V) k v, fupdN f k v k = v.
Proof. intros. unfold fupdN. rewrite N.eqb_refl. reflexivity. Qed.
Lemma fupdN_other : forall V (f : node -> V) k v x, x <> k -> fupdN f k v x = f x.
Proof. intros. unfold fupdN. rewrite Neqb_neq; auto. Qed.

(* ---------------- the queue ---------------- *)
Fixpoint qsorted (l : list qent) : Prop :=
  match l with
  | [] => True
  | e :: t => (forall x, In x t -> qt e <= qt x) /\ qsorted t
  end.

Section QueueP.
Variable tb : tiepolicy.

Lemma goes_before_true : forall e h, goes_before tb e h = true -> qt e <= qt h.
Proof.
  intros e h. unfold goes_before.
  destruct (Qltb (qt e) (qt h)) eqn:E1.
  - apply Qltb_true in E1. lra.
  - destruct (Qltb (qt h) (qt e)) eqn:E2; [discriminate|].
    apply Qltb_false in E1. apply Qltb_false in E2. lra.
Qed.
Lemma goes_before_false : forall e h, goes_before tb e h = false -> qt h <= qt e.
Proof.
  intros e h. unfold goes_before.
  destruct (Qltb (qt e) (qt h)) eqn:E1; [discriminate|].
  apply Qltb_false in E1. auto.
Qed.

Lemma In_qinsert : forall e l x, In x (qinsert tb e l) <-> x = e \/ In x l.
Proof.
  intros e l x. induction l as [|h t IH]; simpl.
  - intuition.
  - destruct (goes_before tb e h); simpl; rewrite ?IH; intuition.
Qed.

Lemma qinsert_sorted : forall e l, qsorted l -> qsorted (qinsert tb e l).
Proof.
  intros e l. induction l as [|h t IH]; simpl; intros Hs.
  - split; [intros x []|exact I].
  - destruct Hs as [Hh Ht].
    destruct (goes_before tb e h) eqn:E.
    + split; [|split; auto].
      intros x [->|Hx]. { apply goes_before_true; auto. }
      apply goes_before_true in E. specialize (Hh x Hx). lra.
    + simpl. split; [|auto].
      intros x Hx. apply In_qinsert in Hx. destruct Hx as [->|Hx].
      * apply goes_before_false; auto.
      * auto.
Qed.

Lemma length_qinsert : forall e l, length (qinsert tb e l) = S (length l).
Proof.
  intros e l. induction l as [|h t IH]; simpl; auto.
  destruct (goes_before tb e h); simpl; auto.
Qed.

(* qadd: what is in the queue afterwards *)
Lemma qadd_In : forall tmax time e q c x,
  In x (fst (qadd tb tmax time e (q, c))) <->
  In x q \/ (exists t, time = Some t /\ xltb time tmax = true /\ x = mkQ t c e).
Proof.
  intros tmax time e q c x. unfold qadd. destruct time as [t|]; cbn [fst snd].
  - destruct (xltb (Some t) tmax) eqn:E; cbn [fst snd].
    + rewrite In_qinsert. split.
      * intros [->|H]; auto. right. exists t. auto.
      * intros [H|[t' [Ht [_ ->]]]]; auto. inversion Ht; auto.
    + split; auto. intros [H|[t' [Ht [Hc _]]]]; auto. discriminate.
  - split; auto. intros [H|[t' [Ht _]]]; auto. discriminate.
Qed.

Lemma qadd_sorted : forall tmax time e q c,
  qsorted q -> qsorted (fst (qadd tb tmax time e (q, c))).
Proof.
  intros tmax time e q c Hs. unfold qadd. destruct time as [t|]; cbn [fst snd]; auto.
  destruct (xltb (Some t) tmax); cbn [fst snd]; auto. apply qinsert_sorted; auto.
Qed.

Lemma qadd_length : forall tmax time e q c,
  (length (fst (qadd tb tmax time e (q, c))) <= S (length q))%nat.
Proof.
  intros tmax time e q c. unfold qadd. destruct time as [t|]; cbn [fst snd]; auto.
  destruct (xltb (Some t) tmax); cbn [fst snd]; auto. rewrite length_qinsert. auto.
Qed.

(* ---------------- the scheduling loop ---------------- *)
Variable tmax : xtime.
Variable time : Q.
Variable rt : xtime.
Variable tgt : node.

Definition new_pred (p : node -> option xtime) (w : node) (d : xtime) : option xtime :=
  let it := xadd time d in
  if xleb it rt then
    (if xltb it (pget p w) && xleb it tmax then Some it else Some (pget p w))
  else p w.

(* the event for w is actually pushed *)
Definition pushed (p : node -> option xtime) (w : node) (d : xtime) (x : Q) : Prop :=
  xadd time d = Some x /\ xleb (Some x) rt = true /\
  xltb (Some x) (pget p w) = true /\ xltb (Some x) tmax = true.

Definition sfold (td : list (node * xtime)) (acc : list qent * nat * (node -> option xtime)) :=
  fold_left (sched_one tb tmax time rt tgt) td acc.

Lemma sfold_cons : forall v d td acc,
  sfold ((v, d) :: td) acc = sfold td (sched_one tb tmax time rt tgt acc (v, d)).
Proof. reflexivity. Qed.
Lemma sfold_nil : forall acc, sfold [] acc = acc.
Proof. reflexivity. Qed.

Lemma sched_one_pred_other : forall q c p v d w,
  w <> v -> snd (sched_one tb tmax time rt tgt (q, c, p) (v, d)) w = p w.
Proof.
  intros q c p v d w Hw. unfold sched_one.
  destruct (xleb (xadd time d) rt); simpl; auto.
  destruct (xltb (xadd time d) (pget p v) && xleb (xadd time d) tmax); simpl;
    apply fupdN_other; auto.
Qed.

Lemma sched_one_pred_same : forall q c p v d,
  snd (sched_one tb tmax time rt tgt (q, c, p) (v, d)) v = new_pred p v d.
Proof.
  intros q c p v d. unfold sched_one, new_pred.
  destruct (xleb (xadd time d) rt); simpl; auto.
  destruct (xltb (xadd time d) (pget p v) && xleb (xadd time d) tmax); simpl;
    apply fupdN_same.
Qed.

Lemma pget_ext : forall p p' w, p' w = p w -> pget p' w = pget p w.
Proof. intros. unfold pget. rewrite H. reflexivity. Qed.

Lemma sfold_pred_other : forall td q c p w,
  ~ In w (map fst td) -> snd (sfold td (q, c, p)) w = p w.
Proof.
  induction td as [|[v d] td IH]; intros q c p w Hw; [reflexivity|].
  simpl in Hw. rewrite sfold_cons.
  destruct (sched_one tb tmax time rt tgt (q, c, p) (v, d)) as [[q1 c1] p1] eqn:E.
  rewrite IH by tauto.
  change p1 with (snd (q1, c1, p1)). rewrite <- E. apply sched_one_pred_other. intros ->. tauto.
Qed.

Lemma sfold_pred_in : forall td q c p w d,
  NoDup (map fst td) -> In (w, d) td -> snd (sfold td (q, c, p)) w = new_pred p w d.
Proof.
  induction td as [|[v d0] td IH]; intros q c p w d Hnd Hin; [destruct Hin|].
  simpl in Hnd, Hin. rewrite sfold_cons.
  inversion Hnd as [|? ? Hnotin Hnd']; subst.
  destruct (sched_one tb tmax time rt tgt (q, c, p) (v, d0)) as [[q1 c1] p1] eqn:E.
  destruct Hin as [Heq|Hin].
  - inversion Heq; subst.
    rewrite sfold_pred_other by auto.
    change p1 with (snd (q1, c1, p1)). rewrite <- E. apply sched_one_pred_same.
  - assert (Hwv : w <> v).
    { intros ->. apply Hnotin. apply in_map_iff. exists (v, d). auto. }
    rewrite (IH q1 c1 p1 w d Hnd' Hin).
    assert (Hp1 : p1 w = p w).
    { change p1 with (snd (q1, c1, p1)). rewrite <- E. apply sched_one_pred_other; auto. }
    unfold new_pred. rewrite (pget_ext _ _ _ Hp1), Hp1. reflexivity.
Qed.

(* queue after one iteration *)
Lemma sched_one_queue : forall q c p v d x,
  In x (fst (fst (sched_one tb tmax time rt tgt (q, c, p) (v, d)))) <->
  In x q \/ (exists t, pushed p v d t /\ x = mkQ t c (ETrans (Some tgt) v)).
Proof.
  intros q c p v d x. unfold sched_one, pushed.
  destruct (xleb (xadd time d) rt) eqn:E1.
  - destruct (xltb (xadd time d) (pget p v)) eqn:E2; cbn [andb].
    + destruct (xleb (xadd time d) tmax) eqn:E3; cbn [fst snd].
      * rewrite qadd_In. split.
        -- intros [H|[t [Ht [Hlt ->]]]]; auto. right. exists t. rewrite Ht in *. auto 6.
        -- intros [H|[t [[Ht [_ [_ Hlt]]] ->]]]; auto. right. exists t. rewrite Ht. auto.
      * split; auto. intros [H|[t [[Ht [_ [_ Hlt]]] _]]]; auto.
        rewrite Ht in E3. apply xltb_xleb in Hlt. congruence.
    + cbn [fst snd]. split; auto. intros [H|[t [[Ht [_ [Hlt _]]] _]]]; auto. rewrite Ht in E2. congruence.
  - cbn [fst snd]. split; auto. intros [H|[t [[Ht [Hle _]] _]]]; auto. rewrite Ht in E1. congruence.
Qed.

Lemma sched_one_sorted : forall q c p v d,
  qsorted q -> qsorted (fst (fst (sched_one tb tmax time rt tgt (q, c, p) (v, d)))).
Proof.
  intros q c p v d Hs. unfold sched_one.
  destruct (xleb (xadd time d) rt); simpl; auto.
  destruct (xltb (xadd time d) (pget p v) && xleb (xadd time d) tmax); simpl; auto.
  apply qadd_sorted; auto.
Qed.

Lemma sched_one_length : forall q c p v d,
  (length (fst (fst (sched_one tb tmax time rt tgt (q, c, p) (v, d)))) <= S (length q))%nat.
Proof.
  intros q c p v d. unfold sched_one.
  destruct (xleb (xadd time d) rt); simpl; auto.
  destruct (xltb (xadd time d) (pget p v) && xleb (xadd time d) tmax); simpl; auto.
  apply qadd_length.
Qed.

Lemma sfold_sorted : forall td q c p, qsorted q -> qsorted (fst (fst (sfold td (q, c, p)))).
Proof.
  induction td as [|[v d] td IH]; intros q c p Hs; [exact Hs|]. rewrite sfold_cons.
  destruct (sched_one tb tmax time rt tgt (q, c, p) (v, d)) as [[q1 c1] p1] eqn:E.
  apply IH. change q1 with (fst (fst (q1, c1, p1))). rewrite <- E. apply sched_one_sorted; auto.
Qed.

Lemma sfold_length : forall td q c p,
  (length (fst (fst (sfold td (q, c, p)))) <= length td + length q)%nat.
Proof.
  induction td as [|[v d] td IH]; intros q c p; [simpl; auto|]. rewrite sfold_cons.
  destruct (sched_one tb tmax time rt tgt (q, c, p) (v, d)) as [[q1 c1] p1] eqn:E.
  specialize (IH q1 c1 p1).
  assert (length q1 <= S (length q))%nat.
  { change q1 with (fst (fst (q1, c1, p1))). rewrite <- E. apply sched_one_length. }
  simpl length. lia.
Qed.

Lemma sfold_queue_old : forall td q c p x, In x q -> In x (fst (fst (sfold td (q, c, p)))).
Proof.
  induction td as [|[v d] td IH]; intros q c p x Hx; [exact Hx|]. rewrite sfold_cons.
  destruct (sched_one tb tmax time rt tgt (q, c, p) (v, d)) as [[q1 c1] p1] eqn:E.
  apply IH. change q1 with (fst (fst (q1, c1, p1))). rewrite <- E.
  apply sched_one_queue. auto.
Qed.

Lemma pushed_ext : forall p p' w d t, p' w = p w -> pushed p' w d t -> pushed p w d t.
Proof. intros p p' w d t H. unfold pushed. rewrite (pget_ext _ _ _ H). auto. Qed.

Lemma sfold_queue_new : forall td q c p x,
  NoDup (map fst td) ->
  In x (fst (fst (sfold td (q, c, p)))) ->
  In x q \/ (exists w d, In (w, d) td /\ pushed p w d (qt x) /\ qe x = ETrans (Some tgt) w).
Proof.
  induction td as [|[v d] td IH]; intros q c p x Hnd Hx; [left; exact Hx|].
  rewrite sfold_cons in Hx. simpl in Hnd.
  inversion Hnd as [|? ? Hnotin Hnd']; subst.
  destruct (sched_one tb tmax time rt tgt (q, c, p) (v, d)) as [[q1 c1] p1] eqn:E.
  destruct (IH q1 c1 p1 x Hnd' Hx) as [H|[w [d' [Hin [Hp Hq]]]]].
  - change q1 with (fst (fst (q1, c1, p1))) in H. rewrite <- E in H.
    apply sched_one_queue in H. destruct H as [H|[t [Hp ->]]]; auto.
    right. exists v, d. simpl. auto.
  - right. exists w, d'. split; [right; exact Hin|]. split; [|exact Hq].
    assert (Hwv : w <> v).
    { intros ->. apply Hnotin. apply in_map_iff. exists (v, d'). auto. }
    apply pushed_ext with p1; auto.
    change p1 with (snd (q1, c1, p1)). rewrite <- E. apply sched_one_pred_other; auto.
Qed.

Lemma sfold_queue_pushed : forall td q c p w d t,
  NoDup (map fst td) -> In (w, d) td -> pushed p w d t ->
  exists x, In x (fst (fst (sfold td (q, c, p)))) /\ qt x = t /\ qe x = ETrans (Some tgt) w.
Proof.
  induction td as [|[v d0] td IH]; intros q c p w d t Hnd Hin Hp; [destruct Hin|].
  rewrite sfold_cons. simpl in Hnd, Hin.
  inversion Hnd as [|? ? Hnotin Hnd']; subst.
  destruct (sched_one tb tmax time rt tgt (q, c, p) (v, d0)) as [[q1 c1] p1] eqn:E.
  destruct Hin as [Heq|Hin].
  - inversion Heq; subst.
    exists (mkQ t c (ETrans (Some tgt) w)). split; [|auto].
    apply sfold_queue_old. change q1 with (fst (fst (q1, c1, p1))). rewrite <- E.
    apply sched_one_queue. right. exists t. auto.
  - assert (Hwv : w <> v).
    { intros ->. apply Hnotin. apply in_map_iff. exists (v, d). auto. }
    apply (IH q1 c1 p1 w d t Hnd' Hin).
    apply pushed_ext with p; auto. symmetry.
    change p1 with (snd (q1, c1, p1)). rewrite <- E. apply sched_one_pred_other; auto.
Qed.

End QueueP.
