(* C06, output layer: connection of the "S+I = structural total of the solver's row" theorems with the conservation
   law of the GENERATED right-hand sides (Gen/Rhs.v, Proofs/ICConserve.v): integrated by explicit Euler on the
   requested grid, the returned S+I is N at every row. *)
From EoNV Require Import Prelude Graph Aux Vec IC Wrappers VecP Rhs ICConserve Outputs OutputsP OutputsE1 OutputsE2.
From Coq Require Import Lqa Setoid Morphisms.

Lemma SISm_shape c tau gamma : shape_preserving 2 (fun x t => dSIS_homogeneous_meanfield x t c tau gamma).
Proof. intros x t _. reflexivity. Qed.

Lemma out_SIS_homogeneous_meanfield_generated c tau gamma S0 I0 tmin tmax n r :
  (0 < n)%nat ->
  run_model (m_SIS_homogeneous_meanfield S0 I0) tmin tmax n (euler_solver 2 (fun x t => dSIS_homogeneous_meanfield x t c tau gamma)) = Ok r ->
  forall j, (j < n)%nat -> sval oS j r + sval oI j r == S0 + I0.
Proof.
  intros Hn H.
  apply (out_SIS_homogeneous_meanfield_conserve _ S0 I0 tmin tmax n r (euler_solver_ok 2 _ (SISm_shape c tau gamma))); [|exact Hn|exact H].
  apply euler_preserves_vsum; [apply SISm_shape|]. intros [|a [|b [|c' x]]] t Hx; cbn in Hx; try discriminate.
  apply conserve_dSIS_homogeneous_meanfield.
Qed.

Lemma SIShm_shape k tau gamma : shape_preserving (2 * k) (fun x t => dSIS_heterogeneous_meanfield x t k tau gamma).
Proof.
  intros x t Hx. unfold dSIS_heterogeneous_meanfield.
  rewrite app_length. rewrite !vsub_length, !vmuls_length, !vmul_length, !smul_length, arange_length.
  unfold slice_to, slice_from. rewrite firstn_length, skipn_length, Hx. lia.
Qed.

Lemma out_SIS_heterogeneous_meanfield_generated tau gamma Sk0 Ik0 full tmin tmax n r :
  (0 < n)%nat ->
  run_model (m_SIS_heterogeneous_meanfield Sk0 Ik0 full) tmin tmax n
            (euler_solver (2 * length Sk0) (fun x t => dSIS_heterogeneous_meanfield x t (length Sk0) tau gamma)) = Ok r ->
  forall j, (j < n)%nat -> sval oS j r + sval oI j r == vsum Sk0 + vsum Ik0.
Proof.
  intros Hn H.
  apply (out_SIS_heterogeneous_meanfield_conserve _ Sk0 Ik0 full tmin tmax n r (euler_solver_ok _ _ (SIShm_shape (length Sk0) tau gamma))); [|exact Hn|exact H].
  apply euler_preserves_vsum; [apply SIShm_shape|]. intros x t Hx. apply conserve_dSIS_heterogeneous_meanfield. exact Hx.
Qed.
