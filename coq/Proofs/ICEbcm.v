(* Row 0 of EBCM_from_graph (partial: "if the wrapper returns"; it raises ZeroDivisionError when no
   susceptible node has an edge, phiS0 = SS/SX with SX = 0). *)
From EoNV Require Import Prelude Graph Aux Vec IC Wrappers VecP AuxP ICP.
From Coq Require Import Lqa Setoid Morphisms Qpower.

Lemma cnt_nonneg p l : 0 <= cnt p l.
Proof. unfold cnt, Qnat. change 0 with (inject_Z 0). rewrite <- Zle_Qle. lia. Qed.
Lemma cnt_and_le (q p : node -> bool) l : cnt (fun u => q u && p u) l <= cnt q l.
Proof.
  induction l as [|x l IH]; [apply Qle_refl|]. rewrite !cnt_cons. unfold ind. destruct (q x), (p x); cbn [andb]; lra.
Qed.
Lemma cnt_and_zero (q p : node -> bool) l : cnt q l == 0 -> cnt (fun u => q u && p u) l == 0.
Proof. intros H. pose proof (cnt_and_le q p l). pose proof (cnt_nonneg (fun u => q u && p u) l). lra. Qed.

Lemma degseq_keys g : wf_ugraph g = true ->
  NoDup (Pk_keys (degseq g)) /\ (forall d, In d (degseq g) -> In d (Pk_keys (degseq g))) /\ degseq g <> [].
Proof.
  intros WG. destruct (wf_ugraph_nodes g WG) as [_ NE]. split; [apply NoDup_nodup|]. split.
  - intros d Hd. apply nodup_In. exact Hd.
  - unfold degseq. destruct (gnodes g); [congruence|discriminate].
Qed.

(* N * sum over the degrees k present of Pk[k] * (#S nodes of degree k / Nk[k]) = #S nodes *)
Lemma psihat1_sets g (p : node -> bool) : wf_ugraph g = true ->
  gN g * sumPk g (fun k => Pk (degseq g) k * (cnt (fun u => p u && Nat.eqb (deg g u) k) (gnodes g) * (1 / vnth k (Nk_of g))) * qpow 1 (Z.of_nat k))
  == cnt p (gnodes g).
Proof.
  intros WG. destruct (degseq_keys g WG) as (ND & INC & NE). pose proof (gN_nonzero g WG) as NZ.
  set (f := fun k => cnt (fun u => p u && Nat.eqb (deg g u) k) (gnodes g) * (1 / vnth k (Nk_of g))).
  unfold sumPk. rewrite (ICP.sumQ_map_ext _ (fun k => Pk (degseq g) k * f k)).
  2:{ intros k _. unfold qpow. rewrite Qpower_1. unfold f. ring. }
  rewrite (sum_weighted f (degseq g) (Pk_keys (degseq g)) ND INC NE).
  unfold degseq at 2. rewrite map_length. fold (gN g).
  setoid_replace (gN g * (sumQ (map f (degseq g)) / gN g)) with (sumQ (map f (degseq g))) by (field; exact NZ).
  unfold degseq. rewrite map_map.
  rewrite (ICP.sumQ_map_ext (fun u => f (deg g u)) (fun u => if true then f (deg g u) else 0)) by reflexivity.
  rewrite <- (class_sum_weighted (deg g) (fun _ => true) f (gmaxdeg g) (gnodes g)) by (intros; apply deg_le_max; assumption).
  rewrite <- (byclass_sum g p). unfold vsum, byclass, classes. apply ICP.sumQ_map_ext. intros k Hk. apply in_seq in Hk.
  unfold f, Nk_of. rewrite vnth_byclass by lia.
  rewrite (cnt_ext (fun u => p u && Nat.eqb (deg g u) k) (fun u => Nat.eqb (deg g u) k && p u)) by (intros; apply andb_comm).
  set (nk := cnt (fun u => Nat.eqb (deg g u) k && true) (gnodes g)).
  destruct (Qeq_dec nk 0) as [Z|NZk].
  - rewrite (cnt_and_zero (fun u => Nat.eqb (deg g u) k) p (gnodes g)); [ring|].
    rewrite <- Z. unfold nk. rewrite (cnt_ext _ (fun u => Nat.eqb (deg g u) k && true)); [reflexivity|]. intros; rewrite andb_true_r; reflexivity.
  - field. exact NZk.
Qed.

Lemma psihat1_rho g c : wf_ugraph g = true ->
  c * sumPk g (fun k => Pk (degseq g) k * qpow 1 (Z.of_nat k)) == c.
Proof.
  intros WG. destruct (degseq_keys g WG) as (_ & _ & NE). unfold sumPk.
  rewrite (ICP.sumQ_map_ext _ (Pk (degseq g))) by (intros k _; unfold qpow; rewrite Qpower_1; ring).
  rewrite (Pk_sum_keys (degseq g) NE). ring.
Qed.

Lemma row0_EBCM_fg g rq full sv out :
  wf_ugraph g = true -> wf_req g true rq = true -> solver_ok sv ->
  EBCM_from_graph g rq full sv = Ok out ->
  exists S I R, lookup nS out = Some (Sc S) /\ lookup nI out = Some (Sc I) /\ lookup nR out = Some (Sc R) /\
    S 0%nat == reqS_n g rq /\ I 0%nat == reqI_n g rq /\ R 0%nat == reqR_n g rq /\
    (full = true -> exists th, lookup nTheta out = Some (Sc th) /\ th 0%nat == 1).
Proof.
  intros WG W OK. unfold EBCM_from_graph.
  assert (NB : (isSome (rq_rho rq) && isSome (rq_I rq))%bool = false).
  { destruct (rq_I rq) eqn:E, (rq_rho rq) eqn:Er; try reflexivity. exfalso; eapply wf_req_not_both; eauto. }
  rewrite NB. destruct (rq_I rq) as [I0|] eqn:E.
  - destruct (wf_req_sets g true rq I0 W E) as (Hrho & _). rewrite Hrho. cbn [isSome andb].
    destruct (init_status_ok g true rq I0 W E) as [st [-> Hst]]. cbn [rbind].
    destruct (gnodes g) as [|n0 l0] eqn:EG; [discriminate|]. rewrite <- EG.
    destruct (Qeqb _ 0); [discriminate|]. intros H. injection H as <-.
    unfold EBCM. do 3 eexists. split; [look|]. split; [look|]. split; [look|].
    unfold comp, vnth. cbv beta. rewrite !OK. cbn [nth].
    pose proof (psihat1_sets g (isS st) WG) as HS. cbv beta in HS.
    assert (ES : cnt (isS st) (gnodes g) == reqS_n g rq).
    { rewrite (cnt_ext _ (isS (req_status rq))) by (intros u _; unfold isS; rewrite Hst; reflexivity).
      unfold reqS_n. rewrite E. apply (cnt_req_S g true rq I0 WG W E). }
    assert (ER : cnt (isR st) (gnodes g) == reqR_n g rq).
    { rewrite (cnt_ext _ (isR (req_status rq))) by (intros u _; unfold isR; rewrite Hst; reflexivity).
      unfold reqR_n. rewrite E. apply (cnt_req_R g true rq I0 WG W E). }
    rewrite HS, ES, ER. split; [reflexivity|]. split; [unfold reqS_n, reqI_n, reqR_n; rewrite E; ring|]. split; [reflexivity|].
    intros ->. eexists. split; [look|]. cbv beta. rewrite !OK. reflexivity.
  - rewrite (wf_req_rho g true rq W E). cbn [isSome andb]. rewrite andb_false_r.
    intros H. injection H as <-.
    unfold EBCM. do 3 eexists. split; [look|]. split; [look|]. split; [look|].
    unfold comp, vnth. cbv beta. rewrite !OK. cbn [nth].
    setoid_replace (gN g * ((1 - rho_or_default g (rq_rho rq)) * sumPk g (fun k => Pk (degseq g) k * qpow 1 (Z.of_nat k))))
      with (gN g * (1 - rho_or_default g (rq_rho rq))) by (rewrite (psihat1_rho g _ WG); reflexivity).
    unfold reqS_n, reqI_n, reqR_n. rewrite E. split; [ring|]. split; [ring|]. split; [reflexivity|].
    intros ->. eexists. split; [look|]. cbv beta. rewrite !OK. reflexivity.
Qed.
