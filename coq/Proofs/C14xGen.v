(* C14, proof side: the equivariance of the node-level right-hand sides restated over the definitions GENERATED
   from EoN/analytic.py (Gen/Rhs2.v, translate/rhs2d2v.py), through the adequacy theorems of Proofs/Rhs2GenP.v:
   the theorem is about what the file says now. *)
From EoNV Require Import Prelude Vec Graph Rhs2D VecP Rhs2DP Rhs2 Rhs2GenP C14xDef C14xRhs C14xTop C14xEx.
From Coq Require Import Permutation Lia.

Definition rhs2g_node (sys : nat) (G : graph) (nodelist : list node) (idx : node -> nat)
           (tr : node -> node -> Q) (rc : node -> Q) (V : vec) (t : Q) : vec :=
  match sys with
  | 0%nat => g_dSIS_individual_based V t G nodelist idx tr rc
  | 1%nat => g_dSIR_individual_based V t G nodelist idx tr rc
  | 2%nat => g_dSIS_pair_based V t G nodelist idx tr rc
  | 3%nat => g_dSIR_pair_based V t G nodelist idx tr rc
  | _ => []
  end.

Lemma rhs2g_is_model sys G nodelist idx tr rc V t :
  pb_wfb G nodelist idx = true -> length V = state_len sys (nN nodelist) ->
  veq (rhs2g_node sys G nodelist idx tr rc V t) (rhs2_node sys G nodelist idx tr rc V t).
Proof.
  intros W L. destruct sys as [|[|[|[|k]]]]; cbn [rhs2g_node rhs2_node state_len] in *.
  - apply gen_dSIS_individual_based. exact L.
  - apply gen_dSIR_individual_based. unfold nN in L. lia.
  - apply gen_dSIS_pair_based. exact W.
  - apply gen_dSIR_pair_based. exact W.
  - constructor.
Qed.

Theorem gen_node_rhs_equivariant sys G nodelist idx tr rc G' nl2 phi idx' tr' rc' V V' t :
  relabel_okb G nodelist idx tr rc G' nl2 phi idx' tr' rc' = true ->
  pb_wfb G nodelist idx = true -> pb_wfb G' (map phi nl2) idx' = true ->
  length V = state_len sys (nN nodelist) -> veq V' (perm_state idx nl2 sys V) ->
  veq (rhs2g_node sys G' (map phi nl2) idx' tr' rc' V' t)
      (perm_state idx nl2 sys (rhs2g_node sys G nodelist idx tr rc V t)).
Proof.
  intros OK W W' L HV. pose proof (relabel_okb_spec _ _ _ _ _ _ _ _ _ _ _ OK) as R.
  assert (L' : length V' = state_len sys (nN (map phi nl2))).
  { rewrite (veq_length _ _ HV), (perm_state_length _ _ _ _ _ _ _ _ _ _ _ R), (len' _ _ _ _ _ _ _ _ _ _ _ R). reflexivity. }
  etransitivity; [apply rhs2g_is_model; assumption|].
  etransitivity; [apply (node_rhs_equivariant _ _ _ _ _ _ _ _ _ _ _ R sys V V' t HV)|].
  apply perm_state_veq. symmetry. apply rhs2g_is_model; assumption.
Qed.

Lemma ex_pb_wf : pb_wfb exG ex_nodelist ex_idx = true /\ pb_wfb exG' (map ex_phi ex_nl2) ex_idx' = true.
Proof. split; vm_compute; reflexivity. Qed.
