(* C07: EBCM (theta, R) -> SIR effective degree (S_{s,i}, R) under the trinomial change of variables
     S_{s,i} = N sum_k c_k C(k,s) C(k-s,i) phiS^s phiI^i phiR^(k-s-i)
   (Model/Pgf.v Phi_ed; every component a polynomial in theta), against the hand-written model
   Rhs2D.dSIR_effective_degree (proved equal to the definition generated from the source in Rhs2GenP.v). *)
From EoNV Require Import Prelude Vec VecP Aux AuxP ICP Wrappers Pgf C07xPoly C07xHier C07xCed Rhs Rhs2D Rhs2DP.
From Coq Require Import Qpower Lqa Setoid Morphisms.

Local Notation pw x k := (qpow x (Z.of_nat k)).

(* (i+1) C(n+1,i+1) = (n+1) C(n,i) *)
Lemma binomial_absorb_B n i : (S i * binomial (S n) (S i) = S n * binomial n i)%nat.
Proof.
  cbn [binomial]. pose proof (binomial_absorb n i) as A.
  destruct (Nat.leb i n) eqn:E.
  - apply Nat.leb_le in E. nia.
  - apply Nat.leb_gt in E. rewrite (binomial_gt n i) in * by lia. rewrite (binomial_gt n (S i)) by lia. lia.
Qed.
(* (s+1) C(j,s+1) C(j-s-1,i) = (i+1) C(j,s) C(j-s,i+1) *)
Lemma trinomial_absorb j s i :
  (S s * (binomial j (S s) * binomial (j - S s) i) = S i * (binomial j s * binomial (j - s) (S i)))%nat.
Proof.
  pose proof (binomial_absorb j s) as A.
  destruct (Nat.ltb s j) eqn:E.
  - apply Nat.ltb_lt in E. pose proof (binomial_absorb_B (j - S s) i) as B. replace (S (j - S s)) with (j - s)%nat in B by lia. nia.
  - apply Nat.ltb_ge in E. rewrite (binomial_gt j (S s)) by lia. replace (j - s)%nat with 0%nat by lia. cbn [binomial]. lia.
Qed.

(* (n+1-s) C(n+1,s) = (n+1) C(n,s) *)
Lemma binomial_absorb_C n s : ((S n - s) * binomial (S n) s = S n * binomial n s)%nat.
Proof.
  destruct s as [|s]; [rewrite !binomial_n0; lia|]. cbn [binomial]. pose proof (binomial_absorb n s) as A.
  destruct (Nat.leb s n) eqn:E.
  - apply Nat.leb_le in E. replace (S n - S s)%nat with (n - s)%nat by lia. nia.
  - apply Nat.leb_gt in E. rewrite (binomial_gt n (S s)) by lia. rewrite (binomial_gt n s) in * by lia. replace (S n - S s)%nat with 0%nat by lia. lia.
Qed.

Lemma sumn_sumQ n f : sumn n f = sumQ (map f (seq 0 n)). Proof. reflexivity. Qed.
Lemma csum_lin4 a1 a2 a3 a4 f1 f2 f3 f4 cs k :
  a1 * csum f1 cs k + a2 * csum f2 cs k + a3 * csum f3 cs k + a4 * csum f4 cs k
  == csum (fun j => a1 * f1 j + a2 * f2 j + a3 * f3 j + a4 * f4 j) cs k.
Proof. rewrite !csum_add, !csum_scal. reflexivity. Qed.
Lemma veq_tab n f h : (forall i, (i < n)%nat -> f i == h i) -> veq (tab n f) (tab n h).
Proof.
  intros H. apply veq_of_nth; [rewrite !tab_length; reflexivity|]. intros i Hi. rewrite tab_length in Hi.
  rewrite !nth_tab by exact Hi. apply H. exact Hi.
Qed.
Lemma veq_tab2 r c f h : (forall s i, (s < r)%nat -> (i < c)%nat -> f s i == h s i) -> veq (tab2 r c f) (tab2 r c h).
Proof.
  intros H. unfold tab2. assert (G : forall l, (forall s, In s l -> (s < r)%nat) ->
    veq (flat_map (fun i => tab c (f i)) l) (flat_map (fun i => tab c (h i)) l)).
  { induction l as [|s l IH]; intros Hl; cbn [flat_map]; [constructor|].
    apply veq_app; [apply veq_tab; intros i Hi; apply H; [apply Hl; left; reflexivity|exact Hi]|].
    apply IH. intros s' Hs'. apply Hl. right. exact Hs'. }
  apply G. intros s Hs. apply in_seq in Hs. lia.
Qed.

Lemma map_flat_map2 {A B} (F : A -> B) (G : nat -> nat -> A) (inner l : list nat) :
  map F (flat_map (fun s => map (G s) inner) l) = flat_map (fun s => map (fun i => F (G s i)) inner) l.
Proof. induction l as [|s l IH]; cbn [flat_map map]; [reflexivity|]. rewrite map_app, IH, map_map. reflexivity. Qed.

Section Ed.
Variables (c : list Q) (t N tau g phiS0 phiR0 : Q) (ps psP : Q -> Q) (theta : Q).
Let x := peval (phiS_p c phiS0) theta.
Let y := peval (phiI_p c tau g phiS0 phiR0) theta.
Let z := peval (phiR_p tau g phiR0) theta.
Let dx := D (phiS_p c phiS0) theta.
Let dy := D (phiI_p c tau g phiS0 phiR0) theta.
Let dz := D (phiR_p tau g phiR0) theta.
Let K := length c.
Local Notation a u := (D c u).
Local Notation b u := (D (pderiv c) u).
Definition Tr (x y z : Q) (j s i : nat) : Q :=
  Qnat (binomial j s * binomial (j - s) i) * pw x s * pw y i * pw z (j - s - i).
Let Sv (s i : nat) : Q := peval (ed_sum c N tau g phiS0 phiR0 s i c 0) theta.

Lemma xyz_vals : x == phiS0 * a theta / a 1 /\ z == phiR0 + g / tau * (1 - theta) /\ x + y + z == theta /\
  dx == phiS0 * b theta / a 1 /\ dz == - (g / tau) /\ dy == 1 - dx - dz.
Proof.
  unfold x, y, z, dx, dy, dz, phiI_p, phiS_p, phiR_p, hP1, hP.
  rewrite !peval_psub, !D_psub, peval_pX, D_pX, !peval_pscale, !D_pscale, !peval_lin, !D_lin.
  unfold Qdiv. repeat split; ring.
Qed.

Lemma ed_val s i cs : forall k, peval (ed_sum c N tau g phiS0 phiR0 s i cs k) theta == N * csum (fun j => Tr x y z j s i) cs k.
Proof.
  induction cs as [|ck cs IH]; intros k; cbn [ed_sum csum]; [cbn [peval]; ring|].
  rewrite peval_padd, IH. unfold ed_term. rewrite peval_pscale, !peval_pmul, !peval_ppow. unfold Tr. fold x y z. ring.
Qed.
Lemma ed_der s i cs : forall k, D (ed_sum c N tau g phiS0 phiR0 s i cs k) theta ==
  N * csum (fun j => Qnat (binomial j s * binomial (j - s) i) *
                     (dpw x s * dx * (pw y i * pw z (j - s - i)) +
                      pw x s * (dpw y i * dy * pw z (j - s - i) + pw y i * (dpw z (j - s - i) * dz)))) cs k.
Proof.
  induction cs as [|ck cs IH]; intros k; cbn [ed_sum csum]; [cbn [pderiv peval]; ring|].
  rewrite D_padd, IH. unfold ed_term. rewrite D_pscale, !D_pmul, !D_ppow_dpw, !peval_pmul, !peval_ppow. fold x y z dx dy dz. ring.
Qed.

Lemma Ssi_eval : pm_eval (Ssi_p c N tau g phiS0 phiR0) theta = tab2 K K Sv.
Proof.
  unfold pm_eval, Ssi_p, tab2, tab. fold K. apply map_flat_map2.
Qed.
Lemma Ssi_push dth : pm_push (Ssi_p c N tau g phiS0 phiR0) theta dth =
  tab2 K K (fun s i => D (ed_sum c N tau g phiS0 phiR0 s i c 0) theta * dth).
Proof.
  unfold pm_push, Ssi_p, tab2, tab. fold K.
  apply (map_flat_map2 (fun p => D p theta * dth) (fun s i => ed_sum c N tau g phiS0 phiR0 s i c 0)).
Qed.

(* S_{s,i} = 0 when s + i exceeds the largest degree *)
Lemma Tr_zero j s i : (j < s + i)%nat -> Tr x y z j s i == 0.
Proof.
  intros H. unfold Tr. destruct (Nat.ltb j s) eqn:E.
  - apply Nat.ltb_lt in E. rewrite (binomial_gt j s E). cbn [Nat.mul]. change (Qnat 0) with 0. ring.
  - apply Nat.ltb_ge in E. rewrite (binomial_gt (j - s) i) by lia. rewrite Nat.mul_0_r. change (Qnat 0) with 0. ring.
Qed.
Lemma Sv_zero2 s i : (K <= s + i)%nat -> Sv s i == 0.
Proof.
  intros H. unfold Sv. rewrite ed_val. rewrite (csum_ext _ (fun _ => 0)); [rewrite csum_zero; ring|].
  intros j Hj. cbn [plus]. apply Tr_zero. fold K in Hj. lia.
Qed.

(* weighted double sums *)
Lemma sumS2 (w : nat -> nat -> Q) :
  sumn2 K K (fun s i => w s i * Sv s i) == N * csum (fun j => sumn2 K K (fun s i => w s i * Tr x y z j s i)) c 0.
Proof.
  unfold sumn2. rewrite !sumn_sumQ.
  rewrite (ICP.sumQ_map_ext _ (fun s => 1 * csum (fun j => N * sumn K (fun i => w s i * Tr x y z j s i)) c 0)).
  - rewrite (csum_swap (fun _ => 1) (fun s j => N * sumn K (fun i => w s i * Tr x y z j s i))).
    rewrite <- csum_scal. apply csum_ext. intros j _. rewrite sumn_sumQ, <- ICP.sumQ_map_scal. apply ICP.sumQ_map_ext. intros; ring.
  - intros s _. rewrite sumn_sumQ.
    rewrite (ICP.sumQ_map_ext _ (fun i => w s i * csum (fun j => N * Tr x y z j s i) c 0)) by (intros i _; unfold Sv; rewrite ed_val, csum_scal; ring).
    rewrite (csum_swap (w s) (fun i j => N * Tr x y z j s i)).
    rewrite Qmult_1_l. apply csum_ext. intros j _. rewrite sumn_sumQ, <- ICP.sumQ_map_scal. apply ICP.sumQ_map_ext. intros; ring.
Qed.

Let w := y + z.

Lemma Tr_split j s i : Tr x y z j s i == Qnat (binomial j s) * pw x s * Tk y z (j - s) i.
Proof. unfold Tr, Tk. rewrite Qnat_mul. ring. Qed.

(* the three trinomial moments, for j < K *)
Lemma tmoment0 j : (j < K)%nat -> sumn2 K K (fun s i => Tr x y z j s i) == pw theta j.
Proof.
  intros Hj. destruct xyz_vals as (_ & _ & Hs & _).
  unfold sumn2. rewrite (sumn_ext K _ (fun s => Tk x w j s)).
  - rewrite sumn_sumQ. apply (moment0 x w theta); [unfold w; rewrite <- Hs; ring|exact Hj].
  - intros s Hs'. rewrite (sumn_ext K _ (fun i => Qnat (binomial j s) * pw x s * Tk y z (j - s) i)) by (intros; apply Tr_split).
    rewrite sumn_scal, sumn_sumQ, (moment0 y z w (Qeq_refl _)) by lia. unfold Tk. ring.
Qed.
Lemma tmoment1 j : (j < K)%nat -> sumn2 K K (fun s i => Qnat s * Tr x y z j s i) == x * dpw theta j.
Proof.
  intros Hj. destruct xyz_vals as (_ & _ & Hs & _).
  unfold sumn2. rewrite (sumn_ext K _ (fun s => Qnat s * Tk x w j s)).
  - rewrite sumn_sumQ. apply (moment1u x w theta); [unfold w; rewrite <- Hs; ring|exact Hj].
  - intros s Hs'. rewrite (sumn_ext K _ (fun i => Qnat s * (Qnat (binomial j s) * pw x s) * Tk y z (j - s) i)) by (intros; rewrite Tr_split; ring).
    rewrite sumn_scal, sumn_sumQ, (moment0 y z w (Qeq_refl _)) by lia. unfold Tk. ring.
Qed.
(* mixed moment: sum_s s C(j,s) x^s (j-s) w^(j-s-1) = j (j-1) x theta^(j-2) *)
Lemma mixed_moment j : (j < K)%nat ->
  sumQ (map (fun s => Qnat s * (Qnat (binomial j s) * pw x s) * dpw w (j - s)) (seq 0 K)) == x * ddpw theta j.
Proof.
  intros Hj. destruct xyz_vals as (_ & _ & Hs & _).
  assert (Hxw : x + w == theta) by (unfold w; rewrite <- Hs; ring).
  destruct j as [|j'].
  - cbn [ddpw]. rewrite ICP.sumQ_map_zero; [ring|]. intros s _. cbn [minus dpw]. ring.
  - rewrite (ICP.sumQ_map_ext _ (fun s => Qnat (S j') * (Qnat s * Tk x w j' s))).
    + rewrite ICP.sumQ_map_scal, (moment1u x w theta Hxw j' K) by lia.
      destruct j' as [|m]; cbn [dpw ddpw]; ring.
    + intros s _. unfold Tk. destruct (Nat.leb s j') eqn:E.
      * apply Nat.leb_le in E. replace (S j' - s)%nat with (S (j' - s)) by lia. cbn [dpw].
        pose proof (binomial_absorb_C j' s) as C1. replace (S j' - s)%nat with (S (j' - s)) in C1 by lia.
        assert (C2 : Qnat (S (j' - s)) * Qnat (binomial (S j') s) == Qnat (S j') * Qnat (binomial j' s)) by (rewrite <- !Qnat_mul, C1; reflexivity).
        setoid_replace (Qnat s * (Qnat (binomial (S j') s) * pw x s) * (Qnat (S (j' - s)) * pw w (j' - s)))
          with (Qnat s * (Qnat (S (j' - s)) * Qnat (binomial (S j') s)) * pw x s * pw w (j' - s)) by ring.
        rewrite C2. ring.
      * apply Nat.leb_gt in E. rewrite (binomial_gt j' s E). destruct (Nat.eqb s (S j')) eqn:E2.
        -- apply Nat.eqb_eq in E2. subst s. rewrite Nat.sub_diag. cbn [dpw]. change (Qnat 0) with 0. ring.
        -- apply Nat.eqb_neq in E2. rewrite (binomial_gt (S j') s) by lia. change (Qnat 0) with 0. ring.
Qed.
Lemma tmoment2 j : (j < K)%nat -> sumn2 K K (fun s i => Qnat i * Qnat s * Tr x y z j s i) == x * y * ddpw theta j.
Proof.
  intros Hj. unfold sumn2.
  rewrite (sumn_ext K _ (fun s => y * (Qnat s * (Qnat (binomial j s) * pw x s) * dpw w (j - s)))).
  - rewrite sumn_scal, sumn_sumQ, (mixed_moment j Hj). ring.
  - intros s Hs'. rewrite (sumn_ext K _ (fun i => (Qnat s * (Qnat (binomial j s) * pw x s)) * (Qnat i * Tk y z (j - s) i))) by (intros; rewrite Tr_split; ring).
    rewrite sumn_scal, sumn_sumQ, (moment1u y z w (Qeq_refl _)) by lia. ring.
Qed.

Lemma S2_moment0 : sumn2 K K Sv == N * peval c theta.
Proof.
  rewrite (sumn2_ext K K Sv (fun s i => 1 * Sv s i)) by (intros; ring). rewrite sumS2.
  rewrite (csum_ext _ (fun j => pw theta j)).
  - destruct (csum_pw theta c 0) as (E & _). rewrite E, pw_0. ring.
  - intros j Hj. cbn [plus]. rewrite <- (tmoment0 j Hj). apply sumn2_ext. intros; ring.
Qed.
Lemma S2_moment1 : sumn2 K K (fun s i => Qnat s * Sv s i) == N * x * a theta.
Proof.
  rewrite sumS2. rewrite (csum_ext _ (fun j => x * dpw theta j)) by (intros j Hj; cbn [plus]; apply (tmoment1 j Hj)).
  rewrite csum_scal, csum_dpw. ring.
Qed.
Lemma S2_moment2 : sumn2 K K (fun s i => Qnat i * Qnat s * Sv s i) == N * (x * y) * b theta.
Proof.
  rewrite sumS2. rewrite (csum_ext _ (fun j => x * y * ddpw theta j)) by (intros j Hj; cbn [plus]; apply (tmoment2 j Hj)).
  rewrite csum_scal, csum_ddpw. ring.
Qed.

(* the state Phi_ed(theta, R) as the model's accessors see it *)
Lemma er_S_Phi R s i : (s < K)%nat -> (i < K)%nat -> er_S (Phi_ed c N tau g phiS0 phiR0 theta R) K s i = Sv s i.
Proof.
  intros Hs Hi. unfold er_S, Phi_ed, vnth. rewrite Ssi_eval, app_nth1 by (rewrite tab2_length; nia). apply nth_tab2; assumption.
Qed.
Lemma er_R_Phi R : er_R (Phi_ed c N tau g phiS0 phiR0 theta R) K K = R.
Proof.
  unfold er_R, Phi_ed, vnth. rewrite Ssi_eval, app_nth2 by (rewrite tab2_length; lia). rewrite tab2_length, Nat.sub_diag. reflexivity.
Qed.

(* the returned series: S = Ssi.sum() = N psihat(theta), R = R *)
Lemma ed_outputs_agree R :
  vsum (drop_last 1 (Phi_ed c N tau g phiS0 phiR0 theta R)) == N * peval c theta /\
  vnth 0 (take_last 1 (Phi_ed c N tau g phiS0 phiR0 theta R)) == R.
Proof.
  unfold Phi_ed. rewrite drop_last_app, take_last_app by reflexivity. split; [|reflexivity].
  rewrite Ssi_eval, vsum_tab2. apply S2_moment0.
Qed.

Lemma ebcm_to_ed R :
  ps theta == peval c theta -> psP theta == a theta -> psP 1 == a 1 ->
  ~ tau == 0 -> ~ N == 0 -> ~ x == 0 -> ~ a theta == 0 -> ~ a 1 == 0 ->
  let e := dEBCM [theta; R] t N tau g ps psP phiS0 phiR0 in
  veq (dSIR_effective_degree (Phi_ed c N tau g phiS0 phiR0 theta R) N K K tau g t)
      (DPhi_ed c N tau g phiS0 phiR0 theta (vnth 0 e) (vnth 1 e)).
Proof.
  intros E0 E1 E11 Ht HN Hx Ha Hc. cbv zeta.
  destruct xyz_vals as (Hxv & Hzv & Hsum & Hdx & Hdz & Hdy).
  set (X := Phi_ed c N tau g phiS0 phiR0 theta R).
  assert (Hdth : vnth 0 (dEBCM [theta; R] t N tau g ps psP phiS0 phiR0) == - tau * y).
  { unfold dEBCM. cbn [vnth nth]. rewrite E1, E11. rewrite <- Hsum, Hxv, Hzv at 1.
    setoid_replace y with (theta - x - z) by (rewrite <- Hsum; ring). rewrite Hxv, Hzv. field. split; assumption. }
  assert (HdR : vnth 1 (dEBCM [theta; R] t N tau g ps psP phiS0 phiR0) == g * (N - N * peval c theta - R)).
  { unfold dEBCM. cbn [vnth nth]. rewrite E0. ring. }
  set (dth := vnth 0 (dEBCM [theta; R] t N tau g ps psP phiS0 phiR0)) in *.
  set (dR := vnth 1 (dEBCM [theta; R] t N tau g ps psP phiS0 phiR0)) in *.
  assert (HISS : er_ISS X K K == N * (x * y) * b theta).
  { unfold er_ISS. rewrite <- S2_moment2. apply sumn2_ext. intros s i Hs Hi. unfold X. rewrite er_S_Phi by assumption. reflexivity. }
  assert (HSS : er_SS X K K == N * x * a theta).
  { unfold er_SS. rewrite <- S2_moment1. apply sumn2_ext. intros s i Hs Hi. unfold X. rewrite er_S_Phi by assumption. reflexivity. }
  assert (Hbeta : tau * er_ISS X K K / er_SS X K K == tau * b theta * y / a theta).
  { rewrite HISS, HSS. field. repeat split; assumption. }
  unfold dSIR_effective_degree, DPhi_ed. rewrite Ssi_push.
  apply veq_app.
  - apply veq_tab2. intros s i Hs Hi. unfold er_dS.
    (* the shifted entries *)
    assert (Hsip : sip1 K (er_S X K) s i == Sv s (S i)).
    { unfold sip1. destruct (Nat.eqb (i + 1) K) eqn:E.
      - apply Nat.eqb_eq in E. rewrite Sv_zero2 by lia. reflexivity.
      - apply Nat.eqb_neq in E. unfold X. rewrite er_S_Phi by lia. replace (i + 1)%nat with (S i) by lia. reflexivity. }
    assert (Hsp : sp1im1 K (er_S X K) s i == match i with O => 0 | S i' => Sv (S s) i' end).
    { unfold sp1im1. destruct i as [|i']; [reflexivity|]. cbn [Nat.eqb orb].
      destruct (Nat.eqb (s + 1) K) eqn:E.
      - apply Nat.eqb_eq in E. rewrite Sv_zero2 by lia. reflexivity.
      - apply Nat.eqb_neq in E. unfold X. rewrite er_S_Phi by lia. replace (s + 1)%nat with (S s) by lia. replace (S i' - 1)%nat with i' by lia. reflexivity. }
    assert (HS : er_S X K s i = Sv s i) by (unfold X; apply er_S_Phi; assumption).
    rewrite Hsip, Hsp, !HS.
    setoid_replace (tau * er_ISS X K K * ((Qnat s + 1) * match i with O => 0 | S i' => Sv (S s) i' end - Qnat s * Sv s i) / er_SS X K K)
      with (tau * er_ISS X K K / er_SS X K K * ((Qnat s + 1) * match i with O => 0 | S i' => Sv (S s) i' end - Qnat s * Sv s i))
      by (field; rewrite HSS; intro H; apply Qmult_integral in H; destruct H as [H|H]; [apply Qmult_integral in H; tauto|tauto]).
    rewrite Hbeta, ed_der, Hdth.
    set (beta := tau * b theta * y / a theta).
    (* everything as one sum over the degree classes *)
    assert (Hm : match i with O => 0 | S i' => Sv (S s) i' end == N * csum (fun j => match i with O => 0 | S i' => Tr x y z j (S s) i' end) c 0).
    { destruct i as [|i']; [rewrite csum_zero; ring|]. unfold Sv. apply ed_val. }
    rewrite Hm. unfold Sv. rewrite !ed_val.
    set (f1 := fun j => Tr x y z j s i). set (f2 := fun j => Tr x y z j s (S i)).
    set (f3 := fun j => match i with O => 0 | S i' => Tr x y z j (S s) i' end).
    setoid_replace (- tau * Qnat i * (N * csum f1 c 0) + g * ((Qnat i + 1) * (N * csum f2 c 0) - Qnat i * (N * csum f1 c 0))
                    + beta * ((Qnat s + 1) * (N * csum f3 c 0) - Qnat s * (N * csum f1 c 0)))
      with (N * ((- (tau + g) * Qnat i - beta * Qnat s) * csum f1 c 0 + (g * (Qnat i + 1)) * csum f2 c 0 + (beta * (Qnat s + 1)) * csum f3 c 0 + 0 * csum f1 c 0)) by ring.
    rewrite csum_lin4.
    setoid_replace (N * csum (fun j => Qnat (binomial j s * binomial (j - s) i) *
                     (dpw x s * dx * (pw y i * pw z (j - s - i)) + pw x s * (dpw y i * dy * pw z (j - s - i) + pw y i * (dpw z (j - s - i) * dz)))) c 0 * (- tau * y))
      with (N * csum (fun j => (- tau * y) * (Qnat (binomial j s * binomial (j - s) i) *
                     (dpw x s * dx * (pw y i * pw z (j - s - i)) + pw x s * (dpw y i * dy * pw z (j - s - i) + pw y i * (dpw z (j - s - i) * dz))))) c 0)
      by (rewrite csum_scal; ring).
    apply Qmult_comp; [reflexivity|]. apply csum_ext. intros j _. cbn [plus]. unfold f1, f2, f3, Tr.
    pose proof (dpw_mul x s) as Mx. pose proof (dpw_mul y i) as My.
    (* absorption for the (s, i+1) entry *)
    assert (A2 : (Qnat i + 1) * Qnat (binomial j s * binomial (j - s) (S i)) == Qnat (j - s - i) * Qnat (binomial j s * binomial (j - s) i)).
    { rewrite <- (AuxP.Qnat_S i), !Qnat_mul.
      setoid_replace (Qnat (S i) * (Qnat (binomial j s) * Qnat (binomial (j - s) (S i)))) with (Qnat (binomial j s) * (Qnat (S i) * Qnat (binomial (j - s) (S i)))) by ring.
      rewrite binomial_absorb_Q. ring. }
    pose proof (dpw_pred z (j - s) i) as Mz.
    assert (Hdx' : dx == x * b theta / a theta) by (rewrite Hdx, Hxv; field; split; assumption).
    assert (HDP : dpw x s == Qnat s * pw x s / x) by (rewrite <- Mx; field; exact Hx).
    assert (Hs1 : ~ Qnat s + 1 == 0) by (rewrite <- AuxP.Qnat_S; apply Qnat_nz; lia).
    assert (Hi1 : ~ Qnat i + 1 == 0) by (rewrite <- AuxP.Qnat_S; apply Qnat_nz; lia).
    assert (HC2 : Qnat (binomial j s * binomial (j - s) (S i)) == Qnat (j - s - i) * Qnat (binomial j s * binomial (j - s) i) / (Qnat i + 1))
      by (rewrite <- A2; field; exact Hi1).
    rewrite HC2, HDP, <- Mz, Hdz, Hdy, Hdz, Hdx'. unfold beta.
    destruct i as [|i'].
    + (* i = 0 *)
      cbn [dpw]. rewrite !pw_S, !pw_0. change (Qnat 0) with 0. field. repeat split; assumption.
    + (* i = S i' *)
      pose proof (trinomial_absorb j s i') as TA.
      assert (A3 : (Qnat s + 1) * Qnat (binomial j (S s) * binomial (j - S s) i') == Qnat (S i') * Qnat (binomial j s * binomial (j - s) (S i'))).
      { rewrite <- (AuxP.Qnat_S s), <- !Qnat_mul, TA. reflexivity. }
      assert (HC3 : Qnat (binomial j (S s) * binomial (j - S s) i') == Qnat (S i') * Qnat (binomial j s * binomial (j - s) (S i')) / (Qnat s + 1))
        by (rewrite <- A3; field; exact Hs1).
      rewrite HC3. replace (j - S s - i')%nat with (j - s - S i')%nat by lia.
      cbn [dpw]. rewrite !pw_S. field. repeat split; assumption.
  - constructor; [|constructor].
    rewrite HdR, edSIR_dR. unfold X at 2. rewrite er_R_Phi.
    rewrite (sumn2_ext K K (er_S X K) Sv) by (intros s i Hs Hi; unfold X; rewrite er_S_Phi by assumption; reflexivity).
    rewrite S2_moment0. ring.
Qed.
End Ed.

(* the same over the definition GENERATED from the source (Gen/Rhs2.v) *)
From EoNV Require Import Rhs2 Rhs2GenP.
Lemma Phi_ed_length c N tau g phiS0 phiR0 theta R :
  length (Phi_ed c N tau g phiS0 phiR0 theta R) = (length c * length c + 1)%nat.
Proof. unfold Phi_ed. rewrite app_length, Ssi_eval, tab2_length. reflexivity. Qed.
Lemma ebcm_to_ed_generated c t N tau g phiS0 phiR0 (ps psP : Q -> Q) theta R :
  ps theta == peval c theta -> psP theta == D c theta -> psP 1 == D c 1 ->
  ~ tau == 0 -> ~ N == 0 -> ~ peval (phiS_p c phiS0) theta == 0 -> ~ D c theta == 0 -> ~ D c 1 == 0 ->
  let e := dEBCM [theta; R] t N tau g ps psP phiS0 phiR0 in
  veq (g_dSIR_effective_degree (Phi_ed c N tau g phiS0 phiR0 theta R) t N (length c, length c) tau g)
      (DPhi_ed c N tau g phiS0 phiR0 theta (vnth 0 e) (vnth 1 e)).
Proof.
  intros E0 E1 E11 Ht HN Hx Ha Hc. cbv zeta.
  etransitivity; [apply gen_dSIR_effective_degree, Phi_ed_length|].
  apply (ebcm_to_ed c t N tau g phiS0 phiR0 ps psP theta R); assumption.
Qed.

(* the compact effective degree and effective degree identities with the closures the wrappers pass *)
From EoNV Require Import Graph IC ICP C07xIC.
Lemma effective_degree_from_graph g rho_opt t tau gam theta R :
  wf_ugraph g = true ->
  let r := rho_or_default g rho_opt in let c := fg_coeffs g r in let N := gN g in
  ~ tau == 0 -> ~ theta == 0 -> ~ D c theta == 0 -> ~ D c 1 == 0 ->
  ~ peval (phiS_p c (fg_phiS0 r)) theta == 0 -> ~ peval (u_p tau gam fg_phiR0) theta == 0 ->
  let e := dEBCM [theta; R] t N tau gam (fg_psihat g r) (fg_psihatPrime g r) (fg_phiS0 r) fg_phiR0 in
  veq (dSIR_compact_effective_degree (Phi_ced c N tau gam (fg_phiS0 r) fg_phiR0 theta R) t N tau gam)
      (DPhi_ced c N tau gam (fg_phiS0 r) fg_phiR0 theta (vnth 0 e) (vnth 1 e)) /\
  veq (g_dSIR_effective_degree (Phi_ed c N tau gam (fg_phiS0 r) fg_phiR0 theta R) t N (length c, length c) tau gam)
      (DPhi_ed c N tau gam (fg_phiS0 r) fg_phiR0 theta (vnth 0 e) (vnth 1 e)).
Proof.
  intros WG r c N Ht Hth Ha Hc Hx Hu. cbv zeta.
  assert (H1 : ~ 1 == 0) by (intro H; discriminate H).
  pose proof (gN_nonzero g WG) as HN.
  split.
  - apply ebcm_to_ced; try assumption.
    + apply fg_psihat_poly; exact WG.
    + apply fg_psihatPrime_poly; assumption.
    + apply fg_psihatPrime_poly; assumption.
  - apply ebcm_to_ed_generated; try assumption.
    + apply fg_psihat_poly; exact WG.
    + apply fg_psihatPrime_poly; assumption.
    + apply fg_psihatPrime_poly; assumption.
Qed.

Lemma ed_outputs_both c N tau g phiS0 phiR0 theta R :
  (vsum (drop_last 2 (Phi_ced c N tau g phiS0 phiR0 theta R)) == N * peval c theta /\
   vnth 0 (take_last 2 (Phi_ced c N tau g phiS0 phiR0 theta R)) == R) /\
  (vsum (drop_last 1 (Phi_ed c N tau g phiS0 phiR0 theta R)) == N * peval c theta /\
   vnth 0 (take_last 1 (Phi_ed c N tau g phiS0 phiR0 theta R)) == R).
Proof. split; [apply ced_outputs_agree|apply ed_outputs_agree]. Qed.
