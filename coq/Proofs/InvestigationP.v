(* Lemmas about Model/Investigation.v (property C10, generic part). *)
From EoNV Require Import Prelude Graph Investigation.
From Coq Require Import Lqa Sorting.Sorted.

(* ---------------- comparisons on Q ---------------- *)
Lemma qleb_t a b : Qleb a b = true <-> a <= b.
Proof.
  unfold Qleb. destruct (Qlt_le_dec b a) as [H|H]; split; intro K; try discriminate; try reflexivity; try exact H.
  exfalso. exact (Qlt_not_le _ _ H K).
Qed.
Lemma qleb_f a b : Qleb a b = false <-> b < a.
Proof.
  unfold Qleb. destruct (Qlt_le_dec b a) as [H|H]; split; intro K; try discriminate; try reflexivity; try exact H.
  exfalso. exact (Qlt_not_le _ _ K H).
Qed.
Lemma qltb_t a b : Qltb a b = true <-> a < b.
Proof.
  unfold Qltb. destruct (Qlt_le_dec a b) as [H|H]; split; intro K; try discriminate; try reflexivity; try exact H.
  exfalso. exact (Qlt_not_le _ _ K H).
Qed.
Lemma qeqb_t a b : Qeqb a b = true <-> a == b.
Proof. unfold Qeqb. apply Qeq_bool_iff. Qed.
Lemma qeqb_f a b : Qeqb a b = false <-> ~ a == b.
Proof. rewrite <- qeqb_t. destruct (Qeqb a b); split; intro H; try discriminate; try reflexivity; try (intro K; discriminate K). exfalso; apply H; reflexivity. Qed.

Lemma filter_none {A} (f : A -> bool) l : (forall x, In x l -> f x = false) -> filter f l = [].
Proof.
  induction l as [|a l IH]; intro H; [reflexivity|]. cbn. rewrite (H a (or_introl eq_refl)). apply IH. intros x Hx. apply H. right. exact Hx.
Qed.
Lemma filter_all {A} (f : A -> bool) l : (forall x, In x l -> f x = true) -> filter f l = l.
Proof.
  induction l as [|a l IH]; intro H; [reflexivity|]. cbn. rewrite (H a (or_introl eq_refl)). f_equal. apply IH. intros x Hx. apply H. right. exact Hx.
Qed.

(* ---------------- time-ordered histories ---------------- *)
Lemma sortedb_cons a r : sortedb (a :: r) = true -> sortedb r = true /\ forall x, In x r -> fst a <= fst x.
Proof.
  revert a. induction r as [|b r IH]; intros a H.
  - split; [reflexivity|intros x []].
  - change (sortedb (a :: b :: r)) with (Qleb (fst a) (fst b) && sortedb (b :: r)) in H.
    apply andb_true_iff in H. destruct H as [H1 H2]. apply qleb_t in H1.
    split; [exact H2|]. destruct (IH b H2) as [_ H3].
    intros x [Hx|Hx]; [subst; exact H1|]. eapply Qle_trans; [exact H1|apply H3; exact Hx].
Qed.

Definition le_t (t : Q) (e : Q * N) : bool := Qleb (fst e) t.

Lemma sorted_split h t : sortedb h = true ->
  h = filter (le_t t) h ++ filter (fun e => negb (le_t t e)) h.
Proof.
  induction h as [|a r IH]; intro H; [reflexivity|].
  destruct (sortedb_cons a r H) as [Hr Ha]. cbn [filter]. destruct (le_t t a) eqn:E; cbn [negb].
  - cbn. f_equal. apply IH. exact Hr.
  - assert (K : forall x, In x r -> le_t t x = false).
    { intros x Hx. unfold le_t in *. apply qleb_f. apply qleb_f in E. eapply Qlt_le_trans; [exact E|apply Ha; exact Hx]. }
    rewrite (filter_none _ r K). cbn. f_equal. symmetry. apply filter_all. intros x Hx. rewrite (K x Hx). reflexivity.
Qed.

(* node_status: for a time-ordered history and a time at or after its first entry,
   the status of the latest change at or before that time (the last such entry) *)
Lemma status_at_spec h t : sortedb h = true ->
  (exists e0 r, h = e0 :: r /\ fst e0 <= t) ->
  exists pre e post, h = pre ++ e :: post /\ fst e <= t /\ (forall x, In x pre -> fst x <= t) /\
                     (forall x, In x post -> t < fst x) /\ status_at h t = Ok (snd e).
Proof.
  intros Hs [e0 [r [Eh H0]]].
  pose proof (sorted_split h t Hs) as Sp.
  set (A := filter (le_t t) h) in *. set (B := filter (fun e => negb (le_t t e)) h) in *.
  assert (HA : A <> []).
  { intro EA. assert (In e0 A) as Hin.
    { unfold A. apply filter_In. split; [rewrite Eh; left; reflexivity|]. unfold le_t. apply qleb_t. exact H0. }
    rewrite EA in Hin. exact Hin. }
  destruct (exists_last HA) as [pre [e EA]].
  exists pre, e, B. split; [rewrite Sp at 1; rewrite EA, <- app_assoc; reflexivity|].
  assert (He : In e A) by (rewrite EA; apply in_or_app; right; left; reflexivity).
  split; [unfold A in He; apply filter_In in He; apply qleb_t; exact (proj2 He)|].
  split.
  { intros x Hx. assert (In x A) as HxA by (rewrite EA; apply in_or_app; left; exact Hx).
    unfold A in HxA. apply filter_In in HxA. apply qleb_t. exact (proj2 HxA). }
  split.
  { intros x Hx. unfold B in Hx. apply filter_In in Hx. destruct Hx as [_ Hx]. apply negb_true_iff in Hx. apply qleb_f. exact Hx. }
  unfold status_at. fold (le_t t). fold A. rewrite EA, app_length. cbn [length]. rewrite Nat.add_1_r.
  assert (Eh2 : h = pre ++ e :: B) by (rewrite Sp at 1; rewrite EA, <- app_assoc; reflexivity).
  rewrite Eh2 at 1. rewrite nth_error_app2; [|lia]. rewrite Nat.sub_diag. reflexivity.
Qed.

(* the same answer as a left-to-right scan that remembers the last change <= t *)
Definition scan (t : Q) (cur : N) (h : history) : N :=
  fold_left (fun c e => if le_t t e then snd e else c) h cur.

Lemma scan_later t : forall h cur, (forall x, In x h -> le_t t x = false) -> scan t cur h = cur.
Proof.
  induction h as [|a r IH]; intros cur H; [reflexivity|]. cbn. rewrite (H a (or_introl eq_refl)).
  apply IH. intros x Hx. apply H. right. exact Hx.
Qed.

Lemma scan_app t a b cur : scan t cur (a ++ b) = scan t (scan t cur a) b.
Proof. unfold scan. apply fold_left_app. Qed.

Lemma status_at_scan e0 r t p : sortedb (e0 :: r) = true -> fst e0 <= t ->
  status_at (e0 :: r) t = Ok (scan t p (e0 :: r)).
Proof.
  intros Hs H0. destruct (status_at_spec (e0 :: r) t Hs) as [pre [e [post [Eh [He [Hpre [Hpost Hst]]]]]]].
  { exists e0, r. split; [reflexivity|exact H0]. }
  rewrite Hst. f_equal. rewrite Eh. rewrite scan_app. cbn.
  assert (le_t t e = true) as -> by (unfold le_t; apply qleb_t; exact He).
  symmetry. apply scan_later. intros x Hx. unfold le_t. apply qleb_f. apply Hpost. exact Hx.
Qed.

(* ---------------- summary ---------------- *)
Definition leo (te : Q) (lo : option Q) : bool := match lo with None => false | Some tp => Qleb te tp end.

(* the sum of the increments of status s with time <= t (none when lo = None) *)
Definition cum_lo (es : list dent) (s : N) (lo : option Q) : Z :=
  sumZ (map (fun e => if N.eqb s (de_s e) && leo (de_t e) lo then de_d e else 0%Z) es).
Definition cum (es : list dent) (s : N) (t : Q) : Z := cum_lo es s (Some t).

Lemma sumZ_app a b : sumZ (a ++ b) = (sumZ a + sumZ b)%Z.
Proof.
  induction a as [|x a IH]; [reflexivity|].
  change (sumZ ((x :: a) ++ b)) with (x + sumZ (a ++ b))%Z. change (sumZ (x :: a)) with (x + sumZ a)%Z. rewrite IH. lia.
Qed.

Lemma cum_app a b s t : cum (a ++ b) s t = (cum a s t + cum b s t)%Z.
Proof. unfold cum, cum_lo. rewrite map_app, sumZ_app. reflexivity. Qed.

Lemma sumZ_zero l : (forall x, In x l -> x = 0%Z) -> sumZ l = 0%Z.
Proof.
  induction l as [|a l IH]; intro H; [reflexivity|].
  change (sumZ (a :: l)) with (a + sumZ l)%Z. rewrite (H a (or_introl eq_refl)), IH; [reflexivity|].
  intros x Hx. apply H. right. exact Hx.
Qed.

Lemma sumZ_map_add {A} (f g h : A -> Z) l : (forall e, In e l -> (f e + g e)%Z = h e) ->
  (sumZ (map f l) + sumZ (map g l))%Z = sumZ (map h l).
Proof.
  induction l as [|a l IH]; intro H; [reflexivity|].
  change (sumZ (map f (a :: l))) with (f a + sumZ (map f l))%Z.
  change (sumZ (map g (a :: l))) with (g a + sumZ (map g l))%Z.
  change (sumZ (map h (a :: l))) with (h a + sumZ (map h l))%Z.
  rewrite <- (H a (or_introl eq_refl)), <- IH; [lia|]. intros e He. apply H. right. exact He.
Qed.

Lemma cum_none es s : cum_lo es s None = 0%Z.
Proof.
  unfold cum_lo. apply sumZ_zero. intros x Hx. apply in_map_iff in Hx. destruct Hx as [e [E _]].
  cbn [leo] in E. rewrite andb_false_r in E. symmetry. exact E.
Qed.

(* sorted distinct times *)
Lemma tinsert_In t l x : In x (tinsert t l) -> x = t \/ In x l.
Proof.
  induction l as [|h r IH]; cbn; [intros [H|[]]; left; symmetry; exact H|].
  destruct (t ?= h) eqn:E; cbn.
  - intro H. right. exact H.
  - intros [H|H]; [left; symmetry; exact H|right; exact H].
  - intros [H|H]; [right; left; exact H|]. destruct (IH H) as [K|K]; [left; exact K|right; right; exact K].
Qed.

Lemma tinsert_keeps t l x : In x l -> In x (tinsert t l).
Proof.
  induction l as [|h r IH]; [intros []|]. cbn. destruct (t ?= h); cbn; [auto|auto|].
  intros [H|H]; [left; exact H|right; apply IH; exact H].
Qed.

Lemma tinsert_has t l : exists x, In x (tinsert t l) /\ x == t.
Proof.
  induction l as [|h r IH]; cbn; [exists t; split; [left; reflexivity|reflexivity]|].
  destruct (t ?= h) eqn:E.
  - apply Qeq_alt in E. exists h. split; [left; reflexivity|symmetry; exact E].
  - exists t. split; [left; reflexivity|reflexivity].
  - destruct IH as [x [Hx Ex]]. exists x. split; [right; exact Hx|exact Ex].
Qed.

Lemma tinsert_sorted t l : StronglySorted Qlt l -> StronglySorted Qlt (tinsert t l).
Proof.
  induction l as [|h r IH]; intro H; cbn; [constructor; constructor|].
  inversion H as [|? ? Hr Hh]; subst. destruct (t ?= h) eqn:E.
  - exact H.
  - apply Qlt_alt in E. constructor; [exact H|]. constructor; [exact E|].
    rewrite Forall_forall in *. intros x Hx. eapply Qlt_trans; [exact E|apply Hh; exact Hx].
  - apply Qgt_alt in E. constructor; [apply IH; exact Hr|].
    rewrite Forall_forall in *. intros x Hx. apply tinsert_In in Hx. destruct Hx as [Hx|Hx]; [subst; exact E|apply Hh; exact Hx].
Qed.

Lemma times_of_sorted es : StronglySorted Qlt (times_of es).
Proof.
  unfold times_of. induction (map de_t es) as [|t l IH]; cbn; [constructor|]. apply tinsert_sorted. exact IH.
Qed.

Lemma times_of_from es x : In x (times_of es) -> exists e, In e es /\ de_t e = x.
Proof.
  unfold times_of. induction es as [|e es IH]; cbn; [intros []|].
  intro H. apply tinsert_In in H. destruct H as [H|H]; [exists e; split; [left; reflexivity|symmetry; exact H]|].
  destruct (IH H) as [e' [H1 H2]]. exists e'. split; [right; exact H1|exact H2].
Qed.

Lemma times_of_covers es e : In e es -> exists x, In x (times_of es) /\ x == de_t e.
Proof.
  unfold times_of. induction es as [|e' es IH]; [intros []|]. cbn. intros [H|H].
  - subst e'. apply tinsert_has.
  - destruct (IH H) as [x [Hx Ex]]. exists x. split; [apply tinsert_keeps; exact Hx|exact Ex].
Qed.

Lemma map_combine_map {A B C} (f : A -> B) (g : A * B -> C) l :
  map g (combine l (map f l)) = map (fun a => g (a, f a)) l.
Proof. induction l as [|a l IH]; cbn; [reflexivity|]. rewrite IH. reflexivity. Qed.

(* one step of the running sum: the increments at time t are exactly those with
   time <= t that were not yet counted, provided no increment lies strictly between *)
Lemma cum_step es s lo t r :
  (match lo with Some tp => tp < t | None => True end) -> Forall (Qlt t) r ->
  (forall e, In e es -> leo (de_t e) lo = true \/ exists x, In x (t :: r) /\ x == de_t e) ->
  (cum_lo es s lo + delta es s t)%Z = cum es s t /\
  (forall e, In e es -> leo (de_t e) (Some t) = true \/ exists x, In x r /\ x == de_t e).
Proof.
  intros Hlo Hr Hcov. rewrite Forall_forall in Hr.
  assert (K : forall e, In e es ->
     (leo (de_t e) lo = true /\ Qleb (de_t e) t = true /\ Qeqb t (de_t e) = false) \/
     (leo (de_t e) lo = false /\ Qleb (de_t e) t = true /\ Qeqb t (de_t e) = true) \/
     (leo (de_t e) lo = false /\ Qleb (de_t e) t = false /\ Qeqb t (de_t e) = false /\ exists x, In x r /\ x == de_t e)).
  { intros e He. destruct (leo (de_t e) lo) eqn:L.
    - left. split; [reflexivity|]. destruct lo as [tp|]; [|discriminate]. cbn in L. apply qleb_t in L.
      assert (de_t e < t) as Hlt by (eapply Qle_lt_trans; [exact L|exact Hlo]).
      split; [apply qleb_t; apply Qlt_le_weak; exact Hlt|]. apply qeqb_f. intro E. rewrite E in Hlt. exact (Qlt_irrefl _ Hlt).
    - destruct (Hcov e He) as [H|[x [[Hx|Hx] Ex]]]; [rewrite L in H; discriminate| |].
      + subst x. right. left. split; [reflexivity|]. split; [apply qleb_t; rewrite Ex; apply Qle_refl|apply qeqb_t; exact Ex].
      + right. right. split; [reflexivity|]. pose proof (Hr x Hx) as Hlt. rewrite Ex in Hlt.
        split; [apply qleb_f; exact Hlt|]. split; [|exists x; split; assumption].
        apply qeqb_f. intro E. rewrite E in Hlt. exact (Qlt_irrefl _ Hlt). }
  split.
  - unfold cum, cum_lo, delta. apply sumZ_map_add. intros e He. cbn [leo].
    destruct (K e He) as [[A [B C]]|[[A [B C]]|[A [B [C _]]]]]; rewrite A, B, C;
      destruct (N.eqb s (de_s e)); cbn [andb]; lia.
  - intros e He. cbn [leo]. destruct (K e He) as [[A [B C]]|[[A [B C]]|[A [B [C D]]]]]; [left; exact B|left; exact B|right; exact D].
Qed.

Lemma running_spec es ps : forall ts lo prev,
  StronglySorted Qlt ts -> (match lo with Some tp => Forall (Qlt tp) ts | None => True end) ->
  (forall e, In e es -> leo (de_t e) lo = true \/ exists x, In x ts /\ x == de_t e) ->
  prev = map (fun s => cum_lo es s lo) ps ->
  map fst (running es ps prev ts) = ts /\
  forall t cs, In (t, cs) (running es ps prev ts) -> cs = map (fun s => cum es s t) ps.
Proof.
  induction ts as [|t r IH]; intros lo prev Hs Hlo Hcov Hprev; cbn [running].
  - split; [reflexivity|intros t cs []].
  - destruct (StronglySorted_inv Hs) as [Hsr Htr].
    assert (Hlo' : match lo with Some tp => tp < t | None => True end).
    { destruct lo as [tp|]; [|exact I]. inversion Hlo; assumption. }
    assert (Ecur : map (fun sp => (snd sp + delta es (fst sp) t)%Z) (combine ps prev) = map (fun s => cum_lo es s (Some t)) ps).
    { rewrite Hprev, map_combine_map. apply map_ext. intro s. cbn [fst snd].
      exact (proj1 (cum_step es s lo t r Hlo' Htr Hcov)). }
    rewrite Ecur.
    destruct (IH (Some t) (map (fun s => cum_lo es s (Some t)) ps) Hsr Htr) as [I1 I2].
    + exact (proj2 (cum_step es 0%N lo t r Hlo' Htr Hcov)).
    + reflexivity.
    + split; [cbn; f_equal; exact I1|]. intros t' cs [H|H]; [inversion H; subst; reflexivity|apply I2; exact H].
Qed.

Lemma rows_of_spec es ps rows : rows_of es ps = Ok rows ->
  map fst rows = times_of es /\ forall t cs, In (t, cs) rows -> cs = map (fun s => cum es s t) ps.
Proof.
  unfold rows_of. intro H.
  pose proof (times_of_sorted es) as Hs.
  assert (Hcov : forall e, In e es -> leo (de_t e) None = true \/ exists x, In x (times_of es) /\ x == de_t e).
  { intros e He. right. apply times_of_covers. exact He. }
  destruct (times_of es) as [|t0 r] eqn:Et; [discriminate|]. inversion H; subst rows. clear H.
  destruct (running_spec es ps (t0 :: r) None (map (fun s => cum_lo es s None) ps) Hs I Hcov eq_refl) as [R1 R2].
  cbn [running] in R1, R2.
  assert (E : map (fun sp => (snd sp + delta es (fst sp) t0)%Z) (combine ps (map (fun s => cum_lo es s None) ps)) = map (fun s => delta es s t0) ps).
  { rewrite map_combine_map. apply map_ext. intro s. cbn [fst snd]. rewrite cum_none. lia. }
  rewrite E in R1, R2. split; [exact R1|exact R2].
Qed.

(* per node: the increments of a well-formed history add up to the indicator of its status *)
Definition ind (r : result N) (s : N) : Z :=
  match r with Ok s' => if N.eqb s' s then 1%Z else 0%Z | Err _ => 0%Z end.

Lemma moves_ok ps : forall h prev, forallb (fun x => mem (snd x) ps) h = true -> exists l, moves ps prev h = Ok l.
Proof.
  induction h as [|[t s] r IH]; intros prev H; [eexists; reflexivity|].
  cbn in H. apply andb_true_iff in H. destruct H as [H1 H2]. cbn. rewrite H1.
  destruct (IH s H2) as [l E]. rewrite E. eexists; reflexivity.
Qed.

Lemma moves_times ps : forall h prev l, moves ps prev h = Ok l -> forall e, In e l -> exists x, In x h /\ fst x = de_t e.
Proof.
  induction h as [|[t s] r IH]; intros prev l H e He; cbn in H.
  - inversion H; subst. destruct He.
  - destruct (mem s ps); [|discriminate]. destruct (moves ps s r) as [l'|] eqn:E; [|discriminate]. cbn in H. inversion H; subst l.
    destruct He as [He|[He|He]]; [subst e; exists (t, s); split; [left; reflexivity|reflexivity]|subst e; exists (t, s); split; [left; reflexivity|reflexivity]|].
    destruct (IH s l' E e He) as [x [Hx Ex]]. exists x. split; [right; exact Hx|exact Ex].
Qed.

Lemma moves_covers ps : forall h prev l, moves ps prev h = Ok l -> forall x, In x h -> exists e, In e l /\ de_t e = fst x.
Proof.
  induction h as [|[t s] r IH]; intros prev l H x Hx; [destruct Hx|]. cbn in H.
  destruct (mem s ps); [|discriminate]. destruct (moves ps s r) as [l'|] eqn:E; [|discriminate]. cbn in H. inversion H; subst l.
  destruct Hx as [Hx|Hx].
  - subst x. exists (s, t, 1%Z). split; [left; reflexivity|reflexivity].
  - destruct (IH s l' E x Hx) as [e [He Ee]]. exists e. split; [right; right; exact He|exact Ee].
Qed.

Definition b2z (b : bool) : Z := if b then 1%Z else 0%Z.

Lemma moves_cum ps t s : forall h prev l, sortedb h = true -> moves ps prev h = Ok l ->
  cum l s t = (b2z (N.eqb (scan t prev h) s) - b2z (N.eqb prev s))%Z.
Proof.
  induction h as [|[t1 s1] r IH]; intros prev l Hs H; cbn in H.
  - inversion H; subst. cbn. lia.
  - destruct (mem s1 ps); [|discriminate]. destruct (moves ps s1 r) as [l'|] eqn:E; [|discriminate]. cbn in H. inversion H; subst l. clear H.
    destruct (sortedb_cons _ _ Hs) as [Hr Ha].
    specialize (IH s1 l' Hr E).
    change ((s1, t1, 1%Z) :: (prev, t1, (-1)%Z) :: l') with ([(s1, t1, 1%Z); (prev, t1, (-1)%Z)] ++ l').
    rewrite cum_app, IH.
    change (scan t prev ((t1, s1) :: r)) with (scan t (if le_t t (t1, s1) then s1 else prev) r).
    unfold le_t at 1. cbn [fst].
    unfold cum, cum_lo. cbn [map sumZ fold_right de_s de_t de_d fst snd leo].
    rewrite (N.eqb_sym s1 s), (N.eqb_sym prev s).
    destruct (Qleb t1 t) eqn:L.
    + rewrite !andb_true_r. rewrite (N.eqb_sym (scan t s1 r) s). unfold b2z.
      destruct (N.eqb s s1), (N.eqb s prev), (N.eqb s (scan t s1 r)); lia.
    + rewrite !andb_false_r.
      assert (K : forall x, In x r -> le_t t x = false).
      { intros x Hx. unfold le_t. apply qleb_f. apply qleb_f in L. eapply Qlt_le_trans; [exact L|apply (Ha x Hx)]. }
      rewrite (scan_later t r s1 K), (scan_later t r prev K). rewrite ?(N.eqb_sym s1 s), ?(N.eqb_sym prev s). lia.
Qed.

Lemma node_entries_cum ps tmin h : wf_histb ps tmin h = true ->
  exists en, node_entries ps h = Ok en /\ (forall s t, tmin <= t -> cum en s t = ind (status_at h t) s) /\
             (forall e, In e en -> tmin <= de_t e /\ exists x, In x h /\ fst x = de_t e) /\
             (forall x, In x h -> exists e, In e en /\ de_t e = fst x).
Proof.
  intros W. destruct h as [|[t0 s0] r]; [discriminate|]. unfold wf_histb in W.
  apply andb_true_iff in W. destruct W as [W Hps]. apply andb_true_iff in W. destruct W as [H0 Hs].
  cbn [fst] in H0. apply qeqb_t in H0.
  cbn in Hps. apply andb_true_iff in Hps. destruct Hps as [P0 Pr].
  destruct (moves_ok ps r s0 Pr) as [l El]. unfold node_entries. rewrite P0, El. cbn [rbind].
  eexists. split; [reflexivity|].
  destruct (sortedb_cons _ _ Hs) as [Hr Ha]. cbn [fst] in Ha.
  split; [|split].
  - intros s t Ht. assert (H0t : t0 <= t) by (rewrite H0; exact Ht).
    rewrite (status_at_scan (t0, s0) r t s0 Hs H0t). cbn [ind].
    change (scan t s0 ((t0, s0) :: r)) with (scan t (if le_t t (t0, s0) then s0 else s0) r).
    replace (if le_t t (t0, s0) then s0 else s0) with s0 by (destruct (le_t t (t0, s0)); reflexivity).
    change ((s0, t0, 1%Z) :: l) with ([(s0, t0, 1%Z)] ++ l). rewrite cum_app, (moves_cum ps t s r s0 l Hr El).
    unfold cum, cum_lo. cbn [map sumZ fold_right de_s de_t de_d fst snd leo].
    rewrite (proj2 (qleb_t t0 t) H0t), andb_true_r, (N.eqb_sym s s0). unfold b2z.
    destruct (N.eqb s0 s), (N.eqb (scan t s0 r) s); lia.
  - intros e [He|He].
    + subst e. cbn. split; [rewrite H0; apply Qle_refl|]. exists (t0, s0). split; [left; reflexivity|reflexivity].
    + destruct (moves_times ps r s0 l El e He) as [x [Hx Ex]]. split; [|exists x; split; [right; exact Hx|exact Ex]].
      rewrite <- Ex, <- H0. apply Ha. exact Hx.
  - intros x [Hx|Hx]; [subst x; eexists; split; [left; reflexivity|reflexivity]|].
    destruct (moves_covers ps r s0 l El x Hx) as [e [He Ee]]. exists e. split; [right; exact He|exact Ee].
Qed.

Definition status_isb (iv : inv) (t : Q) (s : N) (u : node) : bool :=
  match node_status iv u t with Ok s' => N.eqb s' s | Err _ => false end.

Definition count_at (iv : inv) (l : list node) (t : Q) (s : N) : Z :=
  Z.of_nat (length (filter (status_isb iv t s) l)).

Lemma all_entries_spec iv ps tmin : forall l,
  (forall u, In u l -> exists h, hist_of iv u = Ok h /\ wf_histb ps tmin h = true) ->
  exists es, all_entries iv ps l = Ok es /\
    (forall s t, tmin <= t -> cum es s t = count_at iv l t s) /\
    (forall e, In e es -> tmin <= de_t e /\ exists u h x, In u l /\ hist_of iv u = Ok h /\ In x h /\ fst x = de_t e) /\
    (forall u h x, In u l -> hist_of iv u = Ok h -> In x h -> exists e, In e es /\ de_t e = fst x).
Proof.
  induction l as [|u l IH]; intro H.
  - exists []. split; [reflexivity|]. split; [intros; reflexivity|]. split; [intros e []|intros u h x []].
  - destruct (H u (or_introl eq_refl)) as [h [Eh Wh]].
    destruct (node_entries_cum ps tmin h Wh) as [en [Een [C1 [C2 C3]]]].
    destruct (IH (fun v Hv => H v (or_intror Hv))) as [es [Ees [D1 [D2 D3]]]].
    exists (en ++ es). split; [cbn; rewrite Eh; cbn; rewrite Een; cbn; rewrite Ees; reflexivity|].
    split; [|split].
    + intros s t Ht. rewrite cum_app, (C1 s t Ht), (D1 s t Ht). unfold count_at. cbn [filter].
      unfold status_isb at 2. unfold node_status. rewrite Eh. cbn [rbind]. unfold ind.
      destruct (status_at h t) as [s'|e]; [destruct (N.eqb s' s); cbn [length]; lia|lia].
    + intros e He. apply in_app_or in He. destruct He as [He|He].
      * destruct (C2 e He) as [A [x [Hx Ex]]]. split; [exact A|]. exists u, h, x. split; [left; reflexivity|auto].
      * destruct (D2 e He) as [A [v [h' [x [Hv K]]]]]. split; [exact A|]. exists v, h', x. split; [right; exact Hv|exact K].
    + intros v h' x [Hv|Hv] Eh' Hx.
      * subst v. rewrite Eh in Eh'. inversion Eh'; subst h'. destruct (C3 x Hx) as [e [He Ee]]. exists e. split; [apply in_or_app; left; exact He|exact Ee].
      * destruct (D3 v h' x Hv Eh' Hx) as [e [He Ee]]. exists e. split; [apply in_or_app; right; exact He|exact Ee].
Qed.

(* (i) summary: at each listed time the number of listed nodes whose node_status is s *)
Lemma summary_spec iv ps tmin l : possible_statuses iv = ps -> l <> [] ->
  (forall u, In u l -> exists h, hist_of iv u = Ok h /\ wf_histb ps tmin h = true) ->
  exists rows, summary iv (Some l) = Ok rows /\ rows <> [] /\ StronglySorted Qlt (map fst rows) /\
    (forall t cs, In (t, cs) rows -> tmin <= t /\ cs = map (count_at iv l t) ps) /\
    (forall t, In t (map fst rows) -> exists u h x, In u l /\ hist_of iv u = Ok h /\ In x h /\ fst x = t) /\
    (forall u h x, In u l -> hist_of iv u = Ok h -> In x h -> exists t, In t (map fst rows) /\ t == fst x).
Proof.
  intros Hps Hl H. destruct (all_entries_spec iv ps tmin l H) as [es [Ees [D1 [D2 D3]]]].
  unfold summary. rewrite Hps. cbn zeta. rewrite Ees. cbn [rbind].
  assert (Hne : times_of es <> []).
  { destruct l as [|u l']; [contradiction|]. destruct (H u (or_introl eq_refl)) as [h [Eh Wh]].
    destruct h as [|x r]; [discriminate|]. destruct (D3 u (x :: r) x (or_introl eq_refl) Eh (or_introl eq_refl)) as [e [He _]].
    destruct (times_of_covers es e He) as [y [Hy _]]. intro E. rewrite E in Hy. exact Hy. }
  destruct (rows_of es ps) as [rows|er] eqn:Er.
  2:{ unfold rows_of in Er. destruct (times_of es); [contradiction|discriminate]. }
  destruct (rows_of_spec es ps rows Er) as [R1 R2].
  exists rows. split; [reflexivity|]. split; [intro E; rewrite E in R1; cbn in R1; apply Hne; symmetry; exact R1|].
  split; [rewrite R1; apply times_of_sorted|]. split; [|split].
  - intros t cs Hin.
    assert (Ht : tmin <= t).
    { assert (In t (map fst rows)) as Hm by (apply in_map_iff; exists (t, cs); split; [reflexivity|exact Hin]).
      rewrite R1 in Hm. destruct (times_of_from es t Hm) as [e [He Ee]]. rewrite <- Ee. apply (D2 e He). }
    split; [exact Ht|]. rewrite (R2 t cs Hin). apply map_ext. intro s. apply D1. exact Ht.
  - intros t Ht. rewrite R1 in Ht. destruct (times_of_from es t Ht) as [e [He Ee]]. destruct (D2 e He) as [_ [u [h [x K]]]].
    exists u, h, x. rewrite <- Ee. exact K.
  - intros u h x Hu Eh Hx. destruct (D3 u h x Hu Eh Hx) as [e [He Ee]]. destruct (times_of_covers es e He) as [y [Hy Ey]].
    exists y. split; [rewrite R1; exact Hy|rewrite Ey, Ee; reflexivity].
Qed.

Lemma summary_all iv : summary iv None = summary iv (Some (iv_nodes iv)).
Proof. reflexivity. Qed.

(* (ii) node_status *)
Lemma node_status_spec iv u h t : hist_of iv u = Ok h -> sortedb h = true ->
  (exists e0 r, h = e0 :: r /\ fst e0 <= t) ->
  exists pre e post, h = pre ++ e :: post /\ fst e <= t /\ (forall x, In x pre -> fst x <= t) /\
                     (forall x, In x post -> t < fst x) /\ node_status iv u t = Ok (snd e).
Proof.
  intros Eh Hs H0. unfold node_status. rewrite Eh. cbn [rbind]. apply status_at_spec; assumption.
Qed.

Lemma statuses_of_spec iv t : forall l m, statuses_of iv l t = Ok m ->
  forall u, In u l -> exists s, node_status iv u t = Ok s /\ assoc m u = Some s.
Proof.
  assert (A1 : forall (m : list (node * N)) u s, assoc (hupd m u s) u = Some s).
  { induction m as [|[k x] m IH]; intros u s; cbn; [rewrite N.eqb_refl; reflexivity|].
    destruct (N.eqb k u) eqn:E; cbn; rewrite E; [reflexivity|apply IH]. }
  assert (A2 : forall (m : list (node * N)) u v s, u <> v -> assoc (hupd m u s) v = assoc m v).
  { induction m as [|[k x] m IH]; intros u v s Hn; cbn.
    - destruct (N.eqb u v) eqn:E; [apply N.eqb_eq in E; contradiction|reflexivity].
    - destruct (N.eqb k u) eqn:E; cbn.
      + apply N.eqb_eq in E. subst k. destruct (N.eqb u v) eqn:E2; [apply N.eqb_eq in E2; contradiction|reflexivity].
      + destruct (N.eqb k v); [reflexivity|apply IH; exact Hn]. }
  induction l as [|v l IH]; intros m H u Hu; [destruct Hu|]. cbn in H.
  destruct (node_status iv v t) as [s|e] eqn:Es; [|discriminate]. cbn in H.
  destruct (statuses_of iv l t) as [m'|e] eqn:Em; [|discriminate]. cbn in H. inversion H; subst m.
  destruct (N.eq_dec v u) as [E|E].
  - subst v. exists s. split; [exact Es|apply A1].
  - destruct Hu as [Hu|Hu]; [contradiction|]. destruct (IH m' eq_refl u Hu) as [s' [H1 H2]].
    exists s'. split; [exact H1|]. rewrite A2; [exact H2|exact E].
Qed.

(* S(), I(), R(), t() are the columns of summary() *)
Lemma column_spec iv ps rows s : possible_statuses iv = ps -> summary iv None = Ok rows ->
  iv_t iv = Ok (map fst rows) /\
  (forall i, index_of s ps = Some i -> column iv s = Ok (map (fun r => nth i (snd r) 0%Z) rows)) /\
  (index_of s ps = None -> column iv s = Err EoNError).
Proof.
  intros Hps Hr. unfold iv_t, column. rewrite Hr, Hps. cbn [rbind].
  split; [reflexivity|]. split; [intros i Hi; rewrite Hi; reflexivity|intro Hi; rewrite Hi; reflexivity].
Qed.

Lemma index_of_nth s : forall ps i, index_of s ps = Some i -> nth_error ps i = Some s.
Proof.
  induction ps as [|x ps IH]; intros i H; cbn in H; [discriminate|].
  destruct (N.eqb x s) eqn:E; [inversion H; subst; apply N.eqb_eq in E; subst; reflexivity|].
  destruct (index_of s ps) as [j|]; [|discriminate]. cbn in H. inversion H; subst. cbn. apply IH. reflexivity.
Qed.

(* ---------------- the checker is sound ---------------- *)
Lemma first_bad_hist_none iv ps mv tmin : forall l, first_bad_hist iv ps mv tmin l = None ->
  forall u, In u l -> exists h, hist_of iv u = Ok h /\ good_histb ps mv tmin h = true.
Proof.
  induction l as [|v l IH]; intros H u Hu; [destruct Hu|]. cbn in H.
  destruct (hist_of iv v) as [h|e] eqn:Eh; [|discriminate].
  destruct (good_histb ps mv tmin h) eqn:G; [|discriminate].
  destruct Hu as [Hu|Hu]; [subst v; exists h; split; [exact Eh|exact G]|apply IH; assumption].
Qed.

Lemma consistent_sound iv arrays tmin mv : consistent_b iv arrays tmin mv = true ->
  exists rows,
    (forall u, In u (iv_nodes iv) -> exists h, hist_of iv u = Ok h /\ good_histb (possible_statuses iv) mv tmin h = true) /\
    summary iv None = Ok rows /\ same_series rows arrays = true.
Proof.
  unfold consistent_b, consistent. intro H.
  destruct (first_bad_hist iv (possible_statuses iv) mv tmin (iv_nodes iv)) as [u|] eqn:Eb; [discriminate|].
  destruct (summary iv None) as [rows|e] eqn:Es; [|discriminate].
  destruct (first_diff rows arrays) as [t|] eqn:Ed; [discriminate|].
  exists rows. split; [apply first_bad_hist_none; exact Eb|]. split; [reflexivity|].
  unfold same_series. apply forallb_forall. intros t Ht. unfold first_diff in Ed.
  pose proof (find_none _ _ Ed t Ht) as K. cbn in K. apply negb_false_iff in K. exact K.
Qed.

(* ---------------- (iii) the log lemma ---------------- *)
(* strictly sorted lists of rationals: Qeq members are identical; same members => same list *)
Lemma ssorted_eq l : StronglySorted Qlt l -> forall x y, In x l -> In y l -> x == y -> x = y.
Proof.
  induction l as [|a l IH]; intros Hs x y Hx Hy E; [destruct Hx|].
  destruct (StronglySorted_inv Hs) as [Hs' Ha]. rewrite Forall_forall in Ha.
  destruct Hx as [Hx|Hx], Hy as [Hy|Hy].
  - subst. reflexivity.
  - subst x. exfalso. pose proof (Ha y Hy) as K. rewrite E in K. exact (Qlt_irrefl _ K).
  - subst y. exfalso. pose proof (Ha x Hx) as K. rewrite E in K. exact (Qlt_irrefl _ K).
  - apply IH; assumption.
Qed.

Lemma ssorted_unique l : StronglySorted Qlt l -> forall l', StronglySorted Qlt l' ->
  (forall x, In x l <-> In x l') -> l = l'.
Proof.
  induction l as [|a l IH]; intros Hs l' Hs' H.
  - destruct l' as [|b l']; [reflexivity|]. exfalso. apply (proj2 (H b)). left. reflexivity.
  - destruct l' as [|b l']; [exfalso; apply (proj1 (H a)); left; reflexivity|].
    destruct (StronglySorted_inv Hs) as [Hsl Ha]. destruct (StronglySorted_inv Hs') as [Hsl' Hb].
    rewrite Forall_forall in Ha, Hb.
    assert (a = b) as ->.
    { destruct (proj1 (H a) (or_introl eq_refl)) as [E|Ea]; [symmetry; exact E|].
      destruct (proj2 (H b) (or_introl eq_refl)) as [E|Eb]; [exact E|].
      exfalso. pose proof (Ha b Eb) as K1. pose proof (Hb a Ea) as K2. exact (Qlt_irrefl _ (Qlt_trans _ _ _ K1 K2)). }
    f_equal. apply IH; [exact Hsl|exact Hsl'|]. intro x. split; intro Hx.
    + destruct (proj1 (H x) (or_intror Hx)) as [E|K]; [|exact K]. subst x. exfalso. exact (Qlt_irrefl _ (Ha b Hx)).
    + destruct (proj2 (H x) (or_intror Hx)) as [E|K]; [|exact K]. subst x. exfalso. exact (Qlt_irrefl _ (Hb b Hx)).
Qed.

Lemma increasing_sorted : forall log prev, increasing prev log = true -> StronglySorted Qlt (prev :: map ev_t log).
Proof.
  induction log as [|e r IH]; intros prev H; [constructor; constructor|].
  cbn in H. apply andb_true_iff in H. destruct H as [H1 H2]. apply qltb_t in H1.
  specialize (IH (ev_t e) H2). cbn [map]. constructor; [exact IH|].
  destruct (StronglySorted_inv IH) as [_ K]. constructor; [exact H1|].
  rewrite Forall_forall in *. intros x Hx. eapply Qlt_trans; [exact H1|apply K; exact Hx].
Qed.

(* the status map after a list of events *)
Definition state_after (st : node -> N) (evs : list event) : node -> N :=
  fold_left (fun st e => fupdN st (ev_u e) (ev_s e)) evs st.

Definition pe (e : event) : Q * N := (ev_t e, ev_s e).
Definition of_node (u : node) (e : event) : bool := N.eqb (ev_u e) u.

Lemma project_eq tmin init log u :
  project tmin init log u = (tmin, init u) :: map pe (filter (of_node u) log).
Proof. reflexivity. Qed.

Lemma scan_events t u : forall evs st cur, cur = st u -> (forall e, In e evs -> ev_t e <= t) ->
  scan t cur (map pe (filter (of_node u) evs)) = state_after st evs u.
Proof.
  induction evs as [|e r IH]; intros st cur Hc Hle; [exact Hc|].
  cbn [filter]. unfold of_node at 1. destruct (N.eqb (ev_u e) u) eqn:E.
  - cbn [map]. change (scan t cur (pe e :: map pe (filter (of_node u) r))) with (scan t (if le_t t (pe e) then snd (pe e) else cur) (map pe (filter (of_node u) r))).
    unfold le_t, pe at 1 2. cbn [fst snd]. rewrite (proj2 (qleb_t _ _) (Hle e (or_introl eq_refl))).
    cbn [state_after fold_left]. apply IH; [|intros e' He'; apply Hle; right; exact He'].
    unfold fupdN. apply N.eqb_eq in E. rewrite E, N.eqb_refl. reflexivity.
  - cbn [state_after fold_left]. apply IH; [|intros e' He'; apply Hle; right; exact He'].
    unfold fupdN. rewrite N.eqb_sym, E. exact Hc.
Qed.

Lemma project_sorted tmin init u : forall log, increasing tmin log = true -> sortedb (project tmin init log u) = true.
Proof.
  intros log H. pose proof (increasing_sorted log tmin H) as Hs. rewrite project_eq.
  assert (G : forall (l : list event) p s, StronglySorted Qlt (p :: map ev_t l) -> sortedb ((p, s) :: map pe (filter (of_node u) l)) = true).
  { induction l as [|e r IH]; intros p s Hss; [reflexivity|].
    destruct (StronglySorted_inv Hss) as [Hs1 Hp]. cbn [map] in Hs1, Hp.
    cbn [filter]. destruct (of_node u e).
    - cbn [map]. change (sortedb ((p, s) :: pe e :: map pe (filter (of_node u) r))) with (Qleb p (ev_t e) && sortedb (pe e :: map pe (filter (of_node u) r))).
      apply andb_true_iff. split; [apply qleb_t; apply Qlt_le_weak; inversion Hp; assumption|]. unfold pe at 1. apply IH. exact Hs1.
    - apply IH. constructor; [exact (proj1 (StronglySorted_inv Hs1))|]. inversion Hp; assumption. }
  apply G. exact Hs.
Qed.

(* the status of node u at the time of an event = its status after that event *)
Lemma status_after_event tmin init u log : increasing tmin log = true ->
  forall done e rest, log = done ++ e :: rest ->
  status_at (project tmin init log u) (ev_t e) = Ok (state_after init (done ++ [e]) u).
Proof.
  intros Hinc done e rest El.
  pose proof (increasing_sorted log tmin Hinc) as Hs. pose proof (project_sorted tmin init u log Hinc) as Hso.
  rewrite El, map_app in Hs. cbn [map] in Hs.
  (* times before e are smaller, times after are larger *)
  assert (Hbefore : forall x, In x (tmin :: map ev_t done) -> x < ev_t e).
  { clear - Hs. change (tmin :: map ev_t done ++ ev_t e :: map ev_t rest) with ((tmin :: map ev_t done) ++ ev_t e :: map ev_t rest) in Hs.
    induction (tmin :: map ev_t done) as [|a l IH]; intros x Hx; [destruct Hx|].
    cbn [app] in Hs. destruct (StronglySorted_inv Hs) as [Hs' Ha]. rewrite Forall_forall in Ha.
    destruct Hx as [Hx|Hx]; [subst x; apply Ha; apply in_or_app; right; left; reflexivity|apply IH; assumption]. }
  assert (Hafter : forall x, In x (map ev_t rest) -> ev_t e < x).
  { clear - Hs. change (tmin :: map ev_t done ++ ev_t e :: map ev_t rest) with ((tmin :: map ev_t done) ++ ev_t e :: map ev_t rest) in Hs.
    induction (tmin :: map ev_t done) as [|a l IH]; cbn [app] in Hs.
    - destruct (StronglySorted_inv Hs) as [_ Ha]. rewrite Forall_forall in Ha. exact Ha.
    - apply IH. exact (proj1 (StronglySorted_inv Hs)). }
  rewrite project_eq in *. rewrite (status_at_scan (tmin, init u) _ (ev_t e) (init u) Hso).
  2:{ cbn [fst]. apply Qlt_le_weak. apply Hbefore. left. reflexivity. }
  f_equal.
  change (scan (ev_t e) (init u) ((tmin, init u) :: map pe (filter (of_node u) log)))
    with (scan (ev_t e) (if le_t (ev_t e) (tmin, init u) then init u else init u) (map pe (filter (of_node u) log))).
  replace (if le_t (ev_t e) (tmin, init u) then init u else init u) with (init u) by (destruct (le_t (ev_t e) (tmin, init u)); reflexivity).
  rewrite El. replace (done ++ e :: rest) with ((done ++ [e]) ++ rest) by (rewrite <- app_assoc; reflexivity).
  rewrite filter_app, map_app, scan_app.
  rewrite (scan_events (ev_t e) u (done ++ [e]) init (init u) eq_refl).
  2:{ intros e' He'. apply in_app_or in He'. destruct He' as [He'|[He'|[]]]; [|subst; apply Qle_refl].
      apply Qlt_le_weak. apply Hbefore. right. apply in_map. exact He'. }
  apply scan_later. intros x Hx. apply in_map_iff in Hx. destruct Hx as [e' [Ex He']]. apply filter_In in He'. destruct He' as [He' _].
  subst x. unfold le_t, pe. cbn [fst]. apply qleb_f. apply Hafter. apply in_map. exact He'.
Qed.

Lemma status_at_tmin tmin init u log : increasing tmin log = true ->
  status_at (project tmin init log u) tmin = Ok (init u).
Proof.
  intro Hinc. pose proof (project_sorted tmin init u log Hinc) as Hso. rewrite project_eq in *.
  rewrite (status_at_scan (tmin, init u) _ tmin (init u) Hso); [|cbn; apply Qle_refl]. f_equal.
  change (scan tmin (init u) ((tmin, init u) :: map pe (filter (of_node u) log)))
    with (scan tmin (if le_t tmin (tmin, init u) then init u else init u) (map pe (filter (of_node u) log))).
  replace (if le_t tmin (tmin, init u) then init u else init u) with (init u) by (destruct (le_t tmin (tmin, init u)); reflexivity).
  apply scan_later. intros x Hx. apply in_map_iff in Hx. destruct Hx as [e' [Ex He']]. apply filter_In in He'. destruct He' as [He' _].
  subst x. unfold le_t, pe. cbn [fst]. apply qleb_f.
  pose proof (increasing_sorted log tmin Hinc) as Hs. destruct (StronglySorted_inv Hs) as [_ K]. rewrite Forall_forall in K.
  apply K. apply in_map. exact He'.
Qed.

Lemma assoc_map_nodes (f : node -> history) : forall nodes u, In u nodes -> assoc (map (fun v => (v, f v)) nodes) u = Some (f u).
Proof.
  induction nodes as [|v l IH]; intros u Hu; [destruct Hu|]. cbn. destruct (N.eqb v u) eqn:E.
  - apply N.eqb_eq in E. subst. reflexivity.
  - destruct Hu as [Hu|Hu]; [subst; rewrite N.eqb_refl in E; discriminate|apply IH; exact Hu].
Qed.

Lemma log_hist_of nodes ps tmin init log u : In u nodes ->
  hist_of (log_inv nodes ps tmin init log) u = Ok (project tmin init log u).
Proof.
  intro Hu. unfold hist_of, log_inv. cbn [iv_hist]. rewrite (assoc_map_nodes (project tmin init log) nodes u Hu). reflexivity.
Qed.

(* the well-formedness of a log: events concern listed nodes and possible statuses, initial statuses possible *)
Definition log_okb (nodes : list node) (ps : list N) (tmin : Q) (init : node -> N) (log : list event) : bool :=
  increasing tmin log && forallb (fun e => mem (ev_u e) nodes && mem (ev_s e) ps) log && forallb (fun u => mem (init u) ps) nodes
  && negb (match nodes with [] => true | _ => false end).

Lemma memb_In x l : mem x l = true <-> In x l.
Proof.
  unfold mem. rewrite existsb_exists. split.
  - intros [y [Hy He]]. apply N.eqb_eq in He. subst. exact Hy.
  - intros H. exists x. split; [exact H|apply N.eqb_refl].
Qed.

Lemma count_status_eq nodes ps tmin init log t (st : node -> N) s :
  (forall u, In u nodes -> status_at (project tmin init log u) t = Ok (st u)) ->
  forall l, incl l nodes -> count_at (log_inv nodes ps tmin init log) l t s = count_status l st s.
Proof.
  intros H l Hl. unfold count_at, count_status. f_equal. f_equal.
  induction l as [|u l IH]; [reflexivity|]. cbn [filter].
  assert (Hu : In u nodes) by (apply Hl; left; reflexivity).
  unfold status_isb at 1. unfold node_status. rewrite (log_hist_of nodes ps tmin init log u Hu). cbn [rbind]. rewrite (H u Hu).
  rewrite IH; [reflexivity|]. intros x Hx. apply Hl. right. exact Hx.
Qed.

Lemma log_rows_spec nodes ps tmin init log : increasing tmin log = true ->
  forall rest done, log = done ++ rest ->
  log_rows nodes ps (state_after init done) rest =
  map (fun e => (ev_t e, map (count_at (log_inv nodes ps tmin init log) nodes (ev_t e)) ps)) rest.
Proof.
  intro Hinc. induction rest as [|e r IH]; intros done El; [reflexivity|].
  cbn [log_rows map]. f_equal.
  - f_equal. apply map_ext. intro s. symmetry.
    apply (count_status_eq nodes ps tmin init log (ev_t e) (fupdN (state_after init done) (ev_u e) (ev_s e)) s); [|apply incl_refl].
    intros u Hu. rewrite (status_after_event tmin init u log Hinc done e r El). f_equal.
    unfold state_after. rewrite fold_left_app. reflexivity.
  - replace (fupdN (state_after init done) (ev_u e) (ev_s e)) with (state_after init (done ++ [e])).
    2:{ unfold state_after. rewrite fold_left_app. reflexivity. }
    apply IH. rewrite El, <- app_assoc. reflexivity.
Qed.

(* (iii): the summary of the per-node projections of a log is the array of its running counts *)
Lemma log_lemma nodes ps tmin init log : log_okb nodes ps tmin init log = true ->
  summary (log_inv nodes ps tmin init log) None = Ok (log_arrays nodes ps tmin init log).
Proof.
  unfold log_okb. rewrite !andb_true_iff. intros [[[Hinc Hev] Hinit] Hne].
  rewrite forallb_forall in Hev, Hinit.
  set (iv := log_inv nodes ps tmin init log).
  assert (LH : forall u, In u nodes -> hist_of iv u = Ok (project tmin init log u)) by (intros; apply log_hist_of; assumption).
  assert (Hnodes : nodes <> []) by (destruct nodes; [discriminate|discriminate]).
  assert (Hwf : forall u, In u nodes -> exists h, hist_of iv u = Ok h /\ wf_histb ps tmin h = true).
  { intros u Hu. exists (project tmin init log u). split; [apply LH; exact Hu|].
    pose proof (project_sorted tmin init u log Hinc) as Hso. rewrite project_eq in *. unfold wf_histb.
    cbn [fst]. rewrite (proj2 (qeqb_t tmin tmin) (Qeq_refl _)), Hso. cbn [andb forallb snd]. rewrite (Hinit u Hu). cbn [andb].
    apply forallb_forall. intros x Hx. apply in_map_iff in Hx. destruct Hx as [e [Ex He]]. apply filter_In in He. destruct He as [He _].
    subst x. cbn [snd pe]. pose proof (Hev e He) as K. apply andb_true_iff in K. exact (proj2 K). }
  destruct (summary_spec iv ps tmin nodes eq_refl Hnodes Hwf) as [rows [Er [Rne [Rs [R4 [R5 R6]]]]]].
  rewrite summary_all. change (iv_nodes iv) with nodes. rewrite Er. f_equal.
  pose proof (increasing_sorted log tmin Hinc) as Hs.
  (* the times *)
  assert (Et : map fst rows = tmin :: map ev_t log).
  { apply ssorted_unique; [exact Rs|exact Hs|]. intro t. split.
    - intro Ht. destruct (R5 t Ht) as [u [h [x [Hu [Eh [Hx Ex]]]]]].
      rewrite (LH u Hu) in Eh. inversion Eh; subst h. rewrite project_eq in Hx.
      destruct Hx as [Hx|Hx]; [subst x; left; exact Ex|]. apply in_map_iff in Hx. destruct Hx as [e [Ee He]]. apply filter_In in He.
      right. apply in_map_iff. exists e. split; [subst x; exact Ex|exact (proj1 He)].
    - intro Ht.
      assert (exists u h x, In u nodes /\ hist_of iv u = Ok h /\ In x h /\ fst x = t) as [u [h [x [Hu [Eh [Hx Ex]]]]]].
      { destruct Ht as [Ht|Ht].
        - destruct nodes as [|u0 l0]; [contradiction|]. exists u0, (project tmin init log u0), (tmin, init u0).
          split; [left; reflexivity|]. split; [apply LH; left; reflexivity|]. split; [rewrite project_eq; left; reflexivity|exact Ht].
        - apply in_map_iff in Ht. destruct Ht as [e [Ee He]]. pose proof (Hev e He) as K. apply andb_true_iff in K. destruct K as [K _]. apply memb_In in K.
          exists (ev_u e), (project tmin init log (ev_u e)), (pe e). split; [exact K|]. split; [apply LH; exact K|].
          split; [|exact Ee]. rewrite project_eq. right. apply in_map. apply filter_In. split; [exact He|]. unfold of_node. apply N.eqb_refl. }
      destruct (R6 u h x Hu Eh Hx) as [t' [Ht' Et']]. rewrite Ex in Et'.
      assert (In t' (tmin :: map ev_t log)) as Hin'.
      { destruct (R5 t' Ht') as [u' [h' [x' [Hu' [Eh' [Hx' Ex']]]]]].
        rewrite (LH u' Hu') in Eh'. inversion Eh'; subst h'. rewrite project_eq in Hx'.
        destruct Hx' as [Hx'|Hx']; [subst x'; left; exact Ex'|]. apply in_map_iff in Hx'. destruct Hx' as [e [Ee He]]. apply filter_In in He.
        right. apply in_map_iff. exists e. split; [subst x'; exact Ex'|exact (proj1 He)]. }
      assert (In t (tmin :: map ev_t log)) as Hin.
      { destruct (R5 t' Ht') as [_ _]. rewrite <- Ex. rewrite (LH u Hu) in Eh. inversion Eh; subst h. rewrite project_eq in Hx.
        destruct Hx as [Hx|Hx]; [subst x; left; reflexivity|]. apply in_map_iff in Hx. destruct Hx as [e [Ee He]]. apply filter_In in He.
        right. apply in_map_iff. exists e. split; [subst x; reflexivity|exact (proj1 He)]. }
      rewrite <- (ssorted_eq _ Hs t' t Hin' Hin Et'). exact Ht'. }
  (* the rows are determined by their times *)
  assert (Erows : rows = map (fun t => (t, map (count_at iv nodes t) ps)) (map fst rows)).
  { rewrite map_map. rewrite <- (map_id rows) at 1. apply map_ext_in. intros [t cs] Hin. cbn [fst]. f_equal. exact (proj2 (R4 t cs Hin)). }
  rewrite Erows, Et. unfold log_arrays. cbn [map]. f_equal.
  - f_equal. apply map_ext. intro s.
    apply (count_status_eq nodes ps tmin init log tmin init s); [|apply incl_refl].
    intros u Hu. apply status_at_tmin. exact Hinc.
  - rewrite map_map. symmetry. apply (log_rows_spec nodes ps tmin init log Hinc log [] eq_refl).
Qed.

(* ---------------- _transform_to_node_history_ (SIR) ---------------- *)
Lemma assoc_hupd_same {V} (l : list (node * V)) u v : assoc (hupd l u v) u = Some v.
Proof.
  induction l as [|[k x] l IH]; cbn; [rewrite N.eqb_refl; reflexivity|].
  destruct (N.eqb k u) eqn:E; cbn; rewrite E; [reflexivity|apply IH].
Qed.

Lemma assoc_hupd_other {V} (l : list (node * V)) u w v : u <> w -> assoc (hupd l u v) w = assoc l w.
Proof.
  intro Hn. induction l as [|[k x] l IH]; cbn.
  - destruct (N.eqb u w) eqn:E; [apply N.eqb_eq in E; contradiction|reflexivity].
  - destruct (N.eqb k u) eqn:E; cbn.
    + apply N.eqb_eq in E. subst k. destruct (N.eqb u w) eqn:E2; [apply N.eqb_eq in E2; contradiction|reflexivity].
    + destruct (N.eqb k w); [reflexivity|exact IH].
Qed.

Lemma assoc_notin {V} (l : list (node * V)) u : ~ In u (map fst l) -> assoc l u = None.
Proof.
  induction l as [|[k x] l IH]; intro H; [reflexivity|]. cbn. destruct (N.eqb k u) eqn:E.
  - apply N.eqb_eq in E. subst. exfalso. apply H. left. reflexivity.
  - apply IH. intro K. apply H. right. exact K.
Qed.

(* one pass (infection times with status I, or recovery times with status R) *)
Lemma tr_fold tmin st : forall l acc u, NoDup (map fst l) ->
  assoc (fold_left (tr_step tmin st) l acc) u =
  match assoc l u with
  | Some t => Some ((if Qeqb t tmin then [] else hget tmin acc u) ++ [(t, st)])
  | None => assoc acc u
  end.
Proof.
  induction l as [|[k t] r IH]; intros acc u Hn; [reflexivity|].
  cbn [map fst] in Hn. inversion Hn as [|? ? Hk Hr]; subst.
  cbn [fold_left]. rewrite (IH _ u Hr). cbn [assoc]. unfold tr_step at 1 2. cbn [fst snd].
  destruct (N.eqb k u) eqn:E.
  - apply N.eqb_eq in E. subst k. rewrite (assoc_notin r u Hk). apply assoc_hupd_same.
  - assert (k <> u) as Hku by (intro K; subst; rewrite N.eqb_refl in E; discriminate).
    destruct (assoc r u) as [t'|].
    + unfold hget. rewrite (assoc_hupd_other acc k u _ Hku). reflexivity.
    + apply assoc_hupd_other. exact Hku.
Qed.

(* the history the code builds for node u from the two tables, including the reset
   of everything recorded so far when a time equals tmin *)
Definition sir_history (tmin : Q) (ti tr : option Q) : option history :=
  let h1 := match ti with
            | Some t => Some ((if Qeqb t tmin then [] else [(tmin, stS)]) ++ [(t, stI)])
            | None => None
            end in
  match tr with
  | Some t => Some ((if Qeqb t tmin then [] else match h1 with Some h => h | None => [(tmin, stS)] end) ++ [(t, stR)])
  | None => h1
  end.

Lemma transform_SIR_spec tmin inf rec u : NoDup (map fst inf) -> NoDup (map fst rec) ->
  assoc (transform_SIR tmin inf rec) u = sir_history tmin (assoc inf u) (assoc rec u).
Proof.
  intros Hi Hr. unfold transform_SIR, sir_history. rewrite (tr_fold tmin stR rec _ u Hr).
  unfold hget. rewrite (tr_fold tmin stI inf [] u Hi). cbn [assoc].
  destruct (assoc rec u) as [t|]; destruct (assoc inf u) as [t'|]; reflexivity.
Qed.

(* with infection no earlier than tmin and recovery no earlier than infection, every
   history built is legal for SIR: starts at tmin, ordered, S->I->R *)
Lemma sir_history_good tmin ti tr h :
  (forall t, ti = Some t -> tmin <= t) ->
  (forall t, tr = Some t -> exists t', ti = Some t' /\ t' <= t) ->
  sir_history tmin ti tr = Some h ->
  good_histb [stS; stI; stR] [(stS, stI); (stI, stR)] tmin h = true.
Proof.
  intros Hi Hr H. unfold sir_history in H.
  assert (Rf : Qeqb tmin tmin = true) by (apply qeqb_t; reflexivity).
  destruct tr as [t|].
  - destruct (Hr t eq_refl) as [t' [Et' Hle]]. subst ti. specialize (Hi t' eq_refl).
    inversion H; subst h. clear H.
    destruct (Qeqb t tmin) eqn:E1.
    + unfold good_histb, wf_histb. cbn. rewrite E1. reflexivity.
    + destruct (Qeqb t' tmin) eqn:E2.
      * unfold good_histb, wf_histb. cbn. rewrite E2, (proj2 (qleb_t t' t) Hle). reflexivity.
      * unfold good_histb, wf_histb. cbn. rewrite Rf, (proj2 (qleb_t tmin t') Hi), (proj2 (qleb_t t' t) Hle). reflexivity.
  - destruct ti as [t'|]; [|discriminate]. specialize (Hi t' eq_refl). inversion H; subst h. clear H.
    destruct (Qeqb t' tmin) eqn:E2.
    + unfold good_histb, wf_histb. cbn. rewrite E2. reflexivity.
    + unfold good_histb, wf_histb. cbn. rewrite Rf, (proj2 (qleb_t tmin t') Hi). reflexivity.
Qed.

(* ---------------- _transform_to_node_history_ (SIS) ---------------- *)
Definition rts_of (rec : list (node * list Q)) (u : node) : list Q :=
  match assoc rec u with Some r => r | None => [] end.

Definition sis_step (tmin : Q) (rec : list (node * list Q)) (l : list (node * history)) (nt : node * list Q) :=
  match snd nt with
  | [] => l
  | its => hupd l (fst nt) (sis_hist tmin its (rts_of rec (fst nt)) (hget tmin l (fst nt)))
  end.

Lemma transform_SIS_fold tmin inf rec : transform_SIS tmin inf rec = fold_left (sis_step tmin rec) inf [].
Proof. reflexivity. Qed.

Lemma sis_fold tmin rec : forall l acc u, NoDup (map fst l) ->
  assoc (fold_left (sis_step tmin rec) l acc) u =
  match assoc l u with
  | Some (t :: its) => Some (sis_hist tmin (t :: its) (rts_of rec u) (hget tmin acc u))
  | _ => assoc acc u
  end.
Proof.
  induction l as [|[k its] r IH]; intros acc u Hn; [reflexivity|].
  cbn [map fst] in Hn. inversion Hn as [|? ? Hk Hr]; subst.
  cbn [fold_left]. rewrite (IH _ u Hr). cbn [assoc]. unfold sis_step at 1 2 3. cbn [fst snd].
  destruct (N.eqb k u) eqn:E.
  - apply N.eqb_eq in E. subst k. rewrite (assoc_notin r u Hk). destruct its as [|t its]; [reflexivity|]. apply assoc_hupd_same.
  - assert (k <> u) as Hku by (intro K; subst; rewrite N.eqb_refl in E; discriminate).
    destruct its as [|t its]; [reflexivity|].
    unfold hget. rewrite (assoc_hupd_other acc k u _ Hku). reflexivity.
Qed.

(* the history of node u is a function of its own infection and recovery times *)
Lemma transform_SIS_spec tmin inf rec u : NoDup (map fst inf) ->
  assoc (transform_SIS tmin inf rec) u =
  match assoc inf u with
  | Some (t :: its) => Some (sis_hist tmin (t :: its) (rts_of rec u) [(tmin, stS)])
  | _ => None
  end.
Proof. intro H. rewrite transform_SIS_fold, (sis_fold tmin rec inf [] u H). reflexivity. Qed.

(* appending a legal move at a later time keeps a history legal *)
Definition last_entry (h : history) : Q * N := last h (0, 0%N).

Lemma good_snoc ps mv tmin : forall h t s, good_histb ps mv tmin h = true ->
  fst (last_entry h) <= t -> move_ok mv (snd (last_entry h)) s = true -> mem s ps = true ->
  good_histb ps mv tmin (h ++ [(t, s)]) = true /\ last_entry (h ++ [(t, s)]) = (t, s).
Proof.
  intros h t s G Hle Hmv Hs. split; [|unfold last_entry; apply last_last].
  destruct h as [|e0 r]; [discriminate|]. unfold good_histb, wf_histb in *. cbn [app].
  apply andb_true_iff in G. destruct G as [G Gl]. apply andb_true_iff in G. destruct G as [G Gp].
  apply andb_true_iff in G. destruct G as [G0 Gs]. rewrite G0. cbn [andb].
  assert (A : sortedb ((e0 :: r) ++ [(t, s)]) = true /\ legalb mv ((e0 :: r) ++ [(t, s)]) = true).
  { clear G0 Gp. revert e0 Gs Gl Hle Hmv. induction r as [|b r IH]; intros e0 Gs Gl Hle Hmv.
    - unfold last_entry in *. cbn in Hle, Hmv. cbn. rewrite (proj2 (qleb_t _ _) Hle), Hmv. split; reflexivity.
    - change (sortedb (e0 :: b :: r)) with (Qleb (fst e0) (fst b) && sortedb (b :: r)) in Gs.
      change (legalb mv (e0 :: b :: r)) with (move_ok mv (snd e0) (snd b) && legalb mv (b :: r)) in Gl.
      apply andb_true_iff in Gs. destruct Gs as [Gs1 Gs2]. apply andb_true_iff in Gl. destruct Gl as [Gl1 Gl2].
      assert (L : last_entry (e0 :: b :: r) = last_entry (b :: r)) by reflexivity. rewrite L in Hle, Hmv.
      destruct (IH b Gs2 Gl2 Hle Hmv) as [I1 I2].
      change (sortedb ((e0 :: b :: r) ++ [(t, s)])) with (Qleb (fst e0) (fst b) && sortedb ((b :: r) ++ [(t, s)])).
      change (legalb mv ((e0 :: b :: r) ++ [(t, s)])) with (move_ok mv (snd e0) (snd b) && legalb mv ((b :: r) ++ [(t, s)])).
      rewrite Gs1, Gl1, I1, I2. split; reflexivity. }
  destruct A as [A1 A2]. change (e0 :: r ++ [(t, s)]) with ((e0 :: r) ++ [(t, s)]). rewrite A1, A2.
  rewrite forallb_app. cbn [andb]. rewrite andb_true_r. apply andb_true_iff. split; [exact Gp|]. cbn. rewrite Hs. reflexivity.
Qed.

(* alternating, time-ordered infection / recovery times: i1 <= r1 <= i2 <= r2 ...,
   with at most the last recovery missing *)
Fixpoint alternating (prev : Q) (its rts : list Q) : bool :=
  match its with
  | [] => match rts with [] => true | _ => false end
  | t :: its' => Qleb prev t &&
                 match rts with
                 | [] => match its' with [] => true | _ => false end
                 | r :: rts' => Qleb t r && alternating r its' rts'
                 end
  end.

Definition sis_moves : list (N * N) := [(stS, stI); (stI, stS)].

Lemma sis_hist_good tmin : forall its rts h,
  good_histb [stS; stI] sis_moves tmin h = true -> snd (last_entry h) = stS ->
  alternating (fst (last_entry h)) its rts = true ->
  good_histb [stS; stI] sis_moves tmin (sis_hist tmin its rts h) = true.
Proof.
  induction its as [|t its IH]; intros rts h G Ls A; [exact G|].
  cbn [alternating] in A. apply andb_true_iff in A. destruct A as [A1 A2]. apply qleb_t in A1.
  cbn [sis_hist].
  assert (G1 : good_histb [stS; stI] sis_moves tmin ((if Qeqb t tmin then [] else h) ++ [(t, stI)]) = true /\
               last_entry ((if Qeqb t tmin then [] else h) ++ [(t, stI)]) = (t, stI)).
  { destruct (Qeqb t tmin) eqn:E.
    - split; [|reflexivity]. unfold good_histb, wf_histb. cbn. rewrite E. reflexivity.
    - apply good_snoc; [exact G|exact A1|rewrite Ls; reflexivity|reflexivity]. }
  destruct G1 as [G1 L1].
  destruct rts as [|r rts].
  - destruct its as [|t2 its]; [exact G1|discriminate].
  - apply andb_true_iff in A2. destruct A2 as [A2 A3]. apply qleb_t in A2.
    destruct (good_snoc [stS; stI] sis_moves tmin _ r stS G1) as [G2 L2].
    + rewrite L1. exact A2.
    + rewrite L1. reflexivity.
    + reflexivity.
    + apply IH; [exact G2|rewrite L2; reflexivity|rewrite L2; exact A3].
Qed.

(* every history _transform_to_node_history_ builds for SIS is legal when the node's
   infection and recovery times alternate from tmin on *)
Lemma transform_SIS_good tmin inf rec u h : NoDup (map fst inf) ->
  (forall its, assoc inf u = Some its -> alternating tmin its (rts_of rec u) = true) ->
  assoc (transform_SIS tmin inf rec) u = Some h ->
  good_histb [stS; stI] sis_moves tmin h = true.
Proof.
  intros Hn Ha H. rewrite (transform_SIS_spec tmin inf rec u Hn) in H.
  destruct (assoc inf u) as [[|t its]|] eqn:E; try discriminate.
  assert (Hh : h = sis_hist tmin (t :: its) (rts_of rec u) [(tmin, stS)]) by congruence. rewrite Hh. clear H Hh.
  apply (sis_hist_good tmin (t :: its) (rts_of rec u) [(tmin, stS)]).
  - unfold good_histb, wf_histb. cbn. rewrite (proj2 (qeqb_t tmin tmin) (Qeq_refl _)). reflexivity.
  - reflexivity.
  - exact (Ha (t :: its) eq_refl).
Qed.

(* ---------------- what acceptance by the checker means ---------------- *)
Lemma zlist_eqb_eq : forall a b, zlist_eqb a b = true -> a = b.
Proof.
  induction a as [|x a IH]; intros [|y b] H; cbn in H; try discriminate; [reflexivity|].
  apply andb_true_iff in H. destruct H as [H1 H2]. apply Z.eqb_eq in H1. subst. f_equal. apply IH. exact H2.
Qed.

Lemma step_at_later t : forall rows cur, (forall r, In r rows -> t < fst r) -> step_at rows t cur = cur.
Proof.
  induction rows as [|[t' cs] r IH]; intros cur H; [reflexivity|]. cbn [step_at].
  assert (Qleb t' t = false) as -> by (apply qleb_f; apply (H (t', cs)); left; reflexivity).
  apply IH. intros x Hx. apply H. right. exact Hx.
Qed.

Lemma step_at_row : forall rows t cs cur, StronglySorted Qlt (map fst rows) -> In (t, cs) rows ->
  step_at rows t cur = Some cs.
Proof.
  induction rows as [|[t' cs'] r IH]; intros t cs cur Hs Hin; [destruct Hin|].
  cbn [map fst] in Hs. destruct (StronglySorted_inv Hs) as [Hs' Hh]. rewrite Forall_forall in Hh.
  cbn [step_at]. destruct Hin as [Hin|Hin].
  - inversion Hin; subst. rewrite (proj2 (qleb_t t t) (Qle_refl t)). apply step_at_later.
    intros x Hx. apply Hh. apply in_map. exact Hx.
  - assert (t' < t) as Hlt by (apply Hh; apply in_map_iff; exists (t, cs); split; [reflexivity|exact Hin]).
    rewrite (proj2 (qleb_t t' t) (Qlt_le_weak _ _ Hlt)). apply IH; assumption.
Qed.

(* acceptance: the histories are legal and, at every change time, the returned time
   series (read as a step function) gives the number of nodes by node_status *)
Lemma consistent_meaning iv arrays tmin mv ps : possible_statuses iv = ps -> consistent_b iv arrays tmin mv = true ->
  (forall u, In u (iv_nodes iv) -> exists h, hist_of iv u = Ok h /\ good_histb ps mv tmin h = true) /\
  exists rows, summary iv None = Ok rows /\
    (forall u h x, In u (iv_nodes iv) -> hist_of iv u = Ok h -> In x h -> exists t, In t (map fst rows) /\ t == fst x) /\
    forall t, In t (map fst rows) -> step_at arrays t None = Some (map (count_at iv (iv_nodes iv) t) ps).
Proof.
  intros Hps H. destruct (consistent_sound iv arrays tmin mv H) as [rows [Hg [Es Ss]]]. rewrite Hps in Hg.
  split; [exact Hg|]. exists rows. split; [exact Es|].
  assert (Hne : iv_nodes iv <> []).
  { intro E. rewrite summary_all, E in Es. unfold summary in Es. cbn in Es. discriminate. }
  assert (Hwf : forall u, In u (iv_nodes iv) -> exists h, hist_of iv u = Ok h /\ wf_histb ps tmin h = true).
  { intros u Hu. destruct (Hg u Hu) as [h [Eh G]]. exists h. split; [exact Eh|]. unfold good_histb in G. apply andb_true_iff in G. exact (proj1 G). }
  destruct (summary_spec iv ps tmin (iv_nodes iv) Hps Hne Hwf) as [rows' [Er [_ [Rs [R4 [_ R6]]]]]].
  rewrite <- summary_all, Es in Er. inversion Er; subst rows'. clear Er.
  split; [exact R6|]. intros t Ht. apply in_map_iff in Ht. destruct Ht as [[t' cs] [Et Hin]]. cbn in Et. subst t'.
  unfold same_series in Ss. rewrite forallb_forall in Ss.
  assert (In t (map fst rows ++ map fst arrays)) as Hin' by (apply in_or_app; left; apply in_map_iff; exists (t, cs); split; [reflexivity|exact Hin]).
  specialize (Ss t Hin'). rewrite (step_at_row rows t cs None Rs Hin) in Ss.
  destruct (step_at arrays t None) as [cs'|]; [|discriminate]. cbn in Ss. apply zlist_eqb_eq in Ss. subst cs'.
  f_equal. exact (proj2 (R4 t cs Hin)).
Qed.

(* ---------------- the default possible statuses ---------------- *)
Lemma dedupN_In l : forall seen s, In s (dedupN l seen) <-> In s l /\ ~ In s seen.
Proof.
  induction l as [|a l IH]; intros seen s; cbn; [tauto|].
  destruct (mem a seen) eqn:Hm.
  - apply memb_In in Hm. rewrite IH. split.
    + intros [H1 H2]. split; [right; exact H1|exact H2].
    + intros [[H1|H1] H2]; [subst; contradiction|split; assumption].
  - assert (~ In a seen) as Hn by (intro K; apply memb_In in K; rewrite K in Hm; discriminate).
    cbn. rewrite IH. cbn. split.
    + intros [H|[H1 H2]]; [subst; split; [left; reflexivity|exact Hn]|].
      split; [right; exact H1|]. intro H3. apply H2. right. exact H3.
    + intros [[H1|H1] H2]; [left; exact H1|].
      destruct (N.eq_dec a s) as [E|E]; [left; exact E|].
      right. split; [exact H1|]. intros [H3|H3]; [exact (E H3)|exact (H2 H3)].
Qed.

Lemma dedupN_NoDup l : forall seen, NoDup (dedupN l seen).
Proof.
  induction l as [|a l IH]; intros seen; cbn; [constructor|].
  destruct (mem a seen); [apply IH|].
  constructor; [|apply IH]. rewrite dedupN_In. intros [_ H]. apply H. left. reflexivity.
Qed.

(* possible_statuses=None: each status that occurs in a recorded history, once; the
   order is not part of the statement *)
Lemma possible_statuses_default iv : iv_ps iv = None ->
  NoDup (possible_statuses iv) /\
  forall s, In s (possible_statuses iv) <-> exists u h e, In (u, h) (iv_hist iv) /\ In e h /\ snd e = s.
Proof.
  intro H. unfold possible_statuses, statuses_in. rewrite H. split; [apply dedupN_NoDup|].
  intro s. rewrite dedupN_In, in_flat_map. split.
  - intros [[[u h] [Hin Hs]] _]. cbn in Hs. apply in_map_iff in Hs. destruct Hs as [e [Ee He]]. exists u, h, e. auto.
  - intros [u [h [e [Hin [He Es]]]]]. split; [|intros []]. exists (u, h). split; [exact Hin|]. cbn. apply in_map_iff. exists e. auto.
Qed.

(* each entry of a row belongs to one status: nothing depends on the order of the statuses *)
Lemma summary_entry iv ps tmin l rows : possible_statuses iv = ps -> l <> [] ->
  (forall u, In u l -> exists h, hist_of iv u = Ok h /\ wf_histb ps tmin h = true) ->
  summary iv (Some l) = Ok rows ->
  forall t cs i s, In (t, cs) rows -> nth_error ps i = Some s -> nth_error cs i = Some (count_at iv l t s).
Proof.
  intros Hps Hl H Er t cs i s Hin Hi.
  destruct (summary_spec iv ps tmin l Hps Hl H) as [rows' [Er' [_ [_ [R4 _]]]]].
  rewrite Er in Er'. inversion Er'; subst rows'. rewrite (proj2 (R4 t cs Hin)). apply map_nth_error. exact Hi.
Qed.

(* ---------------- the objects the simulators build vs. the object of a log ---------------- *)
(* summary only looks at hist_of of the listed nodes *)
Lemma all_entries_ext iv iv' ps : forall l, (forall u, In u l -> hist_of iv u = hist_of iv' u) ->
  all_entries iv ps l = all_entries iv' ps l.
Proof.
  induction l as [|u l IH]; intro H; [reflexivity|]. cbn. rewrite (H u (or_introl eq_refl)), IH; [reflexivity|].
  intros v Hv. apply H. right. exact Hv.
Qed.

Lemma summary_ext iv iv' : iv_nodes iv = iv_nodes iv' -> possible_statuses iv = possible_statuses iv' ->
  (forall u, In u (iv_nodes iv) -> hist_of iv u = hist_of iv' u) ->
  summary iv None = summary iv' None.
Proof.
  intros Hn Hp Hh. unfold summary. rewrite <- Hp, <- Hn. cbn zeta.
  rewrite (all_entries_ext iv iv' (possible_statuses iv) (iv_nodes iv) Hh). reflexivity.
Qed.

(* the events of one node, as history entries *)
Definition events_of_node (log : list event) (u : node) : history := map pe (filter (of_node u) log).

(* SIR: how the tables infection_times / recovery_times handed to
   _transform_to_node_history_ relate to the initial status and the events of a node:
   initially infected (recovered) nodes carry the infection (recovery) time tmin *)
Definition sir_tables_ok (tmin : Q) (s0 : N) (evs : history) (ti tr : option Q) : Prop :=
  (s0 = stS /\ evs = [] /\ ti = None /\ tr = None) \/
  (s0 = stS /\ exists a, evs = [(a, stI)] /\ ti = Some a /\ tr = None) \/
  (s0 = stS /\ exists a b, evs = [(a, stI); (b, stR)] /\ ti = Some a /\ tr = Some b) \/
  (s0 = stI /\ evs = [] /\ ti = Some tmin /\ tr = None) \/
  (s0 = stI /\ exists b, evs = [(b, stR)] /\ ti = Some tmin /\ tr = Some b) \/
  (s0 = stR /\ evs = [] /\ ti = None /\ tr = Some tmin).

Lemma events_after tmin log u : increasing tmin log = true ->
  forall x, In x (events_of_node log u) -> Qeqb (fst x) tmin = false.
Proof.
  intros Hinc x Hx. unfold events_of_node in Hx. apply in_map_iff in Hx. destruct Hx as [e [Ex He]]. apply filter_In in He.
  pose proof (increasing_sorted log tmin Hinc) as Hs. destruct (StronglySorted_inv Hs) as [_ K]. rewrite Forall_forall in K.
  assert (tmin < ev_t e) as Hlt by (apply K; apply in_map; exact (proj1 He)).
  subst x. cbn. apply qeqb_f. intro E. rewrite E in Hlt. exact (Qlt_irrefl _ Hlt).
Qed.

Lemma investigation_SIR_hist nodes tmin init log inf rec u : increasing tmin log = true ->
  NoDup (map fst inf) -> NoDup (map fst rec) ->
  sir_tables_ok tmin (init u) (events_of_node log u) (assoc inf u) (assoc rec u) ->
  hist_of (investigation_SIR nodes tmin inf rec) u = Ok (project tmin init log u).
Proof.
  intros Hinc Hi Hr Hok. unfold hist_of, investigation_SIR. cbn [iv_hist iv_default].
  rewrite (transform_SIR_spec tmin inf rec u Hi Hr), project_eq. fold (events_of_node log u).
  pose proof (events_after tmin log u Hinc) as Haft.
  assert (Rf : Qeqb tmin tmin = true) by (apply qeqb_t; reflexivity).
  destruct Hok as [[E0 [Ee [Ei Er]]]|[[E0 [a [Ee [Ei Er]]]]|[[E0 [a [b [Ee [Ei Er]]]]]|[[E0 [Ee [Ei Er]]]|[[E0 [b [Ee [Ei Er]]]]|[E0 [Ee [Ei Er]]]]]]]];
    rewrite E0, Ee, Ei, Er; rewrite Ee in Haft; unfold sir_history.
  - reflexivity.
  - pose proof (Haft (a, stI) (or_introl eq_refl)) as Ka. cbn [fst] in Ka. rewrite Ka. reflexivity.
  - pose proof (Haft (a, stI) (or_introl eq_refl)) as Ka. pose proof (Haft (b, stR) (or_intror (or_introl eq_refl))) as Kb.
    cbn [fst] in Ka, Kb. rewrite Ka, Kb. reflexivity.
  - rewrite Rf. reflexivity.
  - pose proof (Haft (b, stR) (or_introl eq_refl)) as Kb. cbn [fst] in Kb. rewrite Rf, Kb. reflexivity.
  - rewrite Rf. reflexivity.
Qed.

(* hence the summary of what the SIR simulators construct is the array of the log *)
Lemma investigation_SIR_summary nodes tmin init log inf rec :
  log_okb nodes [stS; stI; stR] tmin init log = true ->
  NoDup (map fst inf) -> NoDup (map fst rec) ->
  (forall u, In u nodes -> sir_tables_ok tmin (init u) (events_of_node log u) (assoc inf u) (assoc rec u)) ->
  (forall u, In u nodes -> hist_of (investigation_SIR nodes tmin inf rec) u = Ok (project tmin init log u)) /\
  summary (investigation_SIR nodes tmin inf rec) None = Ok (log_arrays nodes [stS; stI; stR] tmin init log).
Proof.
  intros Hok Hi Hr Ht.
  assert (Hinc : increasing tmin log = true).
  { unfold log_okb in Hok. rewrite !andb_true_iff in Hok. tauto. }
  assert (Hh : forall u, In u nodes -> hist_of (investigation_SIR nodes tmin inf rec) u = Ok (project tmin init log u)).
  { intros u Hu. apply investigation_SIR_hist; try assumption. apply Ht. exact Hu. }
  split; [exact Hh|]. rewrite <- (log_lemma nodes [stS; stI; stR] tmin init log Hok).
  apply summary_ext; [reflexivity|reflexivity|]. intros u Hu. cbn [iv_nodes investigation_SIR] in Hu.
  rewrite (Hh u Hu). symmetry. apply log_hist_of. exact Hu.
Qed.

(* SIS: the entries sis_hist appends for infection times its and recovery times rts *)
Fixpoint interleave (its rts : list Q) : history :=
  match its with
  | [] => []
  | t :: its' => match rts with
                 | [] => (t, stI) :: interleave its' []
                 | r :: rts' => (t, stI) :: (r, stS) :: interleave its' rts'
                 end
  end.

Lemma sis_hist_app tmin : forall its rts h, (forall t, In t its -> Qeqb t tmin = false) ->
  sis_hist tmin its rts h = h ++ interleave its rts.
Proof.
  induction its as [|t its IH]; intros rts h H; [cbn; rewrite app_nil_r; reflexivity|].
  cbn [sis_hist interleave]. rewrite (H t (or_introl eq_refl)).
  assert (H' : forall x, In x its -> Qeqb x tmin = false) by (intros x Hx; apply H; right; exact Hx).
  destruct rts as [|r rts].
  - rewrite (IH [] _ H'), <- app_assoc. reflexivity.
  - rewrite (IH rts _ H'), <- !app_assoc. reflexivity.
Qed.

(* a node that starts susceptible has infection times its (all after tmin); a node that
   starts infected has the infection time tmin in front *)
Definition sis_tables_ok (tmin : Q) (s0 : N) (evs : history) (its : option (list Q)) (rts : list Q) : Prop :=
  (s0 = stS /\ evs = [] /\ (its = None \/ its = Some [])) \/
  (s0 = stS /\ exists l, its = Some l /\ l <> [] /\ evs = interleave l rts) \/
  (s0 = stI /\ exists l, its = Some (tmin :: l) /\ (tmin, stI) :: evs = interleave (tmin :: l) rts).

Lemma interleave_times its rts : forall t, In t its -> exists x, In x (interleave its rts) /\ fst x = t.
Proof.
  revert rts. induction its as [|a its IH]; intros rts t Ht; [destruct Ht|].
  destruct rts as [|r rts]; cbn [interleave]; (destruct Ht as [Ht|Ht]; [subst; eexists; split; [left; reflexivity|reflexivity]|]).
  - destruct (IH [] t Ht) as [x [Hx Ex]]. exists x. split; [right; exact Hx|exact Ex].
  - destruct (IH rts t Ht) as [x [Hx Ex]]. exists x. split; [right; right; exact Hx|exact Ex].
Qed.

Lemma investigation_SIS_hist nodes tmin init log inf rec u : increasing tmin log = true ->
  NoDup (map fst inf) ->
  sis_tables_ok tmin (init u) (events_of_node log u) (assoc inf u) (rts_of rec u) ->
  hist_of (investigation_SIS nodes tmin inf rec) u = Ok (project tmin init log u).
Proof.
  intros Hinc Hi Hok. unfold hist_of, investigation_SIS. cbn [iv_hist iv_default].
  rewrite (transform_SIS_spec tmin inf rec u Hi), project_eq. fold (events_of_node log u).
  pose proof (events_after tmin log u Hinc) as Haft.
  destruct Hok as [[E0 [Ee Ei]]|[[E0 [l [Ei [Hl Ee]]]]|[E0 [l [Ei Ee]]]]]; rewrite E0.
  - rewrite Ee. destruct Ei as [Ei|Ei]; rewrite Ei; reflexivity.
  - rewrite Ei. destruct l as [|t l]; [contradiction|]. rewrite sis_hist_app.
    + rewrite Ee. reflexivity.
    + intros x Hx. destruct (interleave_times (t :: l) (rts_of rec u) x Hx) as [y [Hy Ey]]. rewrite <- Ee in Hy.
      rewrite <- Ey. apply Haft. exact Hy.
  - rewrite Ei. cbn [sis_hist]. rewrite (proj2 (qeqb_t tmin tmin) (Qeq_refl _)). cbn [app].
    assert (Hl : forall x, In x l -> Qeqb x tmin = false).
    { intros x Hx. destruct (interleave_times (tmin :: l) (rts_of rec u) x (or_intror Hx)) as [y [Hy Ey]].
      rewrite <- Ee in Hy. destruct Hy as [Hy|Hy].
      - (* x would be the initial entry itself only if x = tmin is listed again: then it is an event time, impossible *)
        subst y. cbn in Ey. subst x.
        exfalso. clear - Ee Hx Haft.
        cbn [interleave] in Ee. destruct (rts_of rec u) as [|r rts].
        + inversion Ee as [E1]. destruct (interleave_times l [] tmin Hx) as [y [Hy Ey]]. rewrite <- E1 in Hy.
          pose proof (Haft y Hy) as K. rewrite Ey in K. rewrite (proj2 (qeqb_t tmin tmin) (Qeq_refl _)) in K. discriminate.
        + inversion Ee as [E1]. destruct (interleave_times l rts tmin Hx) as [y [Hy Ey]].
          assert (In y (events_of_node log u)) as Hy' by (rewrite E1; right; exact Hy).
          pose proof (Haft y Hy') as K. rewrite Ey in K. rewrite (proj2 (qeqb_t tmin tmin) (Qeq_refl _)) in K. discriminate.
      - rewrite <- Ey. apply Haft. exact Hy. }
    cbn [interleave] in Ee. destruct (rts_of rec u) as [|r rts].
    + inversion Ee as [E1]. rewrite (sis_hist_app tmin l [] _ Hl), E1. reflexivity.
    + inversion Ee as [E1]. rewrite (sis_hist_app tmin l rts _ Hl), E1. reflexivity.
Qed.

Lemma investigation_SIS_summary nodes tmin init log inf rec :
  log_okb nodes [stS; stI] tmin init log = true -> NoDup (map fst inf) ->
  (forall u, In u nodes -> sis_tables_ok tmin (init u) (events_of_node log u) (assoc inf u) (rts_of rec u)) ->
  (forall u, In u nodes -> hist_of (investigation_SIS nodes tmin inf rec) u = Ok (project tmin init log u)) /\
  summary (investigation_SIS nodes tmin inf rec) None = Ok (log_arrays nodes [stS; stI] tmin init log).
Proof.
  intros Hok Hi Ht.
  assert (Hinc : increasing tmin log = true).
  { unfold log_okb in Hok. rewrite !andb_true_iff in Hok. tauto. }
  assert (Hh : forall u, In u nodes -> hist_of (investigation_SIS nodes tmin inf rec) u = Ok (project tmin init log u)).
  { intros u Hu. apply investigation_SIS_hist; try assumption. apply Ht. exact Hu. }
  split; [exact Hh|]. rewrite <- (log_lemma nodes [stS; stI] tmin init log Hok).
  apply summary_ext; [reflexivity|reflexivity|]. intros u Hu. cbn [iv_nodes investigation_SIS] in Hu.
  rewrite (Hh u Hu). symmetry. apply log_hist_of. exact Hu.
Qed.
