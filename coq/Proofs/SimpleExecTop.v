(* Gillespie_simple_contagion, whole program, EVERY draw script:
   [simple_exec_ok]     a returning run = set-up + [srun] + stop rule + finish, with the calls it logged;
   [simple_exec_err]    the only failures: script exhausted, fuel, or (full data only) the
                        Simulation_Investigation constructor when return_statuses misses a status;
   [simple_exec_never_crashes]  none at all in plain mode, or when return_statuses covers;
   [simple_exec_output] the returned rows / histories / transmissions are projections of ONE
                        chronological log of legal specification events. *)
From EoNV Require Import Prelude Samp Graph ListDict ListDictP Gillespie KldP GillespieInv SampP Simple SimpleP SimpleExecS SimpleExec SimpleExecLog.
From Coq Require Import Permutation Lqa.

Section Top.
Variable g : graph.
Hypothesis Hg : wfg2 g.
Variable ic : node -> N.
Variable rstat : list N.
Variable tmin : Q.
Variable tmax : xtime.
Variable full : bool.

Definition row0 : row := (tmin, census g rstat ic).
Definition start (sp inn : list slot) : sst := mkS ic sp inn [row0] [] [].

Theorem simple_exec_ok : forall sortable spont induced fuel ds out tr,
  Forall (sp_tr_ok g) spont -> Forall (in_tr_ok g) induced ->
  exec (simple g sortable spont induced ic rstat tmin tmax full fuel) ds [] = (Ok out, tr) ->
  exists sp inn l1 l2 t' s',
    SInv g (start sp inn) /\ RInv g rstat (start sp inn) /\
    map sl_tr sp = sort_trans sortable spont /\ map sl_tr inn = sort_trans sortable induced /\
    tr = l1 ++ l2 /\ srun g rstat tmax full tmin (start sp inn) l1 t' s' /\
    stop tmax t' s' l2 /\ finish g ic rstat tmin full s' = Ok out.
Proof.
  intros sortable spont induced fuel ds out tr Hsp Hin H.
  destruct (simple_setup_inv g Hg sortable spont induced ic rstat tmin tmax full fuel Hsp Hin)
    as [sp [inn [Eq [HI [HR [E1 [E2 _]]]]]]].
  rewrite Eq in H. apply exec_reacht in H. destruct H as [l [Et Hr]]. cbn [rev app] in Et. subst l.
  destruct (loop_reacht g Hg ic rstat tmin tmax full fuel tmin _ tr out HI Hr) as [l1 [l2 [t' [s' [El [Hrun [Hstop Hfin]]]]]]].
  exists sp, inn, l1, l2, t', s'. repeat (split; [assumption|]). assumption.
Qed.

(* the constructor of the full-data object *)
Lemma si_constructor_cases : forall h, si_constructor rstat h = Ok tt \/ si_constructor rstat h = Err KeyErr \/ si_constructor rstat h = Err IndexErr.
Proof.
  intro h. unfold si_constructor.
  match goal with |- context [if ?b then _ else _] => destruct b end; [right; left; reflexivity|].
  match goal with |- context [match ?k with [] => _ | _ :: _ => _ end] => destruct k end;
    [right; right; reflexivity|left; reflexivity].
Qed.

Lemma finish_err : forall s e, finish g ic rstat tmin full s = Err e -> full = true /\ (e = KeyErr \/ e = IndexErr).
Proof.
  intros s e H. unfold finish in H. destruct full; [|discriminate H]. split; [reflexivity|].
  destruct (si_constructor_cases (histories g ic tmin s)) as [E|[E|E]]; rewrite E in H; cbn [rbind] in H.
  - discriminate H.
  - injection H as H. left. symmetry. exact H.
  - injection H as H. right. symmetry. exact H.
Qed.

Theorem simple_exec_err : forall sortable spont induced fuel ds e tr,
  Forall (sp_tr_ok g) spont -> Forall (in_tr_ok g) induced ->
  exec (simple g sortable spont induced ic rstat tmin tmax full fuel) ds [] = (Err e, tr) ->
  e = OutOfDraws \/ e = OutOfFuel \/
  (full = true /\ (e = KeyErr \/ e = IndexErr) /\
   exists sp inn l1 t' s', SInv g (start sp inn) /\ RInv g rstat (start sp inn) /\
     map sl_tr sp = sort_trans sortable spont /\ map sl_tr inn = sort_trans sortable induced /\
     srun g rstat tmax full tmin (start sp inn) l1 t' s' /\ finish g ic rstat tmin full s' = Err e).
Proof.
  intros sortable spont induced fuel ds e tr Hsp Hin H.
  destruct (simple_setup_inv g Hg sortable spont induced ic rstat tmin tmax full fuel Hsp Hin)
    as [sp [inn [Eq [HI [HR [E1 [E2 _]]]]]]].
  rewrite Eq in H. apply exec_rerr in H. destruct H as [H|H]; [left; exact H|right].
  destruct (loop_rerr g Hg ic rstat tmin tmax full fuel tmin _ e HI H) as [E|[l1 [t' [s' [Hrun Hfin]]]]]; [left; exact E|right].
  destruct (finish_err s' e Hfin) as [Hf He]. split; [exact Hf|]. split; [exact He|].
  exists sp, inn, l1, t', s'. repeat (split; [assumption|]). assumption.
Qed.

(* ---- return_statuses covers every status a node can take ---- *)
Definition covered (spont induced : list trans) : Prop :=
  gnodes g <> [] /\ (forall u, In u (gnodes g) -> In (ic u) rstat) /\
  (forall tr, In tr spont -> In (hd_status (tr_to tr)) rstat) /\
  (forall tr, In tr induced -> In (snd_status (tr_to tr)) rstat).

Lemma glog_new_in : forall sp_trs in_trs st t evs st' t', glog g sp_trs in_trs tmax st t evs st' t' ->
  (forall tr, In tr sp_trs -> In (hd_status (tr_to tr)) rstat) ->
  (forall tr, In tr in_trs -> In (snd_status (tr_to tr)) rstat) ->
  Forall (fun e => In (ge_new e) rstat) evs.
Proof.
  intros sp_trs in_trs st t evs st' t' H H1 H2. induction H as [|st t e l st' t' Hl Ht Hx Hr IH]; constructor; [|exact IH].
  destruct Hl as [_ [_ Hl]]. destruct (ge_src e) as [u|].
  - destruct Hl as [_ [_ [tr [Hin [_ [_ E]]]]]]. rewrite <- E. apply H2. exact Hin.
  - destruct Hl as [tr [Hin [_ [_ E]]]]. rewrite <- E. apply H1. exact Hin.
Qed.

Lemma inrs_in : forall s, In s rstat -> existsb (N.eqb s) rstat = true.
Proof. intros s H. apply existsb_exists. exists s. split; [exact H|apply N.eqb_refl]. Qed.

Lemma si_constructor_ok : forall (log : list (Q * node * N)),
  gnodes g <> [] -> (forall u, In u (gnodes g) -> In (ic u) rstat) ->
  Forall (fun e => In (snd e) rstat) log ->
  si_constructor rstat (map (fun u => (u, (tmin, ic u) :: node_events u log)) (gnodes g)) = Ok tt.
Proof.
  intros log Hne Hic Hlog. unfold si_constructor. cbv zeta.
  set (h := map (fun u => (u, (tmin, ic u) :: node_events u log)) (gnodes g)).
  assert (Hall : forall uh, In uh h -> forallb (fun e : Q * N => existsb (N.eqb (snd e)) rstat) (snd uh) = true).
  { intros uh Huh. unfold h in Huh. apply in_map_iff in Huh. destruct Huh as [u [E Hu]]. subst uh. cbn [snd].
    apply forallb_forall. intros x [Hx|Hx].
    - subst x. cbn [snd]. apply inrs_in. apply Hic. exact Hu.
    - unfold node_events in Hx. apply in_map_iff in Hx. destruct Hx as [e [Ex He]]. apply filter_In in He.
      destruct He as [He _]. subst x. cbn [snd]. apply inrs_in. rewrite Forall_forall in Hlog. apply (Hlog e He). }
  assert (Hkept : filter (fun uh : node * list (Q * N) => match snd uh with (_, s0) :: _ => existsb (N.eqb s0) rstat | [] => false end) h = h).
  { unfold h. clear Hall. induction (gnodes g) as [|u l IH] in Hic |- *; [reflexivity|].
    cbn [map filter snd]. rewrite (inrs_in (ic u) (Hic u (or_introl eq_refl))).
    f_equal. apply IH. intros v Hv. apply Hic. right. exact Hv. }
  rewrite Hkept.
  assert (Hex : existsb (fun uh : node * list (Q * N) => negb (forallb (fun e : Q * N => existsb (N.eqb (snd e)) rstat) (snd uh))) h = false).
  { destruct (existsb _ h) eqn:E; [|reflexivity]. apply existsb_exists in E. destruct E as [uh [Huh Hb]].
    rewrite (Hall uh Huh) in Hb. discriminate Hb. }
  rewrite Hex. unfold h. destruct (gnodes g); [contradiction Hne; reflexivity|reflexivity].
Qed.

(* glog does not depend on the order in which the spec edges are listed *)
Lemma ev_legal_incl : forall a b a' b' st e, (forall tr, In tr a -> In tr a') -> (forall tr, In tr b -> In tr b') ->
  ev_legal g a b st e -> ev_legal g a' b' st e.
Proof.
  intros a b a' b' st e Ha Hb [H1 [H2 H3]]. split; [exact H1|]. split; [exact H2|].
  destruct (ge_src e) as [u|].
  - destruct H3 as [Hu [Hv [tr [Hin R]]]]. split; [exact Hu|]. split; [exact Hv|]. exists tr. split; [apply Hb; exact Hin|exact R].
  - destruct H3 as [tr [Hin R]]. exists tr. split; [apply Ha; exact Hin|exact R].
Qed.

Lemma glog_incl : forall a b a' b' st t evs st' t', (forall tr, In tr a -> In tr a') -> (forall tr, In tr b -> In tr b') ->
  glog g a b tmax st t evs st' t' -> glog g a' b' tmax st t evs st' t'.
Proof.
  intros a b a' b' st t evs st' t' Ha Hb H. induction H; constructor; try assumption.
  eapply ev_legal_incl; eassumption.
Qed.

(* the whole output, in both return modes *)
Theorem simple_exec_output : forall sortable spont induced fuel ds out tr,
  Forall (sp_tr_ok g) spont -> Forall (in_tr_ok g) induced ->
  exec (simple g sortable spont induced ic rstat tmin tmax full fuel) ds [] = (Ok out, tr) ->
  exists evs st' t',
    glog g spont induced tmax ic tmin evs st' t' /\
    so_rows out = row0 :: ev_rows g rstat ic evs /\
    so_full out =
      (if full then Some (mkFull (map (fun u => (u, (tmin, ic u) :: node_events u (map ev3 evs))) (gnodes g))
                                 (flat_map ev_tx evs))
       else None).
Proof.
  intros sortable spont induced fuel ds out tr Hsp Hin H.
  destruct (simple_exec_ok sortable spont induced fuel ds out tr Hsp Hin H)
    as [sp [inn [l1 [l2 [t' [s' [HI [HR [E1 [E2 [_ [Hrun [_ Hfin]]]]]]]]]]]]].
  destruct (srun_log g Hg (map sl_tr sp) (map sl_tr inn) rstat tmax full tmin (start sp inn) l1 t' s' Hrun HI HR eq_refl eq_refl)
    as [evs [Hlog [Hrows [Hel Htl]]]].
  cbn [start s_stat s_rows s_elog s_tlog] in Hlog, Hrows, Hel, Htl.
  exists evs, (s_stat s'), t'. split.
  { eapply glog_incl; [| |exact Hlog]; intros tr' Ht'.
    - rewrite E1 in Ht'. apply (Permutation_in _ (sort_trans_perm sortable spont) Ht').
    - rewrite E2 in Ht'. apply (Permutation_in _ (sort_trans_perm sortable induced) Ht'). }
  unfold finish in Hfin. unfold histories in Hfin. rewrite Hrows, Hel, Htl in Hfin.
  destruct full.
  - rewrite !app_nil_r, !rev_involutive, rev_app_distr, rev_involutive in Hfin. cbn [rev app] in Hfin.
    destruct (si_constructor rstat _) as [[]|e]; cbn [rbind] in Hfin; [|discriminate Hfin].
    injection Hfin as Hfin. subst out. cbn [so_rows so_full]. split; reflexivity.
  - rewrite rev_app_distr, rev_involutive in Hfin. cbn [rev app] in Hfin.
    injection Hfin as Hfin. subst out. cbn [so_rows so_full]. split; reflexivity.
Qed.

Theorem simple_exec_never_crashes : forall sortable spont induced fuel ds e tr,
  Forall (sp_tr_ok g) spont -> Forall (in_tr_ok g) induced ->
  full = false \/ covered spont induced ->
  exec (simple g sortable spont induced ic rstat tmin tmax full fuel) ds [] = (Err e, tr) ->
  e = OutOfDraws \/ e = OutOfFuel.
Proof.
  intros sortable spont induced fuel ds e tr Hsp Hin Hc H.
  destruct (simple_exec_err sortable spont induced fuel ds e tr Hsp Hin H) as [E|[E|[Hf [_ X]]]]; [left; exact E|right; exact E|exfalso].
  destruct Hc as [Hc|[Hne [Hic [Hs Hi]]]]; [rewrite Hc in Hf; discriminate Hf|].
  destruct X as [sp [inn [l1 [t' [s' [HI [HR [E1 [E2 [Hrun Hfin]]]]]]]]]].
  destruct (srun_log g Hg (map sl_tr sp) (map sl_tr inn) rstat tmax full tmin (start sp inn) l1 t' s' Hrun HI HR eq_refl eq_refl)
    as [evs [Hlog [_ [Hel _]]]].
  cbn [start s_stat s_elog] in Hlog, Hel.
  assert (Hnew : Forall (fun e => In (ge_new e) rstat) evs).
  { apply (glog_new_in _ _ _ _ _ _ _ Hlog).
    - intros tr' Ht'. apply Hs. rewrite E1 in Ht'. apply (Permutation_in _ (sort_trans_perm sortable spont) Ht').
    - intros tr' Ht'. apply Hi. rewrite E2 in Ht'. apply (Permutation_in _ (sort_trans_perm sortable induced) Ht'). }
  unfold finish, histories in Hfin. rewrite Hf in Hfin, Hel. rewrite Hel, app_nil_r, rev_involutive in Hfin.
  rewrite (si_constructor_ok (map ev3 evs) Hne Hic) in Hfin; [discriminate Hfin|].
  apply Forall_forall. intros x Hx. apply in_map_iff in Hx. destruct Hx as [e0 [E0 He0]]. subst x. cbn [ev3 snd].
  rewrite Forall_forall in Hnew. apply Hnew. exact He0.
Qed.

(* the calls of one step, read against the specification: expovariate(total rate of the enabled
   transitions), then random() against the rate shares, then choose_random among exactly the
   enabled actors of the selected transition *)
Lemma step_calls : forall t s l t1 s1, SInv g s -> step g rstat tmax full t s l t1 s1 ->
  exists sl l0, In sl (slots s) /\ (0 < slot_rate sl) /\
    l = CExpo (total_rate s) :: CCasc (shares s) :: l0 /\
    choose_calls (weighted (sl_pot sl)) (kl_cands (sl_pot sl)) l0 /\
    (forall a, In a (map fst (kl_cands (sl_pot sl))) <-> sabs sl a <> None) /\
    total_rate s == sumQ (map (fun sl => tr_rate (sl_tr sl) * sumQ (map (wgt sl) (items (sl_pot sl)))) (slots s)).
Proof.
  intros t s l t1 s1 HI [_ [d [i [a [sl [l0 [_ [_ [_ [Hn [Hp [_ [_ [_ [El Hc]]]]]]]]]]]]]]].
  pose proof (nth_error_In _ _ Hn) as Hin.
  exists sl, l0. split; [exact Hin|]. split; [exact Hp|]. split; [exact El|]. split; [exact Hc|]. split.
  - intro x. pose proof (slot_inv_of g s sl HI Hin) as Hok.
    unfold sabs. split; intro H.
    + apply (kl_items_abs _ _ (so_inv sl Hok)). apply (Permutation_in _ (kl_cands_keys (sl_pot sl)) H).
    + apply (kl_items_abs _ _ (so_inv sl Hok)) in H. apply (Permutation_in _ (Permutation_sym (kl_cands_keys (sl_pot sl))) H).
  - apply (total_rate_spec g). exact HI.
Qed.

(* an unbounded run (tmax = Inf) returns only when nothing is enabled any more: the total rate of
   the final state is not positive, i.e. every transition's rate x (sum of the weights of its
   enabled actors) is zero *)
Theorem simple_exec_unbounded : forall sortable spont induced fuel ds out tr,
  Forall (sp_tr_ok g) spont -> Forall (in_tr_ok g) induced -> tmax = None ->
  exec (simple g sortable spont induced ic rstat tmin tmax full fuel) ds [] = (Ok out, tr) ->
  exists sp inn l1 t' s',
    srun g rstat tmax full tmin (start sp inn) l1 t' s' /\ finish g ic rstat tmin full s' = Ok out /\
    SInv g s' /\ ~ 0 < total_rate s' /\
    sumQ (map (fun sl => tr_rate (sl_tr sl) * sumQ (map (wgt sl) (items (sl_pot sl)))) (slots s')) <= 0.
Proof.
  intros sortable spont induced fuel ds out tr Hsp Hin Htm H.
  destruct (simple_exec_ok sortable spont induced fuel ds out tr Hsp Hin H)
    as [sp [inn [l1 [l2 [t' [s' [HI [HR [_ [_ [_ [Hrun [Hstop Hfin]]]]]]]]]]]]].
  destruct (srun_inv g Hg rstat tmax full tmin _ l1 t' s' Hrun HI HR) as [HI' _].
  exists sp, inn, l1, t', s'. split; [exact Hrun|]. split; [exact Hfin|]. split; [exact HI'|].
  assert (Hn : ~ 0 < total_rate s').
  { destruct Hstop as [[Hn _]|[_ [_ [d [_ Hx]]]]]; [exact Hn|]. rewrite Htm in Hx. discriminate Hx. }
  split; [exact Hn|]. rewrite <- (total_rate_spec g s' HI'). lra.
Qed.

End Top.
