(* C07, regular graphs: heterogeneous mean-field SIR (coordinates theta, R_k; S_k = S0_k theta^k) on a single degree
   class k against homogeneous mean-field SIR (coordinates S, I), without assuming the chain rule: the change of
   variables (theta, r) |-> (S, I) = (s0 theta^k, N - s0 theta^k - r) is polynomial in theta and its Jacobian is the
   formal derivative (Rhs7P.lump_SIR_heterogeneous_meanfield_regular_partial had d/dt s0 theta^k written out). *)
From EoNV Require Import Prelude Vec VecP Aux AuxP Pgf C07xPoly Rhs Rhs7P.
From Coq Require Import Qpower Lqa Setoid Morphisms.

Lemma lump_SIR_heterogeneous_meanfield_regular t tau g k theta r s0 N :
  ~ Qnat k == 0 -> ~ N == 0 -> ~ theta == 0 ->
  let Sp := pmono s0 k in                              (* S(theta) = s0 theta^k *)
  let S := peval Sp theta in
  let I := N - S - r in
  let small := dSIR_homogeneous_meanfield [S; I] t (Qnat k / N) tau g in
  let big := dSIR_heterogeneous_meanfield ([theta] ++ unitv k r) t (unitv k s0) (unitv k N) tau g in
  (* push-forward of the big field: dS = S'(theta) dtheta, dI = - S'(theta) dtheta - dr, dr = the R_k component *)
  D Sp theta * vnth 0 big == vnth 0 small /\
  - (D Sp theta * vnth 0 big) - g * I == vnth 1 small /\
  veq (slice_from 1 big) (unitv k (g * I)).
Proof.
  intros Hk HN Hth. cbv zeta.
  pose proof (lump_SIR_heterogeneous_meanfield_regular_partial t tau g k theta r s0 N Hk HN Hth) as H. cbv zeta in H.
  destruct H as (H0 & H1 & H2).
  pose proof (peval_pmono s0 k theta) as HS.
  pose proof (D_pmono_x s0 k theta) as HD.
  set (big := dSIR_heterogeneous_meanfield ([theta] ++ unitv k r) t (unitv k s0) (unitv k N) tau g) in *.
  assert (HD' : D (pmono s0 k) theta == Qnat k * s0 * qpow theta (Z.of_nat k - 1)).
  { rewrite <- (qpow_pred theta k Hth) in HD.
    apply (Qmult_inj_l _ _ theta Hth). rewrite HD. ring. }
  unfold dSIR_homogeneous_meanfield in *. cbn [vnth nth] in *.
  split; [|split].
  - rewrite HD', H0, HS. reflexivity.
  - rewrite HD', H0, HS. ring.
  - etransitivity; [exact H1|]. unfold unitv. apply veq_app; [apply veq_refl|]. constructor; [rewrite HS; reflexivity|constructor].
Qed.
