(* C14, ODE half, for the initial-condition builders of Model/IC.v: the degree-class
   arrays (Nk, Sk0, Ik0, Rk0 of _get_Nk_and_IC_as_arrays_) and therefore row 0 of
   S, I, R of every degree-based wrapper do not depend on node names, on the order of
   G.nodes() or on the order of the adjacency lists.  A relabelled + re-ordered copy
   g' of g under a map f is described relationally: gnodes g' is a permutation of
   map f (gnodes g) and every node keeps its degree (the adjacency list of f u is a
   permutation of the images of the neighbours of u); a node predicate p' on g' is
   the transport of p when p' (f u) = p u. *)
From EoNV Require Import Prelude Graph Aux Vec IC Wrappers VecP ICP.
From Coq Require Import Permutation Lqa.

Lemma filter_length_perm (p : node -> bool) l l' : Permutation l l' -> length (filter p l) = length (filter p l').
Proof.
  induction 1 as [|x l l' H IH|x y l|l l' l'' H1 IH1 H2 IH2]; cbn; auto.
  - destruct (p x); cbn; congruence.
  - destruct (p x), (p y); reflexivity.
  - congruence.
Qed.
Lemma cnt_perm p l l' : Permutation l l' -> cnt p l = cnt p l'.
Proof. intros H. unfold cnt. rewrite (filter_length_perm p l l' H). reflexivity. Qed.
Lemma cnt_map (f : node -> node) p l : cnt p (map f l) = cnt (fun u => p (f u)) l.
Proof. unfold cnt. f_equal. induction l as [|x l IH]; cbn; [reflexivity|]. destruct (p (f x)); cbn; congruence. Qed.
Lemma maxdeg_perm ds ds' : Permutation ds ds' -> maxdeg ds = maxdeg ds'.
Proof. unfold maxdeg. induction 1; cbn [fold_right]; lia. Qed.

Section Relabel.
Variables (g g' : graph) (f : node -> node).
Hypothesis Hnodes : Permutation (gnodes g') (map f (gnodes g)).
Hypothesis Hdeg : forall u, In u (gnodes g) -> deg g' (f u) = deg g u.

Lemma degseq_relabel : Permutation (degseq g') (degseq g).
Proof.
  unfold degseq. etransitivity; [apply Permutation_map, Hnodes|]. rewrite map_map.
  rewrite (map_ext_in (fun u => deg g' (f u)) (deg g) (gnodes g) Hdeg). reflexivity.
Qed.
Lemma gmaxdeg_relabel : gmaxdeg g' = gmaxdeg g.
Proof. unfold gmaxdeg. apply maxdeg_perm, degseq_relabel. Qed.

(* the degree-class array of a transported node class is unchanged *)
Theorem C14_ic_byclass_equivariant (p p' : node -> bool) :
  (forall u, In u (gnodes g) -> p' (f u) = p u) -> byclass g' p' = byclass g p.
Proof.
  intros Hp. unfold byclass, classes. rewrite gmaxdeg_relabel. apply map_ext. intros k.
  rewrite (cnt_perm _ _ _ Hnodes), cnt_map. apply cnt_ext. intros u Hu. rewrite (Hdeg u Hu), (Hp u Hu). reflexivity.
Qed.

Theorem C14_ic_Nk_equivariant : Nk_of g' = Nk_of g.
Proof. apply C14_ic_byclass_equivariant. reflexivity. Qed.

Theorem C14_ic_order_equivariant : gN g' = gN g.
Proof. unfold gN. rewrite (Permutation_length Hnodes), map_length. reflexivity. Qed.

(* the explicit-set arrays Sk0, Ik0, Rk0 of _get_Nk_and_IC_as_arrays_ for transported statuses *)
Theorem C14_ic_get_Nk_equivariant (st st' : status) :
  (forall u, In u (gnodes g) -> st' (f u) = st u) ->
  byclass g' (isS st') = byclass g (isS st) /\ byclass g' (isI st') = byclass g (isI st) /\
  byclass g' (fun u => negb (isS st' u) && negb (isI st' u)) = byclass g (fun u => negb (isS st u) && negb (isI st u)).
Proof.
  intros H. repeat split; apply C14_ic_byclass_equivariant; intros u Hu; unfold isS, isI; rewrite (H u Hu); reflexivity.
Qed.

(* and the rho-path arrays *)
Theorem C14_ic_get_Nk_rho_equivariant rho :
  smul (1 - rho_or_default g' rho) (Nk_of g') = smul (1 - rho_or_default g rho) (Nk_of g) /\
  smul (rho_or_default g' rho) (Nk_of g') = smul (rho_or_default g rho) (Nk_of g).
Proof. unfold rho_or_default. rewrite C14_ic_Nk_equivariant, C14_ic_order_equivariant. split; reflexivity. Qed.
End Relabel.

(* non-vacuity: path3 relabelled by u -> 2 - u with the node order reversed *)
Example C14_ic_relabel_example :
  let g' := mk_ugraph [2%N; 1%N; 0%N] (gadj path3) in
  Permutation (gnodes g') (map (fun u => (2 - u)%N) (gnodes path3)) /\
  (forall u, In u (gnodes path3) -> deg g' ((fun u => (2 - u)%N) u) = deg path3 u).
Proof.
  cbv zeta. split; [cbn; apply Permutation_refl|]. intros u [<-|[<-|[<-|[]]]]; reflexivity.
Qed.
Print Assumptions C14_ic_byclass_equivariant.
Print Assumptions C14_ic_get_Nk_equivariant.
