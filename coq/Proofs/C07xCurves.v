(* C07, SIR hierarchy: the RETURNED series S, I, R of the five wrappers coincide, given the one cited fact as an explicit
   hypothesis.  The solvers are abstract (Wrappers.solver).  The hypothesis `lift` says what ODE uniqueness yields from
   Props/C07x.v (vector fields correspond under Phi, initial point = Phi(1,0)): started at a vector equal to Phi(1,0), the
   big model's solver returns the image under Phi of the curve the EBCM solver returns from [1; 0].  Everything else --
   which vector each wrapper hands to its solver, how each slices the solver's rows into S, I, R, the N it uses -- is proved. *)
From EoNV Require Import Prelude Graph Vec VecP Aux AuxP IC Wrappers ICP ICEbcm ICEd Pgf C07xPoly C07xHier C07xIC C07xCed C07xCedIC C07xEd C07xEdIC Rhs2D Rhs2DP.
From Coq Require Import Qpower Lqa Setoid Morphisms.

Section Curves.
Variables (g : graph) (rho_opt : option Q) (tau gam : Q).
Hypothesis WG : wf_ugraph g = true.
Let r := rho_or_default g rho_opt.
Let rq := mkReq None None rho_opt.
Let N := gN g.
Let c := fg_coeffs g r.
Hypothesis Hc : ~ D c 1 == 0.
(* the EBCM run *)
Variable sv_e : solver.
Let th (t : nat) : Q := vnth 0 (sv_e [1; 0] t).
Let Rr (t : nat) : Q := vnth 1 (sv_e [1; 0] t).
(* what EBCM_from_graph returns *)
Let Se (t : nat) : Q := N * fg_psihat g r (th t).
Let Ie (t : nat) : Q := N - Se t - Rr t.

Lemma EBCM_outputs : EBCM_from_graph g rq false sv_e = Ok [(nS, Sc Se); (nI, Sc Ie); (nR, Sc Rr)].
Proof. unfold rq. rewrite EBCM_fg_rho. reflexivity. Qed.
Lemma Se_poly t : Se t == N * peval c (th t).
Proof. unfold Se. rewrite (fg_psihat_poly g r (th t) WG). reflexivity. Qed.

Definition lift (Phi : Q -> Q -> vec) (sv : solver) : Prop :=
  forall X0, veq X0 (Phi 1 0) -> forall t, veq (sv X0 t) (Phi (th t) (Rr t)).

(* ---- compact pairwise ---- *)
Lemma curves_compact_pairwise sv : lift (Phi_cp c N tau gam (fg_phiS0 r) fg_phiR0) sv ->
  exists S I R, SIR_compact_pairwise_from_graph g rq false sv = Ok [(nS, Sc S); (nI, Sc I); (nR, Sc R)] /\
    forall t, S t == Se t /\ I t == Ie t /\ R t == Rr t.
Proof.
  intros L. destruct (compact_fg_rho g rho_opt tau gam WG Hc) as (Sk0 & I0 & R0 & SS0 & SI0 & Hw & HX & HN).
  fold r c N rq in Hw, HX, HN.
  exists (vsumt (dlast (sv (Sk0 ++ [SS0; SI0; R0])) 3)),
         (fun t => I0 + R0 + vsum Sk0 - tlast (sv (Sk0 ++ [SS0; SI0; R0])) 3 2 t - vsumt (dlast (sv (Sk0 ++ [SS0; SI0; R0])) 3) t),
         (tlast (sv (Sk0 ++ [SS0; SI0; R0])) 3 2).
  split; [rewrite Hw; reflexivity|]. intros t. specialize (L _ HX t).
  destruct (outputs_agree c N tau gam (fg_phiS0 r) fg_phiR0 (th t) (Rr t)) as (O1 & O2 & _).
  assert (ES : vsumt (dlast (sv (Sk0 ++ [SS0; SI0; R0])) 3) t == Se t).
  { unfold vsumt, dlast. rewrite (vsum_veq _ _ (drop_last_veq 3 _ _ L)), O1, Se_poly. reflexivity. }
  assert (ER : tlast (sv (Sk0 ++ [SS0; SI0; R0])) 3 2 t == Rr t).
  { unfold tlast, vnth. rewrite (veq_nth_all _ _ (take_last_veq 3 _ _ L) 2). exact O2. }
  split; [exact ES|]. split; [|exact ER]. cbv beta. rewrite ES, ER, HN. unfold Ie. ring.
Qed.

(* ---- super-compact pairwise ---- *)
Lemma curves_super_compact sv : lift (Phi_sc c N tau gam (fg_phiS0 r) fg_phiR0) sv ->
  exists S I R, SIR_super_compact_pairwise_from_graph g rq false sv = Ok [(nS, Sc S); (nI, Sc I); (nR, Sc R)] /\
    forall t, S t == Se t /\ I t == Ie t /\ R t == Rr t.
Proof.
  intros L. destruct (super_compact_fg_rho g rho_opt tau gam WG Hc) as (SS0 & SI0 & R0 & Hw & HX).
  fold r c N rq in Hw, HX.
  exists (fun t => N * fg_psihat g r (comp (sv [1; SS0; SI0; R0]) 0 t)),
         (fun t => N - N * fg_psihat g r (comp (sv [1; SS0; SI0; R0]) 0 t) - comp (sv [1; SS0; SI0; R0]) 3 t),
         (comp (sv [1; SS0; SI0; R0]) 3).
  split; [rewrite Hw; reflexivity|]. intros t. specialize (L _ HX t).
  destruct (outputs_agree c N tau gam (fg_phiS0 r) fg_phiR0 (th t) (Rr t)) as (_ & _ & O3 & O4).
  assert (ET : comp (sv [1; SS0; SI0; R0]) 0 t == th t) by (unfold comp, vnth; rewrite (veq_nth_all _ _ L 0); exact O3).
  assert (ER : comp (sv [1; SS0; SI0; R0]) 3 t == Rr t) by (unfold comp, vnth; rewrite (veq_nth_all _ _ L 3); exact O4).
  assert (ES : N * fg_psihat g r (comp (sv [1; SS0; SI0; R0]) 0 t) == Se t).
  { rewrite Se_poly, (fg_psihat_poly g r _ WG). fold c. rewrite (peval_Qeq c _ _ ET). reflexivity. }
  split; [exact ES|]. split; [|exact ER]. cbv beta. rewrite ES, ER. unfold Ie. ring.
Qed.

(* ---- compact effective degree ---- *)
Lemma curves_compact_effective_degree sv : lift (Phi_ced c N tau gam (fg_phiS0 r) fg_phiR0) sv ->
  exists S I R, SIR_compact_effective_degree_from_graph g rq false sv = Ok [(nS, Sc S); (nI, Sc I); (nR, Sc R)] /\
    forall t, S t == Se t /\ I t == Ie t /\ R t == Rr t.
Proof.
  intros L. destruct (ced_fg_rho g rho_opt tau gam WG Hc) as (Sk0 & I0 & R0 & SI0 & Hw & HX & HN).
  fold r c N rq in Hw, HX, HN.
  exists (vsumt (dlast (sv (Sk0 ++ [R0; SI0])) 2)),
         (fun t => vsum Sk0 + I0 + R0 - vsumt (dlast (sv (Sk0 ++ [R0; SI0])) 2) t - tlast (sv (Sk0 ++ [R0; SI0])) 2 0 t),
         (tlast (sv (Sk0 ++ [R0; SI0])) 2 0).
  split; [rewrite Hw; reflexivity|]. intros t. specialize (L _ HX t).
  destruct (ced_outputs_agree c N tau gam (fg_phiS0 r) fg_phiR0 (th t) (Rr t)) as (O1 & O2).
  assert (ES : vsumt (dlast (sv (Sk0 ++ [R0; SI0])) 2) t == Se t).
  { unfold vsumt, dlast. rewrite (vsum_veq _ _ (drop_last_veq 2 _ _ L)), O1, Se_poly. reflexivity. }
  assert (ER : tlast (sv (Sk0 ++ [R0; SI0])) 2 0 t == Rr t).
  { unfold tlast, vnth. rewrite (veq_nth_all _ _ (take_last_veq 2 _ _ L) 0). exact O2. }
  split; [exact ES|]. split; [|exact ER]. cbv beta. rewrite ES, ER, HN. unfold Ie. ring.
Qed.

(* ---- effective degree ---- *)
Lemma curves_effective_degree sv : lift (Phi_ed c N tau gam (fg_phiS0 r) fg_phiR0) sv ->
  exists S I R, SIR_effective_degree_from_graph g rq false sv = Ok [(nS, Sc S); (nI, Sc I); (nR, Sc R)] /\
    forall t, S t == Se t /\ I t == Ie t /\ R t == Rr t.
Proof.
  intros L. destruct (ed_fg_rho g rho_opt tau gam WG Hc) as (Ssi0 & I0 & R0 & Hw & HX & HN).
  fold r c N rq in Hw, HX, HN.
  exists (vsumt (dlast (sv (flatten Ssi0 ++ [R0])) 1)),
         (fun t => msum Ssi0 + I0 + R0 - tlast (sv (flatten Ssi0 ++ [R0])) 1 0 t - vsumt (dlast (sv (flatten Ssi0 ++ [R0])) 1) t),
         (tlast (sv (flatten Ssi0 ++ [R0])) 1 0).
  split; [rewrite Hw; reflexivity|]. intros t. pose proof (L _ HX t) as Lt.
  destruct (ed_outputs_agree c N tau gam (fg_phiS0 r) fg_phiR0 (th t) (Rr t)) as (O1 & O2).
  assert (ES : vsumt (dlast (sv (flatten Ssi0 ++ [R0])) 1) t == Se t).
  { unfold vsumt, dlast. rewrite (vsum_veq _ _ (drop_last_veq 1 _ _ Lt)), O1, Se_poly. reflexivity. }
  assert (ER : tlast (sv (flatten Ssi0 ++ [R0])) 1 0 t == Rr t).
  { unfold tlast, vnth. rewrite (veq_nth_all _ _ (take_last_veq 1 _ _ Lt) 0). exact O2. }
  split; [exact ES|]. split; [|exact ER]. cbv beta. rewrite ES, ER, HN. unfold Ie. ring.
Qed.
End Curves.


(* the statements of Props/C07x.v *)
Lemma returned_series_compact_pairwise : forall g rho_opt tau gam, wf_ugraph g = true ->
  let r := rho_or_default g rho_opt in let rq := mkReq None None rho_opt in let N := gN g in let c := fg_coeffs g r in
  ~ D c 1 == 0 -> forall sv_e : solver,
  let th := fun t => vnth 0 (sv_e [1; 0] t) in let Rr := fun t => vnth 1 (sv_e [1; 0] t) in
  let Se := fun t => N * fg_psihat g r (th t) in let Ie := fun t => N - Se t - Rr t in
  forall sv : solver,
  (forall X0, veq X0 (Phi_cp c N tau gam (fg_phiS0 r) fg_phiR0 1 0) -> forall t, veq (sv X0 t) (Phi_cp c N tau gam (fg_phiS0 r) fg_phiR0 (th t) (Rr t))) ->
  EBCM_from_graph g rq false sv_e = Ok [(nS, Sc Se); (nI, Sc Ie); (nR, Sc Rr)] /\
  exists S I R, SIR_compact_pairwise_from_graph g rq false sv = Ok [(nS, Sc S); (nI, Sc I); (nR, Sc R)] /\
    forall t, S t == Se t /\ I t == Ie t /\ R t == Rr t.
Proof. intros g rho_opt tau gam WG r rq N c Hc sv_e th Rr Se Ie sv L. split; [exact (EBCM_outputs g rho_opt sv_e)|exact (curves_compact_pairwise g rho_opt tau gam WG Hc sv_e sv L)]. Qed.
Lemma returned_series_super_compact_pairwise : forall g rho_opt tau gam, wf_ugraph g = true ->
  let r := rho_or_default g rho_opt in let rq := mkReq None None rho_opt in let N := gN g in let c := fg_coeffs g r in
  ~ D c 1 == 0 -> forall sv_e : solver,
  let th := fun t => vnth 0 (sv_e [1; 0] t) in let Rr := fun t => vnth 1 (sv_e [1; 0] t) in
  let Se := fun t => N * fg_psihat g r (th t) in let Ie := fun t => N - Se t - Rr t in
  forall sv : solver,
  (forall X0, veq X0 (Phi_sc c N tau gam (fg_phiS0 r) fg_phiR0 1 0) -> forall t, veq (sv X0 t) (Phi_sc c N tau gam (fg_phiS0 r) fg_phiR0 (th t) (Rr t))) ->
  EBCM_from_graph g rq false sv_e = Ok [(nS, Sc Se); (nI, Sc Ie); (nR, Sc Rr)] /\
  exists S I R, SIR_super_compact_pairwise_from_graph g rq false sv = Ok [(nS, Sc S); (nI, Sc I); (nR, Sc R)] /\
    forall t, S t == Se t /\ I t == Ie t /\ R t == Rr t.
Proof. intros g rho_opt tau gam WG r rq N c Hc sv_e th Rr Se Ie sv L. split; [exact (EBCM_outputs g rho_opt sv_e)|exact (curves_super_compact g rho_opt tau gam WG Hc sv_e sv L)]. Qed.
Lemma returned_series_compact_effective_degree : forall g rho_opt tau gam, wf_ugraph g = true ->
  let r := rho_or_default g rho_opt in let rq := mkReq None None rho_opt in let N := gN g in let c := fg_coeffs g r in
  ~ D c 1 == 0 -> forall sv_e : solver,
  let th := fun t => vnth 0 (sv_e [1; 0] t) in let Rr := fun t => vnth 1 (sv_e [1; 0] t) in
  let Se := fun t => N * fg_psihat g r (th t) in let Ie := fun t => N - Se t - Rr t in
  forall sv : solver,
  (forall X0, veq X0 (Phi_ced c N tau gam (fg_phiS0 r) fg_phiR0 1 0) -> forall t, veq (sv X0 t) (Phi_ced c N tau gam (fg_phiS0 r) fg_phiR0 (th t) (Rr t))) ->
  EBCM_from_graph g rq false sv_e = Ok [(nS, Sc Se); (nI, Sc Ie); (nR, Sc Rr)] /\
  exists S I R, SIR_compact_effective_degree_from_graph g rq false sv = Ok [(nS, Sc S); (nI, Sc I); (nR, Sc R)] /\
    forall t, S t == Se t /\ I t == Ie t /\ R t == Rr t.
Proof. intros g rho_opt tau gam WG r rq N c Hc sv_e th Rr Se Ie sv L. split; [exact (EBCM_outputs g rho_opt sv_e)|exact (curves_compact_effective_degree g rho_opt tau gam WG Hc sv_e sv L)]. Qed.
Lemma returned_series_effective_degree : forall g rho_opt tau gam, wf_ugraph g = true ->
  let r := rho_or_default g rho_opt in let rq := mkReq None None rho_opt in let N := gN g in let c := fg_coeffs g r in
  ~ D c 1 == 0 -> forall sv_e : solver,
  let th := fun t => vnth 0 (sv_e [1; 0] t) in let Rr := fun t => vnth 1 (sv_e [1; 0] t) in
  let Se := fun t => N * fg_psihat g r (th t) in let Ie := fun t => N - Se t - Rr t in
  forall sv : solver,
  (forall X0, veq X0 (Phi_ed c N tau gam (fg_phiS0 r) fg_phiR0 1 0) -> forall t, veq (sv X0 t) (Phi_ed c N tau gam (fg_phiS0 r) fg_phiR0 (th t) (Rr t))) ->
  EBCM_from_graph g rq false sv_e = Ok [(nS, Sc Se); (nI, Sc Ie); (nR, Sc Rr)] /\
  exists S I R, SIR_effective_degree_from_graph g rq false sv = Ok [(nS, Sc S); (nI, Sc I); (nR, Sc R)] /\
    forall t, S t == Se t /\ I t == Ie t /\ R t == Rr t.
Proof. intros g rho_opt tau gam WG r rq N c Hc sv_e th Rr Se Ie sv L. split; [exact (EBCM_outputs g rho_opt sv_e)|exact (curves_effective_degree g rho_opt tau gam WG Hc sv_e sv L)]. Qed.
