(* C10 for the discrete-time simulators, part 3: the two return modes under table rules
   [det_rules tt pick], WITH a recovery test (discrete_SIR) and for basic_discrete_SIS: the
   plain run and the full-data run go through the same infected sets, counts and rows
   (return_full_data only adds contacts to already-infected-this-step nodes to `infector`, the
   random.choice calls and the history / transmission appends), so for every fuel both run out
   of fuel or both return, with the same arrays; the checker accepts (histories of the
   full-data run, arrays of the plain run). *)
From EoNV Require Import Prelude Samp Graph Discrete DiscreteP SampP DiscreteChk DiscreteRun DiscreteRunS DiscreteTop DiscreteC04 DiscreteC05 DiscreteHist.
From EoNV Require Import Investigation InvestigationP DiscreteC10 DiscreteC10t.
From EoNV Require Gillespie GillespieP.
From Coq Require Import Permutation Lqa Sorting.Sorted.

(* both run out of fuel, or both return with the same rows (plain: no full-data object) *)
Definition same_modes (m m' : samp dout) : Prop :=
  (m = Fail OutOfFuel /\ m' = Fail OutOfFuel) \/
  exists o o', m = Ret o /\ m' = Ret o' /\ so_rows (o_sim o) = so_rows (o_sim o') /\
    so_full (o_sim o) = None /\ so_full (o_sim o') <> None.

Section SIR.
Variable g : graph.
Variable tt : node -> node -> nat -> bool.
Variable pick : nat -> node -> nat.

(* the contact loop: susceptible, new_infecteds (as a list) and the S counter do not depend on
   return_full_data *)
Lemma cfold_modes : forall k age age' cs c c',
  (forall u, age u = age' u) -> (forall v, c_sus c v = c_sus c' v) -> c_new c = c_new c' -> c_nS c = c_nS c' ->
  (forall v, c_sus (cfold tt false k age cs c) v = c_sus (cfold tt true k age' cs c') v) /\
  c_new (cfold tt false k age cs c) = c_new (cfold tt true k age' cs c') /\
  c_nS (cfold tt false k age cs c) = c_nS (cfold tt true k age' cs c').
Proof.
  intros k age age' cs. induction cs as [|[u v] cs IH]; intros c c' Ha Hs Hn HS.
  - cbn [cfold]. repeat split; assumption.
  - cbn [cfold]. rewrite <- (Hs v), <- (Ha u). destruct (c_sus c v) eqn:Es.
    + destruct (tt u v (age u)); apply IH; cbn [c_sus c_new c_nS]; try assumption.
      * intro x. unfold fupdN. destruct (N.eqb x v); [reflexivity|apply Hs].
      * rewrite Hn. reflexivity.
      * rewrite HS. reflexivity.
    + cbn [andb]. destruct (mem v (c_new c')); [destruct (tt u v (age u))|]; apply IH; cbn [c_sus c_new c_nS]; assumption.
Qed.

Definition p_totR (x : Z * list node * list (Q * node * N) * list rentry) : Z := fst (fst (fst x)).
Definition p_kept (x : Z * list node * list (Q * node * N) * list rentry) : list node := snd (fst (fst x)).

Lemma rec_loop_modes : forall f k next age age' us a b h r h' r', (forall u, age u = age' u) ->
  p_totR (rec_loop false f k next age us (a, b, h, r)) = p_totR (rec_loop true f k next age' us (a, b, h', r')) /\
  p_kept (rec_loop false f k next age us (a, b, h, r)) = p_kept (rec_loop true f k next age' us (a, b, h', r')).
Proof.
  intros f k next age age' us. unfold rec_loop. induction us as [|u us IH]; intros a b h r h' r' Ha.
  - cbn [fold_left]. split; reflexivity.
  - cbn [fold_left]. rewrite <- (Ha u). destruct (f u (age u)); apply IH; exact Ha.
Qed.

Section Loop.
Variable trec : option (node -> nat -> bool).
Variable ord : nat -> list node -> list node.
Variable tmin : Q.
Variable tmax : xtime.
Variables i0 r0 : list node.

Definition dsim (s s' : dst) : Prop :=
  (forall v, d_sus s v = d_sus s' v) /\ d_infs s = d_infs s' /\ (forall u, d_age s u = d_age s' u) /\
  d_nS s = d_nS s' /\ d_totR s = d_totR s' /\ d_rows s = d_rows s'.

Lemma step_modes : forall k t s s', dsim s s' ->
  exists s1 s1', step g (det_rules tt pick) trec ord tmax false k t s = Ret s1 /\
                 step g (det_rules tt pick) trec ord tmax true k t s' = Ret s1' /\ dsim s1 s1'.
Proof.
  intros k t s s' [Hs [Hi [Ha [HS [HR Hrows]]]]]. unfold step. rewrite !cloop_det. cbn [bind].
  rewrite <- Hi. set (us := ord k (d_infs s)).
  set (c := cfold tt false k (d_age s) (contacts g us) (mkC (d_sus s) [] [] (d_nS s) (l_q (d_logs s)))).
  set (c' := cfold tt true k (d_age s') (contacts g us) (mkC (d_sus s') [] [] (d_nS s') (l_q (d_logs s')))).
  destruct (cfold_modes k (d_age s) (d_age s') (contacts g us)
              (mkC (d_sus s) [] [] (d_nS s) (l_q (d_logs s))) (mkC (d_sus s') [] [] (d_nS s') (l_q (d_logs s'))) Ha Hs eq_refl HS)
    as [Cs [Cn CS]]. fold c in Cs, Cn, CS. fold c' in Cs, Cn, CS.
  assert (Hc' : cinv c').
  { apply cfold_inv. split; [constructor|]. split; [intros v []|constructor]. }
  destruct Hc' as [_ [_ Hcf]].
  destruct (picks_det tt pick k t (c_inf c') (d_tlog s') (l_p (d_logs s')) Hcf) as [tp Hp]. rewrite Hp. cbn [bind].
  destruct trec as [f|].
  - pose proof (rec_loop_modes f k (t + 1) (d_age s) (d_age s') us (d_totR s) []
       (if false && le_x (t + 1) tmax then rev (map (fun v => (t + 1, v, stI)) (canon g (c_new c))) ++ [] ++ d_hlog s else d_hlog s)
       (l_r (d_logs s))
       (if true && le_x (t + 1) tmax then rev (map (fun v => (t + 1, v, stI)) (canon g (c_new c'))) ++ [] ++ d_hlog s' else d_hlog s')
       (l_r (d_logs s')) Ha) as [P1 P2].
    rewrite <- HR.
    destruct (rec_loop false f k (t + 1) (d_age s) us _) as [[[a b] h2] rl].
    destruct (rec_loop true f k (t + 1) (d_age s') us _) as [[[a' b'] h2'] rl'].
    unfold p_totR, p_kept in P1, P2. cbn [fst snd] in P1, P2. subst a' b'.
    eexists. eexists. split; [reflexivity|]. split; [reflexivity|].
    unfold dsim. cbn [d_sus d_infs d_age d_nS d_totR d_rows]. rewrite <- Cn, <- CS, Hrows.
    split; [exact Cs|]. split; [reflexivity|]. split; [|repeat split].
    intro x. rewrite (Ha x). reflexivity.
  - eexists. eexists. split; [reflexivity|]. split; [reflexivity|].
    unfold dsim. cbn [d_sus d_infs d_age d_nS d_totR d_rows]. rewrite <- Cn, <- CS, Hrows, HR.
    split; [exact Cs|]. split; [reflexivity|]. split; [exact Ha|repeat split].
Qed.

Lemma dloop_modes : forall fuel k t s s', dsim s s' ->
  same_modes (dloop g (det_rules tt pick) trec ord tmin tmax false i0 r0 fuel k t s)
             (dloop g (det_rules tt pick) trec ord tmin tmax true i0 r0 fuel k t s').
Proof.
  induction fuel as [|f IH]; intros k t s s' Hsim; cbn [dloop]; pose proof Hsim as [_ [Hi [_ [_ [_ Hrows]]]]]; rewrite <- Hi;
    (destruct (nonempty (d_infs s) && xlt t tmax);
      [|right; eexists; eexists; split; [reflexivity|]; split; [reflexivity|]; unfold finish; cbn [o_sim so_rows so_full];
        rewrite Hrows; split; [reflexivity|]; split; [reflexivity|discriminate]]).
  - left. split; reflexivity.
  - destruct (step_modes k t s s' Hsim) as [s1 [s1' [E1 [E1' Hsim1]]]]. rewrite E1, E1'. cbn [bind]. apply IH. exact Hsim1.
Qed.

End Loop.

Lemma discrete_SIR_modes : forall trec ord i0 r0o tmin tmax fuel,
  same_modes (discrete_SIR g (det_rules tt pick) trec ord (Some i0) r0o None tmin tmax false fuel)
             (discrete_SIR g (det_rules tt pick) trec ord (Some i0) r0o None tmin tmax true fuel).
Proof.
  intros trec ord i0 r0o tmin tmax fuel. unfold discrete_SIR. cbn [with_initial].
  apply dloop_modes. unfold dsim, init_state. cbn [d_sus d_infs d_age d_nS d_totR d_rows]. repeat split.
Qed.

End SIR.

(* ---------------- basic_discrete_SIS: the contact loop does not look at return_full_data ---------------- *)
Section SIS.
Variable g : graph.
Variable tt : node -> node -> nat -> bool.
Variable pick : nat -> node -> nat.

Lemma inf_append_nonempty : forall inf v u, Forall (fun e : node * list node => snd e <> []) inf ->
  Forall (fun e : node * list node => snd e <> []) (inf_append inf v u).
Proof.
  intros inf v u H. unfold inf_append. apply Forall_forall. intros e He. apply in_map_iff in He.
  destruct He as [e0 [E He0]]. rewrite Forall_forall in H. specialize (H e0 He0).
  destruct (N.eqb (fst e0) v); subst e; cbn [snd]; [|exact H].
  intro K. apply app_eq_nil in K. destruct K as [_ K]. discriminate.
Qed.

Lemma sis_cloop_det : forall k infs cs new inf q, Forall (fun e : node * list node => snd e <> []) inf ->
  exists r, sis_cloop (det_rules tt pick) k infs cs new inf q = Ret r /\
            Forall (fun e : node * list node => snd e <> []) (snd (fst r)).
Proof.
  intros k infs cs. induction cs as [|[u v] cs IH]; intros new inf q Hf.
  - eexists. split; [reflexivity|exact Hf].
  - cbn [sis_cloop]. destruct (negb (mem v infs)); [|apply IH; exact Hf].
    cbn [det_rules r_test bind]. destruct (tt u v k); [|apply IH; exact Hf].
    destruct (negb (mem v new)); apply IH.
    + apply Forall_app. split; [exact Hf|]. constructor; [|constructor]. cbn [snd]. discriminate.
    + apply inf_append_nonempty. exact Hf.
Qed.

Section Loop.
Variable ord : nat -> list node -> list node.
Variable tmin : Q.
Variable tmax : xtime.
Variable i0 : list node.

Definition ssim (s s' : sst) : Prop :=
  s_infs s = s_infs s' /\ s_rows s = s_rows s' /\ l_q (s_logs s) = l_q (s_logs s').

Lemma sis_step_modes : forall k t s s', ssim s s' ->
  exists s1 s1', Discrete.sis_step g (det_rules tt pick) ord tmax false k t s = Ret s1 /\
                 Discrete.sis_step g (det_rules tt pick) ord tmax true k t s' = Ret s1' /\ ssim s1 s1'.
Proof.
  intros k t s s' [Hi [Hrows Hq]]. unfold Discrete.sis_step. rewrite <- Hi, <- Hq.
  destruct (sis_cloop_det k (s_infs s) (contacts g (ord k (s_infs s))) [] [] (l_q (s_logs s)) (Forall_nil _)) as [[[new inf] q] [E Hf]].
  rewrite E. cbn [bind]. cbn [fst snd] in Hf.
  destruct (picks_det tt pick k t inf (s_tlog s') (l_p (s_logs s')) Hf) as [tp Hp]. rewrite Hp. cbn [bind].
  eexists. eexists. split; [reflexivity|]. split; [reflexivity|].
  unfold ssim. cbn [s_infs s_rows s_logs l_q]. rewrite Hrows. repeat split.
Qed.

Lemma sis_loop_modes : forall fuel k t s s', ssim s s' ->
  same_modes (sis_loop g (det_rules tt pick) ord tmin tmax false i0 fuel k t s)
             (sis_loop g (det_rules tt pick) ord tmin tmax true i0 fuel k t s').
Proof.
  induction fuel as [|f IH]; intros k t s s' Hsim; cbn [sis_loop]; pose proof Hsim as [Hi [Hrows _]]; rewrite <- Hi;
    (destruct (nonempty (s_infs s) && xlt t tmax);
      [|right; eexists; eexists; split; [reflexivity|]; split; [reflexivity|]; unfold sis_finish; cbn [o_sim so_rows so_full];
        rewrite Hrows; split; [reflexivity|]; split; [reflexivity|discriminate]]).
  - left. split; reflexivity.
  - destruct (sis_step_modes k t s s' Hsim) as [s1 [s1' [E1 [E1' Hsim1]]]]. rewrite E1, E1'. cbn [bind]. apply IH. exact Hsim1.
Qed.

End Loop.

Lemma discrete_SIS_modes : forall ord i0 tmin tmax fuel,
  same_modes (basic_discrete_SIS_R g (det_rules tt pick) ord (Some i0) None tmin tmax false fuel)
             (basic_discrete_SIS_R g (det_rules tt pick) ord (Some i0) None tmin tmax true fuel).
Proof.
  intros ord i0 tmin tmax fuel. unfold basic_discrete_SIS_R. cbn [with_initial].
  apply sis_loop_modes. unfold ssim, sis_init. cbn [s_infs s_rows s_logs l_q]. repeat split.
Qed.

End SIS.

(* ---------------- the statements ---------------- *)
Theorem dsir_both_modes_rec : forall g tt pick trec ord i0 r0o tmin tmax fuel,
  wf_inputb g i0 (opt_list r0o) = true -> perm_oracle ord -> whole_steps tmin tmax -> gnodes g <> [] ->
  (discrete_SIR g (det_rules tt pick) trec ord (Some i0) r0o None tmin tmax false fuel = Fail OutOfFuel /\
   discrete_SIR g (det_rules tt pick) trec ord (Some i0) r0o None tmin tmax true fuel = Fail OutOfFuel) \/
  exists outP outF fd,
    discrete_SIR g (det_rules tt pick) trec ord (Some i0) r0o None tmin tmax false fuel = Ret outP /\
    discrete_SIR g (det_rules tt pick) trec ord (Some i0) r0o None tmin tmax true fuel = Ret outF /\
    so_full (o_sim outP) = None /\ so_full (o_sim outF) = Some fd /\
    so_rows (o_sim outP) = so_rows (o_sim outF) /\
    consistent_b (mkInv (gnodes g) (fd_hist fd) None (Some [stS; stI; stR])) (so_rows (o_sim outP)) tmin [(stS, stI); (stI, stR)] = true.
Proof.
  intros g tt pick trec ord i0 r0o tmin tmax fuel Hwf Hord Hw Hne.
  destruct (discrete_SIR_modes g tt pick trec ord i0 r0o tmin tmax fuel) as [H|[o [o' [E [E' [Er [Ef _]]]]]]]; [left; exact H|right].
  assert (Hreach : reach (discrete_SIR g (det_rules tt pick) trec ord (Some i0) r0o None tmin tmax true fuel) o')
    by (rewrite E'; constructor).
  destruct (dsir_c10_reach g _ trec ord i0 r0o tmin tmax fuel o' Hwf Hord (det_pick_sound tt pick) Hw Hreach) as [fd [Efd [_ G]]].
  exists o, o', fd. split; [exact E|]. split; [exact E'|]. split; [exact Ef|]. split; [exact Efd|]. split; [exact Er|].
  rewrite Er. exact (proj2 (G Hne)).
Qed.

Theorem dsis_both_modes : forall g tt pick ord i0 tmin tmax fuel,
  wf_inputb g i0 [] = true -> perm_oracle ord -> whole_steps tmin tmax -> gnodes g <> [] ->
  (basic_discrete_SIS_R g (det_rules tt pick) ord (Some i0) None tmin tmax false fuel = Fail OutOfFuel /\
   basic_discrete_SIS_R g (det_rules tt pick) ord (Some i0) None tmin tmax true fuel = Fail OutOfFuel) \/
  exists outP outF fd,
    basic_discrete_SIS_R g (det_rules tt pick) ord (Some i0) None tmin tmax false fuel = Ret outP /\
    basic_discrete_SIS_R g (det_rules tt pick) ord (Some i0) None tmin tmax true fuel = Ret outF /\
    so_full (o_sim outP) = None /\ so_full (o_sim outF) = Some fd /\
    so_rows (o_sim outP) = so_rows (o_sim outF) /\
    consistent_b (mkInv (gnodes g) (fd_hist fd) None (Some [stS; stI])) (so_rows (o_sim outP)) tmin [(stS, stI); (stI, stS)] = true.
Proof.
  intros g tt pick ord i0 tmin tmax fuel Hwf Hord Hw Hne.
  destruct (discrete_SIS_modes g tt pick ord i0 tmin tmax fuel) as [H|[o [o' [E [E' [Er [Ef _]]]]]]]; [left; exact H|right].
  assert (Hreach : reach (basic_discrete_SIS_R g (det_rules tt pick) ord (Some i0) None tmin tmax true fuel) o')
    by (rewrite E'; constructor).
  destruct (dsis_c10_reach g _ ord i0 tmin tmax fuel o' Hwf Hord (det_pick_sound tt pick) Hw Hreach) as [fd [Efd [_ G]]].
  exists o, o', fd. split; [exact E|]. split; [exact E'|]. split; [exact Ef|]. split; [exact Efd|]. split; [exact Er|].
  rewrite Er. exact (proj2 (G Hne)).
Qed.
