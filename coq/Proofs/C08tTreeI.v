(* C08, tree clause: two infinite families as instances, for EVERY n, as `graph`s with the callers' nodelist / index map:
     path_graph n   0 - 1 - .. - (n-1)                 peeling order 0, 1, .., n-1
     star_graph n   centre 0, leaves 1 .. n             peeling order 1, .., n, 0
   path_tree_okb / star_tree_okb: tree_okb accepts them (side conditions proved for every n too);
   and non-vacuity of the hypotheses "connected and acyclic" (ex_conn_acyclic), and a cycle is not acyclic. *)
From EoNV Require Import Prelude Vec VecP Graph Rhs2D Rhs2DP Rhs2 Rhs2GenP Master C08tG C08tS C08tT C08tR C08tA C08tO C08tC C08tF
  C08tTreeA C08tTreeB C08tTreeC C08tTreeD C08tTreeE C08tTreeG C08tTreeH.
From Coq Require Import Lia List Arith Bool.
Import ListNotations.
Local Open Scope nat_scope.

Lemma nd_upto n i : i < n -> node_at (nodes_upto n) i = N.of_nat i.
Proof.
  intros Hi. unfold node_at, nodes_upto. rewrite (nth_indep _ 0%N (N.of_nat 0)) by (rewrite map_length, seq_length; exact Hi).
  rewrite map_nth, seq_nth by exact Hi. reflexivity.
Qed.
Lemma nN_upto n : nN (nodes_upto n) = n.
Proof. unfold nN, nodes_upto. rewrite map_length, seq_length. reflexivity. Qed.
Lemma mem_app x a b : mem x (a ++ b) = (mem x a || mem x b)%bool.
Proof. unfold mem. apply existsb_app. Qed.
Lemma filter_seq_none (f : nat -> bool) k m : (forall x, k <= x < k + m -> f x = false) -> filter f (seq k m) = [].
Proof. intros H. apply filter_nil_iff. intros x Hx. apply in_seq in Hx. apply H. lia. Qed.

(* ---------------- paths ---------------- *)
Definition padj (n : nat) (u : node) : list node :=
  (if N.eqb u 0 then [] else [N.pred u]) ++ (if N.ltb (N.succ u) (N.of_nat n) then [N.succ u] else []).
Definition path_graph (n : nat) : graph :=
  mkGraph (nodes_upto n) (padj n) (padj n) false (fun _ _ => 1%Q) (fun _ => 1%Q) false false.

Lemma pedge n i j : i < n -> j < n ->
  is_edge (path_graph n) (nodes_upto n) i j = (Nat.eqb j (i + 1) || Nat.eqb i (j + 1))%bool.
Proof.
  intros Hi Hj. unfold is_edge. rewrite !nd_upto by assumption. cbn [path_graph gadj]. unfold padj. rewrite mem_app.
  destruct (N.eqb_spec (N.of_nat i) 0) as [Z|Z]; destruct (N.ltb_spec (N.succ (N.of_nat i)) (N.of_nat n)) as [T|T];
    cbn [mem existsb orb];
    repeat match goal with |- context [N.eqb ?a ?b] => destruct (N.eqb_spec a b) end;
    repeat match goal with |- context [Nat.eqb ?a ?b] => destruct (Nat.eqb_spec a b) end; cbn [orb]; try reflexivity; exfalso; lia.
Qed.
Lemma padjb n i j : i < n -> j < n ->
  adjb (path_graph n) (nodes_upto n) i j = (Nat.eqb j (i + 1) || Nat.eqb i (j + 1))%bool.
Proof.
  intros Hi Hj. unfold adjb. rewrite !pedge by assumption.
  repeat match goal with |- context [Nat.eqb ?a ?b] => destruct (Nat.eqb_spec a b) end; cbn [orb]; try reflexivity; exfalso; lia.
Qed.
Lemma path_peel n : forall m k, k + m = n -> tree_peelb (adjb (path_graph n) (nodes_upto n)) (seq k m) = true.
Proof.
  induction m as [|m IH]; intros k Hk; [reflexivity|]. cbn [seq tree_peelb]. rewrite (IH (S k)) by lia. rewrite andb_true_r.
  assert (Nk : ~ In k (seq (S k) m)) by (rewrite in_seq; lia). rewrite (proj2 (memn'_false _ _) Nk). cbn [negb andb].
  destruct m as [|m]; [reflexivity|]. cbn [seq]. apply Nat.eqb_eq. unfold deg_in. cbn [filter].
  rewrite padjb by lia. rewrite Nat.add_1_r, Nat.eqb_refl. cbn [orb length]. rewrite filter_seq_none; [reflexivity|].
  intros x Hx. rewrite padjb by lia.
  repeat match goal with |- context [Nat.eqb ?a ?b] => destruct (Nat.eqb_spec a b) end; cbn [orb]; try reflexivity; exfalso; lia.
Qed.
Lemma path_order n : tree_orderb (path_graph n) (nodes_upto n) (seq 0 n) = true.
Proof.
  unfold tree_orderb, perm_orderb. rewrite nN_upto, seq_length, Nat.eqb_refl, (path_peel n n 0) by lia. cbn [andb].
  rewrite andb_true_r. apply forallb_forall. intros k Hk. apply in_seq in Hk. apply Nat.ltb_lt. lia.
Qed.
Lemma path_noloop n : noloopb (path_graph n) (nodes_upto n) = true.
Proof.
  unfold noloopb. apply forallb_forall. intros i Hi. rewrite nN_upto in Hi. apply in_seq in Hi. rewrite pedge by lia.
  repeat match goal with |- context [Nat.eqb ?a ?b] => destruct (Nat.eqb_spec a b) end; cbn [orb negb]; try reflexivity; exfalso; lia.
Qed.
Lemma path_pb_wf n : pb_wfb (path_graph n) (nodes_upto n) idx_of = true.
Proof.
  unfold pb_wfb. rewrite nN_upto. cbn [path_graph gnodes]. fold (nN (nodes_upto n)). rewrite nN_upto, Nat.eqb_refl. cbn [andb].
  apply forallb_forall. intros i Hi. apply in_seq in Hi. rewrite nd_upto by lia. unfold idx_of at 1.
  rewrite Nat2N.id, Nat.eqb_refl. cbn [andb]. change (gadj (path_graph n) (N.of_nat i)) with (padj n (N.of_nat i)). unfold padj.
  assert (V : forall v, (N.to_nat v < n) -> (Nat.ltb (idx_of v) n && N.eqb (node_at (nodes_upto n) (idx_of v)) v)%bool = true).
  { intros v Hv. unfold idx_of. rewrite nd_upto by exact Hv. rewrite N2Nat.id, N.eqb_refl, andb_true_r. apply Nat.ltb_lt. exact Hv. }
  destruct (N.eqb_spec (N.of_nat i) 0) as [Z|Z]; destruct (N.ltb_spec (N.succ (N.of_nat i)) (N.of_nat n)) as [T|T];
    cbn [app nodupb mem existsb forallb negb orb andb]; rewrite ?V by lia; try reflexivity.
  destruct (N.eqb_spec (N.pred (N.of_nat i)) (N.succ (N.of_nat i))); [exfalso; lia|reflexivity].
Qed.
Theorem path_tree_okb n : tree_okb (path_graph n) (nodes_upto n) idx_of = true.
Proof.
  apply (forest_tree_okb _ _ _ (seq 0 n) (path_pb_wf n) (path_noloop n)). apply tree_forest_order. apply path_order.
Qed.

(* ---------------- stars ---------------- *)
Definition sadj (n : nat) (u : node) : list node := if N.eqb u 0 then map N.of_nat (seq 1 n) else [0%N].
Definition star_graph (n : nat) : graph :=
  mkGraph (nodes_upto (S n)) (sadj n) (sadj n) false (fun _ _ => 1%Q) (fun _ => 1%Q) false false.

Lemma mem_map_of_nat j k m : mem (N.of_nat j) (map N.of_nat (seq k m)) = (Nat.leb k j && Nat.ltb j (k + m))%bool.
Proof.
  destruct (mem (N.of_nat j) (map N.of_nat (seq k m))) eqn:E.
  - apply mem_In in E. apply in_map_iff in E. destruct E as [x [Ex Hx]]. apply in_seq in Hx. assert (x = j) by lia. subst x.
    symmetry. apply andb_true_intro. split; [apply Nat.leb_le|apply Nat.ltb_lt]; lia.
  - destruct (Nat.leb_spec k j) as [A|A]; [|reflexivity]. destruct (Nat.ltb_spec j (k + m)) as [B|B]; [|reflexivity]. exfalso.
    assert (K : mem (N.of_nat j) (map N.of_nat (seq k m)) = true) by (apply mem_In; apply in_map; apply in_seq; lia).
    rewrite K in E. discriminate E.
Qed.
Lemma sedge n i j : i <= n -> j <= n ->
  is_edge (star_graph n) (nodes_upto (S n)) i j = ((Nat.eqb i 0 && negb (Nat.eqb j 0)) || (negb (Nat.eqb i 0) && Nat.eqb j 0))%bool.
Proof.
  intros Hi Hj. unfold is_edge. rewrite !nd_upto by lia. cbn [star_graph gadj]. unfold sadj.
  destruct (N.eqb_spec (N.of_nat i) 0) as [Z|Z].
  - rewrite mem_map_of_nat. assert (i = 0) by lia. subst i. cbn [Nat.eqb negb andb orb].
    destruct (Nat.eqb_spec j 0) as [->|Nj]; [reflexivity|]. cbn [negb]. apply andb_true_intro.
    split; [apply Nat.leb_le|apply Nat.ltb_lt]; lia.
  - destruct (Nat.eqb_spec i 0) as [->|Ni]; [exfalso; apply Z; reflexivity|]. cbn [negb andb orb mem existsb].
    destruct (Nat.eqb_spec j 0) as [->|Nj]; [reflexivity|]. destruct (N.eqb_spec (N.of_nat j) 0); [exfalso; lia|reflexivity].
Qed.
Lemma sadjb n i j : i <= n -> j <= n ->
  adjb (star_graph n) (nodes_upto (S n)) i j = ((Nat.eqb i 0 && negb (Nat.eqb j 0)) || (negb (Nat.eqb i 0) && Nat.eqb j 0))%bool.
Proof.
  intros Hi Hj. unfold adjb. rewrite !sedge by assumption.
  destruct (Nat.eqb i 0), (Nat.eqb j 0); reflexivity.
Qed.
Lemma star_peel n : forall m k, 1 <= k -> k + m = S n ->
  tree_peelb (adjb (star_graph n) (nodes_upto (S n))) (seq k m ++ [0]) = true.
Proof.
  induction m as [|m IH]; intros k Hk Hkm; [reflexivity|]. cbn [seq app tree_peelb]. rewrite (IH (S k)) by lia. rewrite andb_true_r.
  assert (Nk : ~ In k (seq (S k) m ++ [0])).
  { intros K. apply in_app_or in K. destruct K as [K|[K|[]]]; [apply in_seq in K; lia|lia]. }
  rewrite (proj2 (memn'_false _ _) Nk). cbn [negb andb].
  destruct (seq (S k) m ++ [0]) as [|o t] eqn:E; [destruct (seq (S k) m); discriminate E|]. rewrite <- E.
  apply Nat.eqb_eq. unfold deg_in. rewrite filter_app, app_length. rewrite filter_seq_none.
  - cbn [filter length]. rewrite sadjb by lia. destruct (Nat.eqb_spec k 0); [exfalso; lia|reflexivity].
  - intros x Hx. rewrite sadjb by lia. destruct (Nat.eqb_spec k 0); [exfalso; lia|]. destruct (Nat.eqb_spec x 0); [exfalso; lia|reflexivity].
Qed.
Lemma star_order n : tree_orderb (star_graph n) (nodes_upto (S n)) (seq 1 n ++ [0]) = true.
Proof.
  unfold tree_orderb, perm_orderb. rewrite nN_upto, app_length, seq_length. cbn [length]. rewrite Nat.add_1_r, Nat.eqb_refl.
  rewrite (star_peel n n 1) by lia. cbn [andb]. rewrite andb_true_r. apply forallb_forall. intros k Hk. apply Nat.ltb_lt.
  apply in_app_or in Hk. destruct Hk as [Hk|[<-|[]]]; [apply in_seq in Hk; lia|lia].
Qed.
Lemma star_noloop n : noloopb (star_graph n) (nodes_upto (S n)) = true.
Proof.
  unfold noloopb. apply forallb_forall. intros i Hi. rewrite nN_upto in Hi. apply in_seq in Hi. rewrite sedge by lia.
  destruct (Nat.eqb i 0); reflexivity.
Qed.
Lemma nodupb_intro l : NoDup l -> nodupb l = true.
Proof.
  induction 1 as [|x l Hx _ IH]; [reflexivity|]. cbn [nodupb]. rewrite IH, andb_true_r. apply negb_true_iff.
  destruct (mem x l) eqn:E; [|reflexivity]. exfalso. apply Hx. apply mem_In. exact E.
Qed.
Lemma star_pb_wf n : pb_wfb (star_graph n) (nodes_upto (S n)) idx_of = true.
Proof.
  unfold pb_wfb. rewrite nN_upto. cbn [star_graph gnodes]. fold (nN (nodes_upto (S n))). rewrite nN_upto, Nat.eqb_refl. cbn [andb].
  apply forallb_forall. intros i Hi. apply in_seq in Hi. rewrite nd_upto by lia. unfold idx_of at 1.
  rewrite Nat2N.id, Nat.eqb_refl. cbn [andb]. change (gadj (star_graph n) (N.of_nat i)) with (sadj n (N.of_nat i)). unfold sadj.
  assert (V : forall v, (N.to_nat v < S n) -> (Nat.ltb (idx_of v) (S n) && N.eqb (node_at (nodes_upto (S n)) (idx_of v)) v)%bool = true).
  { intros v Hv. unfold idx_of. rewrite nd_upto by exact Hv. rewrite N2Nat.id, N.eqb_refl, andb_true_r. apply Nat.ltb_lt. exact Hv. }
  destruct (N.eqb_spec (N.of_nat i) 0) as [Z|Z].
  - apply andb_true_intro. split.
    + apply nodupb_intro. apply FinFun.Injective_map_NoDup; [intros a b; apply Nat2N.inj|apply seq_NoDup].
    + apply forallb_forall. intros v Hv. apply in_map_iff in Hv. destruct Hv as [x [<- Hx]]. apply in_seq in Hx. apply V. lia.
  - cbn [nodupb mem existsb negb andb forallb]. rewrite V by lia. reflexivity.
Qed.
Theorem star_tree_okb n : tree_okb (star_graph n) (nodes_upto (S n)) idx_of = true.
Proof.
  apply (forest_tree_okb _ _ _ (seq 1 n ++ [0]) (star_pb_wf n) (star_noloop n)). apply tree_forest_order. apply star_order.
Qed.

(* the clause on every path and every star *)
Theorem path_star_exact n tr rc :
  (forall p t, nonneg (nodes_upto n) p -> inMs (nodes_upto n) (branch_cuts (path_graph n) (nodes_upto n)) p ->
     veq (g_dSIR_pair_based (marginals (path_graph n) (nodes_upto n) p) t (path_graph n) (nodes_upto n) idx_of tr rc)
         (marginals (path_graph n) (nodes_upto n) (master_rhs (path_graph n) (nodes_upto n) idx_of tr rc p))) /\
  (forall p t, nonneg (nodes_upto (S n)) p -> inMs (nodes_upto (S n)) (branch_cuts (star_graph n) (nodes_upto (S n))) p ->
     veq (g_dSIR_pair_based (marginals (star_graph n) (nodes_upto (S n)) p) t (star_graph n) (nodes_upto (S n)) idx_of tr rc)
         (marginals (star_graph n) (nodes_upto (S n)) (master_rhs (star_graph n) (nodes_upto (S n)) idx_of tr rc p))).
Proof.
  split; intros p t; apply tree_exact_on_M; [apply path_tree_okb|apply star_tree_okb].
Qed.

(* ---------------- non-vacuity of "connected and acyclic"; a cycle is not acyclic ---------------- *)
Definition ex_tree5' : graph := graph_of [(0, [1]); (1, [0; 2]); (2, [1; 3; 4]); (3, [2]); (4, [2])]%N.
Definition ex_cyc4' : graph := graph_of [(0, [1; 3]); (1, [0; 2]); (2, [1; 3]); (3, [2; 0])]%N.
Lemma ex_conn_acyclic : wf_graphb ex_tree5' = true /\ pos_connected ex_tree5' (gnodes ex_tree5') /\ pos_acyclic ex_tree5' (gnodes ex_tree5').
Proof.
  split; [vm_compute; reflexivity|]. apply tree_iff_connected_acyclic_pos; [vm_compute; reflexivity|].
  exists [0; 1; 3; 4; 2]. vm_compute. reflexivity.
Qed.
Lemma ex_cycle_not_acyclic : wf_graphb ex_cyc4' = true /\ ~ pos_acyclic ex_cyc4' (gnodes ex_cyc4').
Proof.
  split; [vm_compute; reflexivity|]. intros AC. apply (AC [0; 1; 2; 3]). unfold simple_cycle. repeat split.
  - repeat constructor; cbn; intuition discriminate.
  - intros x Hx. cbn in Hx. cbn. intuition.
  - cbn. lia.
Qed.
