(* C19 — soundness of the effect checker of Model/Effects.v, part 1: the
   abstraction invariant and its preservation by expressions.

   [Inv n0 H st E]: the concrete state st (environment + heap of the abstract heap
   semantics) is described by the checker's abstract environment E and abstract heap
   H, where n0 is the allocation pointer at entry of the analysed function (locations
   below n0 existed before the call), R the regions of the parameters at entry and b0
   the buffer owners at entry.  Part 2 (EffectsSound2.v) proves preservation by
   statements and the theorems [analyse_sound], [safe_sound]. *)
From Coq Require Import List NArith PArith Bool String Lia Arith FSets.FSetPositive SetoidList.
Require Import EoNV.Model.Effects EoNV.Proofs.EffectsP.
Import ListNotations.

Module PS := PositiveSet.


(* ------------------------------------------------------------- finite sets *)
Lemma aunion_l : forall a s t, PS.In a s -> PS.In a (aunion s t).
Proof. intros a s t Hin. apply PS.union_2. exact Hin. Qed.
Lemma aunion_r : forall a s t, PS.In a t -> PS.In a (aunion s t).
Proof. intros a s t Hin. apply PS.union_3. exact Hin. Qed.
Lemma asingle_in : forall a, PS.In a (asingle a).
Proof. intros a. apply PS.singleton_2. reflexivity. Qed.
Lemma aempty_in : forall a, ~ PS.In a aempty.
Proof. intros a Hin. exact (PS.empty_1 Hin). Qed.

Lemma aelems_in : forall a s, In a (aelems s) -> PS.In a s.
Proof.
  intros a s Hin. apply PS.elements_2. apply SetoidList.InA_alt. exists a. split; [reflexivity|exact Hin].
Qed.

Lemma aunions_in : forall a s ls, In s ls -> PS.In a s -> PS.In a (aunions ls).
Proof.
  intros a s ls. induction ls as [|t ls IH]; intros Hs Ha; [destruct Hs|].
  cbn [aunions fold_right]. destruct Hs as [->|Hs].
  - apply aunion_l. exact Ha.
  - apply aunion_r. exact (IH Hs Ha).
Qed.

Lemma alooks_in : forall E ys y a, In y ys -> PS.In a (alook E y) -> PS.In a (alooks E ys).
Proof.
  intros E ys y a Hy Ha. unfold alooks. apply (aunions_in a (alook E y)); [|exact Ha].
  apply in_map. exact Hy.
Qed.

Lemma fold_aunion_in : forall (f : aobj -> aset_t) a b l,
  In b l -> PS.In a (f b) -> PS.In a (fold_right (fun b acc => aunion (f b) acc) aempty l).
Proof.
  intros f a b l. induction l as [|c l IH]; intros Hb Ha; [destruct Hb|].
  cbn [fold_right]. destruct Hb as [->|Hb].
  - apply aunion_l. exact Ha.
  - apply aunion_r. exact (IH Hb Ha).
Qed.

Lemma aload_in : forall H f l a b, PS.In b l -> PS.In a (hpts H f b) -> PS.In a (aload H f l).
Proof.
  intros H f l a b Hb Ha. unfold aload. apply (fold_aunion_in (hpts H f) a b); [|exact Ha].
  apply in_aelems. exact Hb.
Qed.

Lemma forallb_aelems : forall (f : aobj -> bool) s a,
  forallb f (aelems s) = true -> PS.In a s -> f a = true.
Proof.
  intros f s a Hf Ha. rewrite forallb_forall in Hf. apply Hf. apply in_aelems. exact Ha.
Qed.

(* ----------------------------------------------------- the field maps of H *)
Lemma fmatch_proper : forall f g g', (g' =? g) = true -> fmatch f g' = fmatch f g.
Proof. intros f g g' He. apply N.eqb_eq in He. subst g'. reflexivity. Qed.

Lemma fm_look_match : forall m f g a,
  fmatch f g = true -> PS.In a (fm_look m g) -> PS.In a (fm_match m f).
Proof.
  induction m as [|[g' v] m IH]; intros f g a Hm Ha; cbn [fm_look fm_match] in *.
  - exact Ha.
  - destruct (g' =? g) eqn:He.
    + rewrite (fmatch_proper f g g' He), Hm. apply aunion_l. exact Ha.
    + destruct (fmatch f g'); [apply aunion_r|]; exact (IH f g a Hm Ha).
Qed.

Lemma hp_look_match : forall h s f g a,
  fmatch f g = true -> PS.In a (hp_look h s g) -> PS.In a (hp_match h s f).
Proof. intros h s f g a. unfold hp_look, hp_match. apply fm_look_match. Qed.


(* ------------------------------------------- order and join of environments *)
Definition aleq (E F : aenv) : Prop := forall x a, PS.In a (alook E x) -> PS.In a (alook F x).

Lemma aleq_refl : forall E, aleq E E.
Proof. intros E x a Ha. exact Ha. Qed.
Lemma aleq_trans : forall E F G, aleq E F -> aleq F G -> aleq E G.
Proof. intros E F G H1 H2 x a Ha. exact (H2 x a (H1 x a Ha)). Qed.
Lemma aenv_leq_aleq : forall E F, aenv_leq E F = true -> aleq E F.
Proof. intros E F Hl x a. exact (aenv_leq_sound E F x a Hl). Qed.

Lemma asubset_refl : forall s, asubset s s = true.
Proof. intros s. apply PS.subset_1. intros a Ha. exact Ha. Qed.

Lemma aenv_leq_refl : forall E, aenv_leq E E = true.
Proof.
  induction E as [|[x v] E IH]; [reflexivity|].
  cbn [aenv_leq]. rewrite N.eqb_refl, asubset_refl, IH. reflexivity.
Qed.

Lemma alook_aset : forall E x z v, alook (aset E x v) z = if x =? z then v else alook E z.
Proof.
  intros E x z v. destruct (N.eqb_spec x z) as [->|Hne].
  - apply alook_aset_same.
  - apply alook_aset_other. intros Heq. apply Hne. symmetry. exact Heq.
Qed.

Lemma aenv_join_gen_sound : forall F E x a,
  PS.In a (alook E x) \/ PS.In a (alook F x) -> PS.In a (alook (aenv_join_gen E F) x).
Proof.
  induction F as [|[y v] F IH]; intros E x a Hor; cbn [aenv_join_gen].
  - destruct Hor as [Ha|Ha]; [exact Ha|]. cbn [alook] in Ha. exfalso. exact (aempty_in a Ha).
  - apply IH. rewrite alook_aset. cbn [alook] in Hor.
    destruct (y =? x) eqn:Hyx.
    + left. apply N.eqb_eq in Hyx. subst y.
      destruct Hor as [Ha|Ha]; [apply aunion_r|apply aunion_l]; exact Ha.
    + destruct Hor as [Ha|Ha]; [left|right]; exact Ha.
Qed.

Lemma aenv_join_sound : forall E F x a,
  PS.In a (alook E x) \/ PS.In a (alook F x) -> PS.In a (alook (aenv_join E F) x).
Proof.
  induction E as [|[y v] E IH]; intros F x a Hor.
  - cbn [aenv_join]. destruct Hor as [Ha|Ha]; [|exact Ha]. cbn [alook] in Ha. exfalso. exact (aempty_in a Ha).
  - destruct F as [|[z w] F].
    + cbn [aenv_join]. destruct Hor as [Ha|Ha]; [exact Ha|]. cbn [alook] in Ha. exfalso. exact (aempty_in a Ha).
    + cbn [aenv_join]. destruct (N.eqb_spec y z) as [->|Hne].
      * cbn [alook] in *. destruct (z =? x).
        -- destruct Hor as [Ha|Ha]; [apply aunion_l|apply aunion_r]; exact Ha.
        -- apply IH. exact Hor.
      * apply aenv_join_gen_sound. exact Hor.
Qed.

Lemma aenv_join_l : forall E F, aleq E (aenv_join E F).
Proof. intros E F x a Ha. apply aenv_join_sound. left. exact Ha. Qed.
Lemma aenv_join_r : forall E F, aleq F (aenv_join E F).
Proof. intros E F x a Ha. apply aenv_join_sound. right. exact Ha. Qed.

(* ------------------------------------------------------------ the invariant *)
(* every reference of the concrete heap is between existing objects; an object that
   existed before the call holds objects that existed before and lie in every region
   it lies in itself, or objects that a write of the function may have stored into a
   pre-existing object ([po H]); the references held by an object created during the
   call are recorded in the abstract heap under the object's allocation site and the
   field they are stored under; immutable scalars may be held by anything *)
(* k is described by an abstract object of S, or is an immutable scalar (those are not
   recorded in the abstract heap) *)
Definition descr (n0 : loc) (R : region) (h : heap) (S : aset_t) (k : loc) : Prop :=
  (exists a, PS.In a S /\ gamma n0 R h a k) \/ gamma n0 R h ALeaf k.
Definition inv_heap (n0 : loc) (R : region) (H : aheap) (h : heap) : Prop :=
  forall l g k, kids h l g k ->
    ((l < next h)%nat /\ (k < next h)%nat) /\
    ((l < n0)%nat -> ((k < n0)%nat /\ forall q, R q l -> R q k) \/
                     descr n0 R h (fm_look (po H) g) k) /\
    ((n0 <= l)%nat -> descr n0 R h (hp_look (hp H) (site_of h l) g) k).

(* h' extends h: nothing is deallocated and no object changes its allocation site *)
Definition ext (h h' : heap) : Prop :=
  (next h <= next h')%nat /\ forall m, (m < next h)%nat -> site_of h' m = site_of h m.

Lemma ext_refl : forall h, ext h h.
Proof. intros h. split; [lia|reflexivity]. Qed.
Lemma ext_trans : forall h1 h2 h3, ext h1 h2 -> ext h2 h3 -> ext h1 h3.
Proof.
  intros h1 h2 h3 [Hn1 Hs1] [Hn2 Hs2]. split; [lia|].
  intros m Hm. rewrite Hs2 by lia. apply Hs1. exact Hm.
Qed.

Lemma gamma_ext : forall n0 R h h' a l,
  ext h h' -> (l < next h)%nat -> gamma n0 R h a l -> gamma n0 R h' a l.
Proof.
  intros n0 R h h' a l [Hn Hs] Hl Hg. destruct a as [p|p|]; cbn [gamma] in *.
  - exact Hg.
  - destruct Hg as [Hge Hsite]. split; [exact Hge|]. rewrite Hs by exact Hl. exact Hsite.
  - exact Hg.
Qed.

Lemma inv_env_ext : forall n0 R h h' e E, ext h h' -> inv_env n0 R h e E -> inv_env n0 R h' e E.
Proof.
  intros n0 R h h' e E Hext Hi x l Hx. destruct (Hi x l Hx) as [Hlt [a [Hin Hg]]].
  split; [destruct Hext; lia|]. exists a. split; [exact Hin|exact (gamma_ext n0 R h h' a l Hext Hlt Hg)].
Qed.

Lemma inv_env_aleq : forall n0 R h e E F, aleq E F -> inv_env n0 R h e E -> inv_env n0 R h e F.
Proof.
  intros n0 R h e E F Hl Hi x l Hx. destruct (Hi x l Hx) as [Hlt [a [Hin Hg]]].
  split; [exact Hlt|]. exists a. split; [exact (Hl x a Hin)|exact Hg].
Qed.

Lemma inv_env_upd : forall n0 R h e E x l v a,
  inv_env n0 R h e E -> (l < next h)%nat -> PS.In a v -> gamma n0 R h a l ->
  inv_env n0 R h (upd e x (Some l)) (aset E x v).
Proof.
  intros n0 R h e E x l v a Hi Hl Ha Hg z m Hz. unfold upd in Hz. rewrite alook_aset.
  rewrite (N.eqb_sym x z). destruct (z =? x).
  - injection Hz as <-. split; [exact Hl|]. exists a. split; [exact Ha|exact Hg].
  - exact (Hi z m Hz).
Qed.

Lemma descr_ext : forall n0 R h h' S k,
  ext h h' -> (k < next h)%nat -> descr n0 R h S k -> descr n0 R h' S k.
Proof.
  intros n0 R h h' S k Hext Hk [[a [Ha Hg]]|Hg].
  - left. exists a. split; [exact Ha|exact (gamma_ext n0 R h h' a k Hext Hk Hg)].
  - right. exact (gamma_ext n0 R h h' ALeaf k Hext Hk Hg).
Qed.

Lemma noleaf_in : forall a s, a <> ALeaf -> PS.In a s -> PS.In a (noleaf s).
Proof. intros a s Hne Ha. unfold noleaf. apply PS.remove_2; [|exact Ha]. intros Heq. apply Hne. symmetry. exact Heq. Qed.

(* a described location is described by the set without the scalar, or is a scalar *)
Lemma descr_noleaf : forall n0 R h S T a k,
  PS.In a S -> gamma n0 R h a k -> asubset (noleaf S) T = true -> descr n0 R h T k.
Proof.
  intros n0 R h S T a k Ha Hg Hsub. destruct (Pos.eq_dec a ALeaf) as [->|Hne].
  - right. exact Hg.
  - left. exists a. split; [|exact Hg]. exact (asubset_in _ _ a Hsub (noleaf_in a S Hne Ha)).
Qed.

Lemma hpts_leaf : forall H f a, PS.In ALeaf (hpts H f a).
Proof. intros H f a. unfold hpts. apply aunion_l. apply asingle_in. Qed.

(* -------------------------------------------------- one reference, abstractly *)
Lemma kids_sound : forall n0 R H h l0 g l a0 f,
  inv_heap n0 R H h -> kids h l0 g l -> gamma n0 R h a0 l0 -> fmatch f g = true ->
  (l < next h)%nat /\ exists a, PS.In a (hpts H f a0) /\ gamma n0 R h a l.
Proof.
  intros n0 R H h l0 g l a0 f Hh Hk Hg Hm.
  destruct (Hh l0 g l Hk) as [[_ Hlt] [Hold Hnew]]. split; [exact Hlt|].
  destruct a0 as [p|p|]; cbn [gamma] in Hg.
  - destruct Hg as [Hl0 Hr]. destruct (Hold Hl0) as [[Hlo Hcl]|[[a [Ha Hga]]|Hlf]].
    + exists (xI p). split; [unfold hpts; apply aunion_r; apply aunion_l; apply asingle_in|].
      cbn [gamma]. split; [exact Hlo|exact (Hcl _ Hr)].
    + exists a. split; [unfold hpts; apply aunion_r; apply aunion_r; exact (fm_look_match _ f g a Hm Ha)|exact Hga].
    + exists ALeaf. split; [apply hpts_leaf|exact Hlf].
  - destruct Hg as [Hge Hs]. destruct (Hnew Hge) as [[a [Ha Hga]]|Hlf].
    + exists a. split; [|exact Hga].
      rewrite Hs in Ha. unfold hpts. apply aunion_r. exact (hp_look_match _ _ f g a Hm Ha).
    + exists ALeaf. split; [apply hpts_leaf|exact Hlf].
  - destruct Hg.
Qed.

Lemma fmatch_0 : forall g, fmatch 0 g = true.
Proof. intros g. reflexivity. Qed.

Lemma reach_sound : forall n0 R H h r l0 l,
  inv_heap n0 R H h -> aclosed H r = true -> reach h l0 l ->
  forall a0, PS.In a0 r -> gamma n0 R h a0 l0 -> (l0 < next h)%nat ->
  (l < next h)%nat /\ exists a, PS.In a r /\ gamma n0 R h a l.
Proof.
  intros n0 R H h r l0 l Hh Hc Hr. induction Hr as [l0|l0 k g m Hr IH Hk]; intros a0 Ha0 Hg0 Hl0.
  - split; [exact Hl0|]. exists a0. split; assumption.
  - destruct (IH a0 Ha0 Hg0 Hl0) as [Hkn [ak [Hak Hgk]]].
    destruct (kids_sound n0 R H h k g m ak 0 Hh Hk Hgk (fmatch_0 g)) as [Hm [a [Ha Hga]]].
    split; [exact Hm|]. exists a. split; [|exact Hga].
    unfold aclosed in Hc. pose proof (forallb_aelems _ r ak Hc Hak) as Hsub. cbn beta in Hsub.
    exact (asubset_in _ _ a Hsub Ha).
Qed.

Lemma areach_spec : forall H l r, areach H l = Some r -> aclosed H r = true /\ asubset l r = true.
Proof.
  intros H l r. unfold areach. generalize (areach_any H l). intros r0. cbn zeta.
  destruct (aclosed H r0) eqn:Hc; cbn [andb]; [|discriminate].
  destruct (asubset l r0) eqn:Hs; [|discriminate].
  intros Hr. injection Hr as <-. split; assumption.
Qed.

Lemma reach_vars_sound : forall n0 R H h e E ys r y l0 l,
  inv_env n0 R h e E -> inv_heap n0 R H h -> areach H (alooks E ys) = Some r ->
  In y ys -> e y = Some l0 -> reach h l0 l ->
  (l < next h)%nat /\ exists a, PS.In a r /\ gamma n0 R h a l.
Proof.
  intros n0 R H h e E ys r y l0 l He Hh Hr Hy Hey Hre.
  destruct (areach_spec _ _ _ Hr) as [Hc Hs].
  destruct (He y l0 Hey) as [Hl0 [a0 [Ha0 Hg0]]].
  apply (reach_sound n0 R H h r l0 l Hh Hc Hre a0); [|exact Hg0|exact Hl0].
  apply (asubset_in _ _ a0 Hs). exact (alooks_in E ys y a0 Hy Ha0).
Qed.

(* ------------------------------------------------------------- expressions *)
(* a described location whose buffer existed before the call: the buffer lies in the
   region of a parameter in the taint of the abstract value *)
Lemma taint1_view : forall n0 R b0 H h a l,
  inv_bt n0 R b0 H h -> inv_base n0 b0 h -> (l < next h)%nat -> gamma n0 R h a l -> (base h l < n0)%nat ->
  exists q l', In q (taint1 H a) /\ R q l' /\ base h l = b0 l'.
Proof.
  intros n0 R b0 H h a l Hbt Hb0 Hl Hg Hb. destruct a as [p|p|]; cbn [gamma taint1] in *.
  - destruct Hg as [Hold Hr]. exists (Pos.pred_N p), l. split; [left; reflexivity|]. split; [exact Hr|exact (Hb0 l Hold)].
  - destruct Hg as [Hge Hs]. rewrite <- Hs. exact (Hbt l Hge Hl Hb).
  - destruct Hg.
Qed.

(* allocation of one object: the invariant is kept if the references of the new
   object are recorded under its site and its buffer, when it existed before, under
   the site's taint *)
Lemma alloc_preserves : forall n0 R b0 H h h' l s,
  alloc_rel h h' l s ->
  inv_heap n0 R H h -> inv_bt n0 R b0 H h -> inv_base n0 b0 h -> (n0 <= next h)%nat ->
  (forall g k, kids h' l g k -> (k < next h)%nat /\ descr n0 R h (hp_look (hp H) s g) k) ->
  ((base h' l < n0)%nat -> exists q l', In q (bt_look (bt H) s) /\ R q l' /\ base h' l = b0 l') ->
  ext h h' /\ inv_heap n0 R H h' /\ inv_bt n0 R b0 H h' /\ inv_base n0 b0 h' /\ (l < next h')%nat /\
  gamma n0 R h' (ASite s) l.
Proof.
  intros n0 R b0 H h h' l s [Hl [Hnext [Hsite [Hsites [Hbases Hkeep]]]]] Hh Hbt Hb0 Hn0 Hk Hb.
  assert (Hext : ext h h').
  { split; [lia|]. intros m Hm. apply Hsites. lia. }
  assert (Hge : (n0 <= l)%nat) by lia.
  split; [exact Hext|]. split; [|split; [|split; [|split]]].
  - intros m g k Hkm. destruct (Nat.eq_dec m l) as [->|Hml].
    + destruct (Hk g k Hkm) as [Hkn Hd].
      split; [lia|]. split; [intros Hlt; lia|]. intros _. rewrite Hsite.
      exact (descr_ext n0 R h h' _ k Hext Hkn Hd).
    + apply Hkeep in Hkm; [|exact Hml]. destruct (Hh m g k Hkm) as [[Hm Hkn] [Hold Hnew]].
      split; [lia|]. split.
      * intros Hlt. destruct (Hold Hlt) as [Hcl|Hd]; [left; exact Hcl|right].
        exact (descr_ext n0 R h h' _ k Hext Hkn Hd).
      * intros Hgem. rewrite Hsites by exact Hml.
        exact (descr_ext n0 R h h' _ k Hext Hkn (Hnew Hgem)).
  - intros m Hgem Hm Hbm. destruct (Nat.eq_dec m l) as [->|Hml].
    + rewrite Hsite. exact (Hb Hbm).
    + rewrite Hsites by exact Hml. rewrite Hbases in Hbm by exact Hml. rewrite Hbases by exact Hml.
      apply (Hbt m Hgem); [lia|exact Hbm].
  - intros m Hm. rewrite Hbases by lia. exact (Hb0 m Hm).
  - lia.
  - cbn [gamma ASite]. split; [exact Hge|]. rewrite Hsite. symmetry. apply N.pos_pred_succ.
Qed.

Lemma eval_sound : forall n0 R b0 H h e E ex h' l,
  eval h e ex h' l -> forall v, eval_expr H E ex = Some v ->
  inv_env n0 R h e E -> inv_heap n0 R H h -> inv_bt n0 R b0 H h -> inv_base n0 b0 h -> (n0 <= next h)%nat ->
  ext h h' /\ inv_heap n0 R H h' /\ inv_bt n0 R b0 H h' /\ inv_base n0 b0 h' /\ (l < next h')%nat /\
  exists a, PS.In a v /\ gamma n0 R h' a l.
Proof.
  intros n0 R b0 H h e E ex h' l Hev.
  induction Hev as [y l Hy|y f l0 g l Hy Hk Hm|y f l0 h' l Hy Hal Hown Hnk|ys y l0 l Hin Hy Hr
                    |s cf sh cp dp vw h' l Hal Hbase Hkids|a b h' l Hev IH|a b h' l Hev IH];
    intros v Hv He Hh Hbt Hb0 Hn0.
  - (* EVar *)
    cbn [eval_expr] in Hv. injection Hv as <-.
    destruct (He y l Hy) as [Hl [a [Ha Hg]]].
    split; [apply ext_refl|]. split; [exact Hh|]. split; [exact Hbt|]. split; [exact Hb0|]. split; [exact Hl|].
    exists a. split; assumption.
  - (* ELoad, an object held by y *)
    cbn [eval_expr] in Hv. injection Hv as <-.
    destruct (He y l0 Hy) as [Hl0 [a0 [Ha0 Hg0]]].
    destruct (kids_sound n0 R H h l0 g l a0 f Hh Hk Hg0 Hm) as [Hl [a [Ha Hg]]].
    split; [apply ext_refl|]. split; [exact Hh|]. split; [exact Hbt|]. split; [exact Hb0|]. split; [exact Hl|].
    exists a. split; [|exact Hg]. exact (aload_in H f _ a a0 Ha0 Ha).
  - (* ELoad, a new immutable scalar *)
    cbn [eval_expr] in Hv. injection Hv as <-.
    destruct (He y l0 Hy) as [Hl0 [a0 [Ha0 Hg0]]].
    destruct (alloc_preserves n0 R b0 H h h' l LEAF_SITE Hal Hh Hbt Hb0 Hn0) as [Hext [Hh' [Hbt' [Hb0' [Hl Hg]]]]].
    + intros g k Hk. exfalso. exact (Hnk g k Hk).
    + intros Hb. rewrite Hown in Hb. destruct Hal as [-> _]. lia.
    + split; [exact Hext|]. split; [exact Hh'|]. split; [exact Hbt'|]. split; [exact Hb0'|]. split; [exact Hl|].
      exists ALeaf. split; [|exact Hg]. exact (aload_in H f _ ALeaf a0 Ha0 (hpts_leaf H f a0)).
  - (* EReach *)
    cbn [eval_expr] in Hv.
    destruct (reach_vars_sound n0 R H h e E ys v y l0 l He Hh Hv Hin Hy Hr) as [Hl [a [Ha Hg]]].
    split; [apply ext_refl|]. split; [exact Hh|]. split; [exact Hbt|]. split; [exact Hb0|]. split; [exact Hl|].
    exists a. split; assumption.
  - (* EAlloc *)
    cbn [eval_expr] in Hv.
    destruct (areach H (alooks E dp)) as [rd|] eqn:Hrd; [|discriminate Hv].
    set (need := aunion (alooks E sh) (aunion (aload H cf (alooks E cp)) rd)) in Hv.
    destruct (negb (s =? LEAF_SITE)); cbn [andb] in Hv; [|discriminate Hv].
    destruct (asubset (noleaf need) (hp_look (hp H) s 0)) eqn:Hneed; cbn [andb] in Hv; [|discriminate Hv].
    destruct (nsubset (taint H (alooks E vw)) (bt_look (bt H) s)) eqn:Htaint; [|discriminate Hv].
    injection Hv as <-.
    destruct (alloc_preserves n0 R b0 H h h' l s Hal Hh Hbt Hb0 Hn0) as [Hext [Hh' [Hbt' [Hb0' [Hl Hg]]]]].
    + (* the references of the new object *)
      intros g k Hk. destruct (Hkids g k Hk) as [-> Hsrc].
      assert (Hdesc : (k < next h)%nat /\ exists a, PS.In a need /\ gamma n0 R h a k).
      { destruct Hsrc as [[z [Hz Hez]]|[[z [lz [g' [Hz [Hez [Hkz Hfm]]]]]]|[z [lz [Hz [Hez Hre]]]]]].
        - destruct (He z k Hez) as [Hkn [a [Ha Hg]]]. split; [exact Hkn|]. exists a. split; [|exact Hg].
          apply aunion_l. exact (alooks_in E sh z a Hz Ha).
        - destruct (He z lz Hez) as [Hlz [a0 [Ha0 Hg0]]].
          destruct (kids_sound n0 R H h lz g' k a0 cf Hh Hkz Hg0 Hfm) as [Hkn [a [Ha Hg]]].
          split; [exact Hkn|]. exists a. split; [|exact Hg].
          apply aunion_r. apply aunion_l. apply (aload_in H cf _ a a0); [|exact Ha].
          exact (alooks_in E cp z a0 Hz Ha0).
        - destruct (reach_vars_sound n0 R H h e E dp rd z lz k He Hh Hrd Hz Hez Hre) as [Hkn [a [Ha Hg]]].
          split; [exact Hkn|]. exists a. split; [|exact Hg].
          apply aunion_r. apply aunion_r. exact Ha. }
      destruct Hdesc as [Hkn [a [Ha Hg]]]. split; [exact Hkn|].
      exact (descr_noleaf n0 R h need _ a k Ha Hg Hneed).
    + (* its buffer *)
      intros Hb. destruct Hbase as [Hown|[z [lz [Hz [Hez Hbz]]]]]; [destruct Hal as [-> _]; lia|].
      rewrite Hbz in Hb. rewrite Hbz. destruct (He z lz Hez) as [Hlz [a [Ha Hg]]].
      destruct (taint1_view n0 R b0 H h a lz Hbt Hb0 Hlz Hg Hb) as [q [l' [Hq [Hr Hbl]]]].
      exists q, l'. split; [|split; assumption].
      apply (nsubset_In _ _ q Htaint).
      exact (taint_in H _ a q (alooks_in E vw z a Hz Ha) Hq).
    + split; [exact Hext|]. split; [exact Hh'|]. split; [exact Hbt'|]. split; [exact Hb0'|]. split; [exact Hl|].
      exists (ASite s). split; [apply asingle_in|exact Hg].
  - (* EChoice, left *)
    cbn [eval_expr] in Hv.
    destruct (eval_expr H E a) as [u|] eqn:Hu; [|discriminate Hv].
    destruct (eval_expr H E b) as [w|] eqn:Hw; [|discriminate Hv]. injection Hv as <-.
    destruct (IH u eq_refl He Hh Hbt Hb0 Hn0) as [Hext [Hh' [Hbt' [Hb0' [Hl [c [Hc Hg]]]]]]].
    split; [exact Hext|]. split; [exact Hh'|]. split; [exact Hbt'|]. split; [exact Hb0'|]. split; [exact Hl|].
    exists c. split; [apply aunion_l; exact Hc|exact Hg].
  - (* EChoice, right *)
    cbn [eval_expr] in Hv.
    destruct (eval_expr H E a) as [u|] eqn:Hu; [|discriminate Hv].
    destruct (eval_expr H E b) as [w|] eqn:Hw; [|discriminate Hv]. injection Hv as <-.
    destruct (IH w eq_refl He Hh Hbt Hb0 Hn0) as [Hext [Hh' [Hbt' [Hb0' [Hl [c [Hc Hg]]]]]]].
    split; [exact Hext|]. split; [exact Hh'|]. split; [exact Hbt'|]. split; [exact Hb0'|]. split; [exact Hl|].
    exists c. split; [apply aunion_r; exact Hc|exact Hg].
Qed.
