(* C05, event-driven SIS: what [finish] returns for lock-step logs ([LL] of
   Proofs/EventSISLog.v) starts from the request -- the first row (already in
   EventSISLog.out_rows_first), the transmission list (the source-less entries of the
   initial nodes in the order given, then sourced entries only) and, NEW here, the first
   entry of every node history WITHOUT any hypothesis on ties: the history of u is
   hist_sis of ([(tmin,I)] if u is initial) ++ (the events of u in the log), and the head of
   [hist_sis] is at tmin with status I exactly when an infection entry at tmin occurs.
   Hence the extracted checker [ic_sisb] (Model/InitChkSIS.v) accepts the output. *)
From EoNV Require Import Prelude Samp Graph ListDict ListDictP Gillespie KldP GillespieInv SampP GillespieP GillespieLog.
From EoNV Require Import Investigation InvestigationP GillespieC10.
From EoNV Require Import EventSIS EventSISP EventSISP4 EventSISRows EventSISLog EventSISTrace EventSISRel EventSISFast EventSISNM EventSISOut.
From EoNV Require Import InitChk InitChkSIS.
From Coq Require Import Permutation Lqa.

(* ---------------- the head of a history ---------------- *)
Definition hstep (tmin : Q) (h : history) (e : Q * N) : history :=
  if Qeqb (fst e) tmin && N.eqb (snd e) stI then [e] else h ++ [e].

Lemma hist_sis_fold : forall tmin evs, hist_sis tmin evs = fold_left (hstep tmin) evs [(tmin, stS)].
Proof. reflexivity. Qed.

Lemma hist_fold_head : forall tmin evs t0 s0 r0, t0 == tmin ->
  exists t s rest, fold_left (hstep tmin) evs ((t0, s0) :: r0) = (t, s) :: rest /\ t == tmin /\
    (s = s0 \/ (s = stI /\ exists e, In e evs /\ fst e == tmin /\ snd e = stI)).
Proof.
  intros tmin. induction evs as [|e evs IH]; intros t0 s0 r0 H0.
  - exists t0, s0, r0. split; [reflexivity|]. split; [exact H0|left; reflexivity].
  - cbn [fold_left]. unfold hstep at 2. destruct (Qeqb (fst e) tmin && N.eqb (snd e) stI) eqn:E.
    + apply andb_true_iff in E. destruct E as [E1 E2]. apply Qeqb_true in E1. apply N.eqb_eq in E2.
      destruct e as [te se]. cbn [fst snd] in E1, E2.
      destruct (IH te se [] E1) as [t [s [rest [H1 [H2 H3]]]]].
      exists t, s, rest. split; [exact H1|]. split; [exact H2|]. right.
      destruct H3 as [Hs|[Hs [e' [Hi [Ha Hb]]]]].
      * split; [rewrite Hs; exact E2|]. exists (te, se). split; [left; reflexivity|]. split; assumption.
      * split; [exact Hs|]. exists e'. split; [right; exact Hi|]. split; assumption.
    + cbn [app]. destruct (IH t0 s0 (r0 ++ [e]) H0) as [t [s [rest [H1 [H2 H3]]]]].
      exists t, s, rest. split; [exact H1|]. split; [exact H2|].
      destruct H3 as [Hs|[Hs [e' [Hi [Ha Hb]]]]]; [left; exact Hs|].
      right. split; [exact Hs|]. exists e'. split; [right; exact Hi|]. split; assumption.
Qed.

(* a list that begins with an infection entry at tmin: the history starts (tmin, I) *)
Lemma hist_sis_head_initial : forall tmin evs,
  exists t rest, hist_sis tmin ((tmin, stI) :: evs) = (t, stI) :: rest /\ t == tmin.
Proof.
  intros tmin evs. rewrite hist_sis_fold. cbn [fold_left]. unfold hstep at 2. cbn [fst snd].
  unfold Qeqb. rewrite Qeq_bool_refl. change (N.eqb stI stI) with true. cbn [andb].
  destruct (hist_fold_head tmin evs tmin stI [] (Qeq_refl _)) as [t [s [rest [H1 [H2 H3]]]]].
  exists t, rest. split; [|exact H2]. rewrite H1. destruct H3 as [->|[-> _]]; reflexivity.
Qed.

(* any list: the history starts at tmin, as S, or as I when an infection entry at tmin occurs *)
Lemma hist_sis_head_other : forall tmin evs,
  exists t s rest, hist_sis tmin evs = (t, s) :: rest /\ t == tmin /\
    (s = stS \/ (s = stI /\ exists e, In e evs /\ fst e == tmin /\ snd e = stI)).
Proof. intros tmin evs. rewrite hist_sis_fold. apply hist_fold_head. reflexivity. Qed.

Lemma hlook_map : forall (f : node -> history) l u, In u l -> hlook u (map (fun v => (v, f v)) l) = Some (f u).
Proof.
  intros f l u. induction l as [|v l IH]; intro H; [destruct H|]. cbn [map hlook].
  destruct (N.eqb_spec u v) as [->|Hne]; [reflexivity|]. apply IH. destruct H as [->|H]; [contradiction Hne; reflexivity|exact H].
Qed.

(* ================================================================== *)
Section Out.
Variable g : graph.
Hypothesis Hnd : NoDup (gnodes g).
Variable tmin : Q.
Variable tmax : xtime.
Variable i0 : list node.
Hypothesis Hi0 : NoDup i0.
Hypothesis Hinc : incl i0 (gnodes g).
Variable chk : bool.
Variables (evs : list ev) (txs : list tx) (lg : logs) (st : node -> N).
Hypothesis HLL : LL g tmin tmax i0 chk evs txs lg st.

Let cev : list ev := rev evs.
Let ctx : list tx := rev txs.

(* the history of a node, with no hypothesis on ties *)
Lemma full_hist_node : forall u, In u (gnodes g) ->
  hlook u (fd_hist (build_full g tmin lg)) =
  Some (hist_sis tmin ((if mem u i0 then [(tmin, stI)] else []) ++ node_events u cev)).
Proof.
  intros u Hu. unfold build_full. cbn [fd_hist].
  rewrite (hlook_map (fun u => hist_sis tmin (interleave (times_of u stI (rev (l_elog lg))) (times_of u stS (rev (l_elog lg))))) _ u Hu).
  f_equal. f_equal.
  destruct HLL as [He Ht Hl]. rewrite He, rev_app_distr. unfold init_ev. rewrite rev_involutive. fold cev.
  rewrite !times_of_node_events.
  match goal with |- context [node_events u ?l] => set (NE := node_events u l) end.
  assert (ENE : NE = (if mem u i0 then [(tmin, stI)] else []) ++ node_events u cev).
  { unfold NE. rewrite node_events_app, (node_events_map_init tmin u stI i0 Hi0). reflexivity. }
  pose proof (out_chain g tmin tmax i0 chk evs txs lg st (mkLL g tmin tmax i0 chk evs txs lg st He Ht Hl) u) as Hch.
  rewrite <- node_events_evs_of in Hch.
  assert (HchNE : GillespieC10.chain SIS stS (map snd NE) = true).
  { rewrite ENE. pose proof (st0_I i0 u) as HI. fold cev in Hch. destruct (mem u i0).
    - apply N.eqb_eq in HI. rewrite HI in Hch. cbn [app map snd GillespieC10.chain]. rewrite Hch. reflexivity.
    - cbn [app]. assert (st0 i0 u = stS) as <-; [|exact Hch].
      destruct (st0_bin i0 u) as [E|E]; [exact E|]. rewrite E in HI. discriminate HI. }
  rewrite (interleave_alt (length NE) NE (Nat.le_refl _) HchNE). exact ENE.
Qed.

(* every event of the log that infects u shows in the sourced part of the transmission list *)
Lemma infection_in_ctx : forall t u, In (t, u, stI) cev -> exists src, In (t, Some src, u) ctx.
Proof.
  intros t u Hin.
  destruct (out_trans g tmin tmax i0 chk evs txs lg st HLL true eq_refl) as [fd [_ [_ [Hproj Hsrc]]]].
  fold cev ctx in Hproj, Hsrc.
  assert (Hp : In (t, u) (map (fun e : ev => (ev_time e, ev_node e)) (filter (fun e => N.eqb (ev_st e) stI) cev))).
  { apply in_map_iff. exists (t, u, stI). split; [reflexivity|]. apply filter_In. split; [exact Hin|reflexivity]. }
  rewrite <- Hproj in Hp. apply in_map_iff in Hp. destruct Hp as [[[t' s'] v'] [E Hx]]. cbn [fst snd] in E. injection E as -> ->.
  rewrite Forall_forall in Hsrc. destruct (Hsrc _ Hx) as [src [Es _]]. cbn [fst snd] in Es. subst s'.
  exists src. exact Hx.
Qed.

Lemma init_trans_okb_intro : forall l rest,
  Forall (fun x : tx => exists u, snd (fst x) = Some u) rest ->
  init_trans_okb tmin l (map (fun u => (tmin, None, u)) l ++ rest) = true.
Proof.
  induction l as [|u l IH]; intros rest H; cbn [map app init_trans_okb].
  - apply forallb_forall. intros x Hx. rewrite Forall_forall in H. destruct (H x Hx) as [s ->]. reflexivity.
  - unfold Qeqb. rewrite Qeq_bool_refl, N.eqb_refl. cbn [andb]. apply IH. exact H.
Qed.

Lemma hit_at_tmin_intro : forall u trans t src, In (t, Some src, u) trans -> t == tmin -> hit_at_tmin tmin u trans = true.
Proof.
  intros u trans t src Hin Ht. unfold hit_at_tmin. apply existsb_exists. exists (t, Some src, u). split; [exact Hin|].
  cbn [fst snd]. rewrite N.eqb_refl. assert (Qeqb t tmin = true) as -> by (apply Qeqb_true; exact Ht). reflexivity.
Qed.

Theorem LL_ic_sisb : forall full,
  ic_sisb (gnodes g) i0 tmin (so_rows (finish g tmin full (length i0) lg)) (so_full (finish g tmin full (length i0) lg)) = true.
Proof.
  intro full. unfold ic_sisb.
  destruct (out_rows_first g Hnd tmin tmax i0 Hi0 Hinc chk evs txs lg st HLL full) as [rs Er]. rewrite Er.
  unfold Qeqb at 1. rewrite Qeq_bool_refl. cbn [andb zlist_eqb]. unfold order. rewrite !Z.eqb_refl. cbn [andb].
  destruct full; [|reflexivity]. unfold finish. cbn [so_full].
  destruct (out_trans g tmin tmax i0 chk evs txs lg st HLL true eq_refl) as [fd [Efd [Etr [_ Hsrc]]]].
  unfold finish in Efd. cbn [so_full] in Efd. injection Efd as Efd. fold ctx in Etr, Hsrc.
  rewrite <- Efd in Etr. apply andb_true_iff. split.
  - rewrite Etr. apply init_trans_okb_intro. eapply Forall_impl; [|exact Hsrc]. intros x [u [Hu _]]. exists u. exact Hu.
  - apply forallb_forall. intros u Hu. rewrite (full_hist_node u Hu). unfold hist_sis_okb.
    destruct (mem u i0) eqn:Em.
    + cbn [app]. destruct (hist_sis_head_initial tmin (node_events u cev)) as [t [rest [E Ht]]]. rewrite E.
      assert (Qeqb t tmin = true) as -> by (apply Qeqb_true; exact Ht). reflexivity.
    + cbn [app]. destruct (hist_sis_head_other tmin (node_events u cev)) as [t [s [rest [E [Ht Hs]]]]]. rewrite E.
      assert (Qeqb t tmin = true) as -> by (apply Qeqb_true; exact Ht). cbn [andb].
      destruct Hs as [->|[-> [e [Hin [He1 He2]]]]]; [reflexivity|]. change (N.eqb stI stS) with false. cbn [orb andb N.eqb].
      change (N.eqb stI stI) with true. cbn [andb].
      unfold node_events in Hin. apply in_map_iff in Hin. destruct Hin as [[[te ue] se] [Ee Hx]]. subst e. cbn [fst snd] in He1, He2.
      apply filter_In in Hx. destruct Hx as [Hx Hue]. cbn [fst snd] in Hue. apply N.eqb_eq in Hue. subst ue se.
      destruct (infection_in_ctx te u Hx) as [src Hsrc2].
      apply (hit_at_tmin_intro u _ te src); [|exact He1]. rewrite Etr. apply in_or_app. right. exact Hsrc2.
Qed.

End Out.
