(* C05, fast_nonMarkov_SIS: the tie clause of the checker [ic_sisb] bites only when the user's
   rules return a ZERO duration or a ZERO delay.  With strictly positive rules ([rules_pos]) no
   event other than the requested infections is dated tmin: every sourced transmission and
   every later history entry is strictly after tmin ([quiet_at_tmin] holds for the output), so
   by Proofs/C05sStatus.v node_status(u, tmin) is exactly the request, and the first entry of
   every node history is exactly (tmin, I) for the initial nodes and (tmin, S) for the others.
   Technique: a small invariant [JInv] of the event loop (every queue entry is an initial entry
   at tmin or lies strictly after tmin, with its stored tail; logged recoveries and sourced
   transmissions lie strictly after tmin), combined with the lock-step log invariant [LL]. *)
From EoNV Require Import Prelude Samp Graph ListDict ListDictP Gillespie KldP GillespieInv SampP GillespieP GillespieLog.
From EoNV Require Import Investigation InvestigationP GillespieC10.
From EoNV Require Import EventSIS EventSISP EventSISP4 EventSISRows EventSISLog EventSISTrace EventSISRel EventSISFast EventSISNM EventSISOut.
From EoNV Require Import InitChk InitChkSIS C05sHist C05sTop C05sStatus.
From Coq Require Import Permutation Sorted Lqa.

Definition rules_pos (dur : node -> nat -> Q) (delays : node -> node -> nat -> list Q) : Prop :=
  (forall v k, 0 < dur v k) /\ (forall v w k, Forall (fun d => 0 < d) (delays v w k)).

Lemma Forall_filter_Q : forall (P : Q -> Prop) p l, Forall P l -> Forall P (filter p l).
Proof. intros P p l H. apply Forall_forall. intros x Hx. apply filter_In in Hx. rewrite Forall_forall in H. apply H. apply Hx. Qed.

Section Quiet.
Variable g : graph.
Hypothesis Hnd : NoDup (gnodes g).
Hypothesis Hadj : forall u v, In v (gadj g u) -> In v (gnodes g).
Variable dur : node -> nat -> Q.
Variable delays : node -> node -> nat -> list Q.
Variable tmax : xtime.
Variable tmin : Q.
Hypothesis Hvis : xlt tmin tmax = true.
Variable i0 : list node.
Hypothesis Hi0 : NoDup i0.
Hypothesis Hinc : incl i0 (gnodes g).
Hypothesis Hok : rules_ok dur delays.
Hypothesis Hpos : rules_pos dur delays.

(* the final state of the loop carries lock-step logs (Proofs/EventSISNM.v, with the state kept) *)
Lemma nm_loop_LL : forall fuel s', n_loop g dur delays tmax fuel (n_init g tmax tmin i0) = Ok s' ->
  exists evs txs st, LL g tmin tmax i0 false evs txs (ns_log s') st.
Proof.
  intros fuel s' El. destruct Hok as [Hdur Hdel].
  destruct (n_loop_NI g Hnd Hadj dur delays tmax tmin i0 Hi0 Hinc false Hdur Hdel
              (fun E => False_ind _ (Bool.diff_false_true E)) fuel _ s' El
              (ex_intro _ tmin (NInv_init g tmax tmin Hvis i0 false))) as [[clock Hi] Eq].
  destruct (n_ph _ _ _ _ _ _ _ _ Hi) as [done rem P l E1 E2 E3 E4 E5 E6 E7|evs txs _ HL Hs HJ].
  - rewrite Eq in E2. symmetry in E2. apply app_eq_nil in E2. destruct E2 as [-> ->].
    destruct rem; [|discriminate E4]. cbn [app] in E1. rewrite app_nil_r in E1. subst done.
    exists [], [], (ns_stat s'). rewrite E6, E7. apply LL_start.
  - exists evs, txs, (ns_stat s'). exact HL.
Qed.

(* ---------------- the invariant ---------------- *)
Definition epos (x : qent nev) : Prop :=
  match snd x with
  | NRec _ => tmin < qtime x
  | NTrans None _ fut => qtime x == tmin /\ fut = []
  | NTrans (Some _) _ fut => tmin < qtime x /\ Forall (fun t => tmin < t) fut
  end.

Record JInv (s : nst) : Prop := mkJ {
  j_q : Forall epos (q_items (ns_q s));
  j_t : Forall (fun x : tx => snd (fst x) <> None -> tmin < fst (fst x)) (l_tlog (ns_log s));
  j_e : Forall (fun e : ev => snd e = stS -> tmin < fst (fst e)) (l_elog (ns_log s))
}.

Lemma chain_pos : forall q u v tt, Forall epos (q_items q) -> Forall (fun t => tmin < t) tt ->
  Forall epos (q_items (chain tmax q (Some u) v tt)).
Proof.
  intros q u v tt Hq Ht. destruct tt as [|h tl]; cbn [chain]; [exact Hq|].
  apply Forall_q_add; [exact Hq|]. intros _. unfold epos. cbn [snd qtime fst].
  inversion Ht; subst. split; assumption.
Qed.

Lemma n_sched_pos : forall time u k stat rec q v, tmin <= time -> Forall epos (q_items q) ->
  Forall epos (q_items (n_sched delays tmax time u k stat rec q v)).
Proof.
  intros time u k stat rec q v Ht Hq. unfold n_sched. destruct (delays u v k) as [|d0 dl] eqn:Ed; [exact Hq|].
  assert (Htt : Forall (fun t => tmin < t) (map (fun d => tadd time d) (d0 :: dl))).
  { destruct Hpos as [_ Hp]. specialize (Hp u v k). rewrite Ed in Hp. apply Forall_forall. intros x Hx.
    apply in_map_iff in Hx. destruct Hx as [d [<- Hd]]. rewrite Forall_forall in Hp. specialize (Hp d Hd). rewrite tadd_eq. lra. }
  destruct (N.eqb (stat v) stI); apply chain_pos; try exact Hq; [apply Forall_filter_Q|]; exact Htt.
Qed.

Lemma n_sched_fold_pos : forall time u k stat rec ws q, tmin <= time -> Forall epos (q_items q) ->
  Forall epos (q_items (fold_left (n_sched delays tmax time u k stat rec) ws q)).
Proof.
  intros time u k stat rec ws. induction ws as [|w ws IH]; intros q Ht Hq; [exact Hq|]. cbn [fold_left].
  apply IH; [exact Ht|]. apply n_sched_pos; assumption.
Qed.

Lemma n_event_J : forall t c e rest s, q_items (ns_q s) = (t, c, e) :: rest -> JInv s ->
  JInv (n_event g dur delays tmax t e (mkN (ns_stat s) (ns_rec s) (ns_ord s) (mkQ rest (q_ctr (ns_q s))) (ns_log s))).
Proof.
  intros t c e rest s Eq [Jq Jt Je]. rewrite Eq in Jq. inversion Jq as [|x l Hx Hrest]; subst. unfold epos in Hx. cbn [snd qtime fst] in Hx.
  destruct e as [v|src tgt fut]; cbn [n_event].
  - constructor; cbn [n_recover ns_q ns_log q_items log_rec l_tlog l_elog]; [exact Hrest|exact Jt|].
    constructor; [intros _; cbn [fst]; exact Hx|exact Je].
  - assert (Ht : tmin <= t) by (destruct src; [destruct Hx as [Hx _]; lra|destruct Hx as [Hx _]; rewrite Hx; lra]).
    assert (Hfut : Forall (fun x => tmin < x) fut) by (destruct src; [apply Hx|destruct Hx as [_ ->]; constructor]).
    unfold n_trans. cbn [ns_stat ns_rec ns_ord ns_q ns_log].
    assert (Hchain : forall q, Forall epos (q_items q) -> forall rc,
              Forall epos (q_items (chain tmax q src tgt (filter (fun t0 => Qltb rc t0) fut)))).
    { intros q Hq rc. destruct src as [u|].
      - apply chain_pos; [exact Hq|apply Forall_filter_Q; exact Hfut].
      - destruct Hx as [_ ->]. cbn [filter chain]. exact Hq. }
    destruct (N.eqb (ns_stat s tgt) stS).
    + constructor; cbn [ns_q ns_log ns_rec log_inf l_tlog l_elog].
      * apply Hchain. apply n_sched_fold_pos; [exact Ht|].
        destruct (xlt (tadd t (dur tgt (ns_ord s tgt))) tmax); [|exact Hrest].
        apply Forall_q_add; [exact Hrest|]. intros _. unfold epos. cbn [snd qtime fst].
        destruct Hpos as [Hd _]. specialize (Hd tgt (ns_ord s tgt)). rewrite tadd_eq. lra.
      * constructor; [|exact Jt]. cbn [fst snd]. intro Hs. destruct src as [u|]; [apply Hx|contradiction Hs; reflexivity].
      * constructor; [|exact Je]. cbn [snd]. intro K. discriminate K.
    + constructor; cbn [ns_q ns_log ns_rec]; [apply Hchain; exact Hrest|exact Jt|exact Je].
Qed.

Lemma n_loop_J : forall fuel s s', n_loop g dur delays tmax fuel s = Ok s' -> JInv s -> JInv s'.
Proof.
  induction fuel as [|f IH]; intros s s' H Hj; cbn [n_loop] in H; destruct (q_items (ns_q s)) as [|[[t c] e] rest] eqn:Eq.
  - injection H as <-. exact Hj.
  - discriminate H.
  - injection H as <-. exact Hj.
  - apply (IH _ _ H). apply (n_event_J t c e rest s Eq Hj).
Qed.

Lemma n_init_J : JInv (n_init g tmax tmin i0).
Proof.
  constructor; cbn [n_init ns_q ns_log logs0 l_tlog l_elog]; [|constructor|constructor].
  assert (K : forall l q, Forall epos (q_items q) ->
            Forall epos (q_items (fold_left (fun q u => q_add tmax q tmin (NTrans None u [])) l q))).
  { induction l as [|u l IH]; intros q Hq; [exact Hq|]. cbn [fold_left]. apply IH. apply Forall_q_add; [exact Hq|].
    intros _. unfold epos. cbn [snd qtime fst]. split; reflexivity. }
  apply K. constructor.
Qed.

(* ---------------- the output ---------------- *)
Theorem nmsis_quiet : forall full fuel out fd,
  nm_run g dur delays tmax tmin full fuel i0 = Ok out -> so_full out = Some fd ->
  quiet_at_tmin (gnodes g) tmin fd = true.
Proof.
  intros full fuel out fd H Hfd. unfold nm_run in H.
  destruct (n_loop g dur delays tmax fuel (n_init g tmax tmin i0)) as [s'|e] eqn:El; cbn [rbind] in H; [|discriminate H].
  injection H as <-.
  destruct (nm_loop_LL fuel s' El) as [evs [txs [st HL]]].
  pose proof (n_loop_J fuel _ s' El n_init_J) as [_ Jt Je].
  destruct full; [|discriminate Hfd]. unfold finish in Hfd. cbn [so_full] in Hfd. injection Hfd as <-.
  destruct (out_trans g tmin tmax i0 false evs txs (ns_log s') st HL true eq_refl) as [fd [Efd [Etr [_ Hsrc]]]].
  unfold finish in Efd. cbn [so_full] in Efd. injection Efd as Efd. rewrite <- Efd in Etr.
  pose proof HL as [He Ht _].
  (* every sourced transmission of the log is after tmin *)
  assert (Hctx : forall x, In x (rev txs) -> tmin < fst (fst x)).
  { intros x Hx. rewrite Forall_forall in Jt. apply Jt; [rewrite Ht; apply in_or_app; left; apply in_rev; exact Hx|].
    rewrite Forall_forall in Hsrc. destruct (Hsrc x Hx) as [u [Hu _]]. rewrite Hu. discriminate. }
  (* every event of the log after the initial ones is after tmin *)
  assert (Hcev : forall e, In e (rev evs) -> tmin < fst (fst e)).
  { intros [[t u] s] Hx. cbn [fst].
    destruct (out_times g tmin tmax i0 false evs txs (ns_log s') st HL) as [_ B]. rewrite Forall_forall in B.
    destruct (B _ Hx) as [_ [Hs|Hs]]; unfold ev_st in Hs; cbn [snd] in Hs; subst s.
    - destruct (infection_in_ctx g tmin tmax i0 false evs txs (ns_log s') st HL t u Hx) as [src Hsrc2].
      apply (Hctx _ Hsrc2).
    - rewrite Forall_forall in Je. apply (Je (t, u, stS)); [rewrite He; apply in_or_app; left; apply in_rev; exact Hx|reflexivity]. }
  unfold quiet_at_tmin. apply andb_true_iff. split.
  - rewrite Etr. unfold quiet_transb. apply forallb_forall. intros x Hx. apply in_app_or in Hx. destruct Hx as [Hx|Hx].
    + apply in_map_iff in Hx. destruct Hx as [u [<- _]]. reflexivity.
    + rewrite Forall_forall in Hsrc. destruct (Hsrc x Hx) as [u [Hu _]]. rewrite Hu. apply Qltb_true. apply Hctx. exact Hx.
  - apply forallb_forall. intros u Hu.
    rewrite (full_hist_node g tmin tmax i0 Hi0 false evs txs (ns_log s') st HL u Hu).
    assert (Hafter : forall e, In e (node_events u (rev evs)) -> tmin < fst e).
    { intros e Hin. unfold node_events in Hin. apply in_map_iff in Hin. destruct Hin as [x [<- Hx]]. apply filter_In in Hx.
      cbn [fst]. apply Hcev. apply Hx. }
    assert (Hq : forallb (fun e : Q * N => Qltb tmin (fst e)) (node_events u (rev evs)) = true).
    { apply forallb_forall. intros e Hin. apply Qltb_true. apply Hafter. exact Hin. }
    unfold hist_sis. destruct (mem u i0); cbn [app fold_left fst snd].
    + unfold Qeqb at 1. rewrite Qeq_bool_refl. change (N.eqb stI stI) with true. cbn [andb].
      rewrite (hist_of_no_reset SIS tmin _ _ Hafter). cbn [app quiet_histb]. exact Hq.
    + rewrite (hist_of_no_reset SIS tmin _ _ Hafter). cbn [app quiet_histb]. exact Hq.
Qed.

End Quiet.

(* with strictly positive rules the full-data object answers exactly the request at tmin, and
   every node history begins with exactly the requested status *)
Theorem nmsis_positive_rules_exact_start : forall g, (forall u v, In v (gadj g u) -> In v (gnodes g)) ->
  forall dur delays tmax tmin i0 fuel out fd,
  ic_sis_domb (gnodes g) i0 tmin tmax = true -> rules_ok dur delays -> rules_pos dur delays ->
  nm_run g dur delays tmax tmin true fuel i0 = Ok out -> so_full out = Some fd ->
  quiet_at_tmin (gnodes g) tmin fd = true /\
  forall u, In u (gnodes g) ->
    node_status (mkInv (gnodes g) (fd_hist fd) (Some [(tmin, stS)]) (Some [stS; stI])) u tmin = Ok (if mem u i0 then stI else stS).
Proof.
  intros g Hadj dur delays tmax tmin i0 fuel out fd Hd Hok Hpos H Hfd.
  destruct (ic_sis_domb_elim _ _ _ _ Hd) as [Hnd [Hi0 [Hinc Hvis]]].
  pose proof (nmsis_quiet g Hnd Hadj dur delays tmax tmin Hvis i0 Hi0 Hinc Hok Hpos true fuel out fd H Hfd) as Hq.
  split; [exact Hq|].
  pose proof (nmsis_starts_as_requested g Hadj dur delays tmax tmin i0 true fuel out Hd Hok H) as Hic. rewrite Hfd in Hic.
  apply (statuses_at_tmin (gnodes g) i0 tmin (so_rows out) fd Hic Hq).
Qed.
