(* C13x, part 3: FINITE HORIZON, DURATIONS BOUNDED BELOW.  With tmax = Some T, a
   constant delta > 0 and a number K with  T <= tmin + K * delta,  if on the
   ordinals k < K every duration of a node of the graph is >= delta and every
   listed delay is >= 0 (decidable: [rules_boundedb]), then the k-th infection of a
   node cannot start before  tmin + k * delta  (its previous infectious periods
   are disjoint and each lasts >= delta), so no node is infected K times before T,
   the rule tables are never consulted at an ordinal >= K, and the reference
   agenda run ends within [ref_fuel] computed from the tables below K.
   Nothing is assumed about sortedness or distinctness: the run may leave the
   domain of C13 (its flag says so), it still terminates. *)
From EoNV Require Import Prelude Samp Graph EventSIS EventSISP EventSISP3 C13xTerm C13xFin.
From Coq Require Import Permutation Sorted Lia Lqa.

Lemma Qnat_S_mul : forall k d, Qnat (S k) * d == Qnat k * d + d.
Proof.
  intros k d. unfold Qnat. rewrite Nat2Z.inj_succ. unfold Z.succ. rewrite inject_Z_plus. ring.
Qed.
Lemma Qnat_le : forall a b, (a <= b)%nat -> Qnat a <= Qnat b.
Proof. intros a b H. unfold Qnat. rewrite <- Zle_Qle. lia. Qed.
Lemma Qleb_true : forall a b, Qleb a b = true <-> a <= b.
Proof.
  intros a b. unfold Qleb. destruct (Qlt_le_dec b a) as [H|H]; split; intro K; try reflexivity; try exact H; [discriminate|exfalso; lra].
Qed.

Lemma nodup_app_tail : forall {A} (a b : list A), NoDup (a ++ b) -> NoDup b.
Proof. intros A a b. induction a as [|x a IH]; intro H; [exact H|]. inversion H; subst. apply IH. assumption. Qed.

Definition leT (a b : Q * aev) : Prop := fst a <= fst b.
Definition arec_nodes (ag : list (Q * aev)) : list node :=
  flat_map (fun x => match snd x with ARec v => [v] | AAtt _ _ => [] end) ag.

Lemma ains_sorted_le : forall x l, StronglySorted leT l -> StronglySorted leT (ains x l).
Proof.
  intros x l. induction l as [|h t IH]; intro H; cbn [ains]; [constructor; constructor|].
  inversion H as [|? ? Ht F]; subst. destruct (Qltb (fst x) (fst h)) eqn:B.
  - apply Qltb_true in B. constructor; [exact H|]. constructor; [unfold leT; lra|].
    eapply Forall_impl; [|exact F]. intros y Hy. unfold leT in *. lra.
  - apply Qltb_false in B. constructor; [apply IH; exact Ht|].
    eapply Permutation_Forall; [apply Permutation_sym; apply ains_perm|]. constructor; [exact B|exact F].
Qed.
Lemma arec_nodes_perm : forall a b, Permutation a b -> Permutation (arec_nodes a) (arec_nodes b).
Proof. intros a b H. unfold arec_nodes. apply Permutation_flat_map. exact H. Qed.
Lemma in_arec_nodes : forall v ag, In v (arec_nodes ag) <-> exists t, In (t, ARec v) ag.
Proof.
  intros v ag. unfold arec_nodes. rewrite in_flat_map. split.
  - intros [[t a] [Hx Hv]]. cbn [snd] in Hv. destruct a as [w|? ?]; [|destruct Hv]. destruct Hv as [->|[]]. exists t. exact Hx.
  - intros [t Hx]. exists (t, ARec v). split; [exact Hx|left; reflexivity].
Qed.

Section Time.
Variable g : graph.
Hypothesis Hnd : NoDup (gnodes g).
Hypothesis Hadj : forall u v, In u (gnodes g) -> In v (gadj g u) -> In v (gnodes g).
Variable dur : node -> nat -> Q.
Variable delays : node -> node -> nat -> list Q.
Variable T : Q.
Variable tmin delta : Q.
Variable K : nat.
Notation tmax := (Some T).
Hypothesis Hd : 0 < delta.
Hypothesis HK : T <= tmin + Qnat K * delta.
Hypothesis Hdur : forall v k, In v (gnodes g) -> (k < K)%nat -> delta <= dur v k.
Hypothesis Hdel : forall v w k d, In v (gnodes g) -> (k < K)%nat -> In w (gadj g v) -> In d (delays v w k) -> 0 <= d.

Notation lb := (fun (ord : node -> nat) v => tmin + Qnat (ord v) * delta).

Lemma ord_lt_K : forall k t, tmin + Qnat k * delta <= t -> xlt t tmax = true -> (k < K)%nat.
Proof.
  intros k t H V. cbn [xlt] in V. destruct (Qlt_le_dec t T) as [Ht|]; [|discriminate V].
  destruct (Nat.lt_ge_cases k K) as [L|L]; [exact L|exfalso].
  pose proof (Qnat_le K k L) as H1.
  assert (H2 : Qnat K * delta <= Qnat k * delta) by (apply Qmult_le_compat_r; [exact H1|lra]).
  remember (Qnat K * delta) as a. remember (Qnat k * delta) as b. lra.
Qed.

Record TI (now : Q) (stat : node -> N) (ord : node -> nat) (ag : list (Q * aev)) : Prop := mkTI {
  ti_sorted : StronglySorted leT ag;
  ti_now : Forall (fun x => now <= fst x) ag;
  ti_vis : Forall (fun x => xlt (fst x) tmax = true) ag;
  ti_nd : NoDup (arec_nodes ag);
  ti_rec : forall t v, In (t, ARec v) ag -> stat v = stI /\ lb ord v <= t;
  ti_S : forall v, stat v <> stI -> lb ord v <= now;
  ti_tgt : Forall (tgt_ok g) ag
}.
Definition TP (s : rst) : Prop := exists now, TI now (r_stat s) (r_ord s) (r_ag s).

Definition item_ok (stat : node -> N) (ord : node -> nat) (ag : list (Q * aev)) (t : Q) (a : aev) : Prop :=
  match a with
  | ARec v => ~ In v (arec_nodes ag) /\ stat v = stI /\ lb ord v <= t
  | AAtt _ w => In w (gnodes g)
  end.

Lemma TI_ains : forall now stat ord ag t a,
  TI now stat ord ag -> now <= t -> xlt t tmax = true -> item_ok stat ord ag t a ->
  TI now stat ord (ains (t, a) ag).
Proof.
  intros now stat ord ag t a [H1 H2 H3 H4 H5 H6 H7] Ht V Hi.
  pose proof (Permutation_sym (ains_perm (t, a) ag)) as Hp.
  constructor.
  - apply ains_sorted_le. exact H1.
  - eapply Permutation_Forall; [exact Hp|]. constructor; [exact Ht|exact H2].
  - eapply Permutation_Forall; [exact Hp|]. constructor; [exact V|exact H3].
  - eapply Permutation_NoDup; [apply arec_nodes_perm; exact Hp|].
    unfold arec_nodes. cbn [flat_map snd]. fold (arec_nodes ag). destruct a as [v|u w]; cbn [app]; [|exact H4].
    constructor; [apply Hi|exact H4].
  - intros t' v Hin. apply (Permutation_in _ (ains_perm (t, a) ag)) in Hin. destruct Hin as [E|Hin]; [|apply H5; exact Hin].
    injection E as Et Ea. subst t' a. cbn [item_ok] in Hi. tauto.
  - exact H6.
  - eapply Permutation_Forall; [exact Hp|]. constructor; [|exact H7].
    unfold tgt_ok. cbn [snd]. destruct a as [v|u w]; [exact I|exact Hi].
Qed.

(* an infection of a susceptible node of the graph, at a visible time that the
   agenda has not passed *)
Lemma TI_infect : forall t src v s,
  TI t (r_stat s) (r_ord s) (r_ag s) -> r_stat s v = stS -> In v (gnodes g) -> xlt t tmax = true ->
  (let s' := r_infect g dur delays tmax t src v s in TI t (r_stat s') (r_ord s') (r_ag s')) /\
  safe g delays K v (r_ord s v).
Proof.
  intros t src v s Hi HS Hin V. cbv zeta. set (k := r_ord s v).
  assert (HnI : r_stat s v <> stI) by (rewrite HS; discriminate).
  pose proof (ti_S _ _ _ _ Hi v HnI) as Hlb. cbv beta in Hlb. fold k in Hlb.
  pose proof (ord_lt_K k t Hlb V) as Hk.
  split; [|left; split; assumption].
  set (stat' := fupdN (r_stat s) v stI). set (ord' := fupdN (r_ord s) v (S k)).
  (* the agenda, seen from the new maps *)
  assert (Hi' : TI t stat' ord' (r_ag s)).
  { destruct Hi as [H1 H2 H3 H4 H5 H6 H7]. constructor; try assumption.
    - intros t' w Hw. destruct (H5 t' w Hw) as [A B].
      assert (w <> v) by (intro; subst w; rewrite HS in A; discriminate).
      unfold stat', ord', fupdN. destruct (N.eqb_spec w v); [contradiction|]. split; assumption.
    - intros w Hw. unfold stat', ord', fupdN in *. destruct (N.eqb_spec w v); [exfalso; apply Hw; reflexivity|]. apply H6. exact Hw. }
  assert (Hdu : delta <= dur v k) by (apply Hdur; assumption).
  destruct (r_infect_ind g dur delays tmax K (TI t stat' ord') t src v s) as [A [B1 [B2 _]]].
  - intro V'. fold k in V' |- *. apply TI_ains; [exact Hi'|rewrite tadd_eq; lra|exact V'|].
    cbn [item_ok]. split; [|split].
    + intro Hc. apply in_arec_nodes in Hc. destruct Hc as [t' Hc].
      destruct (ti_rec _ _ _ _ Hi t' v Hc) as [Hc' _]. rewrite HS in Hc'. discriminate Hc'.
    + unfold stat', fupdN. rewrite N.eqb_refl. reflexivity.
    + cbv beta. unfold ord', fupdN. rewrite N.eqb_refl. rewrite Qnat_S_mul, tadd_eq. lra.
  - intros _. exact Hi'.
  - intros ag w d Hag Hw Hdin V'. fold k in Hdin. apply TI_ains; [exact Hag| |exact V'|].
    + pose proof (Hdel v w k d Hin Hk Hw Hdin). rewrite tadd_eq. lra.
    + cbn [item_ok]. apply (Hadj v); [exact Hin|exact Hw].
  - rewrite B1, B2. fold k. exact A.
Qed.

Lemma TP_step : forall s t a rest, TP s -> r_ag s = (t, a) :: rest ->
  TP (r_event g dur delays tmax t a (rpop s rest)) /\
  (forall u v, a = AAtt u v -> r_stat s v = stS -> safe g delays K v (r_ord s v)).
Proof.
  intros s t a rest [now Hi] Ea. destruct Hi as [H1 H2 H3 H4 H5 H6 H7]. rewrite Ea in *.
  inversion H1 as [|? ? Hs Hle]; subst. inversion H2 as [|? ? Hn Hn']; subst. inversion H3 as [|? ? Hv Hv']; subst.
  inversion H7 as [|? ? Hg Hg']; subst. cbn [fst] in Hn, Hv.
  (* the popped state, at the new instant *)
  assert (Hrest : forall stat, (forall t' w, In (t', ARec w) rest -> stat w = stI /\ lb (r_ord s) w <= t') ->
                    (forall w, stat w <> stI -> lb (r_ord s) w <= t) -> NoDup (arec_nodes rest) ->
                    TI t stat (r_ord s) rest).
  { intros stat A B C. constructor; assumption. }
  assert (Hpop : NoDup (arec_nodes rest)).
  { unfold arec_nodes in H4. cbn [flat_map] in H4. apply nodup_app_tail in H4. exact H4. }
  assert (Hsame : TI t (r_stat s) (r_ord s) rest).
  { apply Hrest; [intros t' w Hw; apply H5; right; exact Hw| |exact Hpop].
    intros w Hw. pose proof (H6 w Hw). cbv beta in *. lra. }
  destruct a as [v|u v]; cbn [r_event rpop r_stat r_ord r_ag r_log r_ok].
  - split; [|intros u w E; discriminate E]. exists t. cbn [r_stat r_ord r_ag].
    assert (Hv1 : ~ In v (arec_nodes rest)).
    { unfold arec_nodes in H4. cbn [flat_map snd app] in H4. inversion H4; assumption. }
    apply Hrest; [| |exact Hpop].
    + intros t' w Hw. destruct (H5 t' w (or_intror Hw)) as [A B].
      assert (w <> v) by (intro; subst w; apply Hv1; apply in_arec_nodes; exists t'; exact Hw).
      unfold fupdN. destruct (N.eqb_spec w v); [contradiction|]. split; assumption.
    + intros w Hw. unfold fupdN in Hw. destruct (N.eqb_spec w v) as [Ewv|_].
      * rewrite Ewv. destruct (H5 t v (or_introl eq_refl)) as [_ B]. exact B.
      * pose proof (H6 w Hw). cbv beta in *. lra.
  - destruct (N.eqb_spec (r_stat s v) stS) as [E|E].
    + destruct (TI_infect t (Some u) v (rpop s rest) Hsame E Hg Hv) as [A B]. split; [exists t; exact A|].
      intros u' v' E' _. injection E' as _ <-. exact B.
    + split; [exists t; exact Hsame|]. intros u' v' E' HS. injection E' as _ <-. contradiction.
Qed.

Theorem ref_total_time : forall full i0, xlt tmin tmax = true -> incl i0 (gnodes g) ->
  exists out b, ref_sis g dur delays tmax tmin full (ref_fuel g delays K i0) i0 = Ok (out, b).
Proof.
  intros full i0 V Hinc. unfold ref_sis. rewrite r_init_eq.
  set (P0 := fun s => TI tmin (r_stat s) (r_ord s) (r_ag s)).
  destruct (r_init_total g dur delays tmax K Hnd P0 tmin i0 (r_empty g tmin)) as [Hp Hm].
  - intros s u Hs Hu. unfold r_init_step. destruct (N.eqb_spec (r_stat s u) stS) as [E|E].
    + assert (Hin : In u (gnodes g)) by (apply Hinc; exact Hu).
      destruct (TI_infect tmin None u s Hs E Hin V) as [A B]. split; [exact A|intros _; exact B].
    + split; [exact Hs|intro HS; contradiction].
  - unfold P0, r_empty. cbn [r_stat r_ord r_ag].
    constructor; [constructor|constructor|constructor|constructor|intros t0 v0 []| |constructor].
    intros v0 _. cbv beta. change (Qnat 0) with 0. lra.
  - destruct (r_loop_total g dur delays tmax K Hnd TP TP_step (ref_fuel g delays K i0) _ (ex_intro _ tmin Hp)) as [s' [E _]].
    + unfold ref_fuel. unfold rM in Hm at 2. cbn [r_empty r_ag r_ord] in Hm. unfold agw in Hm. cbn [map] in Hm. rewrite ls_nil in Hm. lia.
    + rewrite E. cbn [rbind]. eexists. eexists. reflexivity.
Qed.

Theorem nmsis_refines_time : forall full i0, xlt tmin tmax = true -> incl i0 (gnodes g) ->
  exists out b,
    ref_sis g dur delays tmax tmin full (ref_fuel g delays K i0) i0 = Ok (out, b) /\
    (b = true -> nm_run g dur delays tmax tmin full (nm_fuel g delays K i0) i0 = Ok out).
Proof.
  intros full i0 V Hinc. destruct (ref_total_time full i0 V Hinc) as [out [b E]].
  exists out, b. split; [exact E|]. intros ->. unfold nm_fuel.
  apply (nmsis_refines g dur delays tmax tmin full _ i0 out V E).
Qed.

End Time.

(* the decidable form of the hypotheses *)
Definition rules_boundedb (g : graph) (dur : node -> nat -> Q) (delays : node -> node -> nat -> list Q)
    (tmax : xtime) (tmin delta : Q) (K : nat) : bool :=
  Qltb 0 delta &&
  match tmax with Some T => Qleb T (tmin + Qnat K * delta) | None => false end &&
  forallb (fun v => forallb (fun k => Qleb delta (dur v k) &&
      forallb (fun w => forallb (fun d => Qleb 0 d) (delays v w k)) (gadj g v)) (seq 0 K)) (gnodes g).
Definition graph_closedb (g : graph) (i0 : list node) : bool :=
  nodupb (gnodes g) && forallb (fun u => subsetb (gadj g u) (gnodes g)) (gnodes g) && subsetb i0 (gnodes g).

Lemma mem_In : forall x l, mem x l = true <-> In x l.
Proof.
  intros x l. unfold mem. rewrite existsb_exists. split.
  - intros [y [Hy E]]. apply N.eqb_eq in E. subst y. exact Hy.
  - intro H. exists x. split; [exact H|apply N.eqb_refl].
Qed.
Lemma nodupb_NoDup : forall l, nodupb l = true -> NoDup l.
Proof.
  induction l as [|x l IH]; intro H; [constructor|]. cbn [nodupb] in H. apply andb_prop in H. destruct H as [A B].
  constructor; [|apply IH; exact B]. intro Hin. apply mem_In in Hin. rewrite Hin in A. discriminate A.
Qed.
Lemma subsetb_incl : forall a b, subsetb a b = true -> incl a b.
Proof. intros a b H x Hx. unfold subsetb in H. rewrite forallb_forall in H. apply mem_In. apply H. exact Hx. Qed.

Lemma graph_closedb_spec : forall g i0, graph_closedb g i0 = true ->
  NoDup (gnodes g) /\ (forall u v, In u (gnodes g) -> In v (gadj g u) -> In v (gnodes g)) /\ incl i0 (gnodes g).
Proof.
  intros g i0 H. unfold graph_closedb in H. apply andb_prop in H. destruct H as [H H3]. apply andb_prop in H. destruct H as [H1 H2].
  split; [apply nodupb_NoDup; exact H1|]. split; [|apply subsetb_incl; exact H3].
  intros u v Hu Hv. rewrite forallb_forall in H2. apply (subsetb_incl _ _ (H2 u Hu)). exact Hv.
Qed.

(* C13 without the fuel condition, decidable hypotheses *)
Theorem nmsis_refines_bounded : forall g dur delays tmax tmin delta K full i0,
  graph_closedb g i0 = true -> rules_boundedb g dur delays tmax tmin delta K = true -> xlt tmin tmax = true ->
  exists out b,
    ref_sis g dur delays tmax tmin full (ref_fuel g delays K i0) i0 = Ok (out, b) /\
    (b = true -> nm_run g dur delays tmax tmin full (nm_fuel g delays K i0) i0 = Ok out).
Proof.
  intros g dur delays tmax tmin delta K full i0 Hg Hr V.
  destruct (graph_closedb_spec g i0 Hg) as [Hnd [Hadj Hinc]].
  unfold rules_boundedb in Hr. apply andb_prop in Hr. destruct Hr as [Hr H3]. apply andb_prop in Hr. destruct Hr as [H1 H2].
  destruct tmax as [T|]; [|discriminate H2]. apply Qltb_true in H1. apply Qleb_true in H2.
  rewrite forallb_forall in H3.
  assert (Hk : forall v k, In v (gnodes g) -> (k < K)%nat ->
            Qleb delta (dur v k) && forallb (fun w => forallb (fun d => Qleb 0 d) (delays v w k)) (gadj g v) = true).
  { intros v k Hv Hk. specialize (H3 v Hv). rewrite forallb_forall in H3. apply H3. apply in_seq. lia. }
  apply (nmsis_refines_time g Hnd Hadj dur delays T tmin delta K H1 H2); [| |exact V|exact Hinc].
  - intros v k Hv Hlt. specialize (Hk v k Hv Hlt). apply andb_prop in Hk. apply Qleb_true. apply Hk.
  - intros v w k d Hv Hlt Hw Hdin. specialize (Hk v k Hv Hlt). apply andb_prop in Hk. destruct Hk as [_ Hk].
    rewrite forallb_forall in Hk. specialize (Hk w Hw). rewrite forallb_forall in Hk. apply Qleb_true. apply Hk. exact Hdin.
Qed.
