(* C08, tree clause: the peeling-order definition against  "acyclic"  and  "connected and acyclic".
   Abstract symmetric adjacency on nat; V a duplicate-free vertex list without loops.
     no_bypass V  (C08tTreeA.v): no walk inside V - j joins two distinct neighbours of j;
     acyclic V    : there is no simple cycle (>= 3 distinct vertices of V, consecutive ones and last/first adjacent).
   acyclic_iff_no_bypass       the two coincide (loop erasure of a walk one way, a cycle read as a walk the other way);
   forest_order_of_no_bypass   an acyclic graph has a forest peeling order (a vertex of degree <= 1 exists: descend
                               into ever smaller branches, leaf_in_branch);
   tree_order_of_connected_no_bypass   connected + acyclic ==> a tree peeling order;
   with peel_no_bypass and connected_degsum_of_order: forest order <=> acyclic, tree order <=> connected and acyclic. *)
From EoNV Require Import Prelude C08tTreeA C08tTreeD.
From Coq Require Import Lia List Arith Bool.
Import ListNotations.
Local Open Scope nat_scope.

Lemma filter_pos_ex {A} (f : A -> bool) l : 1 <= length (filter f l) -> exists x, In x l /\ f x = true.
Proof.
  destruct (filter f l) as [|x t] eqn:E; [cbn; lia|]. intros _. exists x. apply filter_In. rewrite E. left. reflexivity.
Qed.

Lemma NoDup_app_r {A} (l1 l2 : list A) : NoDup (l1 ++ l2) -> NoDup l2.
Proof. induction l1 as [|a l1 IH]; intros H; [exact H|]. apply IH. inversion H; assumption. Qed.

Lemma last_In (l : list nat) d : l <> [] -> In (last l d) l.
Proof.
  induction l as [|a l IH]; intros H; [exfalso; apply H; reflexivity|]. destruct l as [|b l]; [left; reflexivity|].
  right. apply IH. discriminate.
Qed.

Section Acyclic.
Variable adj : nat -> nat -> bool.
Hypothesis adj_sym : forall a b, adj a b = adj b a.
Notation deg_in := (deg_in adj).
Notation reach := (reach adj).
Notation no_bypass := (no_bypass adj).
Notation walk := (walk adj).
Notation connected := (connected adj).

Definition irrefl_on (V : list nat) : Prop := forall x, In x V -> adj x x = false.

Lemma no_bypass_sub V V' : incl V' V -> no_bypass V -> no_bypass V'.
Proof.
  intros HI NB j i k Hj Hi Hk Nik Eij Ekj R. apply (NB j i k (HI j Hj) (HI i Hi) (HI k Hk) Nik Eij Ekj).
  apply (reach_mono adj V' V j i k HI R).
Qed.
Lemma incl_del v V : incl (del v V) V.
Proof. intros x Hx. apply del_In in Hx. apply Hx. Qed.
(* a walk inside V - a is a walk of V avoiding a *)
Lemma reach_lift V a j c v : reach (del a V) j c v -> reach V a c v.
Proof.
  intros H. induction H as [c|c c' v E _ Ic _ IH]; [constructor|]. apply del_In in Ic. destruct Ic as [Ic Nc].
  apply (reach_step adj V a c c' v E Nc Ic IH).
Qed.
Lemma deg_del v a V : NoDup V -> In a V -> deg_in v V = deg_in v (del a V) + (if adj v a then 1 else 0).
Proof. intros ND Ha. unfold C08tTreeA.deg_in. apply (filter_length_del (adj v) a V ND Ha). Qed.

(* every branch at a contains a vertex of degree <= 1 *)
Lemma leaf_in_branch n : forall V, length V = n -> NoDup V -> irrefl_on V -> no_bypass V ->
  forall a b, In a V -> In b V -> adj a b = true ->
  exists v, v <> a /\ In v V /\ reach V a b v /\ deg_in v V <= 1.
Proof.
  induction n as [|n IH]; intros V L ND Irr NB a b Ha Hb Eab; [destruct V; [destruct Ha|discriminate L]|].
  assert (Nba : b <> a) by (intros ->; rewrite (Irr a Ha) in Eab; discriminate Eab).
  set (V' := del a V).
  assert (L' : length V' = n) by (assert (K := length_del a V ND Ha); fold V' in K; lia).
  assert (Hb' : In b V') by (apply del_In; split; assumption).
  assert (Db := deg_del b a V ND Ha). fold V' in Db. rewrite adj_sym, Eab in Db.
  destruct (le_lt_dec (deg_in b V') 0) as [Z|P].
  - exists b. repeat split; try assumption; [constructor|lia].
  - destruct (filter_pos_ex (adj b) V' P) as [c [Ic Ebc]].
    destruct (IH V' L' (NoDup_del a V ND) (fun x Hx => Irr x (incl_del a V x Hx)) (no_bypass_sub V V' (incl_del a V) NB)
                b c Hb' Ic Ebc) as [v [Nvb [Iv [R Dv]]]].
    assert (Ic' := proj1 (del_In a V c) Ic). assert (Iv' := proj1 (del_In a V v) Iv).
    assert (R' : reach V a b v) by (apply (reach_step adj V a b c v Ebc (proj2 Ic') (proj1 Ic')); apply (reach_lift V a b c v R)).
    assert (Dv' := deg_del v a V ND Ha). fold V' in Dv'.
    destruct (adj v a) eqn:Eva.
    + exfalso. apply (NB a b v Ha Hb (proj1 Iv') (fun E => Nvb (eq_sym E))); [rewrite adj_sym; exact Eab|exact Eva|exact R'].
    + exists v. repeat split; try assumption; [apply Iv'|apply Iv'|lia].
Qed.
Lemma exists_leaf V : V <> [] -> NoDup V -> irrefl_on V -> no_bypass V -> exists v, In v V /\ deg_in v V <= 1.
Proof.
  intros NE ND Irr NB. destruct V as [|a V0]; [exfalso; apply NE; reflexivity|].
  destruct (le_lt_dec (deg_in a (a :: V0)) 0) as [Z|P]; [exists a; split; [left; reflexivity|lia]|].
  destruct (filter_pos_ex (adj a) (a :: V0) P) as [b [Ib Eab]].
  destruct (leaf_in_branch _ (a :: V0) eq_refl ND Irr NB a b (or_introl eq_refl) Ib Eab) as [v [_ [Iv [_ Dv]]]].
  exists v. split; assumption.
Qed.

(* peeling: removing v (degree <= 1) and ordering the rest *)
Lemma peel_cons v V ord : NoDup V -> In v V -> same_elts ord (del v V) -> NoDup ord ->
  same_elts (v :: ord) V /\ ~ In v ord /\ deg_in v ord = deg_in v (del v V).
Proof.
  intros ND Hv SE NO. split; [|split].
  - intros x. cbn [In]. rewrite (SE x), del_In. split.
    + intros [<-|[A _]]; assumption.
    + intros Hx. destruct (Nat.eq_dec v x) as [E|E]; [left; exact E|right; split; [exact Hx|intros K; apply E; symmetry; exact K]].
  - intros K. apply SE in K. apply del_In in K. apply (proj2 K). reflexivity.
  - unfold C08tTreeA.deg_in. apply filter_length_same; [exact NO|apply NoDup_del; exact ND|exact SE].
Qed.

Theorem forest_order_of_no_bypass n : forall V, length V = n -> NoDup V -> irrefl_on V -> no_bypass V ->
  exists ord, same_elts ord V /\ forest_peelb adj ord = true.
Proof.
  induction n as [|n IH]; intros V L ND Irr NB.
  - destruct V; [|discriminate L]. exists []. split; [intros x; reflexivity|reflexivity].
  - destruct (exists_leaf V) as [v [Hv Dv]]; try assumption; [intros ->; discriminate L|].
    set (rest := del v V). assert (Lr : length rest = n) by (assert (K := length_del v V ND Hv); fold rest in K; lia).
    destruct (IH rest Lr (NoDup_del v V ND) (fun x Hx => Irr x (incl_del v V x Hx)) (no_bypass_sub V rest (incl_del v V) NB))
      as [ord [SE FP]].
    destruct (peel_cons v V ord ND Hv SE (forest_peel_nodup adj ord FP)) as [SE' [Nv Ed]].
    exists (v :: ord). split; [exact SE'|]. cbn [forest_peelb]. rewrite FP, andb_true_r, (proj2 (memn'_false v ord) Nv).
    cbn [negb andb]. apply Nat.leb_le. assert (K := deg_del v v V ND Hv). fold rest in Ed. fold rest in K. lia.
Qed.

Theorem tree_order_of_connected_no_bypass n : forall V, length V = n -> NoDup V -> irrefl_on V ->
  connected V -> no_bypass V -> exists ord, same_elts ord V /\ tree_peelb adj ord = true.
Proof.
  induction n as [|n IH]; intros V L ND Irr Con NB.
  - destruct V; [|discriminate L]. exists []. split; [intros x; reflexivity|reflexivity].
  - destruct (exists_leaf V) as [v [Hv Dv]]; try assumption; [intros ->; discriminate L|].
    set (rest := del v V). assert (Lr : length rest = n) by (assert (K := length_del v V ND Hv); fold rest in K; lia).
    assert (Ev := deg_del v v V ND Hv). fold rest in Ev. rewrite (Irr v Hv) in Ev.
    assert (Sub : incl V (v :: rest)).
    { intros x Hx. destruct (Nat.eq_dec x v) as [->|Nx]; [left; reflexivity|right; apply del_In; split; assumption]. }
    assert (Irr' : forall x, In x (v :: rest) -> adj x x = false).
    { intros x [<-|Hx]; [apply Irr; exact Hv|]. apply Irr. apply (incl_del v V x Hx). }
    destruct (IH rest Lr (NoDup_del v V ND) (fun x Hx => Irr x (incl_del v V x Hx))) as [ord [SE TP]].
    + intros a b Ha Hb. assert (Ha' := proj1 (del_In v V a) Ha). assert (Hb' := proj1 (del_In v V b) Hb).
      assert (W := walk_mono adj V (v :: rest) a b Sub (Con a b (proj1 Ha') (proj1 Hb'))).
      apply (proj1 (walk_drop adj adj_sym v rest a b Irr' ltac:(lia) W (proj2 Hb')) (proj2 Ha') Ha).
    + apply (no_bypass_sub V rest (incl_del v V) NB).
    + destruct (peel_cons v V ord ND Hv SE (forest_peel_nodup adj ord (tree_forest_peel adj ord TP))) as [SE' [Nv Ed]].
      exists (v :: ord). split; [exact SE'|]. cbn [tree_peelb]. rewrite TP, andb_true_r, (proj2 (memn'_false v ord) Nv).
      cbn [negb andb]. destruct ord as [|o ord']; [reflexivity|]. apply Nat.eqb_eq. fold rest in Ed.
      (* the rest is not empty, so v has a neighbour: V is connected *)
      assert (Io : In o V) by (apply SE'; right; left; reflexivity).
      assert (Nov : o <> v) by (intros ->; apply Nv; left; reflexivity).
      assert (W := Con v o Hv Io). inversion W as [|a c b E Ic _]; subst; [exfalso; apply Nov; reflexivity|].
      assert (K : In c (filter (adj v) V)) by (apply filter_In; split; assumption).
      assert (P : 1 <= deg_in v V) by (unfold C08tTreeA.deg_in; destruct (filter (adj v) V); [destruct K|cbn [length]; lia]).
      lia.
Qed.

(* ---------------- simple cycles ---------------- *)
Fixpoint pathb (l : list nat) : bool :=
  match l with
  | a :: (b :: _) as t => adj a b && pathb t
  | _ => true
  end.
Definition simple_cycle (V c : list nat) : Prop :=
  NoDup c /\ incl c V /\ 3 <= length c /\ pathb c = true /\ adj (last c 0) (hd 0 c) = true.
Definition acyclic (V : list nat) : Prop := forall c, ~ simple_cycle V c.

Lemma pathb_cons a b t : pathb (a :: b :: t) = (adj a b && pathb (b :: t))%bool.
Proof. reflexivity. Qed.
Lemma pathb_app_r l1 l2 : pathb (l1 ++ l2) = true -> pathb l2 = true.
Proof.
  induction l1 as [|a l1 IH]; intros H; [exact H|]. apply IH. destruct (l1 ++ l2) as [|b t] eqn:E; [reflexivity|].
  cbn [app] in H. rewrite E, pathb_cons in H. apply andb_prop in H. apply H.
Qed.
Lemma last_app_cons (l1 : list nat) a l2 d : last (l1 ++ a :: l2) d = last (a :: l2) d.
Proof.
  induction l1 as [|x l1 IH]; [reflexivity|]. cbn [app]. destruct (l1 ++ a :: l2) as [|y t] eqn:E.
  - destruct l1; discriminate E.
  - rewrite <- IH. reflexivity.
Qed.
Lemma last_cons2 (a b : nat) t d : last (a :: b :: t) d = last (b :: t) d.
Proof. reflexivity. Qed.

(* loop erasure: a walk from a to b avoiding j contains a simple path from a to b avoiding j *)
Lemma reach_simple V j a b : reach V j a b -> a <> j -> In a V ->
  exists q, NoDup (a :: q) /\ incl (a :: q) V /\ ~ In j (a :: q) /\ pathb (a :: q) = true /\ last (a :: q) 0 = b.
Proof.
  intros H. induction H as [a|a c b E Nc Ic _ IH]; intros Na Ia.
  - exists []. repeat split.
    + constructor; [intros []|constructor].
    + intros x [<-|[]]. exact Ia.
    + intros [K|[]]. apply Na. exact K.
  - destruct (IH Nc Ic) as [q [ND [HI [Nj [PB LA]]]]].
    destruct (in_dec Nat.eq_dec a (c :: q)) as [Hin|Hout].
    + apply in_split in Hin. destruct Hin as [l1 [l2 E']]. exists l2. rewrite E' in ND, HI, Nj, PB, LA. repeat split.
      * apply (NoDup_app_r l1 _ ND).
      * intros x Hx. apply HI. apply in_or_app. right. exact Hx.
      * intros K. apply Nj. apply in_or_app. right. exact K.
      * apply (pathb_app_r l1 _ PB).
      * rewrite last_app_cons in LA. exact LA.
    + exists (c :: q). repeat split.
      * constructor; assumption.
      * intros x [<-|Hx]; [exact Ia|apply HI; exact Hx].
      * intros [K|K]; [apply Na; exact K|apply Nj; exact K].
      * rewrite pathb_cons, E, PB. reflexivity.
      * rewrite last_cons2. exact LA.
Qed.
(* a simple path read as a walk *)
Lemma path_reach V j q : forall a, pathb (a :: q) = true -> incl q V -> ~ In j q -> reach V j a (last (a :: q) 0).
Proof.
  induction q as [|c q IH]; intros a PB HI Nj; [constructor|]. rewrite pathb_cons in PB. apply andb_prop in PB.
  destruct PB as [E PB]. rewrite last_cons2. apply (reach_step adj V j a c _ E).
  - intros ->. apply Nj. left. reflexivity.
  - apply HI. left. reflexivity.
  - apply IH; [exact PB|intros x Hx; apply HI; right; exact Hx|intros K; apply Nj; right; exact K].
Qed.

Theorem no_bypass_of_acyclic V : irrefl_on V -> acyclic V -> no_bypass V.
Proof.
  intros Irr AC j i k Hj Hi Hk Nik Eij Ekj R.
  assert (Nij : i <> j) by (intros ->; rewrite (Irr j Hj) in Eij; discriminate Eij).
  destruct (reach_simple V j i k R Nij Hi) as [q [ND [HI [Nj [PB LA]]]]].
  apply (AC (j :: i :: q)). unfold simple_cycle. repeat split.
  - constructor; assumption.
  - intros x [<-|Hx]; [exact Hj|apply HI; exact Hx].
  - destruct q as [|c q]; [exfalso; apply Nik; exact LA|cbn [length]; lia].
  - rewrite pathb_cons, PB, adj_sym, Eij. reflexivity.
  - rewrite last_cons2, LA. cbn [hd]. exact Ekj.
Qed.
Theorem acyclic_of_no_bypass V : no_bypass V -> acyclic V.
Proof.
  intros NB c [ND [HI [L3 [PB CL]]]]. destruct c as [|j [|i q]]; try (cbn in L3; lia).
  rewrite pathb_cons in PB. apply andb_prop in PB. destruct PB as [Eji PB]. rewrite last_cons2 in CL. cbn [hd] in CL.
  inversion ND as [|? ? Nj ND']; subst.
  assert (Hq : q <> []) by (intros ->; cbn in L3; lia).
  assert (Nik : i <> last (i :: q) 0).
  { intros E. inversion ND' as [|? ? Ni _]; subst. apply Ni. destruct q as [|c q]; [exfalso; apply Hq; reflexivity|].
    rewrite last_cons2 in E. rewrite E. apply last_In. discriminate. }
  assert (Ik : In (last (i :: q) 0) (i :: q)) by (apply last_In; discriminate).
  apply (NB j i (last (i :: q) 0)).
  - apply HI. left. reflexivity.
  - apply HI. right. left. reflexivity.
  - apply HI. right. exact Ik.
  - exact Nik.
  - rewrite adj_sym. exact Eji.
  - exact CL.
  - apply path_reach; [exact PB|intros x Hx; apply HI; right; right; exact Hx|intros K; apply Nj; right; exact K].
Qed.

(* ---------------- the equivalences ---------------- *)
Theorem forest_iff_acyclic V : NoDup V -> irrefl_on V ->
  (acyclic V <-> exists ord, same_elts ord V /\ forest_peelb adj ord = true).
Proof.
  intros ND Irr. split.
  - intros AC. apply (forest_order_of_no_bypass (length V) V eq_refl ND Irr). apply no_bypass_of_acyclic; assumption.
  - intros [ord [SE FP]]. apply acyclic_of_no_bypass. apply (no_bypass_sub ord V); [intros x Hx; apply SE; exact Hx|].
    apply (peel_no_bypass adj adj_sym); [intros x Hx; apply Irr; apply SE; exact Hx|exact FP].
Qed.
Theorem tree_iff_connected_acyclic V : NoDup V -> irrefl_on V ->
  ((connected V /\ acyclic V) <-> exists ord, same_elts ord V /\ tree_peelb adj ord = true).
Proof.
  intros ND Irr. split.
  - intros [Con AC]. apply (tree_order_of_connected_no_bypass (length V) V eq_refl ND Irr Con).
    apply no_bypass_of_acyclic; assumption.
  - intros [ord [SE TP]]. split.
    + destruct (connected_degsum_of_order adj adj_sym ord (fun x Hx => Irr x (proj1 (SE x) Hx)) TP) as [Con _].
      intros a b Ha Hb. apply (walk_mono adj ord V); [intros x Hx; apply SE; exact Hx|]. apply Con; apply SE; assumption.
    + apply acyclic_of_no_bypass. apply (no_bypass_sub ord V); [intros x Hx; apply SE; exact Hx|].
      apply (peel_no_bypass adj adj_sym); [intros x Hx; apply Irr; apply SE; exact Hx|apply tree_forest_peel; exact TP].
Qed.
End Acyclic.
