(* C13x, part 4: fast_nonMarkov_SIS ITSELF ends within [nm_fuel] on the domain
   "finite horizon, durations bounded below" — whether or not the run stays inside
   C13's domain (tied times, attempts after recovery, ... all allowed).  Needed
   on top of C13xTime.v: the delay lists of the ordinals below K are
   non-decreasing (the code queues only the head of a list and trusts the rest to
   be later; with an unsorted list a stored attempt can lie in the past and time
   would run backwards).  Same potential, same ordinal bound  k-th infection of
   v >= tmin + k*delta,  now read off the queue. *)
From EoNV Require Import Prelude Samp Graph EventSIS EventSISP EventSISP3 EventSISNM C13xTerm C13xFin C13xTime.
From Coq Require Import Permutation Sorted Lia Lqa.

Section TimeN.
Variable g : graph.
Hypothesis Hnd : NoDup (gnodes g).
Hypothesis Hadj : forall u v, In u (gnodes g) -> In v (gadj g u) -> In v (gnodes g).
Variable dur : node -> nat -> Q.
Variable delays : node -> node -> nat -> list Q.
Variable T : Q.
Variable tmin delta : Q.
Variable K : nat.
Notation tmax := (Some T).
Hypothesis Hd : 0 < delta.
Hypothesis HK : T <= tmin + Qnat K * delta.
Hypothesis Hdur : forall v k, In v (gnodes g) -> (k < K)%nat -> delta <= dur v k.
Hypothesis Hdel : forall v w k, In v (gnodes g) -> (k < K)%nat -> In w (gadj g v) ->
  nondecr (delays v w k) /\ Forall (fun d => 0 <= d) (delays v w k).

Notation lb := (fun (ord : node -> nat) v => tmin + Qnat (ord v) * delta).

Definition nent_ok (stat : node -> N) (rec : node -> Q) (ord : node -> nat) (x : qent nev) : Prop :=
  match snd x with
  | NRec v => stat v = stI /\ lb ord v <= qtime x
  | NTrans _ v fut => In v (gnodes g) /\ nondecr (qtime x :: fut)
  end.

Record QT (clock : Q) (stat : node -> N) (rec : node -> Q) (ord : node -> nat) (l : list (qent nev)) : Prop := mkQT {
  qt_sorted : tsorted l;
  qt_now : Forall (fun x => clock <= qtime x) l;
  qt_vis : Forall (fun x => xlt (qtime x) tmax = true) l;
  qt_nd : NoDup (nrec_nodes l);
  qt_ent : Forall (nent_ok stat rec ord) l;
  qt_S : forall v, stat v <> stI -> lb ord v <= clock
}.
Definition NTP (s : nst) : Prop := exists clock, QT clock (ns_stat s) (ns_rec s) (ns_ord s) (q_items (ns_q s)).

Lemma QT_add : forall clock stat rec ord q t e,
  QT clock stat rec ord (q_items q) -> clock <= t ->
  (xlt t tmax = true -> nent_ok stat rec ord (t, q_ctr q, e)) ->
  (forall v, e = NRec v -> ~ In v (nrec_nodes (q_items q))) ->
  QT clock stat rec ord (q_items (q_add tmax q t e)).
Proof.
  intros clock stat rec ord q t e [H1 H2 H3 H4 H5 H6] Ht Hok Hfresh. unfold q_add.
  destruct (xlt t (Some T)) eqn:V; [|constructor; assumption]. cbn [q_items].
  pose proof (Permutation_sym (qins_perm (t, q_ctr q, e) (q_items q))) as Hp.
  constructor.
  - apply qins_sorted. exact H1.
  - eapply Permutation_Forall; [exact Hp|]. constructor; [exact Ht|exact H2].
  - eapply Permutation_Forall; [exact Hp|]. constructor; [exact V|exact H3].
  - eapply Permutation_NoDup; [apply nrec_nodes_perm; exact Hp|].
    unfold nrec_nodes. cbn [flat_map snd]. fold (nrec_nodes (q_items q)).
    destruct e as [v|src tgt fut]; cbn [app]; [|exact H4]. constructor; [apply (Hfresh v eq_refl)|exact H4].
  - eapply Permutation_Forall; [exact Hp|]. constructor; [apply Hok; reflexivity|exact H5].
  - exact H6.
Qed.

Lemma QT_chain : forall clock stat rec ord q src v tt,
  QT clock stat rec ord (q_items q) -> In v (gnodes g) -> nondecr tt -> Forall (fun x => clock <= x) tt ->
  QT clock stat rec ord (q_items (chain tmax q src v tt)).
Proof.
  intros clock stat rec ord q src v [|h tl] Hq Hv Hs Hc; cbn [chain]; [exact Hq|].
  apply QT_add; [exact Hq|inversion Hc; assumption| |intros w Hw; discriminate Hw].
  intros _. unfold nent_ok. cbn [snd qtime fst]. split; [exact Hv|exact Hs].
Qed.

Lemma filter_Forall : forall (P : Q -> Prop) p l, Forall P l -> Forall P (filter p l).
Proof.
  intros P p l H. apply Forall_forall. intros x Hx. apply filter_In in Hx. rewrite Forall_forall in H. apply H. apply Hx.
Qed.

Lemma QT_sched_fold : forall clock t v k stat rec ord st' rc' ws q,
  In v (gnodes g) -> (k < K)%nat -> clock <= t -> incl ws (gadj g v) ->
  QT clock stat rec ord (q_items q) ->
  QT clock stat rec ord (q_items (fold_left (n_sched delays tmax t v k st' rc') ws q)).
Proof.
  intros clock t v k stat rec ord st' rc' ws. induction ws as [|w ws IH]; intros q Hv Hk Hct Hinc Hq; cbn [fold_left]; [exact Hq|].
  apply IH; [exact Hv|exact Hk|exact Hct|intros x Hx; apply Hinc; right; exact Hx|].
  assert (Hw : In w (gadj g v)) by (apply Hinc; left; reflexivity).
  destruct (Hdel v w k Hv Hk Hw) as [Hs Hp].
  unfold n_sched. destruct (delays v w k) as [|d dl] eqn:Ed; [exact Hq|]. rewrite <- Ed in *.
  set (tt := map (fun d0 => tadd t d0) (delays v w k)).
  assert (Htt : nondecr tt) by (apply nondecr_map_tadd; exact Hs).
  assert (Hge : Forall (fun x => clock <= x) tt).
  { apply Forall_forall. intros x Hx. apply in_map_iff in Hx. destruct Hx as [d0 [<- Hd0]].
    rewrite Forall_forall in Hp. specialize (Hp d0 Hd0). rewrite tadd_eq. lra. }
  destruct (N.eqb (st' w) stI).
  - apply QT_chain; [exact Hq|apply (Hadj v); assumption|apply nondecr_filter; exact Htt|apply filter_Forall; exact Hge].
  - apply QT_chain; [exact Hq|apply (Hadj v); assumption|exact Htt|exact Hge].
Qed.

Lemma NTP_step : forall s t c e rest, NTP s -> q_items (ns_q s) = (t, c, e) :: rest ->
  NTP (n_event g dur delays tmax t e (C13xTerm.npop s rest)) /\
  (forall src v fut, e = NTrans src v fut -> ns_stat s v = stS -> safe g delays K v (ns_ord s v)).
Proof.
  intros s t c e rest [clock Hi] Eq. destruct Hi as [H1 H2 H3 H4 H5 H6]. rewrite Eq in *.
  inversion H1 as [|? ? Hs Hle]; subst. inversion H2 as [|? ? Hn Hn']; subst. inversion H3 as [|? ? Hv Hv']; subst.
  inversion H5 as [|? ? He He']; subst. cbn [qtime fst] in Hn, Hv.
  assert (Hge : Forall (fun x : qent nev => t <= qtime x) rest) by exact Hle.
  assert (Hpop : NoDup (nrec_nodes rest)).
  { unfold nrec_nodes in H4. cbn [flat_map] in H4. apply nodup_app_tail in H4. exact H4. }
  assert (HS' : forall v, ns_stat s v <> stI -> lb (ns_ord s) v <= t).
  { intros v Hv0. pose proof (H6 v Hv0). cbv beta in *. lra. }
  destruct e as [v|src v fut]; cbn [n_event].
  - (* recovery *)
    split; [|intros src w fut E; discriminate E]. exists t.
    unfold nent_ok in He. cbn [snd qtime fst] in He. destruct He as [HvI Hlb].
    assert (Hv1 : ~ In v (nrec_nodes rest)).
    { unfold nrec_nodes in H4. cbn [flat_map snd app] in H4. inversion H4; assumption. }
    unfold n_recover. cbn [C13xTerm.npop ns_stat ns_rec ns_ord ns_q q_items].
    constructor; try assumption.
    + rewrite Forall_forall in *. intros [[tx cx] ex] Hin. specialize (He' _ Hin). unfold nent_ok in *. cbn [snd qtime fst] in *.
      destruct ex as [w|sr w fu]; [|exact He']. destruct He' as [A B].
      assert (w <> v).
      { intro; subst w. apply Hv1. unfold nrec_nodes. apply in_flat_map. exists (tx, cx, NRec v). split; [exact Hin|left; reflexivity]. }
      unfold fupdN. destruct (N.eqb_spec w v); [contradiction|]. split; assumption.
    + intros w Hw. unfold fupdN in Hw. destruct (N.eqb_spec w v) as [Ewv|_]; [rewrite Ewv; exact Hlb|apply HS'; exact Hw].
  - (* transmission event *)
    unfold nent_ok in He. cbn [snd qtime fst] in He. destruct He as [Hvn Hfut].
    destruct (nondecr_tail _ _ Hfut) as [Hfs Hfge].
    assert (Hq0 : QT t (ns_stat s) (ns_rec s) (ns_ord s) rest) by (constructor; assumption).
    unfold n_trans. cbn [C13xTerm.npop ns_stat ns_rec ns_ord ns_q ns_log].
    destruct (N.eqb_spec (ns_stat s v) stS) as [ES|ES]; cbn [ns_stat ns_rec ns_ord ns_q ns_log].
    + set (k := ns_ord s v). set (rt := tadd t (dur v k)).
      assert (HnI : ns_stat s v <> stI) by (rewrite ES; discriminate).
      pose proof (HS' v HnI) as Hlbv. cbv beta in Hlbv. fold k in Hlbv.
      pose proof (ord_lt_K T tmin delta K Hd HK k t Hlbv Hv) as Hk.
      assert (Hdu : delta <= dur v k) by (apply Hdur; assumption).
      set (st' := fupdN (ns_stat s) v stI). set (rc' := fupdN (ns_rec s) v rt). set (od' := fupdN (ns_ord s) v (S k)).
      split; [|intros src' v' fut' E' _; injection E' as _ <- _; left; split; assumption].
      exists t.
      (* the rest of the queue under the new maps *)
      assert (Hq1 : QT t st' rc' od' rest).
      { destruct Hq0 as [A1 A2 A3 A4 A5 A6]. constructor; try assumption.
        - rewrite Forall_forall in *. intros [[tx cx] ex] Hin. specialize (A5 _ Hin). unfold nent_ok in *. cbn [snd qtime fst] in *.
          destruct ex as [w|sr w fu]; [|exact A5]. destruct A5 as [A B].
          assert (w <> v) by (intro; subst w; rewrite ES in A; discriminate).
          unfold st', od', fupdN. destruct (N.eqb_spec w v); [contradiction|]. split; assumption.
        - intros w Hw. unfold st', od', fupdN in *. destruct (N.eqb_spec w v); [exfalso; apply Hw; reflexivity|]. apply A6. exact Hw. }
      set (q0 := mkQ rest (q_ctr (ns_q s))).
      assert (Hq2 : QT t st' rc' od' (q_items (if xlt rt tmax then q_add tmax q0 rt (NRec v) else q0))).
      { destruct (xlt rt tmax) eqn:Vr; [|exact Hq1]. apply QT_add; [exact Hq1|unfold rt; rewrite tadd_eq; lra| |].
        - intros _. unfold nent_ok. cbn [snd qtime fst]. split.
          + unfold st', fupdN. rewrite N.eqb_refl. reflexivity.
          + cbv beta. unfold od', fupdN. rewrite N.eqb_refl. rewrite Qnat_S_mul. unfold rt. rewrite tadd_eq. lra.
        - intros w Ew Hin. injection Ew as <-. apply in_nrec_nodes in Hin. destruct Hin as [x [Hin Ex]].
          cbn [q0 q_items] in Hin. rewrite Forall_forall in He'. specialize (He' x Hin). unfold nent_ok in He'. rewrite Ex in He'.
          destruct He' as [A _]. rewrite ES in A. discriminate A. }
      apply QT_chain; [|exact Hvn|apply nondecr_filter; exact Hfs|apply filter_Forall; exact Hfge].
      apply QT_sched_fold; [exact Hvn|exact Hk|lra|apply incl_refl|exact Hq2].
    + split; [|intros src' v' fut' E' HS0; injection E' as _ <- _; contradiction].
      exists t. apply QT_chain; [exact Hq0|exact Hvn|apply nondecr_filter; exact Hfs|apply filter_Forall; exact Hfge].
Qed.

Theorem nm_total_time : forall full i0, xlt tmin tmax = true -> incl i0 (gnodes g) ->
  exists out, nm_run g dur delays tmax tmin full (nm_fuel g delays K i0) i0 = Ok out.
Proof.
  intros full i0 V Hinc. unfold nm_run.
  destruct (n_loop_total g dur delays tmax K Hnd NTP NTP_step (nm_fuel g delays K i0) (n_init g tmax tmin i0)) as [s' [E _]].
  - exists tmin. unfold n_init. cbn [ns_stat ns_rec ns_ord ns_q].
    assert (H : forall l q, incl l (gnodes g) ->
              QT tmin (fun _ => stS) (fun _ => tmin - 1) (fun _ => O) (q_items q) ->
              QT tmin (fun _ => stS) (fun _ => tmin - 1) (fun _ => O)
                 (q_items (fold_left (fun q u => q_add tmax q tmin (NTrans None u [])) l q))).
    { induction l as [|u l IH]; intros q Hl Hq; cbn [fold_left]; [exact Hq|].
      apply IH; [intros x Hx; apply Hl; right; exact Hx|]. apply QT_add; [exact Hq|lra| |intros w Ew; discriminate Ew].
      intros _. unfold nent_ok. cbn [snd qtime fst]. split; [apply Hl; left; reflexivity|]. constructor; constructor. }
    apply H; [exact Hinc|]. constructor; cbn [q_empty q_items]; try constructor.
    intros v _. cbv beta. change (Qnat 0) with 0. lra.
  - pose proof (n_init_M g delays tmax K tmin i0). unfold nm_fuel, ref_fuel. lia.
  - rewrite E. cbn [rbind]. eexists. reflexivity.
Qed.

End TimeN.

(* decidable form *)
Fixpoint nondecrb (l : list Q) : bool :=
  match l with
  | a :: ((b :: _) as t) => Qleb a b && nondecrb t
  | _ => true
  end.
Lemma nondecrb_spec : forall l, nondecrb l = true -> nondecr l.
Proof.
  induction l as [|a l IH]; intro H; [constructor|]. destruct l as [|b l]; [constructor; constructor|].
  cbn [nondecrb] in H. apply andb_prop in H. destruct H as [Hab Hl]. apply Qleb_true in Hab. specialize (IH Hl).
  constructor; [exact IH|]. constructor; [exact Hab|]. inversion IH as [|? ? _ F]; subst.
  eapply Forall_impl; [|exact F]. intros x Hx. cbv beta in Hx. lra.
Qed.
Definition lists_sortedb (g : graph) (delays : node -> node -> nat -> list Q) (K : nat) : bool :=
  forallb (fun v => forallb (fun k => forallb (fun w => nondecrb (delays v w k)) (gadj g v)) (seq 0 K)) (gnodes g).

Theorem nmsis_terminates_bounded : forall g dur delays tmax tmin delta K full i0,
  graph_closedb g i0 = true -> rules_boundedb g dur delays tmax tmin delta K = true -> lists_sortedb g delays K = true ->
  xlt tmin tmax = true ->
  exists out, nm_run g dur delays tmax tmin full (nm_fuel g delays K i0) i0 = Ok out.
Proof.
  intros g dur delays tmax tmin delta K full i0 Hg Hr Hs V.
  destruct (graph_closedb_spec g i0 Hg) as [Hnd [Hadj Hinc]].
  unfold rules_boundedb in Hr. apply andb_prop in Hr. destruct Hr as [Hr H3]. apply andb_prop in Hr. destruct Hr as [H1 H2].
  destruct tmax as [T|]; [|discriminate H2]. apply Qltb_true in H1. apply Qleb_true in H2.
  rewrite forallb_forall in H3. unfold lists_sortedb in Hs. rewrite forallb_forall in Hs.
  assert (Hk : forall v k, In v (gnodes g) -> (k < K)%nat ->
            Qleb delta (dur v k) && forallb (fun w => forallb (fun d => Qleb 0 d) (delays v w k)) (gadj g v) = true).
  { intros v k Hv Hk. specialize (H3 v Hv). rewrite forallb_forall in H3. apply H3. apply in_seq. lia. }
  apply (nm_total_time g Hnd Hadj dur delays T tmin delta K H1 H2); [| |exact V|exact Hinc].
  - intros v k Hv Hlt. specialize (Hk v k Hv Hlt). apply andb_prop in Hk. apply Qleb_true. apply Hk.
  - intros v w k Hv Hlt Hw. split.
    + specialize (Hs v Hv). rewrite forallb_forall in Hs. assert (Hin : In k (seq 0 K)) by (apply in_seq; lia).
      specialize (Hs k Hin). rewrite forallb_forall in Hs. apply nondecrb_spec. apply Hs. exact Hw.
    + specialize (Hk v k Hv Hlt). apply andb_prop in Hk. destruct Hk as [_ Hk].
      rewrite forallb_forall in Hk. specialize (Hk w Hw). rewrite forallb_forall in Hk.
      apply Forall_forall. intros d Hdin. apply Qleb_true. apply Hk. exact Hdin.
Qed.
