(* C07: SIR_effective_degree_from_graph on the rho path starts at the manifold point Phi_ed(theta = 1, R = 0)
   (phiS0 = 1 - rho, phiR0 = 0): at theta = 1, phiS = 1 - rho, phiI = rho, phiR = 0 and the trinomial mixture collapses to
   S_{s,i} = (1-rho) N_{s+i} C(s+i,i) rho^i (1-rho)^s, which is what the wrapper tabulates (ed_rho_entry). *)
From EoNV Require Import Prelude Graph Vec VecP Aux AuxP IC Wrappers ICP ICEbcm ICEd Pgf C07xPoly C07xHier C07xIC C07xCed C07xCedIC C07xEd Rhs Rhs2D Rhs2DP.
From Coq Require Import Qpower Lqa Setoid Morphisms.

Local Notation pw x k := (qpow x (Z.of_nat k)).

Lemma binomial_sym : forall s i, binomial (s + i) s = binomial (s + i) i.
Proof.
  induction s as [|s IHs]; intros i.
  - cbn [plus]. rewrite binomial_n0, binomial_nn. reflexivity.
  - induction i as [|i IHi].
    + rewrite Nat.add_0_r, binomial_n0, binomial_nn. reflexivity.
    + replace (S s + S i)%nat with (S (s + S i)) by lia. cbn [binomial].
      rewrite (IHs (S i)). replace (s + S i)%nat with (S s + i)%nat by lia. rewrite IHi. lia.
Qed.

Lemma Tr_at_1 x y z j s i : z == 0 ->
  Tr x y z j s i == if Nat.eqb j (s + i) then Qnat (binomial (s + i) i) * pw x s * pw y i else 0.
Proof.
  intros Ez. unfold Tr. destruct (Nat.eqb j (s + i)) eqn:E.
  - apply Nat.eqb_eq in E. subst j. replace (s + i - s)%nat with i by lia. rewrite Nat.sub_diag.
    rewrite binomial_nn, Nat.mul_1_r, binomial_sym, pw_0. ring.
  - apply Nat.eqb_neq in E. destruct (Nat.ltb j (s + i)) eqn:L.
    + apply Nat.ltb_lt in L. destruct (Nat.ltb j s) eqn:L2.
      * apply Nat.ltb_lt in L2. rewrite (binomial_gt j s L2). cbn [Nat.mul]. change (Qnat 0) with 0. ring.
      * apply Nat.ltb_ge in L2. rewrite (binomial_gt (j - s) i) by lia. rewrite Nat.mul_0_r. change (Qnat 0) with 0. ring.
    + apply Nat.ltb_ge in L. replace (j - s - i)%nat with (S (j - s - S i)) by lia. rewrite (pw_zero_S z _ Ez). ring.
Qed.
Lemma csum_pick_w i (w : Q) cs : forall k,
  csum (fun j => if Nat.eqb j i then w else 0) cs k == w * (if Nat.leb k i then nth (i - k) cs 0 else 0).
Proof.
  intros k. rewrite (csum_ext _ (fun j => w * (if Nat.eqb j i then 1 else 0))) by (intros j _; destruct (Nat.eqb (k + j) i); ring).
  rewrite csum_scal, csum_pick. reflexivity.
Qed.

Section EdRho.
Variables (g : graph) (rho_opt : option Q).
Let r := rho_or_default g rho_opt.
Let rq := mkReq None None rho_opt.
Let N := gN g.
Let c := fg_coeffs g r.

Lemma c_length : length c = S (gmaxdeg g).
Proof. unfold c, fg_coeffs. rewrite pscale_length, Pk_coeffs_length. reflexivity. Qed.

Lemma ed_fg_rho tau gam : wf_ugraph g = true -> ~ D c 1 == 0 ->
  exists Ssi0 I0 R0, (forall full sv,
    SIR_effective_degree_from_graph g rq full sv = Ok (SIR_effective_degree Ssi0 I0 R0 full sv)) /\
    veq (flatten Ssi0 ++ [R0]) (Phi_ed c N tau gam (fg_phiS0 r) fg_phiR0 1 0) /\
    msum Ssi0 + I0 + R0 == N.
Proof.
  intros WG Hc. destruct (wf_ugraph_nodes g WG) as [_ NE].
  exists (sqmat g (ed_rho_entry g (1 - r) r)), (r * vsum (Nk_of g)), 0.
  assert (HX : veq (flatten (sqmat g (ed_rho_entry g (1 - r) r)) ++ [0]) (Phi_ed c N tau gam (fg_phiS0 r) fg_phiR0 1 0)); [|split; [|split; [exact HX|]]].
  3:{ destruct (ed_outputs_agree c N tau gam (fg_phiS0 r) fg_phiR0 1 0) as (P1 & _).
      pose proof (drop_last_veq 1 _ _ HX) as D1. rewrite drop_last_app in D1 by reflexivity.
      rewrite <- vsum_flatten, (vsum_veq _ _ D1), P1.
      assert (Pc : peval c 1 == 1 - r) by (unfold c; rewrite <- (fg_psihat_poly g r 1 WG); unfold fg_psihat; apply (psihat1_rho g (1 - r) WG)).
      rewrite Pc, (Nk_sum g). unfold N. ring. }
  2:{ intros full sv. unfold SIR_effective_degree_from_graph, rq. cbn [rq_rho rq_I rq_R isSome andb]. rewrite !andb_false_r.
      destruct (gnodes g) as [|x0 l] eqn:EG; [congruence|]. reflexivity. }
  unfold Phi_ed. apply veq_app; [|constructor; [reflexivity|constructor]].
    rewrite Ssi_eval, c_length. unfold flatten, sqmat, classes, tab2, tab.
    set (K := S (gmaxdeg g)).
    assert (G : forall l, (forall s, In s l -> (s < K)%nat) ->
      veq (concat (map (fun s => map (fun i => ed_rho_entry g (1 - r) r s i) (seq 0 K)) l))
          (flat_map (fun s => map (fun i => peval (ed_sum c N tau gam (fg_phiS0 r) fg_phiR0 s i c 0) 1) (seq 0 K)) l)).
    { induction l as [|s l IH]; intros Hl; cbn [map concat flat_map]; [constructor|].
      apply veq_app; [|apply IH; intros s' Hs'; apply Hl; right; exact Hs'].
      assert (Hs : (s < K)%nat) by (apply Hl; left; reflexivity).
      apply veq_of_nth; [rewrite !map_length; reflexivity|].
      intros i Hi. rewrite map_length, seq_length in Hi.
      rewrite (nth_map_seq (fun i => ed_rho_entry g (1 - r) r s i) K i Hi).
      rewrite (nth_map_seq (fun i => peval (ed_sum c N tau gam (fg_phiS0 r) fg_phiR0 s i c 0) 1) K i Hi).
      rewrite ed_val.
      destruct (xyz_vals c tau gam (fg_phiS0 r) fg_phiR0 1) as (Hx & Hz & Hsum & _).
      set (x := peval (phiS_p c (fg_phiS0 r)) 1) in *. set (y := peval (phiI_p c tau gam (fg_phiS0 r) fg_phiR0) 1) in *.
      set (z := peval (phiR_p tau gam fg_phiR0) 1) in *.
      assert (Ez : z == 0) by (rewrite Hz; unfold fg_phiR0, Qdiv; ring).
      assert (Ex : x == 1 - r) by (rewrite Hx; unfold fg_phiS0; field; exact Hc).
      assert (Ey : y == r) by lra.
      rewrite (csum_ext _ (fun j => if Nat.eqb j (s + i) then Qnat (binomial (s + i) i) * pw x s * pw y i else 0))
        by (intros j _; cbn [plus]; apply Tr_at_1; exact Ez).
      rewrite csum_pick_w. cbn [Nat.leb]. rewrite Nat.sub_0_r.
      unfold ed_rho_entry. fold K.
      destruct (Nat.leb (s + i) (gmaxdeg g)) eqn:E.
      + apply Nat.leb_le in E. unfold c, fg_coeffs. rewrite nth_pscale by (rewrite Pk_coeffs_length; unfold gmaxdeg in E; lia).
        rewrite nth_Pk_coeffs by (unfold gmaxdeg in E; lia).
        rewrite (Nk_is_N_Pk g (s + i) WG E). rewrite (pw_comp x (1 - r) s Ex), (pw_comp y r i Ey). unfold N. ring.
      + apply Nat.leb_gt in E. rewrite nth_overflow by (rewrite c_length; lia). ring. }
    apply G. intros s Hs. apply in_seq in Hs. lia.
Qed.
End EdRho.
