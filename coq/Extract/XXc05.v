(* Extraction of component 'xc05': the decidable checkers of Model/InitChk.v ("the output starts
   from the request"), applied by harness/xc05.py to the IMPLEMENTATION's outputs. *)
From EoNV Require Import Prelude Samp Graph InitChk.
Require Extraction.
Require Import ExtrOcamlBasic.
Extraction "../ocaml/gen/xc05_model.ml" ic_sirb ic_genb ic_domb Qred.
