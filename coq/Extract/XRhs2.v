(* Extraction of component 'rhs2': the hand-written 2-D and node-level ODE right-hand
   sides (Model/Rhs2D.v) behind their two uniform entry points, for the point-evaluation
   tie of C06/C07/C08 (harness/rhs2_lib.py).  ExtrOcamlBasic only; nat/positive/N/Z/Q
   stay Coq datatypes. *)
From EoNV Require Import Prelude Vec Graph Rhs2D.
Require Extraction.
Require Import ExtrOcamlBasic.

(* the shared glue (ocaml/glue*.ml) mentions the err constructors *)
Definition glue_types2 : result N := Err EoNError.

Extraction "../ocaml/gen/rhs2_model.ml" glue_types2 rhs2_node rhs2_class Qred.
