(* Extraction of component 'rhs2': the hand-written 2-D and node-level ODE right-hand
   sides (Model/Rhs2D.v) behind their two uniform entry points, for the point-evaluation
   tie of C06/C07/C08 (harness/rhs2_lib.py).  ExtrOcamlBasic only; nat/positive/N/Z/Q
   stay Coq datatypes. *)
From EoNV Require Import Prelude Vec Graph Rhs2D Rhs2.
Require Extraction.
Require Import ExtrOcamlBasic.

(* the shared glue (ocaml/glue*.ml) mentions the err constructors *)
Definition glue_types2 : result N := Err EoNError.

(* the same two entry points over the definitions GENERATED from EoN/analytic.py (Gen/Rhs2.v, translate/rhs2d2v.py);
   the parameter lists are fixed by the translator's signature table (a changed signature is refused there) *)
Definition rhs2g_node (i : nat) (G : graph) (nodelist : list node) (idx : node -> nat)
           (tr : node -> node -> Q) (rc : node -> Q) (V : vec) (t : Q) : vec :=
  match i with
  | 0%nat => g_dSIS_individual_based V t G nodelist idx tr rc
  | 1%nat => g_dSIR_individual_based V t G nodelist idx tr rc
  | 2%nat => g_dSIS_pair_based V t G nodelist idx tr rc
  | 3%nat => g_dSIR_pair_based V t G nodelist idx tr rc
  | _ => []
  end.
Definition rhs2g_class (i : nat) (X Nk NkNl Ks : vec) (N tau gamma t : Q) (r c : nat) : vec :=
  match i with
  | 4%nat => g_dSIS_heterogeneous_pairwise X t Nk NkNl tau gamma Ks
  | 5%nat => g_dSIR_heterogeneous_pairwise X t tau gamma Nk Ks
  | 6%nat => g_dSIS_effective_degree X t (r, c) tau gamma
  | 7%nat => g_dSIR_effective_degree X t N (r, c) tau gamma
  | _ => []
  end.

Extraction "../ocaml/gen/rhs2_model.ml" glue_types2 rhs2_node rhs2_class rhs2g_node rhs2g_class Qred.
