(* Extraction of component 'gil': Gillespie_SIR / Gillespie_SIS. *)
From EoNV Require Import Prelude Samp Graph ListDict Gillespie.
Require Extraction.
Require Import ExtrOcamlBasic.
Extraction "../ocaml/gen/gil_model.ml" gillespie run_gillespie exec Qred mkGraph.
