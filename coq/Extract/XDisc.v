(* Extraction of component 'disc': the discrete-time simulators (Model/Discrete.v). *)
From EoNV Require Import Prelude Samp Graph Discrete.
Require Extraction.
Require Import ExtrOcamlBasic.
Extraction "../ocaml/gen/disc_model.ml"
  discrete_SIR basic_discrete_SIR_R basic_discrete_SIR basic_discrete_SIS_R basic_discrete_SIS
  percolate_network_R percolate_network percolation_based_discrete_SIR_R percolation_based_discrete_SIR
  det_rules simple_rules exec Qred mkGraph.
