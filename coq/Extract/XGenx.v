(* Extraction of component 'genx': the decidable checkers of Model/GenxChk.v (C04 / C09 / C10 for
   the generic simulator Gillespie_simple_contagion) and consistent_b of Model/Investigation.v,
   applied by the harness (harness/genx.py) to the IMPLEMENTATION's own outputs. *)
From EoNV Require Import Prelude Samp Graph ListDict Gillespie Simple Investigation GenxChk.
Require Extraction.
Require Import ExtrOcamlBasic.
Extraction "../ocaml/gen/genx_model.ml" wf_gtrajb moves_of gen_tx_okb gen_rows_okb legal_logb consistent_b
  mkInv mkEv mkTr Qred mkGraph mkFull mkOut.
