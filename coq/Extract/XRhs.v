(* Extraction of component 'rhs': the GENERATED right-hand sides (Gen/Rhs.v)
   behind their uniform entry points, and polynomial evaluation (Model/Aux.v
   peval) used to feed function parameters (psihat, psihatPrime, ...) as
   coefficient lists.  ExtrOcamlBasic only; nat/positive/Z/Q stay Coq datatypes. *)
From EoNV Require Import Prelude Vec Aux Rhs.
Require Extraction.
Require Import ExtrOcamlBasic.

(* the shared glue (ocaml/glue*.ml) mentions N and the err constructors *)
Definition glue_types : result N := Err EoNError.

Extraction "../ocaml/gen/rhs_model.ml" glue_types rhs_call loop_call peval Qred.
