(* Extraction of component 'esir': event-driven SIR (fast_nonMarkov_SIR, fast_SIR)
   and the percolation builders. *)
From EoNV Require Import Prelude Samp Graph EventSIR EventSIRConst.
Require Extraction.
Require Import ExtrOcamlBasic.
Extraction "../ocaml/gen/esir_model.ml" esir_det esir_fuel fifo fast_nonmarkov fast_sir_edge uses_edge_path
  det_provider markov_provider perc_build perc_calls perc_markov get_infected get_infected_det out_component
  fast_sir_const bexec exec Qred mkGraph.
