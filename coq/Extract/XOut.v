(* Extraction of component 'out' (Model/Outputs.v, Model/Outputs2.v): initial vector, time grid and assembled
   outputs of the 35 ODE entry points of analytic.py that have no *_from_graph model, for the correspondence
   check of C06 (harness/c06out.py).  ExtrOcamlBasic only; nat/positive/Z/Q stay Coq datatypes. *)
From EoNV Require Import Prelude Graph Aux Vec IC Wrappers Pgf Outputs Outputs2.
Require Extraction.
Require Import ExtrOcamlBasic.

Extraction "../ocaml/gen/out_model.ml"
  fd_hist so_rows run_entry_ode run_entry_disc run_entry_ar fwd_entry ar_view peval pderiv Qred.
