(* Extraction of component 'ic' (Model/IC.v, Model/Wrappers.v): row 0 of every
   modelled *_from_graph wrapper for the correspondence check of C06, and the IC
   builders themselves.  ExtrOcamlBasic only. *)
From EoNV Require Import Prelude Graph Aux Vec IC Wrappers.
Require Extraction.
Require Import ExtrOcamlBasic.

Extraction "../ocaml/gen/ic_model.ml"
  fd_hist so_rows row0_entry get_Nk_and_IC get_NkNl_and_IC count_edge_types initialize_node_status gedges wf_ugraph wf_req Qred.
