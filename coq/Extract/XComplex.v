(* Extraction of component 'complex': Gillespie_complex_contagion. *)
From EoNV Require Import Prelude Samp Graph ListDict Gillespie Complex.
Require Extraction.
Require Import ExtrOcamlBasic.
Extraction "../ocaml/gen/complex_model.ml" complex complex_fam run_complex fam_rate fam_choice fam_infl exec Qred mkGraph mkCM mkSRow.
