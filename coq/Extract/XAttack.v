(* Extraction of component 'attack': the hand-written wrappers of Model/Attack.v around the
   GENERATED loops of Gen/Rhs.v (Attack_rate_discrete, Attack_rate_cts_time, EBCM_discrete).
   Used by C08 only.  ExtrOcamlBasic only; nat/positive/Z/Q stay Coq datatypes. *)
From EoNV Require Import Prelude Vec Aux Rhs Attack.
Require Extraction.
Require Import ExtrOcamlBasic.

(* the shared glue (ocaml/glue*.ml) mentions N and the err constructors *)
Definition glue_types : result N := Err EoNError.

Extraction "../ocaml/gen/attack_model.ml" glue_types peval Qred
  attack_rate_discrete attack_rate_cts_time ebcm_discrete_rows.
