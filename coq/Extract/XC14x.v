(* Extraction of component 'c14x': the relabelling action on node-level ODE states, the decidable
   hypothesis relabel_okb, the decidable commutation statement equivariant_at (Proofs/C14xDef.v) and the
   initial vectors, for harness/c14x.py.  ExtrOcamlBasic only. *)
From EoNV Require Import Prelude Vec Graph Rhs2D C14xDef.
Require Extraction.
Require Import ExtrOcamlBasic.

Definition glue_types14 : result N := Err EoNError.

(* ((hypotheses hold, commutation holds), (re-ordered state, (rhs of problem 1 at V, rhs of problem 2 at the re-ordered state))) *)
Definition c14x_eval (sys : nat) (G : graph) (nodelist : list node) (idx : node -> nat) (tr : node -> node -> Q) (rc : node -> Q)
           (G' : graph) (nl2 : list node) (phi : node -> node) (idx' : node -> nat) (tr' : node -> node -> Q) (rc' : node -> Q)
           (V : vec) (t : Q) : (bool * bool) * (vec * (vec * vec)) :=
  let PV := perm_state idx nl2 sys V in
  ((relabel_okb G nodelist idx tr rc G' nl2 phi idx' tr' rc',
    equivariant_at sys G nodelist idx tr rc G' nl2 phi idx' tr' rc' V t),
   (PV, (rhs2_node sys G nodelist idx tr rc V t, rhs2_node sys G' (map phi nl2) idx' tr' rc' PV t))).

(* (initial vector of problem 1, its re-ordering, initial vector of problem 2 built from the re-ordered X0, Y0) *)
Definition c14x_ic (sys : nat) (G : graph) (nodelist : list node) (idx : node -> nat)
           (G' : graph) (nl2 : list node) (phi : node -> node) (X0 Y0 : vec) : vec * (vec * vec) :=
  let V0 := node_V0 sys G nodelist X0 Y0 in
  (V0, (perm_state idx nl2 sys V0, node_V0 sys G' (map phi nl2) (blk1 idx nl2 0 X0) (blk1 idx nl2 0 Y0))).

(* the *_pure_IC entry points: initial vector from the initial sets, its re-ordering, initial vector of problem 2 from the renamed sets *)
Definition c14x_pure_ic (sys : nat) (G : graph) (nodelist : list node) (idx : node -> nat)
           (G' : graph) (nl2 : list node) (phi : node -> node) (I0 R0 : list node) : vec * (vec * vec) :=
  let V0 := node_V0 sys G nodelist (x0_sets nodelist I0 R0) (y0_set nodelist I0) in
  (V0, (perm_state idx nl2 sys V0,
        node_V0 sys G' (map phi nl2) (x0_sets (map phi nl2) (map phi I0) (map phi R0)) (y0_set (map phi nl2) (map phi I0)))).

Extraction "../ocaml/gen/c14x_model.ml" glue_types14 c14x_eval c14x_ic c14x_pure_ic iso_okb perm_state veqb Qred.
