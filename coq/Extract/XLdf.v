(* Extraction of component 'ldf': _ListDict_ under binary64 rounding
   (Model/ListDictF.v at rnd := rnd53), for the bit-exact tie of harness/c16f.py.
   ExtrOcamlBasic only; nat, positive, N, Z, Q stay Coq datatypes. *)
From EoNV Require Import Prelude Samp ListDict ListDictF.
Require Extraction.
Require Import ExtrOcamlBasic.

Definition ldfN_empty := @ld_empty N.
Definition ldfN_step := ldf_step N N.eqb rnd53.
Definition ldfN_wread := wread N.
Definition ldfN_threshold := ldf_threshold N rnd53.
Definition ldfN_resum := ldf_resum N rnd53.
Definition ldfN_guard := ldf_guard N rnd53.
Definition ldfN_wsum := wsum N.
Definition f_add := fadd rnd53.
Definition f_sub := fsub rnd53.
Definition f_div := fdiv rnd53.

Extraction "../ocaml/gen/ldf_model.ml"
  ldfN_empty ldfN_step ldfN_wread ldfN_threshold ldfN_resum ldfN_guard ldfN_wsum
  f_add f_sub f_div rnd53 Qred.
