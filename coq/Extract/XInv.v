(* Extraction of component 'inv' (Model/Investigation.v) for the C10
   correspondence check and for the checker applied to implementation outputs.
   ExtrOcamlBasic only. *)
From EoNV Require Import Prelude Graph Investigation.
Require Extraction.
Require Import ExtrOcamlBasic.

Extraction "../ocaml/gen/inv_model.ml"
  possible_statuses summary iv_t iv_S iv_I iv_R column node_status get_statuses transform_SIR transform_SIS
  investigation_SIR investigation_SIS consistent consistent_b log_arrays log_inv
  Qred so_rows so_full fd_hist fd_trans.
