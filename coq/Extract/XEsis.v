(* Extraction of component 'esis': fast_SIS / fast_nonMarkov_SIS and the C13 reference. *)
From EoNV Require Import Prelude Samp Graph EventSIS.
Require Extraction.
Require Import ExtrOcamlBasic.
Extraction "../ocaml/gen/esis_model.ml" fast_nonMarkov_SIS ref_sis fast_SIS run_fast_SIS exec Qred mkGraph.
