(* Extraction of component 'master' (C08, tree exactness): the master equation, the marginals, the unclosed moment
   system, the minors of a cut and their expansion (Model/Master.v), together with the pair-based right-hand side
   GENERATED from EoN/analytic.py (Gen/Rhs2.v) -- the definitions the theorems of Props/C08t.v are about -- for
   evaluation by harness/c08t.py against master equations built independently in Python and against the Python
   function _dSIR_pair_based_ itself.  ExtrOcamlBasic only; nat/positive/N/Z/Q stay Coq datatypes. *)
From EoNV Require Import Prelude Vec Graph Rhs2D Rhs2 Master C08tA C08tF.
Require Extraction.
Require Import ExtrOcamlBasic.

Definition glue_types_master : result N := Err EoNError.

Definition inU (l : list nat) : nat -> bool := fun k => existsb (Nat.eqb k) l.
Definition state_of_code (n c : nat) : state := nth c (all_states n) [].

(* [master_vec p; marginals p; open_rhs p; marginals (master_rhs p); generated pair-based rhs at marginals p] *)
Definition master_eval (G : graph) (nodelist : list node) (idx : node -> nat) (tr : node -> node -> Q) (rc : node -> Q)
           (p : vec) (t : Q) : list vec :=
  let pf := pfun p in
  let V := marginals G nodelist pf in
  map (map Qred)
  [ master_vec G nodelist idx tr rc p;
    V;
    open_rhs G nodelist idx tr rc pf;
    marginals G nodelist (master_rhs G nodelist idx tr rc pf);
    g_dSIR_pair_based V t G nodelist idx tr rc;
    dSIR_pair_based G nodelist idx tr rc V t ].

(* per pair of slice states (given by their ranks): [minor; dminor along the master equation; dminor_expand];
   then, for the path i - j - k: [closure residual m3 * mX - m2 * m2; residual as sum of minors; sepb] *)
Definition cut_eval (G : graph) (nodelist : list node) (idx : node -> nat) (tr : node -> node -> Q) (rc : node -> Q)
           (p : vec) (j : nat) (Ul : list nat) (pairs : list (nat * nat)) (a : N) (i : nat) (b : N) (k : nat) : list vec :=
  let pf := pfun p in let U := inU Ul in let n := nN nodelist in
  map (map Qred)
  [ flat_map (fun ab => let s1 := state_of_code n (fst ab) in let s2 := state_of_code n (snd ab) in
       [ minor nodelist U pf s1 s2;
         dminor nodelist U pf (master_rhs G nodelist idx tr rc pf) s1 s2;
         dminor_expand G nodelist idx tr rc U pf s1 s2 ]) pairs;
    [ m3 nodelist pf a i stS j b k * mX nodelist pf j - m2 nodelist pf a i stS j * m2 nodelist pf stS j b k;
      residual nodelist j U pf a i b k;
      if sepb G nodelist j U then 1 else 0 ] ].

(* the acceptance check of C08t_tree_pure_ic_partial and the number of branch cuts it examined *)
Definition tree_check (G : graph) (nodelist : list node) (idx : node -> nat) : bool * nat :=
  (tree_okb G nodelist idx, length (branch_cuts G nodelist)).

Extraction "../ocaml/gen/master_model.ml" glue_types_master master_eval cut_eval tree_check Qred.
