(* Extraction of component 'discx': the decidable checkers of Model/DiscreteChk.v (C04 / C05 /
   C09 for the discrete-time simulators) and consistent_b of Model/Investigation.v (C10),
   applied by harness/discx.py to the IMPLEMENTATION's own outputs. *)
From EoNV Require Import Prelude Samp Graph Discrete DiscreteP Investigation DiscreteChk.
Require Extraction.
Require Import ExtrOcamlBasic.
Extraction "../ocaml/gen/discx_model.ml" dwf_rowsb dinit_okb dtx_okb wf_inputb consistent_b mkInv Qred mkGraph so_rows fd_hist rbind.
