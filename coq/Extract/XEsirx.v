(* Extraction of component 'esirx': the decidable checkers of Model/EventSIRChk.v (C04 /
   C09 for the event-driven SIR simulator), applied by the harness to the IMPLEMENTATION's
   outputs, and the model's event log (Model/EventSIRLog.v). *)
From EoNV Require Import Prelude Samp Graph EventSIR Investigation EventSIRLog EventSIRChk.
Require Extraction.
Require Import ExtrOcamlBasic.
Extraction "../ocaml/gen/esirx_model.ml" wf_trajb tx_validb esir_okb2 esir_log esir_det esir_fuel fifo enabledb
  esir_init consistent_b log_inv mkInv sir_ps Qred mkGraph.
