(* Extraction of component 'simple': Gillespie_simple_contagion. *)
From EoNV Require Import Prelude Samp Graph ListDict Gillespie Simple.
Require Extraction.
Require Import ExtrOcamlBasic.
Extraction "../ocaml/gen/simple_model.ml" simple run_simple exec Qred mkGraph mkTr.
