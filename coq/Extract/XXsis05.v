(* Extraction of component 'xsis05': the decidable checkers of Model/InitChkSIS.v ("the output
   of fast_SIS / fast_nonMarkov_SIS starts from the request") and the rule-call list of
   Proofs/C18sCalls.v, applied by harness/xsis05.py to the IMPLEMENTATION's outputs. *)
From EoNV Require Import Prelude Samp Graph EventSIS InitChk InitChkSIS C18sCalls.
Require Extraction.
Require Import ExtrOcamlBasic.
Extraction "../ocaml/gen/xsis05_model.ml" ic_sisb ic_sis_rhob ic_sis_domb requested_count initial_of_trans rule_calls Qred.
