(* Extraction of component 'perc' (Model/Percolation.v) for the C17
   correspondence check.  ExtrOcamlBasic only. *)
From EoNV Require Import Prelude Samp Graph Percolation.
Require Extraction.
Require Import ExtrOcamlBasic.

(* the table-driven rule of nonMarkov_directed_percolate_network: xi[u] and
   zeta[v] are the node itself (when present), transmission a table *)
Definition nm_perc_tab (xi zeta : node -> option node) (tr : node -> node -> bool) (g : graph) :=
  nm_perc node node xi zeta tr g.
Definition exec_pgraph := @exec pgraph.
Definition exec_qq := @exec (Q * Q).
Definition exec_nodes := @exec (list node).

Extraction "../ocaml/gen/perc_model.ml"
  out_component in_component descendants ancestors sccs ccs largest estimate_answers estimate_from_dir_perc
  percolate_network estimate_SIR_prob_size largest_cc_size edges
  nm_perc_timing nm_perc_timing_calls nm_perc_tab to_graph directed_percolate_network
  exec_pgraph exec_qq exec_nodes get_infected_nodes infected_nodes_in Qred so_rows so_full fd_hist fd_trans.
