(* Extraction of component 'c07x': the hand-written models of the preferential-mixing EBCM routines
   (Model/Pgf.v: dEBCM_pref_mix, pmd_loop) and the polynomial changes of variables of the SIR hierarchy
   (Phi_sc, Phi_cp, Psi_cp, Phi_ced, Phi_pm and their Jacobian actions), so that harness/c07x.py can
   point-evaluate them against the Python functions and against its own closed forms.
   ExtrOcamlBasic only; nat/positive/Z/Q stay Coq datatypes. *)
From EoNV Require Import Prelude Vec Aux Pgf.
Require Extraction.
Require Import ExtrOcamlBasic.

Definition glue_types : result N := Err EoNError.

Extraction "../ocaml/gen/c07x_model.ml" glue_types dEBCM_pref_mix pmd_init pmd_step pmd_loop pmd_view uncorrelated
  Phi_sc DPhi_sc Phi_cp DPhi_cp Psi_cp DPsi_cp Phi_ced DPhi_ced Phi_ed DPhi_ed Phi_pm DPhi_pm peval pderiv Qred.
