(* Extraction of component 'base' (ListDict, Aux) to OCaml for the
   correspondence check.  ExtrOcamlBasic only: bool, option, unit, list, prod,
   sumbool, sumor become OCaml's; nat, positive, N, Z, Q stay Coq datatypes. *)
From EoNV Require Import Prelude Samp ListDict Aux.
Require Extraction.
Require Import ExtrOcamlBasic.

(* instances at K = N *)
Definition ldN_empty := @ld_empty N.
Definition ldN_step := ld_step N N.eqb.
Definition ldN_total := ld_total_weight N.
Definition ldN_round := ld_choose_round N.
Definition ldN_wread := wread N.

Extraction "../ocaml/gen/base_model.ml"
  ldN_empty ldN_step ldN_total ldN_round ldN_wread
  subsample subsample2 subsample3 get_time_shift Pk psi psiP psiDP estimate_R0 Pnk maxdeg
  Qred.
