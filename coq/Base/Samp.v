(* The sampler monad of DESIGN 2.3: one program, two semantics.
   [exec] runs a program on scripted draws and logs every call made to the
   random source (this is what the correspondence check compares with the
   implementation's calls to `random`); [law] is the finite distribution
   semantics of Expo-free programs. *)
From EoNV Require Export Prelude.

Inductive samp (A : Type) : Type :=
| Ret    : A -> samp A
| Fail   : err -> samp A
| Expo   : Q -> (Q -> samp A) -> samp A                  (* random.expovariate(rate) *)
| Flip   : Q -> samp A -> samp A -> samp A               (* random.random() < p *)
| Casc   : list Q -> (nat -> samp A) -> samp A           (* r = random(); first i with r - p_0 - ... - p_i < 0, else last *)
| Choose : bool -> list (key * Q) -> (key -> samp A) -> samp A  (* _ListDict_.choose_random; bool = weighted *)
| Unif   : list key -> (key -> samp A) -> samp A         (* random.choice(seq) *)
| Sample : list key -> nat -> (list key -> samp A) -> samp A.   (* random.sample(pop, k) *)
Arguments Ret {A}. Arguments Fail {A}. Arguments Expo {A}. Arguments Flip {A}.
Arguments Casc {A}. Arguments Choose {A}. Arguments Unif {A}. Arguments Sample {A}.

Fixpoint bind {A B} (m : samp A) (f : A -> samp B) : samp B :=
  match m with
  | Ret a => f a
  | Fail e => Fail e
  | Expo r k => Expo r (fun d => bind (k d) f)
  | Flip p kt kf => Flip p (bind kt f) (bind kf f)
  | Casc ps k => Casc ps (fun i => bind (k i) f)
  | Choose w c k => Choose w c (fun x => bind (k x) f)
  | Unif c k => Unif c (fun x => bind (k x) f)
  | Sample pop n k => Sample pop n (fun l => bind (k l) f)
  end.

(* ------------------------------------------------------------------ *)
(* scripted execution                                                   *)

Inductive call :=
| CExpo (rate : Q)
| CFlip (p : Q)
| CCasc (ps : list Q)
| CPick (c : list key)
| CAcc (w : Q)
| CSample (pop : list key) (n : nat).

Definition rank (d : Q) : nat := Z.to_nat (Qnum d / Z.pos (Qden d)).

(* first index i such that d - p_0 - ... - p_i < 0; the Python for-loop leaves
   the loop variable at the last element when it never breaks *)
Fixpoint casc_index (ps : list Q) (d : Q) (i : nat) : nat :=
  match ps with
  | [] => Nat.pred i
  | p :: ps' => if Qltb (d - p) 0 then i else casc_index ps' (d - p) (S i)
  end.

(* choose_random: uniform pick then accept test; the scripted source answers
   every accept test with 2^-40, i.e. "accept unless the weight is 0"
   (DESIGN 2.3); the rejection loop's own law is the subject of C16. *)
Fixpoint choose_exec (weighted : bool) (cands : list (key * Q)) (ds : list Q) (tr : list call)
  : result key * list call * list Q :=
  match cands with
  | [] => (Err IndexErr, CPick [] :: tr, ds)
  | _ =>
    match ds with
    | [] => (Err OutOfDraws, tr, [])
    | r :: ds1 =>
      match nth_error cands (rank r) with
      | None => (Err OutOfDraws, tr, ds1)
      | Some (c, w) =>
        let tr1 := CPick (map fst cands) :: tr in
        if weighted then
          match ds1 with
          | [] => (Err OutOfDraws, tr1, [])
          | _ :: ds2 =>
            if Qltb 0 w then (Ok c, CAcc w :: tr1, ds2)
            else choose_exec weighted cands ds2 (CAcc w :: tr1)
          end
        else (Ok c, tr1, ds1)
      end
    end
  end.

(* the scripted random.sample answers with the first n elements of the
   population rotated by the draw: enough to reach every starting element *)
Definition rotate {A} (n : nat) (l : list A) : list A := skipn n l ++ firstn n l.

(* a scripted draw is a possible value of random(): 0 <= d < 1; of expovariate: 0 <= d.
   A script with anything else is invalid and reported as OutOfDraws. *)
Definition unit_draw (d : Q) : bool := negb (Qltb d 0) && Qltb d 1.

Fixpoint exec {A} (m : samp A) (ds : list Q) (tr : list call) : result A * list call :=
  match m with
  | Ret a => (Ok a, rev tr)
  | Fail e => (Err e, rev tr)
  | Expo r k =>
    if Qeqb r 0 then (Err ZeroDivision, rev (CExpo r :: tr))
    else match ds with
         | [] => (Err OutOfDraws, rev tr)
         | d :: ds' =>
           if Qltb d 0 then (Err OutOfDraws, rev tr)       (* not a value of expovariate *)
           else exec (k d) ds' (CExpo r :: tr)
         end
  | Flip p kt kf =>
    match ds with
    | [] => (Err OutOfDraws, rev tr)
    | d :: ds' =>
      if unit_draw d then exec (if Qltb d p then kt else kf) ds' (CFlip p :: tr)
      else (Err OutOfDraws, rev tr)                       (* not a value of random() *)
    end
  | Casc ps k =>
    match ds with
    | [] => (Err OutOfDraws, rev tr)
    | d :: ds' =>
      if unit_draw d then exec (k (casc_index ps d 0)) ds' (CCasc ps :: tr)
      else (Err OutOfDraws, rev tr)
    end
  | Choose w c k =>
    match choose_exec w c ds tr with
    | (Ok x, tr', ds') => exec (k x) ds' tr'
    | (Err e, tr', _) => (Err e, rev tr')
    end
  | Unif c k =>
    match c with
    | [] => (Err IndexErr, rev (CPick [] :: tr))
    | _ =>
      match ds with
      | [] => (Err OutOfDraws, rev tr)
      | d :: ds' =>
        match nth_error c (rank d) with
        | None => (Err OutOfDraws, rev tr)
        | Some x => exec (k x) ds' (CPick c :: tr)
        end
      end
    end
  | Sample pop n k =>
    if Nat.ltb (length pop) n then (Err ValueErr, rev (CSample pop n :: tr))
    else match ds with
         | [] => (Err OutOfDraws, rev tr)
         | d :: ds' => exec (k (firstn n (rotate (rank d) pop))) ds' (CSample pop n :: tr)
         end
  end.

(* ------------------------------------------------------------------ *)
(* distribution semantics of Expo-free programs                          *)

Definition dist (A : Type) := list (A * Q).
Definition scale {A} (q : Q) (d : dist A) : dist A := map (fun aw => (fst aw, q * snd aw)) d.
Definition mass {A} (d : dist A) : Q := sumQ (map snd d).
Definition clamp01 (p : Q) : Q := if Qltb p 0 then 0 else if Qltb 1 p then 1 else p.

(* probability of the set of outcomes satisfying f *)
Definition prob {A} (f : A -> bool) (d : dist A) : Q :=
  sumQ (map (fun aw => if f (fst aw) then snd aw else 0) d).

Definition wsum (c : list (key * Q)) : Q := sumQ (map snd c).

(* [law]: Flip p has mass p / 1-p; Casc ps mass p_i; Unif 1/n; Choose w_i/W
   (weighted; the idealisation of the rejection loop justified by
   Props/C16.v [rejection_law]) or 1/n (unweighted).  Expo and Sample are not
   discrete choices of a Gillespie jump and carry no mass here. *)
Fixpoint law {A} (m : samp A) : dist A :=
  match m with
  | Ret a => [(a, 1)]
  | Fail _ => []
  | Expo _ _ => []
  | Flip p kt kf => scale (clamp01 p) (law kt) ++ scale (1 - clamp01 p) (law kf)
  | Casc ps k =>
    concat (map (fun ip => scale (snd ip) (law (k (fst ip)))) (combine (seq 0 (length ps)) ps))
  | Choose w c k =>
    concat (map (fun cw => scale (if w then snd cw / wsum c else 1 / Qnat (length c))
                                 (law (k (fst cw)))) c)
  | Unif c k => concat (map (fun x => scale (1 / Qnat (length c)) (law (k x))) c)
  | Sample _ _ _ => []
  end.
