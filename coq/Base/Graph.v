(* Contact networks as the simulators see them (DESIGN 2.2): nodes are N (the
   harness maps arbitrary hashable Python labels to N by position in
   list(G.nodes())), adjacency in networkx iteration order, optional edge and
   node weights.  Statuses are small numbers: 0 = S, 1 = I, 2 = R for the
   SIR/SIS simulators; the generic simulators use their own tables. *)
From EoNV Require Export Prelude.

Definition node := N.

Record graph := mkGraph {
  gnodes : list node;              (* list(G.nodes()) *)
  gadj : node -> list node;        (* list(G.neighbors(u)) = successors when directed *)
  gpred : node -> list node;       (* list(G.predecessors(u)); = gadj when undirected *)
  gdirected : bool;
  ew : node -> node -> Q;          (* G.adj[u][v][label]; 1 when the label is None *)
  nw : node -> Q;                  (* G.nodes[u][label]; 1 when the label is None *)
  ewt : bool;                      (* an edge-weight label was given *)
  nwt : bool                       (* a node-weight label was given *)
}.

Definition mem (x : node) (l : list node) : bool := existsb (N.eqb x) l.

Fixpoint nodupb (l : list node) : bool :=
  match l with [] => true | x :: t => negb (mem x t) && nodupb t end.

Definition subsetb (a b : list node) : bool := forallb (fun x => mem x b) a.

(* simple graph: nodes distinct; adjacency lists duplicate-free, inside gnodes,
   without self-loops; symmetric when undirected; gpred the converse of gadj *)
Definition wf_graphb (g : graph) : bool :=
  nodupb (gnodes g) &&
  forallb (fun u => nodupb (gadj g u) && subsetb (gadj g u) (gnodes g) && negb (mem u (gadj g u)) &&
                    forallb (fun v => mem u (gpred g v)) (gadj g u) &&
                    nodupb (gpred g u) && subsetb (gpred g u) (gnodes g) &&
                    forallb (fun v => mem u (gadj g v)) (gpred g u)) (gnodes g) &&
  (gdirected g || forallb (fun u => forallb (fun v => mem u (gadj g v) && Qeqb (ew g u v) (ew g v u)) (gadj g u)) (gnodes g)).

Definition order (g : graph) : Z := Z.of_nat (length (gnodes g)).

(* statuses of the SIR / SIS simulators *)
Definition stS : N := 0%N.
Definition stI : N := 1%N.
Definition stR : N := 2%N.

Definition fupdN {V} (f : node -> V) (k : node) (v : V) : node -> V :=
  fun x => if N.eqb x k then v else f x.

(* ---------------- what a simulator returns ---------------- *)
(* plain mode: rows (time, [count of status 0; count of status 1; ...]) *)
Definition row := (Q * list Z)%type.
(* full data: per-node history (times, statuses), and the transmission list
   (time, source or None, target) *)
Definition history := list (Q * N).
Record fulldata := mkFull {
  fd_hist : list (node * history);
  fd_trans : list (Q * option node * node)
}.
Record simout := mkOut {
  so_rows : list row;
  so_full : option fulldata
}.

(* keys handed to the random source *)
Definition knode (u : node) : key := [u].
Definition kpair (u v : node) : key := [u; v].

(* canonical order on keys (what the scripted random.choice sorts by) *)
Fixpoint kltb (a b : key) : bool :=
  match a, b with
  | [], [] => false
  | [], _ => true
  | _, [] => false
  | x :: a', y :: b' => if N.ltb x y then true else if N.ltb y x then false else kltb a' b'
  end.

Fixpoint kinsert {V} (kv : key * V) (l : list (key * V)) : list (key * V) :=
  match l with
  | [] => [kv]
  | h :: t => if kltb (fst kv) (fst h) then kv :: l else h :: kinsert kv t
  end.
Definition ksort {V} (l : list (key * V)) : list (key * V) := fold_right kinsert [] l.
