(* Common definitions: results with Python failure modes, extended times,
   small helpers over Q.  No proofs of properties live here. *)
From Coq Require Export QArith List ZArith Bool Lia NArith.
Export ListNotations.
Open Scope Q_scope.

(* Python failure modes are values (DESIGN 2.2). *)
Inductive err :=
| EoNError            (* raise EoN.EoNError *)
| ZeroDivision        (* ZeroDivisionError, e.g. random.expovariate(0) *)
| IndexErr            (* random.choice([]) , list index *)
| KeyErr              (* dict.pop / dict[...] on an absent key *)
| TypeErr
| NameErr
| ValueErr            (* random.sample with k > n *)
| PyException         (* bare Exception raised by the code *)
| OutOfDraws          (* the scripted draw list is exhausted: not a Python error *)
| OutOfFuel.          (* model fuel exhausted: excluded by the theorems *)

Inductive result (A : Type) :=
| Ok (a : A)
| Err (e : err).
Arguments Ok {A}. Arguments Err {A}.

Definition rbind {A B} (r : result A) (f : A -> result B) : result B :=
  match r with Ok a => f a | Err e => Err e end.

(* extended time: None = float('Inf') *)
Definition xtime := option Q.
Definition xlt (a : Q) (b : xtime) : bool :=
  match b with None => true | Some m => if Qlt_le_dec a m then true else false end.

Definition Qltb (a b : Q) : bool := if Qlt_le_dec a b then true else false.
Definition Qleb (a b : Q) : bool := if Qlt_le_dec b a then false else true.
Definition Qeqb (a b : Q) : bool := Qeq_bool a b.

Definition sumQ (l : list Q) : Q := fold_right Qplus 0 l.
Definition sumZ (l : list Z) : Z := fold_right Z.add 0%Z l.

Definition Qnat (n : nat) : Q := inject_Z (Z.of_nat n).

(* keys handed to the random source: a node is [u], an ordered pair is [u;v] *)
Definition key := list N.
Fixpoint keqb (a b : key) : bool :=
  match a, b with
  | [], [] => true
  | x :: a', y :: b' => N.eqb x y && keqb a' b'
  | _, _ => false
  end.
