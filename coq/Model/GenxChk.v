(* Gillespie_simple_contagion: the event log of a run and decidable checkers over OUTPUTS,
   in the vocabulary of Props/C03x.v, C04gen.v, C09gen.v, C10gen.v.  Executable
   definitions only; they are extracted (component 'genx') and applied by the harness to the
   IMPLEMENTATION's own arrays / node histories / transmissions.  Proofs/SimpleExecChk.v:
   what acceptance means (soundness) and that every run of the model is accepted. *)
From EoNV Require Import Prelude Samp Graph ListDict Gillespie Simple.
From EoNV Require Investigation.

(* one event of the specification: at time t node v goes from status old to status new,
   spontaneously (src = None) or induced by its neighbour src *)
Record gev := mkEv { ge_t : Q; ge_node : node; ge_old : N; ge_new : N; ge_src : option node }.

Definition ev3 (e : gev) : Q * node * N := (ge_t e, ge_node e, ge_new e).
Definition ev_tx (e : gev) : list (Q * option node * node) :=
  match ge_src e with Some u => [(ge_t e, Some u, ge_node e)] | None => [] end.

(* one count per return status *)
Definition census (g : graph) (rstat : list N) (st : node -> N) : list Z := map (count_status g st) rstat.

(* the running counts of a log *)
Fixpoint ev_rows (g : graph) (rstat : list N) (st : node -> N) (evs : list gev) : list row :=
  match evs with
  | [] => []
  | e :: r => let st' := fupdN st (ge_node e) (ge_new e) in (ge_t e, census g rstat st') :: ev_rows g rstat st' r
  end.

(* the per-node projections of a log: node_history of the full-data object *)
Definition hists_of (g : graph) (ic : node -> N) (tmin : Q) (evs : list gev) : list (node * history) :=
  map (fun u => (u, (tmin, ic u) :: node_events u (map ev3 evs))) (gnodes g).

(* ---------------- C04: the arrays alone ---------------- *)
(* the status moves the specification allows: A -> B for an edge of H, B -> C for an edge
   (A,B) -> (A,C) of J *)
Definition moves_of (spont induced : list trans) : list (N * N) :=
  map (fun tr => (hd_status (tr_from tr), hd_status (tr_to tr))) spont ++
  map (fun tr => (snd_status (tr_from tr), snd_status (tr_to tr))) induced.

(* one row: one count per return status, each between 0 and N; when the return statuses are
   distinct the counts sum to at most N, and to exactly N when [cov] (every status a node can
   take is a return status) *)
Definition grow_okb (n : Z) (rstat : list N) (cov : bool) (c : list Z) : bool :=
  Nat.eqb (length c) (length rstat) && forallb (fun x => (0 <=? x)%Z && (x <=? n)%Z) c &&
  (if nodupb rstat then (if cov then (sumZ c =? n)%Z else (sumZ c <=? n)%Z) else true).

(* consecutive rows: one node made one move of the specification (-1 at the old status, which
   had a node, +1 at the new one; statuses that are not returned are not counted) *)
Definition gmove_okb (mv : list (N * N)) (rstat : list N) (c c' : list Z) : bool :=
  existsb (fun m => Investigation.zlist_eqb c' (next_counts rstat c (fst m) (snd m)) &&
                    forallb (fun rc => negb (N.eqb (fst rc) (fst m)) || (0 <? snd rc)%Z) (combine rstat c)) mv.

Fixpoint gsteps_okb (n : Z) (mv : list (N * N)) (rstat : list N) (cov : bool) (tmax : xtime) (r : row) (l : list row) : bool :=
  match l with
  | [] => true
  | r2 :: l' => Qleb (fst r) (fst r2) && xlt (fst r2) tmax && gmove_okb mv rstat (snd r) (snd r2) &&
                grow_okb n rstat cov (snd r2) && gsteps_okb n mv rstat cov tmax r2 l'
  end.

Definition wf_gtrajb (n : Z) (mv : list (N * N)) (rstat : list N) (cov : bool) (tmin : Q) (tmax : xtime) (rows : list row) : bool :=
  match rows with
  | [] => false
  | r :: l => Qeqb (fst r) tmin && grow_okb n rstat cov (snd r) && gsteps_okb n mv rstat cov tmax r l
  end.

(* ---------------- C09 / C10: outputs against a witness log ---------------- *)
Section W.
Variable g : graph.
Variables H J : list trans.
Variable tmax : xtime.

Definition sp_legalb (a b : N) : bool :=
  existsb (fun tr => Qltb 0 (tr_rate tr) && keqb (tr_from tr) [a] && N.eqb (hd_status (tr_to tr)) b) H.
Definition in_legalb (a b c : N) : bool :=
  existsb (fun tr => Qltb 0 (tr_rate tr) && keqb (tr_from tr) [a; b] && N.eqb (snd_status (tr_to tr)) c) J.

(* replay: every event is legal in the statuses of its moment, times never decrease and stay below tmax *)
Fixpoint legal_logb (st : node -> N) (t : Q) (l : list gev) : bool :=
  match l with
  | [] => true
  | e :: r =>
    Qleb t (ge_t e) && xlt (ge_t e) tmax && mem (ge_node e) (gnodes g) && N.eqb (st (ge_node e)) (ge_old e) &&
    (match ge_src e with
     | None => sp_legalb (ge_old e) (ge_new e)
     | Some u => mem u (gnodes g) && mem (ge_node e) (gadj g u) && in_legalb (st u) (ge_old e) (ge_new e)
     end) && legal_logb (fupdN st (ge_node e) (ge_new e)) (ge_t e) r
  end.
End W.

Fixpoint list_eqb {A} (eqb : A -> A -> bool) (a b : list A) : bool :=
  match a, b with
  | [], [] => true
  | x :: a', y :: b' => eqb x y && list_eqb eqb a' b'
  | _, _ => false
  end.

Definition row_eqb (a b : row) : bool := Qeqb (fst a) (fst b) && Investigation.zlist_eqb (snd a) (snd b).
Definition hentry_eqb (a b : Q * N) : bool := Qeqb (fst a) (fst b) && N.eqb (snd a) (snd b).
Definition nhist_eqb (a b : node * history) : bool := N.eqb (fst a) (fst b) && list_eqb hentry_eqb (snd a) (snd b).
Definition onode_eqb (a b : option node) : bool :=
  match a, b with Some x, Some y => N.eqb x y | None, None => true | _, _ => false end.
Definition tx_eqb (a b : Q * option node * node) : bool :=
  Qeqb (fst (fst a)) (fst (fst b)) && onode_eqb (snd (fst a)) (snd (fst b)) && N.eqb (snd a) (snd b).

(* C09: node histories and transmissions() are the projections of a legal chronological log
   (the witness): every entry is an induced event of the log -- along an edge, from a node that
   has the inducing status to a node that has the induced-from status at that moment -- and
   every induced event of the log has its entry *)
Definition gen_tx_okb (g : graph) (H J : list trans) (tmin : Q) (tmax : xtime) (ic : node -> N)
    (hist : list (node * history)) (txs : list (Q * option node * node)) (w : list gev) : bool :=
  legal_logb g H J tmax ic tmin w &&
  list_eqb nhist_eqb hist (hists_of g ic tmin w) &&
  list_eqb tx_eqb txs (flat_map ev_tx w).

(* C10: the plain arrays are the running counts of the same log *)
Definition gen_rows_okb (g : graph) (rstat : list N) (tmin : Q) (ic : node -> N) (rows : list row) (w : list gev) : bool :=
  list_eqb row_eqb rows ((tmin, census g rstat ic) :: ev_rows g rstat ic w).
