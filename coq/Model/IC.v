(* L2 models, written as the code is, of the initial-condition builders of
   EoN/analytic.py:55-304
     _initialize_node_status_, _count_edge_types_,
     _get_Nk_and_IC_as_arrays_, _get_NkNl_and_IC_as_arrays_ (withKs=True)
   over `graph` (Base/Graph.v) and Q.  An initial-condition request is what a
   *_from_graph wrapper receives: initial_infecteds / initial_recovereds (None or
   a list, duplicates possible) and rho (None or a number).  Python failure
   modes are `result` values.  Executable definitions only. *)
From EoNV Require Import Prelude Graph Aux Vec.

Record icreq := mkReq {
  rq_I : option (list node);      (* initial_infecteds *)
  rq_R : option (list node);      (* initial_recovereds *)
  rq_rho : option Q               (* rho *)
}.

Definition isSome {A} (o : option A) : bool := match o with Some _ => true | None => false end.

(* ---------------- the graph as networkx presents it ---------------- *)
Definition deg (g : graph) (u : node) : nat := length (gadj g u).       (* G.degree(u), simple undirected graph *)
Definition degseq (g : graph) : list nat := map (deg g) (gnodes g).     (* dict(G.degree()).values() *)
Definition gmaxdeg (g : graph) : nat := maxdeg (degseq g).              (* max(Nk.keys()) *)
Definition gN (g : graph) : Q := Qnat (length (gnodes g)).              (* G.order() *)

(* G.edges() of an undirected graph: for n in nodes: for nbr in adj[n]: if nbr
   not in seen: yield (n, nbr); then seen.add(n) *)
Fixpoint edges_from (g : graph) (l seen : list node) : list (node * node) :=
  match l with
  | [] => []
  | u :: t => map (pair u) (filter (fun v => negb (mem v seen)) (gadj g u)) ++ edges_from g t (u :: seen)
  end.
Definition gedges (g : graph) : list (node * node) := edges_from g (gnodes g) [].
Definition gsize (g : graph) : Q := Qnat (length (gedges g)).            (* G.size() *)

(* sum over G.edges() of a contribution *)
Definition esum (g : graph) (f : node -> node -> Q) : Q :=
  sumQ (map (fun e => f (fst e) (snd e)) (gedges g)).

Definition cnt (p : node -> bool) (l : list node) : Q := Qnat (length (filter p l)).
Definition ind (b : bool) : Q := if b then 1 else 0.

(* ---------------- _initialize_node_status_ ---------------- *)
Definition status := node -> N.
Definition isS (st : status) (u : node) : bool := N.eqb (st u) stS.
Definition isI (st : status) (u : node) : bool := N.eqb (st u) stI.
Definition isR (st : status) (u : node) : bool := N.eqb (st u) stR.
Definition set_status (st : status) (l : list node) (s : N) : status :=
  fold_left (fun f u => fupdN f u s) l st.

Definition initialize_node_status (g : graph) (I0 : list node) (R0 : option (list node)) : result status :=
  let R := match R0 with None => [] | Some r => r end in
  if existsb (fun u => mem u R) I0 then Err EoNError                       (* intersection non-empty *)
  else if negb (forallb (fun u => mem u (gnodes g)) I0) then Err EoNError    (* not G.has_node(node) *)
  else if negb (forallb (fun u => mem u (gnodes g)) R) then Err EoNError
  else Ok (set_status (set_status (fun _ => stS) I0 stI) R stR).          (* defaultdict 'S'; I then R *)

(* ---------------- _count_edge_types_ : (SS0, SI0, II0) ---------------- *)
Definition count_edge_types_st (g : graph) (st : status) : Q * Q * Q :=
  (esum g (fun u v => if isS st u && isS st v then 2 else 0),
   esum g (fun u v => ind ((isS st u && isI st v) || (isI st u && isS st v))),
   esum g (fun u v => if isI st u && isI st v then 2 else 0)).
Definition count_edge_types (g : graph) (I0 : list node) (R0 : option (list node)) : result (Q * Q * Q) :=
  rbind (initialize_node_status g I0 R0) (fun st => Ok (count_edge_types_st g st)).

(* ---------------- _get_Nk_and_IC_as_arrays_ ---------------- *)
Record nkic := mkNkic { nk_Nk : vec; nk_Sk : vec; nk_Ik : vec; nk_Rk : vec }.

Definition classes (g : graph) : list nat := seq 0 (S (gmaxdeg g)).      (* range(maxk+1) *)
(* array indexed by degree k: number of nodes of degree k satisfying p *)
Definition byclass (g : graph) (p : node -> bool) : vec :=
  map (fun k => cnt (fun u => Nat.eqb (deg g u) k && p u) (gnodes g)) (classes g).
Definition Nk_of (g : graph) : vec := byclass g (fun _ => true).
Definition rho_or_default (g : graph) (rho : option Q) : Q :=
  match rho with Some r => r | None => 1 / gN g end.

Definition get_Nk_and_IC (g : graph) (rq : icreq) (sir : bool) : result nkic :=
  if isSome (rq_rho rq) && isSome (rq_I rq) then Err EoNError
  else if isSome (rq_rho rq) && isSome (rq_R rq) then Err EoNError
  else if negb sir && isSome (rq_R rq) then Err EoNError
  else match gnodes g with
  | [] => Err ValueErr                                                    (* max() of an empty sequence *)
  | _ =>
    let Nk := Nk_of g in
    match rq_I rq with
    | Some I0 =>
      rbind (initialize_node_status g I0 (rq_R rq)) (fun st =>
        Ok (mkNkic Nk (byclass g (isS st)) (byclass g (isI st))
                      (byclass g (fun u => negb (isS st u) && negb (isI st u)))))
    | None =>
      let rho := rho_or_default g (rq_rho rq) in
      Ok (mkNkic Nk (smul (1 - rho) Nk) (smul rho Nk) (smul 0 Nk))
    end
  end.

(* ---------------- _get_NkNl_and_IC_as_arrays_ (withKs=True) ---------------- *)
Record nknl := mkNknl { kk_Ks : list nat; kk_NkNl : list vec; kk_SkSl : list vec; kk_SkIl : list vec; kk_IkIl : list vec }.

(* sorted(list(set(degrees))) *)
Definition Ks_of (g : graph) : list nat :=
  filter (fun k => existsb (Nat.eqb k) (degseq g)) (classes g).

(* matrix indexed by positions in Ks; every edge (u,v) of G.edges() adds f u v at
   [deg u][deg v] and f v u at [deg v][deg u] *)
Definition kmat (g : graph) (Ks : list nat) (f : node -> node -> Q) : list vec :=
  map (fun k => map (fun l =>
    esum g (fun u v => (if Nat.eqb (deg g u) k && Nat.eqb (deg g v) l then f u v else 0)
                     + (if Nat.eqb (deg g v) k && Nat.eqb (deg g u) l then f v u else 0))) Ks) Ks.
Definition mscale (c : Q) (m : list vec) : list vec := map (smul c) m.

Definition get_NkNl_and_IC (g : graph) (rq : icreq) : result nknl :=
  if isSome (rq_rho rq) && isSome (rq_I rq) then Err EoNError
  else if isSome (rq_rho rq) && isSome (rq_R rq) then Err EoNError
  else
    let Ks := Ks_of g in
    let NkNl := kmat g Ks (fun _ _ => 1) in
    match rq_I rq with
    | Some I0 =>
      rbind (initialize_node_status g I0 (rq_R rq)) (fun st =>
        Ok (mkNknl Ks NkNl
              (kmat g Ks (fun a b => ind (isS st a && isS st b)))
              (kmat g Ks (fun a b => ind (isS st a && isI st b)))
              (kmat g Ks (fun a b => ind (isI st a && isI st b)))))
    | None =>
      let rho := rho_or_default g (rq_rho rq) in
      Ok (mkNknl Ks NkNl (mscale ((1 - rho) * (1 - rho)) NkNl) (mscale ((1 - rho) * rho) NkNl) (mscale (rho * rho) NkNl))
    end.

(* ---------------- requests the property quantifies over ---------------- *)
(* a consistent request: either rho in [0,1] (or nothing: default rho = 1/N), or
   duplicate-free disjoint sets of nodes of G; initial_recovereds only with
   initial_infecteds and only for SIR models *)
Definition wf_req (g : graph) (sir : bool) (rq : icreq) : bool :=
  match rq_I rq, rq_rho rq with
  | Some I0, None =>
    let R := match rq_R rq with None => [] | Some r => r end in
    nodupb I0 && nodupb R && subsetb I0 (gnodes g) && subsetb R (gnodes g)
    && negb (existsb (fun u => mem u R) I0) && (sir || negb (isSome (rq_R rq)))
  | None, Some r => negb (isSome (rq_R rq)) && Qleb 0 r && Qleb r 1
  | None, None => negb (isSome (rq_R rq))
  | Some _, Some _ => false
  end.

(* undirected simple non-empty graph *)
Definition wf_ugraph (g : graph) : bool :=
  wf_graphb g && negb (gdirected g) && negb (Nat.eqb (length (gnodes g)) 0).

(* the requested state, read off the request (L0) *)
Definition req_status (rq : icreq) (u : node) : N :=
  match rq_I rq with
  | Some I0 => if mem u (match rq_R rq with None => [] | Some r => r end) then stR
               else if mem u I0 then stI else stS
  | None => stS
  end.
(* number of ordered adjacent pairs (u,v) with u in class a and v in class b *)
Definition pairs (g : graph) (a b : node -> bool) : Q :=
  sumQ (map (fun u => if a u then cnt b (gadj g u) else 0) (gnodes g)).
Definition degsum (g : graph) : Q := sumQ (map (fun u => Qnat (deg g u)) (gnodes g)).    (* = 2|E| *)
