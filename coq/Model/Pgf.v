(* Polynomial changes of variables between the ODE models of the SIR hierarchy (property C07), and
   L2 models, written as the code is, of the two preferential-mixing EBCM routines that the
   translator rhs2v does not reach (dict-based code):
     _dEBCM_pref_mix_          analytic.py:5359-5382
     EBCM_pref_mix_discrete    analytic.py:5491-5563 (the loop)
   and of the closures / constants that the *_from_graph wrappers pass to the right-hand sides on the
   rho path (EBCM_from_graph 5296-5304, SIR_super_compact_pairwise_from_graph 3869-3881,
   EBCM_uniform_introduction 5350-5356, EBCM_discrete_uniform_introduction 5166-5172).
   Executable definitions only.

   A degree distribution enters as the coefficient list c of its generating function
   psihat(x) = sum_k c_k x^k  (Aux.peval); psihat', psihat'' are the FORMAL derivatives
   (Aux.pderiv).  A change of variables whose components are polynomials in theta is a list of
   coefficient lists (`pmap`); its value at theta is `pm_eval`, the action of its Jacobian on a
   tangent vector dtheta is `pm_push` = (formal derivative of every component)(theta) * dtheta. *)
From EoNV Require Import Prelude Graph Vec Aux IC Wrappers.
From Coq Require Import Qpower.

(* ---------------- polynomial arithmetic on coefficient lists ---------------- *)
Fixpoint padd (p q : list Q) : list Q :=
  match p, q with
  | [], _ => q
  | _, [] => p
  | a :: p', b :: q' => (a + b) :: padd p' q'
  end.
Definition pscale (c : Q) (p : list Q) : list Q := map (fun a => c * a) p.
Fixpoint pmul (p q : list Q) : list Q :=
  match p with [] => [] | a :: p' => padd (pscale a q) (0 :: pmul p' q) end.
Definition pX : list Q := [0; 1].                                   (* the polynomial x *)
Definition pmono (a : Q) (k : nat) : list Q := repeat 0 k ++ [a].   (* a x^k *)
Fixpoint ppow (p : list Q) (n : nat) : list Q :=
  match n with O => [1] | S n' => pmul p (ppow p n') end.
Definition psub (p q : list Q) : list Q := padd p (pscale (-1) q).

(* polynomial maps theta |-> (p_1(theta), ..., p_n(theta)) *)
Definition pmap := list (list Q).
Definition pm_eval (F : pmap) (x : Q) : vec := map (fun p => peval p x) F.
Definition pm_push (F : pmap) (x dx : Q) : vec := map (fun p => peval (pderiv p) x * dx) F.

(* ---------------- the SIR hierarchy: EBCM coordinates (theta, R) ---------------- *)
Section Hierarchy.
Variables (c : list Q) (N tau gam phiS0 phiR0 : Q).
(* psihat' and psihat'(1) *)
Definition hP : list Q := pderiv c.
Definition hP1 : Q := peval hP 1.
(* phi_S = phiS0 psihat'(theta)/psihat'(1); phi_R = phiR0 + gamma (1 - theta)/tau; phi_I = theta - phi_S - phi_R *)
Definition phiS_p : list Q := pscale (phiS0 / hP1) hP.
Definition phiR_p : list Q := [phiR0 + gam / tau; - (gam / tau)].
Definition phiI_p : list Q := psub (psub pX phiS_p) phiR_p.
(* [SS] = N psihat'(theta) phi_S,  [SI] = N psihat'(theta) phi_I *)
Definition SS_p : list Q := pscale N (pmul hP phiS_p).
Definition SI_p : list Q := pscale N (pmul hP phiI_p).
(* S_k = N c_k theta^k, k = 0 .. len c - 1 *)
Fixpoint Sk_from (cs : list Q) (k : nat) : pmap :=
  match cs with [] => [] | ck :: cs' => pmono (N * ck) k :: Sk_from cs' (S k) end.
Definition Sk_p : pmap := Sk_from c 0.

(* EBCM (theta, R)  -> super-compact pairwise (theta, SS, SI, R) *)
Definition sc_p : pmap := [SS_p; SI_p].
Definition Phi_sc (theta R : Q) : vec := theta :: pm_eval sc_p theta ++ [R].
Definition DPhi_sc (theta dtheta dR : Q) : vec := dtheta :: pm_push sc_p theta dtheta ++ [dR].
(* EBCM (theta, R)  -> compact pairwise (S_0..S_K, SS, SI, R) *)
Definition cp_p : pmap := Sk_p ++ [SS_p; SI_p].
Definition Phi_cp (theta R : Q) : vec := pm_eval cp_p theta ++ [R].
Definition DPhi_cp (theta dtheta dR : Q) : vec := pm_push cp_p theta dtheta ++ [dR].
(* super-compact pairwise (theta, SS, SI, R) -> compact pairwise: only S_k depends on theta *)
Definition Psi_cp (theta SS SI R : Q) : vec := pm_eval Sk_p theta ++ [SS; SI; R].
Definition DPsi_cp (theta dtheta dSS dSI dR : Q) : vec := pm_push Sk_p theta dtheta ++ [dSS; dSI; dR].

(* compact effective degree (S_kappa, R, SI): a susceptible node of degree k has kappa neighbours that are
   not recovered with probability C(k,kappa) (theta - phi_R)^kappa phi_R^(k-kappa) / theta^k:
   S_kappa = N sum_k c_k C(k,kappa) u^kappa v^(k-kappa),  u = theta - phi_R,  v = phi_R *)
Definition u_p : list Q := psub pX phiR_p.
Definition ced_term (kappa k : nat) (ck : Q) : list Q :=
  pscale (N * ck * Qnat (binomial k kappa)) (pmul (ppow u_p kappa) (ppow phiR_p (k - kappa))).
Fixpoint ced_sum (kappa : nat) (cs : list Q) (k : nat) : list Q :=
  match cs with [] => [] | ck :: cs' => padd (ced_term kappa k ck) (ced_sum kappa cs' (S k)) end.
Definition Skappa_p : pmap := map (fun kappa => ced_sum kappa c 0) (seq 0 (length c)).
Definition ced_p : pmap := Skappa_p.
Definition Phi_ced (theta R : Q) : vec := pm_eval Skappa_p theta ++ [R; peval SI_p theta].
Definition DPhi_ced (theta dtheta dR : Q) : vec := pm_push Skappa_p theta dtheta ++ [dR; peval (pderiv SI_p) theta * dtheta].

(* effective degree (S_{s,i}, R), r = c = len c: a susceptible node of degree k has s susceptible, i infected and k-s-i recovered
   neighbours with the trinomial probability k!/(s! i! (k-s-i)!) phiS^s phiI^i phiR^(k-s-i) / theta^k:
   S_{s,i} = N sum_k c_k C(k,s) C(k-s,i) phiS^s phiI^i phiR^(k-s-i), row-major *)
Definition ed_term (s i k : nat) (ck : Q) : list Q :=
  pscale (N * ck * Qnat (binomial k s * binomial (k - s) i))
         (pmul (ppow phiS_p s) (pmul (ppow phiI_p i) (ppow phiR_p (k - s - i)))).
Fixpoint ed_sum (s i : nat) (cs : list Q) (k : nat) : list Q :=
  match cs with [] => [] | ck :: cs' => padd (ed_term s i k ck) (ed_sum s i cs' (S k)) end.
Definition Ssi_p : pmap :=
  flat_map (fun s => map (fun i => ed_sum s i c 0) (seq 0 (length c))) (seq 0 (length c)).
Definition Phi_ed (theta R : Q) : vec := pm_eval Ssi_p theta ++ [R].
Definition DPhi_ed (theta dtheta dR : Q) : vec := pm_push Ssi_p theta dtheta ++ [dR].
End Hierarchy.

(* ---------------- what the wrappers pass on the rho path ---------------- *)
(* (1-rho) * sum(Pk[k]*x**k for k in Pk) and its hand-written derivatives (sums over the dict keys) *)
Definition fg_psihat (g : graph) (rho : Q) (x : Q) : Q :=
  (1 - rho) * sumPk g (fun k => Pk (degseq g) k * qpow x (Z.of_nat k)).
Definition fg_psihatPrime (g : graph) (rho : Q) (x : Q) : Q :=
  (1 - rho) * sumPk g (fun k => Qnat k * Pk (degseq g) k * qpow x (Z.of_nat k - 1)).
Definition fg_psihatDPrime (g : graph) (rho : Q) (x : Q) : Q :=
  (1 - rho) * sumPk g (fun k => Qnat k * (Qnat k - 1) * Pk (degseq g) k * qpow x (Z.of_nat k - 2)).
(* EBCM_from_graph, rho path: EBCM(N, psihat, psihatPrime, tau, gamma, phiS0 = 1-rho, phiR0 = 0, R0 = 0) *)
Definition fg_phiS0 (rho : Q) : Q := 1 - rho.
Definition fg_phiR0 : Q := 0.
(* the coefficient list of psihat on the rho path *)
Definition fg_coeffs (g : graph) (rho : Q) : list Q := pscale (1 - rho) (Pk_coeffs (degseq g)).

(* ---------------- degree distributions as Python dicts ---------------- *)
(* Pk: association list in sorted key order (the state layout uses sorted(Pk.keys())); Pnk: rows *)
Definition pkdict := list (nat * Q).
Definition pnkdict := list (nat * pkdict).
Fixpoint kidx (k : nat) (keys : list nat) : nat :=
  match keys with [] => 0 | k' :: t => if Nat.eqb k k' then 0 else S (kidx k t) end.
Fixpoint prow (k : nat) (Pnk : pnkdict) : pkdict :=
  match Pnk with [] => [] | (k', r) :: t => if Nat.eqb k k' then r else prow k t end.
Definition dsum (d : pkdict) (f : nat -> Q -> Q) : Q := sumQ (map (fun kp => f (fst kp) (snd kp)) d).
(* dense coefficient list of sum_k Pk[k] x^k *)
Fixpoint plookup (k : nat) (d : pkdict) : Q :=
  match d with [] => 0 | (k', p) :: t => if Nat.eqb k k' then p else plookup k t end.
Definition pk_maxkey (d : pkdict) : nat := fold_right Nat.max 0%nat (map fst d).
Definition pk_coeffs (d : pkdict) : list Q := map (fun k => plookup k d) (seq 0 (S (pk_maxkey d))).
(* sum(k*Pk[k]) and the uncorrelated mixing matrix P(k'|k) = k' P(k') / <k>, one identical row per key *)
Definition pk_mean (d : pkdict) : Q := dsum d (fun k p => Qnat k * p).
Definition uncorrelated (d : pkdict) : pnkdict :=
  map (fun kp => (fst kp, map (fun kq => (fst kq, Qnat (fst kq) * snd kq / pk_mean d)) d)) d.

(* ---------------- _dEBCM_pref_mix_ ---------------- *)
(* X = [R, theta_k1, phiR_k1, theta_k2, phiR_k2, ...] over sorted keys; fractions of the population *)
Definition dEBCM_pref_mix (X : vec) (t rho tau gamma : Q) (Pk : pkdict) (Pnk : pnkdict) : vec :=
  let keys := map fst Pk in
  let R := vnth 0 X in
  let theta := fun k => vnth (1 + 2 * kidx k keys) X in
  let phiR := fun k => vnth (2 + 2 * kidx k keys) X in
  let S := (1 - rho) * dsum Pk (fun k p => p * qpow (theta k) (Z.of_nat k)) in
  let I := 1 - S - R in
  let phiS := fun k1 => (1 - rho) * dsum (prow k1 Pnk) (fun k2 p => p * qpow (theta k2) (Z.of_nat k2 - 1)) in
  let phiI := fun k => theta k - phiS k - phiR k in
  (gamma * I) :: concat (map (fun k => [- tau * phiI k; gamma * phiI k]) keys).

(* embedding of the EBCM state (theta, R) [R in counts, N nodes]: every theta_k = theta, every phiR_k = gamma(1-theta)/tau *)
Definition Phi_pm (Pk : pkdict) (N tau gamma theta R : Q) : vec :=
  (R / N) :: concat (map (fun _ => [theta; gamma / tau * (1 - theta)]) Pk).
(* its Jacobian acting on (dtheta, dR): the map is affine, d(theta) = dtheta, d(gamma/tau (1-theta)) = -gamma/tau dtheta *)
Definition DPhi_pm (Pk : pkdict) (N tau gamma dtheta dR : Q) : vec :=
  (dR / N) :: concat (map (fun _ => [dtheta; - (gamma / tau) * dtheta]) Pk).
(* the same as polynomial maps in theta, to tie DPhi_pm to the formal derivative *)
Definition pm_p (Pk : pkdict) (tau gamma : Q) : pmap :=
  concat (map (fun _ => [pX; [gamma / tau; - (gamma / tau)]]) Pk).

(* EBCM_pref_mix: IC = [0] + [1, 0] per key; returned S = N (1-rho) sum Pk theta_k^k, R = N X[0] *)
Definition pm_IC (Pk : pkdict) : vec := 0 :: concat (map (fun _ => [1; 0]) Pk).
Definition pm_out_S (Pk : pkdict) (N rho : Q) (X : vec) : Q :=
  N * ((1 - rho) * dsum Pk (fun k p => p * qpow (vnth (1 + 2 * kidx k (map fst Pk)) X) (Z.of_nat k))).
Definition pm_out_R (N : Q) (X : vec) : Q := N * vnth 0 X.

(* what EBCM_uniform_introduction is given in the comparison: psi = sum Pk x^k, psi' = sum k Pk x^(k-1) *)
Definition pk_psi (d : pkdict) (x : Q) : Q := dsum d (fun k p => p * qpow x (Z.of_nat k)).
Definition pk_psiP (d : pkdict) (x : Q) : Q := dsum d (fun k p => Qnat k * p * qpow x (Z.of_nat k - 1)).

(* ---------------- EBCM_pref_mix_discrete: the loop ---------------- *)
(* state after a pass: last theta_k (dict over Pk.keys()), R[-1], S[-1], I[-1], phiS, phiI, phiR (dicts) *)
Record pmd_state := mkPmd { pd_theta : list (nat * Q); pd_R : Q; pd_S : Q; pd_I : Q;
                            pd_phiS : list (nat * Q); pd_phiI : list (nat * Q); pd_phiR : list (nat * Q) }.
Definition pmd_init (N rho : Q) (Pk : pkdict) : pmd_state :=
  let keys := map fst Pk in
  mkPmd (map (fun k => (k, 1)) keys) 0 (N * (1 - rho)) (N * rho)
        (map (fun k => (k, 1 - rho)) keys) (map (fun k => (k, rho)) keys) (map (fun k => (k, 0)) keys).
Definition pmd_step (N rho p : Q) (Pk : pkdict) (Pnk : pnkdict) (st : pmd_state) : pmd_state :=
  let keys := map fst Pk in
  let newtheta := map (fun k => (k, plookup k (pd_theta st) - p * plookup k (pd_phiI st))) keys in
  let newR := pd_R st + pd_I st in
  let newS := N * (1 - rho) * dsum Pk (fun k pk => pk * qpow (plookup k newtheta) (Z.of_nat k)) in
  let newI := N - newR - newS in
  let phiS := map (fun k1 => (k1, (1 - rho) * dsum (prow k1 Pnk) (fun k2 q => q * qpow (plookup k2 newtheta) (Z.of_nat k2 - 1)))) keys in
  let phiR := map (fun k => (k, plookup k (pd_phiR st) + (1 - p) * plookup k (pd_phiI st))) keys in
  let phiI := map (fun k => (k, plookup k newtheta - plookup k phiS - plookup k phiR)) keys in
  mkPmd newtheta newR newS newI phiS phiI phiR.
Definition pmd_loop (N rho p : Q) (Pk : pkdict) (Pnk : pnkdict) (n : nat) : pmd_state :=
  iter n (pmd_step N rho p Pk Pnk) (pmd_init N rho Pk).
(* flat view for the driver: [R; S; I] ++ theta values in key order *)
Definition pmd_view (st : pmd_state) : vec := [pd_R st; pd_S st; pd_I st] ++ map snd (pd_theta st).
