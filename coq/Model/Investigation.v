(* C10 (generic part) — Simulation_Investigation as the code is
   (EoN/simulation_investigation.py: __init__, summary, node_status, get_statuses,
   t/S/I/R) and _transform_to_node_history_ (EoN/simulation.py).
   Executable definitions only; the lemmas are in Proofs/InvestigationP.v.

   node_history[node] = (times, statuses), two parallel lists: here one list of
   pairs [history = list (Q * N)] (Base/Graph.v).  Statuses are numbers; the
   simulators' 'S','I','R' are stS, stI, stR. *)
From EoNV Require Import Prelude Graph.

Fixpoint assoc {V} (l : list (node * V)) (u : node) : option V :=
  match l with
  | [] => None
  | (k, v) :: t => if N.eqb k u then Some v else assoc t u
  end.

(* d[u] = v on a dict in insertion order: replace in place, else append *)
Fixpoint hupd {V} (l : list (node * V)) (u : node) (v : V) : list (node * V) :=
  match l with
  | [] => [(u, v)]
  | (k, x) :: t => if N.eqb k u then (k, v) :: t else (k, x) :: hupd t u v
  end.

Record inv := mkInv {
  iv_nodes : list node;                 (* list(G) *)
  iv_hist : list (node * history);      (* node_history, a dict *)
  iv_default : option history;          (* the default of a defaultdict (the simulators pass one: ([tmin],['S'])); None for a plain dict *)
  iv_ps : option (list N)               (* possible_statuses; None = not given *)
}.

(* self._node_history_[node] *)
Definition hist_of (iv : inv) (u : node) : result history :=
  match assoc (iv_hist iv) u with
  | Some h => Ok h
  | None => match iv_default iv with Some h => Ok h | None => Err KeyErr end
  end.

(* __init__: with possible_statuses=None the statuses occurring in node_history
     ps = set(); for node in node_history: ps = ps.union(set(node_history[node][1]))
     possible_statuses = list(ps)
   The order of list(set) is unspecified: it is modelled as order of first appearance
   and nothing stated about the object depends on it (summary is a dict keyed by
   status; the theorems speak about each status separately).  Only the keys present
   in node_history count: the default of a defaultdict does not. *)
Fixpoint dedupN (l seen : list N) : list N :=
  match l with
  | [] => []
  | s :: t => if mem s seen then dedupN t seen else s :: dedupN t (s :: seen)
  end.

Definition statuses_in (hs : list (node * history)) : list N :=
  dedupN (flat_map (fun nh => map snd (snd nh)) hs) [].

Definition possible_statuses (iv : inv) : list N :=
  match iv_ps iv with
  | Some ps => ps
  | None => statuses_in (iv_hist iv)
  end.

(* ---------------- summary ---------------- *)
(* one increment of delta[status][time] *)
Definition dent := (N * Q * Z)%type.
Definition de_s (e : dent) : N := fst (fst e).
Definition de_t (e : dent) : Q := snd (fst e).
Definition de_d (e : dent) : Z := snd e.

(* for new_status, old_status, time in zip(statuses[1:], statuses[:-1], times[1:]):
     delta[new_status][time] += 1; delta[old_status][time] -= 1
   delta[x] with x not a possible status is a KeyError *)
Fixpoint moves (ps : list N) (prev : N) (h : history) : result (list dent) :=
  match h with
  | [] => Ok []
  | (t, s) :: rest =>
    if mem s ps then rbind (moves ps s rest) (fun l => Ok ((s, t, 1%Z) :: (prev, t, (-1)%Z) :: l))
    else Err KeyErr
  end.

(* tmin = node_times[0]; if node_statuses[0] not in delta: continue *)
Definition node_entries (ps : list N) (h : history) : result (list dent) :=
  match h with
  | [] => Err IndexErr
  | (t0, s0) :: rest =>
    if mem s0 ps then rbind (moves ps s0 rest) (fun l => Ok ((s0, t0, 1%Z) :: l)) else Ok []
  end.

Fixpoint all_entries (iv : inv) (ps : list N) (nodelist : list node) : result (list dent) :=
  match nodelist with
  | [] => Ok []
  | u :: t => rbind (hist_of iv u) (fun h =>
              rbind (node_entries ps h) (fun e =>
              rbind (all_entries iv ps t) (fun r => Ok (e ++ r))))
  end.

(* delta[status][time] (a defaultdict(int): 0 when never touched) *)
Definition delta (es : list dent) (s : N) (t : Q) : Z :=
  sumZ (map (fun e => if N.eqb s (de_s e) && Qeqb t (de_t e) then de_d e else 0%Z) es).

(* sorted(list(times)) of a set of times *)
Fixpoint tinsert (t : Q) (l : list Q) : list Q :=
  match l with
  | [] => [t]
  | h :: r => match t ?= h with
              | Lt => t :: l
              | Eq => l
              | Gt => h :: tinsert t r
              end
  end.
Definition times_of (es : list dent) : list Q := fold_right tinsert [] (map de_t es).

(* mysummary[1][status].append(mysummary[1][status][-1] + delta[status][time]) *)
Fixpoint running (es : list dent) (ps : list N) (prev : list Z) (ts : list Q) : list row :=
  match ts with
  | [] => []
  | t :: r => let cur := map (fun sp => (snd sp + delta es (fst sp) t)%Z) (combine ps prev) in
              (t, cur) :: running es ps cur r
  end.

(* t = sorted times; tmin = t[0] (IndexError when no node contributed);
   first row delta[status][tmin], then the running sums *)
Definition rows_of (es : list dent) (ps : list N) : result (list row) :=
  match times_of es with
  | [] => Err IndexErr
  | t0 :: r => let first := map (fun s => delta es s t0) ps in
               Ok ((t0, first) :: running es ps first r)
  end.

(* summary(nodelist): None = all nodes of G *)
Definition summary (iv : inv) (nodelist : option (list node)) : result (list row) :=
  let ps := possible_statuses iv in
  let nl := match nodelist with None => iv_nodes iv | Some l => l end in
  rbind (all_entries iv ps nl) (fun es => rows_of es ps).

(* t(), S(), I(), R(): projections of the summary of all nodes *)
Definition iv_t (iv : inv) : result (list Q) := rbind (summary iv None) (fun rows => Ok (map fst rows)).

Fixpoint index_of (s : N) (ps : list N) : option nat :=
  match ps with
  | [] => None
  | x :: t => if N.eqb x s then Some O else option_map S (index_of s t)
  end.

Definition column (iv : inv) (s : N) : result (list Z) :=
  rbind (summary iv None) (fun rows =>
  match index_of s (possible_statuses iv) with
  | None => Err EoNError                   (* "'S' is not a possible status" *)
  | Some i => Ok (map (fun r => nth i (snd r) 0%Z) rows)
  end).
Definition iv_S (iv : inv) := column iv stS.
Definition iv_I (iv : inv) := column iv stI.
Definition iv_R (iv : inv) := column iv stR.

(* ---------------- node_status / get_statuses ---------------- *)
(* number_swaps = len([ct for ct in changetimes if ct <= time]); statuses[number_swaps-1]
   (index -1, the last entry, when no change time is <= time) *)
Definition status_at (h : history) (t : Q) : result N :=
  match length (filter (fun e => Qleb (fst e) t) h) with
  | O => match rev h with [] => Err IndexErr | e :: _ => Ok (snd e) end
  | S k => match nth_error h k with Some e => Ok (snd e) | None => Err IndexErr end
  end.

Definition node_status (iv : inv) (u : node) (t : Q) : result N :=
  rbind (hist_of iv u) (fun h => status_at h t).

Fixpoint statuses_of (iv : inv) (l : list node) (t : Q) : result (list (node * N)) :=
  match l with
  | [] => Ok []
  | u :: r => rbind (node_status iv u t) (fun s => rbind (statuses_of iv r t) (fun m => Ok (hupd m u s)))
  end.

(* get_statuses(nodelist=None, time=None): all nodes; the first time of the summary *)
Definition get_statuses (iv : inv) (nodelist : option (list node)) (time : option Q) : result (list (node * N)) :=
  let nl := match nodelist with None => iv_nodes iv | Some l => l end in
  match time with
  | Some t => statuses_of iv nl t
  | None => rbind (iv_t iv) (fun ts => match ts with [] => Err IndexErr | t0 :: _ => statuses_of iv nl t0 end)
  end.

(* ---------------- _transform_to_node_history_ ---------------- *)
(* node_history = defaultdict(lambda: ([tmin], ['S'])) *)
Definition hget (tmin : Q) (l : list (node * history)) (u : node) : history :=
  match assoc l u with Some h => h | None => [(tmin, stS)] end.

(* if time == tmin: node_history[node] = ([], []);  then append (time, status) *)
Definition tr_step (tmin : Q) (st : N) (l : list (node * history)) (nt : node * Q) : list (node * history) :=
  let base := if Qeqb (snd nt) tmin then [] else hget tmin l (fst nt) in
  hupd l (fst nt) (base ++ [(snd nt, st)]).

Definition transform_SIR (tmin : Q) (inf rec : list (node * Q)) : list (node * history) :=
  fold_left (tr_step tmin stR) rec (fold_left (tr_step tmin stI) inf []).

(* SIS: while Itimes: pop an infection time (reset when == tmin), append 'I';
        if Rtimes: pop a recovery time, append 'S' *)
Fixpoint sis_hist (tmin : Q) (its rts : list Q) (h : history) : history :=
  match its with
  | [] => h
  | t :: its' =>
    let h1 := (if Qeqb t tmin then [] else h) ++ [(t, stI)] in
    match rts with
    | [] => sis_hist tmin its' [] h1
    | r :: rts' => sis_hist tmin its' rts' (h1 ++ [(r, stS)])
    end
  end.

Definition transform_SIS (tmin : Q) (inf rec : list (node * list Q)) : list (node * history) :=
  fold_left (fun l nt =>
               match snd nt with
               | [] => l                        (* the loop body never runs: the key is not created *)
               | its => let rts := match assoc rec (fst nt) with Some r => r | None => [] end in
                        hupd l (fst nt) (sis_hist tmin its rts (hget tmin l (fst nt)))
               end) inf [].

(* the object the simulators build *)
Definition investigation_SIR (nodes : list node) (tmin : Q) (inf rec : list (node * Q)) : inv :=
  mkInv nodes (transform_SIR tmin inf rec) (Some [(tmin, stS)]) (Some [stS; stI; stR]).
Definition investigation_SIS (nodes : list node) (tmin : Q) (inf rec : list (node * list Q)) : inv :=
  mkInv nodes (transform_SIS tmin inf rec) (Some [(tmin, stS)]) (Some [stS; stI]).

(* ---------------- the decidable checker applied to implementation outputs ---------------- *)
(* time-ordered (non-decreasing: two changes of one node may share an instant) *)
Fixpoint sortedb (h : history) : bool :=
  match h with
  | [] => true
  | a :: r => match r with [] => true | b :: _ => Qleb (fst a) (fst b) && sortedb r end
  end.

Definition move_ok (mv : list (N * N)) (a b : N) : bool :=
  existsb (fun m => N.eqb (fst m) a && N.eqb (snd m) b) mv.

Fixpoint legalb (mv : list (N * N)) (h : history) : bool :=
  match h with
  | [] => true
  | a :: r => match r with [] => true | b :: _ => move_ok mv (snd a) (snd b) && legalb mv r end
  end.

(* starts at tmin, ordered, possible statuses only *)
Definition wf_histb (ps : list N) (tmin : Q) (h : history) : bool :=
  match h with
  | [] => false
  | e :: _ => Qeqb (fst e) tmin && sortedb h && forallb (fun x => mem (snd x) ps) h
  end.

(* ... and legal moves only *)
Definition good_histb (ps : list N) (mv : list (N * N)) (tmin : Q) (h : history) : bool :=
  wf_histb ps tmin h && legalb mv h.

(* a time series as a step function: the counts of the last row at or before t *)
Fixpoint step_at (rows : list row) (t : Q) (cur : option (list Z)) : option (list Z) :=
  match rows with
  | [] => cur
  | (t', cs) :: r => if Qleb t' t then step_at r t (Some cs) else step_at r t cur
  end.

Fixpoint zlist_eqb (a b : list Z) : bool :=
  match a, b with
  | [], [] => true
  | x :: a', y :: b' => Z.eqb x y && zlist_eqb a' b'
  | _, _ => false
  end.

Definition opt_eqb (a b : option (list Z)) : bool :=
  match a, b with
  | None, None => true
  | Some x, Some y => zlist_eqb x y
  | _, _ => false
  end.

Definition same_series (a b : list row) : bool :=
  forallb (fun t => opt_eqb (step_at a t None) (step_at b t None)) (map fst a ++ map fst b).

Inductive verdict :=
| VOk
| VBadHistory (u : node)          (* does not start at tmin / not ordered / impossible status / illegal move *)
| VBadSummary (t : Q)             (* summary(histories) and the arrays differ at time t *)
| VErr (e : err).                 (* summary itself fails *)

Fixpoint first_bad_hist (iv : inv) (ps : list N) (mv : list (N * N)) (tmin : Q) (l : list node) : option node :=
  match l with
  | [] => None
  | u :: r => match hist_of iv u with
              | Ok h => if good_histb ps mv tmin h then first_bad_hist iv ps mv tmin r else Some u
              | Err _ => Some u
              end
  end.

Definition first_diff (a b : list row) : option Q :=
  find (fun t => negb (opt_eqb (step_at a t None) (step_at b t None))) (map fst a ++ map fst b).

(* arrays: the rows (t, [count of ps_0; count of ps_1; ...]) returned without return_full_data *)
Definition consistent (iv : inv) (arrays : list row) (tmin : Q) (mv : list (N * N)) : verdict :=
  match first_bad_hist iv (possible_statuses iv) mv tmin (iv_nodes iv) with
  | Some u => VBadHistory u
  | None =>
    match summary iv None with
    | Err e => VErr e
    | Ok rows => match first_diff rows arrays with Some t => VBadSummary t | None => VOk end
    end
  end.

Definition consistent_b (iv : inv) (arrays : list row) (tmin : Q) (mv : list (N * N)) : bool :=
  match consistent iv arrays tmin mv with VOk => true | _ => false end.

(* ---------------- event logs (what every simulator keeps) ---------------- *)
(* an event: at time t node u takes status s *)
Definition event := (Q * node * N)%type.
Definition ev_t (e : event) : Q := fst (fst e).
Definition ev_u (e : event) : node := snd (fst e).
Definition ev_s (e : event) : N := snd e.

(* the per-node projection of a log: the initial status at tmin, then the node's events *)
Definition project (tmin : Q) (init : node -> N) (log : list event) (u : node) : history :=
  (tmin, init u) :: map (fun e => (ev_t e, ev_s e)) (filter (fun e => N.eqb (ev_u e) u) log).

Definition count_status (nodes : list node) (st : node -> N) (s : N) : Z :=
  Z.of_nat (length (filter (fun u => N.eqb (st u) s) nodes)).

(* the running counts of a log: one row at tmin, one row after every event *)
Fixpoint log_rows (nodes : list node) (ps : list N) (st : node -> N) (log : list event) : list row :=
  match log with
  | [] => []
  | e :: r => let st' := fupdN st (ev_u e) (ev_s e) in
              (ev_t e, map (count_status nodes st') ps) :: log_rows nodes ps st' r
  end.

Definition log_arrays (nodes : list node) (ps : list N) (tmin : Q) (init : node -> N) (log : list event) : list row :=
  (tmin, map (count_status nodes init) ps) :: log_rows nodes ps init log.

Definition log_inv (nodes : list node) (ps : list N) (tmin : Q) (init : node -> N) (log : list event) : inv :=
  mkInv nodes (map (fun u => (u, project tmin init log u)) nodes) None (Some ps).

(* strictly increasing event times, all after tmin *)
Fixpoint increasing (prev : Q) (log : list event) : bool :=
  match log with
  | [] => true
  | e :: r => Qltb prev (ev_t e) && increasing (ev_t e) r
  end.
