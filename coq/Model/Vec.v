(* Small vector library over Q used by the generated right-hand sides
   (coq/Gen/Rhs.v, emitted by translate/rhs2v.py).  1-D numpy arrays are
   `list Q`.  Each definition mirrors one numpy construct of the translated
   fragment; shape errors of numpy (length mismatch) are outside the fragment:
   zipWith truncates, the harness only calls with consistent shapes and the
   theorems carry the length hypotheses explicitly. *)
From EoNV Require Import Prelude.
From Coq Require Import Qpower.

Definition vec := list Q.

Fixpoint zipWith (f : Q -> Q -> Q) (a b : vec) : vec :=
  match a, b with
  | x :: a', y :: b' => f x y :: zipWith f a' b'
  | _, _ => []
  end.

(* elementwise array (op) array *)
Definition vadd := zipWith Qplus.
Definition vsub := zipWith Qminus.
Definition vmul := zipWith Qmult.
Definition vdiv := zipWith Qdiv.
(* scalar (op) array and array (op) scalar (numpy broadcasting of a 0-d operand) *)
Definition smul (c : Q) (a : vec) : vec := map (fun x => c * x) a.     (* c * a *)
Definition vmuls (a : vec) (c : Q) : vec := map (fun x => x * c) a.    (* a * c *)
Definition vdivs (a : vec) (c : Q) : vec := map (fun x => x / c) a.    (* a / c *)
Definition sdivv (c : Q) (a : vec) : vec := map (fun x => c / x) a.    (* c / a *)
Definition sadd (c : Q) (a : vec) : vec := map (fun x => c + x) a.     (* c + a *)
Definition vadds (a : vec) (c : Q) : vec := map (fun x => x + c) a.    (* a + c *)
Definition ssub (c : Q) (a : vec) : vec := map (fun x => c - x) a.     (* c - a *)
Definition vsubs (a : vec) (c : Q) : vec := map (fun x => x - c) a.    (* a - c *)
Definition vneg (a : vec) : vec := map Qopp a.                         (* -a *)

(* a.dot(b), sum(a) / a.sum() *)
Definition vsum (a : vec) : Q := sumQ a.
Definition dot (a b : vec) : Q := vsum (vmul a b).

(* x ** n for an integer literal n *)
Definition qpow (x : Q) (n : Z) : Q := Qpower x n.
Definition vpows (a : vec) (n : Z) : vec := map (fun x => qpow x n) a. (* a ** n *)

(* np.arange(n) as floats, and  x ** np.arange(n)  *)
Definition arange (n : nat) : vec := map Qnat (seq 0 n).
Definition spow_arange (x : Q) (n : nat) : vec := map (fun k => qpow x (Z.of_nat k)) (seq 0 n).

(* X[i] (index inside the array by the shape conventions of the caller) *)
Definition vnth (i : nat) (a : vec) : Q := nth i a 0.
(* X[a:b] for a, b >= 0; X[:-k], X[-k:] *)
Definition slice (a b : nat) (x : vec) : vec := firstn (b - a) (skipn a x).
Definition slice_from (a : nat) (x : vec) : vec := skipn a x.
Definition slice_to (b : nat) (x : vec) : vec := firstn b x.
Definition drop_last (k : nat) (x : vec) : vec := firstn (length x - k) x.
Definition take_last (k : nat) (x : vec) : vec := skipn (length x - k) x.

(* scipy.ndimage.shift(a, -1): out[i] = a[i+1], the vacated last cell is 0
   (mode='constant', cval=0; for an integer shift the order-3 spline
   interpolation reproduces the samples) *)
Definition shift_m1 (a : vec) : vec := match a with [] => [] | _ :: t => t ++ [0] end.

(* iteration of a loop body *)
Fixpoint iter {A : Type} (n : nat) (f : A -> A) (x : A) : A :=
  match n with O => x | S n' => f (iter n' f x) end.
