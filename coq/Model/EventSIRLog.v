(* Event log of the event-driven SIR model (Model/EventSIR.v), for the cross-cutting
   properties C04 / C09 / C10.  The simulator itself keeps no event log: it keeps the
   arrays (rows), the transmissions list and the tables pred_inf_time / rec_time from
   which the full-data histories are built.  [loop_log] is [loop_det] with a ghost
   accumulator that records the status change made by every pop (a pop of a
   transmission event whose target is no longer susceptible makes none), so that
   "the events of the run" is a defined, executable object.  It does not influence the
   run: Proofs/EventSIRRows.v, [loop_log_det].  Executable definitions only. *)
From EoNV Require Import Prelude Samp Graph EventSIR Investigation.

Section Log.
Variable tb : tiepolicy.
Variable g : graph.
Variable tmax : xtime.
Variable delay : node -> node -> xtime.
Variable dur : node -> xtime.

(* the status change made by Q.pop_and_run() on the popped entry [e]; [s] already has the
   entry removed *)
Definition step_ev (e : qent) (s : est) : option event :=
  match qe e with
  | ERec u => Some (qt e, u, stR)
  | ETrans _ v => if N.eqb (stat s v) stS then Some (qt e, v, stI) else None
  end.

Definition gstep (e : qent) (s : est) (acc : list event) : list event :=
  match step_ev e s with Some x => x :: acc | None => acc end.

(* [loop_det] with the ghost log (newest first) *)
Fixpoint loop_log (fuel : nat) (s : est) (acc : list event) : result (est * list event) :=
  match qu s with
  | [] => Ok (s, acc)
  | e :: q' =>
    match fuel with
    | O => Err OutOfFuel
    | S f => loop_log f (step_det tb g tmax delay dur e (set_qu s q')) (gstep e (set_qu s q') acc)
    end
  end.
End Log.

(* the events of a run, in the order in which they happened *)
Definition esir_log (tb : tiepolicy) (g : graph) (delay : node -> node -> xtime) (dur : node -> xtime)
    (i0 r0 : list node) (tmin : Q) (tmax : xtime) (fuel : nat) : result (list event) :=
  rbind (loop_log tb g tmax delay dur fuel (init_state tb g tmin tmax i0 r0) [])
        (fun p => Ok (rev (snd p))).

(* the statuses requested by the caller *)
Definition esir_init (i0 r0 : list node) : node -> N :=
  fun u => if mem u r0 then stR else if mem u i0 then stI else stS.

(* replaying events on a status map *)
Definition apply_event (st : node -> N) (e : event) : node -> N := fupdN st (ev_u e) (ev_s e).
Definition replay (st : node -> N) (evs : list event) : node -> N := fold_left apply_event evs st.

Definition sir_ps : list N := [stS; stI; stR].

(* the domain of the cross-cutting properties: that of C11 ([esir_okb]) and, in addition,
   the two initial collections are duplicate-free and the initially recovered nodes are
   nodes of the graph (the arrays' first row is computed from len(initial_recovereds),
   and the first len(initial_infecteds) rows are cut off) *)
Definition esir_okb2 (g : graph) (delay : node -> node -> xtime) (dur : node -> xtime)
    (i0 r0 : list node) (tmin : Q) (tmax : xtime) : bool :=
  esir_okb g delay dur i0 r0 tmin tmax && nodupb i0 && nodupb r0 && subsetb r0 (gnodes g).

(* heap order (time, counter): among equal times an entry pushed during set-up (counter
   < |I0|) is never overtaken by one pushed later.  The code's [fifo] has this property. *)
Definition init_first (n0 : nat) (tb : tiepolicy) : Prop :=
  forall e h, (qc h < n0)%nat -> (n0 <= qc e)%nat -> tb e h = false.

(* no same-instant tie with the initial condition: the initially infected nodes have
   positive duration and positive delays to their neighbours *)
Definition posx (x : xtime) : bool := match x with Some d => Qltb 0 d | None => true end.
Definition pos_init (g : graph) (delay : node -> node -> xtime) (dur : node -> xtime) (i0 : list node) : bool :=
  forallb (fun u => posx (dur u) && forallb (fun v => posx (delay u v)) (gadj g u)) i0.

Definition finite_dur (g : graph) (dur : node -> xtime) : bool :=
  forallb (fun u => match dur u with Some _ => true | None => false end) (gnodes g).

(* a log is enabled from [st]: every infection hits a susceptible node, every recovery an
   infectious one (a decidable checker) *)
Fixpoint enabledb (st : node -> N) (evs : list event) : bool :=
  match evs with
  | [] => true
  | e :: r =>
    (if N.eqb (ev_s e) stI then N.eqb (st (ev_u e)) stS
     else N.eqb (ev_s e) stR && N.eqb (st (ev_u e)) stI) && enabledb (apply_event st e) r
  end.
