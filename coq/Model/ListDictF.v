(* L2 model of EoN.simulation._ListDict_ (simulation.py:207-365) under ROUNDED
   arithmetic: the operations of Model/ListDict.v, term for term, with a rounding
   [rnd] applied exactly where the Python code performs a floating-point operation
   on a weight:

     update   self.weight[item] = self.weight[item] + weight_increment   -> fadd
              self._total_weight += weight_increment                     -> fadd
     remove   self._total_weight -= weight                               -> fsub
              if not self.items: self._total_weight = 0                  (exact reset)
     choose   random.random() < self.weight[choice]/self.max_weight      -> fdiv
     update_total_weight   sum(self.weight[item] for item in self.items) -> left fold of fadd from 0

   Comparisons (>, ==, != against max_weight, weight != 0) are exact on floats and
   stay exact here.  With [rnd := fun x => x] every definition below is
   convertible with its counterpart of Model/ListDict.v (Proofs/ListDictFP.v,
   [ldf_exact_is_ld]).  [rnd] is a parameter: Proofs/ListDictFP.v assumes the
   standard model |rnd x - x| <= eps |x| as a theorem premise; the concrete
   binary64 instance [rnd53] (round to nearest, ties to even, 53 significant bits)
   is defined at the end of this file over Z and Q, without primitive floats. *)
From EoNV Require Import Prelude ListDict.

Section LDF.
Variable K : Type.
Variable Keqb : K -> K -> bool.
Variable rnd : Q -> Q.

Definition fadd (a b : Q) : Q := rnd (a + b).
Definition fsub (a b : Q) : Q := rnd (a - b).
Definition fdiv (a b : Q) : Q := rnd (a / b).

Notation ld := (ld K).
Notation fupd := (fupd K Keqb).

(* update(item, weight_increment)  simulation.py:281-311 *)
Definition ldf_update (s : ld) (k : K) (inc : option Q) : result ld :=
  match inc with
  | Some d =>
    if negb (weighted s) then Err TypeErr
    else
      let w0 := wread K s k in
      let w1 := fadd w0 d in                       (* self.weight[item] + weight_increment *)
      let '(mw, mc) :=
        if Qltb 0 d || negb (Qeqb w0 (maxw s)) then
          if Qltb (maxw s) w1 then (w1, 1%Z)
          else if Qeqb w1 (maxw s) then (maxw s, (maxc s + 1)%Z)
          else (maxw s, maxc s)
        else (maxw s, (maxc s - 2)%Z) in
      let wt' := fupd (wt s) k (Some w1) in
      if contains K s k then
        Ok (mkLD (weighted s) (items s) (pos s) wt' mw mc (fadd (total s) d))
      else
        Ok (mkLD (weighted s) (items s ++ [k]) (fupd (pos s) k (Some (length (items s))))
                 wt' mw mc (fadd (total s) d))      (* self._total_weight += weight_increment *)
  | None =>
    if weighted s then Err PyException
    else if contains K s k then Ok s
    else Ok (mkLD (weighted s) (items s ++ [k]) (fupd (pos s) k (Some (length (items s))))
                  (wt s) (maxw s) (maxc s) (total s))
  end.

(* remove(choice)  simulation.py:313-332 *)
Definition ldf_remove (s : ld) (k : K) : result ld :=
  match pos s k with
  | None => Err KeyErr
  | Some p =>
    match rev (items s) with
    | [] => Err IndexErr
    | last :: rest_rev =>
      let its0 := rev rest_rev in
      let pos0 := fupd (pos s) k None in
      let '(its1, pos1) :=
        if Nat.eqb p (length its0) then (its0, pos0)
        else (set_nth K its0 p last, fupd pos0 last (Some p)) in
      if weighted s then
        match wt s k with
        | None => Err KeyErr
        | Some w =>
          let wt1 := fupd (wt s) k None in
          (* self._total_weight -= weight; if not self.items: self._total_weight = 0 *)
          let tot := match its1 with [] => 0 | _ => fsub (total s) w end in
          if Qeqb w (maxw s) then
            let mc := (maxc s - 1)%Z in
            if Z.eqb mc 0 && negb (Nat.eqb (length its1) 0) then
              let '(m, c) := recompute_max K s its1 wt1 in
              Ok (mkLD true its1 pos1 wt1 m c tot)
            else Ok (mkLD true its1 pos1 wt1 (maxw s) mc tot)
          else Ok (mkLD true its1 pos1 wt1 (maxw s) (maxc s) tot)
        end
      else Ok (mkLD false its1 pos1 (wt s) (maxw s) (maxc s) (total s))
    end
  end.

(* insert(item, weight)  simulation.py:263-278 *)
Definition ldf_insert (s : ld) (k : K) (w : option Q) : result ld :=
  rbind (if contains K s k then ldf_remove s k else Ok s) (fun s1 =>
  match w with
  | Some q => if Qeqb q 0 then Ok s1 else ldf_update s1 k w
  | None => ldf_update s1 k None
  end).

Definition ldf_step (s : ld) (o : op K) : result ld :=
  match o with
  | OpInsert k w => ldf_insert s k (Some w)
  | OpUpdate k d => ldf_update s k (Some d)
  | OpRemove k => ldf_remove s k
  | OpAdd k => ldf_update s k None
  end.

Fixpoint ldf_run (s : ld) (ops : list (op K)) : result ld :=
  match ops with
  | [] => Ok s
  | o :: ops' => rbind (ldf_step s o) (fun s' => ldf_run s' ops')
  end.

(* every intermediate state of a run (for "after every operation" statements and the driver) *)
Fixpoint ldf_trace (s : ld) (ops : list (op K)) : list (result ld) :=
  match ops with
  | [] => []
  | o :: ops' =>
    match ldf_step s o with
    | Ok s' => Ok s' :: ldf_trace s' ops'
    | Err e => [Err e]
    end
  end.

(* one round of choose_random: accept iff u < fl(weight/max_weight) *)
Definition ldf_threshold (s : ld) (k : K) : Q := fdiv (wread K s k) (maxw s).
Definition ldf_choose_round (s : ld) (r : nat) (u : Q) : round_result K :=
  match nth_error (items s) r with
  | None => Crash IndexErr
  | Some k =>
    if weighted s then
      if Qeqb (maxw s) 0 then Crash ZeroDivision
      else if Qltb u (ldf_threshold s k) then Accept k else Reject
    else Accept k
  end.

(* update_total_weight(): sum(self.weight[item] for item in self.items), a left fold
   of float additions starting from the int 0 (CPython >= 3.12 compensates this sum and is
   then at least as accurate; the bound proved for the plain fold is what is claimed) *)
Definition fsum (l : list Q) : Q := fold_left fadd l 0.
Definition ldf_resum (s : ld) : ld :=
  mkLD (weighted s) (items s) (pos s) (wt s) (maxw s) (maxc s)
       (fsum (map (wread K s) (items s))).

(* the drift guard of Gillespie_simple_contagion (simulation.py:4256, 4309):
   if total_weight() < 10**(-7) and total_weight() != 0: update_total_weight() *)
Definition ldf_guard (cut : Q) (s : ld) : ld :=
  if Qltb (total s) cut && negb (Qeqb (total s) 0) then ldf_resum s else s.

(* what the clock should use *)
Definition wsum (s : ld) : Q := sumQ (map (wread K s) (items s)).
Definition drift (s : ld) : Q := total s - wsum s.

(* magnitudes an operation works on: the running bound of the drift is
   B' = (1+eps) B + eps * (magnitude of the step), see Proofs/ListDictFP.v *)
Definition hist_weight (o : op K) : Q :=
  match o with OpInsert _ w => w | OpUpdate _ d => d | _ => 0 end.
Definition hist_total (ops : list (op K)) : Q := sumQ (map hist_weight ops).
(* number of roundings of the running total an operation can cause *)
Definition hist_cost (o : op K) : nat :=
  match o with OpInsert _ _ => 2 | OpUpdate _ _ => 1 | OpRemove _ => 1 | OpAdd _ => 0 end.
Definition hist_count (ops : list (op K)) : nat := fold_right (fun o n => (hist_cost o + n)%nat) O ops.

(* peak of (stored sum + incoming weight) over the operations of a run: the
   magnitude the drift bound is relative to *)
Fixpoint ldf_peak (s : ld) (ops : list (op K)) : Q :=
  match ops with
  | [] => 0
  | o :: ops' =>
    let m := wsum s + hist_weight o in
    match ldf_step s o with
    | Ok s' => qmax m (ldf_peak s' ops')
    | Err _ => m
    end
  end.

End LDF.

(* ------------------------------------------------------------------------- *)
(* binary64 rounding of a rational: round to nearest, ties to even, to 53
   significant bits, unbounded exponent range.  On sums and differences of two
   binary64 numbers this IS the IEEE-754 result whenever that result is finite:
   a sum of two doubles is a multiple of 2^-1074, so in the subnormal range it is
   exactly representable and [rnd53] returns it unchanged; only overflow
   (|result| >= 2^1024 after rounding) is outside. *)

(* round-half-even of the rational n/d (d > 0) to an integer *)
Definition rne (n : Z) (d : positive) : Z :=
  let q := (n / Zpos d)%Z in
  let r := (n mod Zpos d)%Z in
  match (2 * r ?= Zpos d)%Z with
  | Lt => q
  | Gt => (q + 1)%Z
  | Eq => if Z.even q then q else (q + 1)%Z
  end.

(* x > 0: L = floor(log2 x) (the candidate log2 num - log2 den is L or L+1), the
   kept bits are those of weight >= 2^e with e = L - (prec-1) *)
Definition rnd_pos (prec : Z) (x : Q) : Q :=
  let e0 := (Z.log2 (Qnum x) - Z.log2 (Zpos (Qden x)))%Z in
  let L := if Qle_bool (2 ^ e0) x then e0 else (e0 - 1)%Z in
  let e := (L - (prec - 1))%Z in
  let y := x * 2 ^ (- e) in
  inject_Z (rne (Qnum y) (Qden y)) * 2 ^ e.

Definition rnd_prec (prec : Z) (x : Q) : Q :=
  let r := Qred x in
  match Qnum r with
  | Z0 => 0
  | Zpos _ => rnd_pos prec r
  | Zneg _ => - rnd_pos prec (- r)
  end.

Definition rnd53 : Q -> Q := rnd_prec 53.
Definition eps53 : Q := 1 # (2 ^ 53).
