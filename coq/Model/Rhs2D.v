(* Hand-written, proof-friendly models of the 2-D and node-level ODE right-hand
   sides of EoN/analytic.py (translate/rhs2v.py, the scalar / 1-D translator,
   does not reach them; translate/rhs2d2v.py translates them to Gen/Rhs2.v and
   Proofs/Rhs2GenP.v proves, on every run, that the generated definitions are
   equal to the models below):

     _dSIS/_dSIR_individual_based_      (node level, loops over nodes / neighbours)
     _dSIS/_dSIR_pair_based_            (node level, N x N pair arrays, triple closure)
     _dSIS/_dSIR_heterogeneous_pairwise_ (k x k degree-class pair arrays)
     _dSIS/_dSIR_effective_degree_      (r x c arrays indexed by (#S nbrs, #I nbrs))

   Executable definitions only (proofs: Proofs/Rhs2DP.v).  They are tied to the
   working tree on every run of C06/C07/C08 twice: by the adequacy theorems
   "generated = model" over the freshly generated Gen/Rhs2.v, and by point
   evaluation (component `rhs2`: Extract/XRhs2.v, ocaml/rhs2_driver.ml,
   harness/rhs2_lib.py): the extracted model, the extracted generated
   definition and the Python function are evaluated at random dyadic points
   and compared to rel 1e-9.

   Conventions.  A flat numpy vector is `vec = list Q`; a 2-D array of shape
   (r, c) stored row-major in a flat vector M has M[i, j] = vnth (i*c + j) M
   (this is what `M.shape = (r, c)` on a contiguous slice means).  Every
   right-hand side is DEFINED as the concatenation of `tab`/`tab2` tabulations
   of named component functions (e.g. pbSIR_dXY), in the order of the code's
   final np.concatenate; the theorems are stated about the components.

   numpy idioms:  a[a == 0] = 1  is `guard0`;  `1/v if v != 0 else 0` is `inv0`;
   1-D * 2-D broadcasts the 1-D operand along the LAST axis.
   Division: Coq's x / 0 = 0, numpy gives inf/nan: points with a zero
   denominator that the code does not guard are outside the domain (the
   harness does not evaluate there; theorems that divide carry hypotheses).

   Node-level systems: nodes are `node = N` (Base/Graph.v), `nodelist` is the
   caller's list of nodes, `idx` is the dict index_of_node, `tr u v` is
   trans_rate_fxn(u, v), `rc u` is rec_rate_fxn(u); neighbour loops run over
   `gadj G u` in networkx iteration order.  PRECONDITION of these models (it is
   what every caller in analytic.py establishes: index_of_node = {node: i for
   i, node in enumerate(nodelist)}, nodelist a duplicate-free enumeration of
   the nodes of a simple graph G): idx (nodelist[i]) = i, so that the code's
   accumulation `dA[index_of_node[u]] += ..` over `u in nodelist` (and
   `dA[i, index_of_node[v]] += ..` over `v in G.neighbors(u)`) writes every
   cell at most once; the model tabulates the cell at position i (resp. (i, j))
   from u = nodelist[i] (resp. v = nodelist[j], when v is a neighbour of u, and
   0 otherwise).  N = G.order() of the pair-based code is len(nodelist) here. *)
From EoNV Require Import Prelude Vec Graph.

(* ---------- tabulation and finite sums ---------- *)
Definition tab (n : nat) (f : nat -> Q) : vec := map f (seq 0 n).
Definition tab2 (r c : nat) (f : nat -> nat -> Q) : vec := flat_map (fun i => tab c (f i)) (seq 0 r).
Definition sumn (n : nat) (f : nat -> Q) : Q := vsum (tab n f).
Definition sumn2 (r c : nat) (f : nat -> nat -> Q) : Q := sumn r (fun s => sumn c (f s)).
Definition guard0 (v : Q) : Q := if Qeqb v 0 then 1 else v.
Definition inv0 (v : Q) : Q := if Qeqb v 0 then 0 else 1 / v.

(* ====================================================================== *)
(* node-level systems                                                      *)
(* ====================================================================== *)
Section NodeLevel.
Variables (G : graph) (nodelist : list node) (idx : node -> nat).
Variables (tr : node -> node -> Q) (rc : node -> Q).

Definition node_at (i : nat) : node := nth i nodelist 0%N.
Definition nN : nat := length nodelist.
(* `for w in G.neighbors(v): if w == u: continue` *)
Definition others (u : node) (l : list node) : list node := filter (fun w => negb (N.eqb w u)) l.
Definition is_edge (i j : nat) : bool := mem (node_at j) (gadj G (node_at i)).

(* ---- _dSIS_individual_based_(Y, t, G, nodelist, index_of_node, trans_rate_fxn, rec_rate_fxn) ---- *)
Definition ibSIS_dY (Y : vec) (i : nat) : Q :=
  let u := node_at i in
  let Yi := vnth i Y in
  sumQ (map (fun nbr => tr u nbr * (1 - Yi) * vnth (idx nbr) Y) (gadj G u)) - rc u * Yi.
Definition dSIS_individual_based (Y : vec) (t : Q) : vec := tab nN (ibSIS_dY Y).

(* ---- _dSIR_individual_based_: V = X ++ Y ---- *)
Definition ibSIR_dX (V : vec) (i : nat) : Q :=
  let u := node_at i in
  - vnth i V * sumQ (map (fun nbr => tr u nbr * vnth (nN + idx nbr) V) (gadj G u)).
Definition ibSIR_dY (V : vec) (i : nat) : Q :=
  - ibSIR_dX V i - rc (node_at i) * vnth (nN + i) V.
Definition dSIR_individual_based (V : vec) (t : Q) : vec :=
  tab nN (ibSIR_dX V) ++ tab nN (ibSIR_dY V).

(* ---- _dSIR_pair_based_: V = X ++ Y ++ XY (N x N) ++ XX (N x N) ---- *)
Definition prX (V : vec) (i : nat) : Q := vnth i V.
Definition prY (V : vec) (i : nat) : Q := vnth (nN + i) V.
Definition prXY (V : vec) (i j : nat) : Q := vnth (2 * nN + i * nN + j) V.
Definition prXX (V : vec) (i j : nat) : Q := vnth (2 * nN + nN * nN + i * nN + j) V.

(* the closure terms added to dXY[i,j] / subtracted from dXX[i,j] for the edge (u, v),
   i = position of u, j = position of v; Xinv, XY, XX are the accessors of the system *)
Definition triples_in (Xinv : nat -> Q) (XY XX : nat -> nat -> Q) (i j : nat) : Q :=
  let u := node_at i in let v := node_at j in
  sumQ (map (fun w => tr v w * XX i j * XY j (idx w) * Xinv j) (others u (gadj G v))).
Definition triples_out (Xinv : nat -> Q) (XY A : nat -> nat -> Q) (i j : nat) : Q :=
  let u := node_at i in let v := node_at j in
  sumQ (map (fun w => tr u w * XY i (idx w) * A i j * Xinv i) (others v (gadj G u))).

Definition pbSIR_dX (V : vec) (i : nat) : Q :=
  let u := node_at i in
  sumQ (map (fun v => - tr u v * prXY V i (idx v)) (gadj G u)).
Definition pbSIR_dY (V : vec) (i : nat) : Q :=
  let u := node_at i in
  - rc u * prY V i + sumQ (map (fun v => tr u v * prXY V i (idx v)) (gadj G u)).
Definition pbSIR_dXY (V : vec) (i j : nat) : Q :=
  let u := node_at i in let v := node_at j in
  let Xinv := fun k => inv0 (prX V k) in
  if is_edge i j then
    - (tr u v + rc v) * prXY V i j
    + triples_in Xinv (prXY V) (prXX V) i j
    - triples_out Xinv (prXY V) (prXY V) i j
  else 0.
Definition pbSIR_dXX (V : vec) (i j : nat) : Q :=
  let Xinv := fun k => inv0 (prX V k) in
  if is_edge i j then
    - triples_in Xinv (prXY V) (prXX V) i j
    - triples_out Xinv (prXY V) (prXX V) i j
  else 0.
Definition dSIR_pair_based (V : vec) (t : Q) : vec :=
  tab nN (pbSIR_dX V) ++ tab nN (pbSIR_dY V) ++ tab2 nN nN (pbSIR_dXY V) ++ tab2 nN nN (pbSIR_dXX V).

(* ---- _dSIS_pair_based_: V = Y ++ XY ++ XX;  X = 1 - Y,  YY = 1 - XY - XX - XY^T ---- *)
Definition psY (V : vec) (i : nat) : Q := vnth i V.
Definition psX (V : vec) (i : nat) : Q := 1 - psY V i.
Definition psXY (V : vec) (i j : nat) : Q := vnth (nN + i * nN + j) V.
Definition psXX (V : vec) (i j : nat) : Q := vnth (nN + nN * nN + i * nN + j) V.
Definition psYY (V : vec) (i j : nat) : Q := 1 - psXY V i j - psXX V i j - psXY V j i.

Definition pbSIS_dY (V : vec) (i : nat) : Q :=
  let u := node_at i in
  - rc u * psY V i + sumQ (map (fun v => tr u v * psXY V i (idx v)) (gadj G u)).
Definition pbSIS_dXY (V : vec) (i j : nat) : Q :=
  let u := node_at i in let v := node_at j in
  let Xinv := fun k => inv0 (psX V k) in
  if is_edge i j then
    - (tr u v + rc v) * psXY V i j + rc u * psYY V i j
    + triples_in Xinv (psXY V) (psXX V) i j
    - triples_out Xinv (psXY V) (psXY V) i j
  else 0.
Definition pbSIS_dXX (V : vec) (i j : nat) : Q :=
  let u := node_at i in let v := node_at j in
  let Xinv := fun k => inv0 (psX V k) in
  if is_edge i j then
    rc u * psXY V j i + rc v * psXY V i j
    - triples_in Xinv (psXY V) (psXX V) i j
    - triples_out Xinv (psXY V) (psXX V) i j
  else 0.
Definition dSIS_pair_based (V : vec) (t : Q) : vec :=
  tab nN (pbSIS_dY V) ++ tab2 nN nN (pbSIS_dXY V) ++ tab2 nN nN (pbSIS_dXX V).
End NodeLevel.

(* ====================================================================== *)
(* heterogeneous pairwise                                                  *)
(* ====================================================================== *)
(* ---- _dSIS_heterogeneous_pairwise_(X, t, Nk, NkNl, tau, gamma, Ks): X = Sk ++ SkSl ++ SkIl;
        NkNl is the k x k array, row-major ---- *)
Section HetPairSIS.
Variables (X Nk NkNl : vec) (tau gamma : Q) (Ks : vec).
Definition hs_kc : nat := length Ks.
Definition hs_Sk (i : nat) : Q := vnth i X.
Definition hs_SkSl (i j : nat) : Q := vnth (hs_kc + i * hs_kc + j) X.
Definition hs_SkIl (i j : nat) : Q := vnth (hs_kc + hs_kc * hs_kc + i * hs_kc + j) X.
Definition hs_Ik (i : nat) : Q := vnth i Nk - hs_Sk i.
Definition hs_SkI (i : nat) : Q := sumn hs_kc (fun j => hs_SkIl i j).                (* SkIl.sum(1) *)
Definition hs_IkIl (i j : nat) : Q := vnth (i * hs_kc + j) NkNl - hs_SkSl i j - hs_SkIl i j - hs_SkIl j i.
Definition hs_kxSk (i : nat) : Q := guard0 (vnth i Ks * (1 * hs_Sk i)).             (* kxSk[kxSk==0] = 1 *)
Definition hs_SkSlI (i j : nat) : Q := hs_SkSl i j * (vnth j Ks - 1) * hs_SkI j / hs_kxSk j.
Definition hs_ISkIl (i j : nat) : Q := hs_SkI i * (vnth i Ks - 1) * hs_SkIl i j / hs_kxSk i.
Definition hs_dSk (i : nat) : Q := gamma * hs_Ik i - tau * hs_SkI i.
Definition hs_dSkSl (i j : nat) : Q :=
  gamma * (hs_SkIl i j + hs_SkIl j i) - tau * (hs_SkSlI i j + hs_SkSlI j i).
Definition hs_dSkIl (i j : nat) : Q :=
  gamma * (hs_IkIl i j - hs_SkIl i j) + tau * (hs_SkSlI i j - hs_ISkIl i j - hs_SkIl i j).
Definition dSIS_heterogeneous_pairwise (t : Q) : vec :=
  tab hs_kc hs_dSk ++ tab2 hs_kc hs_kc hs_dSkSl ++ tab2 hs_kc hs_kc hs_dSkIl.
End HetPairSIS.

(* ---- _dSIR_heterogeneous_pairwise_(X, t, tau, gamma, Nk, Ks): X = Sk ++ Ik ++ SkSl ++ SkIl ---- *)
Section HetPairSIR.
Variables (X : vec) (tau gamma : Q) (Nk Ks : vec).
Definition hr_kc : nat := length Ks.
Definition hr_Sk (i : nat) : Q := vnth i X.
Definition hr_Ik (i : nat) : Q := vnth (hr_kc + i) X.
Definition hr_SkSl (i j : nat) : Q := vnth (2 * hr_kc + i * hr_kc + j) X.
Definition hr_SkIl (i j : nat) : Q := vnth (2 * hr_kc + hr_kc * hr_kc + i * hr_kc + j) X.
Definition hr_SkI (i : nat) : Q := sumn hr_kc (fun j => hr_SkIl i j).
Definition hr_den (i : nat) : Q := guard0 (1 * vnth i Ks) * guard0 (1 * hr_Sk i).   (* tmpKs * tmpSk *)
Definition hr_SkSlI (i j : nat) : Q := hr_SkSl i j * (vnth j Ks - 1) * hr_SkI j / hr_den j.
Definition hr_ISkIl (i j : nat) : Q := hr_SkI i * (vnth i Ks - 1) * hr_SkIl i j / hr_den i.
Definition hr_dSk (i : nat) : Q := - tau * hr_SkI i.
Definition hr_dIk (i : nat) : Q := tau * hr_SkI i - gamma * hr_Ik i.
Definition hr_dSkSl (i j : nat) : Q := - tau * (hr_SkSlI i j + hr_SkSlI j i).
Definition hr_dSkIl (i j : nat) : Q :=
  - gamma * hr_SkIl i j + tau * (hr_SkSlI i j - hr_ISkIl i j - hr_SkIl i j).
Definition dSIR_heterogeneous_pairwise (t : Q) : vec :=
  tab hr_kc hr_dSk ++ tab hr_kc hr_dIk ++ tab2 hr_kc hr_kc hr_dSkSl ++ tab2 hr_kc hr_kc hr_dSkIl.
End HetPairSIR.

(* ====================================================================== *)
(* effective degree                                                        *)
(* ====================================================================== *)
(* ---- _dSIS_effective_degree_(X, t, original_shape = (r, c), tau, gamma): X = Ssi ++ Isi ---- *)
Section EffDegSIS.
Variables (X : vec) (r c : nat) (tau gamma : Q).
Definition es_S (s i : nat) : Q := vnth (s * c + i) X.
Definition es_I (s i : nat) : Q := vnth (r * c + s * c + i) X.
Definition es_ISS : Q := sumn2 r c (fun s i => Qnat i * Qnat s * es_S s i).
Definition es_SS : Q := sumn2 r c (fun s i => Qnat s * es_S s i).
Definition es_ISI : Q := sumn2 r c (fun s i => Qnat i * (Qnat i - 1) * es_S s i).
Definition es_SI : Q := sumn2 r c (fun s i => Qnat i * es_S s i).
(* A[s-1, i+1], 0 when s == 0 or i+1 == c;  A[s+1, i-1], 0 when i == 0 or s+1 == r *)
Definition sm1ip1 (A : nat -> nat -> Q) (s i : nat) : Q :=
  if (Nat.eqb s 0 || Nat.eqb (i + 1) c)%bool then 0 else A (s - 1)%nat (i + 1)%nat.
Definition sp1im1 (A : nat -> nat -> Q) (s i : nat) : Q :=
  if (Nat.eqb i 0 || Nat.eqb (s + 1) r)%bool then 0 else A (s + 1)%nat (i - 1)%nat.
Definition es_dS (s i : nat) : Q :=
  - tau * Qnat i * es_S s i + gamma * es_I s i
  + gamma * ((Qnat i + 1) * sm1ip1 es_S s i - Qnat i * es_S s i)
  + tau * es_ISS * ((Qnat s + 1) * sp1im1 es_S s i - Qnat s * es_S s i) / es_SS.
Definition es_dI (s i : nat) : Q :=
  tau * Qnat i * es_S s i - gamma * es_I s i
  + gamma * ((Qnat i + 1) * sm1ip1 es_I s i - Qnat i * es_I s i)
  + tau * (es_ISI / es_SI + 1) * ((Qnat s + 1) * sp1im1 es_I s i - Qnat s * es_I s i).
Definition dSIS_effective_degree (t : Q) : vec := tab2 r c es_dS ++ tab2 r c es_dI.
End EffDegSIS.

(* ---- _dSIR_effective_degree_(X, t, N, original_shape = (r, c), tau, gamma): X = Ssi ++ [R] ---- *)
Section EffDegSIR.
Variables (X : vec) (N : Q) (r c : nat) (tau gamma : Q).
Definition er_S (s i : nat) : Q := vnth (s * c + i) X.
Definition er_R : Q := vnth (r * c) X.                                     (* X[-1], len(X) = r*c + 1 *)
Definition er_ISS : Q := sumn2 r c (fun s i => Qnat i * Qnat s * er_S s i).
Definition er_SS : Q := sumn2 r c (fun s i => Qnat s * er_S s i).
Definition sip1 (A : nat -> nat -> Q) (s i : nat) : Q :=
  if Nat.eqb (i + 1) c then 0 else A s (i + 1)%nat.
Definition er_dS (s i : nat) : Q :=
  - tau * Qnat i * er_S s i
  + gamma * ((Qnat i + 1) * sip1 er_S s i - Qnat i * er_S s i)
  + tau * er_ISS * ((Qnat s + 1) * sp1im1 r er_S s i - Qnat s * er_S s i) / er_SS.
Definition er_Stot : Q := sumn2 r c er_S.
Definition er_dR : Q := gamma * (N - er_Stot - er_R).
Definition dSIR_effective_degree (t : Q) : vec := tab2 r c er_dS ++ [er_dR].
End EffDegSIR.

(* ====================================================================== *)
(* uniform entry point of the extracted driver (ocaml/rhs2_driver.ml)      *)
(* ====================================================================== *)
Definition rhs2_node (i : nat) (G : graph) (nodelist : list node) (idx : node -> nat)
           (tr : node -> node -> Q) (rc : node -> Q) (V : vec) (t : Q) : vec :=
  match i with
  | 0%nat => dSIS_individual_based G nodelist idx tr rc V t
  | 1%nat => dSIR_individual_based G nodelist idx tr rc V t
  | 2%nat => dSIS_pair_based G nodelist idx tr rc V t
  | 3%nat => dSIR_pair_based G nodelist idx tr rc V t
  | _ => []
  end.
Definition rhs2_class (i : nat) (X Nk NkNl Ks : vec) (N tau gamma t : Q) (r c : nat) : vec :=
  match i with
  | 4%nat => dSIS_heterogeneous_pairwise X Nk NkNl tau gamma Ks t
  | 5%nat => dSIR_heterogeneous_pairwise X tau gamma Ks t
  | 6%nat => dSIS_effective_degree X r c tau gamma t
  | 7%nat => dSIR_effective_degree X N r c tau gamma t
  | _ => []
  end.
