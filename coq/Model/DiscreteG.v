(* The loop of discrete_SIR (test_recovery = None) resp. basic_discrete_SIS instrumented with a
   ghost: next to the output it returns the list of the successive sets `infecteds` after each
   pass of the while loop (the generation sets A_1, A_2, ...), which the plain output
   (rows = counts only) does not expose.  Forgetting the ghost gives back dloop / sis_loop of
   Model/Discrete.v (Proofs/ChainP.v dloopG_fst, sis_loopG_fst): same program, same draws. *)
From EoNV Require Import Prelude Samp Graph Discrete.

Section G.
Variable g : graph.
Variable R : rules.
Variable ord : nat -> list node -> list node.
Variable tmin : Q.
Variable tmax : xtime.
Variable full : bool.

Fixpoint dloopG (i0 r0 : list node) (fuel : nat) (k : nat) (t : Q) (s : dst) : samp (dout * list (list node)) :=
  if nonempty (d_infs s) && xlt t tmax then
    match fuel with
    | O => Fail OutOfFuel
    | S f => bind (step g R None ord tmax full k t s) (fun s' =>
             bind (dloopG i0 r0 f (S k) (t + 1) s') (fun x => Ret (fst x, d_infs s' :: snd x)))
    end
  else Ret (finish g tmin full i0 r0 s, []).

Fixpoint sis_loopG (i0 : list node) (fuel : nat) (k : nat) (t : Q) (s : sst) : samp (dout * list (list node)) :=
  if nonempty (s_infs s) && xlt t tmax then
    match fuel with
    | O => Fail OutOfFuel
    | S f => bind (sis_step g R ord tmax full k t s) (fun s' =>
             bind (sis_loopG i0 f (S k) (t + 1) s') (fun x => Ret (fst x, s_infs s' :: snd x)))
    end
  else Ret (sis_finish g tmin full i0 s, []).

End G.

(* basic_discrete_SIR / basic_discrete_SIS (initial_infecteds given) with the ghost *)
Definition basic_discrete_SIR_G (g : graph) (p : Q) ord (i0 : list node) (r0o : option (list node))
    tmin tmax full fuel : samp (dout * list (list node)) :=
  dloopG g (simple_rules p) ord tmin tmax full i0 (opt_list r0o) fuel O tmin
         (init_state g tmin full i0 (opt_list r0o)).
Definition basic_discrete_SIS_G (g : graph) (p : Q) ord (i0 : list node) tmin tmax full fuel
  : samp (dout * list (list node)) :=
  sis_loopG g (simple_rules p) ord tmin tmax full i0 fuel O tmin (sis_init g tmin full i0).

(* the event "the generation sets are A_1, ..., A_K and then the loop stopped": sets are compared
   on the nodes of the graph *)
Definition set_is (g : graph) (A G : list node) : bool :=
  forallb (fun v => Bool.eqb (mem v G) (mem v A)) (gnodes g).
Fixpoint gens_are (g : graph) (As gens : list (list node)) : bool :=
  match As, gens with
  | [], [] => true
  | A :: As', G :: gens' => set_is g A G && gens_are g As' gens'
  | _, _ => false
  end.
