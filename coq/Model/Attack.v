(* Hand-written L2 models of the code AROUND the translated loops of
   Attack_rate_discrete (analytic.py:4687), Attack_rate_cts_time (:4794),
   Epi_Prob_discrete (:4547), EBCM_discrete (:4946) and
   EBCM_discrete_uniform_introduction (:5118): argument defaulting and the
   closures psihat / psihatPrime over the degree distribution.  The loops
   themselves are the GENERATED definitions of Gen/Rhs.v.  No proofs here. *)
From EoNV Require Import Prelude Vec Aux Rhs.

(* Pk : dict k -> probability, in dict order *)
Definition pkdict := list (nat * Q).

(* def psihat(x): return sum(Pk[k]*Sk0[k]*x**k for k in Pk.keys())
   def psihatPrime(x): return sum(k*Pk[k]*Sk0[k]*x**(k-1) for k in Pk.keys()) *)
Definition psihat_of (pk : pkdict) (sk0 : nat -> Q) (x : Q) : Q :=
  sumQ (map (fun kp => snd kp * sk0 (fst kp) * qpow x (Z.of_nat (fst kp))) pk).
Definition psihatP_of (pk : pkdict) (sk0 : nat -> Q) (x : Q) : Q :=
  sumQ (map (fun kp => Qnat (fst kp) * snd kp * sk0 (fst kp) * qpow x (Z.of_nat (fst kp) - 1)) pk).
(* sum(k*Pk[k] for k in Pk.keys()) *)
Definition kave_of (pk : pkdict) : Q := sumQ (map (fun kp => Qnat (fst kp) * snd kp) pk).

(* Epi_Prob_discrete: alpha = 1-p; repeat alpha = 1-p + p*psiPrime(alpha)/k_ave; 1 - psi(alpha) *)
Definition epi_prob_discrete (pk : pkdict) (p : Q) (n : nat) : Q :=
  let psi := psihat_of pk (fun _ => 1) in
  let psiP := psihatP_of pk (fun _ => 1) in
  let k_ave := psiP 1 in
  1 - psi (iter n (fun alpha => 1 - p + p * psiP alpha / k_ave) (1 - p)).

(* Attack_rate_discrete(Pk, p, rho, number_its=n) with Sk0=None, phiS0=None, phiR0=0 *)
Definition attack_rate_discrete (pk : pkdict) (p : Q) (rho : option Q) (n : nat) : Q :=
  let go (r : Q) :=
    let sk0 := fun _ : nat => 1 - r in
    let ph := psihat_of pk sk0 in
    let php := psihatP_of pk sk0 in
    let phiS0 := php 1 / kave_of pk in
    Attack_rate_discrete_loop p 0 phiS0 php ph n in
  match rho with
  | None => epi_prob_discrete pk p n
  | Some r => if Qeq_bool r 0 then epi_prob_discrete pk p n else go r
  end.

(* Attack_rate_cts_time(Pk, tau, gamma, number_its=n, rho) with Sk0=None, phiS0=None, phiR0=0 *)
Definition attack_rate_cts_time (pk : pkdict) (tau gamma : Q) (rho : option Q) (n : nat) : Q :=
  let r := match rho with None => 0 | Some r => r end in
  let sk0 := fun _ : nat => 1 - r in
  let ph := psihat_of pk sk0 in
  let php := psihatP_of pk sk0 in
  let phiS0 := php 1 / kave_of pk in
  Attack_rate_cts_time_loop gamma tau 0 phiS0 php ph n.

(* EBCM_discrete: rows (theta, R, S, I) for t = tmin .. tmin+nsteps *)
Definition ebcm_discrete_row (N : Q) (psihat psihatPrime : Q -> Q) (p phiS0 phiR0 R0 : Q) (t : nat) : Q * Q * Q * Q :=
  EBCM_discrete_loop R0 N psihat p phiR0 phiS0 psihatPrime t.
Definition ebcm_discrete_rows (N : Q) (psihat psihatPrime : Q -> Q) (p phiS0 phiR0 R0 : Q) (nsteps : nat) : list (Q * Q * Q * Q) :=
  map (ebcm_discrete_row N psihat psihatPrime p phiS0 phiR0 R0) (seq 0 (S nsteps)).

(* EBCM_discrete_uniform_introduction(N, psi, psiPrime, p, rho): psihat = (1-rho) psi, phiS0 = 1-rho *)
Definition ebcm_discrete_uniform_row (N : Q) (psi psiPrime : Q -> Q) (p rho : Q) (t : nat) : Q * Q * Q * Q :=
  ebcm_discrete_row N (fun x => (1 - rho) * psi x) (fun x => (1 - rho) * psiPrime x) p (1 - rho) 0 0 t.
