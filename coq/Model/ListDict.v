(* L2 model of EoN.simulation._ListDict_ (simulation.py:205-361), written as the
   code does it: item list, position map, weight map, tracked maximum with its
   (mis)count, running total.  L1 spec: a finite map key -> weight. *)
From EoNV Require Import Prelude Samp.

Section LD.
Variable K : Type.
Variable Keqb : K -> K -> bool.

Definition fupd {V} (f : K -> V) (k : K) (v : V) : K -> V :=
  fun x => if Keqb x k then v else f x.

Record ld := mkLD {
  weighted : bool;
  items : list K;
  pos : K -> option nat;          (* item_to_position *)
  wt : K -> option Q;             (* weight: a defaultdict(int); None = key absent *)
  maxw : Q;                       (* max_weight *)
  maxc : Z;                       (* max_weight_count *)
  total : Q                       (* _total_weight *)
}.

Definition ld_empty (w : bool) : ld :=
  mkLD w [] (fun _ => None) (fun _ => None) 0 0%Z 0.

Definition contains (s : ld) (k : K) : bool :=
  match pos s k with Some _ => true | None => false end.

(* self.weight[item] on a defaultdict(int): reading inserts 0 *)
Definition wread (s : ld) (k : K) : Q := match wt s k with Some w => w | None => 0 end.

Fixpoint set_nth (l : list K) (i : nat) (x : K) : list K :=
  match l, i with
  | [], _ => []
  | _ :: t, O => x :: t
  | h :: t, S j => h :: set_nth t j x
  end.

Definition qmax (a b : Q) : Q := if Qltb a b then b else a.
Definition list_max (l : list Q) : Q :=
  match l with [] => 0 | x :: t => fold_left qmax t x end.
Definition count_eq (m : Q) (l : list Q) : Z :=
  Z.of_nat (length (filter (fun w => Qeqb w m) l)).

(* _update_max_weight: Counter(self.weight.values()) *)
Definition recompute_max (s : ld) (its : list K) (wt' : K -> option Q) : Q * Z :=
  let ws := map (fun k => match wt' k with Some w => w | None => 0 end) its in
  let m := list_max ws in (m, count_eq m ws).

(* update(item, weight_increment)  simulation.py:279-309 *)
Definition ld_update (s : ld) (k : K) (inc : option Q) : result ld :=
  match inc with
  | Some d =>
    if negb (weighted s) then Err TypeErr   (* no self.weight attribute: AttributeError *)
    else
      let w0 := wread s k in
      let w1 := w0 + d in
      let '(mw, mc) :=
        if Qltb 0 d || negb (Qeqb w0 (maxw s)) then
          if Qltb (maxw s) w1 then (w1, 1%Z)
          else if Qeqb w1 (maxw s) then (maxw s, (maxc s + 1)%Z)
          else (maxw s, maxc s)
        else (* non-positive increment on an item at the maximum: the count is
                decremented twice and [self._update_max_weight] is not called *)
          (maxw s, (maxc s - 2)%Z) in
      let wt' := fupd (wt s) k (Some w1) in
      if contains s k then
        Ok (mkLD (weighted s) (items s) (pos s) wt' mw mc (total s + d))
      else
        Ok (mkLD (weighted s) (items s ++ [k]) (fupd (pos s) k (Some (length (items s))))
                 wt' mw mc (total s + d))
  | None =>
    if weighted s then Err PyException
    else if contains s k then Ok s
    else Ok (mkLD (weighted s) (items s ++ [k]) (fupd (pos s) k (Some (length (items s))))
                  (wt s) (maxw s) (maxc s) (total s))
  end.

(* remove(choice)  simulation.py:311-328 *)
Definition ld_remove (s : ld) (k : K) : result ld :=
  match pos s k with
  | None => Err KeyErr
  | Some p =>
    match rev (items s) with
    | [] => Err IndexErr
    | last :: rest_rev =>
      let its0 := rev rest_rev in                     (* items.pop() *)
      let pos0 := fupd (pos s) k None in              (* item_to_position.pop(choice) *)
      let '(its1, pos1) :=
        if Nat.eqb p (length its0) then (its0, pos0)
        else (set_nth its0 p last, fupd pos0 last (Some p)) in
      if weighted s then
        match wt s k with
        | None => Err KeyErr
        | Some w =>
          let wt1 := fupd (wt s) k None in
          (* self._total_weight -= weight; if not self.items: self._total_weight = 0 *)
          let tot := match its1 with [] => 0 | _ => total s - w end in
          if Qeqb w (maxw s) then
            let mc := (maxc s - 1)%Z in
            if Z.eqb mc 0 && negb (Nat.eqb (length its1) 0) then
              let '(m, c) := recompute_max s its1 wt1 in
              Ok (mkLD true its1 pos1 wt1 m c tot)
            else Ok (mkLD true its1 pos1 wt1 (maxw s) mc tot)
          else Ok (mkLD true its1 pos1 wt1 (maxw s) (maxc s) tot)
        end
      else Ok (mkLD false its1 pos1 (wt s) (maxw s) (maxc s) (total s))
    end
  end.

(* insert(item, weight)  simulation.py:261-276: replace the weight; weight 0 removes *)
Definition ld_insert (s : ld) (k : K) (w : option Q) : result ld :=
  rbind (if contains s k then ld_remove s k else Ok s) (fun s1 =>
  match w with
  | Some q => if Qeqb q 0 then Ok s1 else ld_update s1 k w
  | None => ld_update s1 k None
  end).

Definition ld_total_weight (s : ld) : Q :=
  if weighted s then total s else Qnat (length (items s)).

Definition ld_len (s : ld) : nat := length (items s).

(* choose_random as the code runs it: uniform pick, accept iff u < w/max_weight.
   [ld_choose_step s r u] is one round of the loop on the draws (rank r, u). *)
Inductive round_result := Accept (k : K) | Reject | Crash (e : err).
Definition ld_choose_round (s : ld) (r : nat) (u : Q) : round_result :=
  match nth_error (items s) r with
  | None => Crash IndexErr
  | Some k =>
    if weighted s then
      if Qeqb (maxw s) 0 then Crash ZeroDivision
      else if Qltb u (wread s k / maxw s) then Accept k else Reject
    else Accept k
  end.

(* ---------------- L1 specification: a finite weighted map ---------------- *)
Definition wmap := K -> option Q.
Definition sp_empty : wmap := fun _ => None.
Definition sp_update (m : wmap) (k : K) (d : Q) : wmap :=
  fupd m k (Some (match m k with Some w => w + d | None => d end)).
Definition sp_add_unweighted (m : wmap) (k : K) : wmap :=
  match m k with Some _ => m | None => fupd m k (Some 1) end.
Definition sp_remove (m : wmap) (k : K) : wmap := fupd m k None.
Definition sp_insert (m : wmap) (k : K) (w : Q) : wmap :=
  if Qeqb w 0 then sp_remove m k else fupd m k (Some w).

(* abstraction: in the unweighted case every present item has weight 1 *)
Definition abs (s : ld) : wmap :=
  fun k => match pos s k with
           | None => None
           | Some _ => if weighted s then Some (wread s k) else Some 1
           end.

(* operations as data, for histories *)
Inductive op :=
| OpInsert (k : K) (w : Q)      (* insert(k, weight=w) on a weighted structure *)
| OpUpdate (k : K) (d : Q)      (* update(k, weight_increment=d) *)
| OpRemove (k : K)
| OpAdd (k : K).                (* update(k) / insert(k) on an unweighted structure *)

Definition ld_step (s : ld) (o : op) : result ld :=
  match o with
  | OpInsert k w => ld_insert s k (Some w)
  | OpUpdate k d => ld_update s k (Some d)
  | OpRemove k => ld_remove s k
  | OpAdd k => ld_update s k None
  end.

Fixpoint ld_run (s : ld) (ops : list op) : result ld :=
  match ops with
  | [] => Ok s
  | o :: ops' => rbind (ld_step s o) (fun s' => ld_run s' ops')
  end.

Definition sp_step (m : wmap) (o : op) : wmap :=
  match o with
  | OpInsert k w => sp_insert m k w
  | OpUpdate k d => sp_update m k d
  | OpRemove k => sp_remove m k
  | OpAdd k => sp_add_unweighted m k
  end.

End LD.

Arguments mkLD {K}. Arguments weighted {K}. Arguments items {K}. Arguments pos {K}.
Arguments wt {K}. Arguments maxw {K}. Arguments maxc {K}. Arguments total {K}.
Arguments ld_empty {K}. Arguments OpInsert {K}. Arguments OpUpdate {K}.
Arguments OpRemove {K}. Arguments OpAdd {K}. Arguments Accept {K}. Arguments Reject {K}. Arguments Crash {K}.
