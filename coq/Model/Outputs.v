(* L2 models, written as the code is, of the initial-vector assembly and output assembly of the ODE
   entry points of EoN/analytic.py that have no *_from_graph model in Model/Wrappers.v (property C06):
   the solver-level functions (SIS/SIR_homogeneous_meanfield ... SIR_compact_effective_degree, EBCM) and
   the node-level systems (SIS/SIR_individual_based, SIS/SIR_pair_based and their *_pure_IC wrappers).
   Model/Outputs2.v continues with the EBCM variants, the discrete-time EBCM functions and the
   Attack_rate_*_from_graph wrappers.

   The numerical integrator is abstract: scipy.integrate.odeint(f, X0, times) / _my_odeint_ is a function
   `msolver` from (initial vector, times) to a matrix (list of rows).  What is known about it is stated as
   hypotheses of the theorems (Proofs/OutputsP.v, `msolver_ok`): as many rows as times, every row as wide
   as X0, row 0 = X0.  An entry point is (1) times = linspace(tmin, tmax, tcount), (2) its initial vector
   X0, (3) a call of the solver, (4) the assembly of the returned tuple from the matrix (`X.T[i]` = column i
   of the matrix = component i of every row).  For the 16 solver-level functions the assembly (4) is the
   definition of Model/Wrappers.v that the *_from_graph models already use (applied to a solver that
   returns the given matrix); X0 is written out here and proved to be the vector that definition hands to
   its solver (Props/C06out.v, `*_X0_is_solver_argument`).  Executable definitions only. *)
From EoNV Require Import Prelude Graph Aux Vec IC Wrappers Rhs2D C14xDef.

(* ---------------- the solver and the time grid ---------------- *)
Definition msolver := vec -> list Q -> list vec.
(* np.linspace(tmin, tmax, n): start + arange(n)*step with step = (stop-start)/(n-1), last point set to stop *)
Definition linspace (tmin tmax : Q) (n : nat) : list Q :=
  match n with
  | O => []
  | S O => [tmin]
  | _ => map (fun j => if Nat.eqb j (n - 1) then tmax else tmin + Qnat j * ((tmax - tmin) / Qnat (n - 1))) (seq 0 n)
  end.
Definition traj_of (X : list vec) : traj := fun j => nth j X [].

(* ---------------- names of returned series, returned (materialised) series ---------------- *)
Inductive oname := oS | oI | oR | oSI | oSS | oII | oSk | oIk | oRk | oSkSl | oSkIl | oIkIl | oSsi | oIsi | oSkappa | oTheta
                 | oSs | oIs | oRs | oXs | oYs | oZs | oXY | oXX.
Definition on_of (n : sname) : oname :=
  match n with
  | nS => oS | nI => oI | nR => oR | nSI => oSI | nSS => oSS | nII => oII | nSk => oSk | nIk => oIk | nRk => oRk
  | nSkSl => oSkSl | nSkIl => oSkIl | nIkIl => oIkIl | nSsi => oSsi | nIsi => oIsi | nSkappa => oSkappa | nTheta => oTheta
  end.
Definition olist := list (oname * series).
Definition lift (o : output) : olist := map (fun ns => (on_of (fst ns), snd ns)) o.

(* a returned array: one entry per row of the solver's matrix (time-major; the code returns vector and matrix
   series with the time index last - the harness transposes) *)
Inductive rser := RS (l : list Q) | RV (l : list vec) | RM (l : list (list vec)).
Definition mat (n : nat) (s : series) : rser :=
  match s with
  | Sc f => RS (map f (seq 0 n))
  | Ve f => RV (map f (seq 0 n))
  | Ma f => RM (map f (seq 0 n))
  end.
Record oret := mkRet { r_times : list Q; r_X0 : vec; r_series : list (oname * rser) }.

(* an entry point after its argument checks: the initial vector and the assembly of the outputs *)
Definition emodel := result (vec * (traj -> result olist)).
Definition run_ode (x0 : vec) (asm : traj -> result olist) (tmin tmax : Q) (tcount : nat) (sv : msolver) : result oret :=
  let ts := linspace tmin tmax tcount in
  let X := sv x0 ts in
  rbind (asm (traj_of X)) (fun o => Ok (mkRet ts x0 (map (fun ns => (fst ns, mat (length X) (snd ns))) o))).
Definition run_model (m : emodel) (tmin tmax : Q) (tcount : nat) (sv : msolver) : result oret :=
  rbind m (fun xa => run_ode (fst xa) (snd xa) tmin tmax tcount sv).

(* reading a returned tuple *)
Definition oname_eqb (a b : oname) : bool :=
  match a, b with
  | oS, oS | oI, oI | oR, oR | oSI, oSI | oSS, oSS | oII, oII | oSk, oSk | oIk, oIk | oRk, oRk
  | oSkSl, oSkSl | oSkIl, oSkIl | oIkIl, oIkIl | oSsi, oSsi | oIsi, oIsi | oSkappa, oSkappa | oTheta, oTheta
  | oSs, oSs | oIs, oIs | oRs, oRs | oXs, oXs | oYs, oYs | oZs, oZs | oXY, oXY | oXX, oXX => true
  | _, _ => false
  end.
Fixpoint oget {A} (n : oname) (o : list (oname * A)) : option A :=
  match o with [] => None | (m, s) :: t => if oname_eqb n m then Some s else oget n t end.
Definition names {A} (o : list (oname * A)) : list oname := map fst o.
(* value of series n at row j of a returned tuple *)
Definition rrow (j : nat) (r : rser) : val :=
  match r with RS l => VS (nth j l 0) | RV l => VV (nth j l []) | RM l => VM (nth j l []) end.
Definition rlen (r : rser) : nat := match r with RS l => length l | RV l => length l | RM l => length l end.
Definition atj (j : nat) (s : series) : val :=
  match s with Sc f => VS (f j) | Ve f => VV (f j) | Ma f => VM (f j) end.

(* ======================  the 16 solver-level functions of Model/Wrappers.v  ====================== *)
(* each: the vector handed to odeint, and the assembly = the Wrappers definition on the returned matrix *)
Definition via (o : output) : result olist := Ok (lift o).
Definition viar (o : result output) : result olist := rbind o (fun x => Ok (lift x)).

Definition X0_SIS_homogeneous_meanfield (S0 I0 : Q) : vec := [S0; I0].
Definition m_SIS_homogeneous_meanfield (S0 I0 : Q) : emodel :=
  Ok (X0_SIS_homogeneous_meanfield S0 I0, fun x => via (SIS_homogeneous_meanfield S0 I0 (fun _ => x))).

Definition X0_SIR_homogeneous_meanfield (S0 I0 R0 : Q) : vec := [S0; I0].
Definition m_SIR_homogeneous_meanfield (S0 I0 R0 : Q) : emodel :=
  Ok (X0_SIR_homogeneous_meanfield S0 I0 R0, fun x => via (SIR_homogeneous_meanfield S0 I0 R0 (fun _ => x))).

Definition X0_SIS_homogeneous_pairwise (S0 I0 SI0 SS0 : Q) : vec := [S0; SI0; SS0].
Definition m_SIS_homogeneous_pairwise (S0 I0 SI0 SS0 n : Q) (full : bool) : emodel :=
  Ok (X0_SIS_homogeneous_pairwise S0 I0 SI0 SS0, fun x => viar (SIS_homogeneous_pairwise S0 I0 SI0 SS0 n full (fun _ => x))).

Definition X0_SIR_homogeneous_pairwise (S0 I0 R0 SI0 SS0 : Q) : vec := [S0; I0; SI0; SS0].
Definition m_SIR_homogeneous_pairwise (S0 I0 R0 SI0 SS0 n : Q) (full : bool) : emodel :=
  Ok (X0_SIR_homogeneous_pairwise S0 I0 R0 SI0 SS0, fun x => viar (SIR_homogeneous_pairwise S0 I0 R0 SI0 SS0 n full (fun _ => x))).

Definition X0_SIS_heterogeneous_meanfield (Sk0 Ik0 : vec) : vec := Sk0 ++ Ik0.
Definition m_SIS_heterogeneous_meanfield (Sk0 Ik0 : vec) (full : bool) : emodel :=
  Ok (X0_SIS_heterogeneous_meanfield Sk0 Ik0, fun x => viar (SIS_heterogeneous_meanfield Sk0 Ik0 full (fun _ => x))).

Definition X0_SIR_heterogeneous_meanfield (Sk0 Ik0 Rk0 : vec) : vec := 1 :: Rk0.
Definition m_SIR_heterogeneous_meanfield (Sk0 Ik0 Rk0 : vec) (full : bool) : emodel :=
  Ok (X0_SIR_heterogeneous_meanfield Sk0 Ik0 Rk0, fun x => viar (SIR_heterogeneous_meanfield Sk0 Ik0 Rk0 full (fun _ => x))).

(* np.concatenate((Sk0[:,None], SkSl0, SkIl0), axis=0).T[0] after SkSl0.shape = (kcount**2, 1): row-major *)
Definition X0_SIS_heterogeneous_pairwise (Sk0 : vec) (SkSl0 SkIl0 : list vec) : vec := Sk0 ++ flatten SkSl0 ++ flatten SkIl0.
Definition m_SIS_heterogeneous_pairwise (Sk0 Ik0 : vec) (SkSl0 SkIl0 IkIl0 : list vec) (full : bool) : emodel :=
  Ok (X0_SIS_heterogeneous_pairwise Sk0 SkSl0 SkIl0,
      fun x => viar (SIS_heterogeneous_pairwise Sk0 Ik0 SkSl0 SkIl0 IkIl0 full (fun _ => x))).

Definition X0_SIR_heterogeneous_pairwise (Sk0 Ik0 : vec) (SkSl0 SkIl0 : list vec) : vec :=
  Sk0 ++ Ik0 ++ flatten SkSl0 ++ flatten SkIl0.
(* Ks defaults to np.array(range(len(Sk0))); only len(Ks) reaches the output layer *)
Definition m_SIR_heterogeneous_pairwise (Sk0 Ik0 Rk0 : vec) (SkSl0 SkIl0 : list vec) (Ks : option (list nat)) (full : bool) : emodel :=
  let Ks' := match Ks with Some k => k | None => seq 0 (length Sk0) end in
  Ok (X0_SIR_heterogeneous_pairwise Sk0 Ik0 SkSl0 SkIl0,
      fun x => viar (SIR_heterogeneous_pairwise Sk0 Ik0 Rk0 SkSl0 SkIl0 Ks' full (fun _ => x))).

Definition X0_SIS_compact_pairwise (Sk0 : vec) (SI0 SS0 : Q) : vec := Sk0 ++ [SI0; SS0].
Definition m_SIS_compact_pairwise (Sk0 Ik0 : vec) (SI0 SS0 II0 : Q) (full : bool) : emodel :=
  Ok (X0_SIS_compact_pairwise Sk0 SI0 SS0, fun x => via (SIS_compact_pairwise Sk0 Ik0 SI0 SS0 II0 full (fun _ => x))).
(* SIS_compact_effective_degree forwards its eleven arguments positionally to SIS_compact_pairwise *)
Definition m_SIS_compact_effective_degree := m_SIS_compact_pairwise.

Definition X0_SIR_compact_pairwise (Sk0 : vec) (R0 SS0 SI0 : Q) : vec := Sk0 ++ [SS0; SI0; R0].
Definition m_SIR_compact_pairwise (Sk0 : vec) (I0 R0 SS0 SI0 : Q) (full : bool) : emodel :=
  Ok (X0_SIR_compact_pairwise Sk0 R0 SS0 SI0, fun x => via (SIR_compact_pairwise Sk0 I0 R0 SS0 SI0 full (fun _ => x))).

Definition X0_SIS_super_compact_pairwise (I0 SS0 SI0 II0 : Q) : vec := [I0; SS0; SI0; II0].
Definition m_SIS_super_compact_pairwise (S0 I0 SS0 SI0 II0 : Q) (full : bool) : emodel :=
  Ok (X0_SIS_super_compact_pairwise I0 SS0 SI0 II0, fun x => via (SIS_super_compact_pairwise S0 I0 SS0 SI0 II0 full (fun _ => x))).

Definition X0_SIR_super_compact_pairwise (R0 SS0 SI0 : Q) : vec := [1; SS0; SI0; R0].
Definition m_SIR_super_compact_pairwise (R0 SS0 SI0 N : Q) (psihat : Q -> Q) (full : bool) : emodel :=
  Ok (X0_SIR_super_compact_pairwise R0 SS0 SI0, fun x => via (SIR_super_compact_pairwise R0 SS0 SI0 N psihat full (fun _ => x))).

(* Ssi0.shape = (1, ksq) on a copy: row-major *)
Definition X0_SIS_effective_degree (Ssi0 Isi0 : list vec) : vec := flatten Ssi0 ++ flatten Isi0.
Definition m_SIS_effective_degree (Ssi0 Isi0 : list vec) (full : bool) : emodel :=
  Ok (X0_SIS_effective_degree Ssi0 Isi0, fun x => via (SIS_effective_degree Ssi0 Isi0 full (fun _ => x))).

Definition X0_SIR_effective_degree (Ssi0 : list vec) (R0 : Q) : vec := flatten Ssi0 ++ [R0].
Definition m_SIR_effective_degree (Ssi0 : list vec) (I0 R0 : Q) (full : bool) : emodel :=
  Ok (X0_SIR_effective_degree Ssi0 R0, fun x => via (SIR_effective_degree Ssi0 I0 R0 full (fun _ => x))).

Definition X0_SIR_compact_effective_degree (Skappa0 : vec) (R0 SI0 : Q) : vec := Skappa0 ++ [R0; SI0].
Definition m_SIR_compact_effective_degree (Skappa0 : vec) (I0 R0 SI0 : Q) (full : bool) : emodel :=
  Ok (X0_SIR_compact_effective_degree Skappa0 R0 SI0, fun x => via (SIR_compact_effective_degree Skappa0 I0 R0 SI0 full (fun _ => x))).

Definition X0_EBCM (R0 : Q) : vec := [1; R0].
Definition m_EBCM (N : Q) (psihat : Q -> Q) (R0 : Q) (full : bool) : emodel :=
  Ok (X0_EBCM R0, fun x => via (EBCM N psihat R0 full (fun _ => x))).

(* ======================  node-level systems  ====================== *)
Definition ones (n : nat) : vec := map (fun _ => 1) (seq 0 n).
Definition isNone {A} (o : option A) : bool := negb (isSome o).
Definition nodelist_or (g : graph) (nl : option (list node)) : list node :=
  match nl with Some l => l | None => gnodes g end.                     (* nodelist = G.nodes() *)

(* SIS_individual_based, analytic.py:598-628.  V0 = Y0; Is = Y.T; Ss = np.ones(len(Is))[:,None] - Is;
   return_full_data: (times, Ss, Is), otherwise (times, sum(Ss), sum(Is)) *)
Definition asm_SIS_individual_based (full : bool) (x : traj) : result olist :=
  let Is := fun t => x t in
  let Ss := fun t => vsub (ones (length (x t))) (x t) in
  Ok (if full then [(oSs, Ve Ss); (oIs, Ve Is)] else [(oS, Sc (vsumt Ss)); (oI, Sc (vsumt Is))]).
Definition m_SIS_individual_based (g : graph) (rho : option Q) (Y0 : option vec) (nl : option (list node)) (full : bool) : emodel :=
  if isNone nl && isSome Y0 then Err EoNError else
  let nodelist := nodelist_or g nl in
  match rho, Y0 with
  | None, None => Err EoNError
  | Some _, Some _ => Err EoNError
  | Some r, None => Ok (y0_rho nodelist r, asm_SIS_individual_based full)       (* rho*np.ones(len(nodelist)) *)
  | None, Some y => Ok (y, asm_SIS_individual_based full)
  end.

(* SIR_individual_based, analytic.py:723-767.  V0 = X0 ++ Y0, N = len(X0); Ss = V.T[:N]; Is = V.T[N:];
   Rs = np.ones(N)[:,None] - Ss - Is *)
Definition asm_SIR_individual_based (N : nat) (full : bool) (x : traj) : result olist :=
  let Ss := slc x 0 N in
  let Is := sfrom x N in
  let Rs := fun t => vsub (vsub (ones N) (Ss t)) (Is t) in
  Ok ([(oS, Sc (vsumt Ss)); (oI, Sc (vsumt Is)); (oR, Sc (vsumt Rs))] ++
      (if full then [(oSs, Ve Ss); (oIs, Ve Is); (oRs, Ve Rs)] else [])).
Definition m_SIR_individual_based (g : graph) (rho : option Q) (Y0 X0 : option vec) (nl : option (list node)) (full : bool) : emodel :=
  if isNone rho && isNone Y0 then Err EoNError else
  if isSome X0 && isNone Y0 then Err EoNError else
  if isNone nl && isSome Y0 then Err EoNError else
  let nodelist := nodelist_or g nl in
  if isSome rho && isSome Y0 then Err EoNError else
  let Y0v := match rho, Y0 with Some r, _ => y0_rho nodelist r | None, Some y => y | None, None => [] end in
  let X0v := match X0 with Some x => x | None => x0_of Y0v end in                 (* X0 = 1 - Y0 *)
  Ok (X0v ++ Y0v, asm_SIR_individual_based (length X0v) full).

(* *_pure_IC: Y0 = np.array([1 if u in initial_infecteds else 0 for u in nodelist]); forwarded by keyword *)
Definition m_SIS_individual_based_pure_IC (g : graph) (I0 : list node) (nl : option (list node)) (full : bool) : emodel :=
  let nodelist := nodelist_or g nl in
  m_SIS_individual_based g None (Some (y0_set nodelist I0)) (Some nodelist) full.
Definition m_SIR_individual_based_pure_IC (g : graph) (I0 : list node) (R0 : option (list node)) (nl : option (list node)) (full : bool) : emodel :=
  let nodelist := nodelist_or g nl in
  let Y0 := y0_set nodelist I0 in
  let X0 := match R0 with None => x0_of Y0 | Some r => x0_sets nodelist I0 r end in
  m_SIR_individual_based g None (Some Y0) (Some X0) (Some nodelist) full.

(* ---- pair based ---- *)
(* X0[:,None]*Y0[None,:] *)
Definition outer (a b : vec) : list vec := map (fun x => map (fun y => x * y) b) a.
(* M * A with A = nx.adjacency_matrix(G, nodelist=list(nodelist), weight=None).toarray() *)
Definition amask (g : graph) (nodelist : list node) (M : list vec) : list vec :=
  map (fun i => map (fun j => if is_edge g nodelist i j then vnth j (mrow M i) else 0) (seq 0 (nN nodelist))) (seq 0 (nN nodelist)).
(* XY0.shape != (N, N) *)
Definition shape_is (n : nat) (M : list vec) : bool :=
  Nat.eqb (length M) n && forallb (fun r => Nat.eqb (length r) n) M.

(* SIS_pair_based, analytic.py:1233-1294 *)
Definition asm_SIS_pair_based (N : nat) (full : bool) (x : traj) : result olist :=
  let Ys := slc x 0 N in
  let Xs := fun t => vsub (ones N) (Ys t) in
  let XY := fun t => reshape N N (slc x N (N + N * N) t) in
  let XX := fun t => reshape N N (sfrom x (N + N * N) t) in
  Ok ([(oS, Sc (vsumt Xs)); (oI, Sc (vsumt Ys))] ++
      (if full then [(oXs, Ve Xs); (oYs, Ve Ys); (oXY, Ma XY); (oXX, Ma XX)] else [])).
Definition m_SIS_pair_based (g : graph) (rho : option Q) (nl : option (list node)) (Y0 : option vec) (XY0 XX0 : option (list vec)) (full : bool) : emodel :=
  let N := length (gnodes g) in
  let rho' := match Y0, rho with None, None => Some (1 / gN g) | _, _ => rho end in
  if isSome Y0 && isSome rho' then Err EoNError else
  if isSome Y0 && isNone nl then Err EoNError else
  let nodelist := nodelist_or g nl in
  let Y0v := match Y0, rho' with Some y, _ => y | None, Some r => map (fun _ => r) (seq 0 N) | None, None => [] end in
  if negb (Nat.eqb (length Y0v) N) then Err EoNError else
  let X0v := x0_of Y0v in
  let XY := match XY0 with None => outer X0v Y0v | Some m => m end in
  if negb (shape_is N XY) then Err EoNError else
  let XX := match XX0 with None => outer X0v X0v | Some m => m end in
  if negb (shape_is N XX) then Err EoNError else
  Ok (Y0v ++ flatten (amask g nodelist XY) ++ flatten (amask g nodelist XX), asm_SIS_pair_based N full).

(* SIR_pair_based, analytic.py:1539-1606 *)
Definition asm_SIR_pair_based (N : nat) (full : bool) (x : traj) : result olist :=
  let Xs := slc x 0 N in
  let Ys := slc x N (2 * N) in
  let Zs := fun t => vsub (vsub (ones N) (Xs t)) (Ys t) in
  let XY := fun t => reshape N N (slc x (2 * N) (2 * N + N * N) t) in
  let XX := fun t => reshape N N (sfrom x (2 * N + N * N) t) in
  Ok ([(oS, Sc (vsumt Xs)); (oI, Sc (vsumt Ys)); (oR, Sc (vsumt Zs))] ++
      (if full then [(oXs, Ve Xs); (oYs, Ve Ys); (oZs, Ve Zs); (oXY, Ma XY); (oXX, Ma XX)] else [])).
Definition m_SIR_pair_based (g : graph) (rho : option Q) (nl : option (list node)) (Y0 X0 : option vec) (XY0 XX0 : option (list vec)) (full : bool) : emodel :=
  let N := length (gnodes g) in
  let rho' := match Y0, rho with None, None => Some (1 / gN g) | _, _ => rho end in
  if isSome Y0 && isSome rho' then Err EoNError else
  if isSome Y0 && isNone nl then Err EoNError else
  let nodelist := nodelist_or g nl in
  let Y0v := match Y0, rho' with Some y, _ => y | None, Some r => map (fun _ => r) (seq 0 N) | None, None => [] end in
  if negb (Nat.eqb (length Y0v) N) then Err EoNError else
  let X0v := match X0 with Some x => x | None => x0_of Y0v end in
  let XY := match XY0 with None => outer X0v Y0v | Some m => m end in
  if negb (shape_is N XY) then Err EoNError else
  let XX := match XX0 with None => outer X0v X0v | Some m => m end in
  if negb (shape_is N XX) then Err EoNError else
  Ok (X0v ++ Y0v ++ flatten (amask g nodelist XY) ++ flatten (amask g nodelist XX), asm_SIR_pair_based N full).

Definition m_SIS_pair_based_pure_IC (g : graph) (I0 : list node) (nl : option (list node)) (full : bool) : emodel :=
  let nodelist := nodelist_or g nl in
  m_SIS_pair_based g None (Some nodelist) (Some (y0_set nodelist I0)) None None full.
Definition m_SIR_pair_based_pure_IC (g : graph) (I0 : list node) (R0 : option (list node)) (nl : option (list node)) (full : bool) : emodel :=
  let nodelist := nodelist_or g nl in
  let Y0 := y0_set nodelist I0 in
  let X0 := match R0 with None => x0_of Y0 | Some r => x0_sets nodelist I0 r end in
  m_SIR_pair_based g None (Some nodelist) (Some Y0) (Some X0) None None full.
