(* Oracle-tree presentation of basic_discrete_SIS (see Model/DiscreteO.v).  In the SIS simulator
   a contact (u, v) can be tested again at a later step, so the coins are indexed by
   (step, u, v).  The questions of an oracle tree are pairs of numbers: the question of the test
   of (u, v) at step k is (enc k u, v) for an encoding enc : step -> node -> number that the
   theorems assume injective on the nodes of the graph (e.g. enc k u = k * M + u with M above
   every node, Props/C12law.v).  [sis_cloop_o], [sis_step_o], [sis_loop_o] are sis_cloop /
   sis_step / sis_loop of Model/Discrete.v with `r_test R u v k` replaced by [oask (enc k u) v]
   and `r_pick` by the code's random.choice; Proofs/SISLawP.v proves both interpretations give
   back the extracted model. *)
From EoNV Require Import Prelude Samp Graph Discrete DiscreteO.

(* the transmission rule reading the coin of (step, u, v), random.choice as in the code *)
Definition sis_table_rules (enc : nat -> node -> node) (tb : node -> node -> bool) : rules :=
  mkRules (fun u v k => Ret (tb (enc k u) v)) (r_pick (simple_rules 0)).

Section DSISO.
Variable g : graph.
Variable enc : nat -> node -> node.
Variable ord : nat -> list node -> list node.
Variable tmin : Q.
Variable tmax : xtime.
Variable full : bool.

Fixpoint sis_cloop_o (k : nat) (infs : list node) (cs : list (node * node))
    (new : list node) (inf : list (node * list node)) (q : list qentry)
  : otree (list node * list (node * list node) * list qentry) :=
  match cs with
  | [] => ORet (new, inf, q)
  | (u, v) :: cs' =>
    if negb (mem v infs) then
      obind (oask (enc k u) v) (fun b =>
        if b then
          if negb (mem v new) then sis_cloop_o k infs cs' (v :: new) (inf ++ [(v, [u])]) ((k, u, v) :: q)
          else sis_cloop_o k infs cs' new (inf_append inf v u) ((k, u, v) :: q)
        else sis_cloop_o k infs cs' new inf ((k, u, v) :: q))
    else sis_cloop_o k infs cs' new inf q
  end.

Definition sis_step_o (k : nat) (t : Q) (s : sst) : otree sst :=
  let us := ord k (s_infs s) in
  obind (sis_cloop_o k (s_infs s) (contacts g us) [] [] (l_q (s_logs s))) (fun r =>
  match r with
  | (new, inf, q) =>
    let next := t + 1 in
    obind (if full then picks_o k t inf (s_tlog s) (l_p (s_logs s))
           else ORet (s_tlog s, l_p (s_logs s))) (fun tp =>
    let newc := canon g new in
    let h1 :=
      if full && le_x next tmax then
        rev (map (fun v => (next, v, stI)) newc) ++ rev (map (fun u => (next, u, stS)) us) ++ s_hlog s
      else s_hlog s in
    ORet (mkS newc ((next, [(order g - lenZ newc)%Z; lenZ newc]) :: s_rows s) h1 (fst tp)
              (mkL q (snd tp) (l_r (s_logs s)))))
  end).

Fixpoint sis_loop_o (i0 : list node) (fuel : nat) (k : nat) (t : Q) (s : sst) : otree dout :=
  if nonempty (s_infs s) && xlt t tmax then
    match fuel with
    | O => OFail OutOfFuel
    | S f => obind (sis_step_o k t s) (fun s' => sis_loop_o i0 f (S k) (t + 1) s')
    end
  else ORet (sis_finish g tmin full i0 s).

End DSISO.

(* the keys of the tests of step k, and of steps k .. k+n-1 *)
Definition step_keys (g : graph) (enc : nat -> node -> node) (k : nat) : list (node * node) :=
  map (fun e => (enc k (fst e), snd e)) (contacts g (gnodes g)).
Definition keys_from (g : graph) (enc : nat -> node -> node) (k n : nat) : list (node * node) :=
  flat_map (step_keys g enc) (seq k n).
