(* L2 models of the ODE entry points of EoN/analytic.py as far as property C06
   looks at them: for every solver the layout of the initial vector X0 and the
   post-processing that slices the solver's matrix into the returned tuple (which
   slice is given which name), and for every *_from_graph wrapper its own
   initial-condition arithmetic (rho path and explicit-set path), written as the
   code is.  The numerical integrator is abstract: a `solver` maps X0 to a
   trajectory (time index -> state vector); the only fact used about it is
   `solver_ok`: the first row is X0 (scipy.integrate.odeint / ode).  Executable
   definitions only. *)
From EoNV Require Import Prelude Graph Aux Vec IC.

Definition traj := nat -> vec.
Definition solver := vec -> traj.
Definition solver_ok (s : solver) : Prop := forall x0, s x0 0%nat = x0.
Definition const_solver : solver := fun x0 _ => x0.       (* used by the extracted driver to read row 0 *)

(* names of the returned series and their shapes *)
Inductive sname := nS | nI | nR | nSI | nSS | nII | nSk | nIk | nRk | nSkSl | nSkIl | nIkIl
                 | nSsi | nIsi | nSkappa | nTheta.
Inductive series := Sc (f : nat -> Q) | Ve (f : nat -> vec) | Ma (f : nat -> list vec).
Definition output := list (sname * series).       (* the returned tuple after `times`, in order *)

Definition sname_eqb (a b : sname) : bool :=
  match a, b with
  | nS, nS | nI, nI | nR, nR | nSI, nSI | nSS, nSS | nII, nII | nSk, nSk | nIk, nIk | nRk, nRk
  | nSkSl, nSkSl | nSkIl, nSkIl | nIkIl, nIkIl | nSsi, nSsi | nIsi, nIsi | nSkappa, nSkappa | nTheta, nTheta => true
  | _, _ => false
  end.
Fixpoint lookup (n : sname) (o : output) : option series :=
  match o with [] => None | (m, s) :: t => if sname_eqb n m then Some s else lookup n t end.

(* row 0 of an output, for the correspondence check *)
Inductive val := VS (x : Q) | VV (x : vec) | VM (x : list vec).
Definition at0 (s : series) : val :=
  match s with Sc f => VS (f 0%nat) | Ve f => VV (f 0%nat) | Ma f => VM (f 0%nat) end.
Definition row0 (o : output) : list (sname * val) := map (fun ns => (fst ns, at0 (snd ns))) o.

(* ---------- slicing helpers: X.T[i], X.T[a:b], X.T[:-k], X.T[-k:] over time ---------- *)
Definition comp (x : traj) (i : nat) : nat -> Q := fun t => vnth i (x t).
Definition slc (x : traj) (a b : nat) : nat -> vec := fun t => slice a b (x t).
Definition sfrom (x : traj) (a : nat) : nat -> vec := fun t => slice_from a (x t).
Definition dlast (x : traj) (k : nat) : nat -> vec := fun t => drop_last k (x t).
Definition tlast (x : traj) (k i : nat) : nat -> Q := fun t => vnth i (take_last k (x t)).
Definition vsumt (f : nat -> vec) : nat -> Q := fun t => vsum (f t).
(* reshape of a flat slice to (rows, cols): row r = elements r*cols .. r*cols+cols-1 *)
Definition reshape (rows cols : nat) (v : vec) : list vec :=
  map (fun r => slice (r * cols) (r * cols + cols) v) (seq 0 rows).
Definition flatten (m : list vec) : vec := concat m.
Definition madd (a b : list vec) : list vec := map (fun ab => vadd (fst ab) (snd ab)) (combine a b).
Definition msub (a b : list vec) : list vec := map (fun ab => vsub (fst ab) (snd ab)) (combine a b).
Definition mrow (m : list vec) (i : nat) : vec := nth i m [].
Definition mtranspose (n : nat) (m : list vec) : list vec :=
  map (fun j => map (fun i => vnth j (mrow m i)) (seq 0 n)) (seq 0 n).
Definition msum (m : list vec) : Q := vsum (map vsum m).
Definition len (A : Type) (l : list A) : Q := Qnat (length l).
Arguments len {A}.

(* =====================  homogeneous mean field  ===================== *)
Definition SIS_homogeneous_meanfield (S0 I0 : Q) (sv : solver) : output :=
  let x := sv [S0; I0] in [(nS, Sc (comp x 0)); (nI, Sc (comp x 1))].
Definition SIR_homogeneous_meanfield (S0 I0 R0 : Q) (sv : solver) : output :=
  let N := S0 + I0 + R0 in
  let x := sv [S0; I0] in
  [(nS, Sc (comp x 0)); (nI, Sc (comp x 1)); (nR, Sc (fun t => N - comp x 0 t - comp x 1 t))].

Definition SIS_homogeneous_meanfield_from_graph (g : graph) (rq : icreq) (sv : solver) : result output :=
  if isSome (rq_rho rq) && isSome (rq_I rq) then Err EoNError else
  let I0 := match rq_I rq, rq_rho rq with
            | Some l, _ => len l | None, Some r => r * gN g | None, None => 1 end in
  Ok (SIS_homogeneous_meanfield (gN g - I0) I0 sv).

(* analytic.py:1915-1931: initial_recovereds defaults to [] on every path; R0 = len(initial_recovereds) *)
Definition SIR_homogeneous_meanfield_from_graph (g : graph) (rq : icreq) (sv : solver) : result output :=
  if isSome (rq_rho rq) && isSome (rq_I rq) then Err EoNError else
  if isSome (rq_rho rq) && isSome (rq_R rq) then Err EoNError else
  let R := match rq_R rq with None => [] | Some r => r end in
  let I0 := match rq_I rq, rq_rho rq with
            | Some l, _ => len l | None, Some r => r * gN g | None, None => 1 end in
  let R0 := len R in
  Ok (SIR_homogeneous_meanfield (gN g - I0 - R0) I0 R0 sv).

(* =====================  homogeneous pairwise  ===================== *)
(* the guard of the code is SS0 + 2*SI0 > n*N*(1+1e-12) since fix 45061d2 (a float-rounding allowance); the model keeps the
   exact comparison SS0 + 2 SI0 > n N - the two differ only inside that relative band of 1e-12 *)
Definition SIS_homogeneous_pairwise (S0 I0 SI0 SS0 n : Q) (full : bool) (sv : solver) : result output :=
  let N := S0 + I0 in
  if Qltb (n * N) (SS0 + SI0 * 2) then Err EoNError else
  let x := sv [S0; SI0; SS0] in
  let S := comp x 0 in let SI := comp x 1 in let SS := comp x 2 in
  let I := fun t => N - S t in
  Ok ([(nS, Sc S); (nI, Sc I)] ++
      (if full then [(nSI, Sc SI); (nSS, Sc SS); (nII, Sc (fun t => N * n - SS t - 2 * SI t))] else [])).
Definition SIR_homogeneous_pairwise (S0 I0 R0 SI0 SS0 n : Q) (full : bool) (sv : solver) : result output :=
  let N := S0 + I0 + R0 in
  if Qltb (n * N) (SS0 + 2 * SI0) then Err EoNError else
  let x := sv [S0; I0; SI0; SS0] in
  let S := comp x 0 in let I := comp x 1 in let SI := comp x 2 in let SS := comp x 3 in
  Ok ([(nS, Sc S); (nI, Sc I); (nR, Sc (fun t => N - S t - I t))] ++
      (if full then [(nSI, Sc SI); (nSS, Sc SS)] else [])).

(* n = sum(k*Pk[k] for k in Pk.keys()) *)
Definition mean_degree (g : graph) : Q :=
  let ds := degseq g in sumQ (map (fun k => Qnat k * Pk ds k) (Pk_keys ds)).

Definition SIS_homogeneous_pairwise_from_graph (g : graph) (rq : icreq) (full : bool) (sv : solver) : result output :=
  if isSome (rq_rho rq) && isSome (rq_I rq) then Err EoNError else
  let n := mean_degree g in let N := gN g in
  match rq_I rq with
  | Some I0l =>
    rbind (initialize_node_status g I0l None) (fun st =>
      let I0 := len I0l in
      let same := fun u v => N.eqb (st u) (st v) in
      let SS0 := esum g (fun u v => if same u v && isS st u then 2 else 0) in
      let SI0 := esum g (fun u v => if same u v then 0 else 1) in
      SIS_homogeneous_pairwise (N - I0) I0 SI0 SS0 n full sv)
  | None =>
    let rho := rho_or_default g (rq_rho rq) in
    SIS_homogeneous_pairwise ((1 - rho) * N) (rho * N) ((1 - rho) * N * n * rho) ((1 - rho) * N * n * (1 - rho)) n full sv
  end.

Definition SIR_homogeneous_pairwise_from_graph (g : graph) (rq : icreq) (full : bool) (sv : solver) : result output :=
  if isSome (rq_rho rq) && isSome (rq_I rq) then Err EoNError else
  if isSome (rq_rho rq) && isSome (rq_R rq) then Err EoNError else
  let n := mean_degree g in let N := gN g in
  match rq_I rq with
  | Some I0l =>
    let R0l := match rq_R rq with None => [] | Some r => r end in
    rbind (initialize_node_status g I0l (Some R0l)) (fun st =>
      let I0 := len I0l in let R0 := len R0l in
      let '(SS0, SI0, _) := count_edge_types_st g st in
      SIR_homogeneous_pairwise (N - I0 - R0) I0 R0 SI0 SS0 n full sv)
  | None =>
    let rho := rho_or_default g (rq_rho rq) in
    SIR_homogeneous_pairwise ((1 - rho) * N) (rho * N) 0 ((1 - rho) * N * n * rho) ((1 - rho) * N * n * (1 - rho)) n full sv
  end.

(* =====================  heterogeneous mean field  ===================== *)
Definition SIS_heterogeneous_meanfield (Sk0 Ik0 : vec) (full : bool) (sv : solver) : result output :=
  if negb (Nat.eqb (length Sk0) (length Ik0)) then Err EoNError else
  let kcount := length Sk0 in
  let x := sv (Sk0 ++ Ik0) in
  let Sk := slc x 0 kcount in let Ik := sfrom x kcount in
  Ok ([(nS, Sc (vsumt Sk)); (nI, Sc (vsumt Ik))] ++ (if full then [(nSk, Ve Sk); (nIk, Ve Ik)] else [])).

Definition SIR_heterogeneous_meanfield (Sk0 Ik0 Rk0 : vec) (full : bool) (sv : solver) : result output :=
  if negb (Nat.eqb (length Sk0) (length Ik0)) || negb (Nat.eqb (length Sk0) (length Rk0)) then Err EoNError else
  let Nk := vadd (vadd Sk0 Ik0) Rk0 in
  let x := sv (1 :: Rk0) in
  let theta := comp x 0 in let Rk := sfrom x 1 in
  let Sk := fun t => vmul Sk0 (spow_arange (theta t) (length (Rk t))) in
  let Ik := fun t => vsub (vsub Nk (Sk t)) (Rk t) in
  Ok (if full then [(nSk, Ve Sk); (nIk, Ve Ik); (nRk, Ve Rk)]
      else [(nS, Sc (vsumt Sk)); (nI, Sc (vsumt Ik)); (nR, Sc (vsumt Rk))]).

Definition SIS_heterogeneous_meanfield_from_graph (g : graph) (rq : icreq) (full : bool) (sv : solver) : result output :=
  if isSome (rq_rho rq) && isSome (rq_I rq) then Err EoNError else
  rbind (get_Nk_and_IC g (mkReq (rq_I rq) None (rq_rho rq)) false) (fun ic =>
    SIS_heterogeneous_meanfield (nk_Sk ic) (nk_Ik ic) full sv).

Definition SIR_heterogeneous_meanfield_from_graph (g : graph) (rq : icreq) (full : bool) (sv : solver) : result output :=
  rbind (get_Nk_and_IC g rq true) (fun ic =>
    SIR_heterogeneous_meanfield (nk_Sk ic) (nk_Ik ic) (nk_Rk ic) full sv).

(* =====================  heterogeneous pairwise  ===================== *)
Definition SIS_heterogeneous_pairwise (Sk0 Ik0 : vec) (SkSl0 SkIl0 IkIl0 : list vec) (full : bool) (sv : solver) : result output :=
  let Nk := vadd Sk0 Ik0 in
  let kcount := length Nk in
  let x := sv (Sk0 ++ flatten SkSl0 ++ flatten SkIl0) in
  let Sk := slc x 0 kcount in
  let Ik := fun t => vsub Nk (Sk t) in
  (* analytic.py:2934-2939, full data: IkIl = NkNl[:,:,None] - SkSl - SkIl - SkIl.transpose(1,0,2), per time step,
     with NkNl = SkSl0 + SkIl0 + IkIl0 + SkIl0.T *)
  if full then
    let NkNl := madd (madd (madd SkSl0 SkIl0) IkIl0) (mtranspose kcount SkIl0) in
    let SkSl := fun t => reshape kcount kcount (slc x kcount (kcount + kcount * kcount) t) in
    let SkIl := fun t => reshape kcount kcount (sfrom x (kcount + kcount * kcount) t) in
    Ok [(nS, Sc (vsumt Sk)); (nI, Sc (vsumt Ik)); (nSk, Ve Sk); (nIk, Ve Ik); (nSkIl, Ma SkIl); (nSkSl, Ma SkSl);
        (nIkIl, Ma (fun t => msub (msub (msub NkNl (SkSl t)) (SkIl t)) (mtranspose kcount (SkIl t))))]
  else Ok [(nS, Sc (vsumt Sk)); (nI, Sc (vsumt Ik))].

(* analytic.py:3034-3052: X0 packs Sk0, Ik0, SkSl0, SkIl0 and is unpacked in the same order; returned ..., SkIl, SkSl *)
Definition SIR_heterogeneous_pairwise (Sk0 Ik0 Rk0 : vec) (SkSl0 SkIl0 : list vec) (Ks : list nat) (full : bool) (sv : solver) : result output :=
  let Nk := vadd (vadd Sk0 Ik0) Rk0 in
  let kcount := length Ks in
  let x := sv (Sk0 ++ Ik0 ++ flatten SkSl0 ++ flatten SkIl0) in
  let Sk := slc x 0 kcount in
  let Ik := slc x kcount (2 * kcount) in
  let SkSl := slc x (2 * kcount) (2 * kcount + kcount * kcount) in
  let SkIl := slc x (2 * kcount + kcount * kcount) (2 * kcount + 2 * (kcount * kcount)) in
  let Rk := fun t => vsub (vsub Nk (Sk t)) (Ik t) in
  Ok ([(nS, Sc (vsumt Sk)); (nI, Sc (vsumt Ik)); (nR, Sc (vsumt Rk))] ++
      (if full then [(nSk, Ve Sk); (nIk, Ve Ik); (nRk, Ve Rk);
                     (nSkIl, Ma (fun t => reshape kcount kcount (SkIl t)));
                     (nSkSl, Ma (fun t => reshape kcount kcount (SkSl t)))] else [])).

(* Sk0 = np.array([Sk0[k] for k in Ks]) *)
Definition pickKs (Ks : list nat) (v : vec) : vec := map (fun k => vnth k v) Ks.

Definition SIS_heterogeneous_pairwise_from_graph (g : graph) (rq : icreq) (full : bool) (sv : solver) : result output :=
  let rq' := mkReq (rq_I rq) None (rq_rho rq) in
  rbind (get_Nk_and_IC g rq' false) (fun ic =>
  rbind (get_NkNl_and_IC g rq') (fun kk =>
    SIS_heterogeneous_pairwise (pickKs (kk_Ks kk) (nk_Sk ic)) (pickKs (kk_Ks kk) (nk_Ik ic))
                               (kk_SkSl kk) (kk_SkIl kk) (kk_IkIl kk) full sv)).

Definition SIR_heterogeneous_pairwise_from_graph (g : graph) (rq : icreq) (full : bool) (sv : solver) : result output :=
  rbind (get_Nk_and_IC g rq true) (fun ic =>
  rbind (get_NkNl_and_IC g rq) (fun kk =>
    let Ks := kk_Ks kk in
    SIR_heterogeneous_pairwise (pickKs Ks (nk_Sk ic)) (pickKs Ks (nk_Ik ic)) (pickKs Ks (nk_Rk ic))
                               (kk_SkSl kk) (kk_SkIl kk) Ks full sv)).

(* =====================  compact pairwise  ===================== *)
Definition SIS_compact_pairwise (Sk0 Ik0 : vec) (SI0 SS0 II0 : Q) (full : bool) (sv : solver) : output :=
  let Nk := vadd Sk0 Ik0 in
  let twoM := SS0 + II0 + 2 * SI0 in
  let x := sv (Sk0 ++ [SI0; SS0]) in
  let Sk := dlast x 2 in
  let Ik := fun t => vsub Nk (Sk t) in
  let SI := tlast x 2 0 in let SS := tlast x 2 1 in
  [(nS, Sc (vsumt Sk)); (nI, Sc (vsumt Ik))] ++
  (if full then [(nSk, Ve Sk); (nIk, Ve Ik); (nSI, Sc SI); (nSS, Sc SS); (nII, Sc (fun t => twoM - SS t - 2 * SI t))] else []).

(* analytic.py:3409-3417: X0 = Sk0, SS0, SI0, R0; `SS, SI, R = X.T[-3:]` *)
Definition SIR_compact_pairwise (Sk0 : vec) (I0 R0 SS0 SI0 : Q) (full : bool) (sv : solver) : output :=
  let N := I0 + R0 + vsum Sk0 in
  let x := sv (Sk0 ++ [SS0; SI0; R0]) in
  let SS := tlast x 3 0 in let SI := tlast x 3 1 in let R := tlast x 3 2 in
  let Sk := dlast x 3 in
  let S := vsumt Sk in
  let I := fun t => N - R t - S t in
  if full then [(nSk, Ve Sk); (nI, Sc I); (nR, Sc R); (nSS, Sc SS); (nSI, Sc SI)]
  else [(nS, Sc S); (nI, Sc I); (nR, Sc R)].

Definition ksv (v : vec) : vec := arange (length v).          (* np.array(range(len(Nk))) *)

Definition SIS_compact_pairwise_from_graph (g : graph) (rq : icreq) (full : bool) (sv : solver) : result output :=
  if isSome (rq_rho rq) && isSome (rq_I rq) then Err EoNError else
  let rho := match rq_rho rq, rq_I rq with None, None => Some (1 / gN g) | r, _ => r end in
  rbind (get_Nk_and_IC g (mkReq (rq_I rq) None rho) false) (fun ic =>
    let Nk := nk_Nk ic in
    match rq_I rq with
    | Some I0l =>
      rbind (count_edge_types g I0l None) (fun c =>
        let '(SS0, SI0, II0) := c in
        Ok (SIS_compact_pairwise (nk_Sk ic) (nk_Ik ic) SI0 SS0 II0 full sv))
    | None =>
      match rho with
      | None => Err TypeErr
      | Some r =>
        Ok (SIS_compact_pairwise (nk_Sk ic) (nk_Ik ic)
              (vsum (map (fun k => vnth k Nk * Qnat k * (1 - r) * r) (classes g)))
              (vsum (map (fun k => vnth k Nk * Qnat k * (1 - r) * (1 - r)) (classes g)))
              (vsum (map (fun k => vnth k Nk * Qnat k * r * r) (classes g))) full sv)
      end
    end).

Definition SIR_compact_pairwise_from_graph (g : graph) (rq : icreq) (full : bool) (sv : solver) : result output :=
  if isSome (rq_rho rq) && isSome (rq_I rq) then Err EoNError else
  let rho := match rq_rho rq, rq_I rq with None, None => Some (1 / gN g) | r, _ => r end in
  rbind (get_Nk_and_IC g (mkReq (rq_I rq) (rq_R rq) rho) true) (fun ic =>
    let I0 := vsum (nk_Ik ic) in let R0 := vsum (nk_Rk ic) in
    match rq_I rq with
    | Some I0l =>
      rbind (count_edge_types g I0l (rq_R rq)) (fun c =>
        let '(SS0, SI0, _) := c in
        Ok (SIR_compact_pairwise (nk_Sk ic) I0 R0 SS0 SI0 full sv))
    | None =>
      match rho with
      | None => Err TypeErr
      | Some r =>
        let SX0 := dot (nk_Sk ic) (ksv (nk_Nk ic)) in
        Ok (SIR_compact_pairwise (nk_Sk ic) I0 R0 ((1 - r) * SX0) (r * SX0) full sv)
      end
    end).

(* =====================  super compact pairwise  ===================== *)
Definition SIS_super_compact_pairwise (S0 I0 SS0 SI0 II0 : Q) (full : bool) (sv : solver) : output :=
  let N := S0 + I0 in
  let x := sv [I0; SS0; SI0; II0] in
  let I := comp x 0 in
  [(nS, Sc (fun t => N - I t)); (nI, Sc I)] ++
  (if full then [(nSS, Sc (comp x 1)); (nSI, Sc (comp x 2)); (nII, Sc (comp x 3))] else []).

Definition SIR_super_compact_pairwise (R0 SS0 SI0 N : Q) (psihat : Q -> Q) (full : bool) (sv : solver) : output :=
  let x := sv [1; SS0; SI0; R0] in
  let theta := comp x 0 in let R := comp x 3 in
  let S := fun t => N * psihat (theta t) in
  [(nS, Sc S); (nI, Sc (fun t => N - S t - R t)); (nR, Sc R)] ++
  (if full then [(nSS, Sc (comp x 1)); (nSI, Sc (comp x 2))] else []).

(* analytic.py:3772-3775: rho path SS0 = (1-rho) SX0, SI0 = rho SX0, II0 = rho*rho*np.dot(Nk,ks) *)
Definition SIS_super_compact_pairwise_from_graph (g : graph) (rq : icreq) (full : bool) (sv : solver) : result output :=
  if isSome (rq_rho rq) && isSome (rq_I rq) then Err EoNError else
  rbind (get_Nk_and_IC g (mkReq (rq_I rq) None (rq_rho rq)) false) (fun ic =>
    let ks := ksv (nk_Nk ic) in
    let S0 := vsum (nk_Sk ic) in let I0 := vsum (nk_Ik ic) in
    match rq_I rq with
    | Some I0l =>
      rbind (count_edge_types g I0l None) (fun c =>
        let '(SS0, SI0, II0) := c in
        Ok (SIS_super_compact_pairwise S0 I0 SS0 SI0 II0 full sv))
    | None =>
      let rho := rho_or_default g (rq_rho rq) in
      let SX0 := dot (nk_Sk ic) ks in
      Ok (SIS_super_compact_pairwise S0 I0 ((1 - rho) * SX0) (rho * SX0) (rho * rho * dot (nk_Nk ic) ks) full sv)
    end).

(* sum(f(k) for k in Pk) over the distinct degrees *)
Definition sumPk (g : graph) (f : nat -> Q) : Q := sumQ (map f (Pk_keys (degseq g))).

Definition SIR_super_compact_pairwise_from_graph (g : graph) (rq : icreq) (full : bool) (sv : solver) : result output :=
  if isSome (rq_rho rq) && isSome (rq_I rq) then Err EoNError else
  let rho := match rq_rho rq, rq_I rq with None, None => Some (1 / gN g) | r, _ => r end in
  rbind (get_Nk_and_IC g (mkReq (rq_I rq) (rq_R rq) rho) true) (fun ic =>
    let N := gN g in
    let R0 := vsum (nk_Rk ic) in
    match rq_I rq with
    | Some I0l =>
      rbind (count_edge_types g I0l (rq_R rq)) (fun c =>
        let '(SS0, SI0, _) := c in
        let psihat := fun x => sumPk g (fun k => vnth k (nk_Sk ic) * qpow x (Z.of_nat k)) / N in
        Ok (SIR_super_compact_pairwise R0 SS0 SI0 N psihat full sv))
    | None =>
      match rho with
      | None => Err TypeErr
      | Some r =>
        let SX0 := dot (nk_Sk ic) (ksv (nk_Nk ic)) in
        let psihat := fun x => (1 - r) * sumPk g (fun k => Pk (degseq g) k * qpow x (Z.of_nat k)) in
        Ok (SIR_super_compact_pairwise R0 ((1 - r) * SX0) (r * SX0) N psihat full sv)
      end
    end).

(* =====================  effective degree  ===================== *)
Definition SIS_effective_degree (Ssi0 Isi0 : list vec) (full : bool) (sv : solver) : output :=
  let rows := length Ssi0 in let cols := length (mrow Ssi0 0) in
  let ksq := (rows * cols)%nat in
  let x := sv (flatten Ssi0 ++ flatten Isi0) in
  let Ssi := slc x 0 ksq in let Isi := sfrom x ksq in
  [(nS, Sc (vsumt Ssi)); (nI, Sc (vsumt Isi))] ++
  (if full then [(nSsi, Ma (fun t => reshape rows cols (Ssi t))); (nIsi, Ma (fun t => reshape rows cols (Isi t)))] else []).

Definition SIR_effective_degree (Ssi0 : list vec) (I0 R0 : Q) (full : bool) (sv : solver) : output :=
  let N := msum Ssi0 + I0 + R0 in
  let rows := length Ssi0 in let cols := length (mrow Ssi0 0) in
  let x := sv (flatten Ssi0 ++ [R0]) in
  let R := tlast x 1 0 in
  let Ssi := dlast x 1 in
  let S := vsumt Ssi in
  [(nS, Sc S); (nI, Sc (fun t => N - R t - S t)); (nR, Sc R)] ++
  (if full then [(nSsi, Ma (fun t => reshape rows cols (Ssi t)))] else []).

(* (maxk+1) x (maxk+1) array: entry [s][i] = f s i *)
Definition sqmat (g : graph) (f : nat -> nat -> Q) : list vec :=
  map (fun s => map (fun i => f s i) (classes g)) (classes g).
Definition nbr_count (g : graph) (p : node -> bool) (u : node) : nat := length (filter p (gadj g u)).
Fixpoint binomial (n k : nat) : nat :=
  match n, k with
  | _, O => 1
  | O, S _ => 0
  | S n', S k' => binomial n' k' + binomial n' k
  end.
(* rho path: (1-rho)*Nk[s+i]*binom(s+i,i)*rho**i*(1-rho)**s for s+i <= maxk, else 0 *)
Definition ed_rho_entry (g : graph) (c rho : Q) (s i : nat) : Q :=
  if Nat.leb (s + i) (gmaxdeg g)
  then c * vnth (s + i) (Nk_of g) * Qnat (binomial (s + i) i) * qpow rho (Z.of_nat i) * qpow (1 - rho) (Z.of_nat s)
  else 0.

Definition SIS_effective_degree_from_graph (g : graph) (rq : icreq) (full : bool) (sv : solver) : result output :=
  if isSome (rq_rho rq) && isSome (rq_I rq) then Err EoNError else
  match gnodes g with [] => Err ValueErr | _ =>
  match rq_I rq with
  | Some I0l =>
    rbind (initialize_node_status g I0l None) (fun st =>
      let s_of := fun u => nbr_count g (isS st) u in
      let i_of := fun u => (deg g u - s_of u)%nat in
      let Ssi0 := sqmat g (fun s i => cnt (fun u => isS st u && Nat.eqb (s_of u) s && Nat.eqb (i_of u) i) (gnodes g)) in
      let Isi0 := sqmat g (fun s i => cnt (fun u => negb (isS st u) && Nat.eqb (s_of u) s && Nat.eqb (i_of u) i) (gnodes g)) in
      Ok (SIS_effective_degree Ssi0 Isi0 full sv))
  | None =>
    let rho := rho_or_default g (rq_rho rq) in
    Ok (SIS_effective_degree (sqmat g (ed_rho_entry g (1 - rho) rho)) (sqmat g (ed_rho_entry g rho rho)) full sv)
  end end.

Definition SIR_effective_degree_from_graph (g : graph) (rq : icreq) (full : bool) (sv : solver) : result output :=
  if isSome (rq_rho rq) && isSome (rq_I rq) then Err EoNError else
  if isSome (rq_rho rq) && isSome (rq_R rq) then Err EoNError else
  match gnodes g with [] => Err ValueErr | _ =>
  match rq_I rq with
  | Some I0l =>
    rbind (initialize_node_status g I0l (rq_R rq)) (fun st =>
      let Ssi0 := sqmat g (fun s i => cnt (fun u => isS st u && Nat.eqb (nbr_count g (isS st) u) s
                                                  && Nat.eqb (nbr_count g (isI st) u) i) (gnodes g)) in
      let I0 := cnt (isI st) (gnodes g) in
      let R0 := cnt (fun u => negb (isS st u) && negb (isI st u)) (gnodes g) in
      Ok (SIR_effective_degree Ssi0 I0 R0 full sv))
  | None =>
    let rho := rho_or_default g (rq_rho rq) in
    Ok (SIR_effective_degree (sqmat g (ed_rho_entry g (1 - rho) rho)) (rho * vsum (Nk_of g)) 0 full sv)
  end end.

(* =====================  compact effective degree  ===================== *)
Definition SIS_compact_effective_degree_from_graph := SIS_compact_pairwise_from_graph.

Definition SIR_compact_effective_degree (Skappa0 : vec) (I0 R0 SI0 : Q) (full : bool) (sv : solver) : output :=
  let N := vsum Skappa0 + I0 + R0 in
  let x := sv (Skappa0 ++ [R0; SI0]) in
  let Skappa := dlast x 2 in
  let S := vsumt Skappa in
  let R := tlast x 2 0 in let SI := tlast x 2 1 in
  [(nS, Sc S); (nI, Sc (fun t => N - S t - R t)); (nR, Sc R)] ++
  (if full then [(nSkappa, Ve Skappa); (nSI, Sc SI)] else []).

Definition SIR_compact_effective_degree_from_graph (g : graph) (rq : icreq) (full : bool) (sv : solver) : result output :=
  if isSome (rq_rho rq) && isSome (rq_I rq) then Err EoNError else
  if isSome (rq_rho rq) && isSome (rq_R rq) then Err EoNError else
  match gnodes g with [] => Err ValueErr | _ =>
  match rq_I rq with
  | Some I0l =>
    rbind (initialize_node_status g I0l (rq_R rq)) (fun st =>
      let notR := fun v => negb (isR st v) in
      let Skappa0 := map (fun kap => cnt (fun u => isS st u && Nat.eqb (nbr_count g notR u) kap) (gnodes g)) (classes g) in
      let I0 := cnt (isI st) (gnodes g) in
      let R0 := cnt (fun u => negb (isS st u) && negb (isI st u)) (gnodes g) in
      let SI0 := sumQ (map (fun u => if isS st u then Qnat (nbr_count g (isI st) u) else 0) (gnodes g)) in
      Ok (SIR_compact_effective_degree Skappa0 I0 R0 SI0 full sv))
  | None =>
    let rho := rho_or_default g (rq_rho rq) in
    let Nk := Nk_of g in
    let Skappa0 := vmuls Nk (1 - rho) in
    Ok (SIR_compact_effective_degree Skappa0 (rho * vsum Nk) 0
          (vsum (map (fun k => Qnat k * vnth k Skappa0 * rho) (classes g))) full sv)
  end end.

(* =====================  EBCM  ===================== *)
Definition EBCM (N : Q) (psihat : Q -> Q) (R0 : Q) (full : bool) (sv : solver) : output :=
  let x := sv [1; R0] in
  let theta := comp x 0 in let R := comp x 1 in
  let S := fun t => N * psihat (theta t) in
  [(nS, Sc S); (nI, Sc (fun t => N - S t - R t)); (nR, Sc R)] ++ (if full then [(nTheta, Sc theta)] else []).

Definition EBCM_from_graph (g : graph) (rq : icreq) (full : bool) (sv : solver) : result output :=
  if isSome (rq_rho rq) && isSome (rq_I rq) then Err EoNError else
  if isSome (rq_rho rq) && isSome (rq_R rq) then Err EoNError else
  let N := gN g in
  let ds := degseq g in
  match rq_I rq with
  | Some I0l =>
    rbind (initialize_node_status g I0l (rq_R rq)) (fun st =>
      match gnodes g with [] => Err ValueErr | _ =>
      let Nk := Nk_of g in
      (* Sk0[k] += 1./Nk[k] for every susceptible node of degree k *)
      let Sk0 := fun k => cnt (fun u => isS st u && Nat.eqb (deg g u) k) (gnodes g) * (1 / vnth k Nk) in
      let SX := sumQ (map (fun u => if isS st u then Qnat (deg g u) else 0) (gnodes g)) in
      let R0 := cnt (isR st) (gnodes g) in
      if Qeqb SX 0 then Err ZeroDivision else              (* phiS0 = SS*1./SX *)
      let psihat := fun x => sumPk g (fun k => Pk ds k * Sk0 k * qpow x (Z.of_nat k)) in
      Ok (EBCM N psihat R0 full sv)
      end)
  | None =>
    let rho := rho_or_default g (rq_rho rq) in
    let psihat := fun x => (1 - rho) * sumPk g (fun k => Pk ds k * qpow x (Z.of_nat k)) in
    Ok (EBCM N psihat 0 full sv)
  end.

(* =====================  dispatch for the extracted driver  ===================== *)
Inductive entry := eSISm | eSIRm | eSISp | eSIRp | eSIShm | eSIRhm | eSIShp | eSIRhp | eSIScp | eSIRcp
                 | eSISsc | eSIRsc | eSISed | eSIRed | eSISced | eSIRced | eEBCM.
Definition run_entry (e : entry) (g : graph) (rq : icreq) (full : bool) (sv : solver) : result output :=
  match e with
  | eSISm => SIS_homogeneous_meanfield_from_graph g rq sv
  | eSIRm => SIR_homogeneous_meanfield_from_graph g rq sv
  | eSISp => SIS_homogeneous_pairwise_from_graph g rq full sv
  | eSIRp => SIR_homogeneous_pairwise_from_graph g rq full sv
  | eSIShm => SIS_heterogeneous_meanfield_from_graph g rq full sv
  | eSIRhm => SIR_heterogeneous_meanfield_from_graph g rq full sv
  | eSIShp => SIS_heterogeneous_pairwise_from_graph g rq full sv
  | eSIRhp => SIR_heterogeneous_pairwise_from_graph g rq full sv
  | eSIScp => SIS_compact_pairwise_from_graph g rq full sv
  | eSIRcp => SIR_compact_pairwise_from_graph g rq full sv
  | eSISsc => SIS_super_compact_pairwise_from_graph g rq full sv
  | eSIRsc => SIR_super_compact_pairwise_from_graph g rq full sv
  | eSISed => SIS_effective_degree_from_graph g rq full sv
  | eSIRed => SIR_effective_degree_from_graph g rq full sv
  | eSISced => SIS_compact_effective_degree_from_graph g rq full sv
  | eSIRced => SIR_compact_effective_degree_from_graph g rq full sv
  | eEBCM => EBCM_from_graph g rq full sv
  end.
Definition row0_entry (e : entry) (g : graph) (rq : icreq) (full : bool) : result (list (sname * val)) :=
  rbind (run_entry e g rq full const_solver) (fun o => Ok (row0 o)).
