(* calls2v (DESIGN 2.4(b)): argument forwarding of EoN wrapper functions.
   Data types of the generated file Gen/Calls.v, Python's argument-binding rule as
   an executable function, and the decidable per-site check [site_ok].
   Executable definitions only; lemmas are in Proofs/CallsP.v. *)
From Coq Require Import String List Bool NArith.
From EoNV Require Import Prelude.
Import ListNotations.
Open Scope string_scope.

(* ------------------------------------------------------------------ data -- *)

(* one parameter of a `def`: name, has a default value, keyword-only (after `*`) *)
Record param := mkParam { p_name : string; p_default : bool; p_kwonly : bool }.

(* the parameter list of a `def` in source order (positional-or-keyword parameters
   first, then keyword-only ones), and whether it ends in *args / **kwargs.
   Positional-only parameters are refused by the translator. *)
Record signature := mkSig { sg_params : list param; sg_varargs : bool; sg_kwargs : bool }.

(* an argument expression of a call inside wrapper W, classified by the translator
   (rules: docstring of translate/calls2v.py) *)
Inductive argexpr :=
| ABare (x : string) (rebound : bool)  (* bare name, a parameter of W; rebound = W assigns it before the call *)
| ALocal (x : string)                  (* bare name bound inside W *)
| AGlobal (x : string)                 (* bare name bound at module level / builtin *)
| AUndefined (x : string)              (* mentions name x that is bound nowhere: NameError *)
| AConst (r : string)                  (* constant; r = source text *)
| AExpr (r : string) (names : list string)  (* any other expression; source text, free names *)
| AStar (r : string)                   (* *r *)
| AStarStar (r : string).              (* **r *)

Record call := mkCall { c_pos : list argexpr; c_kw : list (string * argexpr) }.

Record site := mkSite {
  site_id   : string;          (* "W->F@n" *)
  s_wrapper : string;
  s_wmodule : string;
  s_line    : N;
  s_wparams : list string;     (* parameters of W *)
  s_callee  : string;
  s_via     : string;          (* "direct" | "odeint" | "Q.add" *)
  s_sig     : signature;       (* signature of F *)
  s_call    : call }.

(* ------------------------------------------------- Python's binding rule -- *)
(* Language reference 6.3.4 "Calls", for a call without *e / **e:
   1. the positional arguments fill the positional-or-keyword parameters from the
      left; surplus ones go to *args if the callee has it, else TypeError;
   2. each keyword argument k=e fills the parameter named k; TypeError if that
      parameter is already filled; if no parameter is named k the pair goes to
      **kwargs when present (TypeError on a repeated key), else TypeError;
   3. unfilled parameters take their default; TypeError if one has none.
   Every failure is a TypeError raised before the callee's body runs. *)

Inductive berr :=
| TooManyPositional
| BoundTwice (p : string)
| UnknownKeyword (k : string)
| MissingRequired (p : string)
| StarArg.        (* the call uses *e or **e: outside the modelled fragment, rejected *)

(* the result of a successful binding: parameter name -> argument, in binding order
   (positionals first), plus what went to *args and **kwargs *)
Record bound := mkBound {
  b_named : list (string * argexpr);
  b_xpos  : list argexpr;
  b_xkw   : list (string * argexpr) }.

Inductive bres := BOk (b : bound) | BErr (e : berr).

Definition smem (x : string) (l : list string) : bool := existsb (String.eqb x) l.

Definition is_star (a : argexpr) : bool :=
  match a with AStar _ | AStarStar _ => true | _ => false end.

Definition pos_params (sg : signature) : list param :=
  filter (fun p => negb (p_kwonly p)) (sg_params sg).

Definition param_names (sg : signature) : list string := map p_name (sg_params sg).

(* step 1: returns (named bindings, surplus positionals) *)
Fixpoint bind_pos (ps : list param) (args : list argexpr)
  : list (string * argexpr) * list argexpr :=
  match ps, args with
  | _, [] => ([], [])
  | [], _ => ([], args)
  | p :: ps', a :: args' =>
      let (n, x) := bind_pos ps' args' in ((p_name p, a) :: n, x)
  end.

(* step 2 *)
Fixpoint bind_kw (sg : signature) (named xkw kws : list (string * argexpr)) : bres :=
  match kws with
  | [] => BOk (mkBound named [] xkw)
  | (k, a) :: kws' =>
      if smem k (map fst named) then BErr (BoundTwice k)
      else if smem k (param_names sg) then bind_kw sg (named ++ [(k, a)])%list xkw kws'
      else if sg_kwargs sg then
        (if smem k (map fst xkw) then BErr (BoundTwice k)
         else bind_kw sg named (xkw ++ [(k, a)])%list kws')
      else BErr (UnknownKeyword k)
  end.

(* step 3: first required parameter left unfilled *)
Fixpoint first_missing (ps : list param) (boundnames : list string) : option string :=
  match ps with
  | [] => None
  | p :: ps' =>
      if negb (p_default p) && negb (smem (p_name p) boundnames) then Some (p_name p)
      else first_missing ps' boundnames
  end.

Definition bindx (sg : signature) (c : call) : bres :=
  if existsb is_star (c_pos c) || existsb (fun ka => is_star (snd ka)) (c_kw c)
  then BErr StarArg
  else
    let (named, xpos) := bind_pos (pos_params sg) (c_pos c) in
    match xpos, sg_varargs sg with
    | _ :: _, false => BErr TooManyPositional
    | _, _ =>
        match bind_kw sg named [] (c_kw c) with
        | BErr e => BErr e
        | BOk b =>
            match first_missing (sg_params sg) (map fst (b_named b)) with
            | Some p => BErr (MissingRequired p)
            | None => BOk (mkBound (b_named b) xpos (b_xkw b))
            end
        end
    end.

(* the coarse view in the project's [result] type: Python raises TypeError for every
   binding failure; a StarArg call is not analysed and is reported the same way
   (fail-closed).  Ok gives the parameter -> argument association. *)
Definition bind (sg : signature) (c : call) : result (list (string * argexpr)) :=
  match bindx sg c with
  | BOk b => Ok (b_named b)
  | BErr _ => Err TypeErr
  end.

(* a `def` never repeats a parameter name (SyntaxError otherwise) *)
Fixpoint nodupb (l : list string) : bool :=
  match l with [] => true | x :: l' => negb (smem x l') && nodupb l' end.
Definition sig_wfb (sg : signature) : bool := nodupb (param_names sg).

(* --------------------------------------------------- "same meaning" table -- *)
(* (wrapper-side name, callee parameter name, restriction to one callee).
   A wrapper parameter passed as a bare name must land on the callee parameter of
   the same name, or on the one this table pairs it with.  Every entry was read in
   the source; the comment says why the two names denote the same quantity. *)
Definition renamings : list (string * string * option string) :=
  [ (* percolation: H is the percolated (di)graph, the callee's graph argument *)
    ("H", "G", None);
    (* get_infected_nodes: the out-component is taken from the initially infected
       node(s); _out_component_ accepts a node or an iterable of nodes as `source` *)
    ("initial_infecteds", "source", Some "_out_component_");
    (* event handlers: the node just infected (`target`) is the node whose recovery
       is queued ... *)
    ("target", "node", Some "_process_rec_SIR_");
    ("target", "node", Some "_process_rec_SIS_");
    (* ... and it is the source of the transmissions it will cause *)
    ("target", "source", Some "_process_trans_SIR_");
    ("target", "source", Some "_process_trans_SIS_nonMarkov_");
    ("target", "source", Some "_find_next_trans_SIS_Markov");
    (* the initial infection events are queued at time tmin; the handler's first
       parameter is the event time (myQueue.pop_and_run calls function(t, *args)) *)
    ("tmin", "time", Some "_process_trans_SIR_");
    ("tmin", "time", Some "_process_trans_SIS_Markov");
    ("tmin", "time", Some "_process_trans_SIS_nonMarkov_");
    (* _truncated_exponential_(rate, T): the per-edge transmission rate tau *)
    ("tau", "rate", Some "_truncated_exponential_");
    (* _dSIR_heterogeneous_meanfield_(X, t, S0, Nk, tau, gamma): S0 is the array of
       initial susceptible counts by degree, called Sk0 by the caller *)
    ("Sk0", "S0", Some "_dSIR_heterogeneous_meanfield_");
    (* Attack_rate_non_Markovian -> Epi_Prob_non_Markovian: same functions, Greek
       letter spelled zeta in one and xi in the other; pi / po both name the
       transmission-probability function handed through unchanged *)
    ("Pzetadzeta", "Pxidxi", Some "Epi_Prob_non_Markovian");
    ("pi", "po", Some "Epi_Prob_non_Markovian") ].

Definition opt_eqb (o : option string) (callee : string) : bool :=
  match o with None => true | Some c => String.eqb c callee end.

Definition same_meaning (callee x p : string) : bool :=
  String.eqb x p ||
  existsb (fun e => match e with (x', p', o) =>
             String.eqb x x' && String.eqb p p' && opt_eqb o callee end) renamings.

(* ---------------------------------------------------------- site check ---- *)
Inductive reason :=
| RBind (e : berr)                 (* the call raises TypeError (or uses *e / **e) *)
| RName (x p : string)             (* wrapper parameter x, passed bare, lands on callee parameter p *)
| RUndefined (x : string)          (* argument mentions undefined name x: NameError *)
| RConstShadow (x r : string)      (* W has parameter x, F has parameter x, the call passes the constant r for it *)
| RDropped (x : string)            (* W has parameter x, F has parameter x (with default), the call does not pass it *)
| RLocalName (x p : string).       (* local variable x of W lands on parameter p of F although F has a parameter named x *)

Definition undefined_of (a : argexpr) : list reason :=
  match a with AUndefined x => [RUndefined x] | _ => [] end.

Definition name_check (callee : string) (sg : signature) (pa : string * argexpr) : list reason :=
  match pa with
  | (p, ABare x _) => if same_meaning callee x p then [] else [RName x p]
  | (p, ALocal x) =>
      if negb (String.eqb x p) && smem x (param_names sg) then [RLocalName x p] else []
  | _ => []
  end.

Fixpoint lookup (k : string) (l : list (string * argexpr)) : option argexpr :=
  match l with
  | [] => None
  | (k', a) :: l' => if String.eqb k k' then Some a else lookup k l'
  end.

(* reverse direction: a parameter name shared by wrapper and callee *)
Definition shadow_check (sg : signature) (named : list (string * argexpr)) (x : string)
  : list reason :=
  if smem x (param_names sg) then
    match lookup x named with
    | Some (AConst r) => [RConstShadow x r]
    | Some _ => []
    | None => [RDropped x]
    end
  else [].

(* What is checked, exactly, for a site (wrapper W, callee F, call c):
   1. no argument of c mentions an undefined name;
   2. [bindx (sig F) c] succeeds (no TypeError; no *e / **e);
   3. every binding  p := ABare x  (x a parameter of W, possibly normalised by W
      before the call) has [same_meaning F x p]: p = x, or (x,p) in [renamings];
      same for bare names landing in **kwargs under key p;
   3'. a binding  p := ALocal x  with x <> p is refused when F also has a parameter
      named x (a local named after one parameter of F handed to another one:
      `X0`/`Y0` crossed over);
   4. for every parameter x of W that is also the name of a parameter of F: the
      call binds it, and not to a constant.  (Binding it to another variable or
      expression is accepted: `G := H` after percolation, recursion on
      `source := target`.  Unbound means F silently takes its default while W's
      caller supplied x.)
   Nothing is claimed about arguments that are locals/expressions, nor about what
   F does with the values. *)
Definition site_check (s : site) : list reason :=
  let c := s_call s in
  let undef := (flat_map undefined_of (c_pos c) ++
                flat_map (fun ka => undefined_of (snd ka)) (c_kw c))%list in
  match bindx (s_sig s) c with
  | BErr e => (RBind e :: undef)%list
  | BOk b =>
      (undef ++
       flat_map (name_check (s_callee s) (s_sig s)) (b_named b) ++
       flat_map (name_check (s_callee s) (s_sig s)) (b_xkw b) ++
       flat_map (shadow_check (s_sig s) (b_named b)) (s_wparams s))%list
  end.

Definition site_ok (s : site) : bool :=
  match site_check s with [] => true | _ => false end.

Definition bad_sites (l : list site) : list string :=
  map site_id (filter (fun s => negb (site_ok s)) l).

Definition bad_report (l : list site) : list (string * list reason) :=
  map (fun s => (site_id s, site_check s)) (filter (fun s => negb (site_ok s)) l).

(* sites of one wrapper *)
Definition sites_of (w : string) (l : list site) : list site :=
  filter (fun s => String.eqb (s_wrapper s) w) l.

(* rendering for the harness *)
Definition berr_str (e : berr) : string :=
  match e with
  | TooManyPositional => "TypeError: too many positional arguments"
  | BoundTwice p => "TypeError: multiple values for parameter " ++ p
  | UnknownKeyword k => "TypeError: unexpected keyword argument " ++ k
  | MissingRequired p => "TypeError: missing required argument " ++ p
  | StarArg => "call uses *e or **e (not analysed, rejected)"
  end.

Definition reason_str (r : reason) : string :=
  match r with
  | RBind e => berr_str e
  | RName x p => "wrapper parameter " ++ x ++ " lands on callee parameter " ++ p
  | RUndefined x => "NameError: name " ++ x ++ " is not defined in the wrapper"
  | RConstShadow x r => "wrapper parameter " ++ x ++ " ignored: callee parameter " ++ x ++ " receives the constant " ++ r
  | RDropped x => "wrapper parameter " ++ x ++ " ignored: callee parameter " ++ x ++ " is left at its default"
  | RLocalName x p => "local variable " ++ x ++ " lands on callee parameter " ++ p ++ " although the callee has a parameter " ++ x
  end.

Definition report (l : list site) : list (string * bool * list string) :=
  map (fun s => (site_id s, site_ok s, map reason_str (site_check s))) l.

(* ------------------------------------------- example data for Props/Calls.v -- *)
(* def f(a, b, c=0, *, d=1) *)
Definition ex_sig : signature :=
  mkSig [mkParam "a" false false; mkParam "b" false false; mkParam "c" true false;
         mkParam "d" true true] false false.
Definition ex_sig_kw : signature :=   (* def g(a, *args, **kwargs) *)
  mkSig [mkParam "a" false false] true true.

Definition ex_callee : signature :=
  mkSig [mkParam "G" false false; mkParam "tau" false false; mkParam "gamma" false false;
         mkParam "rho" true false] false false.
Definition ex_site (c : call) : site :=
  mkSite "W->F@0" "W" "simulation" 1%N ["G"; "tau"; "gamma"; "rho"] "F" "direct" ex_callee c.

