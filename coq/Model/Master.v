(* The exact Markovian SIR process on a finite contact network, as the master (Kolmogorov forward)
   equation on the 3^n joint states, and the functionals of a probability vector that the pair-based
   model _dSIR_pair_based_ (Model/Rhs2D.v) tracks.  Executable definitions only (proofs:
   Proofs/C08t*.v; statements: Props/C08t.v).  Extracted (Extract/XMaster.v, ocaml/master_driver.ml)
   and evaluated by harness/c08t.py against master equations built independently in Python.

   Conventions are those of the pair-based code: a node is a position 0 <= i < nN in `nodelist`
   (node_at i = nodelist[i], idx = index_of_node); a susceptible u is infected by an infected
   neighbour v at rate  tr u v = trans_rate_fxn(u, v)  (direction dependent; edge weights live here);
   an infected u recovers at rate  rc u = rec_rate_fxn(u)  (node weights live here).  Neighbours are
   `gadj G u` = G.neighbors(u).  tr and rc are arbitrary functions into Q: "with edge and node weights"
   is the general case of every statement, not a special one.

   A joint state is the list of the statuses (stS = 0, stI = 1, stR = 2 of Base/Graph.v) of positions
   0 .. n-1; a (signed) measure on joint states is any  p : state -> Q.  The master equation is
   dp/dt = master_rhs p; it is LINEAR in p. *)
From EoNV Require Import Prelude Vec Graph Rhs2D.

Definition state := list N.
Definition st_at (s : state) (i : nat) : N := nth i s stR.
Fixpoint upd (s : state) (i : nat) (x : N) : state :=
  match s with
  | [] => []
  | a :: t => match i with O => x :: t | S i' => a :: upd t i' x end
  end.
(* all joint states of n nodes, lexicographic, position 0 most significant: SS, SI, SR, IS, .. *)
Fixpoint all_states (n : nat) : list state :=
  match n with
  | O => [[]]
  | S n' => flat_map (fun a => map (cons a) (all_states n')) [stS; stI; stR]
  end.
(* rank of a state in all_states (base 3): a vector p : vec of length 3^n is read as fun s => p[code s] *)
Definition code (s : state) : nat := fold_left (fun acc a => (3 * acc + N.to_nat a)%nat) s 0%nat.
Definition pfun (p : vec) : state -> Q := fun s => vnth (code s) p.
Definition is1 (i : nat) (a : N) (s : state) : bool := N.eqb (st_at s i) a.

Section Master.
Variables (G : graph) (nodelist : list node) (idx : node -> nat).
Variables (tr : node -> node -> Q) (rc : node -> Q).
Notation nd := (node_at nodelist).
Notation n_ := (nN nodelist).

(* force of infection on position i in joint state s *)
Definition force (s : state) (i : nat) : Q :=
  sumQ (map (fun v => if is1 (idx v) stI s then tr (nd i) v else 0) (gadj G (nd i))).

(* contribution of the events AT position i to (dp/dt)(s):
     s_i = S: i leaves S at rate force s i;
     s_i = I: arrival from s[i := S] (at that state's rate), departure by recovery;
     s_i = R: arrival from s[i := I] by recovery *)
Definition master_term (p : state -> Q) (s : state) (i : nat) : Q :=
  match st_at s i with
  | N0 => - force s i * p s
  | Npos xH => force (upd s i stS) i * p (upd s i stS) - rc (nd i) * p s
  | _ => rc (nd i) * p (upd s i stI)
  end.
Definition master_rhs (p : state -> Q) (s : state) : Q := sumQ (map (master_term p s) (seq 0 n_)).
Definition master_vec (p : vec) : vec := map (master_rhs (pfun p)) (all_states n_).

(* the same term as  c0 * p s + c1 * p (prev s i)  (used by the expansion of the minors below) *)
Definition prev (s : state) (i : nat) : state :=
  match st_at s i with N0 => s | Npos xH => upd s i stS | _ => upd s i stI end.
Definition c0 (s : state) (i : nat) : Q :=
  match st_at s i with N0 => - force s i | Npos xH => - rc (nd i) | _ => 0 end.
Definition c1 (s : state) (i : nat) : Q :=
  match st_at s i with N0 => 0 | Npos xH => force (upd s i stS) i | _ => rc (nd i) end.

(* ---------------- marginals ---------------- *)
Definition prob (p : state -> Q) (c : state -> bool) : Q :=
  sumQ (map (fun s => if c s then p s else 0) (all_states n_)).
Definition m1 (p : state -> Q) (a : N) (i : nat) : Q := prob p (is1 i a).
Definition m2 (p : state -> Q) (a : N) (i : nat) (b : N) (j : nat) : Q :=
  prob p (fun s => is1 i a s && is1 j b s).
Definition m3 (p : state -> Q) (a : N) (i : nat) (b : N) (j : nat) (c : N) (k : nat) : Q :=
  prob p (fun s => is1 i a s && is1 j b s && is1 k c s).
(* the state vector of _dSIR_pair_based_: X ++ Y ++ XY ++ XX, the pair arrays being 0 off the edges
   (as SIR_pair_based's initial condition makes them, and as the code keeps them) *)
Definition mX (p : state -> Q) (i : nat) : Q := m1 p stS i.
Definition mY (p : state -> Q) (i : nat) : Q := m1 p stI i.
Definition mXY (p : state -> Q) (i j : nat) : Q := if is_edge G nodelist i j then m2 p stS i stI j else 0.
Definition mXX (p : state -> Q) (i j : nat) : Q := if is_edge G nodelist i j then m2 p stS i stS j else 0.
Definition marginals (p : state -> Q) : vec :=
  tab n_ (mX p) ++ tab n_ (mY p) ++ tab2 n_ n_ (mXY p) ++ tab2 n_ n_ (mXX p).

(* ---------------- the exact, UNCLOSED moment equations ---------------- *)
(* _dSIR_pair_based_ with every closure product  <A_i S_j> <S_j B_k> / <S_j>  replaced by the true triple
   probability  <A_i S_j B_k> *)
Definition open_in (p : state -> Q) (i j : nat) : Q :=
  let u := nd i in let v := nd j in
  sumQ (map (fun w => tr v w * m3 p stS i stS j stI (idx w)) (others u (gadj G v))).
Definition open_out (p : state -> Q) (a : N) (i j : nat) : Q :=
  let u := nd i in let v := nd j in
  sumQ (map (fun w => tr u w * m3 p stI (idx w) stS i a j) (others v (gadj G u))).
Definition open_dXY (p : state -> Q) (i j : nat) : Q :=
  if is_edge G nodelist i j then
    - (tr (nd i) (nd j) + rc (nd j)) * mXY p i j + open_in p i j - open_out p stI i j
  else 0.
Definition open_dXX (p : state -> Q) (i j : nat) : Q :=
  if is_edge G nodelist i j then - open_in p i j - open_out p stS i j else 0.
Definition open_rhs (p : state -> Q) : vec :=
  tab n_ (pbSIR_dX G nodelist idx tr (marginals p)) ++ tab n_ (pbSIR_dY G nodelist idx tr rc (marginals p))
  ++ tab2 n_ n_ (open_dXY p) ++ tab2 n_ n_ (open_dXX p).

(* what the closure asserts of p, for the path i - j - k (i, k distinct neighbours of j), A, B statuses *)
Definition closure_at (p : state -> Q) (a : N) (i j : nat) (b : N) (k : nat) : Prop :=
  m3 p a i stS j b k == m2 p a i stS j * m2 p stS j b k * inv0 (mX p j).

(* ---------------- separation: the invariant algebraic set ---------------- *)
(* U : positions -> bool is one side of a cut at position j (the value U j is irrelevant): no edge joins a
   position of U to a position outside U, other than through j *)
Definition sepb (j : nat) (U : nat -> bool) : bool :=
  forallb (fun a => forallb (fun b =>
     if (Nat.eqb a j || Nat.eqb b j || negb (U a) || U b)%bool then true
     else negb (is_edge G nodelist a b) && negb (is_edge G nodelist b a)) (seq 0 n_)) (seq 0 n_).
(* the U-part of s1 glued to the rest of s2 *)
Definition mix (U : nat -> bool) (s1 s2 : state) : state :=
  map (fun k => if U k then st_at s1 k else st_at s2 k) (seq 0 n_).
(* 2 x 2 minor of the matrix  (U-part, rest) |-> p  on the slice s_j = S; all of them vanish iff, given
   that j is susceptible, the U-part and the rest are independent *)
Definition minor (U : nat -> bool) (p : state -> Q) (s1 s2 : state) : Q :=
  p s1 * p s2 - p (mix U s1 s2) * p (mix U s2 s1).
(* its derivative at p in the direction q (product rule) *)
Definition dminor (U : nat -> bool) (p q : state -> Q) (s1 s2 : state) : Q :=
  q s1 * p s2 + p s1 * q s2 - q (mix U s1 s2) * p (mix U s2 s1) - p (mix U s1 s2) * q (mix U s2 s1).
Definition slice (j : nat) : list state := filter (is1 j stS) (all_states n_).
(* the set M_{j,U} *)
Definition inM (j : nat) (U : nat -> bool) (p : state -> Q) : Prop :=
  forall s1 s2, In s1 (slice j) -> In s2 (slice j) -> minor U p s1 s2 == 0.
(* along the master equation the minors obey a LINEAR system: d(minor)/dt = this combination of minors *)
Definition dminor_expand (U : nat -> bool) (p : state -> Q) (s1 s2 : state) : Q :=
  sumQ (map (fun i => (c0 s1 i + c0 s2 i) * minor U p s1 s2
                      + c1 s1 i * minor U p (prev s1 i) s2
                      + c1 s2 i * minor U p s1 (prev s2 i)) (seq 0 n_)).
(* closure residual as a sum of minors (i in U, k outside U, both <> j) *)
Definition residual (j : nat) (U : nat -> bool) (p : state -> Q) (a : N) (i : nat) (b : N) (k : nat) : Q :=
  sumQ (map (fun s1 => if (is1 i a s1 && is1 k b s1)%bool
                       then sumQ (map (fun s2 => minor U p s1 s2) (slice j)) else 0) (slice j)).

(* pure initial condition: the point mass at s0 *)
Definition state_eqb (s t : state) : bool := Nat.eqb (length s) (length t) && forallb (fun ab => N.eqb (fst ab) (snd ab)) (combine s t).
Definition delta (s0 : state) : state -> Q := fun s => if state_eqb s s0 then 1 else 0.
(* product-form initial condition (each node independently S / I / R with its own probabilities) *)
Definition product (w : nat -> N -> Q) : state -> Q :=
  fun s => fold_right Qmult 1 (map (fun i => w i (st_at s i)) (seq 0 n_)).
End Master.

(* ---------------- the three smallest trees with a closure term ---------------- *)
Definition adj_of (l : list (node * list node)) (u : node) : list node :=
  match find (fun kv => N.eqb (fst kv) u) l with Some kv => snd kv | None => [] end.
Definition graph_of (l : list (node * list node)) : graph :=
  mkGraph (map fst l) (adj_of l) (adj_of l) false (fun _ _ => 1) (fun _ => 1) false false.
Definition idx_of (u : node) : nat := N.to_nat u.
Definition nodes_upto (n : nat) : list node := map N.of_nat (seq 0 n).
(* path 0 - 1 - 2 *)
Definition path3 : graph := graph_of [(0, [1]); (1, [0; 2]); (2, [1])]%N.
(* path 0 - 1 - 2 - 3 *)
Definition path4 : graph := graph_of [(0, [1]); (1, [0; 2]); (2, [1; 3]); (3, [2])]%N.
(* star with centre 0 and leaves 1, 2, 3 *)
Definition star3 : graph := graph_of [(0, [1; 2; 3]); (1, [0]); (2, [0]); (3, [0])]%N.
Definition only (k : nat) : nat -> bool := Nat.eqb k.
Definition upto (k : nat) : nat -> bool := fun a => Nat.leb a k.
