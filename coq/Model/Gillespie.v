(* L2 model of EoN.simulation.Gillespie_SIR (sim:3013-3283) and Gillespie_SIS
   (sim:3284-3512), written as the code is: two _ListDict_ structures (the
   concrete model of Model/ListDict.v, keys = [u] for nodes and [u;v] for
   ordered I-S links), statuses in a total map, running count rows, the event
   log from which the full-data object is built.  Sampler programs (Base/Samp.v):
   [exec] runs them on scripted draws, [law] gives the jump distribution. *)
From EoNV Require Import Prelude Samp Graph ListDict.

Definition kld := ld key.
Definition kl_update (s : kld) (k : key) (w : option Q) : result kld := ld_update key keqb s k w.
Definition kl_remove (s : kld) (k : key) : result kld := ld_remove key keqb s k.
Definition kl_empty (w : bool) : kld := @ld_empty key w.

(* the candidates offered to choose_random, in canonical order, with the weight
   each would be accepted with (1 when unweighted) *)
Definition kl_cands (s : kld) : list (key * Q) :=
  ksort (map (fun k => (k, if weighted s then wread key s k else 1)) (items s)).

Definition wopt (flag : bool) (w : Q) : option Q := if flag then Some w else None.

Inductive model_kind := SIR | SIS.

Record gst := mkG {
  stat : node -> N;                          (* status, a defaultdict: 'S' *)
  infs : kld;                                (* infecteds *)
  links : kld;                               (* IS_links *)
  rows : list row;                           (* (t, [S; I; R]) newest first *)
  elog : list (Q * node * N);                (* full data: (time, node, new status) newest first *)
  tlog : list (Q * option node * node)       (* transmissions newest first *)
}.

Definition hd_counts (rs : list row) : list Z := match rs with (_, c) :: _ => c | [] => [] end.
Definition cnt (c : list Z) (i : nat) : Z := nth i c 0%Z.

(* ---- initial condition, shared by both simulators ---- *)
(* int(round(x)): Python rounds half to even *)
Definition round_half_even (x : Q) : Z :=
  let n := Qnum x in let d := Z.pos (Qden x) in
  let q := (n / d)%Z in let r := (n mod d)%Z in
  if (2 * r <? d)%Z then q else if (d <? 2 * r)%Z then (q + 1)%Z
  else if Z.even q then q else (q + 1)%Z.

Definition set_all (f : node -> N) (l : list node) (s : N) : node -> N :=
  fold_left (fun f u => fupdN f u s) l f.

(* for node in initial_infecteds: infecteds.update(node, w); for nbr in G.neighbors(node):
       if status[nbr]=='S': IS_links.update((node,nbr), w) *)
Definition init_sets (g : graph) (st : node -> N) (i0 : list node) : result (kld * kld) :=
  fold_left (fun acc u =>
    rbind acc (fun il =>
      rbind (kl_update (fst il) (knode u) (wopt (nwt g) (nw g u))) (fun infs' =>
      rbind (fold_left (fun accl v =>
               rbind accl (fun l => if N.eqb (st v) stS then kl_update l (kpair u v) (wopt (ewt g) (ew g u v)) else Ok l))
             (gadj g u) (Ok (snd il))) (fun links' => Ok (infs', links')))))
    i0 (Ok (kl_empty (nwt g), kl_empty (ewt g))).

Definition total_rec (gamma : Q) (s : gst) : Q := gamma * ld_total_weight key (infs s).
Definition total_tr (tau : Q) (s : gst) : Q := tau * ld_total_weight key (links s).

(* ---- one event ---- *)
Definition keynode (k : key) : result node := match k with [u] => Ok u | _ => Err TypeErr end.
Definition keypair (k : key) : result (node * node) := match k with [u; v] => Ok (u, v) | _ => Err TypeErr end.

Definition push_row (s : gst) (t : Q) (dS dI dR : Z) : list row :=
  let c := hd_counts (rows s) in
  (t, [cnt c 0 + dS; cnt c 1 + dI; cnt c 2 + dR]%Z) :: rows s.
Definition push_row2 (s : gst) (t : Q) (dS dI : Z) : list row :=
  let c := hd_counts (rows s) in
  (t, [cnt c 0 + dS; cnt c 1 + dI]%Z) :: rows s.

(* SIR recovery of u at time t (u already chosen; random_removal removes it) *)
Definition sir_recover (g : graph) (full : bool) (t : Q) (u : node) (s : gst) : result gst :=
  rbind (kl_remove (infs s) (knode u)) (fun infs' =>
  let st' := fupdN (stat s) u stR in
  rbind (fold_left (fun accl v =>
           rbind accl (fun l => if N.eqb (st' v) stS then kl_remove l (kpair u v) else Ok l))
         (gadj g u) (Ok (links s))) (fun links' =>
  Ok (mkG st' infs' links' (push_row s t 0 (-1) 1)
          (if full then (t, u, stR) :: elog s else elog s) (tlog s)))).

(* transmission u -> v at time t (both simulators: identical bookkeeping, except
   that the SIR code tests status[nbr]=='I' and the SIS code just "else") *)
Definition transmit (g : graph) (kind : model_kind) (full : bool) (t : Q) (u v : node) (s : gst) : result gst :=
  let st' := fupdN (stat s) v stI in
  rbind (kl_update (infs s) (knode v) (wopt (nwt g) (nw g v))) (fun infs' =>
  rbind (fold_left (fun accl x =>
           rbind accl (fun l =>
             if N.eqb (st' x) stS then kl_update l (kpair v x) (wopt (ewt g) (ew g v x))
             else match kind with
                  | SIR => if N.eqb (st' x) stI && negb (N.eqb x v) then kl_remove l (kpair x v) else Ok l
                  | SIS => if negb (N.eqb x v) then kl_remove l (kpair x v) else Ok l
                  end))
         (gadj g v) (Ok (links s))) (fun links' =>
  Ok (mkG st' infs' links'
          (match kind with SIR => push_row s t (-1) 1 0 | SIS => push_row2 s t (-1) 1 end)
          (if full then (t, v, stI) :: elog s else elog s)
          (if full then (t, Some u, v) :: tlog s else tlog s)))).

(* SIS recovery of u at time t: links out of u to S neighbours disappear, links
   from I neighbours into u appear with edgeweight(u, nbr) *)
Definition sis_recover (g : graph) (full : bool) (t : Q) (u : node) (s : gst) : result gst :=
  rbind (kl_remove (infs s) (knode u)) (fun infs' =>
  let st' := fupdN (stat s) u stS in
  rbind (fold_left (fun accl v =>
           rbind accl (fun l =>
             if N.eqb v u then Ok l
             else if N.eqb (st' v) stS then kl_remove l (kpair u v)
             else kl_update l (kpair v u) (wopt (ewt g) (ew g u v))))
         (gadj g u) (Ok (links s))) (fun links' =>
  Ok (mkG st' infs' links' (push_row2 s t 1 (-1))
          (if full then (t, u, stS) :: elog s else elog s) (tlog s)))).

Definition lift {A} (r : result A) (k : A -> samp simout) : samp simout :=
  match r with Ok a => k a | Err e => Fail e end.

(* ---- output ---- *)
(* _transform_to_node_history_ (sim:365-410): the history of a node starts as
   ([tmin],['S']); an entry whose time equals tmin resets it (SIS: only
   infection entries do) *)
Definition hist_of (kind : model_kind) (tmin : Q) (evs : list (Q * N)) : history :=
  fold_left (fun h e =>
    if Qeqb (fst e) tmin && (match kind with SIR => true | SIS => N.eqb (snd e) stI end)
    then [e] else h ++ [e]) evs [(tmin, stS)].

(* SIR: infection entries are replayed before recovery entries; per node that is
   the order of the log.  Only the first infection / first recovery time of a
   node is kept (L[0]); in an SIR run there is at most one of each. *)
Definition node_events (u : node) (log : list (Q * node * N)) : list (Q * N) :=
  map (fun e => (fst (fst e), snd e)) (filter (fun e => N.eqb (snd (fst e)) u) log).

Definition first_with (s : N) (evs : list (Q * N)) : list (Q * N) :=
  match filter (fun e => N.eqb (snd e) s) evs with e :: _ => [e] | [] => [] end.

Definition build_full (g : graph) (kind : model_kind) (tmin : Q) (s : gst) : fulldata :=
  let log := rev (elog s) in
  mkFull (map (fun u =>
            let evs := node_events u log in
            (u, hist_of kind tmin
                  (match kind with
                   | SIR => first_with stI evs ++ first_with stR evs
                   | SIS => evs
                   end))) (gnodes g))
         (rev (tlog s)).

Definition finish (g : graph) (kind : model_kind) (tmin : Q) (full : bool) (s : gst) : simout :=
  mkOut (rev (rows s)) (if full then Some (build_full g kind tmin s) else None).

(* ---- the loop ---- *)
(* [next s t k_continue] : recompute the rates, draw the delay, test the loop
   condition `infecteds and t < tmax` *)
Definition is_empty (l : kld) : bool := match items l with [] => true | _ => false end.

Section Loop.
Variable g : graph.
Variable kind : model_kind.
Variables tau gamma tmin : Q.
Variable tmax : xtime.
Variable full : bool.

(* one jump: which event happens and the state after it *)
Definition liftr {A} (r : result A) : samp A := match r with Ok a => Ret a | Err e => Fail e end.

Definition event_st (t : Q) (trec ttot : Q) (s : gst) : samp gst :=
  Flip (trec / ttot)
    (Choose (weighted (infs s)) (kl_cands (infs s)) (fun c =>
       liftr (rbind (keynode c) (fun u =>
         match kind with SIR => sir_recover g full t u s | SIS => sis_recover g full t u s end))))
    (Choose (weighted (links s)) (kl_cands (links s)) (fun c =>
       liftr (rbind (keypair c) (fun uv => transmit g kind full t (fst uv) (snd uv) s)))).

Definition event (t : Q) (trec ttot : Q) (s : gst) (k : gst -> samp simout) : samp simout :=
  bind (event_st t trec ttot s) k.

Fixpoint loop (fuel : nat) (t : Q) (s : gst) : samp simout :=
  (* invariant of the call: the rates of [s] are current and the delay to [t] has NOT been drawn yet *)
  let trec := total_rec gamma s in
  let ttot := trec + total_tr tau s in
  if Qltb 0 ttot then
    Expo ttot (fun d =>
      let t1 := t + d in
      if negb (is_empty (infs s)) && xlt t1 tmax then
        match fuel with
        | O => Fail OutOfFuel
        | S f => event t1 trec ttot s (fun s' => loop f t1 s')
        end
      else Ret (finish g kind tmin full s))
  else Ret (finish g kind tmin full s).   (* delay = Inf: `t < tmax` fails *)

End Loop.

(* the nodes a random start is drawn from: `list(G)`, or, when initial_recovereds is given (Gillespie_SIR only),
   `[node for node in G if node not in set(initial_recovereds)]` -- graph order, membership test only *)
Definition sample_pool (g : graph) (kind : model_kind) (r0 : option (list node)) : list node :=
  match kind, r0 with
  | SIR, Some l => filter (fun u => negb (mem u l)) (gnodes g)
  | _, _ => gnodes g
  end.

(* initial_infecteds: None (sample by rho or one node) or the given collection *)
Definition gillespie (g : graph) (kind : model_kind) (tau gamma : Q)
    (i0 : option (list node)) (r0 : option (list node)) (rho : option Q)
    (tmin : Q) (tmax : xtime) (full : bool) (fuel : nat) : samp simout :=
  match rho, i0 with
  | Some _, Some _ => Fail EoNError
  | _, _ =>
    let with_i0 (i0 : list node) : samp simout :=
      let r0l := match kind, r0 with SIR, Some l => l | _, _ => [] end in
      let nI := Z.of_nat (length i0) in let nR := Z.of_nat (length r0l) in
      let st0 := set_all (set_all (fun _ => stS) i0 stI) r0l stR in
      let rows0 := match kind with
                   | SIR => [(tmin, [order g - nI - nR; nI; nR]%Z)]
                   | SIS => [(tmin, [order g - nI; nI]%Z)]
                   end in
      let elog0 := if full then rev (map (fun u => (tmin, u, stI)) i0 ++ map (fun u => (tmin, u, stR)) r0l) else [] in
      let tlog0 := if full then rev (map (fun u => (tmin, None, u)) i0) else [] in
      lift (init_sets g st0 i0) (fun il =>
        loop g kind tau gamma tmin tmax full fuel tmin (mkG st0 (fst il) (snd il) rows0 elog0 tlog0)) in
    (* Gillespie_SIR: "cannot define both initial_recovereds and rho" (Gillespie_SIS has no such argument) *)
    match rho, r0, kind with
    | Some _, Some _, SIR => Fail EoNError
    | _, _, _ =>
    match i0 with
    | Some l => with_i0 l
    | None =>
      let n := match rho with None => 1%Z | Some r => round_half_even (Qnat (length (gnodes g)) * r) end in
      if (n <? 0)%Z then Fail ValueErr
      else Sample (map knode (sample_pool g kind r0)) (Z.to_nat n) (fun ks =>
             with_i0 (concat ks))
    end
    end
  end.

Definition run_gillespie g kind tau gamma i0 r0 rho tmin tmax full fuel (ds : list Q) :=
  exec (gillespie g kind tau gamma i0 r0 rho tmin tmax full fuel) ds [].
