(* L2 model of EoN.simulation.Gillespie_simple_contagion (sim:3782-4327), written
   as the code is.  Statuses are N (the harness maps the user's status labels to
   N: by rank in Python's order when they are sortable, by first appearance
   otherwise).  A transition carries its source and target as keys of statuses
   ([A] -> [B] spontaneous, [A;B] -> [A';C] neighbour-induced), its rate and its
   weight source.  One _ListDict_ (Model/ListDict.v, through the [kld] helpers of
   Model/Gillespie.v) and one [get_weight] dictionary per transition, in the
   order `spontaneous_transitions + induced_transitions` that the cascade
   `r -= rate*total_weight/total_rate` walks through. *)
From EoNV Require Import Prelude Samp Graph ListDict Gillespie.

(* ---------------- dictionaries keyed by nodes / ordered pairs ---------------- *)
Definition tab := list (key * Q).
Fixpoint tlook (t : tab) (k : key) : option Q :=
  match t with
  | [] => None
  | (k', w) :: r => if keqb k k' then Some w else tlook r k
  end.

Definition kswap (k : key) : key := match k with [a; b] => [b; a] | _ => k end.

(* weight source of a spec edge: none / 'weight_label' (the dictionary
   nx.get_node_attributes(G, wl) resp. nx.get_edge_attributes(G, wl): only the
   nodes / edges that carry the attribute, edges in the orientation of G.edges())
   / 'rate_function' (a deterministic function of the node resp. ordered pair,
   evaluated once at set-up) / both given (rejected with EoNError) *)
Inductive wsrc :=
| WNone
| WLabel (t : tab)
| WFun (f : key -> Q)
| WBoth.

Record trans := mkTr {
  tr_from : key;      (* [A]  or [A; B]  *)
  tr_to : key;        (* [B]  or [A'; C] *)
  tr_rate : Q;
  tr_w : wsrc
}.

(* one entry of potential_transitions / get_weight.  [sl_gw = None] is the
   defaultdict(lambda: None) of a transition without weight source: every lookup
   answers None and never fails *)
Record slot := mkSlot {
  sl_tr : trans;
  sl_pot : kld;
  sl_gw : option tab
}.

(* sorted(graph.edges()): tuples of statuses compare lexicographically; when the
   statuses are not sortable (TypeError) the code keeps list(graph.edges()) *)
Definition sort_trans (sortable : bool) (l : list trans) : list trans :=
  if sortable then map snd (ksort (map (fun tr => (tr_from tr ++ tr_to tr, tr)) l)) else l.

(* all ordered adjacent pairs: list(G.edges()) when G is directed; G.edges()
   together with the reversed edges (the `update` of sim:4156/4163) otherwise *)
Definition gpairs (g : graph) : list key :=
  flat_map (fun u => map (fun v => kpair u v) (gadj g u)) (gnodes g).

(* ---------------- set-up (sim:4121-4166) ---------------- *)
Definition setup_spont (g : graph) (tr : trans) : result slot :=
  match tr_w tr with
  | WBoth => Err EoNError
  | WLabel t => Ok (mkSlot tr (kl_empty true) (Some t))
  | WFun f => Ok (mkSlot tr (kl_empty true) (Some (map (fun u => (knode u, f (knode u))) (gnodes g))))
  | WNone => Ok (mkSlot tr (kl_empty false) None)
  end.

Definition hd_status (k : key) : N := match k with a :: _ => a | [] => 0%N end.
Definition snd_status (k : key) : N := match k with _ :: b :: _ => b | _ => 0%N end.

Definition setup_induced (g : graph) (tr : trans) : result slot :=
  if negb (N.eqb (hd_status (tr_from tr)) (hd_status (tr_to tr))) then Err EoNError
  else match tr_w tr with
  | WBoth => Err EoNError
  | WLabel t =>
    Ok (mkSlot tr (kl_empty true)
               (Some (if gdirected g then t else t ++ map (fun kw => (kswap (fst kw), snd kw)) t)))
  | WFun f => Ok (mkSlot tr (kl_empty true) (Some (map (fun k => (k, f k)) (gpairs g))))
  | WNone => Ok (mkSlot tr (kl_empty false) None)
  end.

Fixpoint rmap {A B} (f : A -> result B) (l : list A) : result (list B) :=
  match l with
  | [] => Ok []
  | x :: r => rbind (f x) (fun y => rbind (rmap f r) (fun ys => Ok (y :: ys)))
  end.

(* get_weight[transition][k] *)
Definition gw_get (gw : option tab) (k : key) : result (option Q) :=
  match gw with
  | None => Ok None
  | Some t => match tlook t k with Some w => Ok (Some w) | None => Err KeyErr end
  end.

(* potential_transitions[tr].update(k, weight_increment = get_weight[tr][k]) *)
Definition add_actor (k : key) (sl : slot) : result slot :=
  rbind (gw_get (sl_gw sl) k) (fun w =>
  rbind (kl_update (sl_pot sl) k w) (fun p => Ok (mkSlot (sl_tr sl) p (sl_gw sl)))).

(* potential_transitions[tr].remove(k) *)
Definition rem_actor (k : key) (sl : slot) : result slot :=
  rbind (kl_remove (sl_pot sl) k) (fun p => Ok (mkSlot (sl_tr sl) p (sl_gw sl))).

Definition from_is (sl : slot) (k : key) : bool := keqb (tr_from (sl_tr sl)) k.

Definition when (b : bool) (f : slot -> result slot) (sl : slot) : result slot :=
  if b then f sl else Ok sl.

(* the initial filling (sim:4169-4180) *)
Definition init_node (g : graph) (st : node -> N) (u : node) (ss : list slot * list slot)
  : result (list slot * list slot) :=
  rbind (rmap (fun sl => when (from_is sl [st u]) (add_actor (knode u)) sl) (fst ss)) (fun sp' =>
  rbind (fold_left (fun acc v => rbind acc (fun inn =>
           rmap (fun sl => when (from_is sl [st u; st v]) (add_actor (kpair u v)) sl) inn))
         (gadj g u) (Ok (snd ss))) (fun inn' => Ok (sp', inn'))).

Definition init_all (g : graph) (st : node -> N) (sp inn : list slot) : result (list slot * list slot) :=
  fold_left (fun acc u => rbind acc (init_node g st u)) (gnodes g) (Ok (sp, inn)).

(* ---------------- the state of the loop ---------------- *)
Record sst := mkS {
  s_stat : node -> N;
  s_sp : list slot;                              (* spontaneous transitions, in order *)
  s_in : list slot;                              (* induced transitions, in order *)
  s_rows : list row;                             (* (t, [data[rs][-1] for rs in return_statuses]) newest first *)
  s_elog : list (Q * node * N);                  (* node_history appends, newest first *)
  s_tlog : list (Q * option node * node)         (* transmissions, newest first *)
}.

Definition slot_rate (sl : slot) : Q := tr_rate (sl_tr sl) * ld_total_weight key (sl_pot sl).
Definition total_rate (s : sst) : Q := sumQ (map slot_rate (s_sp s ++ s_in s)).

(* roundoff guard (sim:4252, 4305): total_weight() < 10**(-7) and != 0 ->
   update_total_weight(): _total_weight = sum(weight[item] for item in items).
   An unweighted _ListDict_ has no attribute `weight` (AttributeError); its
   total_weight() is a length, never in (0, 1e-7). *)
Definition tiny : Q := 1 # 10000000.
Definition refresh (sl : slot) : result slot :=
  let p := sl_pot sl in
  let tw := ld_total_weight key p in
  if Qltb tw tiny && negb (Qeqb tw 0) then
    if weighted p then
      Ok (mkSlot (sl_tr sl)
                 (mkLD true (items p) (pos p) (wt p) (maxw p) (maxc p)
                       (sumQ (map (wread key p) (items p))))
                 (sl_gw sl))
    else Err TypeErr
  else Ok sl.

(* the `not in get_weight[transition]` fill-ins of the update loops *)
Definition gw_set (sl : slot) (t : tab) : slot := mkSlot (sl_tr sl) (sl_pot sl) (Some t).

(* directed, successor loop (sim:4264) and first half of the undirected one (sim:4287) *)
Definition fill_fwd (m nbr : node) (sl : slot) : result slot :=
  match sl_gw sl with
  | None => Ok sl
  | Some t =>
    match tlook t (kpair m nbr) with
    | Some _ => Ok sl
    | None => match tlook t (kpair nbr m) with
              | Some w => Ok (gw_set sl ((kpair m nbr, w) :: t))
              | None => Err KeyErr
              end
    end
  end.

(* undirected (sim:4287-4290): if .. elif *)
Definition fill_undirected (m nbr : node) (sl : slot) : result slot :=
  match sl_gw sl with
  | None => Ok sl
  | Some t =>
    match tlook t (kpair m nbr) with
    | None => match tlook t (kpair nbr m) with
              | Some w => Ok (gw_set sl ((kpair m nbr, w) :: t))
              | None => Err KeyErr
              end
    | Some w => match tlook t (kpair nbr m) with
                | None => Ok (gw_set sl ((kpair nbr m, w) :: t))
                | Some _ => Ok sl
                end
    end
  end.

(* directed, predecessor loop (sim:4275): get_weight[(pred,m)] = get_weight[(pred,m)] *)
Definition fill_pred (m p : node) (sl : slot) : result slot :=
  match sl_gw sl with
  | None => Ok sl
  | Some t => match tlook t (kpair p m) with Some _ => Ok sl | None => Err KeyErr end
  end.

Section Update.
Variable g : graph.
Variable st' : node -> N.        (* statuses after the change *)
Variable m : node.               (* modified_node *)
Variables old new : N.           (* old_status (from the transition), status[modified_node] *)

(* sim:4242-4253 *)
Definition upd_spont (sl : slot) : result slot :=
  rbind (when (from_is sl [old]) (rem_actor (knode m)) sl) (fun sl =>
  rbind (when (from_is sl [new]) (add_actor (knode m)) sl) refresh).

(* sim:4258-4269 *)
Definition upd_succ (nbr : node) (sl : slot) : result slot :=
  let ns := st' nbr in
  rbind (fill_fwd m nbr sl) (fun sl =>
  rbind (when (from_is sl [old; ns]) (rem_actor (kpair m nbr)) sl) (fun sl =>
  when (from_is sl [new; ns]) (add_actor (kpair m nbr)) sl)).

(* sim:4270-4280 *)
Definition upd_pred (p : node) (sl : slot) : result slot :=
  let ps := st' p in
  rbind (fill_pred m p sl) (fun sl =>
  rbind (when (from_is sl [ps; old]) (rem_actor (kpair p m)) sl) (fun sl =>
  when (from_is sl [ps; new]) (add_actor (kpair p m)) sl)).

(* sim:4282-4300 *)
Definition upd_nbr (nbr : node) (sl : slot) : result slot :=
  let ns := st' nbr in
  rbind (fill_undirected m nbr sl) (fun sl =>
  rbind (when (from_is sl [ns; old]) (rem_actor (kpair nbr m)) sl) (fun sl =>
  rbind (when (from_is sl [old; ns]) (rem_actor (kpair m nbr)) sl) (fun sl =>
  rbind (when (from_is sl [ns; new]) (add_actor (kpair nbr m)) sl) (fun sl =>
  when (from_is sl [new; ns]) (add_actor (kpair m nbr)) sl)))).

Definition rfold (f : node -> slot -> result slot) (l : list node) (sl : slot) : result slot :=
  fold_left (fun acc x => rbind acc (f x)) l (Ok sl).

Definition upd_induced (sl : slot) : result slot :=
  rbind (if gdirected g
         then rbind (rfold upd_succ (gadj g m) sl) (rfold upd_pred (gpred g m))
         else rfold upd_nbr (gadj g m) sl) refresh.
End Update.

(* ---------------- one event (sim:4199-4306) ---------------- *)
Definition b2z (b : bool) : Z := if b then 1%Z else 0%Z.

(* for x in data: data[x].append(data[x][-1]); data[old][-1] -= 1; data[new][-1] += 1 *)
Definition next_counts (rstat : list N) (last : list Z) (old new : N) : list Z :=
  map (fun rc => (snd rc - b2z (N.eqb (fst rc) old) + b2z (N.eqb (fst rc) new))%Z) (combine rstat last).

Definition apply_event (g : graph) (rstat : list N) (full : bool) (t : Q)
    (spontaneous : bool) (tr : trans) (actor : key) (s : sst) : result sst :=
  rbind (if spontaneous
         then rbind (keynode actor) (fun u => Ok (None, u, hd_status (tr_from tr), hd_status (tr_to tr)))
         else rbind (keypair actor) (fun uv =>
                Ok (Some (fst uv), snd uv, snd_status (tr_from tr), snd_status (tr_to tr))))
        (fun x =>
  let '(src, m, old, new) := x in
  let st' := fupdN (s_stat s) m new in
  rbind (rmap (upd_spont m old new) (s_sp s)) (fun sp' =>
  rbind (rmap (upd_induced g st' m old new) (s_in s)) (fun in' =>
  Ok (mkS st' sp' in'
          ((t, next_counts rstat (hd_counts (s_rows s)) old new) :: s_rows s)
          (if full then (t, m, new) :: s_elog s else s_elog s)
          (match src with
           | Some u => if full then (t, Some u, m) :: s_tlog s else s_tlog s
           | None => s_tlog s
           end))))).

(* ---------------- output ---------------- *)
(* Simulation_Investigation(G, node_history, transmissions, possible_statuses =
   return_statuses): its constructor calls summary(), which skips a node whose
   first status is not a possible status, raises KeyError at a later status that
   is not one, and IndexError (t[0] of an empty array) when no node is left *)
Definition si_constructor (rstat : list N) (h : list (node * history)) : result unit :=
  let inrs (s : N) := existsb (N.eqb s) rstat in
  let kept := filter (fun uh => match snd uh with (_, s0) :: _ => inrs s0 | [] => false end) h in
  if existsb (fun uh => negb (forallb (fun e => inrs (snd e)) (snd uh))) kept then Err KeyErr
  else match kept with [] => Err IndexErr | _ => Ok tt end.

Definition histories (g : graph) (ic : node -> N) (tmin : Q) (s : sst) : list (node * history) :=
  let log := rev (s_elog s) in
  map (fun u => (u, (tmin, ic u) :: node_events u log)) (gnodes g).

Definition finish (g : graph) (ic : node -> N) (rstat : list N) (tmin : Q) (full : bool) (s : sst)
  : result simout :=
  if full then
    let h := histories g ic tmin s in
    rbind (si_constructor rstat h) (fun _ =>
    Ok (mkOut (rev (s_rows s)) (Some (mkFull h (rev (s_tlog s))))))
  else Ok (mkOut (rev (s_rows s)) None).

(* ---------------- the loop (sim:4185-4313) ---------------- *)
Section Loop.
Variable g : graph.
Variable ic : node -> N.
Variable rstat : list N.
Variable tmin : Q.
Variable tmax : xtime.
Variable full : bool.

(* which transition, which actor: r = random.random(); for transition in
   spontaneous_transitions+induced_transitions: r -= rate*total_weight/total_rate;
   if r<0: break;  then potential_transitions[transition].choose_random() *)
Definition select (s : sst) : samp (nat * key) :=
  let slots := s_sp s ++ s_in s in
  let total := total_rate s in
  Casc (map (fun sl => slot_rate sl / total) slots) (fun i =>
    match nth_error slots i with
    | None => Fail IndexErr
    | Some sl => Choose (weighted (sl_pot sl)) (kl_cands (sl_pot sl)) (fun actor => Ret (i, actor))
    end).

Definition fire (t : Q) (s : sst) (ia : nat * key) : result sst :=
  let slots := s_sp s ++ s_in s in
  match nth_error slots (fst ia) with
  | None => Err IndexErr
  | Some sl => apply_event g rstat full t (Nat.ltb (fst ia) (length (s_sp s))) (sl_tr sl) (snd ia) s
  end.

Definition lifts {A} (r : result A) : samp A := match r with Ok a => Ret a | Err e => Fail e end.

(* one jump, Expo-free: its [law] is the jump distribution *)
Definition jump (t : Q) (s : sst) : samp sst := bind (select s) (fun ia => lifts (fire t s ia)).

Fixpoint loop (fuel : nat) (t : Q) (s : sst) : samp simout :=
  let total := total_rate s in
  if Qltb 0 total then
    Expo total (fun d =>
      let t1 := t + d in
      if xlt t1 tmax then
        match fuel with
        | O => Fail OutOfFuel
        | S f => bind (jump t1 s) (fun s' => loop f t1 s')
        end
      else lifts (finish g ic rstat tmin full s))
  else lifts (finish g ic rstat tmin full s).      (* delay = Inf: `t < tmax` fails *)
End Loop.

Definition count_status (g : graph) (st : node -> N) (x : N) : Z :=
  Z.of_nat (length (filter (fun u => N.eqb (st u) x) (gnodes g))).

Definition simple (g : graph) (sortable : bool) (spont induced : list trans) (ic : node -> N)
    (rstat : list N) (tmin : Q) (tmax : xtime) (full : bool) (fuel : nat) : samp simout :=
  let row0 := (tmin, map (count_status g ic) rstat) in
  match rbind (rmap (setup_spont g) (sort_trans sortable spont)) (fun sp =>
        rbind (rmap (setup_induced g) (sort_trans sortable induced)) (fun inn =>
        init_all g ic sp inn)) with
  | Err e => Fail e
  | Ok (sp, inn) => loop g ic rstat tmin tmax full fuel tmin (mkS ic sp inn [row0] [] [])
  end.

Definition run_simple g sortable spont induced ic rstat tmin tmax full fuel (ds : list Q) :=
  exec (simple g sortable spont induced ic rstat tmin tmax full fuel) ds [].
