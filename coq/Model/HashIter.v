(* C18 support: data types of Gen/HashIter.v (written by translate/hashiter2v.py) and
   executable queries over it.  The classification rules are in the header of the
   generated file and in the translator's docstring. *)
From Coq Require Import String List Bool.
Import ListNotations.
Open Scope string_scope.

(* how the order in which a loop visits its iterable is determined *)
Inductive iter_kind :=
| SetOrder      (* a set: hash order (PYTHONHASHSEED-dependent for str keys, value-dependent for ints) *)
| DictOrder     (* a dict view: insertion order (Python >= 3.7) *)
| GraphOrder    (* networkx nodes/neighbors/edges: insertion order of the adjacency dicts *)
| ParamOrder    (* a parameter: whatever the caller passed *)
| ListOrder     (* list / range / sorted / array: positional *)
| OtherOrder.   (* not classified *)

(* (function containing the loop, line, kind, source text of the iterable) *)
Definition iter_site := (string * nat * iter_kind * string)%type.

Definition site_fn (s : iter_site) : string := fst (fst (fst s)).
Definition site_line (s : iter_site) : nat := snd (fst (fst s)).
Definition site_kind (s : iter_site) : iter_kind := snd (fst s).
Definition site_text (s : iter_site) : string := snd s.

Definition kind_eqb (a b : iter_kind) : bool :=
  match a, b with
  | SetOrder, SetOrder | DictOrder, DictOrder | GraphOrder, GraphOrder
  | ParamOrder, ParamOrder | ListOrder, ListOrder | OtherOrder, OtherOrder => true
  | _, _ => false
  end.

Definition table := list (string * list iter_site).

Fixpoint sites_of_entry (t : table) (entry : string) : list iter_site :=
  match t with
  | [] => []
  | (e, l) :: t' => if String.eqb e entry then l else sites_of_entry t' entry
  end.

Definition kind_sites_in (k : iter_kind) (t : table) (entry : string) : list iter_site :=
  filter (fun s => kind_eqb (site_kind s) k) (sites_of_entry t entry).

Definition set_iter_sites_in (t : table) (entry : string) : list iter_site :=
  kind_sites_in SetOrder t entry.

Definition has_set_iter_in (t : table) (entry : string) : bool :=
  match set_iter_sites_in t entry with [] => false | _ => true end.

Definition entries (t : table) : list string := map fst t.

Definition entries_with_set_iter (t : table) : list string :=
  filter (has_set_iter_in t) (entries t).

(* (function, line) of the SetOrder loops of an entry point *)
Definition set_iter_where (t : table) (entry : string) : list (string * nat) :=
  map (fun s => (site_fn s, site_line s)) (set_iter_sites_in t entry).

(* loops not classified: these need a human look before "no SetOrder loop" is relied on *)
Definition other_iter_where (t : table) (entry : string) : list (string * nat * string) :=
  map (fun s => (site_fn s, site_line s, site_text s)) (kind_sites_in OtherOrder t entry).
