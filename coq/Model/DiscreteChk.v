(* Decidable checkers for the outputs of the discrete-time simulators (discrete_SIR,
   basic_discrete_SIR, percolation_based_discrete_SIR: 3 columns S I R;
   basic_discrete_SIS: 2 columns S I), properties C04 / C05 / C09.  Executable
   definitions only; soundness and "every model run is accepted" are proved in
   Proofs/DiscreteC04.v, DiscreteC09.v; extracted (Extract/XDiscx.v) and applied by
   harness/discx.py to the IMPLEMENTATION's own arrays, node histories and
   transmissions(). *)
From EoNV Require Import Prelude Samp Graph Discrete.

Definition cntz (c : list Z) (i : nat) : Z := nth i c 0%Z.

(* ---------------- C04: the arrays ---------------- *)
(* a row of counts: the right number of columns, non-negative, summing to N *)
Definition drow_okb (sir : bool) (n : Z) (c : list Z) : bool :=
  Nat.eqb (length c) (if sir then 3 else 2) && forallb (fun x => (0 <=? x)%Z) c && (sumZ c =? n)%Z.

(* consecutive rows a -> b of one time step.  SIR: S does not increase, R does not
   decrease, at most the I nodes recover; [onestep] (no test_recovery): every infectious
   node recovers after exactly one step, R' = R + I.  SIS: every infectious node becomes
   susceptible again, the new infections come from the nodes that were not infectious *)
Definition dmove_okb (sir onestep : bool) (a b : list Z) : bool :=
  if sir then
    (cntz b 0 <=? cntz a 0)%Z && (cntz a 2 <=? cntz b 2)%Z && (cntz b 2 - cntz a 2 <=? cntz a 1)%Z &&
    (if onestep then (cntz b 2 =? cntz a 2 + cntz a 1)%Z else true)
  else (cntz b 1 <=? cntz a 0)%Z.

(* the step from row a to row b was taken by the loop `while infecteds and t[-1] < tmax`:
   a has an infected node and is before tmax; b is exactly one unit later *)
Definition dpair_okb (sir onestep : bool) (n : Z) (tmax : xtime) (a b : row) : bool :=
  (0 <? cntz (snd a) 1)%Z && xlt (fst a) tmax && Qeqb (fst b) (fst a + 1) &&
  drow_okb sir n (snd b) && dmove_okb sir onestep (snd a) (snd b).

(* rows newest first *)
Fixpoint dchainb (sir onestep : bool) (n : Z) (tmin : Q) (tmax : xtime) (rows : list row) : bool :=
  match rows with
  | [] => false
  | b :: rest =>
    match rest with
    | [] => Qeqb (fst b) tmin && drow_okb sir n (snd b)
    | a :: _ => dpair_okb sir onestep n tmax a b && dchainb sir onestep n tmin tmax rest
    end
  end.

(* the loop stopped: no infected node is left, or the last time is not before tmax *)
Definition dstopb (tmax : xtime) (r : row) : bool :=
  (cntz (snd r) 1 =? 0)%Z || negb (xlt (fst r) tmax).

(* the returned arrays, oldest first *)
Definition dwf_rowsb (sir onestep : bool) (g : graph) (tmin : Q) (tmax : xtime) (rows : list row) : bool :=
  match rev rows with
  | [] => false
  | last :: _ => dchainb sir onestep (order g) tmin tmax (rev rows) && dstopb tmax last
  end.

(* ---------------- C05: the initial condition ---------------- *)
Fixpoint zeqb_list (a b : list Z) : bool :=
  match a, b with
  | [], [] => true
  | x :: a', y :: b' => Z.eqb x y && zeqb_list a' b'
  | _, _ => false
  end.

Definition row0_of (sir : bool) (g : graph) (i0 r0 : list node) : list Z :=
  if sir then [(order g - lenZ i0 - lenZ r0)%Z; lenZ i0; lenZ r0]
  else [(order g - lenZ i0)%Z; lenZ i0].

Definition assocN {V} (l : list (node * V)) (u : node) : option V :=
  match find (fun e => N.eqb (fst e) u) l with Some e => Some (snd e) | None => None end.

(* row 0 is the request; with full data every node history starts with (tmin, requested
   status) and the history of an initially recovered node has no other entry *)
Definition dinit_okb (sir : bool) (g : graph) (i0 r0 : list node) (tmin : Q)
    (rows : list row) (hist : option (list (node * history))) : bool :=
  match rows with
  | [] => false
  | r :: _ => Qeqb (fst r) tmin && zeqb_list (snd r) (row0_of sir g i0 r0)
  end &&
  match hist with
  | None => true
  | Some hs =>
    forallb (fun u =>
      match assocN hs u with
      | Some (e :: rest) =>
        Qeqb (fst e) tmin && N.eqb (snd e) (init_status i0 r0 u) &&
        (if mem u r0 then match rest with [] => true | _ => false end else true)
      | _ => false
      end) (gnodes g)
  end.

(* ---------------- C09: transmissions of the full-data object ---------------- *)
Definition tx := (Q * option node * node)%type.
Definition tx_t (e : tx) : Q := fst (fst e).
Definition tx_s (e : tx) : option node := snd (fst e).
Definition tx_v (e : tx) : node := snd e.

(* the status of a node at time t according to its history: the last entry at or before t *)
Fixpoint hstatus (h : history) (t : Q) (cur : option N) : option N :=
  match h with
  | [] => cur
  | (t', s) :: r => if Qleb t' t then hstatus r t (Some s) else hstatus r t cur
  end.
Definition status_in (hs : list (node * history)) (u : node) (t : Q) : option N :=
  match assocN hs u with Some h => hstatus h t None | None => None end.
Definition is_st (o : option N) (s : N) : bool := match o with Some x => N.eqb x s | None => false end.

(* does the history of v have the entry (t, I) *)
Definition infected_at (hs : list (node * history)) (v : node) (t : Q) : bool :=
  match assocN hs v with
  | Some h => existsb (fun e => Qeqb (fst e) t && N.eqb (snd e) stI) h
  | None => false
  end.

(* a sourced entry (t, u, v), discrete convention (dated by the contact step): u -> v is an
   edge, u is infectious at t, v is susceptible at t and turns infectious at t + 1 *)
Definition dentry_okb (g : graph) (tmin : Q) (hs : list (node * history)) (e : tx) : bool :=
  match tx_s e with
  | None => true
  | Some u =>
    mem u (gnodes g) && mem (tx_v e) (gadj g u) && Qleb tmin (tx_t e) &&
    is_st (status_in hs u (tx_t e)) stI && is_st (status_in hs (tx_v e) (tx_t e)) stS &&
    infected_at hs (tx_v e) (tx_t e + 1)
  end.

Definition count_tx (txs : list tx) (t : Q) (v : node) : nat :=
  length (filter (fun e => Qeqb (tx_t e) t && N.eqb (tx_v e) v && match tx_s e with Some _ => true | None => false end) txs).

Fixpoint tsortedb (l : list tx) : bool :=
  match l with
  | [] => true
  | a :: r => match r with [] => true | b :: _ => Qleb (tx_t a) (tx_t b) && tsortedb r end
  end.

(* transmissions() against the node histories and the graph:
   - the entries are time-ordered;
   - the source-less entries are exactly one per initially infected node, dated tmin - 1;
   - every sourced entry is valid (dentry_okb);
   - every infection after tmin (an entry (t, I) in a node history with t > tmin) has exactly
     one sourced entry (t - 1, _, v);
   - SIR: no node is the target of two entries (with the above: a forest rooted at I0) *)
Definition dtx_okb (sir : bool) (g : graph) (i0 : list node) (tmin : Q)
    (hs : list (node * history)) (txs : list tx) : bool :=
  tsortedb txs &&
  forallb (fun e => match tx_s e with
                    | None => mem (tx_v e) i0 && Qeqb (tx_t e) (tmin - 1)
                    | Some _ => true
                    end) txs &&
  forallb (fun u => Nat.eqb (length (filter (fun e => match tx_s e with None => N.eqb (tx_v e) u | Some _ => false end) txs)) 1) i0 &&
  forallb (dentry_okb g tmin hs) txs &&
  forallb (fun v =>
    match assocN hs v with
    | Some h => forallb (fun e => if N.eqb (snd e) stI && Qltb tmin (fst e)
                                  then Nat.eqb (count_tx txs (fst e - 1) v) 1 else true) h
    | None => false
    end) (gnodes g) &&
  (if sir then nodupb (map tx_v txs) else true).
