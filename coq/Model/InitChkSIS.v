(* C05 for the event-driven SIS simulators (fast_SIS, fast_nonMarkov_SIS): executable
   definitions only.
   (1) The argument forms of initial_infecteds as the code treats them (sim:2763-2771,
       2952-2960): `rho is not None and initial_infecteds is not None` -> EoNError first;
       None -> random.sample; `G.has_node(initial_infecteds)` -> the one-element list;
       anything else is iterated (`for u in initial_infecteds`: a non-iterable that is not a
       node raises TypeError).  Model/EventSIS.v takes the normalised [option (list node)].
   (2) The decidable checker "the output starts from the request", extracted
       (Extract/XXsis05.v) and applied by harness/xsis05.py to the IMPLEMENTATION's outputs. *)
From EoNV Require Import Prelude Samp Graph EventSIS InitChk.

Inductive init_arg :=
| IAbsent                    (* initial_infecteds=None *)
| IOne (x : node)            (* a single hashable value *)
| IMany (l : list node).     (* any sized collection, by its element list in iteration order *)

Definition norm_initial (g : graph) (a : init_arg) : result (option (list node)) :=
  match a with
  | IAbsent => Ok None
  | IOne x => if mem x (gnodes g) then Ok (Some [x]) else Err TypeErr
  | IMany l => Ok (Some l)
  end.

Definition arg_given (a : init_arg) : bool := match a with IAbsent => false | _ => true end.

Definition fast_SIS_arg (g : graph) (tau gamma : Q) (tmax : xtime) (a : init_arg) (rho : option Q)
    (tmin : Q) (full : bool) (fuel : nat) : samp simout :=
  match rho with
  | Some _ => if arg_given a then Fail EoNError else fast_SIS g tau gamma tmax None rho tmin full fuel
  | None =>
    match norm_initial g a with
    | Ok i0 => fast_SIS g tau gamma tmax i0 None tmin full fuel
    | Err e => Fail e
    end
  end.

Definition fast_nonMarkov_SIS_arg (g : graph) (dur : node -> nat -> Q) (delays : node -> node -> nat -> list Q)
    (tmax : xtime) (a : init_arg) (rho : option Q) (tmin : Q) (full : bool) (fuel : nat) : samp simout :=
  match rho with
  | Some _ => if arg_given a then Fail EoNError else fast_nonMarkov_SIS g dur delays tmax None rho tmin full fuel
  | None =>
    match norm_initial g a with
    | Ok i0 => fast_nonMarkov_SIS g dur delays tmax i0 None tmin full fuel
    | Err e => Fail e
    end
  end.

(* ---------------- the checker ---------------- *)
Definition tx_t := (Q * option node * node)%type.

(* a sourced transmission into u at the instant tmin (zero delay: a tie of measure zero) *)
Definition hit_at_tmin (tmin : Q) (u : node) (trans : list tx_t) : bool :=
  existsb (fun x : tx_t => Qeqb (fst (fst x)) tmin && N.eqb (snd x) u &&
                           match snd (fst x) with Some _ => true | None => false end) trans.

(* history of u: starts at tmin; an initially infected node starts 'I'; every other node
   starts 'S' -- or 'I' when transmissions() holds a sourced infection of it at tmin *)
Definition hist_sis_okb (tmin : Q) (i0 : list node) (trans : list tx_t) (u : node) (h : history) : bool :=
  match h with
  | (t, s) :: _ =>
    Qeqb t tmin &&
    (if mem u i0 then N.eqb s stI
     else N.eqb s stS || (N.eqb s stI && hit_at_tmin tmin u trans))
  | [] => false
  end.

(* transmissions(): first one source-less entry (tmin, None, u) per initially infected node,
   in the order given; every later entry has a source *)
Fixpoint init_trans_okb (tmin : Q) (i0 : list node) (trans : list tx_t) : bool :=
  match i0 with
  | [] => forallb (fun x : tx_t => match snd (fst x) with Some _ => true | None => false end) trans
  | u :: i0' =>
    match trans with
    | (t, None, v) :: trans' => Qeqb t tmin && N.eqb v u && init_trans_okb tmin i0' trans'
    | _ => false
    end
  end.

(* rows start with (tmin, [N - |I0|; |I0|]); with full data: histories and transmissions *)
Definition ic_sisb (nodes : list node) (i0 : list node) (tmin : Q)
    (rows : list row) (full : option fulldata) : bool :=
  let n := Z.of_nat (length nodes) in
  let k := Z.of_nat (length i0) in
  match rows with
  | (t, c) :: _ => Qeqb t tmin && zlist_eqb c [n - k; k]%Z
  | [] => false
  end &&
  match full with
  | None => true
  | Some fd =>
    init_trans_okb tmin i0 (fd_trans fd) &&
    forallb (fun u => match hlook u (fd_hist fd) with
                      | Some h => hist_sis_okb tmin i0 (fd_trans fd) u h
                      | None => false
                      end) nodes
  end.

(* the domain of C05 for the SIS simulators: node list and initial collection duplicate-free,
   the collection inside the graph, tmin < tmax *)
Definition ic_sis_domb (nodes i0 : list node) (tmin : Q) (tmax : xtime) : bool :=
  nodupb nodes && nodupb i0 && subsetb i0 nodes && xlt tmin tmax.

(* rho: the number of nodes int(round(N*rho)) (round half to even), or 1 *)
Definition requested_count (n : nat) (rho : option Q) : Z :=
  match rho with None => 1%Z | Some r => round_half_even (Qnat n * r) end.

(* the initially infected nodes as the full-data object shows them: the targets of the
   leading source-less transmissions *)
Fixpoint initial_of_trans (trans : list tx_t) : list node :=
  match trans with
  | (_, None, v) :: r => v :: initial_of_trans r
  | _ => []
  end.

(* rho given (or nothing): some duplicate-free list of the requested length inside the graph
   -- the one the transmissions show -- passes [ic_sisb] *)
Definition ic_sis_rhob (nodes : list node) (rho : option Q) (tmin : Q) (rows : list row) (full : option fulldata) : bool :=
  match full with
  | Some fd =>
    let i0 := initial_of_trans (fd_trans fd) in
    Z.eqb (Z.of_nat (length i0)) (requested_count (length nodes) rho) && nodupb i0 && subsetb i0 nodes &&
    ic_sisb nodes i0 tmin rows full
  | None =>
    let k := requested_count (length nodes) rho in
    match rows with
    | (t, c) :: _ => Qeqb t tmin && zlist_eqb c [Z.of_nat (length nodes) - k; k]%Z && Z.leb 0 k && Z.leb k (Z.of_nat (length nodes))
    | [] => false
    end
  end.
