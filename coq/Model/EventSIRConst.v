(* fast_SIR on its constant-tau path (sim:2108-2124):
   _trans_and_rec_time_Markovian_const_trans_ = expovariate(rec rate) for the
   duration, np.random.binomial(#susceptible neighbours, 1-exp(-tau*duration)) for
   the number of transmissions, random.sample for the recipients,
   _truncated_exponential_(tau, duration) for each delay.
   Base/Samp.v (frozen) has no binomial call, so this file has the sampler with the
   calls this path makes: expovariate, sample, binomial (its probability kept
   symbolic as (tau, duration); the harness compares 1-exp(-tau*duration) in floats). *)
From EoNV Require Import Prelude Samp Graph EventSIR.
Require Import Qround.

Inductive bsamp (A : Type) : Type :=
| BRet : A -> bsamp A
| BFail : err -> bsamp A
| BExpo : Q -> (Q -> bsamp A) -> bsamp A
| BSample : list key -> nat -> (list key -> bsamp A) -> bsamp A
| BBinom : nat -> Q -> xtime -> (nat -> bsamp A) -> bsamp A.
Arguments BRet {A}. Arguments BFail {A}. Arguments BExpo {A}. Arguments BSample {A}. Arguments BBinom {A}.

Fixpoint bbind {A B} (m : bsamp A) (f : A -> bsamp B) : bsamp B :=
  match m with
  | BRet a => f a
  | BFail e => BFail e
  | BExpo r k => BExpo r (fun d => bbind (k d) f)
  | BSample pop n k => BSample pop n (fun l => bbind (k l) f)
  | BBinom n tau d k => BBinom n tau d (fun i => bbind (k i) f)
  end.

Inductive bcall :=
| BCExpo (rate : Q)
| BCSample (pop : list key) (n : nat)
| BCBinom (n : nat) (tau : Q) (d : xtime).

(* outcomes a binomial(n, 1-exp(-tau*d)) draw can have: p = 0 forces 0, p = 1 forces n *)
Definition binom_possible (n : nat) (tau : Q) (d : xtime) (k : nat) : bool :=
  Nat.leb k n &&
  match d with
  | None => Nat.eqb k n
  | Some x => if Qeqb (tau * x) 0 then Nat.eqb k 0 else true
  end.

Fixpoint bexec {A} (m : bsamp A) (ds : list Q) (tr : list bcall) : result A * list bcall :=
  match m with
  | BRet a => (Ok a, rev tr)
  | BFail e => (Err e, rev tr)
  | BExpo r k =>
    if Qeqb r 0 then (Err ZeroDivision, rev (BCExpo r :: tr))
    else match ds with
         | [] => (Err OutOfDraws, rev tr)
         | d :: ds' => if Qltb d 0 then (Err OutOfDraws, rev tr) else bexec (k d) ds' (BCExpo r :: tr)
         end
  | BSample pop n k =>
    if Nat.ltb (length pop) n then (Err ValueErr, rev (BCSample pop n :: tr))
    else match ds with
         | [] => (Err OutOfDraws, rev tr)
         | d :: ds' => bexec (k (firstn n (rotate (rank d) pop))) ds' (BCSample pop n :: tr)
         end
  | BBinom n tau dd k =>
    match ds with
    | [] => (Err OutOfDraws, rev tr)
    | d :: ds' =>
      if binom_possible n tau dd (rank d) then bexec (k (rank d)) ds' (BCBinom n tau dd :: tr)
      else (Err OutOfDraws, rev tr)
    end
  end.

(* _truncated_exponential_: t = expovariate(rate); if t < T: return t; L = int(t/T); return t - L*T *)
Definition trunc_exp (x : Q) (T : xtime) : result Q :=
  match T with
  | None => Ok x
  | Some t =>
    if Qltb x t then Ok x
    else if Qeqb t 0 then Err ZeroDivision
    else Ok (x - inject_Z (Qfloor (x / t)) * t)
  end.

(* the scripted random.sample sorts the population by node id *)
Fixpoint ninsert (x : N) (l : list N) : list N :=
  match l with [] => [x] | h :: t => if N.ltb x h then x :: l else h :: ninsert x t end.
Definition nsort (l : list N) : list N := fold_right ninsert [] l.

Definition bprovider := node -> list node -> bsamp (list (node * xtime) * xtime).

Fixpoint draw_trunc {A} (tau : Q) (dur : xtime) (rcp : list node) (acc : list (node * xtime))
    (k : list (node * xtime) -> bsamp A) : bsamp A :=
  match rcp with
  | [] => k (rev acc)
  | v :: t => BExpo tau (fun x =>
      match trunc_exp x dur with
      | Ok y => draw_trunc tau dur t ((v, Some y) :: acc) k
      | Err e => BFail e
      end)
  end.

Definition const_provider (g : graph) (tau gamma : Q) : bprovider :=
  fun u sus =>
    let rr := rec_rate g gamma u in
    let k (dur : xtime) :=
      BBinom (length sus) tau dur (fun n =>
      BSample (map knode (nsort sus)) n (fun ks =>
      draw_trunc tau dur (concat ks) [] (fun td => BRet (td, dur)))) in
    if Qltb 0 rr then BExpo rr (fun d => k (Some d)) else k None.

Section BGen.
Variable g : graph.
Variable tmin : Q.
Variable tmax : xtime.
Variable prov : bprovider.
Variable full : bool.
Variable n0 : nat.

Definition blift {A B} (r : result A) (k : A -> bsamp B) : bsamp B :=
  match r with Ok a => k a | Err e => BFail e end.

(* the loop of EventSIR.gloop over this sampler (same step functions) *)
Fixpoint bgloop (fuel : nat) (s : est) : bsamp (simout * list (node * option node)) :=
  match qu s with
  | [] => blift (finish g tmin full n0 s) BRet
  | e :: q' =>
    match fuel with
    | O => BFail OutOfFuel
    | S f =>
      let s1 := set_qu s q' in
      match qe e with
      | ERec u => bgloop f (apply_rec (qt e) u s1)
      | ETrans src tgt =>
        if N.eqb (stat s1 tgt) stS then
          let sus := sus_nbrs g (fupdN (stat s1) tgt stI) tgt in
          bbind (prov tgt sus) (fun tr =>
            bgloop f (apply_inf fifo tmax (qt e) src tgt (fst tr) (snd tr) [] s1))
        else bgloop f s1
      end
    end
  end.
End BGen.

Definition fast_sir_const (g : graph) (tau gamma : Q)
    (i0 r0 : option (list node)) (rho : option Q) (tmin : Q) (tmax : xtime)
    (full : bool) (fuel : nat) : bsamp (simout * list (node * option node)) :=
  match rho, i0, r0 with
  | Some _, Some _, _ => BFail EoNError
  | Some _, None, Some _ => BFail EoNError
  | _, _, _ =>
    let r0l := match r0 with Some l => l | None => [] end in
    let go (i0l : list node) :=
      bgloop g tmin tmax (const_provider g tau gamma) full (length i0l) fuel (init_state fifo g tmin tmax i0l r0l) in
    match i0 with
    | Some l => go l
    | None =>
      let n := match rho with None => 1%Z | Some r => round_half_even (Qnat (length (gnodes g)) * r) end in
      if (n <? 0)%Z then BFail ValueErr
      else BSample (map knode (sample_pop g r0)) (Z.to_nat n) (fun ks => go (concat ks))
    end
  end.
