(* C19 — effect model: a mini statement language that keeps only aliasing and
   mutation, an abstract heap semantics for it, and an executable may-analysis
   [safe].  The programs are produced from /repo's source by
   translate/effects2v.py (coq/Gen/Effects.v); soundness is in
   Proofs/EffectsP.v, EffectsSound.v, EffectsSound2.v.

   Part 1: syntax.  Part 2: the checker (executable).  Part 3: the abstract heap
   semantics (specification; an inductive relation, nothing is proved here). *)
From Coq Require Import List NArith PArith Bool String FSets.FSetPositive.
Import ListNotations.
Open Scope N_scope.

(* ------------------------------------------------------------------ syntax *)
Definition var := N.        (* variables are numbered per function; 0 is the return slot *)
Definition site := N.       (* allocation sites, numbered globally *)
Definition fname := N.
Definition field := N.     (* 0 = unknown position / any field *)
Definition ret_var : var := 0.
(* the reserved allocation site of immutable scalars (the translator numbers its
   sites from 1; the checker rejects an EAlloc at this site) *)
Definition LEAF_SITE : site := 0.

(* How a value is obtained.  Only object identity matters:
   EVar y      the object bound to y (alias)
   ELoad y f   some object held by the container y (element, dict value or key,
               attribute) in a field matching f (see [fmatch]), or a NEW immutable
               scalar (y[i] on an array of numbers, an element of range(n), a string
               key: objects of the reserved site [LEAF_SITE], which nothing can modify)
   EReach ys   some object reachable in zero or more steps from one of ys (result
               of an opaque call: library function, user callback, graph view)
   EAlloc s cf shallow copy deep view
               a NEW object allocated at site s; the references it holds (field 0) are among:
               the objects of [shallow] themselves ([a,b], (a,b), {k:v}), the
               references held by the objects of [copy] in fields matching cf (list(y),
               y.copy(), np.array(y), y[i:j]), anything reachable from [deep]; its buffer is its own
               or the buffer of one of [view] (y.T, y[i:j], y.reshape, np.asarray). *)
Inductive expr :=
| EVar (y : var)
| ELoad (y : var) (f : field)
| EReach (ys : list var)
| EAlloc (s : site) (cf : field) (shallow copy deep view : list var)
| EChoice (a b : expr).     (* either *)

(* field f of a load matches the field g a reference is stored under.
   0 = everything; VALF = everything but dictionary keys (y[k]); otherwise the field
   itself or the unknown position 0.  KEYF holds dictionary keys. *)
Definition VALF : field := 61.
Definition KEYF : field := 62.
Definition fmatch (f g : field) : bool :=
  (f =? 0) || (g =? f) || (g =? 0) || ((f =? VALF) && negb (g =? KEYF)).

(* SWrite line x f ys: in-place modification of the object bound to x (and of the
   buffer it shares): x[..]=y, x.shape=.., x.append(y), x += y on a mutable, del x[..];
   the object may afterwards hold references to the objects of ys in field f.
   Fields other than 0 are used for the event queue: Q.add(t, h, args=(a1..an))
   stores a_i under field (h,i), and Q.pop_and_run() loads them and calls h.
   SIf is a non-deterministic choice (conditions are not modelled), SLoop runs its
   body any number of times, SCall binds the callee's parameters positionally
   (the translator has already applied Python's binding rule and materialised
   defaults) and assigns the callee's return slot to x. *)
Inductive stmt :=
| SSkip
| SAssign (x : var) (e : expr)
| SWrite (line : N) (x : var) (f : field) (ys : list var)
| SSeq (a b : stmt)
| SIf (a b : stmt)
| SLoop (b : stmt)
| SCall (x : var) (f : fname) (args : list var).

Definition seq (l : list stmt) : stmt := fold_right SSeq SSkip l.

Record fundef := mkfun {
  fn_id : fname;
  fn_name : string;
  fn_params : list (var * string);
  fn_entry : bool;          (* public entry point of EoN/simulation.py or EoN/analytic.py *)
  fn_body : stmt }.
Definition program := list fundef.

Fixpoint find_fun (p : program) (f : fname) : option fundef :=
  match p with
  | [] => None
  | d :: p' => if fn_id d =? f then Some d else find_fun p' f
  end.

(* ---------------------------------------------------------- abstract values *)
(* AParam q: any object that existed before the call (named after the parameter q
   of the analysed entry point through which it was first reached);
   ASite s: any object allocated at site s during the call.
   Abstract objects are coded as positive numbers (q -> 2(q+1)+1, s -> 2(s+1)) so
   that sets of them are the standard library's PositiveSet (radix trees). *)
Definition aobj := positive.
Definition AParam (q : var) : aobj := xI (N.succ_pos q).
Definition ASite (s : site) : aobj := xO (N.succ_pos s).
Definition aset_t := PositiveSet.t.
Definition aempty : aset_t := PositiveSet.empty.
Definition asingle (a : aobj) : aset_t := PositiveSet.singleton a.
Definition amem (a : aobj) (l : aset_t) : bool := PositiveSet.mem a l.
Definition asubset (l m : aset_t) : bool := PositiveSet.subset l m.
Definition aunion (l m : aset_t) : aset_t := PositiveSet.union l m.
Definition aunions (ls : list aset_t) : aset_t := fold_right aunion aempty ls.
Definition aelems (l : aset_t) : list aobj := PositiveSet.elements l.
Definition aisempty (l : aset_t) : bool := PositiveSet.is_empty l.

Definition nmem (a : N) (l : list N) : bool := existsb (N.eqb a) l.
Definition nsubset (l m : list N) : bool := forallb (fun a => nmem a m) l.
Fixpoint nunion (l m : list N) : list N :=
  match l with
  | [] => m
  | a :: l' => if nmem a m then nunion l' m else a :: nunion l' m
  end.

(* abstract environment: variable -> set of abstract objects (empty = unbound) *)
Definition aenv := list (var * aset_t).
Fixpoint alook (E : aenv) (x : var) : aset_t :=
  match E with
  | [] => aempty
  | (y, v) :: E' => if y =? x then v else alook E' x
  end.
Fixpoint aset (E : aenv) (x : var) (v : aset_t) : aenv :=
  match E with
  | [] => [(x, v)]
  | (y, w) :: E' => if y =? x then (x, v) :: E' else (y, w) :: aset E' x v
  end.
Definition alooks (E : aenv) (xs : list var) : aset_t := aunions (map (alook E) xs).
Definition aenv_leq_gen (E F : aenv) : bool :=
  forallb (fun yv => asubset (snd yv) (alook F (fst yv))) E.
Fixpoint aenv_join_gen (E F : aenv) : aenv :=
  match F with
  | [] => E
  | (y, v) :: F' => aenv_join_gen (aset E y (aunion v (alook E y))) F'
  end.
(* the two environments of a branch or of a loop iteration descend from the same
   environment, so their keys are usually in the same order: linear-time versions
   that fall back to the general ones when the keys do not line up *)
Fixpoint aenv_leq (E F : aenv) : bool :=
  match E, F with
  | [], _ => true
  | (x, v) :: E', (y, w) :: F' =>
    if x =? y then asubset v w && aenv_leq E' F' else aenv_leq_gen E F
  | _, [] => aenv_leq_gen E F
  end.
Fixpoint aenv_join (E F : aenv) : aenv :=
  match E, F with
  | [], _ => F
  | _, [] => E
  | (x, v) :: E', (y, w) :: F' =>
    if x =? y then (x, aunion v w) :: aenv_join E' F' else aenv_join_gen E F
  end.

(* abstract heap, flow-insensitive: for every allocation site the abstract objects
   its instances may hold references to (by field), the parameters whose
   pre-existing buffer its instances may share (views), and [po]: the abstract objects
   that a write of the analysed function may have stored INTO an object that existed
   before the call, by field (only non-empty for functions that do modify their arguments; it
   keeps the attribution of later writes to parameters sound: after a.append(b),
   a[0].shape = .. modifies b) *)
Definition fmap := list (field * aset_t).
Fixpoint fm_match (m : fmap) (f : field) : aset_t :=
  match m with
  | [] => aempty
  | (g, v) :: m' => if fmatch f g then aunion v (fm_match m' f) else fm_match m' f
  end.
Fixpoint fm_look (m : fmap) (f : field) : aset_t :=
  match m with
  | [] => aempty
  | (g, v) :: m' => if g =? f then v else fm_look m' f
  end.
Fixpoint hp_site (h : list (site * fmap)) (s : site) : fmap :=
  match h with
  | [] => []
  | (t, m) :: h' => if t =? s then m else hp_site h' s
  end.
Definition hp_match (h : list (site * fmap)) (s : site) (f : field) : aset_t := fm_match (hp_site h s) f.
Definition hp_look (h : list (site * fmap)) (s : site) (f : field) : aset_t := fm_look (hp_site h s) f.
Record aheap := mkheap {
  hp : list (site * fmap);
  bt : list (site * list var);
  po : fmap }.
Fixpoint bt_look (h : list (site * list var)) (s : site) : list var :=
  match h with
  | [] => []
  | (t, v) :: h' => if t =? s then v else bt_look h' s
  end.
(* what an abstract object may hold: an object that existed before the call and was
   first reached through parameter q only holds objects reachable from q, and what the
   function itself has stored into pre-existing objects.
   Immutable scalars (site LEAF_SITE) are not recorded in the abstract heap: every
   object may hold them. *)
Definition ALeaf : aobj := ASite LEAF_SITE.
Definition noleaf (l : aset_t) : aset_t := PositiveSet.remove ALeaf l.
Definition hpts (H : aheap) (f : field) (a : aobj) : aset_t :=
  aunion (asingle ALeaf)
  match a with
  | xI _ => aunion (asingle a) (fm_match (po H) f)
  | xO p => hp_match (hp H) (Pos.pred_N p) f
  | xH => aempty
  end.
(* parameters whose pre-existing storage a write through [a] would modify *)
Definition taint1 (H : aheap) (a : aobj) : list var :=
  match a with
  | xI p => [Pos.pred_N p]
  | xO p => bt_look (bt H) (Pos.pred_N p)
  | xH => []
  end.
Definition taint (H : aheap) (l : aset_t) : list var :=
  fold_right (fun a acc => nunion (taint1 H a) acc) [] (aelems l).
Definition aload (H : aheap) (f : field) (l : aset_t) : aset_t :=
  fold_right (fun a acc => aunion (hpts H f a) acc) aempty (aelems l).

(* worklist closure: every abstract object is expanded once.  [wl_iter H k] runs up to
   2^k steps and stops as soon as the worklist is empty (the result is CHECKED below, so
   nothing depends on the bound) *)
Definition wl_state := (list aobj * aset_t)%type.
Definition wl_step (H : aheap) (st : wl_state) : wl_state :=
  match fst st with
  | [] => st
  | a :: todo' =>
    if amem a (snd st) then (todo', snd st)
    else (aelems (hpts H 0 a) ++ todo', PositiveSet.add a (snd st))
  end.
Fixpoint wl_iter (H : aheap) (k : nat) (st : wl_state) : wl_state :=
  match fst st with
  | [] => st
  | _ :: _ =>
    match k with
    | O => wl_step H st
    | S k' => wl_iter H k' (wl_iter H k' st)
    end
  end.
Definition areach_any (H : aheap) (l : aset_t) : aset_t :=
  snd (wl_iter H 40 (aelems l, aempty)).
(* only ever run by vm_compute; conversion must not try to unfold 2^40 steps *)
Strategy opaque [wl_iter areach_any].
Definition aclosed (H : aheap) (r : aset_t) : bool :=
  forallb (fun a => asubset (hpts H 0 a) r) (aelems r).
(* reflexive-transitive closure; the result is CHECKED to be closed, so that the
   soundness proof does not depend on the iteration count *)
Definition areach (H : aheap) (l : aset_t) : option aset_t :=
  let r := areach_any H l in
  if aclosed H r && asubset l r then Some r else None.

(* -------------------------------------------------------------- the checker *)
(* [chk] verifies, for a GIVEN abstract heap H, that H is a post-fixpoint of every
   statement (every reference an allocation or a store may create is already
   recorded in H) and collects the writes that may touch pre-existing storage as
   (source line, parameter).  None = H is not a post-fixpoint / malformed program /
   out of fuel. *)
Definition viol := list (N * var).

Fixpoint eval_expr (H : aheap) (E : aenv) (e : expr) : option aset_t :=
  match e with
  | EChoice a b =>
    match eval_expr H E a, eval_expr H E b with
    | Some u, Some v => Some (aunion u v)
    | _, _ => None
    end
  | EVar y => Some (alook E y)
  | ELoad y f => Some (aload H f (alook E y))
  | EReach ys => areach H (alooks E ys)
  | EAlloc s cf sh cp dp vw =>
    match areach H (alooks E dp) with
    | None => None
    | Some rd =>
      let need := noleaf (aunion (alooks E sh) (aunion (aload H cf (alooks E cp)) rd)) in
      if negb (s =? LEAF_SITE) && asubset need (hp_look (hp H) s 0)
         && nsubset (taint H (alooks E vw)) (bt_look (bt H) s)
      then Some (asingle (ASite s)) else None
    end
  end.

Definition store_ok (H : aheap) (f : field) (targets vals0 : aset_t) : bool :=
  let vals := noleaf vals0 in
  forallb (fun a => match a with
                     | xO p => (Pos.pred_N p =? LEAF_SITE) || asubset vals (hp_look (hp H) (Pos.pred_N p) f)
                     | xI _ => asubset vals (fm_look (po H) f)
                     | xH => true
                     end)
          (aelems targets).

Fixpoint bind_params (ps : list (var * string)) (vals : list aset_t) : option aenv :=
  match ps, vals with
  | [], [] => Some []
  | (x, _) :: ps', v :: vals' =>
    match bind_params ps' vals' with Some E => Some (aset E x v) | None => None end
  | _, _ => None
  end.

Fixpoint loop_inv (f : aenv -> option (aenv * viol)) (k : nat) (E : aenv) : option (aenv * viol) :=
  match f E with
  | None => None
  | Some (E1, v) =>
    if aenv_leq E1 E then Some (E, v) else
    match k with O => None | S k' => loop_inv f k' (aenv_join E E1) end
  end.

Definition LOOPFUEL : nat := 12%nat.

Fixpoint chk (p : program) (H : aheap) (depth : nat) : stmt -> aenv -> option (aenv * viol) :=
  match depth with
  | O => fun _ _ => None
  | S d =>
    fix go (s : stmt) (E : aenv) {struct s} : option (aenv * viol) :=
      match s with
      | SSkip => Some (E, [])
      | SAssign x e =>
        match eval_expr H E e with
        | Some v => Some (aset E x v, [])
        | None => None
        end
      | SWrite ln x f ys =>
        let tg := alook E x in
        if store_ok H f tg (alooks E ys)
        then Some (E, map (fun q => (ln, q)) (taint H tg)) else None
      | SSeq a b =>
        match go a E with
        | Some (E1, v1) =>
          match go b E1 with Some (E2, v2) => Some (E2, v1 ++ v2) | None => None end
        | None => None
        end
      | SIf a b =>
        match go a E, go b E with
        | Some (E1, v1), Some (E2, v2) => Some (aenv_join E1 E2, v1 ++ v2)
        | _, _ => None
        end
      | SLoop b =>
        match loop_inv (go b) LOOPFUEL E with
        | Some (Ei, v) => if aenv_leq E Ei then Some (Ei, v) else None
        | None => None
        end
      | SCall x f args =>
        match find_fun p f with
        | Some fd =>
          match bind_params (fn_params fd) (map (alook E) args) with
          | Some E0 =>
            match chk p H d (fn_body fd) E0 with
            | Some (E1, v) => Some (aset E x (alook E1 ret_var), v)
            | None => None
            end
          | None => None
          end
        | None => None
        end
      end
  end.

(* --------------------------------------------- inference of the abstract heap *)
(* [infer] is the same traversal, but it ADDS the missing facts to H instead of
   failing.  Nothing is proved about it: its result is only a candidate that [chk]
   then verifies. *)
Fixpoint fm_add (m : fmap) (f : field) (v : aset_t) : fmap :=
  match m with
  | [] => [(f, v)]
  | (g, w) :: m' => if g =? f then (g, aunion v w) :: m' else (g, w) :: fm_add m' f v
  end.
Fixpoint hp_add (h : list (site * fmap)) (s : site) (f : field) (v : aset_t) : list (site * fmap) :=
  match h with
  | [] => [(s, [(f, v)])]
  | (t, m) :: h' => if t =? s then (t, fm_add m f v) :: h' else (t, m) :: hp_add h' s f v
  end.
Fixpoint bt_add (h : list (site * list var)) (s : site) (v : list var) : list (site * list var) :=
  match h with
  | [] => [(s, v)]
  | (t, w) :: h' => if t =? s then (t, nunion v w) :: h' else (t, w) :: bt_add h' s v
  end.

Fixpoint infer_expr (H : aheap) (E : aenv) (e : expr) : aheap * aset_t :=
  match e with
  | EChoice a b =>
    let '(H1, u) := infer_expr H E a in
    let '(H2, v) := infer_expr H1 E b in (H2, aunion u v)
  | EVar y => (H, alook E y)
  | ELoad y f => (H, aload H f (alook E y))
  | EReach ys => (H, areach_any H (alooks E ys))
  | EAlloc s cf sh cp dp vw =>
    let need := noleaf (aunion (alooks E sh) (aunion (aload H cf (alooks E cp)) (areach_any H (alooks E dp)))) in
    let tv := taint H (alooks E vw) in
    (mkheap (if aisempty need then hp H else hp_add (hp H) s 0 need)
            (match tv with [] => bt H | _ => bt_add (bt H) s tv end) (po H), asingle (ASite s))
  end.

Definition infer_store (H : aheap) (f : field) (targets vals0 : aset_t) : aheap :=
  let vals := noleaf vals0 in
  if aisempty vals then H else
  fold_left (fun H a => match a with
                        | xO p => if Pos.pred_N p =? LEAF_SITE then H
                                  else mkheap (hp_add (hp H) (Pos.pred_N p) f vals) (bt H) (po H)
                        | xI _ => mkheap (hp H) (bt H) (fm_add (po H) f vals)
                        | xH => H
                        end)
            (aelems targets) H.

Fixpoint infer_loop (f : aheap -> aenv -> aheap * aenv) (k : nat) (H : aheap) (E : aenv) : aheap * aenv :=
  match k with
  | O => (H, E)
  | S k' =>
    let '(H1, E1) := f H E in
    if aenv_leq E1 E then (H1, E) else infer_loop f k' H1 (aenv_join E E1)
  end.

Fixpoint infer (p : program) (depth : nat) : stmt -> aheap -> aenv -> aheap * aenv :=
  match depth with
  | O => fun _ H E => (H, E)
  | S d =>
    fix go (s : stmt) (H : aheap) (E : aenv) {struct s} : aheap * aenv :=
      match s with
      | SSkip => (H, E)
      | SAssign x e => let '(H1, v) := infer_expr H E e in (H1, aset E x v)
      | SWrite _ x f ys => (infer_store H f (alook E x) (alooks E ys), E)
      | SSeq a b => let '(H1, E1) := go a H E in go b H1 E1
      | SIf a b =>
        let '(H1, E1) := go a H E in
        let '(H2, E2) := go b H1 E in (H2, aenv_join E1 E2)
      | SLoop b => infer_loop (go b) LOOPFUEL H E
      | SCall x f args =>
        match find_fun p f with
        | Some fd =>
          match bind_params (fn_params fd) (map (alook E) args) with
          | Some E0 =>
            let '(H1, E1) := infer p d (fn_body fd) H E0 in (H1, aset E x (alook E1 ret_var))
          | None => (H, E)
          end
        | None => (H, E)
        end
      end
  end.

Definition fm_size (m : fmap) : nat := fold_right (fun gv n => S (PositiveSet.cardinal (snd gv) + n)) O m.
Definition hp_size (h : list (site * fmap)) : nat := fold_right (fun sm n => S (fm_size (snd sm) + n)) O h.
Definition heap_size (H : aheap) : nat :=
  (hp_size (hp H)
   + fold_right (fun sv n => List.length (snd sv) + n) 0 (bt H) + List.length (bt H)
   + fm_size (po H))%nat.

Fixpoint infer_fix (p : program) (depth : nat) (body : stmt) (E0 : aenv) (k : nat) (H : aheap) : aheap :=
  match k with
  | O => H
  | S k' =>
    let H1 := fst (infer p depth body H E0) in
    if Nat.eqb (heap_size H1) (heap_size H) then H1 else infer_fix p depth body E0 k' H1
  end.

Definition DEPTH : nat := 8%nat.
Definition HEAPFUEL : nat := 40%nat.

Definition entry_env (fd : fundef) : aenv :=
  fold_right (fun xn E => aset E (fst xn) (asingle (AParam (fst xn)))) [] (fn_params fd).

Definition analyse (p : program) (fd : fundef) : option viol :=
  let E0 := entry_env fd in
  let H := infer_fix p DEPTH (fn_body fd) E0 HEAPFUEL (mkheap [] [] []) in
  match chk p H DEPTH (fn_body fd) E0 with
  | Some (_, v) => Some v
  | None => None
  end.

(* the may-analysis verdict: no write of the function (or of anything it calls)
   can touch an object, or the buffer of an object, that existed before the call *)
Definition safe (p : program) (fd : fundef) : bool :=
  match analyse p fd with
  | Some [] => true
  | _ => false
  end.

(* diagnostics: names of the parameters through which pre-existing storage may be
   written; None = the analysis itself failed (treated as unsafe) *)
Fixpoint pname (ps : list (var * string)) (q : var) : string :=
  match ps with
  | [] => "?"%string
  | (x, n) :: ps' => if x =? q then n else pname ps' q
  end.
Fixpoint dedup (l : list N) : list N :=
  match l with
  | [] => []
  | a :: l' => if nmem a l' then dedup l' else a :: dedup l'
  end.
Definition report1 (fd : fundef) (r : option viol) : string * bool * option (list string) * list (N * string) :=
  match r with
  | Some v => (fn_name fd, fn_entry fd, Some (map (pname (fn_params fd)) (dedup (map snd v))),
               map (fun lq => (fst lq, pname (fn_params fd) (snd lq))) v)
  | None => (fn_name fd, fn_entry fd, None, [])
  end.
(* one line per function: name, public?, parameters that may be modified, (line, parameter) of the writes *)
Definition report (p : program) (fds : list fundef) := map (fun fd => report1 fd (analyse p fd)) fds.
Definition mutated_params (p : program) (fd : fundef) : option (list string) :=
  match analyse p fd with
  | Some v => Some (map (pname (fn_params fd)) (dedup (map snd v)))
  | None => None
  end.

(* diagnostics of the MODEL (not of EoN): uses of a variable at a point where its
   abstract value is empty.  The abstract value over-approximates, so such a variable is
   unbound there in every execution: the semantics has no rule, every execution stops
   there and the soundness theorem says nothing about what follows.  A hit means that
   the translation (or the semantics) does not cover the code after that point -- e.g.
   before loads could yield scalars, the body of every  for i in range(n)  was such dead
   code.  Own body only (callees are reported on their own); (line or 0, variable). *)
Definition emp_vars (E : aenv) (xs : list var) : list var := filter (fun x => aisempty (alook E x)) xs.
Definition dead_expr (E : aenv) (e : expr) : list var :=
  match e with
  | EVar y => emp_vars E [y]
  | ELoad y _ => emp_vars E [y]
  | EReach ys => if forallb (fun y => aisempty (alook E y)) ys then ys else []
  | EAlloc _ _ _ _ _ _ => []
  | EChoice _ _ => []
  end.
Fixpoint dead (p : program) (H : aheap) (depth : nat) : stmt -> aenv -> option (aenv * viol) :=
  match depth with
  | O => fun _ _ => None
  | S d =>
    fix go (s : stmt) (E : aenv) {struct s} : option (aenv * viol) :=
      match s with
      | SSkip => Some (E, [])
      | SAssign x e =>
        match eval_expr H E e with
        | Some v => Some (aset E x v, map (fun y => (0, y)) (dead_expr E e))
        | None => None
        end
      | SWrite ln x f ys => Some (E, map (fun y => (ln, y)) (emp_vars E [x]))
      | SSeq a b =>
        match go a E with
        | Some (E1, v1) =>
          match go b E1 with Some (E2, v2) => Some (E2, v1 ++ v2) | None => None end
        | None => None
        end
      | SIf a b =>
        match go a E, go b E with
        | Some (E1, v1), Some (E2, v2) => Some (aenv_join E1 E2, v1 ++ v2)
        | _, _ => None
        end
      | SLoop b =>
        match loop_inv (go b) LOOPFUEL E with
        | Some (Ei, v) => if aenv_leq E Ei then Some (Ei, v) else None
        | None => None
        end
      | SCall x f args =>
        match find_fun p f with
        | Some fd =>
          match bind_params (fn_params fd) (map (alook E) args) with
          | Some E0 =>
            match dead p H d (fn_body fd) E0 with
            | Some (E1, _) => Some (aset E x (alook E1 ret_var), map (fun y => (0, y)) (emp_vars E args))
            | None => None
            end
          | None => None
          end
        | None => None
        end
      end
  end.
Definition dead_uses (p : program) (fd : fundef) : option viol :=
  let E0 := entry_env fd in
  let H := infer_fix p DEPTH (fn_body fd) E0 HEAPFUEL (mkheap [] [] []) in
  match dead p H DEPTH (fn_body fd) E0 with
  | Some (_, v) => Some v
  | None => None
  end.
Definition dead_report (p : program) (fds : list fundef) := map (fun fd => (fn_name fd, dead_uses p fd)) fds.

Definition entry_points (p : program) : list fundef := filter fn_entry p.
Definition unsafe_entry_points (p : program) : list (string * option (list string)) :=
  map (fun fd => (fn_name fd, mutated_params p fd)) (filter (fun fd => negb (safe p fd)) (entry_points p)).

(* Confirmed defects of /repo (each reproduced dynamically by harness/c19.py and
   recorded as a known finding C19/<function>/<parameter>): entry points that really do
   modify a caller's array, with the parameters concerned.  The generated obligation
   says: every entry point is safe, except that these may modify (at most) these. *)
(* Now EMPTY: the three defects once listed here (SIR_heterogeneous_pairwise SkSl0/SkIl0,
   SIS_effective_degree Ssi0/Isi0, SIR_effective_degree S_si0) were repaired in /repo
   (known_findings.json, "fixed"), so the obligation is "every entry point is safe". *)
Definition accepted_unsafe : list (string * list string) := [].
Fixpoint accepted_params (l : list (string * list string)) (f : string) : list string :=
  match l with
  | [] => []
  | (g, ps) :: l' => if String.eqb g f then ps else accepted_params l' f
  end.
Definition smem (a : string) (l : list string) : bool := existsb (String.eqb a) l.
Definition ok_entry (p : program) (fd : fundef) : bool :=
  match mutated_params p fd with
  | Some ps => forallb (fun q => smem q (accepted_params accepted_unsafe (fn_name fd))) ps
  | None => false
  end.
(* the k-th of m interleaved chunks of a list (used to split the obligation over
   several files that are compiled in parallel) *)
Fixpoint chunk_of {A} (m k i : nat) (l : list A) : list A :=
  match l with
  | [] => []
  | a :: l' => if Nat.eqb (Nat.modulo i m) k then a :: chunk_of m k (S i) l' else chunk_of m k (S i) l'
  end.

(* --------------------------------------- abstract heap semantics (specification) *)
(* Objects have an identity (a location), hold references to other objects
   ([kids]) and own or share a buffer ([base l] = the location owning the buffer of
   l; a view shares the buffer of its base).  Locations below the allocation
   pointer exist.  [site_of] remembers where an object was allocated. *)
Definition loc := nat.
Record heap := mkh {
  kids : loc -> field -> loc -> Prop;
  base : loc -> loc;
  site_of : loc -> site;
  next : loc }.
Definition env := var -> option loc.
Definition upd (e : env) (x : var) (v : option loc) : env :=
  fun y => if y =? x then v else e y.

Inductive reach (h : heap) : loc -> loc -> Prop :=
| reach_refl l : reach h l l
| reach_step l k g m : reach h l k -> kids h k g m -> reach h l m.

(* h' is h plus one new object l allocated at site s *)
Definition alloc_rel (h h' : heap) (l : loc) (s : site) : Prop :=
  l = next h /\ next h' = S (next h) /\ site_of h' l = s /\
  (forall m, m <> l -> site_of h' m = site_of h m) /\
  (forall m, m <> l -> base h' m = base h m) /\
  (forall m g k, m <> l -> (kids h' m g k <-> kids h m g k)).

Inductive eval (h : heap) (e : env) : expr -> heap -> loc -> Prop :=
| ev_var y l : e y = Some l -> eval h e (EVar y) h l
| ev_load y f l0 g l : e y = Some l0 -> kids h l0 g l -> fmatch f g = true ->
    eval h e (ELoad y f) h l
| ev_load_leaf y f l0 h' l : e y = Some l0 ->
    alloc_rel h h' l LEAF_SITE -> base h' l = l -> (forall g k, ~ kids h' l g k) ->
    eval h e (ELoad y f) h' l
| ev_reach ys y l0 l : In y ys -> e y = Some l0 -> reach h l0 l -> eval h e (EReach ys) h l
| ev_alloc s cf sh cp dp vw h' l :
    alloc_rel h h' l s ->
    (base h' l = l \/ exists z lz, In z vw /\ e z = Some lz /\ base h' l = base h lz) ->
    (forall g k, kids h' l g k -> g = 0 /\
      ((exists z, In z sh /\ e z = Some k) \/
       (exists z lz g', In z cp /\ e z = Some lz /\ kids h lz g' k /\ fmatch cf g' = true) \/
       (exists z lz, In z dp /\ e z = Some lz /\ reach h lz k))) ->
    eval h e (EAlloc s cf sh cp dp vw) h' l
| ev_choice_l a b h' l : eval h e a h' l -> eval h e (EChoice a b) h' l
| ev_choice_r a b h' l : eval h e b h' l -> eval h e (EChoice a b) h' l.

(* in-place modification of l: afterwards l may hold its old references and
   references to the objects of ys; nothing else changes.  (Objects of the site
   LEAF_SITE are immutable scalars: [ex_write] has no rule for them, as Python has no
   in-place operation on an int, a float or a string.) *)
Definition write_rel (h h' : heap) (e : env) (l : loc) (f : field) (ys : list var) : Prop :=
  next h' = next h /\
  (forall m, site_of h' m = site_of h m) /\
  (forall m, base h' m = base h m) /\
  (forall m g k, m <> l -> (kids h' m g k <-> kids h m g k)) /\
  (forall g k, kids h' l g k -> kids h l g k \/ (g = f /\ exists y, In y ys /\ e y = Some k)).

Record state := mkst { st_env : env; st_heap : heap; st_log : list loc }.
Inductive outcome := Normal | Abort.

Fixpoint bind_locs (ps : list (var * string)) (ls : list loc) : option env :=
  match ps, ls with
  | [], [] => Some (fun _ => None)
  | (x, _) :: ps', l :: ls' =>
    match bind_locs ps' ls' with Some e => Some (upd e x (Some l)) | None => None end
  | _, _ => None
  end.

(* Big-step executions.  [ex_abort] lets any statement stop (an exception, or simply
   a prefix of a longer run), so a statement about all executions is a statement
   about all prefixes.  The log records the buffer owner of every written object. *)
Inductive exec (p : program) : stmt -> state -> outcome -> state -> Prop :=
| ex_abort s st : exec p s st Abort st
| ex_skip st : exec p SSkip st Normal st
| ex_assign x e st h' l :
    eval (st_heap st) (st_env st) e h' l ->
    exec p (SAssign x e) st Normal (mkst (upd (st_env st) x (Some l)) h' (st_log st))
| ex_write ln x f ys st l h' :
    st_env st x = Some l ->
    site_of (st_heap st) l <> LEAF_SITE ->
    write_rel (st_heap st) h' (st_env st) l f ys ->
    exec p (SWrite ln x f ys) st Normal (mkst (st_env st) h' (base (st_heap st) l :: st_log st))
| ex_seq a b st st1 o st2 :
    exec p a st Normal st1 -> exec p b st1 o st2 -> exec p (SSeq a b) st o st2
| ex_seq_abort a b st st1 :
    exec p a st Abort st1 -> exec p (SSeq a b) st Abort st1
| ex_if_l a b st o st1 : exec p a st o st1 -> exec p (SIf a b) st o st1
| ex_if_r a b st o st1 : exec p b st o st1 -> exec p (SIf a b) st o st1
| ex_loop_done b st : exec p (SLoop b) st Normal st
| ex_loop_step b st st1 o st2 :
    exec p b st Normal st1 -> exec p (SLoop b) st1 o st2 -> exec p (SLoop b) st o st2
| ex_loop_abort b st st1 :
    exec p b st Abort st1 -> exec p (SLoop b) st Abort st1
| ex_call x f args st fd ls e0 st1 :
    find_fun p f = Some fd ->
    Forall2 (fun a l => st_env st a = Some l) args ls ->
    bind_locs (fn_params fd) ls = Some e0 ->
    exec p (fn_body fd) (mkst e0 (st_heap st) (st_log st)) Normal st1 ->
    exec p (SCall x f args) st Normal
         (mkst (upd (st_env st) x (st_env st1 ret_var)) (st_heap st1) (st_log st1))
| ex_call_abort x f args st fd ls e0 st1 :
    find_fun p f = Some fd ->
    Forall2 (fun a l => st_env st a = Some l) args ls ->
    bind_locs (fn_params fd) ls = Some e0 ->
    exec p (fn_body fd) (mkst e0 (st_heap st) (st_log st)) Abort st1 ->
    exec p (SCall x f args) st Abort (mkst (st_env st) (st_heap st1) (st_log st1)).

(* an initial state: the parameters are bound to existing objects, everything that
   exists is below n0, the heap is well formed, nothing has been written yet *)
Definition initial (fd : fundef) (n0 : loc) (st : state) : Prop :=
  next (st_heap st) = n0 /\ st_log st = [] /\
  (forall x l, st_env st x = Some l -> l < n0 /\ exists nm, In (x, nm) (fn_params fd))%nat /\
  (forall l g k, kids (st_heap st) l g k -> l < n0 /\ k < n0)%nat /\
  (forall l, l < n0 -> base (st_heap st) l < n0)%nat.
