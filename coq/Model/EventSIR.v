(* L2 model of the event-driven SIR simulators of EoN/simulation.py, written as
   the code is:
     myQueue                               sim:26-66   (heapq of (time, counter, fn, args);
                                                        add drops an event with time >= tmax)
     _find_trans_and_rec_delays_SIR_       sim:1793
     _process_trans_SIR_                   sim:1804-1888
     _process_rec_SIR_                     sim:1890-1922
     _trans_and_rec_time_Markovian_const_trans_, _truncated_exponential_   sim:1924, sim:17
     fast_SIR                              sim:1979-2124
     fast_nonMarkov_SIR                    sim:2128-2396
     nonMarkov_directed_percolate_network_with_timing, directed_percolate_network,
     get_infected_nodes (+ a small reachability for its out-component)  sim:1639, 1142, 1313

   The user's rules are oracles  delay : node -> node -> option Q  (None =
   float('Inf')) and  dur : node -> option Q.  The queue is a list kept sorted;
   heapq is taken by its specification (pop returns the least tuple).  The order
   among events of EQUAL time is a parameter [tb] of the model (a tie policy);
   the code's policy is [fifo] (the insertion counter), the theorems hold for
   every policy.  No proofs here. *)
From EoNV Require Import Prelude Samp Graph.

(* ---------------- extended times ---------------- *)
Definition xadd (t : Q) (d : xtime) : xtime :=
  match d with Some x => Some (t + x) | None => None end.
(* Python's <= and < on floats with inf *)
Definition xleb (a b : xtime) : bool :=
  match a, b with
  | _, None => true
  | None, Some _ => false
  | Some x, Some y => Qleb x y
  end.
Definition xltb (a b : xtime) : bool :=
  match a, b with
  | None, _ => false
  | Some _, None => true
  | Some x, Some y => Qltb x y
  end.

(* ---------------- myQueue ---------------- *)
Inductive ev :=
| ETrans (src : option node) (tgt : node)     (* _process_trans_SIR_ with (source, target) *)
| ERec (u : node).                            (* _process_rec_SIR_ *)

Record qent := mkQ { qt : Q; qc : nat; qe : ev }.

Definition tiepolicy := qent -> qent -> bool.
(* heapq on (time, counter, ...): among equal times the smaller counter first *)
Definition fifo : tiepolicy := fun e h => Nat.ltb (qc e) (qc h).

Section Queue.
Variable tb : tiepolicy.

Definition goes_before (e h : qent) : bool :=
  if Qltb (qt e) (qt h) then true
  else if Qltb (qt h) (qt e) then false
  else tb e h.

Fixpoint qinsert (e : qent) (l : list qent) : list qent :=
  match l with
  | [] => [e]
  | h :: t => if goes_before e h then e :: l else h :: qinsert e t
  end.

(* Q.add(time, fn, args): `if time < self.tmax: heappush; counter += 1` *)
Definition qadd (tmax : xtime) (time : xtime) (e : ev) (qc0 : list qent * nat) : list qent * nat :=
  match time with
  | Some t => if xltb time tmax then (qinsert (mkQ t (snd qc0) e) (fst qc0), S (snd qc0)) else qc0
  | None => qc0                                  (* inf < tmax is False *)
  end.
End Queue.

(* ---------------- simulation state ---------------- *)
Record est := mkE {
  stat : node -> N;                           (* status: defaultdict 'S' *)
  rect : node -> option xtime;                (* rec_time: None = key absent *)
  predt : node -> option xtime;               (* pred_inf_time: None = key absent (reads give inf and insert it) *)
  qu : list qent;                             (* Q._Q_ in pop order *)
  ctr : nat;                                  (* Q.counter *)
  rows : list row;                            (* times,S,I,R newest first *)
  tlog : list (Q * option node * node);       (* transmissions newest first *)
  olog : list (node * option node)            (* calls of the user's rules newest first:
                                                 (u, None) = rec_time_fxn(u), (u, Some v) = trans_time_fxn(u,v) *)
}.

Definition pget (p : node -> option xtime) (v : node) : xtime :=
  match p v with Some x => x | None => None end.

Definition push_row (rs : list row) (t : Q) (dS dI dR : Z) : list row :=
  let c := match rs with (_, c) :: _ => c | [] => [] end in
  (t, [nth 0 c 0 + dS; nth 1 c 0 + dI; nth 2 c 0 + dR]%Z) :: rs.

Section Sim.
Variable tb : tiepolicy.
Variable g : graph.
Variable tmax : xtime.

(* one iteration of `for v in trans_delay:` in _process_trans_SIR_ (sim:1878-1888);
   note that pred_inf_time[v] is assigned AFTER Q.add, also when Q.add dropped the
   event because inf_time = tmax *)
Definition sched_one (time : Q) (rt : xtime) (tgt : node)
    (acc : list qent * nat * (node -> option xtime)) (vd : node * xtime)
  : list qent * nat * (node -> option xtime) :=
  let '(q, c, p) := acc in
  let '(v, d) := vd in
  let it := xadd time d in
  if xleb it rt then
    let pv := pget p v in
    if xltb it pv && xleb it tmax
    then (qadd tb tmax it (ETrans (Some tgt) v) (q, c), fupdN p v (Some it))
    else (q, c, fupdN p v (Some pv))
  else acc.

(* suscep_neighbors = [v for v in G.neighbors(target) if status[v]=='S'] *)
Definition sus_nbrs (st : node -> N) (u : node) : list node :=
  filter (fun v => N.eqb (st v) stS) (gadj g u).

(* body of `if status[target] == 'S':` once trans_delay (a dict, as an association
   list in insertion order) and rec_delay have been obtained *)
Definition apply_inf (time : Q) (src : option node) (tgt : node)
    (td : list (node * xtime)) (rd : xtime) (calls : list (node * option node)) (s : est) : est :=
  let st' := fupdN (stat s) tgt stI in
  let rt := xadd time rd in
  let qc1 := if xleb rt tmax then qadd tb tmax rt (ERec tgt) (qu s, ctr s) else (qu s, ctr s) in
  let '(q2, c2, p2) := fold_left (sched_one time rt tgt) td (fst qc1, snd qc1, predt s) in
  mkE st' (fupdN (rect s) tgt (Some rt)) p2 q2 c2
      (push_row (rows s) time (-1) 1 0)
      ((time, src, tgt) :: tlog s)
      (calls ++ olog s).

Definition apply_rec (time : Q) (u : node) (s : est) : est :=
  mkE (fupdN (stat s) u stR) (rect s) (predt s) (qu s) (ctr s)
      (push_row (rows s) time 0 (-1) 1) (tlog s) (olog s).

(* ---- deterministic rules: _find_trans_and_rec_delays_SIR_ with table lookups ---- *)
Variable delay : node -> node -> xtime.
Variable dur : node -> xtime.

Definition det_delays (u : node) (sus : list node) : list (node * xtime) :=
  map (fun v => (v, delay u v)) sus.
(* newest first: rec_time_fxn(node) is called first, then trans_time_fxn per target *)
Definition det_calls (u : node) (sus : list node) : list (node * option node) :=
  rev ((u, None) :: map (fun v => (u, Some v)) sus).

(* Q.pop_and_run() on the popped entry [e]; [s] already has the entry removed *)
Definition step_det (e : qent) (s : est) : est :=
  match qe e with
  | ERec u => apply_rec (qt e) u s
  | ETrans src tgt =>
    if N.eqb (stat s tgt) stS then
      let sus := sus_nbrs (fupdN (stat s) tgt stI) tgt in
      apply_inf (qt e) src tgt (det_delays tgt sus) (dur tgt) (det_calls tgt sus) s
    else s
  end.

Definition set_qu (s : est) (q : list qent) : est :=
  mkE (stat s) (rect s) (predt s) q (ctr s) (rows s) (tlog s) (olog s).

(* `while Q: Q.pop_and_run()` *)
Fixpoint loop_det (fuel : nat) (s : est) : result est :=
  match qu s with
  | [] => Ok s
  | e :: q' =>
    match fuel with
    | O => Err OutOfFuel
    | S f => loop_det f (step_det e (set_qu s q'))
    end
  end.

End Sim.

(* ---------------- set-up and output of fast_nonMarkov_SIR ---------------- *)
Definition set_all {V} (f : node -> V) (l : list node) (x : V) : node -> V :=
  fold_left (fun f u => fupdN f u x) l f.

(* for u in initial_infecteds: pred_inf_time[u] = tmin; Q.add(tmin, trans, (None, u)) *)
Definition init_inf (tb : tiepolicy) (tmin : Q) (tmax : xtime) (s : est) (u : node) : est :=
  let qc := qadd tb tmax (Some tmin) (ETrans None u) (qu s, ctr s) in
  mkE (stat s) (rect s) (fupdN (predt s) u (Some (Some tmin))) (fst qc) (snd qc) (rows s) (tlog s) (olog s).

Definition init_state (tb : tiepolicy) (g : graph) (tmin : Q) (tmax : xtime)
    (i0 r0 : list node) : est :=
  let nR := Z.of_nat (length r0) in
  let s0 := mkE (set_all (fun _ => stS) r0 stR)
                (set_all (fun _ => None) r0 (Some (Some tmin)))
                (fun _ => None) [] O
                [(tmin, [order g - nR; 0; nR]%Z)] [] [] in
  fold_left (init_inf tb tmin tmax) i0 s0.

(* _transform_to_node_history_ (sim:365-381), SIR branch: an entry whose time
   equals tmin resets the node's history *)
Definition hist_step (tmin : Q) (h : history) (e : Q * N) : history :=
  if Qeqb (fst e) tmin then [e] else h ++ [e].

(* infection_times = {n: t for n,t in pred_inf_time.items() if status[n] != 'S'}
   recovery_times  = {n: t for n,t in rec_time.items()      if status[n] == 'R'}
   An infinite time in either is unreachable (EventSIRP.v); the model says ValueErr
   instead of inventing a rational. *)
Definition node_hist (tmin : Q) (s : est) (u : node) : result history :=
  let h0 := [(tmin, stS)] in
  rbind (match predt s u with
         | Some x =>
           if negb (N.eqb (stat s u) stS)
           then match x with Some t => Ok (hist_step tmin h0 (t, stI)) | None => Err ValueErr end
           else Ok h0
         | None => Ok h0
         end) (fun h1 =>
  match rect s u with
  | Some x =>
    if N.eqb (stat s u) stR
    then match x with Some t => Ok (hist_step tmin h1 (t, stR)) | None => Err ValueErr end
    else Ok h1
  | None => Ok h1
  end).

Fixpoint all_ok {A} (l : list (result A)) : result (list A) :=
  match l with
  | [] => Ok []
  | r :: t => rbind r (fun a => rbind (all_ok t) (fun t' => Ok (a :: t')))
  end.

(* times = times[len(initial_infecteds):] etc.; arrays or Simulation_Investigation *)
Definition finish (g : graph) (tmin : Q) (full : bool) (n0 : nat) (s : est) : result (simout * list (node * option node)) :=
  let rs := skipn n0 (rev (rows s)) in
  if full then
    rbind (all_ok (map (fun u => rbind (node_hist tmin s u) (fun h => Ok (u, h))) (gnodes g))) (fun hs =>
    Ok (mkOut rs (Some (mkFull hs (rev (tlog s)))), rev (olog s)))
  else Ok (mkOut rs None, rev (olog s)).

(* fuel: |I0| + sum_v (deg v + 1) pops always suffice (EventSIRP.v, [fuel_enough]) *)
Definition esir_fuel (g : graph) (i0 : list node) : nat :=
  length i0 + fold_right (fun v a => S (length (gadj g v)) + a)%nat O (gnodes g).

(* the domain of the property C11 as a boolean: simple adjacency inside the node
   list, delays and durations non-negative on the graph, initial nodes in the graph
   and not initially recovered, tmin < tmax *)
Definition nonnegx (x : xtime) : bool := match x with Some d => Qleb 0 d | None => true end.
Definition esir_okb (g : graph) (delay : node -> node -> xtime) (dur : node -> xtime)
    (i0 r0 : list node) (tmin : Q) (tmax : xtime) : bool :=
  nodupb (gnodes g) &&
  forallb (fun u => nodupb (gadj g u) && subsetb (gadj g u) (gnodes g) && nonnegx (dur u) &&
                    forallb (fun v => nonnegx (delay u v)) (gadj g u)) (gnodes g) &&
  subsetb i0 (gnodes g) && forallb (fun u => negb (mem u r0)) i0 && xltb (Some tmin) tmax.

(* fast_nonMarkov_SIR with trans_time_fxn / rec_time_fxn given as tables and
   initial_infecteds given (the rho / sampling entry is [fast_nonmarkov] below) *)
Definition esir_run (tb : tiepolicy) (g : graph) (delay : node -> node -> xtime) (dur : node -> xtime)
    (i0 r0 : list node) (tmin : Q) (tmax : xtime) (fuel : nat) : result est :=
  loop_det tb g tmax delay dur fuel (init_state tb g tmin tmax i0 r0).

Definition esir_det (tb : tiepolicy) (g : graph) (delay : node -> node -> xtime) (dur : node -> xtime)
    (i0 r0 : list node) (tmin : Q) (tmax : xtime) (full : bool) (fuel : nat)
  : result (simout * list (node * option node)) :=
  rbind (esir_run tb g delay dur i0 r0 tmin tmax fuel) (finish g tmin full (length i0)).

(* ================================================================== *)
(* the same loop with the delays supplied by a sampler program        *)
(* (fast_SIR; trans_and_rec_time_fxn in general)                      *)

Definition provider := node -> list node -> samp (list (node * xtime) * xtime).

Section Gen.
Variable tb : tiepolicy.
Variable g : graph.
Variable tmin : Q.
Variable tmax : xtime.
Variable prov : provider.
Variable full : bool.
Variable n0 : nat.

Definition lift {A B} (r : result A) (k : A -> samp B) : samp B :=
  match r with Ok a => k a | Err e => Fail e end.

Fixpoint gloop (fuel : nat) (s : est) : samp (simout * list (node * option node)) :=
  match qu s with
  | [] => lift (finish g tmin full n0 s) Ret
  | e :: q' =>
    match fuel with
    | O => Fail OutOfFuel
    | S f =>
      let s1 := set_qu s q' in
      match qe e with
      | ERec u => gloop f (apply_rec (qt e) u s1)
      | ETrans src tgt =>
        if N.eqb (stat s1 tgt) stS then
          let sus := sus_nbrs g (fupdN (stat s1) tgt stI) tgt in
          bind (prov tgt sus) (fun tr =>
            gloop f (apply_inf tb tmax (qt e) src tgt (fst tr) (snd tr) (det_calls tgt sus) s1))
        else gloop f s1
      end
    end
  end.
End Gen.

(* int(round(x)): Python rounds half to even *)
Definition round_half_even (x : Q) : Z :=
  let n := Qnum x in let d := Z.pos (Qden x) in
  let q := (n / d)%Z in let r := (n mod d)%Z in
  if (2 * r <? d)%Z then q else if (d <? 2 * r)%Z then (q + 1)%Z
  else if Z.even q then q else (q + 1)%Z.

(* the population random.sample draws the default / rho start nodes from: list(G), or, when
   initial_recovereds is given, [node for node in G if node not in set(initial_recovereds)]
   (graph order) *)
Definition sample_pop (g : graph) (r0 : option (list node)) : list node :=
  match r0 with
  | None => gnodes g
  | Some l => filter (fun u => negb (mem u l)) (gnodes g)
  end.

(* argument handling of fast_nonMarkov_SIR (sim:2306-2345) *)
Definition fast_nonmarkov (tb : tiepolicy) (g : graph) (prov : provider)
    (i0 r0 : option (list node)) (rho : option Q) (tmin : Q) (tmax : xtime)
    (full : bool) (fuel : nat) : samp (simout * list (node * option node)) :=
  match rho, i0, r0 with
  | Some _, Some _, _ => Fail EoNError
  | Some _, None, Some _ => Fail EoNError
  | _, _, _ =>
    let r0l := match r0 with Some l => l | None => [] end in
    let go (i0l : list node) :=
      gloop tb g tmin tmax prov full (length i0l) fuel (init_state tb g tmin tmax i0l r0l) in
    match i0 with
    | Some l => go l
    | None =>
      let n := match rho with None => 1%Z | Some r => round_half_even (Qnat (length (gnodes g)) * r) end in
      if (n <? 0)%Z then Fail ValueErr
      else Sample (map knode (sample_pop g r0)) (Z.to_nat n) (fun ks => go (concat ks))
    end
  end.

(* the user's tables as a provider *)
Definition det_provider (delay : node -> node -> xtime) (dur : node -> xtime) : provider :=
  fun u sus => Ret (map (fun v => (v, delay u v)) sus, dur u).

(* ---- fast_SIR, weighted / zero-rate path (sim:2080-2107): per-edge expovariate ---- *)
Definition draw_time {A} (rate : Q) (k : xtime -> samp A) : samp A :=
  if Qltb 0 rate then Expo rate (fun d => k (Some d)) else k None.

Fixpoint draw_delays {A} (rate : node -> Q) (sus : list node) (acc : list (node * xtime))
    (k : list (node * xtime) -> samp A) : samp A :=
  match sus with
  | [] => k (rev acc)
  | v :: t => draw_time (rate v) (fun d => draw_delays rate t ((v, d) :: acc) k)
  end.

(* _get_rate_functions_: tau * G.adj[u][v][label] (or tau), gamma * G.nodes[u][label] (or gamma) *)
Definition trans_rate (g : graph) (tau : Q) (u v : node) : Q := if ewt g then tau * ew g u v else tau.
Definition rec_rate (g : graph) (gamma : Q) (u : node) : Q := if nwt g then gamma * nw g u else gamma.

Definition markov_provider (g : graph) (tau gamma : Q) : provider :=
  fun u sus =>
    draw_time (rec_rate g gamma u) (fun rd =>
    draw_delays (trans_rate g tau u) sus [] (fun td => Ret (td, rd))).

Definition uses_edge_path (g : graph) (tau gamma : Q) : bool := ewt g || Qeqb (tau * gamma) 0.

(* fast_SIR on its weighted / zero-rate path; the constant-tau path is [fast_sir_const]
   of Model/EventSIRConst.v (it needs the binomial draw) *)
Definition fast_sir_edge (g : graph) (tau gamma : Q) i0 r0 rho tmin tmax full fuel :=
  fast_nonmarkov fifo g (markov_provider g tau gamma) i0 r0 rho tmin tmax full fuel.

(* ================================================================== *)
(* percolation builders                                                *)

(* nonMarkov_directed_percolate_network_with_timing: for u in G.nodes():
   duration = rec_time_fxn(u); H.add_node(u, duration); for v in G.neighbors(u):
   delay = trans_time_fxn(u,v); if delay <= duration: H.add_edge(u, v, delay) *)
Record pnode := mkP { pn : node; pdur : xtime; pout : list (node * xtime) }.
Definition pgraph := list pnode.

Definition perc_node (g : graph) (delay : node -> node -> xtime) (dur : node -> xtime) (u : node) : pnode :=
  mkP u (dur u)
      (filter (fun vd => xleb (snd vd) (dur u)) (map (fun v => (v, delay u v)) (gadj g u))).

Definition perc_build (g : graph) (delay : node -> node -> xtime) (dur : node -> xtime) : pgraph :=
  map (perc_node g delay dur) (gnodes g).

Definition perc_calls (g : graph) : list (node * option node) :=
  concat (map (fun u => (u, None) :: map (fun v => (u, Some v)) (gadj g u)) (gnodes g)).

(* directed_percolate_network(G, tau, gamma): the same with expovariate(gamma) per
   node and expovariate(tau) per (node, neighbour), each guarded by rate > 0 *)
Fixpoint perc_markov {A} (g : graph) (tau gamma : Q) (nodes : list node) (acc : pgraph)
    (k : pgraph -> samp A) : samp A :=
  match nodes with
  | [] => k (rev acc)
  | u :: t =>
    draw_time gamma (fun du =>
    draw_delays (fun _ => tau) (gadj g u) [] (fun td =>
      perc_markov g tau gamma t (mkP u du (filter (fun vd => xleb (snd vd) du) td) :: acc) k))
  end.

(* H.remove_node for the initially recovered nodes, then _out_component_(H, I0) =
   I0 + nx.descendants: reachability, by exploration with fuel |H| rounds *)
Definition psucc (h : pgraph) (removed : list node) (u : node) : list node :=
  concat (map (fun p => if N.eqb (pn p) u
                        then filter (fun v => negb (mem v removed)) (map fst (pout p)) else []) h).

Fixpoint reach (h : pgraph) (removed : list node) (fuel : nat) (seen : list node) : list node :=
  match fuel with
  | O => seen
  | S f =>
    let new := fold_left (fun acc u =>
                 fold_left (fun acc v => if mem v acc then acc else acc ++ [v]) (psucc h removed u) acc)
               seen seen in
    reach h removed f new
  end.

Definition out_component (h : pgraph) (removed : list node) (src : list node) : list node :=
  reach h removed (length h) (fold_left (fun acc v => if mem v acc then acc else acc ++ [v]) src []).

(* get_infected_nodes(G, tau, gamma, initial_infecteds, initial_recovereds) with both
   collections given *)
Definition get_infected (g : graph) (tau gamma : Q) (i0 r0 : list node) : samp (list node) :=
  if existsb (fun u => mem u r0) i0 then Fail EoNError
  else perc_markov g tau gamma (gnodes g) [] (fun h => Ret (out_component h r0 i0)).

Definition get_infected_det (g : graph) (delay : node -> node -> xtime) (dur : node -> xtime)
    (i0 r0 : list node) : list node :=
  out_component (perc_build g delay dur) r0 i0.
