(* L2 model of the discrete-time simulators of EoN/simulation.py, written as the
   code is:
     _simple_test_transmission_ (sim:413-440)      [simple_rules]
     discrete_SIR               (sim:443-671)      [discrete_SIR]
     basic_discrete_SIR         (sim:675-773)      [basic_discrete_SIR]
     basic_discrete_SIS         (sim:775-911)      [basic_discrete_SIS]
     percolate_network          (sim:913-958)      [percolate_network]
     _edge_exists_              (sim:960-980)      [edge_exists]
     percolation_based_discrete_SIR (sim:982-1086) [percolation_based_discrete_SIR]

   The code iterates Python sets (`for u in infecteds`): the iteration order is
   hash order.  The model takes it as an explicit oracle
       ord : nat -> list node -> list node        (step index, the set -> the order)
   applied to a canonical representation of the set (a sublist of gnodes); the
   theorems assume only that ord k l is a permutation of l and show the outputs
   do not depend on it (Proofs/DiscreteP.v, dsir_perm_indep).

   The user-supplied rules are a record [rules] of sampler programs:
     r_test u v a : test_transmission(u, v, *args); a = number of completed
                    test_recovery(u) calls (discrete_SIR) resp. the step index
                    (basic_discrete_SIS), so that a rule may answer differently
                    on a later attempt;
     r_pick k v c : random.choice(infector[v]) at step k among candidates c.
   [det_rules] are deterministic rules given by tables (the property quantifies
   over all transmission rules); [simple_rules p] is the code's default rule:
   one `random.random() < p` per test, one `random.choice` per recorded
   transmission.  Ghost logs (queries of the transmission rule, candidates
   offered to choice, calls of test_recovery) are kept next to the outputs: the
   harness observes the same calls on the Python side. *)
From EoNV Require Import Prelude Samp Graph.

(* int(round(x)): Python rounds half to even *)
Definition d_round_half_even (x : Q) : Z :=
  let n := Qnum x in let d := Z.pos (Qden x) in
  let q := (n / d)%Z in let r := (n mod d)%Z in
  if (2 * r <? d)%Z then q else if (d <? 2 * r)%Z then (q + 1)%Z
  else if Z.even q then q else (q + 1)%Z.

(* a Python set of nodes: canonical representation = sublist of gnodes *)
Definition canon (g : graph) (l : list node) : list node :=
  filter (fun v => mem v l) (gnodes g).

(* sorted(seq) by node number: what the scripted random.choice indexes *)
Fixpoint ninsert (x : node) (l : list node) : list node :=
  match l with
  | [] => [x]
  | h :: t => if N.leb x h then x :: l else h :: ninsert x t
  end.
Definition nsort (l : list node) : list node := fold_right ninsert [] l.

Record rules := mkRules {
  r_test : node -> node -> nat -> samp bool;
  r_pick : nat -> node -> list node -> samp node
}.

Definition det_rules (tt : node -> node -> nat -> bool) (pick : nat -> node -> nat) : rules :=
  mkRules (fun u v a => Ret (tt u v a))
          (fun k v c => match nth_error (nsort c) (Nat.modulo (pick k v) (length c)) with
                        | Some x => Ret x
                        | None => Fail IndexErr
                        end).

(* _simple_test_transmission_(u, v, p) = random.random() < p, and random.choice *)
Definition simple_rules (p : Q) : rules :=
  mkRules (fun _ _ _ => Flip p (Ret true) (Ret false))
          (fun _ _ c => Unif (map knode (nsort c))
                             (fun k => match k with [x] => Ret x | _ => Fail TypeErr end)).

(* ---------------- state ---------------- *)
Definition qentry := (nat * node * node)%type.         (* step, u, v: test_transmission(u,v) was called *)
Definition pentry := (nat * node * list node)%type.    (* step, v, sorted candidates of random.choice(infector[v]) *)
Definition rentry := (nat * node)%type.                (* step, u: test_recovery(u) was called *)

Record dlogs := mkL {
  l_q : list qentry;       (* newest first *)
  l_p : list pentry;
  l_r : list rentry
}.

Record dout := mkDO {
  o_sim : simout;
  o_logs : dlogs           (* oldest first *)
}.

(* the inner double loop `for u in infecteds: for v in G.neighbors(u)` visits
   the contacts in this order *)
Definition contacts (g : graph) (us : list node) : list (node * node) :=
  flat_map (fun u => map (fun v => (u, v)) (gadj g u)) us.

Definition le_x (a : Q) (b : xtime) : bool :=
  match b with None => true | Some m => Qleb a m end.

Definition inf_append (inf : list (node * list node)) (v u : node) : list (node * list node) :=
  map (fun e => if N.eqb (fst e) v then (fst e, snd e ++ [u]) else e) inf.

Definition nonempty {A} (l : list A) : bool := match l with [] => false | _ => true end.

Definition lenZ {A} (l : list A) : Z := Z.of_nat (length l).

(* for v in infector.keys(): transmissions.append((t[-1], random.choice(infector[v]), v)) *)
Fixpoint picks (R : rules) (k : nat) (t : Q) (inf : list (node * list node))
    (tl : list (Q * option node * node)) (pl : list pentry)
  : samp (list (Q * option node * node) * list pentry) :=
  match inf with
  | [] => Ret (tl, pl)
  | (v, c) :: r =>
    bind (r_pick R k v c) (fun s => picks R k t r ((t, Some s, v) :: tl) ((k, v, nsort c) :: pl))
  end.

(* ================= discrete_SIR ================= *)
Record cst := mkC {
  c_sus : node -> bool;                 (* susceptible: defaultdict(lambda: True) *)
  c_new : list node;                    (* new_infecteds, newest first *)
  c_inf : list (node * list node);      (* infector, in insertion order *)
  c_nS : Z;
  c_q : list qentry
}.

Record dst := mkD {
  d_sus : node -> bool;
  d_infs : list node;                   (* infecteds (canonical) *)
  d_age : node -> nat;                  (* completed test_recovery calls per node *)
  d_nS : Z;
  d_totR : Z;
  d_rows : list row;                    (* newest first: (t, [S; I; R]) *)
  d_hlog : list (Q * node * N);         (* node_history appends, newest first *)
  d_tlog : list (Q * option node * node);
  d_logs : dlogs
}.

Section DSIR.
Variable g : graph.
Variable R : rules.
Variable trec : option (node -> nat -> bool).   (* test_recovery; None = not given *)
Variable ord : nat -> list node -> list node.
Variable tmin : Q.
Variable tmax : xtime.
Variable full : bool.

(*  if susceptible[v] and test_transmission(u, v, *args): ...
    elif return_full_data and v in new_infecteds and test_transmission(u, v, *args): ... *)
Fixpoint cloop (k : nat) (age : node -> nat) (cs : list (node * node)) (c : cst) : samp cst :=
  match cs with
  | [] => Ret c
  | (u, v) :: cs' =>
    if c_sus c v then
      bind (r_test R u v (age u)) (fun b =>
        if b then cloop k age cs'
                    (mkC (fupdN (c_sus c) v false) (v :: c_new c) (c_inf c ++ [(v, [u])])
                         (c_nS c - 1)%Z ((k, u, v) :: c_q c))
        else cloop k age cs' (mkC (c_sus c) (c_new c) (c_inf c) (c_nS c) ((k, u, v) :: c_q c)))
    else if full && mem v (c_new c) then
      bind (r_test R u v (age u)) (fun b =>
        if b then cloop k age cs'
                    (mkC (c_sus c) (c_new c) (inf_append (c_inf c) v u) (c_nS c) ((k, u, v) :: c_q c))
        else cloop k age cs' (mkC (c_sus c) (c_new c) (c_inf c) (c_nS c) ((k, u, v) :: c_q c)))
    else cloop k age cs' c
  end.

(* the recovery loop when test_recovery is given:
   for u in infecteds: if test_recovery(u): [history R]; totR += 1  else: new_infecteds.add(u) *)
Definition rec_loop (f : node -> nat -> bool) (k : nat) (next : Q) (age : node -> nat) (us : list node)
    (init : Z * list node * list (Q * node * N) * list rentry)
  : Z * list node * list (Q * node * N) * list rentry :=
  fold_left (fun acc u =>
    match acc with
    | (totR, kept, h, rl) =>
      if f u (age u)
      then ((totR + 1)%Z, kept, (if full then (next, u, stR) :: h else h), (k, u) :: rl)
      else (totR, u :: kept, h, (k, u) :: rl)
    end) us init.

(* one pass of the while loop at time t = t[-1], step index k *)
Definition step (k : nat) (t : Q) (s : dst) : samp dst :=
  let us := ord k (d_infs s) in
  bind (cloop k (d_age s) (contacts g us) (mkC (d_sus s) [] [] (d_nS s) (l_q (d_logs s)))) (fun c =>
  let next := t + 1 in
  bind (if full then picks R k t (c_inf c) (d_tlog s) (l_p (d_logs s))
        else Ret (d_tlog s, l_p (d_logs s))) (fun tp =>
  let newc := canon g (c_new c) in
  (* if return_full_data and next_time <= tmax: R entries (test_recovery None), I entries *)
  let h1 :=
    if full && le_x next tmax then
      rev (map (fun v => (next, v, stI)) newc) ++
      (match trec with
       | None => rev (map (fun u => (next, u, stR)) us)
       | Some _ => []
       end) ++ d_hlog s
    else d_hlog s in
  match trec with
  | None =>
    let infs' := newc in
    Ret (mkD (c_sus c) infs' (d_age s) (c_nS c) (d_totR s + lenZ (d_infs s))%Z
             ((next, [c_nS c; lenZ infs'; (d_totR s + lenZ (d_infs s))%Z]) :: d_rows s)
             h1 (fst tp) (mkL (c_q c) (snd tp) (l_r (d_logs s))))
  | Some f =>
    match rec_loop f k next (d_age s) us (d_totR s, [], h1, l_r (d_logs s)) with
    | (totR', kept, h2, rl) =>
      let infs' := canon g (c_new c ++ kept) in
      let age' := fun x => if mem x us then S (d_age s x) else d_age s x in
      Ret (mkD (c_sus c) infs' age' (c_nS c) totR'
               ((next, [c_nS c; lenZ infs'; totR']) :: d_rows s)
               h2 (fst tp) (mkL (c_q c) (snd tp) rl))
    end
  end)).

(* node_history: defaultdict(lambda: ([tmin], ['S'])); initial nodes are assigned
   ([tmin], ['I']) and then ([tmin], ['R']) *)
Definition init_status (i0 r0 : list node) (u : node) : N :=
  if mem u r0 then stR else if mem u i0 then stI else stS.

Definition node_events (u : node) (log : list (Q * node * N)) : list (Q * N) :=
  map (fun e => (fst (fst e), snd e)) (filter (fun e => N.eqb (snd (fst e)) u) log).

Definition build_hist (i0 r0 : list node) (hlog : list (Q * node * N)) : list (node * history) :=
  let log := rev hlog in
  map (fun u => (u, (tmin, init_status i0 r0 u) :: node_events u log)) (gnodes g).

Definition rev_logs (l : dlogs) : dlogs := mkL (rev (l_q l)) (rev (l_p l)) (rev (l_r l)).

Definition finish (i0 r0 : list node) (s : dst) : dout :=
  mkDO (mkOut (rev (d_rows s))
              (if full then Some (mkFull (build_hist i0 r0 (d_hlog s)) (rev (d_tlog s))) else None))
       (rev_logs (d_logs s)).

(* while infecteds and t[-1] < tmax *)
Fixpoint dloop (i0 r0 : list node) (fuel : nat) (k : nat) (t : Q) (s : dst) : samp dout :=
  if nonempty (d_infs s) && xlt t tmax then
    match fuel with
    | O => Fail OutOfFuel
    | S f => bind (step k t s) (fun s' => dloop i0 r0 f (S k) (t + 1) s')
    end
  else Ret (finish i0 r0 s).

Definition init_state (i0 r0 : list node) : dst :=
  let nI := lenZ i0 in let nR := lenZ r0 in
  let sus := fun v => negb (mem v i0) && negb (mem v r0) in
  mkD sus (canon g i0) (fun _ => O) (order g - nI - nR)%Z nR
      [(tmin, [(order g - nI - nR)%Z; nI; nR])]
      []
      (if full then rev (map (fun u => (tmin - 1, None, u)) i0) else [])
      (mkL [] [] []).

End DSIR.

Definition opt_list {A} (o : option (list A)) : list A := match o with Some l => l | None => [] end.

(* initial_infecteds: None (random.sample by rho, or one node) or the given collection.
   [pop] = the population handed to random.sample: list(G) for basic_discrete_SIS; for discrete_SIR
   the nodes of G that are not initially recovered, in graph order ([sample_pop]); the number drawn is
   int(round(G.order()*rho)) -- of ALL nodes -- or 1.  random.sample(pop, n) with n > len(pop) is a
   ValueError (e.g. every node initially recovered). *)
Definition sample_pop (g : graph) (r0 : option (list node)) : list node :=
  match r0 with
  | None => gnodes g
  | Some l => filter (fun u => negb (mem u l)) (gnodes g)
  end.

Definition with_initial (g : graph) (pop : list node) (i0 : option (list node)) (rho : option Q)
    (k : list node -> samp dout) : samp dout :=
  match rho, i0 with
  | Some _, Some _ => Fail EoNError
  | _, _ =>
    match i0 with
    | Some l => k l
    | None =>
      let n := match rho with None => 1%Z | Some r => d_round_half_even (Qnat (length (gnodes g)) * r) end in
      if (n <? 0)%Z then Fail ValueErr
      else Sample (map knode pop) (Z.to_nat n) (fun ks => k (concat ks))
    end
  end.

Definition discrete_SIR (g : graph) (R : rules) (trec : option (node -> nat -> bool))
    (ord : nat -> list node -> list node)
    (i0 r0 : option (list node)) (rho : option Q) (tmin : Q) (tmax : xtime) (full : bool) (fuel : nat)
  : samp dout :=
  (* if rho is not None and initial_infecteds is not None: raise EoNError
     if rho is not None and initial_recovereds is not None: raise EoNError *)
  match rho, r0 with
  | Some _, Some _ => Fail EoNError
  | _, _ =>
    with_initial g (sample_pop g r0) i0 rho (fun l =>
      dloop g R trec ord tmin tmax full l (opt_list r0) fuel O tmin
            (init_state g tmin full l (opt_list r0)))
  end.

(* basic_discrete_SIR forwards (by keyword) to discrete_SIR with
   _simple_test_transmission_, args = (p,), test_recovery left at None *)
Definition basic_discrete_SIR_R (g : graph) (R : rules) ord i0 r0 rho tmin tmax full fuel : samp dout :=
  discrete_SIR g R None ord i0 r0 rho tmin tmax full fuel.
Definition basic_discrete_SIR (g : graph) (p : Q) ord i0 r0 rho tmin tmax full fuel : samp dout :=
  basic_discrete_SIR_R g (simple_rules p) ord i0 r0 rho tmin tmax full fuel.

(* ================= basic_discrete_SIS ================= *)
Record sst := mkS {
  s_infs : list node;
  s_rows : list row;                    (* (t, [S; I]) newest first *)
  s_hlog : list (Q * node * N);
  s_tlog : list (Q * option node * node);
  s_logs : dlogs
}.

Section DSIS.
Variable g : graph.
Variable R : rules.
Variable ord : nat -> list node -> list node.
Variable tmin : Q.
Variable tmax : xtime.
Variable full : bool.

(* if v not in infecteds and random.random()<p:
       if v not in new_infecteds: add, infector[v]=[u]  else: infector[v].append(u) *)
Fixpoint sis_cloop (k : nat) (infs : list node) (cs : list (node * node))
    (new : list node) (inf : list (node * list node)) (q : list qentry)
  : samp (list node * list (node * list node) * list qentry) :=
  match cs with
  | [] => Ret (new, inf, q)
  | (u, v) :: cs' =>
    if negb (mem v infs) then
      bind (r_test R u v k) (fun b =>
        if b then
          if negb (mem v new) then sis_cloop k infs cs' (v :: new) (inf ++ [(v, [u])]) ((k, u, v) :: q)
          else sis_cloop k infs cs' new (inf_append inf v u) ((k, u, v) :: q)
        else sis_cloop k infs cs' new inf ((k, u, v) :: q))
    else sis_cloop k infs cs' new inf q
  end.

Definition sis_step (k : nat) (t : Q) (s : sst) : samp sst :=
  let us := ord k (s_infs s) in
  bind (sis_cloop k (s_infs s) (contacts g us) [] [] (l_q (s_logs s))) (fun r =>
  match r with
  | (new, inf, q) =>
    let next := t + 1 in
    bind (if full then picks R k t inf (s_tlog s) (l_p (s_logs s))
          else Ret (s_tlog s, l_p (s_logs s))) (fun tp =>
    let newc := canon g new in
    let h1 :=
      if full && le_x next tmax then
        rev (map (fun v => (next, v, stI)) newc) ++ rev (map (fun u => (next, u, stS)) us) ++ s_hlog s
      else s_hlog s in
    Ret (mkS newc ((next, [(order g - lenZ newc)%Z; lenZ newc]) :: s_rows s) h1 (fst tp)
             (mkL q (snd tp) (l_r (s_logs s)))))
  end).

Definition sis_finish (i0 : list node) (s : sst) : dout :=
  mkDO (mkOut (rev (s_rows s))
              (if full then Some (mkFull (build_hist g tmin i0 [] (s_hlog s)) (rev (s_tlog s))) else None))
       (rev_logs (s_logs s)).

Fixpoint sis_loop (i0 : list node) (fuel : nat) (k : nat) (t : Q) (s : sst) : samp dout :=
  if nonempty (s_infs s) && xlt t tmax then
    match fuel with
    | O => Fail OutOfFuel
    | S f => bind (sis_step k t s) (fun s' => sis_loop i0 f (S k) (t + 1) s')
    end
  else Ret (sis_finish i0 s).

Definition sis_init (i0 : list node) : sst :=
  mkS (canon g i0) [(tmin, [(order g - lenZ i0)%Z; lenZ i0])] []
      (if full then rev (map (fun u => (tmin - 1, None, u)) i0) else [])
      (mkL [] [] []).

End DSIS.

Definition basic_discrete_SIS_R (g : graph) (R : rules) (ord : nat -> list node -> list node)
    (i0 : option (list node)) (rho : option Q) (tmin : Q) (tmax : xtime) (full : bool) (fuel : nat)
  : samp dout :=
  with_initial g (gnodes g) i0 rho (fun l =>
    sis_loop g R ord tmin tmax full l fuel O tmin (sis_init g tmin full l)).
Definition basic_discrete_SIS (g : graph) (p : Q) ord i0 rho tmin tmax full fuel : samp dout :=
  basic_discrete_SIS_R g (simple_rules p) ord i0 rho tmin tmax full fuel.

(* ================= percolate_network ================= *)
(* list(G.edges()) of networkx: for an undirected graph every edge once, from the
   endpoint that comes first in node order, in adjacency order; for a DiGraph
   every arc *)
Fixpoint edges_from (g : graph) (nodes seen : list node) : list (node * node) :=
  match nodes with
  | [] => []
  | u :: r =>
    map (fun v => (u, v)) (filter (fun v => negb (mem v seen)) (gadj g u)) ++ edges_from g r (u :: seen)
  end.
Definition gedges (g : graph) : list (node * node) :=
  if gdirected g then contacts g (gnodes g) else edges_from g (gnodes g) [].

(* for edge in G.edges(): if random.random()<p: H.add_edge( *edge ) *)
Fixpoint perc_loop (R : rules) (es : list (node * node)) (kept : list (node * node)) (q : list qentry)
  : samp (list (node * node) * list qentry) :=
  match es with
  | [] => Ret (kept, q)
  | (u, v) :: es' =>
    bind (r_test R u v O) (fun b =>
      perc_loop R es' (if b then kept ++ [(u, v)] else kept) ((O, u, v) :: q))
  end.

(* H = nx.Graph(); H.add_nodes_from(G.nodes()); H.add_edge(u, v) appends v to
   adj[u] and u to adj[v] (unless already there) *)
Definition add_nb (l : list node) (x : node) : list node := if mem x l then l else l ++ [x].
Definition perc_adj (kept : list (node * node)) (x : node) : list node :=
  fold_left (fun l e =>
    if N.eqb (fst e) x then add_nb l (snd e)
    else if N.eqb (snd e) x then add_nb l (fst e) else l) kept [].
Definition perc_graph (g : graph) (kept : list (node * node)) : graph :=
  mkGraph (gnodes g) (perc_adj kept) (perc_adj kept) false (fun _ _ => 1) (fun _ => 1) false false.

Definition percolate_network_R (g : graph) (R : rules) : samp (graph * list qentry) :=
  bind (perc_loop R (gedges g) [] []) (fun kq => Ret (perc_graph g (fst kq), snd kq)).
Definition percolate_network (g : graph) (p : Q) : samp (graph * list qentry) :=
  percolate_network_R g (simple_rules p).

(* _edge_exists_(u, v, H) = H.has_edge(u, v) *)
Definition edge_exists (h : graph) (u v : node) : bool := mem v (gadj h u).

(* H = percolate_network(G, p); discrete_SIR(H, test_transmission=H.has_edge, ...) *)
Definition has_edge_rules (h : graph) (R : rules) : rules :=
  mkRules (fun u v _ => Ret (edge_exists h u v)) (r_pick R).

Definition add_qlog (pre : list qentry) (o : dout) : dout :=
  mkDO (o_sim o) (mkL (rev pre ++ l_q (o_logs o)) (l_p (o_logs o)) (l_r (o_logs o))).

Definition percolation_based_discrete_SIR_R (g : graph) (R : rules) ord i0 r0 rho tmin tmax full fuel
  : samp dout :=
  bind (percolate_network_R g R) (fun hq =>
    bind (discrete_SIR (fst hq) (has_edge_rules (fst hq) R) None ord i0 r0 rho tmin tmax full fuel)
         (fun o => Ret (add_qlog (snd hq) o))).
Definition percolation_based_discrete_SIR (g : graph) (p : Q) ord i0 r0 rho tmin tmax full fuel : samp dout :=
  percolation_based_discrete_SIR_R g (simple_rules p) ord i0 r0 rho tmin tmax full fuel.

(* ---------------- scripted runs ---------------- *)
Definition run {A} (m : samp A) (ds : list Q) := exec m ds [].
