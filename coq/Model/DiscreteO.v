(* Oracle-tree presentation of discrete_SIR (test_recovery = None), used to state
   and prove the "deferred decision" lift of property C12.

   [otree] is a program that may ASK the outcome of the contact (u, v), draw a
   uniform element (random.choice), return or fail.  It has two interpretations
   into the sampler monad of Base/Samp.v:
     [lazy p]   every question is answered by a fresh coin  Flip p      (the code's
                default rule _simple_test_transmission_: random.random() < p);
     [eager tb] every question is answered by looking up the table tb   (the rule
                is a function of the contact, fixed before the run).
   [cloop_o], [picks_o], [step_o], [dloop_o] are cloop / picks / step / dloop of
   Model/Discrete.v (trec = None) with `r_test R u v a` replaced by [oask u v] and
   `r_pick R k v c` by the code's random.choice.  This is a SECOND presentation of
   the same simulator: Proofs/DeferredP.v proves that both interpretations give back
   the extracted model (lazy_dloop, eager_dloop), so that the theorems of
   Props/C12law.v are statements about Model/Discrete.v only. *)
From EoNV Require Import Prelude Samp Graph Discrete.

Inductive otree (A : Type) : Type :=
| ORet  : A -> otree A
| OFail : err -> otree A
| OAsk  : node -> node -> otree A -> otree A -> otree A     (* contact (u, v): success / failure *)
| OUnif : list key -> (key -> otree A) -> otree A.            (* random.choice(seq) *)
Arguments ORet {A}. Arguments OFail {A}. Arguments OAsk {A}. Arguments OUnif {A}.

Fixpoint obind {A B} (m : otree A) (f : A -> otree B) : otree B :=
  match m with
  | ORet a => f a
  | OFail e => OFail e
  | OAsk u v kt kf => OAsk u v (obind kt f) (obind kf f)
  | OUnif c k => OUnif c (fun x => obind (k x) f)
  end.

Definition oask (u v : node) : otree bool := OAsk u v (ORet true) (ORet false).

Fixpoint lazy {A} (p : Q) (m : otree A) : samp A :=
  match m with
  | ORet a => Ret a
  | OFail e => Fail e
  | OAsk _ _ kt kf => Flip p (lazy p kt) (lazy p kf)
  | OUnif c k => Unif c (fun x => lazy p (k x))
  end.

Fixpoint eager {A} (tb : node -> node -> bool) (m : otree A) : samp A :=
  match m with
  | ORet a => Ret a
  | OFail e => Fail e
  | OAsk u v kt kf => if tb u v then eager tb kt else eager tb kf
  | OUnif c k => Unif c (fun x => eager tb (k x))
  end.

(* random.choice(infector[v]) as the default rule does it *)
Definition opick (c : list node) : otree node :=
  OUnif (map knode (nsort c)) (fun k => match k with [x] => ORet x | _ => OFail TypeErr end).

Fixpoint picks_o (k : nat) (t : Q) (inf : list (node * list node))
    (tl : list (Q * option node * node)) (pl : list pentry)
  : otree (list (Q * option node * node) * list pentry) :=
  match inf with
  | [] => ORet (tl, pl)
  | (v, c) :: r =>
    obind (opick c) (fun s => picks_o k t r ((t, Some s, v) :: tl) ((k, v, nsort c) :: pl))
  end.

(* the transmission rule answering from a table, random.choice as in the code *)
Definition table_rules (tb : node -> node -> bool) : rules :=
  mkRules (fun u v _ => Ret (tb u v)) (r_pick (simple_rules 0)).

Section DSIRO.
Variable g : graph.
Variable ord : nat -> list node -> list node.
Variable tmin : Q.
Variable tmax : xtime.
Variable full : bool.

Fixpoint cloop_o (k : nat) (cs : list (node * node)) (c : cst) : otree cst :=
  match cs with
  | [] => ORet c
  | (u, v) :: cs' =>
    if c_sus c v then
      obind (oask u v) (fun b =>
        if b then cloop_o k cs'
                    (mkC (fupdN (c_sus c) v false) (v :: c_new c) (c_inf c ++ [(v, [u])])
                         (c_nS c - 1)%Z ((k, u, v) :: c_q c))
        else cloop_o k cs' (mkC (c_sus c) (c_new c) (c_inf c) (c_nS c) ((k, u, v) :: c_q c)))
    else if full && mem v (c_new c) then
      obind (oask u v) (fun b =>
        if b then cloop_o k cs'
                    (mkC (c_sus c) (c_new c) (inf_append (c_inf c) v u) (c_nS c) ((k, u, v) :: c_q c))
        else cloop_o k cs' (mkC (c_sus c) (c_new c) (c_inf c) (c_nS c) ((k, u, v) :: c_q c)))
    else cloop_o k cs' c
  end.

Definition step_o (k : nat) (t : Q) (s : dst) : otree dst :=
  let us := ord k (d_infs s) in
  obind (cloop_o k (contacts g us) (mkC (d_sus s) [] [] (d_nS s) (l_q (d_logs s)))) (fun c =>
  let next := t + 1 in
  obind (if full then picks_o k t (c_inf c) (d_tlog s) (l_p (d_logs s))
         else ORet (d_tlog s, l_p (d_logs s))) (fun tp =>
  let newc := canon g (c_new c) in
  let h1 :=
    if full && le_x next tmax then
      rev (map (fun v => (next, v, stI)) newc) ++
      rev (map (fun u => (next, u, stR)) us) ++ d_hlog s
    else d_hlog s in
  let infs' := newc in
  ORet (mkD (c_sus c) infs' (d_age s) (c_nS c) (d_totR s + lenZ (d_infs s))%Z
            ((next, [c_nS c; lenZ infs'; (d_totR s + lenZ (d_infs s))%Z]) :: d_rows s)
            h1 (fst tp) (mkL (c_q c) (snd tp) (l_r (d_logs s)))))).

Fixpoint dloop_o (i0 r0 : list node) (fuel : nat) (k : nat) (t : Q) (s : dst) : otree dout :=
  if nonempty (d_infs s) && xlt t tmax then
    match fuel with
    | O => OFail OutOfFuel
    | S f => obind (step_o k t s) (fun s' => dloop_o i0 r0 f (S k) (t + 1) s')
    end
  else ORet (finish g tmin full i0 r0 s).

End DSIRO.
