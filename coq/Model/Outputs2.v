(* Continuation of Model/Outputs.v (property C06): the EBCM variants (EBCM_uniform_introduction,
   EBCM_pref_mix, EBCM_pref_mix_from_graph), the discrete-time EBCM functions (EBCM_discrete,
   EBCM_discrete_from_graph, EBCM_discrete_uniform_introduction, EBCM_pref_mix_discrete,
   EBCM_pref_mix_discrete_from_graph), the two Attack_rate_*_from_graph wrappers, and the dispatcher used by
   the extracted driver (ocaml/out_driver.ml).  The loops of EBCM_discrete / Attack_rate_* are the definitions
   GENERATED from the source (Gen/Rhs.v); the preferential-mixing loop and layout are those of Model/Pgf.v.
   Function arguments (psihat, psihatPrime, psi, psiPrime) are functions Q -> Q.  Executable definitions only. *)
From EoNV Require Import Prelude Graph Aux Vec IC Wrappers Rhs Attack Pgf Rhs2D C14xDef Outputs.
From Coq Require Import Qpower.

(* ---------------- what is handed to EBCM / EBCM_discrete ---------------- *)
Record ebcm_args := mkEb { eb_N : Q; eb_psihat : Q -> Q; eb_psihatP : Q -> Q; eb_phiS0 : Q; eb_phiR0 : Q; eb_R0 : Q }.
Definition m_EBCM_of (a : ebcm_args) (full : bool) : emodel := m_EBCM (eb_N a) (eb_psihat a) (eb_R0 a) full.

(* EBCM_uniform_introduction(N, psi, psiPrime, tau, gamma, rho, ...), analytic.py:5350-5356:
   EBCM(N, psihat, psihatPrime, tau, gamma, 1-rho) with psihat = (1-rho)*psi; phiR0, R0 keep their defaults 0 *)
Definition fwd_EBCM_uniform_introduction (N : Q) (psi psiP : Q -> Q) (rho : Q) : ebcm_args :=
  mkEb N (fun x => (1 - rho) * psi x) (fun x => (1 - rho) * psiP x) (1 - rho) 0 0.
Definition m_EBCM_uniform_introduction (N : Q) (psi psiP : Q -> Q) (rho : Q) (full : bool) : emodel :=
  m_EBCM_of (fwd_EBCM_uniform_introduction N psi psiP rho) full.

(* ---------------- dicts ---------------- *)
Fixpoint ins_key (k : nat) (l : list nat) : list nat :=
  match l with [] => [k] | h :: t => if Nat.leb k h then k :: l else h :: ins_key k t end.
Definition sort_keys (l : list nat) : list nat := fold_right ins_key [] l.          (* sorted(Pk.keys()) *)
Definition pk_sorted (pk : list (nat * Q)) : list (nat * Q) := map (fun k => (k, plookup k pk)) (sort_keys (map fst pk)).
(* get_Pk(G): {k: Nk[k]/N} over the Counter of the degrees; get_Pnk(G) *)
Definition pk_of_graph (g : graph) : list (nat * Q) := map (fun k => (k, Pk (degseq g) k)) (Pk_keys (degseq g)).
Definition nd_of_graph (g : graph) : list (nat * list nat) := map (fun u => (deg g u, map (deg g) (gadj g u))) (gnodes g).
Definition pnk_of_graph (g : graph) : pnkdict :=
  let nd := nd_of_graph g in
  map (fun k1 => (k1, map (fun k2 => (k2, Pnk nd k1 k2)) (Pnk_row_keys nd k1))) (Pk_keys (degseq g)).

(* ---------------- EBCM_pref_mix, analytic.py:5426-5447 ---------------- *)
(* IC = [0] + [1, 0] per sorted key; R = X.T[0]; theta[k] = X.T[1+2*index]; S = (1-rho)*sum(Pk[k]*theta[k]**k);
   I = 1-S-R; returns N*S, N*I, N*R and the dict theta (here: its values in sorted key order) *)
Definition pm_theta (spk : list (nat * Q)) (X : vec) (k : nat) : Q := vnth (1 + 2 * kidx k (map fst spk)) X.
Definition pm_fracS (spk : list (nat * Q)) (rho : Q) (X : vec) : Q :=
  (1 - rho) * dsum spk (fun k p => p * qpow (pm_theta spk X k) (Z.of_nat k)).
Definition asm_EBCM_pref_mix (N rho : Q) (spk : list (nat * Q)) (full : bool) (x : traj) : result olist :=
  let S := fun t => pm_fracS spk rho (x t) in
  let R := fun t => vnth 0 (x t) in
  let I := fun t => 1 - S t - R t in
  Ok ([(oS, Sc (fun t => N * S t)); (oI, Sc (fun t => N * I t)); (oR, Sc (fun t => N * R t))] ++
      (if full then [(oTheta, Ve (fun t => map (fun k => pm_theta spk (x t) k) (map fst spk)))] else [])).
Definition m_EBCM_pref_mix (N : Q) (pk : list (nat * Q)) (rho : option Q) (full : bool) : emodel :=
  let rho' := match rho with Some r => r | None => 1 / N end in
  let spk := pk_sorted pk in
  Ok (pm_IC spk, asm_EBCM_pref_mix N rho' spk full).
Definition m_EBCM_pref_mix_from_graph (g : graph) (rho : option Q) (full : bool) : emodel :=
  m_EBCM_pref_mix (gN g) (pk_of_graph g) rho full.

(* ======================  discrete time  ====================== *)
(* times = [tmin, tmin+1, .., tmax] (range(tmin+1, tmax+1) appended to [tmin]) *)
Definition dsteps (tmin tmax : Z) : nat := Z.to_nat (tmax - tmin).
Definition dtimes (tmin tmax : Z) : list Q := map (fun j => inject_Z (tmin + Z.of_nat j)) (seq 0 (S (dsteps tmin tmax))).

(* EBCM_discrete, analytic.py:5007-5028: rows (theta, R, S, I) of the generated loop *)
Definition o_EBCM_discrete (a : ebcm_args) (p : Q) (tmin tmax : Z) (full : bool) : oret :=
  let rows := ebcm_discrete_rows (eb_N a) (eb_psihat a) (eb_psihatP a) p (eb_phiS0 a) (eb_phiR0 a) (eb_R0 a) (dsteps tmin tmax) in
  mkRet (dtimes tmin tmax) []
    ([(oS, RS (map (fun r => snd (fst r)) rows)); (oI, RS (map (fun r => snd r) rows)); (oR, RS (map (fun r => snd (fst (fst r))) rows))] ++
     (if full then [(oTheta, RS (map (fun r => fst (fst (fst r))) rows))] else [])).

(* EBCM_discrete_uniform_introduction(N, psi, psiPrime, p, rho, tmax): EBCM_discrete(N, psihat, psihatPrime, p, 1-rho, tmax=tmax) *)
Definition o_EBCM_discrete_uniform_introduction (N : Q) (psi psiP : Q -> Q) (p rho : Q) (tmax : Z) (full : bool) : oret :=
  o_EBCM_discrete (fwd_EBCM_uniform_introduction N psi psiP rho) p 0 tmax full.

(* the S-neighbour / R-neighbour / degree sums over susceptible nodes that EBCM_from_graph, EBCM_discrete_from_graph and
   Attack_rate_*_from_graph accumulate *)
Definition sumS (g : graph) (st : status) (f : node -> Q) : Q := sumQ (map (fun u => if isS st u then f u else 0) (gnodes g)).
Definition SS_of (g : graph) (st : status) : Q := sumS g st (fun u => Qnat (nbr_count g (isS st) u)).
Definition SR_of (g : graph) (st : status) : Q := sumS g st (fun u => Qnat (nbr_count g (isR st) u)).
Definition SX_of (g : graph) (st : status) : Q := sumS g st (fun u => Qnat (deg g u)).
Definition Sk_cnt (g : graph) (st : status) (k : nat) : Q := cnt (fun u => isS st u && Nat.eqb (deg g u) k) (gnodes g).

(* EBCM_discrete_from_graph, analytic.py:5078-5131 *)
Definition fwd_EBCM_discrete_from_graph (g : graph) (rq : icreq) : result ebcm_args :=
  if isSome (rq_rho rq) && isSome (rq_I rq) then Err EoNError else
  if isSome (rq_rho rq) && isSome (rq_R rq) then Err EoNError else
  let ds := degseq g in
  match rq_I rq with
  | Some I0 =>
    rbind (initialize_node_status g I0 (rq_R rq)) (fun st =>
      match gnodes g with [] => Err ValueErr | _ =>
      let Nk := Nk_of g in
      let SX := SX_of g st in
      if Qeqb SX 0 then Err ZeroDivision else
      Ok (mkEb (gN g)
            (fun x => sumPk g (fun k => Pk ds k * Sk_cnt g st k * qpow x (Z.of_nat k) / vnth k Nk))
            (fun x => sumPk g (fun k => Qnat k * Pk ds k * Sk_cnt g st k * qpow x (Z.of_nat k - 1) / vnth k Nk))
            (SS_of g st * 1 / SX) (SR_of g st * 1 / SX) (cnt (isR st) (gnodes g)))
      end)
  | None =>
    let rho := rho_or_default g (rq_rho rq) in
    Ok (mkEb (gN g) (fg_psihat g rho) (fg_psihatPrime g rho) (1 - rho) 0 0)
  end.
Definition o_EBCM_discrete_from_graph (g : graph) (rq : icreq) (p : Q) (tmin tmax : Z) (full : bool) : result oret :=
  rbind (fwd_EBCM_discrete_from_graph g rq) (fun a => Ok (o_EBCM_discrete a p tmin tmax full)).

(* EBCM_pref_mix_discrete, analytic.py:5531-5563: the loop of Model/Pgf.v; theta returned as a dict of lists
   (here: values in sorted key order) *)
Definition o_EBCM_pref_mix_discrete (N : Q) (pk : list (nat * Q)) (pnk : pnkdict) (p : Q) (rho : option Q) (tmin tmax : Z) (full : bool) : oret :=
  let rho' := match rho with Some r => r | None => 1 / N end in
  let st := fun t => pmd_loop N rho' p pk pnk t in
  let js := seq 0 (S (dsteps tmin tmax)) in
  mkRet (dtimes tmin tmax) []
    ([(oS, RS (map (fun t => pd_S (st t)) js)); (oI, RS (map (fun t => pd_I (st t)) js)); (oR, RS (map (fun t => pd_R (st t)) js))] ++
     (if full then [(oTheta, RV (map (fun t => map (fun k => plookup k (pd_theta (st t))) (sort_keys (map fst pk))) js))] else [])).
Definition o_EBCM_pref_mix_discrete_from_graph (g : graph) (p : Q) (rho : option Q) (tmin tmax : Z) (full : bool) : oret :=
  o_EBCM_pref_mix_discrete (gN g) (pk_of_graph g) (pnk_of_graph g) p rho tmin tmax full.

(* ======================  Attack_rate_*  ====================== *)
(* Attack_rate_discrete(Pk, p, rho, Sk0, phiS0, phiR0, number_its), analytic.py:4740-4760 *)
Definition attack_rate_discrete_g (pk : list (nat * Q)) (p : Q) (rho : option Q) (Sk0 : option (nat -> Q)) (phiS0 : option Q) (phiR0 : Q) (n : nat) : result Q :=
  if isSome rho && isSome Sk0 then Err EoNError else
  let go := fun sk0 : nat -> Q =>
    let ph := psihat_of pk sk0 in
    let php := psihatP_of pk sk0 in
    let phiS := match phiS0 with Some x => x | None => php 1 / kave_of pk end in
    Ok (Attack_rate_discrete_loop p phiR0 phiS php ph n) in
  match Sk0, rho with
  | Some s, _ => go s
  | None, None => Ok (epi_prob_discrete pk p n)
  | None, Some r => if Qeq_bool r 0 then Ok (epi_prob_discrete pk p n) else go (fun _ => 1 - r)
  end.
(* Attack_rate_cts_time(Pk, tau, gamma, number_its, rho, Sk0, phiS0, phiR0), analytic.py:4856-4879 *)
Definition attack_rate_cts_time_g (pk : list (nat * Q)) (tau gamma : Q) (rho : option Q) (Sk0 : option (nat -> Q)) (phiS0 : option Q) (phiR0 : Q) (n : nat) : result Q :=
  if isSome rho && isSome Sk0 then Err EoNError else
  let sk0 := match Sk0 with Some s => s | None => fun _ : nat => 1 - (match rho with Some r => r | None => 0 end) end in
  let ph := psihat_of pk sk0 in
  let php := psihatP_of pk sk0 in
  let phiS := match phiS0 with Some x => x | None => php 1 / kave_of pk end in
  Ok (Attack_rate_cts_time_loop gamma tau phiR0 phiS php ph n).

(* what Attack_rate_discrete_from_graph / Attack_rate_cts_time_from_graph (analytic.py:4772-4805, 4896-4927) hand over *)
Record ar_args := mkAr { ar_pk : list (nat * Q); ar_rho : option Q; ar_Sk0 : option (nat -> Q); ar_phiS0 : option Q; ar_phiR0 : Q }.
Definition fwd_Attack_rate_from_graph (g : graph) (rq : icreq) : result ar_args :=
  if isSome (rq_rho rq) && isSome (rq_I rq) then Err EoNError else
  if isSome (rq_rho rq) && isSome (rq_R rq) then Err EoNError else
  let pk := pk_of_graph g in
  match rq_I rq with
  | Some I0 =>
    rbind (initialize_node_status g I0 (rq_R rq)) (fun st =>
      match gnodes g with [] => Err ValueErr | _ =>
      let Nk := Nk_of g in
      let SX := SX_of g st in
      if Qeqb SX 0 then Err ZeroDivision else
      (* Sk0[k] += 1./Nk[k] for every susceptible node of degree k *)
      Ok (mkAr pk None (Some (fun k => Sk_cnt g st k * (1 / vnth k Nk))) (Some (SS_of g st * 1 / SX)) (SR_of g st * 1 / SX))
      end)
  | None => Ok (mkAr pk (rq_rho rq) None None 0)
  end.
Definition o_Attack_rate_discrete_from_graph (g : graph) (rq : icreq) (p : Q) (n : nat) : result Q :=
  rbind (fwd_Attack_rate_from_graph g rq) (fun a => attack_rate_discrete_g (ar_pk a) p (ar_rho a) (ar_Sk0 a) (ar_phiS0 a) (ar_phiR0 a) n).
Definition o_Attack_rate_cts_time_from_graph (g : graph) (rq : icreq) (tau gamma : Q) (n : nat) : result Q :=
  rbind (fwd_Attack_rate_from_graph g rq) (fun a => attack_rate_cts_time_g (ar_pk a) tau gamma (ar_rho a) (ar_Sk0 a) (ar_phiS0 a) (ar_phiR0 a) n).

(* ======================  dispatcher for the extracted driver  ====================== *)
Inductive oentry :=
  | E_SISm | E_SIRm | E_SISp | E_SIRp | E_SIShm | E_SIRhm | E_SIShp | E_SIRhp | E_SIScp | E_SISced | E_SIRcp
  | E_SISsc | E_SIRsc | E_SISed | E_SIRed | E_SIRced | E_EBCM
  | E_SISib | E_SIRib | E_SISibp | E_SIRibp | E_SISpb | E_SIRpb | E_SISpbp | E_SIRpbp
  | E_EBCMu | E_PM | E_PMg
  | E_EBCMd | E_EBCMdg | E_EBCMdu | E_PMd | E_PMdg
  | E_ARd | E_ARc.

(* arguments by type, in signature order within each type *)
Record oargs := mkOA {
  a_q : list Q; a_oq : list (option Q); a_v : list vec; a_ov : list (option vec);
  a_m : list (list vec); a_om : list (option (list vec)); a_f : list (Q -> Q);
  a_g : graph; a_nl : option (list node); a_I : option (list node); a_R : option (list node);
  a_pk : list (nat * Q); a_pnk : pnkdict; a_ks : option (list nat); a_z : list Z; a_n : nat; a_full : bool }.
Definition qa (a : oargs) (i : nat) : Q := nth i (a_q a) 0.
Definition oqa (a : oargs) (i : nat) : option Q := nth i (a_oq a) None.
Definition va (a : oargs) (i : nat) : vec := nth i (a_v a) [].
Definition ova (a : oargs) (i : nat) : option vec := nth i (a_ov a) None.
Definition ma (a : oargs) (i : nat) : list vec := nth i (a_m a) [].
Definition oma (a : oargs) (i : nat) : option (list vec) := nth i (a_om a) None.
Definition fa (a : oargs) (i : nat) : Q -> Q := nth i (a_f a) (fun _ => 0).
Definition za (a : oargs) (i : nat) : Z := nth i (a_z a) 0%Z.
Definition rq_of (a : oargs) : icreq := mkReq (a_I a) (a_R a) (oqa a 0).
Definition I_of (a : oargs) : list node := match a_I a with Some l => l | None => [] end.

(* the ODE entry points *)
Definition model_of (e : oentry) (a : oargs) : emodel :=
  let full := a_full a in
  match e with
  | E_SISm => m_SIS_homogeneous_meanfield (qa a 0) (qa a 1)
  | E_SIRm => m_SIR_homogeneous_meanfield (qa a 0) (qa a 1) (qa a 2)
  | E_SISp => m_SIS_homogeneous_pairwise (qa a 0) (qa a 1) (qa a 2) (qa a 3) (qa a 4) full
  | E_SIRp => m_SIR_homogeneous_pairwise (qa a 0) (qa a 1) (qa a 2) (qa a 3) (qa a 4) (qa a 5) full
  | E_SIShm => m_SIS_heterogeneous_meanfield (va a 0) (va a 1) full
  | E_SIRhm => m_SIR_heterogeneous_meanfield (va a 0) (va a 1) (va a 2) full
  | E_SIShp => m_SIS_heterogeneous_pairwise (va a 0) (va a 1) (ma a 0) (ma a 1) (ma a 2) full
  | E_SIRhp => m_SIR_heterogeneous_pairwise (va a 0) (va a 1) (va a 2) (ma a 0) (ma a 1) (a_ks a) full
  | E_SIScp => m_SIS_compact_pairwise (va a 0) (va a 1) (qa a 0) (qa a 1) (qa a 2) full
  | E_SISced => m_SIS_compact_effective_degree (va a 0) (va a 1) (qa a 0) (qa a 1) (qa a 2) full
  | E_SIRcp => m_SIR_compact_pairwise (va a 0) (qa a 0) (qa a 1) (qa a 2) (qa a 3) full
  | E_SISsc => m_SIS_super_compact_pairwise (qa a 0) (qa a 1) (qa a 2) (qa a 3) (qa a 4) full
  | E_SIRsc => m_SIR_super_compact_pairwise (qa a 0) (qa a 1) (qa a 2) (qa a 3) (fa a 0) full
  | E_SISed => m_SIS_effective_degree (ma a 0) (ma a 1) full
  | E_SIRed => m_SIR_effective_degree (ma a 0) (qa a 0) (qa a 1) full
  | E_SIRced => m_SIR_compact_effective_degree (va a 0) (qa a 0) (qa a 1) (qa a 2) full
  | E_EBCM => m_EBCM (qa a 0) (fa a 0) (qa a 1) full
  | E_SISib => m_SIS_individual_based (a_g a) (oqa a 0) (ova a 0) (a_nl a) full
  | E_SIRib => m_SIR_individual_based (a_g a) (oqa a 0) (ova a 0) (ova a 1) (a_nl a) full
  | E_SISibp => m_SIS_individual_based_pure_IC (a_g a) (I_of a) (a_nl a) full
  | E_SIRibp => m_SIR_individual_based_pure_IC (a_g a) (I_of a) (a_R a) (a_nl a) full
  | E_SISpb => m_SIS_pair_based (a_g a) (oqa a 0) (a_nl a) (ova a 0) (oma a 0) (oma a 1) full
  | E_SIRpb => m_SIR_pair_based (a_g a) (oqa a 0) (a_nl a) (ova a 0) (ova a 1) (oma a 0) (oma a 1) full
  | E_SISpbp => m_SIS_pair_based_pure_IC (a_g a) (I_of a) (a_nl a) full
  | E_SIRpbp => m_SIR_pair_based_pure_IC (a_g a) (I_of a) (a_R a) (a_nl a) full
  | E_EBCMu => m_EBCM_uniform_introduction (qa a 0) (fa a 0) (fa a 1) (qa a 1) full
  | E_PM => m_EBCM_pref_mix (qa a 0) (a_pk a) (oqa a 0) full
  | E_PMg => m_EBCM_pref_mix_from_graph (a_g a) (oqa a 0) full
  | _ => Err PyException
  end.
Definition run_entry_ode (e : oentry) (a : oargs) (tmin tmax : Q) (tcount : nat) (sv : msolver) : result oret :=
  run_model (model_of e a) tmin tmax tcount sv.

(* the discrete-time entry points: a_z = [tmin; tmax] *)
Definition run_entry_disc (e : oentry) (a : oargs) : result oret :=
  let full := a_full a in
  match e with
  | E_EBCMd => Ok (o_EBCM_discrete (mkEb (qa a 0) (fa a 0) (fa a 1) (qa a 2) (qa a 3) (qa a 4)) (qa a 1) (za a 0) (za a 1) full)
  | E_EBCMdg => o_EBCM_discrete_from_graph (a_g a) (rq_of a) (qa a 0) (za a 0) (za a 1) full
  | E_EBCMdu => Ok (o_EBCM_discrete_uniform_introduction (qa a 0) (fa a 0) (fa a 1) (qa a 1) (qa a 2) (za a 1) full)
  | E_PMd => Ok (o_EBCM_pref_mix_discrete (qa a 0) (a_pk a) (a_pnk a) (qa a 1) (oqa a 0) (za a 0) (za a 1) full)
  | E_PMdg => Ok (o_EBCM_pref_mix_discrete_from_graph (a_g a) (qa a 0) (oqa a 0) (za a 0) (za a 1) full)
  | _ => Err PyException
  end.

(* what a wrapper hands to EBCM / EBCM_discrete, evaluated for printing: [N; psihat x; psihatPrime x; phiS0; phiR0; R0] *)
Definition eb_view (a : ebcm_args) (x : Q) : vec := [eb_N a; eb_psihat a x; eb_psihatP a x; eb_phiS0 a; eb_phiR0 a; eb_R0 a].
Definition fwd_entry (e : oentry) (a : oargs) (x : Q) : result vec :=
  match e with
  | E_EBCMu => Ok (eb_view (fwd_EBCM_uniform_introduction (qa a 0) (fa a 0) (fa a 1) (qa a 1)) x)
  | E_EBCMdu => Ok (eb_view (fwd_EBCM_uniform_introduction (qa a 0) (fa a 0) (fa a 1) (qa a 2)) x)
  | E_EBCMdg => rbind (fwd_EBCM_discrete_from_graph (a_g a) (rq_of a)) (fun b => Ok (eb_view b x))
  | _ => Err PyException
  end.
(* Attack_rate_*_from_graph: the value after a_n iterations, and the forwarded (Sk0 as an array over 0..maxk, phiS0, phiR0) *)
Definition run_entry_ar (e : oentry) (a : oargs) : result Q :=
  match e with
  | E_ARd => o_Attack_rate_discrete_from_graph (a_g a) (rq_of a) (qa a 0) (a_n a)
  | E_ARc => o_Attack_rate_cts_time_from_graph (a_g a) (rq_of a) (qa a 0) (qa a 1) (a_n a)
  | _ => Err PyException
  end.
Definition ar_view (g : graph) (rq : icreq) : result (list (nat * Q) * option Q * option vec * option Q * Q) :=
  rbind (fwd_Attack_rate_from_graph g rq) (fun a =>
    Ok (ar_pk a, ar_rho a, match ar_Sk0 a with Some s => Some (map s (classes g)) | None => None end, ar_phiS0 a, ar_phiR0 a)).
