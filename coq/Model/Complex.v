(* L2 model of EoN.simulation.Gillespie_complex_contagion (sim:3513-3762), written
   as the code is: the user's three functions are oracles taking the CURRENT
   status map; nodes_by_rate is the concrete weighted _ListDict_ of
   Model/ListDict.v (keys [u]) maintained by insert(node, weight=rate) -- which
   replaces the weight and removes the node when the weight is 0 --; running
   count rows (one column per return status); the event log of the full-data
   object; and the log of every call made to a user function with the snapshot
   of the status map it was given.  A sampler program (Base/Samp.v). *)
From EoNV Require Import Prelude Samp Graph ListDict Gillespie.

Definition smap := node -> N.                 (* status[u]; statuses are small numbers *)

(* a call to a user function: kind 0 = rate_function, 1 = transition_choice,
   2 = get_influence_set; the node argument; the statuses of list(G.nodes()) *)
Definition ucall := (N * node * list N)%type.

Record cst := mkC {
  cstat : smap;
  cnbr : kld;                                 (* nodes_by_rate *)
  crows : list row;                           (* (t, [count per return status]) newest first *)
  celog : list (Q * node * N);                (* full data: (time, node, new status) newest first *)
  ccalls : list ucall                         (* newest first *)
}.

Definition cout := (simout * list ucall)%type.

Definition kl_insert (s : kld) (k : key) (w : Q) : result kld := ld_insert key keqb s k (Some w).

Definition liftc {A} (r : result A) (k : A -> samp cout) : samp cout :=
  match r with Ok a => k a | Err e => Fail e end.

Section Complex.
Variable g : graph.
Variable rate : smap -> node -> Q.            (* rate_function(G, u, status, parameters) *)
Variable choice : smap -> node -> N.          (* transition_choice(G, u, status, parameters) *)
Variable infl : smap -> node -> list node.    (* get_influence_set(G, u, status, parameters), iteration order *)
Variable rstats : list N.                     (* return_statuses *)
Variable tmin : Q.
Variable tmax : xtime.
Variable full : bool.

Definition snap (st : smap) : list N := map st (gnodes g).
Definition call_rate (st : smap) (u : node) : ucall := (0%N, u, snap st).
Definition call_choice (st : smap) (u : node) : ucall := (1%N, u, snap st).
Definition call_infl (st : smap) (u : node) : ucall := (2%N, u, snap st).

(* C = Counter(status.values()); data[rs] = [C[rs]] *)
Definition count_status (st : smap) (s : N) : Z :=
  Z.of_nat (length (filter (fun u => N.eqb (st u) s) (gnodes g))).
Definition counts (st : smap) : list Z := map (count_status st) rstats.

(* for x in data: data[x].append(data[x][-1]); data[old][-1] -= 1; data[new][-1] += 1
   (data is a dict keyed by return status: a status listed twice is one entry,
   reported in two columns) *)
Definition bump (old new : N) (c : list Z) : list Z :=
  map (fun sc => (snd sc + (if N.eqb (fst sc) new then 1 else 0)
                         - (if N.eqb (fst sc) old then 1 else 0))%Z) (combine rstats c).

(* weight = rate_function(G, v, status, parameters); nodes_by_rate.insert(v, weight=weight) *)
Definition refresh (st : smap) (acc : result (kld * list ucall)) (v : node) : result (kld * list ucall) :=
  rbind acc (fun lc =>
    rbind (kl_insert (fst lc) (knode v) (rate st v)) (fun l' =>
      Ok (l', call_rate st v :: snd lc))).

(* initial fill: for u in G.nodes(): rate = ...; if rate > 0: insert(u, weight=rate) *)
Definition fill (st : smap) : result (kld * list ucall) :=
  fold_left (fun acc u =>
    rbind acc (fun lc =>
      let r := rate st u in
      let cl := call_rate st u :: snd lc in
      if Qltb 0 r then rbind (kl_insert (fst lc) (knode u) r) (fun l' => Ok (l', cl))
      else Ok (fst lc, cl)))
    (gnodes g) (Ok (kl_empty true, [])).

(* the body of the while loop after `node = choose_random()`, at time t *)
Definition apply_event (t : Q) (u : node) (s : cst) : result cst :=
  let st := cstat s in
  let ns := choice st u in
  let rows' := (t, bump (st u) ns (hd_counts (crows s))) :: crows s in
  let st' := fupdN st u ns in
  let calls1 := call_choice st u :: ccalls s in
  rbind (refresh st' (Ok (cnbr s, calls1)) u) (fun lc1 =>
  let vs := infl st' u in
  let calls2 := call_infl st' u :: snd lc1 in
  rbind (fold_left (refresh st') vs (Ok (fst lc1, calls2))) (fun lc2 =>
  Ok (mkC st' (fst lc2) rows' (if full then (t, u, ns) :: celog s else celog s) (snd lc2)))).

(* node = nodes_by_rate.choose_random(); new_status = transition_choice(...) *)
Definition jump (s : cst) : samp (node * N) :=
  Choose true (kl_cands (cnbr s)) (fun c =>
    match keynode c with
    | Ok u => Ret (u, choice (cstat s) u)
    | Err e => Fail e
    end).

Definition event (t : Q) (s : cst) (k : cst -> samp cout) : samp cout :=
  bind (jump s) (fun un => liftc (apply_event t (fst un) s) k).

(* node_history[node] = ([tmin],[status[node]]) then (t, new_status) appended;
   no transmissions are recorded.  The full-data object is
   Simulation_Investigation(G, node_history, possible_statuses=return_statuses),
   whose constructor runs summary(): a node whose initial status is not a return
   status is skipped, a later status that is not a return status is a KeyError
   (delta[new_status]), and if every node was skipped t[0] is an IndexError. *)
Definition full_check (st0 : smap) (log : list (Q * node * N)) : result unit :=
  let counted := filter (fun u => mem (st0 u) rstats) (gnodes g) in
  if existsb (fun u => existsb (fun e => negb (mem (snd e) rstats)) (node_events u log)) counted
  then Err KeyErr
  else match counted with [] => Err IndexErr | _ => Ok tt end.

Definition cfinish (st0 : smap) (s : cst) : samp cout :=
  if full then
    let log := rev (celog s) in
    match full_check st0 log with
    | Err e => Fail e
    | Ok _ =>
      Ret (mkOut (rev (crows s))
                 (Some (mkFull (map (fun u => (u, (tmin, st0 u) :: node_events u log)) (gnodes g)) [])),
           rev (ccalls s))
    end
  else Ret (mkOut (rev (crows s)) None, rev (ccalls s)).

(* if total_weight()>0: delay = expovariate(total_weight()) else: delay = Inf
   t += delay
   while total_weight()>0 and t < tmax: ... *)
Fixpoint cloop (st0 : smap) (fuel : nat) (t : Q) (s : cst) : samp cout :=
  let tot := ld_total_weight key (cnbr s) in
  if Qltb 0 tot then
    Expo tot (fun d =>
      let t1 := t + d in
      if xlt t1 tmax then
        match fuel with
        | O => Fail OutOfFuel
        | S f => event t1 s (fun s' => cloop st0 f t1 s')
        end
      else cfinish st0 s)
  else cfinish st0 s.          (* delay = Inf: `t < tmax` fails even for tmax = Inf *)

(* IC[node] for node in G.nodes(): a plain dict without the node raises KeyError *)
Definition complex (ic : node -> option N) (fuel : nat) : samp cout :=
  if forallb (fun u => match ic u with Some _ => true | None => false end) (gnodes g) then
    let st0 : smap := fun u => match ic u with Some s => s | None => 0%N end in
    liftc (fill st0) (fun lc =>
      cloop st0 fuel tmin (mkC st0 (fst lc) [(tmin, counts st0)] [] (snd lc)))
  else Fail KeyErr.

End Complex.

(* ------------------------------------------------------------------------- *)
(* Executable user models.  (1) A parametric family covering threshold /
   complex contagions, SIS/SIR-like dynamics, multi-step cascades and
   long-range influence: a node whose own status is s looks at the nodes of its
   source set (in-neighbours, or every node) whose status is [r_watch]; with
   c = their number (or the sum of the edge weights towards it) its rate is
   nw(u) * (if r_thr <= c then r_base + r_slope*c else r_low); when it fires
   its new status is c_a if c_thr <= (the same count for c_watch) else c_b.   *)

Record srow := mkSRow {
  r_watch : N; r_thr : Q; r_base : Q; r_slope : Q; r_low : Q;
  c_watch : N; c_thr : Q; c_a : N; c_b : N
}.

Record cmodel := mkCM {
  cm_rows : list srow;      (* by own status; a status without row is absorbing *)
  cm_src : N;               (* 0: in-neighbours (predecessors; neighbours when undirected); 1: all nodes *)
  cm_infl : N;              (* 0: successors; 1: successors whose status is in cm_filt; 2: all nodes;
                               3: successors then the node itself; 4: nothing *)
  cm_filt : list N
}.

Definition fam_count (g : graph) (m : cmodel) (st : smap) (u : node) (watch : N) : Q :=
  if N.eqb (cm_src m) 0 then
    sumQ (map (fun v => if ewt g then ew g v u else 1)
              (filter (fun v => N.eqb (st v) watch) (gpred g u)))
  else Qnat (length (filter (fun v => N.eqb (st v) watch) (gnodes g))).

Definition fam_rate (g : graph) (m : cmodel) (st : smap) (u : node) : Q :=
  match nth_error (cm_rows m) (N.to_nat (st u)) with
  | None => 0
  | Some r =>
    let c := fam_count g m st u (r_watch r) in
    (if nwt g then nw g u else 1) * (if Qleb (r_thr r) c then r_base r + r_slope r * c else r_low r)
  end.

Definition fam_choice (g : graph) (m : cmodel) (st : smap) (u : node) : N :=
  match nth_error (cm_rows m) (N.to_nat (st u)) with
  | None => st u
  | Some r => if Qleb (c_thr r) (fam_count g m st u (c_watch r)) then c_a r else c_b r
  end.

Definition fam_infl (g : graph) (m : cmodel) (st : smap) (u : node) : list node :=
  match cm_infl m with
  | 0%N => gadj g u
  | 1%N => filter (fun v => mem (st v) (cm_filt m)) (gadj g u)
  | 2%N => gnodes g
  | 3%N => gadj g u ++ [u]
  | _ => []
  end.

Definition complex_fam (g : graph) (m : cmodel) :=
  complex g (fam_rate g m) (fam_choice g m) (fam_infl g m).

(* (2) arbitrary user functions are given to the driver as tables over the
   status configurations of a small graph: [complex] is applied to the lookup
   functions directly. *)

Definition run_complex g rate choice infl rstats tmin tmax full ic fuel (ds : list Q) :=
  exec (complex g rate choice infl rstats tmin tmax full ic fuel) ds [].
