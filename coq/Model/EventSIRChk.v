(* Decidable checkers, in the vocabulary of the theorems of Props/C04esir.v and
   Props/C09esir.v, meant to be extracted and applied to the IMPLEMENTATION's outputs
   (arrays; transmissions()) of fast_nonMarkov_SIR / fast_SIR.  Proofs/EventSIRChk.v: every
   run of the model passes them (completeness w.r.t. the theorems), and what acceptance
   means (soundness).  Executable definitions only. *)
From EoNV Require Import Prelude Samp Graph EventSIR Investigation.

(* ---------------- C04: the arrays ---------------- *)
Definition row_okb (n : Z) (c : list Z) : bool :=
  match c with
  | [a; b; d] => (0 <=? a)%Z && (0 <=? b)%Z && (0 <=? d)%Z && (a + b + d =? n)%Z
  | _ => false
  end.

Definition cnt3 (c : list Z) (i : nat) : Z := nth i c 0%Z.

(* one infection (S-1, I+1) or one recovery (I-1, R+1) *)
Definition move_okb (c c' : list Z) : bool :=
  zlist_eqb c' [cnt3 c 0 - 1; cnt3 c 1 + 1; cnt3 c 2]%Z || zlist_eqb c' [cnt3 c 0; cnt3 c 1 - 1; cnt3 c 2 + 1]%Z.

Fixpoint steps_okb (n : Z) (tmax : xtime) (r : row) (l : list row) : bool :=
  match l with
  | [] => true
  | r2 :: l' => Qleb (fst r) (fst r2) && xlt (fst r2) tmax && move_okb (snd r) (snd r2) && row_okb n (snd r2) &&
                steps_okb n tmax r2 l'
  end.

Definition wf_trajb (g : graph) (tmin : Q) (tmax : xtime) (rows : list row) : bool :=
  match rows with
  | [] => false
  | r :: l => Qeqb (fst r) tmin && row_okb (order g) (snd r) && steps_okb (order g) tmax r l
  end.

(* ---------------- C09: transmissions() ---------------- *)
Definition txent := (Q * option node * node)%type.

(* the time of the entry whose target is v *)
Fixpoint find_tx (v : node) (l : list txent) : option Q :=
  match l with
  | [] => None
  | (t, _, w) :: r => if N.eqb w v then Some t else find_tx v r
  end.

Definition xle (t : Q) (b : xtime) : bool := match b with Some m => Qleb t m | None => true end.
Definition xplus (t : Q) (d : xtime) : xtime := match d with Some x => Some (t + x) | None => None end.

Section Tx.
Variable g : graph.
Variable delay : node -> node -> xtime.
Variable dur : node -> xtime.
Variable tmin : Q.
Variable tmax : xtime.
Variables i0 r0 : list node.

(* one entry, given the earlier ones [seen] and the time [last] of the previous one *)
Definition tx_entry_okb (seen : list txent) (last : Q) (x : txent) : bool :=
  let '(t, s, v) := x in
  Qleb last t && xlt t tmax && mem v (gnodes g) && negb (mem v r0) &&
  (match find_tx v seen with None => true | Some _ => false end) &&
  match s with
  | None => mem v i0 && Qeqb t tmin
  | Some u =>
    mem u (gnodes g) && mem v (gadj g u) &&
    match find_tx u seen, delay u v with
    | Some tu, Some d => Qeqb t (tu + d) && Qleb tu t && xle t (xplus tu (dur u))
    | _, _ => false
    end
  end.

Fixpoint txs_okb (seen : list txent) (last : Q) (l : list txent) : bool :=
  match l with
  | [] => true
  | x :: r => tx_entry_okb seen last x && txs_okb (x :: seen) (fst (fst x)) r
  end.

(* the whole list: every entry valid in its turn, and every initial node has its entry *)
Definition tx_validb (txs : list txent) : bool :=
  txs_okb [] tmin txs &&
  forallb (fun u => existsb (fun x : txent => match snd (fst x) with None => N.eqb (snd x) u | Some _ => false end) txs) i0.
End Tx.
