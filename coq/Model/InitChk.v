(* C05 for the event-driven SIR, simple-contagion and complex-contagion simulators:
   executable definitions only.  (1) Gillespie_simple_contagion with IC given as a plain
   dict (Model/Simple.v takes a total IC: `status = {node: IC[node] for node in G.nodes()}`
   (sim:4097) is the first statement that can fail, with KeyError, when a node is not
   listed).  (2) Decidable checkers "the output starts from the request", extracted and
   applied by harness/xc05.py to the IMPLEMENTATION's outputs. *)
From EoNV Require Import Prelude Samp Graph Simple.

Definition ic_total (icd : node -> option N) : node -> N :=
  fun u => match icd u with Some s => s | None => 0%N end.
Definition ic_covers (g : graph) (icd : node -> option N) : bool :=
  forallb (fun u => match icd u with Some _ => true | None => false end) (gnodes g).

Definition simple_dict (g : graph) (sortable : bool) (spont induced : list trans) (icd : node -> option N)
    (rstat : list N) (tmin : Q) (tmax : xtime) (full : bool) (fuel : nat) : samp simout :=
  if ic_covers g icd then simple g sortable spont induced (ic_total icd) rstat tmin tmax full fuel
  else Fail KeyErr.

(* ---------------- checkers ---------------- *)
Fixpoint zlist_eqb (a b : list Z) : bool :=
  match a, b with
  | [], [] => true
  | x :: a', y :: b' => Z.eqb x y && zlist_eqb a' b'
  | _, _ => false
  end.

Fixpoint hlook (u : node) (hs : list (node * history)) : option history :=
  match hs with
  | [] => None
  | (v, h) :: r => if N.eqb u v then Some h else hlook u r
  end.

(* generic simulators: the first row is (tmin, [number of nodes whose requested status is x,
   for x in return_statuses]); with full data every node of the graph has a history whose
   first entry is (tmin, its requested status) *)
Definition req_counts (nodes : list node) (req : node -> N) (rstat : list N) : list Z :=
  map (fun x => Z.of_nat (length (filter (fun u => N.eqb (req u) x) nodes))) rstat.

Definition ic_genb (nodes : list node) (req : node -> N) (rstat : list N) (tmin : Q)
    (rows : list row) (hist : option (list (node * history))) : bool :=
  match rows with
  | (t, c) :: _ => Qeqb t tmin && zlist_eqb c (req_counts nodes req rstat)
  | [] => false
  end &&
  match hist with
  | None => true
  | Some hs =>
    forallb (fun u => match hlook u hs with
                      | Some ((t, s) :: _) => Qeqb t tmin && N.eqb s (req u)
                      | _ => false
                      end) nodes
  end.

(* SIR simulators: the first row is (tmin, N-|I0|-|R0|, |I0|, |R0|); with full data an
   initially recovered node has the history [(tmin, R)] and nothing else, an initially
   infected node starts with (tmin, I) -- or is [(tmin, R)] when it recovered at the very
   instant tmin (zero duration) --, every other node starts with (tmin, S) -- or with
   an entry at the instant tmin when it was infected at tmin (zero delay) *)
Definition hist_sir_okb (tmin : Q) (i0 r0 : list node) (u : node) (h : history) : bool :=
  if mem u r0 then
    match h with [(t, s)] => Qeqb t tmin && N.eqb s stR | _ => false end
  else if mem u i0 then
    match h with
    | (t, s) :: rest => Qeqb t tmin && (N.eqb s stI || (N.eqb s stR && match rest with [] => true | _ => false end))
    | [] => false
    end
  else
    match h with
    | (t, s) :: _ => Qeqb t tmin && (N.eqb s stS || N.eqb s stI || N.eqb s stR)   (* I, R: only through a tie at tmin *)
    | [] => false
    end.

Definition ic_sirb (nodes : list node) (i0 r0 : list node) (tmin : Q)
    (rows : list row) (hist : option (list (node * history))) : bool :=
  let n := Z.of_nat (length nodes) in
  let k := Z.of_nat (length i0) in
  let nr := Z.of_nat (length r0) in
  match rows with
  | (t, c) :: _ => Qeqb t tmin && zlist_eqb c [n - k - nr; k; nr]%Z
  | [] => false
  end &&
  match hist with
  | None => true
  | Some hs =>
    forallb (fun u => match hlook u hs with Some h => hist_sir_okb tmin i0 r0 u h | None => false end) nodes
  end.

(* the domain of C05 for the SIR simulators: the two collections are duplicate-free,
   disjoint, inside the graph, whose node list is duplicate-free; tmin < tmax *)
Definition ic_domb (nodes i0 r0 : list node) (tmin : Q) (tmax : xtime) : bool :=
  nodupb nodes && nodupb i0 && nodupb r0 && subsetb i0 nodes && subsetb r0 nodes &&
  forallb (fun u => negb (mem u r0)) i0 && xlt tmin tmax.
