(* C17 — percolation-based estimators, written as the code is
   (EoN/simulation.py: percolate_network, estimate_SIR_prob_size,
   directed_percolate_network, _out_component_, _in_component_,
   estimate_SIR_prob_size_from_dir_perc, nonMarkov_directed_percolate_network
   (_with_timing), estimate_nonMarkov_SIR_prob_size(_with_timing)).
   Executable definitions only; the lemmas are in Proofs/PercolationP.v.

   networkx primitives are modelled by their specification:
     nx.descendants(G,s) / nx.ancestors(G,s) = breadth-first closure of the
       successor / predecessor relation from s, WITHOUT s itself;
       NetworkXError when s is not a node;
     nx.strongly_connected_components = classes of mutual reachability, in an
       unspecified order (here: by first member in node order);
     nx.connected_components = classes of reachability of an undirected graph;
     max(seq, key=len) = SOME longest element (which one depends on the
       generation order of networkx, so the model takes the index of the
       choice among the longest as an argument and the theorems hold for
       every index);  list(set)[0] = SOME element (index argument as well). *)
From EoNV Require Import Prelude Samp Graph.

(* ---------------- finite sets as duplicate-free lists ---------------- *)
(* the members of l that are not in seen, each once, in order of appearance *)
Fixpoint fresh (l seen : list node) : list node :=
  match l with
  | [] => []
  | y :: t => if mem y seen then fresh t seen else y :: fresh t (y :: seen)
  end.

Definition dedup (l : list node) : list node := fresh l [].      (* set(l) *)
Definition union (a b : list node) : list node := a ++ fresh b a. (* a.union(b) *)
Definition drop (s : node) (l : list node) : list node := filter (fun y => negb (N.eqb y s)) l.

(* ---------------- breadth-first closure (nx.bfs_edges) ---------------- *)
(* work = queue; seen = visited; one fuel unit per dequeued node *)
Fixpoint bfs (succ : node -> list node) (fuel : nat) (work seen : list node) : result (list node) :=
  match work with
  | [] => Ok seen
  | x :: rest =>
    match fuel with
    | O => Err OutOfFuel
    | S f => let nw := fresh (succ x) seen in bfs succ f (rest ++ nw) (seen ++ nw)
    end
  end.

(* every node is dequeued at most once, so |nodes| units of fuel suffice (proved) *)
Definition closure (g : graph) (succ : node -> list node) (s : node) : result (list node) :=
  bfs succ (length (gnodes g)) [s] [s].

Definition has_node (g : graph) (u : node) : bool := mem u (gnodes g).

(* nx.descendants / nx.ancestors; NetworkXError (an Exception) for a non-node *)
Definition descendants (g : graph) (s : node) : result (list node) :=
  if has_node g s then rbind (closure g (gadj g) s) (fun r => Ok (drop s r)) else Err PyException.
Definition ancestors (g : graph) (s : node) : result (list node) :=
  if has_node g s then rbind (closure g (gpred g) s) (fun r => Ok (drop s r)) else Err PyException.

(* ---------------- _out_component_ / _in_component_ ---------------- *)
(* the argument is a node or an iterable of nodes *)
Inductive source := One (u : node) | Many (l : list node).

(* for node in source_nodes: reachable = reachable.union(set(nx.descendants(G,node))) *)
Fixpoint comp_loop (desc : node -> result (list node)) (srcs acc : list node) : result (list node) :=
  match srcs with
  | [] => Ok acc
  | s :: t => rbind (desc s) (fun d => comp_loop desc t (union acc d))
  end.

Definition component (g : graph) (desc : node -> result (list node)) (src : source) : result (list node) :=
  match src with
  | One u =>
    (* if G.has_node(source): {source} else: set(source) -- iterating a number is a TypeError *)
    if has_node g u then comp_loop desc [u] [u] else Err TypeErr
  | Many l => let s := dedup l in comp_loop desc s s
  end.

Definition out_component (g : graph) (src : source) : result (list node) := component g (descendants g) src.
Definition in_component (g : graph) (src : source) : result (list node) := component g (ancestors g) src.

(* ---------------- components ---------------- *)
(* the class of u, listed in node order (a canonical representation: two members
   of one class give the same list) *)
Definition scc_of (g : graph) (u : node) : result (list node) :=
  rbind (closure g (gadj g) u) (fun f =>
  rbind (closure g (gpred g) u) (fun b =>
  Ok (filter (fun x => mem x f && mem x b) (gnodes g)))).

Definition cc_of (g : graph) (u : node) : result (list node) :=
  rbind (closure g (gadj g) u) (fun f => Ok (filter (fun x => mem x f) (gnodes g))).

(* generate the classes: for every node not yet in a generated class, its class *)
Fixpoint classes_loop (cls : node -> result (list node)) (todo : list node) (acc : list (list node))
  : result (list (list node)) :=
  match todo with
  | [] => Ok (rev acc)
  | u :: t => if existsb (mem u) acc then classes_loop cls t acc
              else rbind (cls u) (fun c => classes_loop cls t (c :: acc))
  end.

Definition sccs (g : graph) : result (list (list node)) := classes_loop (scc_of g) (gnodes g) [].
Definition ccs (g : graph) : result (list (list node)) := classes_loop (cc_of g) (gnodes g) [].

Definition maxlen (L : list (list node)) : nat := fold_right (fun c m => Nat.max (length c) m) 0%nat L.
Definition largest (L : list (list node)) : list (list node) :=
  filter (fun c => Nat.eqb (length c) (maxlen L)) L.

Definition frac (k n : nat) : Q := inject_Z (Z.of_nat k) / inject_Z (Z.of_nat n).

(* ---------------- estimate_SIR_prob_size_from_dir_perc ---------------- *)
(* inC = _in_component_(H,u); outC = _out_component_(H,u); PE = len(inC)/N; AR = len(outC)/N *)
Definition est_at (g : graph) (u : node) : result (Q * Q) :=
  rbind (in_component g (One u)) (fun inC =>
  rbind (out_component g (One u)) (fun outC =>
  Ok (frac (length inC) (length (gnodes g)), frac (length outC) (length (gnodes g))))).

(* k = which of the largest strongly connected components max(...,key=len) returns,
   j = which of its elements list(Hscc)[0] is.  A graph without nodes makes
   max() raise ValueError ("max() iterable argument is empty"). *)
Definition estimate_from_dir_perc (g : graph) (k j : nat) : result (Q * Q) :=
  rbind (sccs g) (fun L =>
  match L with
  | [] => Err ValueErr
  | _ => match nth_error (largest L) k with
         | None => Err OutOfDraws          (* k is not a possible choice: excluded by the theorems *)
         | Some C => match nth_error C j with
                     | None => Err OutOfDraws
                     | Some u => est_at g u
                     end
         end
  end).

(* every answer the function can give (all largest components, all elements) *)
Fixpoint collect {A} (l : list (result A)) : result (list A) :=
  match l with
  | [] => Ok []
  | r :: t => rbind r (fun a => rbind (collect t) (fun l' => Ok (a :: l')))
  end.

Definition estimate_answers (g : graph) : result (list (Q * Q)) :=
  rbind (sccs g) (fun L =>
  match L with
  | [] => Err ValueErr
  | _ => collect (flat_map (fun C => map (est_at g) C) (largest L))
  end).

(* ---------------- graphs built from edge lists ---------------- *)
(* adjacency in insertion order: nx add_edge(u,v) appends v to adj[u] (and u to
   adj[v] when undirected, u to pred[v] when directed) *)
Definition graph_of (nodes : list node) (es : list (node * node)) (directed : bool) : graph :=
  mkGraph nodes
    (fun x => flat_map (fun e => if N.eqb (fst e) x then [snd e]
                                 else if negb directed && N.eqb (snd e) x then [fst e] else []) es)
    (fun x => flat_map (fun e => if N.eqb (snd e) x then [fst e]
                                 else if negb directed && N.eqb (fst e) x then [snd e] else []) es)
    directed (fun _ _ => 1) (fun _ => 1) false false.

(* list(G.edges()): every arc when directed; when undirected each edge once, from
   the endpoint that comes first in node order *)
Fixpoint edges_from (g : graph) (todo seen : list node) : list (node * node) :=
  match todo with
  | [] => []
  | u :: t => map (pair u) (filter (fun v => negb (mem v seen)) (gadj g u))
              ++ edges_from g t (if gdirected g then seen else u :: seen)
  end.
Definition edges (g : graph) : list (node * node) := edges_from g (gnodes g) [].

(* ---------------- percolate_network, estimate_SIR_prob_size ---------------- *)
(* for edge in G.edges(): if random.random() < p: H.add_edge(u,v)
   The outcomes of random.random() are the explicit argument us, one per edge in
   the order of list(G.edges()) (scripted semantics; a sampler term with one
   Flip per edge would be a tree of size 2^|edges| under strict evaluation). *)
Fixpoint perc_edges (p : Q) (es : list (node * node)) (us : list Q) (kept : list (node * node))
  : result (list (node * node)) :=
  match es with
  | [] => Ok kept
  | e :: t => match us with
              | [] => Err OutOfDraws
              | u :: us' => perc_edges p t us' (if Qltb u p then kept ++ [e] else kept)
              end
  end.

Definition percolate_network (g : graph) (p : Q) (us : list Q) : result graph :=
  rbind (perc_edges p (edges g) us []) (fun kept => Ok (graph_of (gnodes g) kept false)).

(* size = max(len(CC) for CC in nx.connected_components(H)): ValueError without nodes *)
Definition largest_cc_size (h : graph) : result nat :=
  rbind (ccs h) (fun L => match L with [] => Err ValueErr | _ => Ok (maxlen L) end).

Definition size_answer (n : nat) (h : graph) : result (Q * Q) :=
  rbind (largest_cc_size h) (fun m => Ok (frac m n, frac m n)).

Definition lift {A} (r : result A) : samp A := match r with Ok a => Ret a | Err e => Fail e end.

Definition estimate_SIR_prob_size (g : graph) (p : Q) (us : list Q) : result (Q * Q) :=
  rbind (percolate_network g p us) (size_answer (length (gnodes g))).

(* ---------------- directed percolation with user rules ---------------- *)
(* the DiGraph under construction: nodes and arcs in insertion order, attributes *)
Record pgraph := mkP {
  pg_nodes : list node;
  pg_edges : list (node * node);
  pg_dur : list (node * xtime);              (* H.nodes[u]['duration'] *)
  pg_delay : list (node * node * xtime)      (* H.edges[u,v]['delay_to_infection'] *)
}.
Definition pg_empty : pgraph := mkP [] [] [] [].

Definition addn (x : node) (l : list node) : list node := if mem x l then l else l ++ [x].
Definition eqe (a b : node * node) : bool := N.eqb (fst a) (fst b) && N.eqb (snd a) (snd b).
Definition adde (e : node * node) (l : list (node * node)) : list (node * node) :=
  if existsb (eqe e) l then l else l ++ [e].

(* H.add_node(u, duration=d) / H.add_node(u) *)
Definition p_add_node (w : bool) (h : pgraph) (u : node) (d : xtime) : pgraph :=
  mkP (addn u (pg_nodes h)) (pg_edges h)
      (if w then filter (fun nd => negb (N.eqb (fst nd) u)) (pg_dur h) ++ [(u, d)] else pg_dur h)
      (pg_delay h).
(* H.add_edge(u, v, delay_to_infection=d) / H.add_edge(u,v): adds missing endpoints *)
Definition p_add_edge (w : bool) (h : pgraph) (u v : node) (d : xtime) : pgraph :=
  mkP (addn v (addn u (pg_nodes h))) (adde (u, v) (pg_edges h)) (pg_dur h)
      (if w then filter (fun e => negb (eqe (fst e) (u, v))) (pg_delay h) ++ [(u, v, d)] else pg_delay h).

Definition to_graph (h : pgraph) : graph := graph_of (pg_nodes h) (pg_edges h) true.

(* float comparison delay <= duration with float('Inf') = None *)
Definition xle (a b : xtime) : bool :=
  match a, b with
  | _, None => true
  | None, Some _ => false
  | Some x, Some y => Qleb x y
  end.

(* the calls made to the user's functions, in order *)
Inductive rcall := CallRec (u : node) | CallTrans (u v : node).

Section Rules.
(* the user's rules are oracles: rec_time_fxn(u, ..args), trans_time_fxn(u, v, ..args) *)
Variable dur : node -> xtime.
Variable delay : node -> node -> xtime.

(* nonMarkov_directed_percolate_network_with_timing *)
Definition timing_inner (w : bool) (u : node) (du : xtime) (nbrs : list node) (h : pgraph) : pgraph :=
  fold_left (fun h v => let d := delay u v in
                        if xle d du then p_add_edge w h u v d else h) nbrs h.

Definition nm_perc_timing (g : graph) (w : bool) : pgraph :=
  fold_left (fun h u => let du := dur u in
                        timing_inner w u du (gadj g u) (p_add_node w h u du)) (gnodes g) pg_empty.

Definition nm_perc_timing_calls (g : graph) : list rcall :=
  flat_map (fun u => CallRec u :: map (CallTrans u) (gadj g u)) (gnodes g).

Definition estimate_nonMarkov_with_timing (g : graph) (k j : nat) : result (Q * Q) :=
  estimate_from_dir_perc (to_graph (nm_perc_timing g true)) k j.
End Rules.

Section Rules2.
(* nonMarkov_directed_percolate_network(G, xi, zeta, transmission): xi and zeta
   are dicts (a missing key is a KeyError), transmission any function *)
Variables X Z : Type.
Variable xi : node -> option X.
Variable zeta : node -> option Z.
Variable transmission : X -> Z -> bool.

Fixpoint nm_inner (u : node) (nbrs : list node) (h : pgraph) : result pgraph :=
  match nbrs with
  | [] => Ok h
  | v :: t =>
    match xi u, zeta v with
    | Some a, Some b =>
      nm_inner u t (if transmission a b then p_add_edge false h u v None else h)
    | _, _ => Err KeyErr
    end
  end.

Fixpoint nm_outer (g : graph) (nodes : list node) (h : pgraph) : result pgraph :=
  match nodes with
  | [] => Ok h
  | u :: t => rbind (nm_inner u (gadj g u) (p_add_node false h u None)) (nm_outer g t)
  end.

Definition nm_perc (g : graph) : result pgraph := nm_outer g (gnodes g) pg_empty.

Definition estimate_nonMarkov (g : graph) (k j : nat) : result (Q * Q) :=
  rbind (nm_perc g) (fun h => estimate_from_dir_perc (to_graph h) k j).
End Rules2.

(* ---------------- directed_percolate_network (Markovian rules) ---------------- *)
(* trans_time_fxn = expovariate(tau) if tau>0 else Inf; rec_time_fxn likewise with gamma *)
Definition draw_time {A} (rate : Q) (k : xtime -> samp A) : samp A :=
  if Qltb 0 rate then Expo rate (fun d => k (Some d)) else k None.

Fixpoint dpn_inner (tau : Q) (w : bool) (u : node) (du : xtime) (nbrs : list node) (h : pgraph) : samp pgraph :=
  match nbrs with
  | [] => Ret h
  | v :: t => draw_time tau (fun d => dpn_inner tau w u du t (if xle d du then p_add_edge w h u v d else h))
  end.

Fixpoint dpn_outer (g : graph) (tau gamma : Q) (w : bool) (nodes : list node) (h : pgraph) : samp pgraph :=
  match nodes with
  | [] => Ret h
  | u :: t => draw_time gamma (fun du =>
                bind (dpn_inner tau w u du (gadj g u) (p_add_node w h u du)) (dpn_outer g tau gamma w t))
  end.

Definition directed_percolate_network (g : graph) (tau gamma : Q) (w : bool) : samp pgraph :=
  dpn_outer g tau gamma w (gnodes g) pg_empty.

Definition estimate_directed (g : graph) (tau gamma : Q) (k j : nat) : samp (Q * Q) :=
  bind (directed_percolate_network g tau gamma true)
       (fun h => lift (estimate_from_dir_perc (to_graph h) k j)).

(* ---------------- get_infected_nodes ---------------- *)
(* for node in initial_recovereds: H.remove_node(node) -- incident arcs and attributes go too *)
Definition remove_nodes (h : pgraph) (r0 : list node) : pgraph :=
  mkP (filter (fun x => negb (mem x r0)) (pg_nodes h))
      (filter (fun e => negb (mem (fst e) r0) && negb (mem (snd e) r0)) (pg_edges h))
      (filter (fun nd => negb (mem (fst nd) r0)) (pg_dur h))
      (filter (fun e => negb (mem (fst (fst e)) r0) && negb (mem (snd (fst e)) r0)) (pg_delay h)).

(* a node, or an iterable of nodes: if G.has_node(x): set([x]) else: set(x) *)
Definition as_set (g : graph) (src : source) : result (list node) :=
  match src with
  | One u => if has_node g u then Ok [u] else Err TypeErr
  | Many l => Ok (dedup l)
  end.

(* after the percolated network h has been drawn: remove the initially recovered
   nodes (NetworkXError for a non-node), then the out-component of the initial infecteds *)
Definition infected_nodes_in (h : pgraph) (i0 r0 : list node) : result (list node) :=
  if forallb (fun x => mem x (pg_nodes h)) r0
  then out_component (to_graph (remove_nodes h r0)) (Many i0)
  else Err PyException.

(* get_infected_nodes(G, tau, gamma, initial_infecteds, initial_recovereds) with explicit
   initial infecteds (with None the code first picks a random node outside the
   recovered set; that branch is not modelled); initial_recovereds=None is Many [] *)
Definition get_infected_nodes (g : graph) (tau gamma : Q) (inf rec : source) : samp (list node) :=
  match as_set g rec with
  | Err e => Fail e
  | Ok r0 =>
    match as_set g inf with
    | Err e => Fail e
    | Ok i0 =>
      if existsb (fun x => mem x r0) i0 then Fail EoNError      (* "initial infecteds and initial recovereds overlap" *)
      else bind (directed_percolate_network g tau gamma true) (fun h => lift (infected_nodes_in h i0 r0))
    end
  end.
