(* L2 model of the event-driven SIS simulators of EoN/simulation.py, written as
   the code is:
     myQueue (sim:26-66)                  heap of (time, counter, function, args);
                                          add silently drops time >= tmax
     _process_trans_SIS_nonMarkov_ (2506) fast_nonMarkov_SIS (2814)
     _process_trans_SIS_Markov (2410)     _find_next_trans_SIS_Markov (2596)
     _process_rec_SIS_ (2656)             fast_SIS (2668)
   and the L0 reference semantics [ref_sis] of property C13 (one global agenda).
   No proofs here (Proofs/EventSISP.v). *)
From EoNV Require Import Prelude Samp Graph.

(* time arithmetic: values are kept reduced so that the extracted model stays
   fast on long runs; Qred x == x *)
Definition tadd (a b : Q) : Q := Qred (a + b).

(* ------------------------------------------------------------------ *)
(* myQueue: heapq on tuples (time, counter, ...) taken by its specification:
   pop returns the least (time, counter); counters are unique *)
Section Queue.
Variable E : Type.
Definition qent := (Q * nat * E)%type.
Definition qtime (x : qent) : Q := fst (fst x).
Definition qctr (x : qent) : nat := snd (fst x).
Definition qbefore (x y : qent) : bool :=
  Qltb (qtime x) (qtime y) || (Qeqb (qtime x) (qtime y) && Nat.ltb (qctr x) (qctr y)).
Fixpoint qins (x : qent) (l : list qent) : list qent :=
  match l with
  | [] => [x]
  | h :: t => if qbefore x h then x :: l else h :: qins x t
  end.
Record queue := mkQ { q_items : list qent; q_ctr : nat }.
Definition q_empty : queue := mkQ [] 0.
(* Q.add(time, f, args): if time < self.tmax: heappush; counter += 1 *)
Definition q_add (tmax : xtime) (q : queue) (t : Q) (e : E) : queue :=
  if xlt t tmax then mkQ (qins (t, q_ctr q, e) (q_items q)) (S (q_ctr q)) else q.
End Queue.
Arguments qtime {E}. Arguments qctr {E}. Arguments qins {E}. Arguments q_add {E}.
Arguments q_items {E}. Arguments q_ctr {E}. Arguments mkQ {E}. Arguments q_empty {E}.
Arguments qbefore {E}.

(* ------------------------------------------------------------------ *)
(* the lists the simulators append to (times/S/I, infection_times,
   recovery_times, transmissions), newest first; shared by the models and the
   reference semantics so that outputs are compared literally *)
Record logs := mkL {
  l_rows : list row;                           (* (time, [S; I]) *)
  l_elog : list (Q * node * N);                (* (time, node, new status) *)
  l_tlog : list (Q * option node * node)
}.
Definition hd_counts (rs : list row) : list Z := match rs with (_, c) :: _ => c | [] => [] end.
Definition cnt (c : list Z) (i : nat) : Z := nth i c 0%Z.
Definition push2 (rs : list row) (t : Q) (dS dI : Z) : list row :=
  let c := hd_counts rs in (t, [cnt c 0 + dS; cnt c 1 + dI]%Z) :: rs.
Definition log_inf (l : logs) (t : Q) (src : option node) (v : node) : logs :=
  mkL (push2 (l_rows l) t (-1) 1) ((t, v, stI) :: l_elog l) ((t, src, v) :: l_tlog l).
Definition log_rec (l : logs) (t : Q) (v : node) : logs :=
  mkL (push2 (l_rows l) t 1 (-1)) ((t, v, stS) :: l_elog l) (l_tlog l).
Definition logs0 (g : graph) (tmin : Q) : logs := mkL [(tmin, [order g; 0%Z])] [] [].

(* _transform_to_node_history_(.., SIR=False) (sim:385-397): infection times and
   recovery times of a node are interleaved I,S,I,S,...; an INFECTION entry at
   tmin resets the history, which starts as ([tmin],['S']) *)
Fixpoint interleave (its rts : list Q) : list (Q * N) :=
  match its with
  | [] => []
  | i :: its' =>
    match rts with
    | [] => (i, stI) :: interleave its' []
    | r :: rts' => (i, stI) :: (r, stS) :: interleave its' rts'
    end
  end.
Definition hist_sis (tmin : Q) (evs : list (Q * N)) : history :=
  fold_left (fun h e => if Qeqb (fst e) tmin && N.eqb (snd e) stI then [e] else h ++ [e]) evs [(tmin, stS)].
Definition times_of (u : node) (s : N) (log : list (Q * node * N)) : list Q :=
  map (fun e => fst (fst e)) (filter (fun e => N.eqb (snd (fst e)) u && N.eqb (snd e) s) log).
Definition build_full (g : graph) (tmin : Q) (l : logs) : fulldata :=
  let log := rev (l_elog l) in
  mkFull (map (fun u => (u, hist_sis tmin (interleave (times_of u stI log) (times_of u stS log)))) (gnodes g))
         (rev (l_tlog l)).
(* times = times[len(initial_infecteds):] etc. *)
Definition finish (g : graph) (tmin : Q) (full : bool) (ni0 : nat) (l : logs) : simout :=
  mkOut (skipn ni0 (rev (l_rows l))) (if full then Some (build_full g tmin l) else None).

(* int(round(x)): Python rounds half to even *)
Definition round_half_even (x : Q) : Z :=
  let n := Qnum x in let d := Z.pos (Qden x) in
  let q := (n / d)%Z in let r := (n mod d)%Z in
  if (2 * r <? d)%Z then q else if (d <? 2 * r)%Z then (q + 1)%Z
  else if Z.even q then q else (q + 1)%Z.

(* initial_infecteds: None -> random.sample(list(G), 1 or int(round(N*rho))) *)
Definition with_initial {A} (g : graph) (i0 : option (list node)) (rho : option Q)
    (k : list node -> samp A) : samp A :=
  match rho, i0 with
  | Some _, Some _ => Fail EoNError
  | _, Some l => k l
  | _, None =>
    let n := match rho with None => 1%Z | Some r => round_half_even (Qnat (length (gnodes g)) * r) end in
    if (n <? 0)%Z then Fail ValueErr
    else Sample (map knode (gnodes g)) (Z.to_nat n) (fun ks => k (concat ks))
  end.

(* ================================================================== *)
(* fast_nonMarkov_SIS                                                   *)
(* the user's rule functions, asked once per infection: the k-th call for a node
   (k = infection ordinal) returns dur v k and, per neighbour, delays v w k *)
Inductive nev :=
| NRec (v : node)                                           (* _process_rec_SIS_ *)
| NTrans (src : option node) (tgt : node) (fut : list Q).   (* _process_trans_SIS_nonMarkov_ with future_transmissions *)

Record nst := mkN {
  ns_stat : node -> N;              (* status, defaultdict 'S' *)
  ns_rec : node -> Q;               (* rec_time, defaultdict tmin-1 *)
  ns_ord : node -> nat;             (* how often the user functions were asked about the node *)
  ns_q : queue nev;
  ns_log : logs
}.

Section NonMarkov.
Variable g : graph.
Variable dur : node -> nat -> Q.
Variable delays : node -> node -> nat -> list Q.
Variable tmax : xtime.

(* heads and tails: Q.add(trans_times[0], .., following_transmissions = trans_times[1:]) *)
Definition chain (q : queue nev) (src : option node) (tgt : node) (tt : list Q) : queue nev :=
  match tt with
  | [] => q
  | h :: tl => q_add tmax q h (NTrans src tgt tl)
  end.

(* one neighbour v of the freshly infected node u at [time] *)
Definition n_sched (time : Q) (u : node) (k : nat) (stat : node -> N) (rec : node -> Q)
    (q : queue nev) (v : node) : queue nev :=
  match delays u v k with
  | [] => q                                             (* if trans_delays[v]: *)
  | dl =>
    let tt := map (fun d => tadd time d) dl in
    let tt := if N.eqb (stat v) stI then filter (fun t => Qltb (rec v) t) tt else tt in
    chain q (Some u) v tt
  end.

Definition n_trans (time : Q) (src : option node) (tgt : node) (fut : list Q) (s : nst) : nst :=
  let s1 :=
    if N.eqb (ns_stat s tgt) stS then
      let k := ns_ord s tgt in
      let stat' := fupdN (ns_stat s) tgt stI in
      let rt := tadd time (dur tgt k) in
      let rec' := fupdN (ns_rec s) tgt rt in
      let q1 := if xlt rt tmax then q_add tmax (ns_q s) rt (NRec tgt) else ns_q s in
      let q2 := fold_left (n_sched time tgt k stat' rec') (gadj g tgt) q1 in
      mkN stat' rec' (fupdN (ns_ord s) tgt (S k)) q2 (log_inf (ns_log s) time src tgt)
    else s in
  (* target is definitely infected now: which stored transmissions can still matter? *)
  let tt := filter (fun t => Qltb (ns_rec s1 tgt) t) fut in
  mkN (ns_stat s1) (ns_rec s1) (ns_ord s1) (chain (ns_q s1) src tgt tt) (ns_log s1).

Definition n_recover (time : Q) (v : node) (s : nst) : nst :=
  mkN (fupdN (ns_stat s) v stS) (ns_rec s) (ns_ord s) (ns_q s) (log_rec (ns_log s) time v).

Definition n_event (time : Q) (e : nev) (s : nst) : nst :=
  match e with
  | NRec v => n_recover time v s
  | NTrans src tgt fut => n_trans time src tgt fut s
  end.

(* while Q: Q.pop_and_run() *)
Fixpoint n_loop (fuel : nat) (s : nst) : result nst :=
  match q_items (ns_q s) with
  | [] => Ok s
  | (t, _, e) :: rest =>
    match fuel with
    | O => Err OutOfFuel
    | S f => n_loop f (n_event t e (mkN (ns_stat s) (ns_rec s) (ns_ord s) (mkQ rest (q_ctr (ns_q s))) (ns_log s)))
    end
  end.

Definition n_init (tmin : Q) (i0 : list node) : nst :=
  mkN (fun _ => stS) (fun _ => tmin - 1) (fun _ => O)
      (fold_left (fun q u => q_add tmax q tmin (NTrans None u [])) i0 q_empty)
      (logs0 g tmin).

Definition nm_run (tmin : Q) (full : bool) (fuel : nat) (i0 : list node) : result simout :=
  rbind (n_loop fuel (n_init tmin i0)) (fun s => Ok (finish g tmin full (length i0) (ns_log s))).

Definition fast_nonMarkov_SIS (i0 : option (list node)) (rho : option Q) (tmin : Q)
    (full : bool) (fuel : nat) : samp simout :=
  with_initial g i0 rho (fun l =>
    match nm_run tmin full fuel l with Ok o => Ret o | Err e => Fail e end).

(* ------------------------------------------------------------------ *)
(* L0 reference semantics of C13: one agenda of (time, Rec v | Att u v),
   processed in time order.  Infection of v at s inserts Rec v at s + dur and
   Att v w at s + d for every neighbour w and every listed d; an attempt infects
   iff the target is susceptible at that instant; nothing at or after tmax is
   ever processed (such entries are not inserted).  The run also computes its
   own domain of definition [r_ok]: every inserted time is strictly in the
   future and differs from every pending time, delay lists are ascending. *)
Inductive aev := ARec (v : node) | AAtt (src : node) (tgt : node).
Record rst := mkR {
  r_stat : node -> N;
  r_ord : node -> nat;
  r_ag : list (Q * aev);            (* pending, ascending in time *)
  r_log : logs;
  r_ok : bool
}.
Fixpoint ains (x : Q * aev) (l : list (Q * aev)) : list (Q * aev) :=
  match l with
  | [] => [x]
  | h :: t => if Qltb (fst x) (fst h) then x :: l else h :: ains x t
  end.
Definition fresh (now t : Q) (ag : list (Q * aev)) : bool :=
  Qltb now t && forallb (fun x => negb (Qeqb (fst x) t)) ag.
Definition r_insert (now : Q) (s : rst) (t : Q) (a : aev) : rst :=
  if xlt t tmax then mkR (r_stat s) (r_ord s) (ains (t, a) (r_ag s)) (r_log s) (r_ok s && fresh now t (r_ag s))
  else s.
Fixpoint ascending (l : list Q) : bool :=
  match l with
  | a :: ((b :: _) as t) => Qltb a b && ascending t
  | _ => true
  end.
Definition r_infect (time : Q) (src : option node) (v : node) (s : rst) : rst :=
  let k := r_ord s v in
  let s0 := mkR (fupdN (r_stat s) v stI) (fupdN (r_ord s) v (S k)) (r_ag s) (log_inf (r_log s) time src v) (r_ok s) in
  let s1 := r_insert time s0 (tadd time (dur v k)) (ARec v) in
  fold_left (fun s w =>
      let dl := delays v w k in
      fold_left (fun s d => r_insert time s (tadd time d) (AAtt v w))
                dl (mkR (r_stat s) (r_ord s) (r_ag s) (r_log s) (r_ok s && ascending dl)))
    (gadj g v) s1.
Definition r_event (time : Q) (a : aev) (s : rst) : rst :=
  match a with
  | ARec v => mkR (fupdN (r_stat s) v stS) (r_ord s) (r_ag s) (log_rec (r_log s) time v) (r_ok s)
  | AAtt u v => if N.eqb (r_stat s v) stS then r_infect time (Some u) v s else s
  end.
Fixpoint r_loop (fuel : nat) (s : rst) : result rst :=
  match r_ag s with
  | [] => Ok s
  | (t, a) :: rest =>
    match fuel with
    | O => Err OutOfFuel
    | S f => r_loop f (r_event t a (mkR (r_stat s) (r_ord s) rest (r_log s) (r_ok s)))
    end
  end.
(* the initially infected nodes are infected at tmin, in the order given *)
Definition r_init (tmin : Q) (i0 : list node) : rst :=
  fold_left (fun s u => if N.eqb (r_stat s u) stS then r_infect tmin None u s
                        else mkR (r_stat s) (r_ord s) (r_ag s) (r_log s) false)
            i0 (mkR (fun _ => stS) (fun _ => O) [] (logs0 g tmin) true).
Definition ref_sis (tmin : Q) (full : bool) (fuel : nat) (i0 : list node) : result (simout * bool) :=
  rbind (r_loop fuel (r_init tmin i0)) (fun s => Ok (finish g tmin full (length i0) (r_log s), r_ok s)).

End NonMarkov.

(* ================================================================== *)
(* fast_SIS (Markovian)                                                 *)
Inductive mev :=
| MRec (v : node)
| MTrans (src : option node) (tgt : node).

Definition xtlt (a b : xtime) : bool :=       (* float '<' with Inf *)
  match a, b with
  | Some x, Some y => Qltb x y
  | Some _, None => true
  | None, _ => false
  end.

Record mst := mkM {
  ms_stat : node -> N;
  ms_rec : node -> xtime;           (* rec_time, defaultdict tmin-1; Inf when the rate is 0 *)
  ms_q : queue mev;
  ms_log : logs
}.

Section Markov.
Variable g : graph.
Variables tau gamma : Q.
Variable tmax : xtime.

(* _get_rate_functions_ *)
Definition trans_rate (u v : node) : Q := if ewt g then tau * ew g u v else tau.
Definition rec_rate (u : node) : Q := if nwt g then gamma * nw g u else gamma.

Definition set_q (s : mst) (q : queue mev) : mst := mkM (ms_stat s) (ms_rec s) q (ms_log s).

(* _find_next_trans_SIS_Markov(Q, time, rate, source, target, ...) *)
Definition find_next {A} (time : Q) (rate : Q) (src tgt : node) (s : mst) (k : mst -> samp A) : samp A :=
  if xtlt (ms_rec s tgt) (ms_rec s src) then
    let fin (tt : xtime) : samp A :=
      match tt with
      | Some t =>
        if xtlt tt (ms_rec s src) && xlt t tmax
        then k (set_q s (q_add tmax (ms_q s) t (MTrans (Some src) tgt)))
        else k s
      | None => k s                                   (* Inf < anything is False *)
      end in
    let redraw (tt : xtime) : samp A :=
      if xtlt tt (ms_rec s tgt) then
        Expo rate (fun d2 =>
          match ms_rec s tgt with
          | Some r => fin (Some (tadd r d2))
          | None => fin None
          end)
      else fin tt in
    if Qltb 0 rate then Expo rate (fun d => redraw (Some (tadd time d)))
    else if Qeqb rate 0 then redraw None
    else Fail EoNError
  else k s.

Fixpoint find_next_all {A} (time : Q) (u : node) (nbrs : list node) (s : mst) (k : mst -> samp A) : samp A :=
  match nbrs with
  | [] => k s
  | v :: rest => find_next time (trans_rate u v) u v s (fun s' => find_next_all time u rest s' k)
  end.

(* _process_trans_SIS_Markov(time, G, source, target, ...) *)
Definition m_trans {A} (time : Q) (src : option node) (tgt : node) (s : mst) (k : mst -> samp A) : samp A :=
  let after (s1 : mst) : samp A :=
    match src with
    | Some u => find_next time (trans_rate u tgt) u tgt s1 k
    | None => k s1
    end in
  if N.eqb (ms_stat s tgt) stS then
    let stat' := fupdN (ms_stat s) tgt stI in
    let lg := log_inf (ms_log s) time src tgt in
    let rr := rec_rate tgt in
    let cont (rt : xtime) : samp A :=
      let q1 := match rt with
                | Some r => if xtlt rt tmax then q_add tmax (ms_q s) r (MRec tgt) else ms_q s
                | None => ms_q s
                end in
      find_next_all time tgt (gadj g tgt) (mkM stat' (fupdN (ms_rec s) tgt rt) q1 lg) after in
    if Qltb 0 rr then Expo rr (fun d => cont (Some (tadd time d)))
    else if Qeqb rr 0 then cont None
    else Fail EoNError
  else after s.

Definition m_recover (time : Q) (v : node) (s : mst) : mst :=
  mkM (fupdN (ms_stat s) v stS) (ms_rec s) (ms_q s) (log_rec (ms_log s) time v).

Fixpoint m_loop (tmin : Q) (full : bool) (ni0 : nat) (fuel : nat) (s : mst) : samp simout :=
  match q_items (ms_q s) with
  | [] => Ret (finish g tmin full ni0 (ms_log s))
  | (t, _, e) :: rest =>
    match fuel with
    | O => Fail OutOfFuel
    | S f =>
      let s0 := set_q s (mkQ rest (q_ctr (ms_q s))) in
      match e with
      | MRec v => m_loop tmin full ni0 f (m_recover t v s0)
      | MTrans src tgt => m_trans t src tgt s0 (fun s' => m_loop tmin full ni0 f s')
      end
    end
  end.

Definition m_init (tmin : Q) (i0 : list node) : mst :=
  mkM (fun _ => stS) (fun _ => Some (tmin - 1))
      (fold_left (fun q u => q_add tmax q tmin (MTrans None u)) i0 q_empty)
      (logs0 g tmin).

Definition fast_SIS (i0 : option (list node)) (rho : option Q) (tmin : Q)
    (full : bool) (fuel : nat) : samp simout :=
  with_initial g i0 rho (fun l => m_loop tmin full (length l) fuel (m_init tmin l)).

End Markov.

Definition run_fast_SIS g tau gamma tmax i0 rho tmin full fuel (ds : list Q) :=
  exec (fast_SIS g tau gamma tmax i0 rho tmin full fuel) ds [].

(* ------------------------------------------------------------------ *)
(* executable checker of a pair of logs (newest first, as the simulators
   build them) against the SIS generator on g: every infection has its
   transmissions entry, hits a susceptible node and comes from an infectious
   neighbour (or has no source: initial infection); every recovery hits an
   infectious node.  Used in Props/C02fast.v. *)
Fixpoint stat_of (elog : list (Q * node * N)) : node -> N :=
  match elog with
  | [] => fun _ => stS
  | (_, v, s) :: rest => fupdN (stat_of rest) v s
  end.
Fixpoint log_ok (g : graph) (elog : list (Q * node * N)) (tlog : list (Q * option node * node)) : bool :=
  match elog with
  | [] => match tlog with [] => true | _ => false end
  | (t, v, s) :: rest =>
    if N.eqb s stI then
      match tlog with
      | (t', src, v') :: trest =>
        Qeqb t t' && N.eqb v v' && N.eqb (stat_of rest v) stS &&
        (match src with None => true | Some u => N.eqb (stat_of rest u) stI && mem v (gadj g u) end) &&
        log_ok g rest trest
      | [] => false
      end
    else N.eqb s stS && N.eqb (stat_of rest v) stI && log_ok g rest tlog
  end.
