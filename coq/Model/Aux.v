(* L2 models of EoN.auxiliary.subsample / get_time_shift (auxiliary.py:6-190)
   and of the degree-distribution helpers get_Pk, get_PGF, get_PGFPrime,
   get_PGFDPrime, get_Pnk, estimate_R0 (analytic.py:306-457). *)
From EoNV Require Import Prelude.
From Coq Require Import Qpower.

Section Subsample.
Variable V : Type.

(* inner while loop: advance the observation pointer while times[j] <= r *)
Fixpoint adv (obs : list (Q * V)) (r : Q) (cand : option V) : list (Q * V) * option V :=
  match obs with
  | [] => ([], cand)
  | (t, v) :: obs' => if Qleb t r then adv obs' r (Some v) else (obs, cand)
  end.

(* outer while loop over report_times *)
Fixpoint scan (reports : list Q) (obs : list (Q * V)) (cand : option V) : result (list V) :=
  match reports with
  | [] => Ok []
  | r :: rs =>
    let '(obs', c') := adv obs r cand in
    match c' with
    | None => Err NameErr                (* `candidate` unbound *)
    | Some v => rbind (scan rs obs' c') (fun l => Ok (v :: l))
    end
  end.

Definition subsample (reports times : list Q) (vals : list V) : result (list V) :=
  match reports, times with
  | r0 :: _, t0 :: _ =>
    if Qltb r0 t0 then Err EoNError else scan reports (combine times vals) None
  | _, _ => Err IndexErr
  end.

(* status2 / status3: the code calls itself on the remaining series *)
Definition subsample2 reports times (v1 v2 : list V) : result (list V * list V) :=
  rbind (subsample reports times v1) (fun a =>
  rbind (subsample reports times v2) (fun b => Ok (a, b))).
Definition subsample3 reports times (v1 v2 v3 : list V) : result (list V * list V * list V) :=
  rbind (subsample reports times v1) (fun a =>
  rbind (subsample2 reports times v2 v3) (fun bc => Ok (a, fst bc, snd bc))).

(* L0 specification: value of the last observation at or before r *)
Definition last_le (obs : list (Q * V)) (r : Q) : option V :=
  match rev (filter (fun tv => Qleb (fst tv) r) obs) with
  | [] => None
  | (_, v) :: _ => Some v
  end.
End Subsample.
Arguments adv {V}. Arguments scan {V}. Arguments subsample {V}. Arguments last_le {V}.
Arguments subsample2 {V}. Arguments subsample3 {V}.

(* get_time_shift: `for index, t in enumerate(times): if L[index] >= threshold: break`
   then `return t`; the loop variable keeps the last time when nothing breaks *)
Fixpoint time_shift_from (times L : list Q) (thr : Q) (last : option Q) : result Q :=
  match times, L with
  | [], _ => match last with Some t => Ok t | None => Err NameErr end
  | t :: ts, l :: ls => if Qleb thr l then Ok t else time_shift_from ts ls thr (Some t)
  | _ :: _, [] => Err IndexErr
  end.
Definition get_time_shift (times L : list Q) (thr : Q) : result Q := time_shift_from times L thr None.

(* first index with L_i >= thr *)
Fixpoint first_reach (L : list Q) (thr : Q) (i : nat) : option nat :=
  match L with
  | [] => None
  | l :: ls => if Qleb thr l then Some i else first_reach ls thr (S i)
  end.

(* ---------------- degree distribution helpers ---------------- *)
(* a graph enters only through its degree sequence (node order) and, for
   get_Pnk, the degrees of each node's neighbours *)
Definition count (k : nat) (ds : list nat) : nat := count_occ Nat.eq_dec ds k.

(* get_Pk: {k : Nk[k]/N}; lookups use .get(k, 0) *)
Definition Pk (ds : list nat) (k : nat) : Q := Qnat (count k ds) / Qnat (length ds).
Definition Pk_keys (ds : list nat) : list nat := nodup Nat.eq_dec ds.
Definition maxdeg (ds : list nat) : nat := fold_right Nat.max 0%nat ds.
Definition ks (ds : list nat) : list nat := seq 0 (S (maxdeg ds)).

Definition Qpow (x : Q) (z : Z) : Q := Qpower x z.

(* Pkarray.dot(x**ks), Pkarray.dot(ks*x**(ks-1)), Pkarray.dot(ks*(ks-1)*x**(ks-2)) *)
Definition psi (ds : list nat) (x : Q) : Q :=
  sumQ (map (fun k => Pk ds k * Qpow x (Z.of_nat k)) (ks ds)).
Definition psiP (ds : list nat) (x : Q) : Q :=
  sumQ (map (fun k => Pk ds k * (Qnat k * Qpow x (Z.of_nat k - 1))) (ks ds)).
Definition psiDP (ds : list nat) (x : Q) : Q :=
  sumQ (map (fun k => Pk ds k * (Qnat k * (Qnat k - 1) * Qpow x (Z.of_nat k - 2))) (ks ds)).

Definition estimate_R0 (ds : list nat) (T : Q) : Q := T * psiDP ds 1 / psiP ds 1.

(* moments of the degree sequence *)
Definition mean_k (ds : list nat) : Q := sumQ (map Qnat ds) / Qnat (length ds).
Definition mean_k2mk (ds : list nat) : Q :=
  sumQ (map (fun d => Qnat d * Qnat d - Qnat d) ds) / Qnat (length ds).

(* polynomials as coefficient lists, formal derivative *)
Fixpoint peval (c : list Q) (x : Q) : Q :=
  match c with [] => 0 | a :: c' => a + x * peval c' x end.
Fixpoint pderiv_from (c : list Q) (k : nat) : list Q :=   (* c = coefficients of x^k, x^(k+1), ... *)
  match c with [] => [] | a :: c' => (Qnat k * a) :: pderiv_from c' (S k) end.
Definition pderiv (c : list Q) : list Q := match c with [] => [] | _ :: c' => pderiv_from c' 1 end.
Definition Pk_coeffs (ds : list nat) : list Q := map (Pk ds) (ks ds).

(* get_Pnk: nd lists, per node, (degree, degrees of its neighbours) *)
Definition Pnk (nd : list (nat * list nat)) (k1 k2 : nat) : Q :=
  let ds := map fst nd in
  sumQ (map (fun dn => if Nat.eqb (fst dn) k1
                       then Qnat (count k2 (snd dn)) * (1 / (Qnat k1 * Qnat (count k1 ds)))
                       else 0) nd).
Definition Pnk_row_keys (nd : list (nat * list nat)) (k1 : nat) : list nat :=
  nodup Nat.eq_dec (concat (map (fun dn => if Nat.eqb (fst dn) k1 then snd dn else []) nd)).
