(* C09 for the generic simulator Gillespie_simple_contagion (return_full_data=True): the recorded
   transmissions are causally valid and complete, for EVERY graph (directed or not),
   specification, initial statuses and EVERY draw script.
   What the code records (sim:4224): (t, source, target) for every neighbour-induced event,
   nothing for spontaneous events, nothing for the initial statuses.  The theorems say: the
   transmissions are exactly the induced events of ONE chronological log of legal events, in
   order, each once ([C09gen_full_output], [C09gen_entries_are_the_induced_events]); at the
   moment of an entry (t, u, v), v is a successor of u (edge direction), u has the inducing
   status A and v the induced-from status B of an edge (A,B)->(A,C) of J with positive rate, v
   takes C at t and nobody else changes ([C09gen_entry_valid]); "status at that moment" is the
   last entry so far of the node's own history ([C09gen_status_is_last_history_entry]);
   entries are time-ordered, none is source-less.  [gen_tx_okb] is the decidable form
   (outputs against a witness log); it is extracted and applied to the implementation's own
   node histories and transmissions() (harness/genx.py).
   Proofs: Proofs/SimpleExecTx.v, SimpleExecChk.v, SimpleExecTop.v. *)
From EoNV Require Import Prelude Samp Graph ListDict ListDictP Gillespie KldP GillespieInv SampP Simple SimpleP
  SimpleExecS SimpleExec SimpleExecLog SimpleExecTop SimpleExecChk SimpleExecTx SimpleExecTxS.
From EoNV Require Import Investigation.
From Coq Require Import Sorted.

(* every returning full-data run, every draw script *)
Theorem C09gen_full_output :
  forall g (Hg : wfg2 g) ic rstat tmin tmax sortable spont induced fuel ds out tr,
  Forall (sp_tr_ok g) spont -> Forall (in_tr_ok g) induced ->
  exec (simple g sortable spont induced ic rstat tmin tmax true fuel) ds [] = (Ok out, tr) ->
  exists evs st' t',
    glog g spont induced tmax ic tmin evs st' t' /\
    so_full out = Some (mkFull (hists_of g ic tmin evs) (flat_map ev_tx evs)).
Proof.
  intros g Hg ic rstat tmin tmax sortable spont induced fuel ds out tr Hsp Hin Hex.
  destruct (simple_exec_output g Hg ic rstat tmin tmax true sortable spont induced fuel ds out tr Hsp Hin Hex)
    as [evs [st' [t' [Hlog [_ Hfull]]]]].
  exists evs, st', t'. split; [exact Hlog|exact Hfull].
Qed.

(* completeness: one entry per induced event, in order; none for a spontaneous event *)
Theorem C09gen_entries_are_the_induced_events :
  forall evs, flat_map ev_tx evs = map (fun e => (ge_t e, ge_src e, ge_node e)) (filter has_src evs).
Proof. exact txs_are_induced_events. Qed.

Theorem C09gen_no_sourceless_entry :
  forall evs, Forall (fun x : Q * option node * node => snd (fst x) <> None) (flat_map ev_tx evs).
Proof. exact txs_all_sourced. Qed.

(* validity of an entry, in the statuses of its moment *)
Theorem C09gen_entry_valid :
  forall g H J tmax a st t e b st' t' u, glog g H J tmax st t (a ++ e :: b) st' t' ->
  ge_src e = Some u ->
  let cur := statuses_after st a in
  In u (gnodes g) /\ In (ge_node e) (gnodes g) /\ In (ge_node e) (gadj g u) /\
  cur (ge_node e) = ge_old e /\
  (exists tr, In tr J /\ 0 < tr_rate tr /\ tr_from tr = [cur u; ge_old e] /\ snd_status (tr_to tr) = ge_new e) /\
  statuses_after st (a ++ [e]) (ge_node e) = ge_new e /\
  (forall x, x <> ge_node e -> statuses_after st (a ++ [e]) x = cur x).
Proof. exact tx_entry_valid. Qed.

(* the same in the vocabulary of the returned object's own API (no two events at one instant): at
   the time t of a recorded transmission (t, u, v), node_status(u, t) is the inducing status A,
   node_status(v, t) is the new status C, v had B just before, v is a successor of u, and
   (A,B)->(A,C) is an edge of J with positive rate *)
Theorem C09gen_entry_valid_in_node_status_terms :
  forall g (Hg : wfg2 g) H J rstat tmax ic tmin a e b st' t' u,
  glog g H J tmax ic tmin (a ++ e :: b) st' t' -> ge_src e = Some u ->
  increasing tmin (map ev3 (a ++ e :: b)) = true ->
  let iv := log_inv (gnodes g) rstat tmin ic (map ev3 (a ++ e :: b)) in
  let A := statuses_after ic a u in
  node_status iv u (ge_t e) = Ok A /\
  node_status iv (ge_node e) (ge_t e) = Ok (ge_new e) /\
  statuses_after ic a (ge_node e) = ge_old e /\
  In (ge_node e) (gadj g u) /\
  exists tr, In tr J /\ 0 < tr_rate tr /\ tr_from tr = [A; ge_old e] /\ snd_status (tr_to tr) = ge_new e.
Proof. exact tx_entry_node_status. Qed.

Theorem C09gen_spontaneous_event_has_no_entry :
  forall g H J tmax a st t e b st' t', glog g H J tmax st t (a ++ e :: b) st' t' ->
  ge_src e = None ->
  statuses_after st a (ge_node e) = ge_old e /\
  (exists tr, In tr H /\ 0 < tr_rate tr /\ tr_from tr = [ge_old e] /\ hd_status (tr_to tr) = ge_new e) /\
  ev_tx e = [].
Proof. exact spont_event_valid. Qed.

Theorem C09gen_status_is_last_history_entry :
  forall a st u t0, statuses_after st a u = snd (last ((t0, st u) :: node_events u (map ev3 a)) (t0, st u)).
Proof. exact status_is_last_history_entry. Qed.

(* every event time is at or after the clock it started from, below tmax, and the entries are time-ordered *)
Theorem C09gen_time_ordered :
  forall g H J tmax st t evs st' t', glog g H J tmax st t evs st' t' ->
  Forall (fun x : Q * option node * node => t <= fst (fst x)) (flat_map ev_tx evs) /\
  StronglySorted (fun x y : Q * option node * node => fst (fst x) <= fst (fst y)) (flat_map ev_tx evs).
Proof. exact txs_sorted. Qed.

(* the decidable checker: sound ... *)
Theorem C09gen_checker_sound :
  forall g H J tmin tmax ic hist txs w,
  gen_tx_okb g H J tmin tmax ic hist txs w = true ->
  (exists st' t', glog g H J tmax ic tmin w st' t') /\
  Forall2 nhist_eq hist (hists_of g ic tmin w) /\
  Forall2 tx_eq txs (flat_map ev_tx w).
Proof. exact gen_tx_okb_sound. Qed.

(* ... and accepted on the outputs of every run of the model (witness = the run's own log) *)
Theorem C09gen_checker_accepts_every_run :
  forall g (Hg : wfg2 g) ic rstat tmin tmax full sortable spont induced fuel ds out tr,
  Forall (sp_tr_ok g) spont -> Forall (in_tr_ok g) induced ->
  exec (simple g sortable spont induced ic rstat tmin tmax full fuel) ds [] = (Ok out, tr) ->
  exists w,
    gen_rows_okb g rstat tmin ic (so_rows out) w = true /\
    match so_full out with
    | Some fd => full = true /\ gen_tx_okb g spont induced tmin tmax ic (fd_hist fd) (fd_trans fd) w = true
    | None => full = false /\ legal_logb g spont induced tmax ic tmin w = true
    end.
Proof. exact gen_checkers_accept. Qed.

(* the replay inside the checker is exactly [glog] *)
Theorem C09gen_replay_is_glog :
  forall g H J tmax l st t,
  legal_logb g H J tmax st t l = true <-> exists st' t', glog g H J tmax st t l st' t'.
Proof.
  intros g H J tmax l st t. split.
  - apply legal_logb_glog.
  - intros [st' [t' K]]. exact (glog_legal_logb g H J tmax st t l st' t' K).
Qed.

(* non-vacuity: the example run of Props/C03.v has one induced event 0 -> 1 (recorded) and one
   spontaneous event (not recorded); the checker accepts its outputs with the log as witness and
   rejects a transmission against the edge direction of the log, or a missing entry *)
Definition ex_w : list gev :=
  [mkEv (1 # 4) 1%N 0%N 1%N (Some 0%N); mkEv (1 # 2) 1%N 1%N 0%N None].

Example C09gen_example :
  match fst (run_simple ex_g true ex_sp ex_in ex_ic [0%N; 1%N] 0 (Some 5) true 10 ex_draws) with
  | Ok out => match so_full out with
              | Some fd => gen_tx_okb ex_g ex_sp ex_in 0 (Some 5) ex_ic (fd_hist fd) (fd_trans fd) ex_w = true /\
                           map (fun x : Q * option node * node => (snd (fst x), snd x)) (fd_trans fd) = [(Some 0%N, 1%N)] /\
                           gen_tx_okb ex_g ex_sp ex_in 0 (Some 5) ex_ic (fd_hist fd) [] ex_w = false /\
                           gen_tx_okb ex_g ex_sp ex_in 0 (Some 5) ex_ic (fd_hist fd) [(1 # 4, Some 2%N, 1%N)] ex_w = false
              | None => False
              end
  | Err _ => False
  end /\
  legal_logb ex_g ex_sp ex_in (Some 5) ex_ic 0 [mkEv (1 # 4) 2%N 0%N 1%N (Some 0%N)] = false.
Proof. vm_compute. repeat split; reflexivity. Qed.

Print Assumptions C09gen_full_output.
Print Assumptions C09gen_entries_are_the_induced_events.
Print Assumptions C09gen_no_sourceless_entry.
Print Assumptions C09gen_entry_valid.
Print Assumptions C09gen_entry_valid_in_node_status_terms.
Print Assumptions C09gen_spontaneous_event_has_no_entry.
Print Assumptions C09gen_status_is_last_history_entry.
Print Assumptions C09gen_time_ordered.
Print Assumptions C09gen_checker_sound.
Print Assumptions C09gen_checker_accepts_every_run.
Print Assumptions C09gen_replay_is_glog.
Print Assumptions C09gen_example.
