(* C09 — recorded transmissions are causally valid and complete, for the discrete-time
   simulators discrete_SIR (hence basic_discrete_SIR) and basic_discrete_SIS with
   return_full_data=True.  Proofs: Proofs/DiscreteRun.v, DiscreteHist.v, DiscreteC09.v over
   Model/Discrete.v; checker: Model/DiscreteChk.v.  Vocabulary of Props/C04disc.v (read its
   guide): R = arbitrary rules with [pick_sound R] (random.choice returns one of its candidates;
   proved for table rules and the default rule in Props/C04disc.v), trec = test_recovery or None,
   every draw script; [whole_steps tmin tmax]: the horizon is infinite or a whole number of steps
   after tmin (the domain of the property's discrete-time clauses).

   Discrete convention: an entry (t, u, v) is dated by the CONTACT step t; v turns infectious at
   t + 1.  The source-less entries of the initially infected nodes are dated tmin - 1.
   [tx_lockstep g kind onestep tmin i0 r0 rows hs txs sq K pre]: one sequence of status maps
   sq 0 .. sq K (sq 0 = the request; sq j -> sq (j+1) a legal step [dstep], taken while some node
   is infected) of which
     rows = [(tmin + j, census (sq j))]_j,   the status read off node_history[u] at tmin + j is sq j u,
     txs (= transmissions()) = the source-less entries of I0 followed by the entries of the steps,
     every entry of step j: dated tmin + j, its source u is a node with sq j u = I, its target v a
     neighbour of u (in edge direction: v in G.neighbors(u)) with sq j v = S and sq (j+1) v = I,
     and every node that turns S -> I at step j has EXACTLY ONE entry dated tmin + j. *)
From EoNV Require Import Prelude Samp Graph Discrete DiscreteP SampP DiscreteChk DiscreteRun DiscreteRunS DiscreteTop DiscreteC04 DiscreteC05 DiscreteHist DiscreteC09 DiscretePerc.
From EoNV Require Gillespie GillespieP.
From Coq Require Import Permutation.

Theorem C09_discrete_SIR_transmissions_in_lockstep : forall g R trec ord i0 r0o tmin tmax fuel ds out tr,
  wf_inputb g i0 (opt_list r0o) = true -> perm_oracle ord -> pick_sound R -> whole_steps tmin tmax ->
  exec (discrete_SIR g R trec ord (Some i0) r0o None tmin tmax true fuel) ds [] = (Ok out, tr) ->
  exists fd sq K pre, so_full (o_sim out) = Some fd /\
    tx_lockstep g kSIR (onestep_of trec) tmin i0 (opt_list r0o) (so_rows (o_sim out)) (fd_hist fd) (fd_trans fd) sq K pre.
Proof. exact dsir_tx_lockstep. Qed.

Theorem C09_basic_discrete_SIS_transmissions_in_lockstep : forall g R ord i0 tmin tmax fuel ds out tr,
  wf_inputb g i0 [] = true -> perm_oracle ord -> pick_sound R -> whole_steps tmin tmax ->
  exec (basic_discrete_SIS_R g R ord (Some i0) None tmin tmax true fuel) ds [] = (Ok out, tr) ->
  exists fd sq K pre, so_full (o_sim out) = Some fd /\
    tx_lockstep g kSIS true tmin i0 [] (so_rows (o_sim out)) (fd_hist fd) (fd_trans fd) sq K pre.
Proof. exact dsis_tx_lockstep. Qed.

(* SIR: a node infectious after j steps -- in particular the source of every entry of step j -- is
   initially infected or the target of an entry of an earlier step: following sources backwards
   ends at I0; with "no node is the target of two entries" (checker clause below) the transmission
   tree is a forest rooted at the initially infected nodes *)
Theorem C09_discrete_SIR_sources_lead_back_to_I0 : forall g os tmin i0 r0 rows hs txs sq K pre,
  tx_lockstep g kSIR os tmin i0 r0 rows hs txs sq K pre ->
  forall j u, (j <= K)%nat -> In u (gnodes g) -> sq j u = stI ->
  In u i0 \/ exists e j', In e pre /\ tx_v e = u /\ (j' < j)%nat /\ tx_t e == tq tmin j'.
Proof. exact lockstep_infectious_has_entry. Qed.

(* --- the decidable checker [dtx_okb sir g i0 tmin hs txs] (Model/DiscreteChk.v; extracted and
   applied to the IMPLEMENTATION's node histories and transmissions() by harness/discx.py):
   every full-data run of the model passes it ... *)
Theorem C09_discrete_SIR_checker_accepts_every_run : forall g R trec ord i0 r0o tmin tmax fuel ds out tr,
  wf_inputb g i0 (opt_list r0o) = true -> perm_oracle ord -> pick_sound R -> whole_steps tmin tmax ->
  exec (discrete_SIR g R trec ord (Some i0) r0o None tmin tmax true fuel) ds [] = (Ok out, tr) ->
  exists fd, so_full (o_sim out) = Some fd /\ dtx_okb true g i0 tmin (fd_hist fd) (fd_trans fd) = true.
Proof. exact dsir_tx_accepted. Qed.

Theorem C09_basic_discrete_SIS_checker_accepts_every_run : forall g R ord i0 tmin tmax fuel ds out tr,
  wf_inputb g i0 [] = true -> perm_oracle ord -> pick_sound R -> whole_steps tmin tmax ->
  exec (basic_discrete_SIS_R g R ord (Some i0) None tmin tmax true fuel) ds [] = (Ok out, tr) ->
  exists fd, so_full (o_sim out) = Some fd /\ dtx_okb false g i0 tmin (fd_hist fd) (fd_trans fd) = true.
Proof. exact dsis_tx_accepted. Qed.

(* percolation_based_discrete_SIR: the transmissions are in lock-step with a run of discrete_SIR
   on the percolated graph H = (nodes of G, kept edges), kept a subset of the edges of G; they pass
   the checker for H, and -- G undirected (symmetric adjacency) -- for G itself *)
Theorem C09_percolation_based_discrete_SIR_transmissions_in_lockstep : forall g R ord i0 r0o tmin tmax fuel ds out tr,
  wf_inputb g i0 (opt_list r0o) = true -> perm_oracle ord -> pick_sound R -> whole_steps tmin tmax ->
  exec (percolation_based_discrete_SIR_R g R ord (Some i0) r0o None tmin tmax true fuel) ds [] = (Ok out, tr) ->
  exists kept fd sq K pre, so_full (o_sim out) = Some fd /\ (forall e, In e kept -> In e (gedges g)) /\
    tx_lockstep (perc_graph g kept) kSIR true tmin i0 (opt_list r0o) (so_rows (o_sim out)) (fd_hist fd) (fd_trans fd) sq K pre /\
    dtx_okb true (perc_graph g kept) i0 tmin (fd_hist fd) (fd_trans fd) = true /\
    dinit_okb true g i0 (opt_list r0o) tmin (so_rows (o_sim out)) (Some (fd_hist fd)) = true.
Proof. exact psir_tx_lockstep. Qed.

Theorem C09_percolation_based_discrete_SIR_checker_accepts_every_run : forall g R ord i0 r0o tmin tmax fuel ds out tr,
  wf_inputb g i0 (opt_list r0o) = true -> sym_graphb g = true -> perm_oracle ord -> pick_sound R -> whole_steps tmin tmax ->
  exec (percolation_based_discrete_SIR_R g R ord (Some i0) r0o None tmin tmax true fuel) ds [] = (Ok out, tr) ->
  exists fd, so_full (o_sim out) = Some fd /\ dtx_okb true g i0 tmin (fd_hist fd) (fd_trans fd) = true /\
    dinit_okb true g i0 (opt_list r0o) tmin (so_rows (o_sim out)) (Some (fd_hist fd)) = true.
Proof. exact psir_tx_accepted. Qed.

Theorem C09_percolated_edges_are_edges_of_G : forall g kept, sym_graphb g = true -> (forall e, In e kept -> In e (gedges g)) ->
  forall u v, In v (gadj (perc_graph g kept) u) -> In v (gadj g u).
Proof. exact perc_edges_sub. Qed.

(* ... and acceptance means, in terms of the outputs alone ([status_in hs u t] = the status of the
   last entry of u's history at or before t): the list is time-ordered; source-less entries only
   for initially infected nodes, dated tmin - 1, and every initially infected node has one; a
   sourced entry (t, u, v) goes along the edge u -> v, tmin <= t, u is infectious at t, v is
   susceptible at t and its history has the entry (t + 1, I); every infection after tmin -- an
   entry (t', I), t' > tmin, in the history of a node v -- has exactly one sourced entry
   (t' - 1, _, v); SIR: no node is the target of two entries *)
Theorem C09_discrete_checker_sound : forall sir g i0 tmin hs txs, dtx_okb sir g i0 tmin hs txs = true ->
  (forall l1 a b l2, txs = l1 ++ a :: b :: l2 -> tx_t a <= tx_t b) /\
  (forall e, In e txs -> tx_s e = None -> In (tx_v e) i0 /\ tx_t e == tmin - 1) /\
  (forall u, In u i0 -> exists e, In e txs /\ tx_s e = None /\ tx_v e = u) /\
  (forall e u, In e txs -> tx_s e = Some u ->
     In u (gnodes g) /\ In (tx_v e) (gadj g u) /\ tmin <= tx_t e /\
     status_in hs u (tx_t e) = Some stI /\ status_in hs (tx_v e) (tx_t e) = Some stS /\
     exists h e', assocN hs (tx_v e) = Some h /\ In e' h /\ fst e' == tx_t e + 1 /\ snd e' = stI) /\
  (forall v h e', In v (gnodes g) -> assocN hs v = Some h -> In e' h -> snd e' = stI -> tmin < fst e' ->
     count_tx txs (fst e' - 1) v = 1%nat) /\
  (sir = true -> NoDup (map tx_v txs)).
Proof. exact dtx_okb_sound. Qed.

(* ---------------- non-vacuity ---------------- *)
Definition ex_adj (u : node) : list node :=
  match u with 0%N => [1; 2]%N | 1%N => [0; 2]%N | 2%N => [1; 3; 0]%N | 3%N => [2]%N | _ => [] end.
Definition ex_g : graph := mkGraph [0; 1; 2; 3]%N ex_adj ex_adj false (fun _ _ => 1) (fun _ => 1) false false.
Definition ex_tt (u v : node) (_ : nat) : bool := negb (N.eqb u 0 && N.eqb v 2).
Definition ex_all (u v : node) (_ : nat) : bool := true.
Definition ex_ord (k : nat) (l : list node) : list node := rev l.

Example C09_disc_hypotheses_satisfiable :
  wf_inputb ex_g [0%N] [] = true /\ perm_oracle ex_ord /\ pick_sound (det_rules ex_all (fun _ _ => 1%nat)) /\ whole_steps 0 (Some 2).
Proof.
  split; [vm_compute; reflexivity|]. split; [intros k l; unfold ex_ord; apply Permutation_sym; apply Permutation_rev|].
  split; [apply det_pick_sound|exists 2%nat; vm_compute; reflexivity].
Qed.

(* every contact succeeds: node 2 is reached by 0 and (the same step) by nobody else; at step 1 node 3
   is infected by 2; with full data node 2's two infectors at step 0 are... only node 0 (node 1 is
   infected in the same step); the choice among several infectors is exercised in the SIS run below *)
Example C09_disc_example :
  (exists o tr, exec (discrete_SIR ex_g (det_rules ex_all (fun _ _ => 1%nat)) None ex_ord (Some [0%N]) None None 0 None true 9) [] [] = (Ok o, tr) /\
     match so_full (o_sim o) with
     | Some fd => map (fun e => (Qred (tx_t e), tx_s e, tx_v e)) (fd_trans fd) =
                    [(-1 # 1, None, 0%N); (0, Some 0%N, 1%N); (0, Some 0%N, 2%N); (1, Some 2%N, 3%N)] /\
                  dtx_okb true ex_g [0%N] 0 (fd_hist fd) (fd_trans fd) = true /\
                  (* rejected: a wrong source (1 is not infectious at step 0), a wrong date, a missing entry,
                     a second entry for node 3, an entry against the edge direction cannot occur here (undirected) *)
                  dtx_okb true ex_g [0%N] 0 (fd_hist fd) [(-1 # 1, None, 0%N); (0, Some 0%N, 1%N); (0, Some 1%N, 2%N); (1, Some 2%N, 3%N)] = false /\
                  dtx_okb true ex_g [0%N] 0 (fd_hist fd) [(-1 # 1, None, 0%N); (0, Some 0%N, 1%N); (0, Some 0%N, 2%N); (2, Some 2%N, 3%N)] = false /\
                  dtx_okb true ex_g [0%N] 0 (fd_hist fd) [(-1 # 1, None, 0%N); (0, Some 0%N, 1%N); (0, Some 0%N, 2%N)] = false /\
                  dtx_okb true ex_g [0%N] 0 (fd_hist fd) [(-1 # 1, None, 0%N); (0, Some 0%N, 1%N); (0, Some 0%N, 2%N); (1, Some 2%N, 3%N); (1, Some 2%N, 3%N)] = false /\
                  dtx_okb true ex_g [0%N] 0 (fd_hist fd) [(0, None, 0%N); (0, Some 0%N, 1%N); (0, Some 0%N, 2%N); (1, Some 2%N, 3%N)] = false
     | None => False
     end) /\
  (exists o tr, exec (basic_discrete_SIS_R ex_g (det_rules ex_all (fun _ _ => 1%nat)) ex_ord (Some [0%N; 1%N]) None 0 (Some 2) true 9) [] [] = (Ok o, tr) /\
     match so_full (o_sim o) with
     | Some fd => map (fun e => (Qred (tx_t e), tx_s e, tx_v e)) (fd_trans fd) =
                    [(-1 # 1, None, 0%N); (-1 # 1, None, 1%N); (0, Some 1%N, 2%N); (1, Some 2%N, 1%N); (1, Some 2%N, 3%N); (1, Some 2%N, 0%N)] /\
                  dtx_okb false ex_g [0%N; 1%N] 0 (fd_hist fd) (fd_trans fd) = true
     | None => False
     end).
Proof.
  split; eexists; eexists; (split; [vm_compute; reflexivity|]); vm_compute; repeat split.
Qed.

Print Assumptions C09_discrete_SIR_transmissions_in_lockstep.
Print Assumptions C09_basic_discrete_SIS_transmissions_in_lockstep.
Print Assumptions C09_discrete_SIR_sources_lead_back_to_I0.
Print Assumptions C09_discrete_SIR_checker_accepts_every_run.
Print Assumptions C09_basic_discrete_SIS_checker_accepts_every_run.
Print Assumptions C09_percolation_based_discrete_SIR_transmissions_in_lockstep.
Print Assumptions C09_percolation_based_discrete_SIR_checker_accepts_every_run.
Print Assumptions C09_percolated_edges_are_edges_of_G.
Print Assumptions C09_discrete_checker_sound.
Print Assumptions C09_disc_hypotheses_satisfiable.
Print Assumptions C09_disc_example.
