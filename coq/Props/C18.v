(* C18 — simulations are reproducible from the random seeds (model-level statements;
   the cross-process clause is a runtime fact carried by the check itself). *)
From EoNV Require Import Prelude Samp Graph ListDict ListDictP Gillespie FlagIndep.

(* two sampler programs that make the same calls with the same arguments and whose
   continuations stay related: on EVERY draw script they make the same sequence of
   calls to the random source and return related results *)
Theorem C18_same_calls_same_draws :
  forall A B (R : A -> B -> Prop) m1 m2, simrel R m1 m2 ->
  forall ds tr, snd (exec m1 ds tr) = snd (exec m2 ds tr) /\
                rel_result R (fst (exec m1 ds tr)) (fst (exec m2 ds tr)).
Proof. exact simrel_exec. Qed.

(* Gillespie_SIR and Gillespie_SIS: identical draws, identical arrays with and
   without return_full_data, for every graph, parameters and script *)
Theorem C18_gillespie_full_data_flag_independent :
  forall g kind tau gamma i0 r0 rho tmin tmax fuel ds,
  let r1 := exec (gillespie g kind tau gamma i0 r0 rho tmin tmax true fuel) ds [] in
  let r2 := exec (gillespie g kind tau gamma i0 r0 rho tmin tmax false fuel) ds [] in
  snd r1 = snd r2 /\ rel_result same_rows (fst r1) (fst r2).
Proof. exact gillespie_flag_indep. Qed.

Print Assumptions C18_same_calls_same_draws.
Print Assumptions C18_gillespie_full_data_flag_independent.
