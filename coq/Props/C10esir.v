(* C10 — full-data object and arrays describe the same epidemic, for the event-driven SIR
   simulator (fast_nonMarkov_SIR with its rules given as tables; fast_SIR goes through the
   same loop).  The generic part (summary_spec, node_status_spec, log_lemma, transform
   specs) is Props/C10.v; this file is clause (iv) for this simulator.
   Proofs: Proofs/EventSIR{Rows,Traj,C04,C10}.v.

   The simulator keeps no event log: the arrays are pushed event by event, the per-node
   histories are built AFTER the run from the tables pred_inf_time / rec_time and the final
   statuses (infection_times = pred_inf_time of the non-susceptible nodes, recovery_times =
   rec_time of the recovered ones, then _transform_to_node_history_ with its `time == tmin`
   reset).  The theorem says that both are views of the run's event log [esir_log]
   (Model/EventSIRLog.v): past the |I0| initial infections at tmin,
     * node_history = the per-node projections of the log from the requested statuses
       ([log_inv ... (esir_init i0 r0) log]: for every infected node pred_inf_time IS its
       infection time — the code's comment "when finally infected, pred_inf_time is correct" —
       and rec_time of a recovered node IS the time of its recovery event),
     * the arrays = the running counts of the same log, in both return modes,
     * hence (log lemma) summary(node_history) = the arrays,
   for EVERY tie policy, whenever the event times are strictly increasing after tmin (no two
   events at one instant, none but the initial infections at tmin).  Without that hypothesis
   the arrays keep one row per event while summary() has one row per distinct time, and the
   `time == tmin` reset drops the entries of a node before a change at tmin. *)
From EoNV Require Import Prelude Samp Graph EventSIR EventSIRP EventSIRInv EventSIRMain EventSIRPred.
From EoNV Require Import Investigation InvestigationP EventSIRLog EventSIRRows EventSIRTraj EventSIRC04 EventSIRC10 EventSIRHist EventSIRC10m EventSIRC10c.
From Coq Require Import Sorting.Sorted.

Theorem C10_esir_summary_equals_arrays : forall tb g delay dur i0 r0 tmin tmax fuel,
  esir_okb2 g delay dur i0 r0 tmin tmax = true -> (esir_fuel g i0 <= fuel)%nat ->
  exists evs out cs fd,
    esir_log tb g delay dur i0 r0 tmin tmax fuel = Ok evs /\
    esir_det tb g delay dur i0 r0 tmin tmax true fuel = Ok (out, cs) /\
    esir_det tb g delay dur i0 r0 tmin tmax false fuel = Ok (mkOut (so_rows out) None, cs) /\
    so_full out = Some fd /\
    (increasing tmin (skipn (length i0) evs) = true ->
       fd_hist fd = iv_hist (log_inv (gnodes g) sir_ps tmin (esir_init i0 r0) (skipn (length i0) evs)) /\
       so_rows out = log_arrays (gnodes g) sir_ps tmin (esir_init i0 r0) (skipn (length i0) evs) /\
       (gnodes g <> [] ->
        summary (log_inv (gnodes g) sir_ps tmin (esir_init i0 r0) (skipn (length i0) evs)) None = Ok (so_rows out))).
Proof. exact esir_summary_equals_arrays. Qed.

(* --- without any hypothesis on ties (simultaneous events, events at tmin, zero delays and
   durations), for EVERY tie policy: "merged by time".
   * node_history[u] is the transform — [hist_of_chain]: start from ([tmin],[S or R]), append
     (time, status), an entry whose time equals tmin RESETS the history — of u's own events
     in the run's log, in order;
   * summary(node_history) succeeds, its times are strictly increasing, each of its rows
     (t, counts) equals the LAST row of the returned arrays whose time is t (all later rows
     of the arrays are strictly later), and every time of the arrays is listed.
   (The arrays keep one row per event, summary() one row per distinct time.) *)
Theorem C10_esir_summary_merged_by_time : forall tb g delay dur i0 r0 tmin tmax fuel,
  esir_okb2 g delay dur i0 r0 tmin tmax = true -> (esir_fuel g i0 <= fuel)%nat -> gnodes g <> [] ->
  exists evs out cs fd rows',
    esir_log tb g delay dur i0 r0 tmin tmax fuel = Ok evs /\
    esir_det tb g delay dur i0 r0 tmin tmax true fuel = Ok (out, cs) /\
    so_full out = Some fd /\
    fd_hist fd = map (fun u => (u, hist_of_chain tmin (st00 r0 u) (filter (of_u u) evs))) (gnodes g) /\
    summary (mkInv (gnodes g) (fd_hist fd) None (Some sir_ps)) None = Ok rows' /\
    StronglySorted Qlt (map fst rows') /\
    (forall t cs, In (t, cs) rows' ->
       exists a r b, so_rows out = a ++ r :: b /\ fst r == t /\ snd r = cs /\ forall r', In r' b -> t < fst r') /\
    (forall r, In r (so_rows out) -> exists t, In t (map fst rows') /\ t == fst r).
Proof. exact esir_summary_merged. Qed.

(* --- the decidable checker of the generic part ([consistent_b], Model/Investigation.v;
   Props/C10.v [C10_checker_sound], [C10_checker_acceptance_means]) — the one the C10 check
   applies to the implementation's full-data object and arrays — accepts the outputs of EVERY
   run, ties included, every tie policy: every node history starts at tmin, is time-ordered,
   uses S/I/R and only the moves S->I, I->R; summary() succeeds; summary() and the arrays are
   the same step function (equal at every time either of them lists) *)
Theorem C10_esir_checker_accepts_every_run : forall tb g delay dur i0 r0 tmin tmax fuel,
  esir_okb2 g delay dur i0 r0 tmin tmax = true -> (esir_fuel g i0 <= fuel)%nat -> gnodes g <> [] ->
  exists out cs fd,
    esir_det tb g delay dur i0 r0 tmin tmax true fuel = Ok (out, cs) /\ so_full out = Some fd /\
    consistent_b (mkInv (gnodes g) (fd_hist fd) None (Some sir_ps)) (so_rows out) tmin sir_moves = true.
Proof. exact esir_outputs_consistent. Qed.

(* ---------------- non-vacuity ---------------- *)
(* the triangle of Props/C11.v with delay 0->2 = 5/2: strictly increasing event times *)
Definition g3 : graph :=
  mkGraph [0;1;2]%N (fun u => if N.eqb u 0 then [1;2]%N else if N.eqb u 1 then [0;2]%N else [0;1]%N)
          (fun u => if N.eqb u 0 then [1;2]%N else if N.eqb u 1 then [0;2]%N else [0;1]%N)
          false (fun _ _ => 1) (fun _ => 1) false false.
Definition d3 (u v : node) : xtime := if N.eqb u 0 && N.eqb v 2 then Some (5#2) else if N.eqb u 1 then Some (5#4) else Some 1.
Definition r3 (u : node) : xtime := if N.eqb u 0 then Some 2 else Some 3.

Example C10_esir_example :
  esir_okb2 g3 d3 r3 [0%N] [] 0 None = true /\
  match esir_det fifo g3 d3 r3 [0%N] [] 0 None true (esir_fuel g3 [0%N]),
        esir_log fifo g3 d3 r3 [0%N] [] 0 None (esir_fuel g3 [0%N]) with
  | Ok (o, _), Ok evs =>
      increasing 0 (skipn 1 evs) = true /\
      map (fun e => (Qred (ev_t e), ev_u e, ev_s e)) evs =
        [(0, 0%N, stI); (1, 1%N, stI); (2, 0%N, stR); (9#4, 2%N, stI); (4, 1%N, stR); (21#4, 2%N, stR)] /\
      match so_full o with
      | Some fd =>
          map (fun nh => (fst nh, map (fun x => (Qred (fst x), snd x)) (snd nh))) (fd_hist fd) =
            [(0%N, [(0, stI); (2, stR)]); (1%N, [(0, stS); (1, stI); (4, stR)]); (2%N, [(0, stS); (9#4, stI); (21#4, stR)])] /\
          summary (mkInv (gnodes g3) (fd_hist fd) None (Some sir_ps)) None = Ok (so_rows o)
      | None => False
      end
  | _, _ => False
  end.
Proof. vm_compute. repeat split. Qed.

(* ties: a path 0 - 1 - 2 with all delays 2 and all durations 2 (recovery of the source and
   infection of the target at the same instant), node 2's delay back is irrelevant; and node 0
   transmits to node 1 with delay 0 in the second run (an infection at tmin: history reset) *)
Definition p3 : graph :=
  mkGraph [0;1;2]%N (fun u => if N.eqb u 0 then [1]%N else if N.eqb u 1 then [0;2]%N else [1]%N)
          (fun u => if N.eqb u 0 then [1]%N else if N.eqb u 1 then [0;2]%N else [1]%N)
          false (fun _ _ => 1) (fun _ => 1) false false.

Example C10_esir_example_ties :
  match esir_det fifo p3 (fun _ _ => Some 2) (fun _ => Some 2) [0%N] [] 0 None true (esir_fuel p3 [0%N]),
        esir_det fifo p3 (fun u _ => if N.eqb u 0 then Some 0 else Some 2) (fun _ => Some 2) [0%N] [] 0 None true (esir_fuel p3 [0%N]) with
  | Ok (o, _), Ok (o', _) =>
      match so_full o, so_full o' with
      | Some fd, Some fd' =>
          map snd (so_rows o) = [[2;1;0]; [2;0;1]; [1;1;1]; [1;0;2]; [0;1;2]; [0;0;3]]%Z /\
          summary (mkInv (gnodes p3) (fd_hist fd) None (Some sir_ps)) None =
            Ok [(0, [2;1;0]%Z); (2, [1;1;1]%Z); (4, [0;1;2]%Z); (6, [0;0;3]%Z)] /\
          map (fun nh => (fst nh, map (fun x => (Qred (fst x), snd x)) (snd nh))) (fd_hist fd') =
            [(0%N, [(0, stI); (2, stR)]); (1%N, [(0, stI); (2, stR)]); (2%N, [(0, stS); (2, stI); (4, stR)])] /\
          map (fun r => (Qred (fst r), snd r)) (so_rows o') =
            [(0, [2;1;0]%Z); (0, [1;2;0]%Z); (2, [1;1;1]%Z); (2, [1;0;2]%Z); (2, [0;1;2]%Z); (4, [0;0;3]%Z)] /\
          match summary (mkInv (gnodes p3) (fd_hist fd') None (Some sir_ps)) None with
          | Ok rows => map (fun r => (Qred (fst r), snd r)) rows = [(0, [1;2;0]%Z); (2, [0;1;2]%Z); (4, [0;0;3]%Z)]
          | Err _ => False
          end
      | _, _ => False
      end
  | _, _ => False
  end.
Proof. vm_compute. repeat split. Qed.

Print Assumptions C10_esir_summary_equals_arrays.
Print Assumptions C10_esir_summary_merged_by_time.
Print Assumptions C10_esir_checker_accepts_every_run.
Print Assumptions C10_esir_example_ties.
Print Assumptions C10_esir_example.
