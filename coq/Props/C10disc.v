(* C10 — full-data object and plain time series describe the same epidemic, for the
   discrete-time simulators discrete_SIR (hence basic_discrete_SIR, which forwards to it:
   Props/C12.v [C12_basic_forwards]) and basic_discrete_SIS.  Model: Model/Discrete.v (extracted
   and run against /repo); the Simulation_Investigation object: Model/Investigation.v; generic
   part of the property (what summary / node_status / t,S,I,R / the checker mean): Props/C10.v;
   proofs: Proofs/DiscreteHist.v, DiscreteC10.v, DiscreteC10t.v, DiscreteC10m.v.

   Same vocabulary as Props/C04disc.v (read its guide first): R = the transmission rule and
   random.choice as ARBITRARY sampler programs with [pick_sound R], trec = test_recovery or None,
   ord = iteration order of the Python set, EVERY draw script ds.  [whole_steps tmin tmax]: the
   horizon is a whole number of steps after tmin or infinite (the domain of the property's
   discrete-time clause; for other horizons the code drops the entries of the last step).
   The object the simulators return is [mkInv (gnodes g) (fd_hist fd) None (Some ps)]: node
   histories fd_hist fd of the full-data run, possible statuses ps = 'SIR' / 'SI'. *)
From EoNV Require Import Prelude Samp Graph Discrete DiscreteP SampP DiscreteChk DiscreteRun DiscreteRunS DiscreteTop DiscreteC04 DiscreteC05.
From EoNV Require Import Investigation InvestigationP DiscreteC10 DiscreteC10t DiscreteC10m.
From EoNV Require Gillespie GillespieP.
From Coq Require Import Permutation Sorting.Sorted.

(* --- (1) every node history of every full-data run starts at tmin, is time-ordered (strictly
   increasing times in fact), uses possible statuses only and makes legal moves only *)
Theorem C10_discrete_SIR_histories_good : forall g tmin R trec ord i0 r0o tmax fuel ds out tr,
  wf_inputb g i0 (opt_list r0o) = true -> perm_oracle ord -> pick_sound R -> whole_steps tmin tmax ->
  exec (discrete_SIR g R trec ord (Some i0) r0o None tmin tmax true fuel) ds [] = (Ok out, tr) ->
  exists fd, so_full (o_sim out) = Some fd /\
    forall u, In u (gnodes g) -> exists h, hist_of (mkInv (gnodes g) (fd_hist fd) None (Some [stS; stI; stR])) u = Ok h /\
      good_histb [stS; stI; stR] [(stS, stI); (stI, stR)] tmin h = true /\ StronglySorted Qlt (map fst h).
Proof. exact dsir_histories_good. Qed.

Theorem C10_basic_discrete_SIS_histories_good : forall g tmin R ord i0 tmax fuel ds out tr,
  wf_inputb g i0 [] = true -> perm_oracle ord -> pick_sound R -> whole_steps tmin tmax ->
  exec (basic_discrete_SIS_R g R ord (Some i0) None tmin tmax true fuel) ds [] = (Ok out, tr) ->
  exists fd, so_full (o_sim out) = Some fd /\
    forall u, In u (gnodes g) -> exists h, hist_of (mkInv (gnodes g) (fd_hist fd) None (Some [stS; stI])) u = Ok h /\
      good_histb [stS; stI] [(stS, stI); (stI, stS)] tmin h = true /\ StronglySorted Qlt (map fst h).
Proof. exact dsis_histories_good. Qed.

(* --- (2) summary() of the node histories against the arrays (t, S, I[, R]) of the same run:
   summary() succeeds; its times are strictly increasing; every row it lists IS a row of the
   arrays, and its counts are the numbers of nodes whose node_status at that time is S / I / R;
   conversely every array row (t, c): the summary read as a step function has the counts c at
   t ([step_at]: the counts of the last listed time <= t) -- a step at which no node changes
   status is a row of the arrays but not a time of summary(), and then the counts are those of
   the previous row.  With C10_tSIR_are_columns_of_summary (Props/C10.v) this is the statement
   for t(), S(), I(), R(); with C10_node_status_spec, node_status on these (time-ordered)
   histories is the status of the latest change at or before the query time. *)
Theorem C10_discrete_SIR_summary_is_arrays : forall g tmin R trec ord i0 r0o tmax fuel ds out tr,
  wf_inputb g i0 (opt_list r0o) = true -> perm_oracle ord -> pick_sound R -> whole_steps tmin tmax -> gnodes g <> [] ->
  exec (discrete_SIR g R trec ord (Some i0) r0o None tmin tmax true fuel) ds [] = (Ok out, tr) ->
  exists fd rows', so_full (o_sim out) = Some fd /\
    let iv := mkInv (gnodes g) (fd_hist fd) None (Some [stS; stI; stR]) in
    summary iv None = Ok rows' /\ rows' <> [] /\ StronglySorted Qlt (map fst rows') /\
    (forall r, In r rows' -> In r (so_rows (o_sim out)) /\ snd r = map (count_at iv (gnodes g) (fst r)) [stS; stI; stR]) /\
    (forall r, In r (so_rows (o_sim out)) -> step_at rows' (fst r) None = Some (snd r)).
Proof. exact dsir_summary_is_arrays. Qed.

Theorem C10_basic_discrete_SIS_summary_is_arrays : forall g tmin R ord i0 tmax fuel ds out tr,
  wf_inputb g i0 [] = true -> perm_oracle ord -> pick_sound R -> whole_steps tmin tmax -> gnodes g <> [] ->
  exec (basic_discrete_SIS_R g R ord (Some i0) None tmin tmax true fuel) ds [] = (Ok out, tr) ->
  exists fd rows', so_full (o_sim out) = Some fd /\
    let iv := mkInv (gnodes g) (fd_hist fd) None (Some [stS; stI]) in
    summary iv None = Ok rows' /\ rows' <> [] /\ StronglySorted Qlt (map fst rows') /\
    (forall r, In r rows' -> In r (so_rows (o_sim out)) /\ snd r = map (count_at iv (gnodes g) (fst r)) [stS; stI]) /\
    (forall r, In r (so_rows (o_sim out)) -> step_at rows' (fst r) None = Some (snd r)).
Proof. exact dsis_summary_is_arrays. Qed.

(* --- (3) the decidable checker [consistent_b] (Model/Investigation.v; sound: Props/C10.v
   C10_checker_sound / C10_checker_acceptance_means; extracted in Extract/XDiscx.v and applied by
   harness/discx.py to the IMPLEMENTATION's node histories and arrays) accepts every full-data
   run of the model *)
Theorem C10_discrete_SIR_checker_accepts_every_run : forall g tmin R trec ord i0 r0o tmax fuel ds out tr,
  wf_inputb g i0 (opt_list r0o) = true -> perm_oracle ord -> pick_sound R -> whole_steps tmin tmax -> gnodes g <> [] ->
  exec (discrete_SIR g R trec ord (Some i0) r0o None tmin tmax true fuel) ds [] = (Ok out, tr) ->
  exists fd, so_full (o_sim out) = Some fd /\
    consistent_b (mkInv (gnodes g) (fd_hist fd) None (Some [stS; stI; stR])) (so_rows (o_sim out)) tmin [(stS, stI); (stI, stR)] = true.
Proof. exact dsir_outputs_consistent. Qed.

Theorem C10_basic_discrete_SIS_checker_accepts_every_run : forall g tmin R ord i0 tmax fuel ds out tr,
  wf_inputb g i0 [] = true -> perm_oracle ord -> pick_sound R -> whole_steps tmin tmax -> gnodes g <> [] ->
  exec (basic_discrete_SIS_R g R ord (Some i0) None tmin tmax true fuel) ds [] = (Ok out, tr) ->
  exists fd, so_full (o_sim out) = Some fd /\
    consistent_b (mkInv (gnodes g) (fd_hist fd) None (Some [stS; stI])) (so_rows (o_sim out)) tmin [(stS, stI); (stI, stS)] = true.
Proof. exact dsis_outputs_consistent. Qed.

(* --- (4) both return modes under a deterministic (table) rule, no recovery test: the plain run
   and the full-data run both return, with the same arrays, and the checker accepts (histories
   of the full-data run, arrays of the PLAIN run) *)
Theorem C10_discrete_SIR_both_return_modes : forall g tt pick ord i0 r0o tmin tmax fuel,
  wf_inputb g i0 (opt_list r0o) = true -> perm_oracle ord -> (length (gnodes g) < fuel)%nat ->
  whole_steps tmin tmax -> gnodes g <> [] ->
  exists outP outF fd,
    discrete_SIR g (det_rules tt pick) None ord (Some i0) r0o None tmin tmax false fuel = Ret outP /\
    discrete_SIR g (det_rules tt pick) None ord (Some i0) r0o None tmin tmax true fuel = Ret outF /\
    so_full (o_sim outP) = None /\ so_full (o_sim outF) = Some fd /\
    so_rows (o_sim outP) = so_rows (o_sim outF) /\
    consistent_b (mkInv (gnodes g) (fd_hist fd) None (Some [stS; stI; stR])) (so_rows (o_sim outP)) tmin [(stS, stI); (stI, stR)] = true.
Proof. exact dsir_both_modes. Qed.

(* ... and WITH a recovery test, and for basic_discrete_SIS: return_full_data changes neither the
   infected sets nor the counters (it only adds bookkeeping: more `infector` candidates, the
   random.choice calls, the history and transmission appends), so for every fuel both modes run
   out of fuel (a recovery test may never let the epidemic end) or both return, with the same
   arrays, accepted by the checker against the histories of the full-data run *)
Theorem C10_discrete_SIR_both_return_modes_with_recovery_test : forall g tt pick trec ord i0 r0o tmin tmax fuel,
  wf_inputb g i0 (opt_list r0o) = true -> perm_oracle ord -> whole_steps tmin tmax -> gnodes g <> [] ->
  (discrete_SIR g (det_rules tt pick) trec ord (Some i0) r0o None tmin tmax false fuel = Fail OutOfFuel /\
   discrete_SIR g (det_rules tt pick) trec ord (Some i0) r0o None tmin tmax true fuel = Fail OutOfFuel) \/
  exists outP outF fd,
    discrete_SIR g (det_rules tt pick) trec ord (Some i0) r0o None tmin tmax false fuel = Ret outP /\
    discrete_SIR g (det_rules tt pick) trec ord (Some i0) r0o None tmin tmax true fuel = Ret outF /\
    so_full (o_sim outP) = None /\ so_full (o_sim outF) = Some fd /\
    so_rows (o_sim outP) = so_rows (o_sim outF) /\
    consistent_b (mkInv (gnodes g) (fd_hist fd) None (Some [stS; stI; stR])) (so_rows (o_sim outP)) tmin [(stS, stI); (stI, stR)] = true.
Proof. exact dsir_both_modes_rec. Qed.

Theorem C10_basic_discrete_SIS_both_return_modes : forall g tt pick ord i0 tmin tmax fuel,
  wf_inputb g i0 [] = true -> perm_oracle ord -> whole_steps tmin tmax -> gnodes g <> [] ->
  (basic_discrete_SIS_R g (det_rules tt pick) ord (Some i0) None tmin tmax false fuel = Fail OutOfFuel /\
   basic_discrete_SIS_R g (det_rules tt pick) ord (Some i0) None tmin tmax true fuel = Fail OutOfFuel) \/
  exists outP outF fd,
    basic_discrete_SIS_R g (det_rules tt pick) ord (Some i0) None tmin tmax false fuel = Ret outP /\
    basic_discrete_SIS_R g (det_rules tt pick) ord (Some i0) None tmin tmax true fuel = Ret outF /\
    so_full (o_sim outP) = None /\ so_full (o_sim outF) = Some fd /\
    so_rows (o_sim outP) = so_rows (o_sim outF) /\
    consistent_b (mkInv (gnodes g) (fd_hist fd) None (Some [stS; stI])) (so_rows (o_sim outP)) tmin [(stS, stI); (stI, stS)] = true.
Proof. exact dsis_both_modes. Qed.

(* ---------------- non-vacuity ---------------- *)
(* the graph of Props/C04disc.v: path 0 - 1 - 2 - 3 plus the chord 0 - 2; node 3 initially recovered *)
Definition ex_adj (u : node) : list node :=
  match u with 0%N => [1; 2]%N | 1%N => [0; 2]%N | 2%N => [1; 3; 0]%N | 3%N => [2]%N | _ => [] end.
Definition ex_g : graph := mkGraph [0; 1; 2; 3]%N ex_adj ex_adj false (fun _ _ => 1) (fun _ => 1) false false.
Definition ex_tt (u v : node) (_ : nat) : bool := negb (N.eqb u 0 && N.eqb v 2).
Definition ex_ord (k : nat) (l : list node) : list node := rev l.
(* test_recovery: a node recovers at its third test; it transmits only in its second step *)
Definition ex_rec (u : node) (a : nat) : bool := Nat.leb 2 a.
Definition ex_tt1 (u v : node) (a : nat) : bool := Nat.eqb a 1 && ex_tt u v a.

Definition ex_out (m : samp dout) : option (list row * list (node * history)) :=
  match exec m [] [] with
  | (Ok o, _) => match so_full (o_sim o) with Some fd => Some (so_rows (o_sim o), fd_hist fd) | None => None end
  | _ => None
  end.
Definition r2 (t : Q) (a b : Z) : row := (t, [a; b]).
Definition ex_sir_iv (hs : list (node * history)) : inv := mkInv (gnodes ex_g) hs None (Some [stS; stI; stR]).
Definition ex_sis_iv (hs : list (node * history)) : inv := mkInv (gnodes ex_g) hs None (Some [stS; stI]).

Example C10_disc_hypotheses_satisfiable :
  wf_inputb ex_g [0%N] [3%N] = true /\ perm_oracle ex_ord /\ wf_inputb ex_g [0%N; 2%N] [] = true /\
  pick_sound (det_rules ex_tt1 (fun _ _ => O)) /\ whole_steps (5 # 2) None /\ whole_steps 0 (Some 3) /\ gnodes ex_g <> [].
Proof.
  split; [vm_compute; reflexivity|]. split; [|split; [vm_compute; reflexivity|]].
  - intros k l. unfold ex_ord. apply Permutation_sym. apply Permutation_rev.
  - split; [apply det_pick_sound|]. split; [exact I|]. split; [exists 3%nat; vm_compute; reflexivity|discriminate].
Qed.

(* discrete_SIR with a recovery test from tmin = 5/2: steps 0 and 5 change nothing (8 array rows,
   6 summary rows); the checker accepts; it rejects the arrays with a count altered, the arrays
   with a row dropped where a node changes, a history with its last entry removed, a history that
   does not start at tmin, and a history with the illegal move S -> R *)
Example C10_disc_example_SIR :
  exists arr hs,
    ex_out (discrete_SIR ex_g (det_rules ex_tt1 (fun _ _ => O)) (Some ex_rec) ex_ord (Some [0%N]) (Some [3%N]) None (5 # 2) None true 12) = Some (arr, hs) /\
    arr = [(5 # 2, [2; 1; 1]); (7 # 2, [2; 1; 1]); (9 # 2, [1; 2; 1]); (11 # 2, [1; 1; 2]);
           (13 # 2, [0; 2; 2]); (15 # 2, [0; 1; 3]); (17 # 2, [0; 1; 3]); (19 # 2, [0; 0; 4])]%Z /\
    hs = [(0%N, [(5 # 2, stI); (11 # 2, stR)]); (1%N, [(5 # 2, stS); (9 # 2, stI); (15 # 2, stR)]);
          (2%N, [(5 # 2, stS); (13 # 2, stI); (19 # 2, stR)]); (3%N, [(5 # 2, stR)])] /\
    summary (ex_sir_iv hs) None =
      Ok [(5 # 2, [2; 1; 1]); (9 # 2, [1; 2; 1]); (11 # 2, [1; 1; 2]); (13 # 2, [0; 2; 2]); (15 # 2, [0; 1; 3]); (19 # 2, [0; 0; 4])]%Z /\
    node_status (ex_sir_iv hs) 1%N 12 = Ok stR /\ node_status (ex_sir_iv hs) 1%N (15 # 2) = Ok stR /\ node_status (ex_sir_iv hs) 1%N 7 = Ok stI /\
    consistent_b (ex_sir_iv hs) arr (5 # 2) [(stS, stI); (stI, stR)] = true /\
    consistent_b (ex_sir_iv hs) [(5 # 2, [2; 1; 1]); (7 # 2, [2; 1; 1]); (9 # 2, [1; 2; 1]); (11 # 2, [1; 1; 2]);
           (13 # 2, [0; 2; 2]); (15 # 2, [0; 2; 2]); (17 # 2, [0; 1; 3]); (19 # 2, [0; 0; 4])]%Z (5 # 2) [(stS, stI); (stI, stR)] = false /\
    consistent_b (ex_sir_iv hs) [(5 # 2, [2; 1; 1]); (7 # 2, [2; 1; 1]); (11 # 2, [1; 1; 2]);
           (13 # 2, [0; 2; 2]); (15 # 2, [0; 1; 3]); (17 # 2, [0; 1; 3]); (19 # 2, [0; 0; 4])]%Z (5 # 2) [(stS, stI); (stI, stR)] = false /\
    consistent_b (ex_sir_iv [(0%N, [(5 # 2, stI); (11 # 2, stR)]); (1%N, [(5 # 2, stS); (9 # 2, stI); (15 # 2, stR)]);
          (2%N, [(5 # 2, stS); (13 # 2, stI)]); (3%N, [(5 # 2, stR)])]) arr (5 # 2) [(stS, stI); (stI, stR)] = false /\
    consistent_b (ex_sir_iv [(0%N, [(7 # 2, stI); (11 # 2, stR)]); (1%N, [(5 # 2, stS); (9 # 2, stI); (15 # 2, stR)]);
          (2%N, [(5 # 2, stS); (13 # 2, stI); (19 # 2, stR)]); (3%N, [(5 # 2, stR)])]) arr (5 # 2) [(stS, stI); (stI, stR)] = false /\
    consistent (ex_sir_iv [(0%N, [(5 # 2, stI); (11 # 2, stR)]); (1%N, [(5 # 2, stS); (15 # 2, stR)]);
          (2%N, [(5 # 2, stS); (13 # 2, stI); (19 # 2, stR)]); (3%N, [(5 # 2, stR)])]) arr (5 # 2) [(stS, stI); (stI, stR)] = VBadHistory 1%N.
Proof. eexists. eexists. split; [vm_compute; reflexivity|]. vm_compute. repeat split. Qed.

(* basic_discrete_SIS for 3 steps: the counts never change although every node changes status at
   every step -- summary() lists all four times; an altered array is rejected *)
Example C10_disc_example_SIS :
  exists arr hs,
    ex_out (basic_discrete_SIS_R ex_g (det_rules ex_tt (fun _ _ => O)) ex_ord (Some [0%N; 2%N]) None 0 (Some 3) true 9) = Some (arr, hs) /\
    arr = [r2 0 2 2; r2 1 2 2; r2 2 2 2; r2 3 2 2] /\
    assoc hs 0%N = Some [(0, stI); (1, stS); (2, stI); (3, stS)] /\ assoc hs 3%N = Some [(0, stS); (1, stI); (2, stS); (3, stI)] /\
    summary (ex_sis_iv hs) None = Ok arr /\
    consistent_b (ex_sis_iv hs) arr 0 [(stS, stI); (stI, stS)] = true /\
    consistent_b (ex_sis_iv hs) [r2 0 2 2; r2 1 2 2; r2 2 1 3; r2 3 2 2] 0 [(stS, stI); (stI, stS)] = false.
Proof. eexists. eexists. split; [vm_compute; reflexivity|]. vm_compute. repeat split. Qed.

(* both return modes of the table rule of Props/C04disc.v: the same arrays *)
Example C10_disc_example_both_modes :
  exists oP oF trP trF,
    exec (discrete_SIR ex_g (det_rules ex_tt (fun _ _ => O)) None ex_ord (Some [0%N]) (Some [3%N]) None 0 None false 9) [] [] = (Ok oP, trP) /\
    exec (discrete_SIR ex_g (det_rules ex_tt (fun _ _ => O)) None ex_ord (Some [0%N]) (Some [3%N]) None 0 None true 9) [] [] = (Ok oF, trF) /\
    so_rows (o_sim oP) = so_rows (o_sim oF) /\ map snd (so_rows (o_sim oP)) = [[2; 1; 1]; [1; 1; 2]; [0; 1; 3]; [0; 0; 4]]%Z /\
    so_full (o_sim oP) = None /\ so_full (o_sim oF) <> None.
Proof.
  eexists. eexists. eexists. eexists. split; [vm_compute; reflexivity|]. split; [vm_compute; reflexivity|].
  vm_compute. repeat split. discriminate.
Qed.

(* the runs of the two examples above in plain mode: they return (fuel 12 / 9 suffices), with
   the arrays of the full-data runs; with fuel 3 both modes run out of fuel *)
Example C10_disc_example_both_modes_rec_sis :
  (exists oP oF, discrete_SIR ex_g (det_rules ex_tt1 (fun _ _ => O)) (Some ex_rec) ex_ord (Some [0%N]) (Some [3%N]) None (5 # 2) None false 12 = Ret oP /\
     discrete_SIR ex_g (det_rules ex_tt1 (fun _ _ => O)) (Some ex_rec) ex_ord (Some [0%N]) (Some [3%N]) None (5 # 2) None true 12 = Ret oF /\
     so_rows (o_sim oP) = so_rows (o_sim oF) /\ length (so_rows (o_sim oP)) = 8%nat) /\
  (exists oP oF, basic_discrete_SIS_R ex_g (det_rules ex_tt (fun _ _ => O)) ex_ord (Some [0%N; 2%N]) None 0 (Some 3) false 9 = Ret oP /\
     basic_discrete_SIS_R ex_g (det_rules ex_tt (fun _ _ => O)) ex_ord (Some [0%N; 2%N]) None 0 (Some 3) true 9 = Ret oF /\
     so_rows (o_sim oP) = so_rows (o_sim oF) /\ length (so_rows (o_sim oP)) = 4%nat) /\
  discrete_SIR ex_g (det_rules ex_tt1 (fun _ _ => O)) (Some ex_rec) ex_ord (Some [0%N]) (Some [3%N]) None (5 # 2) None false 3 = Fail OutOfFuel /\
  discrete_SIR ex_g (det_rules ex_tt1 (fun _ _ => O)) (Some ex_rec) ex_ord (Some [0%N]) (Some [3%N]) None (5 # 2) None true 3 = Fail OutOfFuel.
Proof.
  split; [|split; [|split]].
  - eexists. eexists. split; [vm_compute; reflexivity|]. split; [vm_compute; reflexivity|]. vm_compute. split; reflexivity.
  - eexists. eexists. split; [vm_compute; reflexivity|]. split; [vm_compute; reflexivity|]. vm_compute. split; reflexivity.
  - vm_compute. reflexivity.
  - vm_compute. reflexivity.
Qed.

Print Assumptions C10_discrete_SIR_histories_good.
Print Assumptions C10_basic_discrete_SIS_histories_good.
Print Assumptions C10_discrete_SIR_summary_is_arrays.
Print Assumptions C10_basic_discrete_SIS_summary_is_arrays.
Print Assumptions C10_discrete_SIR_checker_accepts_every_run.
Print Assumptions C10_basic_discrete_SIS_checker_accepts_every_run.
Print Assumptions C10_discrete_SIR_both_return_modes.
Print Assumptions C10_discrete_SIR_both_return_modes_with_recovery_test.
Print Assumptions C10_basic_discrete_SIS_both_return_modes.
Print Assumptions C10_disc_hypotheses_satisfiable.
Print Assumptions C10_disc_example_SIR.
Print Assumptions C10_disc_example_SIS.
Print Assumptions C10_disc_example_both_modes.
Print Assumptions C10_disc_example_both_modes_rec_sis.
