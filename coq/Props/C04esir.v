(* C04 — trajectories are well-formed, for the event-driven SIR simulator
   (fast_nonMarkov_SIR with its rules given as tables; fast_SIR goes through the same
   loop, Props/C11.v [fast_nonmarkov_is_esir_det]).  Model: Model/EventSIR.v; the ghost
   event log [esir_log]: Model/EventSIRLog.v.  Proofs: Proofs/EventSIR{Rows,Traj,C04}.v.

   Reading guide.  [esir_det tb g delay dur i0 r0 tmin tmax full fuel] is the whole
   simulator under tie policy [tb] (the code's is [fifo]); [so_rows] of its result are the
   returned arrays (t,S,I,R) — the same in both return modes.  [esir_okb2] = the domain of
   C11 ([esir_okb]: simple adjacency, delays/durations >= 0, initial nodes in the graph and
   not initially recovered, tmin < tmax) and the two initial collections duplicate-free,
   the initially recovered nodes in the graph.  [trajS g tmin tmax] is GillespieP.traj — the
   predicate of Props/C04.v — at kind SIR:
     traj_init : the first row is at tmin and is the census of a status map
     traj_snoc : each later row is at a time >= the previous one and < tmax, one legal
                 move (S->I or I->R) away, and again a census.
   [esir_log] = the status changes of the run in the order in which they happened;
   [log_arrays nodes [S;I;R] tmin st evs] = the row (tmin, census st) followed by one row per
   event: its time and the census of the statuses after replaying the events up to it. *)
From EoNV Require Import Prelude Samp Graph EventSIR EventSIRP EventSIRInv EventSIRMain EventSIRPred.
From EoNV Require Import Investigation EventSIRLog EventSIRRows EventSIRTraj EventSIRC04 EventSIRFifo EventSIRChk EventSIRChkP.
From EoNV Require Gillespie GillespieP.
From Coq Require Import Permutation.

(* --- every run, both return modes, EVERY tie policy, every fuel >= |I0| + sum (deg+1):
   the simulator returns; the returned rows are a well-formed trajectory; the rows kept by
   the run are the running census of its event log replayed from the statuses before the
   initial infections (all S but the initially recovered), and the returned rows are
   these minus the first |I0| (`times = times[len(initial_infecteds):]`); the final
   statuses are the replay of the whole log *)
Theorem C04_esir_rows_well_formed : forall tb g delay dur i0 r0 tmin tmax full fuel,
  esir_okb2 g delay dur i0 r0 tmin tmax = true -> (esir_fuel g i0 <= fuel)%nat ->
  exists sF evs out cs,
    esir_run tb g delay dur i0 r0 tmin tmax fuel = Ok sF /\
    esir_log tb g delay dur i0 r0 tmin tmax fuel = Ok evs /\
    esir_det tb g delay dur i0 r0 tmin tmax full fuel = Ok (out, cs) /\
    so_rows out = skipn (length i0) (rev (rows sF)) /\
    rev (rows sF) = log_arrays (gnodes g) sir_ps tmin (esir_init [] r0) evs /\
    stat sF = replay (st00 r0) evs /\
    trajS g tmin tmax (so_rows out).
Proof. exact esir_rows_traj. Qed.

(* --- the rows start with the requested counts.  The first |I0| events of a run are the
   infections of the initial nodes at tmin (in some order), the returned rows are the
   running census of the remaining events replayed from the REQUESTED statuses
   ([esir_init i0 r0]: I on I0, R on R0, S elsewhere), so the first row is
   (tmin, N-|I0|-|R0|, |I0|, |R0|) — for every tie policy provided [start_cond]: the initial
   nodes have positive durations and delays, or no two events after the first |I0| share
   an instant.  (Without it a tie policy may serve a same-instant recovery or transmission
   before the last initial infection: [C04_esir_start_condition_needed] below.) *)
Theorem C04_esir_first_row_as_requested : forall tb g delay dur i0 r0 tmin tmax full fuel,
  esir_okb2 g delay dur i0 r0 tmin tmax = true -> (esir_fuel g i0 <= fuel)%nat ->
  exists evs out cs,
    esir_log tb g delay dur i0 r0 tmin tmax fuel = Ok evs /\
    esir_det tb g delay dur i0 r0 tmin tmax full fuel = Ok (out, cs) /\
    (start_cond g delay dur i0 tmin evs ->
       Permutation (firstn (length i0) evs) (init_events tmin i0) /\
       so_rows out = log_arrays (gnodes g) sir_ps tmin (esir_init i0 r0) (skipn (length i0) evs) /\
       exists rest, so_rows out =
         (tmin, [order g - Z.of_nat (length i0) - Z.of_nat (length r0); Z.of_nat (length i0); Z.of_nat (length r0)]%Z) :: rest).
Proof. exact esir_rows_start. Qed.

(* --- the same for the CODE's tie policy, without any condition on delays and durations:
   [init_first n0 tb] = among equal times an entry pushed during set-up (heap counter < |I0|)
   is never overtaken by one pushed later; the heap order (time, counter) = [fifo] is such a
   policy.  Zero delays and zero durations are allowed: the same-instant events they cause
   are served after the |I0| initial infections. *)
Theorem C04_esir_first_row_as_requested_fifo : forall tb g delay dur i0 r0 tmin tmax full fuel,
  init_first (length i0) tb ->
  esir_okb2 g delay dur i0 r0 tmin tmax = true -> (esir_fuel g i0 <= fuel)%nat ->
  exists evs out cs,
    esir_log tb g delay dur i0 r0 tmin tmax fuel = Ok evs /\
    esir_det tb g delay dur i0 r0 tmin tmax full fuel = Ok (out, cs) /\
    Permutation (firstn (length i0) evs) (init_events tmin i0) /\
    so_rows out = log_arrays (gnodes g) sir_ps tmin (esir_init i0 r0) (skipn (length i0) evs) /\
    exists rest, so_rows out =
      (tmin, [order g - Z.of_nat (length i0) - Z.of_nat (length r0); Z.of_nat (length i0); Z.of_nat (length r0)]%Z) :: rest.
Proof. exact esir_rows_start_fifo. Qed.

Theorem C04_esir_code_policy_is_init_first : forall n0, init_first n0 fifo.
Proof. exact fifo_init_first. Qed.

(* what [trajS] says, clause by clause (the lemmas of Props/C04.v at kind SIR) *)
Theorem C04_esir_first_time_is_tmin : forall g tmin tmax l,
  trajS g tmin tmax l -> exists r l', l = r :: l' /\ fst r == tmin.
Proof. exact (fun g tmin tmax => GillespieP.traj_first g Gillespie.SIR tmin tmax). Qed.

Theorem C04_esir_consecutive_rows : forall g tmin tmax l,
  trajS g tmin tmax l -> forall l1 a b l2, l = l1 ++ a :: b :: l2 ->
    fst a <= fst b /\ xlt (fst b) tmax = true /\ moveS (snd a) (snd b).
Proof. exact (fun g tmin tmax => GillespieP.traj_adjacent g Gillespie.SIR tmin tmax). Qed.

Theorem C04_esir_counts_nonnegative_and_sum_to_N : forall g tmin tmax l,
  trajS g tmin tmax l -> forall r, In r l ->
    Forall (fun x => (0 <= x)%Z) (snd r) /\ sumZ (snd r) = order g /\ length (snd r) = 3%nat.
Proof.
  intros g tmin tmax l H r Hin. apply (GillespieP.census_counts g Gillespie.SIR).
  exact (GillespieP.traj_census g Gillespie.SIR tmin tmax l H r Hin).
Qed.

(* a legal move never increases S nor decreases R *)
Theorem C04_esir_SIR_monotone : forall c c', moveS c c' ->
  (Gillespie.cnt c' 0 <= Gillespie.cnt c 0)%Z /\ (Gillespie.cnt c 2 <= Gillespie.cnt c' 2)%Z.
Proof. exact move_SIR_monotone. Qed.

(* unbounded horizon (tmax = inf) and finite durations: no node is left infected and the
   last returned row, the census of the final statuses, has I = 0 *)
Theorem C04_esir_unbounded_run_ends_without_infection : forall tb g delay dur i0 r0 tmin full fuel,
  esir_okb2 g delay dur i0 r0 tmin None = true -> finite_dur g dur = true -> (esir_fuel g i0 <= fuel)%nat ->
  exists sF out cs,
    esir_run tb g delay dur i0 r0 tmin None fuel = Ok sF /\
    esir_det tb g delay dur i0 r0 tmin None full fuel = Ok (out, cs) /\
    (forall u, stat sF u <> stI) /\
    snd (last (so_rows out) (0, [])) = census3 g (stat sF) /\
    Gillespie.cnt (snd (last (so_rows out) (0, []))) 1 = 0%Z.
Proof. exact esir_unbounded_no_infected. Qed.

(* --- the decidable checker [wf_trajb] (Model/EventSIRChk.v; extracted and applied to the
   IMPLEMENTATION's arrays by harness/esir_lib.py [xchk]): every run of the model passes it,
   and acceptance means: first time = tmin, times non-decreasing and < tmax, consecutive rows
   one infection (S-1,I+1) or one recovery (I-1,R+1) apart, counts non-negative summing to N *)
Theorem C04_esir_checker_accepts_every_run : forall tb g delay dur i0 r0 tmin tmax full fuel,
  esir_okb2 g delay dur i0 r0 tmin tmax = true -> (esir_fuel g i0 <= fuel)%nat ->
  exists out cs, esir_det tb g delay dur i0 r0 tmin tmax full fuel = Ok (out, cs) /\
                 wf_trajb g tmin tmax (so_rows out) = true.
Proof. exact esir_rows_pass_checker. Qed.

Theorem C04_esir_checker_sound : forall g tmin tmax l, wf_trajb g tmin tmax l = true ->
  (exists r l', l = r :: l' /\ fst r == tmin) /\
  (forall (l1 : list row) (a b : row) (l2 : list row), l = l1 ++ a :: b :: l2 ->
     fst a <= fst b /\ xlt (fst b) tmax = true /\ move_spec (snd a) (snd b)) /\
  (forall x, In x l -> row_spec (order g) (snd x)).
Proof. exact wf_trajb_sound. Qed.

(* ---------------- non-vacuity ---------------- *)
(* the triangle of Props/C11.v: delays 0->1 = 1, 0->2 = 3, others 1; durations 2 *)
Definition g3 : graph :=
  mkGraph [0;1;2]%N (fun u => if N.eqb u 0 then [1;2]%N else if N.eqb u 1 then [0;2]%N else [0;1]%N)
          (fun u => if N.eqb u 0 then [1;2]%N else if N.eqb u 1 then [0;2]%N else [0;1]%N)
          false (fun _ _ => 1) (fun _ => 1) false false.
Definition d3 (u v : node) : xtime := if N.eqb u 0 && N.eqb v 2 then Some 3 else Some 1.
Definition r3 (u : node) : xtime := Some 2.

Example C04_esir_hypotheses_satisfiable :
  esir_okb2 g3 d3 r3 [0%N] [] (1#2) (Some 5) = true /\ esir_okb2 g3 d3 r3 [0%N; 2%N] [1%N] 0 None = true /\
  pos_init g3 d3 r3 [0%N; 2%N] = true /\ finite_dur g3 r3 = true.
Proof. vm_compute. repeat split. Qed.

Example C04_esir_example_run :
  match esir_det fifo g3 d3 r3 [0%N] [] (1#2) None false (esir_fuel g3 [0%N]),
        esir_log fifo g3 d3 r3 [0%N] [] (1#2) None (esir_fuel g3 [0%N]) with
  | Ok (o, _), Ok evs =>
      map (fun r => (Qred (fst r), snd r)) (so_rows o) =
        [(1#2, [2;1;0]%Z); (3#2, [1;2;0]%Z); (5#2, [1;1;1]%Z); (5#2, [0;2;1]%Z); (7#2, [0;1;2]%Z); (9#2, [0;0;3]%Z)] /\
      map (fun e => (Qred (ev_t e), ev_u e, ev_s e)) evs =
        [(1#2, 0%N, stI); (3#2, 1%N, stI); (5#2, 0%N, stR); (5#2, 2%N, stI); (7#2, 1%N, stR); (9#2, 2%N, stR)]
  | _, _ => False
  end.
Proof. vm_compute. split; reflexivity. Qed.

(* why [start_cond]: two isolated nodes, both initially infected, zero durations.  A tie
   policy that serves the newest of simultaneous events first recovers node 1 before node 0
   is infected: the rows left after cutting |I0| = 2 start at (1,0,1), not at the requested
   (0,2,0); the code's policy [fifo] starts at (0,2,0). *)
Definition g2 : graph := mkGraph [0;1]%N (fun _ => []) (fun _ => []) false (fun _ _ => 1) (fun _ => 1) false false.
Definition lifo : tiepolicy := fun _ _ => true.
Example C04_esir_start_condition_needed :
  esir_okb2 g2 (fun _ _ => None) (fun _ => Some 0) [0%N; 1%N] [] 0 None = true /\
  match esir_det lifo g2 (fun _ _ => None) (fun _ => Some 0) [0%N; 1%N] [] 0 None false 10,
        esir_det fifo g2 (fun _ _ => None) (fun _ => Some 0) [0%N; 1%N] [] 0 None false 10 with
  | Ok (o1, _), Ok (o2, _) =>
      map snd (so_rows o1) = [[1;0;1]%Z; [0;1;1]%Z; [0;0;2]%Z] /\
      map snd (so_rows o2) = [[0;2;0]%Z; [0;1;1]%Z; [0;0;2]%Z]
  | _, _ => False
  end.
Proof. vm_compute. repeat split. Qed.

(* the checker accepts the arrays of the example run and rejects: a first time other than
   tmin, a double move in one row, counts not summing to N, a time at tmax *)
Example C04_esir_checker_rejects :
  wf_trajb g3 (1#2) None [(1#2, [2;1;0]%Z); (3#2, [1;2;0]%Z); (5#2, [1;1;1]%Z)] = true /\
  wf_trajb g3 0 None [(1#2, [2;1;0]%Z); (3#2, [1;2;0]%Z)] = false /\
  wf_trajb g3 (1#2) None [(1#2, [2;1;0]%Z); (3#2, [0;3;0]%Z)] = false /\
  wf_trajb g3 (1#2) None [(1#2, [2;1;0]%Z); (3#2, [1;1;0]%Z)] = false /\
  wf_trajb g3 (1#2) (Some (3#2)) [(1#2, [2;1;0]%Z); (3#2, [1;2;0]%Z)] = false.
Proof. vm_compute. repeat split. Qed.

(* why [esir_okb2] asks for duplicate-free initial collections on top of C11's [esir_okb]: the
   code cuts len(initial_infecteds) rows although a node listed twice is infected once (and
   computes the first row from len(initial_recovereds)); with node 0 listed twice the returned
   arrays start after tmin and the checker rejects them.  A caller's error, outside the
   property's domain. *)
Example C04_esir_domain_distinct_initial_nodes_needed :
  esir_okb g3 d3 r3 [0%N; 0%N] [] (1#2) None = true /\ esir_okb2 g3 d3 r3 [0%N; 0%N] [] (1#2) None = false /\
  match esir_det fifo g3 d3 r3 [0%N; 0%N] [] (1#2) None false (esir_fuel g3 [0%N; 0%N]) with
  | Ok (o, _) => map (fun r => Qred (fst r)) (firstn 1 (so_rows o)) = [3#2] /\ wf_trajb g3 (1#2) None (so_rows o) = false
  | Err _ => False
  end.
Proof. vm_compute. repeat split. Qed.

Print Assumptions C04_esir_domain_distinct_initial_nodes_needed.
Print Assumptions C04_esir_checker_rejects.
Print Assumptions C04_esir_rows_well_formed.
Print Assumptions C04_esir_first_row_as_requested.
Print Assumptions C04_esir_first_row_as_requested_fifo.
Print Assumptions C04_esir_code_policy_is_init_first.
Print Assumptions C04_esir_first_time_is_tmin.
Print Assumptions C04_esir_consecutive_rows.
Print Assumptions C04_esir_counts_nonnegative_and_sum_to_N.
Print Assumptions C04_esir_SIR_monotone.
Print Assumptions C04_esir_unbounded_run_ends_without_infection.
Print Assumptions C04_esir_checker_accepts_every_run.
Print Assumptions C04_esir_checker_sound.
Print Assumptions C04_esir_hypotheses_satisfiable.
Print Assumptions C04_esir_example_run.
Print Assumptions C04_esir_start_condition_needed.
