(* C12, basic_discrete_SIS: the deterministic skeleton of the "discrete SIS chain".
   Only statements, each closed by [exact] of a lemma of Proofs/DiscreteSisGen.v, over the
   definitions of Model/Discrete.v.

   Scope: basic_discrete_SIS_R g (det_rules tt pick) ord (Some i0) None tmin tmax full fuel --
   every graph with wf_inputb g i0 [], EVERY table rule tt (for SIS the third argument of tt is
   the STEP index: the code's rule may answer differently at every step), every permutation
   oracle (Python's set order), tmin, tmax, both return modes, EVERY fuel.  SIS need not die
   out (tmax = None): the theorem is the dichotomy "fuel exhausted and no stop index within the
   fuel" / "returns after K <= fuel steps".  The pure sequence (Proofs/DiscreteSisGen.v):
     Js 0 = canon g i0,  Js (k+1) = {v in G | v not in Js k, hit by some u in Js k at step k},
     srow k = (tq tmin k, [N - |Js k|; |Js k|]),  events_s / hist_s : node histories,
     stops k = (Js k empty or tq tmin k >= tmax),  first_stop_s K = K is the first stop index. *)
From EoNV Require Import Prelude Samp Graph Discrete DiscreteP DiscreteC05 DiscreteSisGen.
From Coq Require Import Permutation.

Theorem C12sis_dsis_gen : forall g tt pick ord i0 tmin tmax full fuel,
  wf_inputb g i0 [] = true -> perm_oracle ord ->
  (basic_discrete_SIS_R g (det_rules tt pick) ord (Some i0) None tmin tmax full fuel = Fail OutOfFuel /\
   forall j, (j <= fuel)%nat -> stops g tt i0 tmin tmax j = false) \/
  exists K out, first_stop_s g tt i0 tmin tmax K /\ (K <= fuel)%nat /\
    basic_discrete_SIS_R g (det_rules tt pick) ord (Some i0) None tmin tmax full fuel = Ret out /\
    so_rows (o_sim out) = map (srow g tt i0 tmin) (seq 0 (S K)) /\
    (if full then exists tr, so_full (o_sim out) = Some (mkFull (hist_s g tt i0 tmin tmax full K) tr)
     else so_full (o_sim out) = None).
Proof. exact dsis_gen. Qed.
Print Assumptions C12sis_dsis_gen.

(* the same with "the run returns" as a hypothesis *)
Theorem C12sis_dsis_gen_ret : forall g tt pick ord i0 tmin tmax full fuel out,
  wf_inputb g i0 [] = true -> perm_oracle ord ->
  basic_discrete_SIS_R g (det_rules tt pick) ord (Some i0) None tmin tmax full fuel = Ret out ->
  exists K, first_stop_s g tt i0 tmin tmax K /\ (K <= fuel)%nat /\
    so_rows (o_sim out) = map (srow g tt i0 tmin) (seq 0 (S K)) /\
    (if full then exists tr, so_full (o_sim out) = Some (mkFull (hist_s g tt i0 tmin tmax full K) tr)
     else so_full (o_sim out) = None).
Proof. exact dsis_gen_ret. Qed.
Print Assumptions C12sis_dsis_gen_ret.

(* fuel >= the first stop index suffices *)
Theorem C12sis_enough_fuel : forall g tt pick ord i0 tmin tmax full fuel K,
  wf_inputb g i0 [] = true -> perm_oracle ord ->
  first_stop_s g tt i0 tmin tmax K -> (K <= fuel)%nat ->
  exists out, basic_discrete_SIS_R g (det_rules tt pick) ord (Some i0) None tmin tmax full fuel = Ret out.
Proof. exact dsis_enough_fuel. Qed.
Print Assumptions C12sis_enough_fuel.

(* a finite horizon tmax = tmin + n: at most n steps, fuel n suffices *)
Theorem C12sis_horizon : forall g tt pick ord i0 tmin m full fuel n,
  wf_inputb g i0 [] = true -> perm_oracle ord ->
  m == tmin + inject_Z (Z.of_nat n) -> (n <= fuel)%nat ->
  exists K out, (K <= n)%nat /\ first_stop_s g tt i0 tmin (Some m) K /\
    basic_discrete_SIS_R g (det_rules tt pick) ord (Some i0) None tmin (Some m) full fuel = Ret out.
Proof. exact dsis_horizon. Qed.
Print Assumptions C12sis_horizon.

(* the generation sequence: J_0 = i0; v is in J_{k+1} iff it is not in J_k and some u in J_k has a
   successful contact (u, v) at step k (so J_{k+1} is disjoint from J_k: an infectious node is
   susceptible again after one step, re-infection is possible at the next step only) *)
Theorem C12sis_generations : forall g tt i0, wf_inputb g i0 [] = true -> forall k v,
  (In v (Js g tt i0 O) <-> In v i0) /\
  (In v (Js g tt i0 (S k)) <->
     In v (gnodes g) /\ ~ In v (Js g tt i0 k) /\
     exists u, In u (Js g tt i0 k) /\ In v (gadj g u) /\ tt u v k = true) /\
  NoDup (Js g tt i0 k) /\ (0 <= lenZ (Js g tt i0 k) <= order g)%Z.
Proof. exact sis_gen_meaning. Qed.
Print Assumptions C12sis_generations.

(* K + 1 rows, row k = (tq tmin k, [N - |J_k|; |J_k|]) *)
Theorem C12sis_rows : forall g tt i0 tmin K,
  length (map (srow g tt i0 tmin) (seq 0 (S K))) = S K /\
  forall k, (k <= K)%nat ->
    nth_error (map (srow g tt i0 tmin) (seq 0 (S K))) k =
      Some (tq tmin k, [(order g - lenZ (Js g tt i0 k))%Z; lenZ (Js g tt i0 k)]).
Proof. exact sis_rows_meaning. Qed.
Print Assumptions C12sis_rows.

(* full data: the history of v is (tmin, I if v in i0 else S) :: events_s K v, and for every
   executed step k < K within the horizon guard (always, for horizons of whole steps:
   C12sis_guard) there is an S entry at tq (k+1) iff v in J_k and an I entry at tq (k+1) iff
   v in J_{k+1} *)
Theorem C12sis_history : forall g tt i0 tmin tmax full K v e,
  In e (events_s g tt i0 tmin tmax full K v) <->
  exists k, (k < K)%nat /\ full && le_x (tq tmin (S k)) tmax = true /\
    ((e = (tq tmin (S k), stS) /\ In v (Js g tt i0 k)) \/
     (e = (tq tmin (S k), stI) /\ In v (Js g tt i0 (S k)))).
Proof. exact events_s_spec. Qed.
Print Assumptions C12sis_history.

Theorem C12sis_hist_shape : forall g tt i0 tmin tmax full K,
  hist_s g tt i0 tmin tmax full K =
  map (fun u => (u, (tmin, if mem u i0 then stI else stS) :: events_s g tt i0 tmin tmax full K u)) (gnodes g).
Proof. reflexivity. Qed.
Print Assumptions C12sis_hist_shape.

Theorem C12sis_guard : forall g tt i0 tmin tmax K k,
  whole_steps tmin tmax -> first_stop_s g tt i0 tmin tmax K -> (k < K)%nat ->
  le_x (tq tmin (S k)) tmax = true.
Proof. exact sis_guard_whole_steps. Qed.
Print Assumptions C12sis_guard.

Theorem C12sis_first_stop_unique : forall g tt i0 tmin tmax K K',
  first_stop_s g tt i0 tmin tmax K -> first_stop_s g tt i0 tmin tmax K' -> K = K'.
Proof. exact first_stop_s_unique. Qed.
Print Assumptions C12sis_first_stop_unique.

(* ---- non-vacuity ---- *)
(* the edge 0 - 1, every contact succeeds: the infection flips between {0} and {1} (node 0 is
   re-infected two steps after its own infection); horizon 4 = tmin + 4: four steps *)
Definition sx_adj (u : node) : list node := match u with 0%N => [1]%N | 1%N => [0]%N | _ => [] end.
Definition sx_g : graph := mkGraph [0; 1]%N sx_adj sx_adj false (fun _ _ => 1) (fun _ => 1) false false.
Definition sx_all (u v : node) (k : nat) : bool := true.
Definition sx_ord (k : nat) (l : list node) : list node := rev l.
Definition sx_rows (m : samp dout) : option (list (list Z)) :=
  match m with Ret out => Some (map snd (so_rows (o_sim out))) | _ => None end.

Example C12sis_ex_wf : wf_inputb sx_g [0%N] [] = true.
Proof. vm_compute. reflexivity. Qed.
Example C12sis_ex_ord : perm_oracle sx_ord.
Proof. intros k l. unfold sx_ord. apply Permutation_sym. apply Permutation_rev. Qed.
Example C12sis_ex_flip :
  map (Js sx_g sx_all [0%N]) (seq 0 5) = [[0]; [1]; [0]; [1]; [0]]%N /\
  sx_rows (basic_discrete_SIS_R sx_g (det_rules sx_all (fun _ _ => O)) sx_ord (Some [0%N]) None 0 (Some 4) true 10)
    = Some [[1; 1]; [1; 1]; [1; 1]; [1; 1]; [1; 1]]%Z /\
  match basic_discrete_SIS_R sx_g (det_rules sx_all (fun _ _ => O)) sx_ord (Some [0%N]) None 0 (Some 4) true 10 with
  | Ret out => option_map fd_hist (so_full (o_sim out)) =
      Some [(0%N, [(0, stI); (1, stS); (2, stI); (3, stS); (4, stI)]);
            (1%N, [(0, stS); (1, stI); (2, stS); (3, stI); (4, stS)])]
  | _ => False
  end /\
  first_stop_s sx_g sx_all [0%N] 0 (Some 4) 4 /\
  (* no horizon: the chain never dies out, any fuel is exhausted *)
  basic_discrete_SIS_R sx_g (det_rules sx_all (fun _ _ => O)) sx_ord (Some [0%N]) None 0 None true 10 = Fail OutOfFuel.
Proof.
  split; [vm_compute; reflexivity|]. split; [vm_compute; reflexivity|]. split; [vm_compute; reflexivity|].
  split; [|vm_compute; reflexivity]. split; [|vm_compute; reflexivity]. intros j Hj.
  do 4 (destruct j as [|j]; [vm_compute; reflexivity|]). lia.
Qed.
(* a step-dependent rule on the graph of Props/C12.v (contact 0 -> 2 always fails, nothing
   succeeds at step 2): generations {0}, {1}, {0,2}, {} -- the run dies out after 3 steps *)
Definition sy_adj (u : node) : list node :=
  match u with 0%N => [1; 2]%N | 1%N => [0; 2]%N | 2%N => [1; 0; 3]%N | 3%N => [2]%N | _ => [] end.
Definition sy_g : graph := mkGraph [0; 1; 2; 3]%N sy_adj sy_adj false (fun _ _ => 1) (fun _ => 1) false false.
Definition sy_tt (u v : node) (k : nat) : bool := negb (Nat.eqb k 2) && negb (N.eqb u 0 && N.eqb v 2).
Example C12sis_ex_step_rule :
  wf_inputb sy_g [0%N] [] = true /\
  map (Js sy_g sy_tt [0%N]) (seq 0 5) = [[0]; [1]; [0; 2]; []; []]%N /\
  sx_rows (basic_discrete_SIS_R sy_g (det_rules sy_tt (fun _ _ => O)) sx_ord (Some [0%N]) None 0 None true 10)
    = Some [[3; 1]; [3; 1]; [2; 2]; [4; 0]]%Z.
Proof. split; [vm_compute; reflexivity|]. split; vm_compute; reflexivity. Qed.
Print Assumptions C12sis_ex_wf.
Print Assumptions C12sis_ex_ord.
Print Assumptions C12sis_ex_flip.
Print Assumptions C12sis_ex_step_rule.
