(* C05 — requested initial conditions are what the simulation starts from, for the
   discrete-time simulators discrete_SIR (hence basic_discrete_SIR: Props/C12.v
   [C12_basic_forwards]; the argument forwarding of the Python wrappers is Gen/Calls.v) and
   basic_discrete_SIS.  Proofs: Proofs/DiscreteTop.v, DiscreteC05.v over Model/Discrete.v.
   Same vocabulary as Props/C04disc.v (read its guide first): R = arbitrary rules, trec =
   test_recovery or None, every draw script.  [row0_of sir g i0 r0] = [N-|I0|-|R0|; |I0|; |R0|]
   (SIS: [N-|I0|; |I0|]); [init_status i0 r0 u] = R on R0, I on I0, S elsewhere. *)
From EoNV Require Import Prelude Samp Graph Discrete DiscreteP SampP DiscreteChk DiscreteRun DiscreteRunS DiscreteTop DiscreteC04 DiscreteC05 DiscreteHist DiscreteC09 DiscretePerc.
From EoNV Require Gillespie GillespieP.
From Coq Require Import Permutation.

(* row 0 of every run, both return modes, every draw script, is the request at tmin *)
Theorem C05_discrete_SIR_row0_is_the_request : forall g R trec ord i0 r0o tmin tmax full fuel ds out tr,
  wf_inputb g i0 (opt_list r0o) = true -> perm_oracle ord -> (full = true -> pick_sound R) ->
  exec (discrete_SIR g R trec ord (Some i0) r0o None tmin tmax full fuel) ds [] = (Ok out, tr) ->
  exists rest, so_rows (o_sim out) = (tmin, row0_of true g i0 (opt_list r0o)) :: rest.
Proof. exact dsir_row0. Qed.

Theorem C05_basic_discrete_SIS_row0_is_the_request : forall g R ord i0 tmin tmax full fuel ds out tr,
  wf_inputb g i0 [] = true -> perm_oracle ord -> (full = true -> pick_sound R) ->
  exec (basic_discrete_SIS_R g R ord (Some i0) None tmin tmax full fuel) ds [] = (Ok out, tr) ->
  exists rest, so_rows (o_sim out) = (tmin, row0_of false g i0 []) :: rest.
Proof. exact dsis_row0. Qed.

(* full data: the node histories are keyed by the nodes of the graph; the history of every node
   starts with (tmin, requested status); for a horizon of whole steps the history of an initially
   recovered node has no other entry: it is never infected later *)
Theorem C05_discrete_SIR_initial_statuses : forall g R trec ord i0 r0o tmin tmax fuel ds out tr,
  wf_inputb g i0 (opt_list r0o) = true -> perm_oracle ord -> pick_sound R ->
  exec (discrete_SIR g R trec ord (Some i0) r0o None tmin tmax true fuel) ds [] = (Ok out, tr) ->
  exists fd, so_full (o_sim out) = Some fd /\ map fst (fd_hist fd) = gnodes g /\
    forall u, In u (gnodes g) -> exists evs,
      assocN (fd_hist fd) u = Some ((tmin, init_status i0 (opt_list r0o) u) :: evs) /\
      (whole_steps tmin tmax -> In u (opt_list r0o) -> evs = []).
Proof. exact dsir_hist0. Qed.

Theorem C05_requested_statuses : forall i0 r0 u, (forall v, In v i0 -> ~ In v r0) ->
  (init_status i0 r0 u = stI <-> In u i0) /\ (init_status i0 r0 u = stR <-> In u r0) /\
  (init_status i0 r0 u = stS <-> ~ In u i0 /\ ~ In u r0).
Proof. exact init_status_spec. Qed.

(* the run starts from the requested statuses: st_0 of the [drun] of Props/C04disc.v agrees with
   [init_status] on the graph, and its first transmissions are the source-less entries of I0
   (this is the first argument pair of [drun] in C04_discrete_SIR_rows_are_a_run) *)

(* giving both rho and initial_infecteds is rejected with EoNError *)
Theorem C05_discrete_SIR_rho_and_infecteds_rejected : forall g R trec ord i0 r0o rho tmin tmax full fuel,
  discrete_SIR g R trec ord (Some i0) r0o (Some rho) tmin tmax full fuel = Fail EoNError.
Proof. exact dsir_both_rejected. Qed.

Theorem C05_basic_discrete_SIR_rho_and_infecteds_rejected : forall g p ord i0 r0o rho tmin tmax full fuel,
  basic_discrete_SIR g p ord (Some i0) r0o (Some rho) tmin tmax full fuel = Fail EoNError.
Proof. intros. exact (dsir_both_rejected g (simple_rules p) None ord i0 r0o rho tmin tmax full fuel). Qed.

Theorem C05_basic_discrete_SIS_rho_and_infecteds_rejected : forall g R ord i0 rho tmin tmax full fuel,
  basic_discrete_SIS_R g R ord (Some i0) (Some rho) tmin tmax full fuel = Fail EoNError.
Proof. exact dsis_both_rejected. Qed.

(* percolation_based_discrete_SIR: the network is percolated first (the coins are drawn), then
   discrete_SIR raises EoNError: no result is reachable; the only failures are EoNError or a failure of
   the transmission rule itself while percolating *)
Theorem C05_percolation_based_discrete_SIR_rho_and_infecteds_rejected : forall g R ord i0 r0o rho tmin tmax full fuel,
  (forall out, ~ reach (percolation_based_discrete_SIR_R g R ord (Some i0) r0o (Some rho) tmin tmax full fuel) out) /\
  (forall e, reach_err (percolation_based_discrete_SIR_R g R ord (Some i0) r0o (Some rho) tmin tmax full fuel) e ->
     e = EoNError \/ exists es kept q, reach_err (perc_loop R es kept q) e).
Proof. exact psir_both_rejected. Qed.

(* rho selects int(round(N*rho)) (round half to even) DISTINCT nodes of the graph -- one node
   when neither is given -- and the run is the run from that explicit set *)
Theorem C05_discrete_SIR_rho_selects_round_N_rho_distinct_nodes : forall g R trec ord r0o rho tmin tmax full fuel out,
  NoDup (gnodes g) ->
  reach (discrete_SIR g R trec ord None r0o rho tmin tmax full fuel) out ->
  let n := match rho with None => 1%Z | Some r => d_round_half_even (Qnat (length (gnodes g)) * r) end in
  (rho = None \/ r0o = None) /\
  (0 <= n)%Z /\ exists i0, NoDup i0 /\ incl i0 (gnodes g) /\ (forall v, In v i0 -> ~ In v (opt_list r0o)) /\
    Z.of_nat (length i0) = n /\
    reach (discrete_SIR g R trec ord (Some i0) r0o None tmin tmax full fuel) out.
Proof. exact dsir_rho. Qed.

(* rho together with initial_recovereds is rejected with EoNError (repaired in /repo 124218e: before,
   random.sample could draw an initially recovered node as initially infected, S went negative and R
   exceeded N) -- whatever initial_infecteds is; basic_discrete_SIR inherits it; the percolation wrapper
   has already percolated the network (one test per edge of G) when discrete_SIR raises *)
Theorem C05_discrete_SIR_rho_and_initial_recovereds_rejected : forall g R trec ord i0o r0 rho tmin tmax full fuel,
  discrete_SIR g R trec ord i0o (Some r0) (Some rho) tmin tmax full fuel = Fail EoNError.
Proof. exact dsir_rho_r0_rejected. Qed.

Theorem C05_basic_discrete_SIR_rho_and_initial_recovereds_rejected : forall g p ord i0o r0 rho tmin tmax full fuel,
  basic_discrete_SIR g p ord i0o (Some r0) (Some rho) tmin tmax full fuel = Fail EoNError.
Proof. intros. reflexivity. Qed.

Theorem C05_percolation_based_discrete_SIR_rho_and_initial_recovereds_rejected : forall g R ord i0o r0 rho tmin tmax full fuel,
  percolation_based_discrete_SIR_R g R ord i0o (Some r0) (Some rho) tmin tmax full fuel =
    bind (percolate_network_R g R) (fun _ => Fail EoNError) /\
  (forall out, ~ reach (percolation_based_discrete_SIR_R g R ord i0o (Some r0) (Some rho) tmin tmax full fuel) out) /\
  (forall e, reach_err (percolation_based_discrete_SIR_R g R ord i0o (Some r0) (Some rho) tmin tmax full fuel) e ->
     e = EoNError \/ exists es kept q, reach_err (perc_loop R es kept q) e).
Proof. exact psir_rho_r0_rejected. Qed.

Theorem C05_basic_discrete_SIS_rho_selects_round_N_rho_distinct_nodes : forall g R ord rho tmin tmax full fuel out,
  NoDup (gnodes g) ->
  reach (basic_discrete_SIS_R g R ord None rho tmin tmax full fuel) out ->
  let n := match rho with None => 1%Z | Some r => d_round_half_even (Qnat (length (gnodes g)) * r) end in
  (0 <= n)%Z /\ exists i0, NoDup i0 /\ incl i0 (gnodes g) /\ Z.of_nat (length i0) = n /\
    reach (basic_discrete_SIS_R g R ord (Some i0) None tmin tmax full fuel) out.
Proof. exact dsis_rho. Qed.

(* ... the randomly chosen index nodes are never initially recovered (repaired in /repo 0a3e1b4: the sample is
   drawn among the nodes NOT in initial_recovereds; before, the default single node could be one of them), so
   every run without initial_infecteds that returns is inside the domain of all the theorems (I0 and R0
   disjoint): its rows pass the C04 checker and row 0 is the request (N - n - |R0|, n, |R0|), n = 1 or
   int(round(N*rho)) -- discrete_SIR, hence basic_discrete_SIR, and through the percolation wrapper *)
Theorem C05_discrete_SIR_sampled_run_starts_as_requested : forall g R trec ord r0o rho tmin tmax full fuel out,
  NoDup (gnodes g) -> (forall u v, In u (gnodes g) -> In v (gadj g u) -> In v (gnodes g)) ->
  NoDup (opt_list r0o) -> (forall v, In v (opt_list r0o) -> In v (gnodes g)) ->
  perm_oracle ord -> (full = true -> pick_sound R) ->
  reach (discrete_SIR g R trec ord None r0o rho tmin tmax full fuel) out ->
  let n := match rho with None => 1%Z | Some r => d_round_half_even (Qnat (length (gnodes g)) * r) end in
  (rho = None \/ r0o = None) /\
  dwf_rowsb true (onestep_of trec) g tmin tmax (so_rows (o_sim out)) = true /\
  exists rest, so_rows (o_sim out) = (tmin, [(order g - n - lenZ (opt_list r0o))%Z; n; lenZ (opt_list r0o)]) :: rest.
Proof. exact dsir_sampled_rows_accepted. Qed.

Theorem C05_basic_discrete_SIR_sampled_run_starts_as_requested : forall g p ord r0o rho tmin tmax full fuel out,
  NoDup (gnodes g) -> (forall u v, In u (gnodes g) -> In v (gadj g u) -> In v (gnodes g)) ->
  NoDup (opt_list r0o) -> (forall v, In v (opt_list r0o) -> In v (gnodes g)) ->
  perm_oracle ord ->
  reach (basic_discrete_SIR g p ord None r0o rho tmin tmax full fuel) out ->
  let n := match rho with None => 1%Z | Some r => d_round_half_even (Qnat (length (gnodes g)) * r) end in
  (rho = None \/ r0o = None) /\
  dwf_rowsb true true g tmin tmax (so_rows (o_sim out)) = true /\
  exists rest, so_rows (o_sim out) = (tmin, [(order g - n - lenZ (opt_list r0o))%Z; n; lenZ (opt_list r0o)]) :: rest.
Proof.
  intros g p ord r0o rho tmin tmax full fuel out H1 H2 H3 H4 H5 H.
  exact (dsir_sampled_rows_accepted g (simple_rules p) None ord r0o rho tmin tmax full fuel out H1 H2 H3 H4 H5 (fun _ => simple_pick_sound p) H).
Qed.

Theorem C05_percolation_based_discrete_SIR_sampled_run_starts_as_requested : forall g R ord r0o rho tmin tmax full fuel out,
  NoDup (gnodes g) -> (forall u v, In u (gnodes g) -> In v (gadj g u) -> In v (gnodes g)) ->
  NoDup (opt_list r0o) -> (forall v, In v (opt_list r0o) -> In v (gnodes g)) ->
  perm_oracle ord -> (full = true -> pick_sound R) ->
  reach (percolation_based_discrete_SIR_R g R ord None r0o rho tmin tmax full fuel) out ->
  let n := match rho with None => 1%Z | Some r => d_round_half_even (Qnat (length (gnodes g)) * r) end in
  (rho = None \/ r0o = None) /\
  dwf_rowsb true true g tmin tmax (so_rows (o_sim out)) = true /\
  exists rest, so_rows (o_sim out) = (tmin, [(order g - n - lenZ (opt_list r0o))%Z; n; lenZ (opt_list r0o)]) :: rest.
Proof. exact psir_sampled_rows_accepted. Qed.

(* every node initially recovered, neither rho nor initial_infecteds: random.sample([], 1) raises ValueError,
   in the model as in the code *)
Theorem C05_discrete_SIR_all_recovered_is_ValueError : forall g R trec ord r0 tmin tmax full fuel ds,
  (forall v, In v (gnodes g) -> In v r0) ->
  exists tr, exec (discrete_SIR g R trec ord None (Some r0) None tmin tmax full fuel) ds [] = (Err ValueErr, tr).
Proof. exact dsir_all_recovered_ValueError. Qed.

(* the rounding is the one of Props/C05.v *)
Theorem C05_discrete_rounding_is_round_half_even : forall x, d_round_half_even x = Gillespie.round_half_even x.
Proof. exact round_same. Qed.

(* --- the decidable checker [dinit_okb] (Model/DiscreteChk.v; extracted and applied to the
   IMPLEMENTATION's arrays and node histories by harness/discx.py): accepted on every run of the
   model (whole-step horizons), and what acceptance means *)
Theorem C05_discrete_SIR_checker_accepts_every_run : forall g R trec ord i0 r0o tmin tmax full fuel ds out tr,
  wf_inputb g i0 (opt_list r0o) = true -> perm_oracle ord -> (full = true -> pick_sound R) -> whole_steps tmin tmax ->
  exec (discrete_SIR g R trec ord (Some i0) r0o None tmin tmax full fuel) ds [] = (Ok out, tr) ->
  dinit_okb true g i0 (opt_list r0o) tmin (so_rows (o_sim out)) (option_map fd_hist (so_full (o_sim out))) = true.
Proof. exact dsir_init_accepted. Qed.

Theorem C05_basic_discrete_SIS_checker_accepts_every_run : forall g R ord i0 tmin tmax full fuel ds out tr,
  wf_inputb g i0 [] = true -> perm_oracle ord -> (full = true -> pick_sound R) ->
  exec (basic_discrete_SIS_R g R ord (Some i0) None tmin tmax full fuel) ds [] = (Ok out, tr) ->
  dinit_okb false g i0 [] tmin (so_rows (o_sim out)) (option_map fd_hist (so_full (o_sim out))) = true.
Proof. exact dsis_init_accepted. Qed.

(* percolation_based_discrete_SIR: row 0 (any return mode) and, with full data on an undirected
   graph, the first history entries *)
Theorem C05_percolation_based_discrete_SIR_row0_is_the_request : forall g R ord i0 r0o tmin tmax full fuel ds out tr,
  wf_inputb g i0 (opt_list r0o) = true -> perm_oracle ord -> (full = true -> pick_sound R) ->
  exec (percolation_based_discrete_SIR_R g R ord (Some i0) r0o None tmin tmax full fuel) ds [] = (Ok out, tr) ->
  dwf_rowsb true true g tmin tmax (so_rows (o_sim out)) = true /\
  exists rest, so_rows (o_sim out) = (tmin, row0_of true g i0 (opt_list r0o)) :: rest.
Proof. exact psir_rows_accepted. Qed.

Theorem C05_percolation_based_discrete_SIR_checker_accepts_every_run : forall g R ord i0 r0o tmin tmax fuel ds out tr,
  wf_inputb g i0 (opt_list r0o) = true -> sym_graphb g = true -> perm_oracle ord -> pick_sound R -> whole_steps tmin tmax ->
  exec (percolation_based_discrete_SIR_R g R ord (Some i0) r0o None tmin tmax true fuel) ds [] = (Ok out, tr) ->
  exists fd, so_full (o_sim out) = Some fd /\ dtx_okb true g i0 tmin (fd_hist fd) (fd_trans fd) = true /\
    dinit_okb true g i0 (opt_list r0o) tmin (so_rows (o_sim out)) (Some (fd_hist fd)) = true.
Proof. exact psir_tx_accepted. Qed.

Theorem C05_discrete_checker_sound : forall sir g i0 r0 tmin rows hist, dinit_okb sir g i0 r0 tmin rows hist = true ->
  (exists r rest, rows = r :: rest /\ fst r == tmin /\ snd r = row0_of sir g i0 r0) /\
  (forall hs, hist = Some hs -> forall u, In u (gnodes g) -> exists e rest,
     assocN hs u = Some (e :: rest) /\ fst e == tmin /\ snd e = init_status i0 r0 u /\ (In u r0 -> rest = [])).
Proof. exact dinit_okb_sound. Qed.

(* ---------------- non-vacuity ---------------- *)
Definition ex_adj (u : node) : list node :=
  match u with 0%N => [1; 2]%N | 1%N => [0; 2]%N | 2%N => [1; 3; 0]%N | 3%N => [2]%N | _ => [] end.
Definition ex_g : graph := mkGraph [0; 1; 2; 3]%N ex_adj ex_adj false (fun _ _ => 1) (fun _ => 1) false false.
Definition ex_tt (u v : node) (_ : nat) : bool := negb (N.eqb u 0 && N.eqb v 2).
Definition ex_ord (k : nat) (l : list node) : list node := rev l.

Example C05_disc_hypotheses_satisfiable :
  wf_inputb ex_g [0%N] [3%N] = true /\ perm_oracle ex_ord /\ whole_steps (5 # 2) (Some (9 # 2)) /\ whole_steps 0 None.
Proof.
  split; [vm_compute; reflexivity|]. split; [intros k l; unfold ex_ord; apply Permutation_sym; apply Permutation_rev|].
  split; [exists 2%nat; vm_compute; reflexivity|exact I].
Qed.

(* a full-data run from tmin = 5/2 with node 3 initially recovered: row 0, the first history
   entries, the quiet history of node 3; the rho path: N = 4, rho = 5/8 -> round(2.5) = 2 nodes *)
Example C05_disc_example :
  (exists o tr, exec (discrete_SIR ex_g (det_rules ex_tt (fun _ _ => O)) None ex_ord (Some [0%N]) (Some [3%N]) None (5 # 2) None true 9) [] [] = (Ok o, tr) /\
     map (fun r => (Qred (fst r), snd r)) (firstn 1 (so_rows (o_sim o))) = [(5 # 2, [2; 1; 1]%Z)] /\
     option_map (fun fd => map (fun nh => (fst nh, map (fun e => (Qred (fst e), snd e)) (snd nh))) (fd_hist fd)) (so_full (o_sim o)) =
       Some [(0%N, [(5 # 2, stI); (7 # 2, stR)]); (1%N, [(5 # 2, stS); (7 # 2, stI); (9 # 2, stR)]);
             (2%N, [(5 # 2, stS); (9 # 2, stI); (11 # 2, stR)]); (3%N, [(5 # 2, stR)])] /\
     dinit_okb true ex_g [0%N] [3%N] (5 # 2) (so_rows (o_sim o)) (option_map fd_hist (so_full (o_sim o))) = true /\
     dinit_okb true ex_g [0%N; 1%N] [3%N] (5 # 2) (so_rows (o_sim o)) (option_map fd_hist (so_full (o_sim o))) = false /\
     dinit_okb true ex_g [0%N] [] (5 # 2) (so_rows (o_sim o)) (option_map fd_hist (so_full (o_sim o))) = false) /\
  (exists o tr, exec (discrete_SIR ex_g (det_rules ex_tt (fun _ _ => O)) None ex_ord None None (Some (5 # 8)) 0 None false 9) [1] [] = (Ok o, tr) /\
     map snd (firstn 1 (so_rows (o_sim o))) = [[2; 2; 0]%Z]) /\
  d_round_half_even (Qnat 4 * (5 # 8)) = 2%Z /\ d_round_half_even (Qnat 4 * (7 # 8)) = 4%Z.
Proof.
  split; [|split; [|split]]; try (vm_compute; reflexivity);
    eexists; eexists; (split; [vm_compute; reflexivity|]); vm_compute; repeat split.
Qed.

(* the input of the former finding (path 0-1-2-3, initial_recovereds = [0;1], rho = 1/2) is now rejected
   before any draw is made *)
Definition path4_adj (u : node) : list node :=
  match u with 0%N => [1]%N | 1%N => [0; 2]%N | 2%N => [1; 3]%N | 3%N => [2]%N | _ => [] end.
Definition path4 : graph := mkGraph [0; 1; 2; 3]%N path4_adj path4_adj false (fun _ _ => 1) (fun _ => 1) false false.
Example C05_disc_rho_with_initial_recovereds_example :
  exec (discrete_SIR path4 (det_rules (fun _ _ _ => true) (fun _ _ => O)) None (fun _ l => l) None (Some [0; 1]%N) (Some (1 # 2)) 0 None false 9) [1] [] = (Err EoNError, []) /\
  (exists o tr, exec (discrete_SIR path4 (det_rules (fun _ _ _ => true) (fun _ _ => O)) None (fun _ l => l) None None (Some (1 # 2)) 0 None false 9) [1] [] = (Ok o, tr) /\
     map snd (so_rows (o_sim o)) = [[2; 2; 0]; [0; 2; 2]; [0; 0; 4]]%Z).
Proof. split; [vm_compute; reflexivity|]. eexists. eexists. split; vm_compute; reflexivity. Qed.
Print Assumptions C05_disc_rho_with_initial_recovereds_example.

Print Assumptions C05_discrete_SIR_row0_is_the_request.
Print Assumptions C05_basic_discrete_SIS_row0_is_the_request.
Print Assumptions C05_discrete_SIR_initial_statuses.
Print Assumptions C05_requested_statuses.
Print Assumptions C05_discrete_SIR_rho_and_infecteds_rejected.
Print Assumptions C05_basic_discrete_SIR_rho_and_infecteds_rejected.
Print Assumptions C05_basic_discrete_SIS_rho_and_infecteds_rejected.
Print Assumptions C05_percolation_based_discrete_SIR_rho_and_infecteds_rejected.
Print Assumptions C05_discrete_SIR_rho_selects_round_N_rho_distinct_nodes.
Print Assumptions C05_discrete_SIR_rho_and_initial_recovereds_rejected.
Print Assumptions C05_basic_discrete_SIR_rho_and_initial_recovereds_rejected.
Print Assumptions C05_percolation_based_discrete_SIR_rho_and_initial_recovereds_rejected.
Print Assumptions C05_basic_discrete_SIS_rho_selects_round_N_rho_distinct_nodes.
Print Assumptions C05_discrete_SIR_sampled_run_starts_as_requested.
Print Assumptions C05_basic_discrete_SIR_sampled_run_starts_as_requested.
Print Assumptions C05_percolation_based_discrete_SIR_sampled_run_starts_as_requested.
Print Assumptions C05_discrete_SIR_all_recovered_is_ValueError.
Print Assumptions C05_discrete_rounding_is_round_half_even.
Print Assumptions C05_discrete_SIR_checker_accepts_every_run.
Print Assumptions C05_basic_discrete_SIS_checker_accepts_every_run.
Print Assumptions C05_percolation_based_discrete_SIR_row0_is_the_request.
Print Assumptions C05_percolation_based_discrete_SIR_checker_accepts_every_run.
Print Assumptions C05_discrete_checker_sound.
Print Assumptions C05_disc_hypotheses_satisfiable.
Print Assumptions C05_disc_example.

(* the input of the second former finding (path 0-1-2-3, initial_recovereds = [0;1;2], neither rho nor
   initial_infecteds): the population handed to random.sample is [3], whatever the draw the run starts from
   node 3: rows (0,[0;1;3]), (1,[0;0;4]); with all four nodes initially recovered: ValueError *)
Example C05_disc_default_node_example :
  (forall d, In d [0; 1; 2; 3] ->
     exists o tr, exec (discrete_SIR path4 (det_rules (fun _ _ _ => true) (fun _ _ => O)) None (fun _ l => l) None (Some [0; 1; 2]%N) None 0 None false 9) [d] [] = (Ok o, tr) /\
       tr = [CSample [[3%N]] 1] /\ map snd (so_rows (o_sim o)) = [[0; 1; 3]; [0; 0; 4]]%Z /\
       dwf_rowsb true true path4 0 None (so_rows (o_sim o)) = true) /\
  fst (exec (discrete_SIR path4 (det_rules (fun _ _ _ => true) (fun _ _ => O)) None (fun _ l => l) None (Some [0; 1; 2; 3]%N) None 0 None false 9) [0] []) = Err ValueErr.
Proof.
  split; [|vm_compute; reflexivity].
  intros d [E|[E|[E|[E|[]]]]]; subst d; eexists; eexists; (split; [vm_compute; reflexivity|]); vm_compute; repeat split.
Qed.
Print Assumptions C05_disc_default_node_example.
