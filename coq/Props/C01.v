(* C01 — Markovian SIR simulators sample the exact network SIR process
   (Gillespie_SIR half; the fast_SIR half is in Props/C11.v / C01fast when built).
   Only statements; proofs in Proofs/Gillespie*.v. *)
From EoNV Require Import Prelude Samp Graph ListDict ListDictP Gillespie KldP GillespieInv SampP GillespieP GillespieLaw GillespieEx.

Section C01.
Variable g : graph.
Hypothesis Hg : wfg g.                               (* simple undirected graph, weights >= 0 *)
Hypothesis Hnd : NoDup (gnodes g).
Hypothesis Hadj : forall u v, In v (gadj g u) -> In v (gnodes g).
Variables tau gamma tmin : Q.
Hypothesis Htau : 0 <= tau.
Hypothesis Hgamma : 0 <= gamma.
Variable tmax : xtime.
Variable full : bool.

(* the initial condition puts the two candidate structures in agreement with the
   statuses: infecteds = the I nodes with their recovery weights, IS_links = the
   ordered I-S edges with their transmission weights (record GInv/Inv) *)
Theorem C01_initial_state_good :
  forall i0 r0 el tl,
    NoDup i0 -> NoDup r0 -> incl i0 (gnodes g) -> incl r0 (gnodes g) ->
    (forall y, In y i0 -> ~ In y r0) ->
    exists I L : kld, init_sets g (st_init i0 r0) i0 = Ok (I, L) /\
      GInv g SIR tmin tmax
        (mkG (st_init i0 r0) I L
             [(tmin, [order g - Z.of_nat (length i0) - Z.of_nat (length r0); Z.of_nat (length i0); Z.of_nat (length r0)]%Z)]
             el tl).
Proof.
  intros i0 r0 el tl H1 H2 H3 H4 H5.
  exact (init_ginv g Hg Hnd SIR tmin tmax i0 r0 el tl H1 H2 H3 H4 H5 (fun E => match E with end)).
Qed.

(* every event keeps that agreement, never fails, and lands in a state whose
   last row is at the event time: so the agreement holds in EVERY reachable state *)
Theorem C01_every_event_preserves_bookkeeping :
  forall t1 trec ttot s,
    GInv g SIR tmin tmax s -> last_time tmin s <= t1 -> xlt t1 tmax = true ->
    trec == total_rec gamma s -> ttot == trec + total_tr tau s -> 0 < ttot ->
    (forall s', reach (event_st g SIR full t1 trec ttot s) s' -> GInv g SIR tmin tmax s' /\ last_time tmin s' = t1) /\
    (forall e, ~ reach_err (event_st g SIR full t1 trec ttot s) e).
Proof. exact (event_reach g Hg Hnd SIR tau gamma tmin tmax full Hadj). Qed.

(* holding rate: the waiting time in a state is drawn with rate
   gamma * (sum of recovery weights of I nodes) + tau * (sum of weights of I-S links),
   and the run stops when that is 0, no node is infected, or tmax is reached *)
Theorem C01_holding_rate_and_stop_rule :
  forall fuel t s,
    loop g SIR tau gamma tmin tmax full fuel t s =
    (let trec := total_rec gamma s in
     let ttot := trec + total_tr tau s in
     if Qltb 0 ttot then
       Expo ttot (fun d =>
         let t1 := t + d in
         if negb (is_empty (infs s)) && xlt t1 tmax then
           match fuel with
           | O => Fail OutOfFuel
           | S f => event g SIR full t1 trec ttot s (fun s' => loop g SIR tau gamma tmin tmax full f t1 s')
           end
         else Ret (finish g SIR tmin full s))
     else Ret (finish g SIR tmin full s)).
Proof. exact (loop_eq g SIR tau gamma tmin tmax full). Qed.

(* jump chain: in every good state with positive total rate, recovery of an
   infectious u has probability gamma*w_u/total, transmission along an I-S edge
   (u,v) has probability tau*w_uv/total, and nothing else has any mass *)
Theorem C01_jump_law :
  forall s, Inv g s ->
    let trec := total_rec gamma s in
    let ttot := trec + total_tr tau s in
    0 < ttot ->
    (forall u, stat s u = stI ->
       prob (is_rec (knode u)) (law (jump_lbl trec ttot s)) == gamma * iw g u / ttot) /\
    (forall u v, stat s u = stI -> stat s v = stS -> In v (gadj g u) ->
       prob (is_tr (kpair u v)) (law (jump_lbl trec ttot s)) == tau * lw g u v / ttot) /\
    mass (law (jump_lbl trec ttot s)) == 1.
Proof. exact (jump_law g Hg tau gamma Htau Hgamma). Qed.

(* the model's jump IS that labelled jump followed by the deterministic status update *)
Theorem C01_jump_is_labelled_jump :
  forall t trec ttot s,
    event_st g SIR full t trec ttot s = bind (jump_lbl trec ttot s) (fun l => liftr (apply_lbl g SIR full t s l)).
Proof. exact (event_st_labelled g SIR full). Qed.

(* whole runs, for every draw script: the result comes from a good final state
   (hence from a chain of good states), or the script/fuel ran out; no crash *)
Theorem C01_every_run :
  forall i0 r0 fuel, wf_init g SIR i0 r0 ->
    (forall out, reach (gillespie g SIR tau gamma (Some i0) r0 None tmin tmax full fuel) out ->
       exists s', GInv g SIR tmin tmax s' /\ out = finish g SIR tmin full s' /\ stopped tau gamma tmax s') /\
    (forall e, reach_err (gillespie g SIR tau gamma (Some i0) r0 None tmin tmax full fuel) e -> e = OutOfFuel).
Proof. exact (gillespie_reach g Hg Hnd SIR tau gamma tmin tmax full Hadj). Qed.

Theorem C01_exec_never_crashes :
  forall i0 r0 fuel ds e tr, wf_init g SIR i0 r0 ->
    exec (gillespie g SIR tau gamma (Some i0) r0 None tmin tmax full fuel) ds [] = (Err e, tr) ->
    e = OutOfDraws \/ e = OutOfFuel.
Proof. exact (gillespie_exec_no_crash g Hg Hnd SIR tau gamma tmin tmax full Hadj). Qed.

End C01.

(* the selection inside a weighted candidate set is the rejection loop of C16:
   [law] gives a weighted Choose the mass w/W, which Props/C16.v
   (C16_rejection_law, C16_selection_proportional) proves to be the law of the
   loop conditional on termination, for every fuel. *)

(* non-vacuity: a weighted 4-node network with an initially recovered node meets
   every hypothesis, and a scripted run on it has three events *)
Example C01_hypotheses_satisfiable :
  wfg ex_graph /\ NoDup (gnodes ex_graph) /\ (forall u v, In v (gadj ex_graph u) -> In v (gnodes ex_graph)) /\
  wf_init ex_graph SIR [0%N] (Some [3%N]).
Proof. exact (conj ex_wfg (conj ex_nodup (conj ex_adj_in ex_wf_init_SIR))). Qed.

Example C01_example_run :
  match fst ex_run with
  | Ok out => map (fun r => (Qred (fst r), snd r)) (so_rows out)
  | Err _ => []
  end = [(0, [2; 1; 1]%Z); (1 # 4, [1; 2; 1]%Z); (1 # 2, [0; 3; 1]%Z); (3 # 4, [0; 2; 2]%Z)].
Proof. exact ex_run_rows. Qed.

Print Assumptions C01_initial_state_good.
Print Assumptions C01_every_event_preserves_bookkeeping.
Print Assumptions C01_holding_rate_and_stop_rule.
Print Assumptions C01_jump_law.
Print Assumptions C01_jump_is_labelled_jump.
Print Assumptions C01_every_run.
Print Assumptions C01_exec_never_crashes.
Print Assumptions C01_hypotheses_satisfiable.
Print Assumptions C01_example_run.
