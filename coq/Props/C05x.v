(* C05 — requested initial conditions are what the run starts from, for the event-driven
   SIR simulator (fast_nonMarkov_SIR; fast_SIR on both of its paths),
   Gillespie_simple_contagion and Gillespie_complex_contagion.
   Models: Model/EventSIR.v, EventSIRConst.v, Simple.v, Complex.v (the extracted ones) and
   Model/InitChk.v (the IC-dict entry of simple contagion; the extracted checkers).
   Proofs: Proofs/C05xGeneric.v, C05xEsirInv.v, C05xEsir.v, C05xEsirTop.v.

   Reading guide.  [ic_domb nodes i0 r0 tmin tmax] = the property's domain: node list and the
   two initial collections duplicate-free, the collections inside the graph and disjoint,
   tmin < tmax.  [ic_sirb nodes i0 r0 tmin rows hist] = "rows start with
   (tmin, N-|I0|-|R0|, |I0|, |R0|) and, when histories are given, an initially recovered
   node has exactly [(tmin,R)], an initially infected node starts (tmin,I) (or is [(tmin,R)]:
   recovered at the very instant tmin, zero duration), every other node's history starts at
   tmin" ([C05x_ic_sirb_sound]).  [ic_genb nodes req rstat tmin rows hist] = "rows start with
   (tmin, census of req over return_statuses) and every node's history starts
   (tmin, req node)".  Both are extracted and applied to the IMPLEMENTATION's outputs.
   [provider_ok prov]: whatever the provider of delays can answer are non-negative delays
   for susceptible neighbours and a non-negative duration.
   Heap order of the code = [fifo].  Not proved here: that rho's random.sample is UNIFORM over
   the k-subsets ([law] of Base/Samp.v gives no mass to Sample; count, distinctness and support
   are proved); duplicates in the initial collections are outside the domain
   (Props/C04esir.v [C04_esir_domain_distinct_initial_nodes_needed]). *)
From EoNV Require Import Prelude Samp Graph ListDict Gillespie EventSIR EventSIRConst Simple Complex SampP.
From EoNV Require Import InitChk C05xGeneric C05xEsirInv C05xEsir C05xEsirTop.

(* ---------------- event-driven SIR ---------------- *)
(* fast_nonMarkov_SIR with initial_infecteds (a single node is the one-element list) and
   optionally initial_recovereds, any provider inside [provider_ok], EVERY draw script,
   both return modes: a run that returns starts as requested *)
Theorem C05x_esir_starts_as_requested : forall g prov i0 r0 tmin tmax full fuel ds o tr,
  ic_domb (gnodes g) i0 (opt_list r0) tmin tmax = true -> provider_ok prov ->
  exec (fast_nonmarkov fifo g prov (Some i0) r0 None tmin tmax full fuel) ds [] = (Ok o, tr) ->
  ic_sirb (gnodes g) i0 (opt_list r0) tmin (so_rows (fst o)) (option_map fd_hist (so_full (fst o))) = true.
Proof.
  intros g prov i0 r0 tmin tmax full fuel ds o tr Hd Hp H.
  exact (esir_starts_as_requested g prov i0 r0 tmin tmax full fuel o Hd Hp (exec_reach _ _ _ _ _ _ H)).
Qed.

(* fast_SIR, weighted / zero-rate path: no condition on the provider is left *)
Theorem C05x_fast_SIR_edge_path_starts_as_requested : forall g tau gamma i0 r0 tmin tmax full fuel ds o tr,
  ic_domb (gnodes g) i0 (opt_list r0) tmin tmax = true ->
  exec (fast_sir_edge g tau gamma (Some i0) r0 None tmin tmax full fuel) ds [] = (Ok o, tr) ->
  ic_sirb (gnodes g) i0 (opt_list r0) tmin (so_rows (fst o)) (option_map fd_hist (so_full (fst o))) = true.
Proof.
  intros g tau gamma i0 r0 tmin tmax full fuel ds o tr Hd H.
  exact (esir_starts_as_requested g _ i0 r0 tmin tmax full fuel o Hd (markov_provider_ok g tau gamma) (exec_reach _ _ _ _ _ _ H)).
Qed.

(* fast_SIR, constant-tau path (binomial number of transmissions, sampled recipients,
   truncated exponential delays) *)
Theorem C05x_fast_SIR_const_path_starts_as_requested : forall g tau gamma i0 r0 tmin tmax full fuel ds o tr,
  ic_domb (gnodes g) i0 (opt_list r0) tmin tmax = true ->
  bexec (fast_sir_const g tau gamma (Some i0) r0 None tmin tmax full fuel) ds [] = (Ok o, tr) ->
  ic_sirb (gnodes g) i0 (opt_list r0) tmin (so_rows (fst o)) (option_map fd_hist (so_full (fst o))) = true.
Proof. exact fast_sir_const_starts_as_requested. Qed.

(* the user's rules as tables with non-negative entries *)
Theorem C05x_esir_tables_starts_as_requested : forall g delay dur i0 r0 tmin tmax full fuel ds o tr,
  ic_domb (gnodes g) i0 (opt_list r0) tmin tmax = true ->
  (forall u v, nonnegx (delay u v) = true) -> (forall u, nonnegx (dur u) = true) ->
  exec (fast_nonmarkov fifo g (det_provider delay dur) (Some i0) r0 None tmin tmax full fuel) ds [] = (Ok o, tr) ->
  ic_sirb (gnodes g) i0 (opt_list r0) tmin (so_rows (fst o)) (option_map fd_hist (so_full (fst o))) = true.
Proof.
  intros g delay dur i0 r0 tmin tmax full fuel ds o tr Hd H1 H2 H.
  exact (esir_starts_as_requested g _ i0 r0 tmin tmax full fuel o Hd (det_provider_ok delay dur H1 H2) (exec_reach _ _ _ _ _ _ H)).
Qed.

(* rho (or nothing): int(round(N*rho)) -- round half to even -- (or 1) DISTINCT nodes of the
   graph are drawn and the run starts from exactly them *)
Theorem C05x_esir_rho_selects_round_N_rho_distinct_nodes : forall g prov rho tmin tmax full fuel ds o tr,
  NoDup (gnodes g) -> xlt tmin tmax = true -> provider_ok prov ->
  exec (fast_nonmarkov fifo g prov None None rho tmin tmax full fuel) ds [] = (Ok o, tr) ->
  let n := match rho with None => 1%Z | Some r => round_half_even (Qnat (length (gnodes g)) * r) end in
  (0 <= n)%Z /\ exists i0, NoDup i0 /\ incl i0 (gnodes g) /\ Z.of_nat (length i0) = n /\
    ic_sirb (gnodes g) i0 [] tmin (so_rows (fst o)) (option_map fd_hist (so_full (fst o))) = true.
Proof.
  intros g prov rho tmin tmax full fuel ds o tr Hn Hl Hp H.
  exact (esir_rho_starts_as_requested g prov rho tmin tmax full fuel o Hn Hl Hp (exec_reach _ _ _ _ _ _ H)).
Qed.

(* rho with initial_infecteds, or with initial_recovereds: EoNError whatever the values
   (the `is not None` tests of sim:2308-2311), before any draw; both fast_SIR paths *)
Theorem C05x_esir_rho_conflicts_rejected : forall tb g prov i0 r0 rho tmin tmax full fuel,
  (i0 <> None \/ r0 <> None) ->
  fast_nonmarkov tb g prov i0 r0 (Some rho) tmin tmax full fuel = Fail EoNError.
Proof. exact esir_rho_conflicts_rejected. Qed.

Theorem C05x_fast_SIR_const_rho_conflicts_rejected : forall g tau gamma i0 r0 rho tmin tmax full fuel,
  (i0 <> None \/ r0 <> None) ->
  fast_sir_const g tau gamma i0 r0 (Some rho) tmin tmax full fuel = BFail EoNError.
Proof. exact fast_sir_const_rho_conflicts_rejected. Qed.

(* the DEFAULT start node when initial_recovereds is given (initial_infecteds None, rho None;
   /repo 0a3e1b4): random.sample draws ONE node from [node for node in G if node not in
   initial_recovereds]; the start node is a graph node that is not initially recovered and the
   run starts as requested -- [ic_sirb] with I0 = [u]: row 0 = (tmin, N-1-|R0|, 1, |R0|),
   the initially recovered nodes keep [(tmin,R)] *)
Theorem C05x_esir_default_start_node_not_initially_recovered : forall g prov r0 tmin tmax full fuel ds o tr,
  xlt tmin tmax = true -> provider_ok prov ->
  exec (fast_nonmarkov fifo g prov None (Some r0) None tmin tmax full fuel) ds [] = (Ok o, tr) ->
  exists u, In u (gnodes g) /\ ~ In u r0 /\
    ic_sirb (gnodes g) [u] r0 tmin (so_rows (fst o)) (option_map fd_hist (so_full (fst o))) = true.
Proof.
  intros g prov r0 tmin tmax full fuel ds o tr Hl Hp H.
  exact (esir_default_start_with_recovereds g prov r0 tmin tmax full fuel o Hl Hp (exec_reach _ _ _ _ _ _ H)).
Qed.

Theorem C05x_fast_SIR_const_default_start_node_not_initially_recovered : forall g tau gamma r0 tmin tmax full fuel ds o tr,
  xlt tmin tmax = true ->
  bexec (fast_sir_const g tau gamma None (Some r0) None tmin tmax full fuel) ds [] = (Ok o, tr) ->
  exists u, In u (gnodes g) /\ ~ In u r0 /\
    ic_sirb (gnodes g) [u] r0 tmin (so_rows (fst o)) (option_map fd_hist (so_full (fst o))) = true.
Proof. exact fast_sir_const_default_start_with_recovereds. Qed.

(* every node initially recovered: random.sample([], 1) raises ValueError -- the only call made *)
Theorem C05x_esir_default_start_all_recovered_is_ValueError : forall tb g prov r0 tmin tmax full fuel ds,
  (forall u, In u (gnodes g) -> In u r0) ->
  exec (fast_nonmarkov tb g prov None (Some r0) None tmin tmax full fuel) ds [] = (Err ValueErr, [CSample [] 1]).
Proof. exact esir_default_start_all_recovered. Qed.

Theorem C05x_fast_SIR_const_default_start_all_recovered_is_ValueError : forall g tau gamma r0 tmin tmax full fuel ds,
  (forall u, In u (gnodes g) -> In u r0) ->
  bexec (fast_sir_const g tau gamma None (Some r0) None tmin tmax full fuel) ds [] = (Err ValueErr, [BCSample [] 1]).
Proof. exact fast_sir_const_default_start_all_recovered. Qed.

Theorem C05x_ic_sirb_sound : forall nodes i0 r0 tmin rows hist, ic_sirb nodes i0 r0 tmin rows hist = true ->
  (exists t rest, rows = (t, [Z.of_nat (length nodes) - Z.of_nat (length i0) - Z.of_nat (length r0);
                              Z.of_nat (length i0); Z.of_nat (length r0)]%Z) :: rest /\ t == tmin) /\
  (forall hs, hist = Some hs -> forall u, In u nodes -> exists h, hlook u hs = Some h /\
     (In u r0 -> exists t, h = [(t, stR)] /\ t == tmin) /\
     (~ In u r0 -> In u i0 -> exists t s rest, h = (t, s) :: rest /\ t == tmin /\ (s = stI \/ (s = stR /\ rest = []))) /\
     (~ In u r0 -> ~ In u i0 -> exists t s rest, h = (t, s) :: rest /\ t == tmin)).
Proof. exact ic_sirb_sound. Qed.

(* ---------------- Gillespie_simple_contagion ---------------- *)
(* every run that returns: first row = (tmin, [#nodes with IC = x for x in return_statuses]);
   full data: one history per node of the graph, starting (tmin, IC[node]) *)
Theorem C05x_simple_starts_as_requested : forall g sortable spont induced ic rstat tmin tmax full fuel ds out tr,
  exec (simple g sortable spont induced ic rstat tmin tmax full fuel) ds [] = (Ok out, tr) ->
  (exists rest, so_rows out = (tmin, map (Simple.count_status g ic) rstat) :: rest) /\
  (full = false -> so_full out = None) /\
  (full = true -> exists fd, so_full out = Some fd /\ map fst (fd_hist fd) = gnodes g /\
     forall u, In u (gnodes g) -> exists rest, hlook u (fd_hist fd) = Some ((tmin, ic u) :: rest)).
Proof. exact simple_starts_as_requested. Qed.

Theorem C05x_simple_passes_checker : forall g sortable spont induced ic rstat tmin tmax full fuel ds out tr,
  exec (simple g sortable spont induced ic rstat tmin tmax full fuel) ds [] = (Ok out, tr) ->
  ic_genb (gnodes g) ic rstat tmin (so_rows out) (option_map fd_hist (so_full out)) = true.
Proof. exact simple_passes_checker. Qed.

(* IC as a plain dict: every node listed -> the run from those statuses (extra keys are never
   read); a node of the graph missing -> KeyError, nothing drawn *)
Theorem C05x_simple_IC_dict_honoured : forall g sortable spont induced icd rstat tmin tmax full fuel,
  (ic_covers g icd = true ->
     (forall u, In u (gnodes g) -> icd u = Some (ic_total icd u)) /\
     simple_dict g sortable spont induced icd rstat tmin tmax full fuel =
     simple g sortable spont induced (ic_total icd) rstat tmin tmax full fuel) /\
  (ic_covers g icd = false ->
     (exists u, In u (gnodes g) /\ icd u = None) /\
     forall ds, exec (simple_dict g sortable spont induced icd rstat tmin tmax full fuel) ds [] = (Err KeyErr, [])).
Proof. exact simple_dict_honoured. Qed.

(* ---------------- Gillespie_complex_contagion ---------------- *)
Theorem C05x_complex_starts_as_requested : forall g rate choice infl rstats tmin tmax full ic fuel ds o tr,
  exec (complex g rate choice infl rstats tmin tmax full ic fuel) ds [] = (Ok o, tr) ->
  (forall u, In u (gnodes g) -> ic u = Some (ic_total ic u)) /\
  (exists rest, so_rows (fst o) = (tmin, counts g rstats (ic_total ic)) :: rest) /\
  (full = false -> so_full (fst o) = None) /\
  (full = true -> exists fd, so_full (fst o) = Some fd /\ map fst (fd_hist fd) = gnodes g /\ fd_trans fd = [] /\
     forall u, In u (gnodes g) -> exists rest, hlook u (fd_hist fd) = Some ((tmin, ic_total ic u) :: rest)).
Proof. exact complex_starts_as_requested. Qed.

Theorem C05x_complex_passes_checker : forall g rate choice infl rstats tmin tmax full ic fuel ds o tr,
  exec (complex g rate choice infl rstats tmin tmax full ic fuel) ds [] = (Ok o, tr) ->
  ic_genb (gnodes g) (ic_total ic) rstats tmin (so_rows (fst o)) (option_map fd_hist (so_full (fst o))) = true.
Proof. exact complex_passes_checker. Qed.

(* a node of the graph that IC does not list: KeyError; no draw, no call of a user function *)
Theorem C05x_complex_missing_IC_rejected : forall g rate choice infl rstats tmin tmax full ic fuel u ds,
  In u (gnodes g) -> ic u = None ->
  exec (complex g rate choice infl rstats tmin tmax full ic fuel) ds [] = (Err KeyErr, []).
Proof. exact complex_missing_ic_rejected. Qed.

Theorem C05x_ic_genb_sound : forall nodes req rstat tmin rows hist,
  ic_genb nodes req rstat tmin rows hist = true ->
  (exists t rest, rows = (t, req_counts nodes req rstat) :: rest /\ t == tmin) /\
  (forall hs, hist = Some hs -> forall u, In u nodes ->
     exists t rest, hlook u hs = Some ((t, req u) :: rest) /\ t == tmin).
Proof. exact ic_genb_sound. Qed.

(* ---------------- non-vacuity ---------------- *)
Definition gp : graph :=
  mkGraph [0;1;2]%N (fun u => if N.eqb u 0 then [1]%N else if N.eqb u 1 then [0]%N else [])
          (fun u => if N.eqb u 0 then [1]%N else if N.eqb u 1 then [0]%N else [])
          false (fun _ _ => 1) (fun _ => 1) false true.

(* a run of fast_SIR (edge path) with an initially recovered node, full data: the checker
   accepts it; row 0 is (1,1,1) at tmin = 5/2; node 2 keeps the history [(5/2, R)] *)
Example C05x_esir_example :
  ic_domb (gnodes gp) [0%N] [2%N] (5#2) None = true /\
  match exec (fast_sir_edge gp 1 1 (Some [0%N]) (Some [2%N]) None (5#2) None true 20) [3;1;2;1] [] with
  | (Ok (o, _), tr) =>
      ic_sirb (gnodes gp) [0%N] [2%N] (5#2) (so_rows o) (option_map fd_hist (so_full o)) = true /\
      map snd (firstn 1 (so_rows o)) = [[1;1;1]%Z] /\ length tr = 3%nat /\
      option_map (fun f => hlook 2%N (fd_hist f)) (so_full o) = Some (Some [(5#2, stR)])
  | _ => False
  end.
Proof. vm_compute. repeat split. Qed.

(* the checker rejects: a first row that forgets the initially recovered node; a history in
   which the initially recovered node starts susceptible; a first time other than tmin *)
Example C05x_ic_sirb_rejects :
  ic_sirb [0;1;2]%N [0%N] [2%N] 0 [(0, [2;1;0]%Z)] None = false /\
  ic_sirb [0;1;2]%N [0%N] [2%N] 0 [(0, [1;1;1]%Z)] (Some [(0%N, [(0, stI)]); (1%N, [(0, stS)]); (2%N, [(0, stS)])]) = false /\
  ic_sirb [0;1;2]%N [0%N] [2%N] 0 [(1, [1;1;1]%Z)] None = false /\
  ic_sirb [0;1;2]%N [0%N] [2%N] 0 [(0, [1;1;1]%Z)] (Some [(0%N, [(0, stI); (1, stR)]); (1%N, [(0, stS)]); (2%N, [(0, stR)])]) = true.
Proof. vm_compute. repeat split. Qed.

(* default start node: path 0 - 1, isolated 2, nodes 0 and 2 initially recovered: whatever the
   sample draw (0, 1, 2 = every rotation of the candidate list), the start node is 1, the
   population handed to random.sample is [1], row 0 is (0,1,2); with all three recovered: ValueError *)
Example C05x_default_start_example :
  (forall d, In d [0; 1; 2] ->
     match exec (fast_sir_edge gp 1 1 None (Some [0%N; 2%N]) None 0 None true 20) [d; 1] [] with
     | (Ok (o, _), tr) => ic_sirb (gnodes gp) [1%N] [0%N; 2%N] 0 (so_rows o) (option_map fd_hist (so_full o)) = true /\
                          map snd (firstn 1 (so_rows o)) = [[0;1;2]%Z] /\ hd_error tr = Some (CSample [[1%N]] 1)
     | _ => False
     end) /\
  exec (fast_sir_edge gp 1 1 None (Some [0%N; 1%N; 2%N]) None 0 None true 20) [0; 1] [] = (Err ValueErr, [CSample [] 1]).
Proof. split; [intros d [<-|[<-|[<-|[]]]]; vm_compute; repeat split|vm_compute; reflexivity]. Qed.

Definition sp2 : list trans := [mkTr [0%N] [1%N] 1 WNone; mkTr [0%N] [2%N] 1 WNone].
Definition g2 : graph := mkGraph [0;1]%N (fun _ => []) (fun _ => []) false (fun _ _ => 1) (fun _ => 1) false false.

Example C05x_simple_example :
  match exec (simple_dict g2 true sp2 [] (fun u => if N.eqb u 0 then Some 0%N else Some 2%N) [0;1;2]%N (5#2) (Some 4) true 5) [1#2; 1#4; 0; 5] [] with
  | (Ok o, tr) => map snd (firstn 1 (so_rows o)) = [[1;0;1]%Z] /\
                  ic_genb [0;1]%N (fun u => if N.eqb u 0 then 0%N else 2%N) [0;1;2]%N (5#2) (so_rows o) (option_map fd_hist (so_full o)) = true
  | _ => False
  end /\
  exec (simple_dict g2 true sp2 [] (fun u => if N.eqb u 0 then Some 0%N else None) [0;1;2]%N (5#2) (Some 4) true 5) [1#2; 1#4; 0; 5] [] = (Err KeyErr, []) /\
  ic_genb [0;1]%N (fun u => if N.eqb u 0 then 0%N else 2%N) [0;1;2]%N 0 [(0, [2;0;0]%Z)] None = false.
Proof. vm_compute. repeat split. Qed.

Print Assumptions C05x_esir_starts_as_requested.
Print Assumptions C05x_fast_SIR_edge_path_starts_as_requested.
Print Assumptions C05x_fast_SIR_const_path_starts_as_requested.
Print Assumptions C05x_esir_tables_starts_as_requested.
Print Assumptions C05x_esir_rho_selects_round_N_rho_distinct_nodes.
Print Assumptions C05x_esir_rho_conflicts_rejected.
Print Assumptions C05x_fast_SIR_const_rho_conflicts_rejected.
Print Assumptions C05x_esir_default_start_node_not_initially_recovered.
Print Assumptions C05x_fast_SIR_const_default_start_node_not_initially_recovered.
Print Assumptions C05x_esir_default_start_all_recovered_is_ValueError.
Print Assumptions C05x_fast_SIR_const_default_start_all_recovered_is_ValueError.
Print Assumptions C05x_default_start_example.
Print Assumptions C05x_ic_sirb_sound.
Print Assumptions C05x_simple_starts_as_requested.
Print Assumptions C05x_simple_passes_checker.
Print Assumptions C05x_simple_IC_dict_honoured.
Print Assumptions C05x_complex_starts_as_requested.
Print Assumptions C05x_complex_passes_checker.
Print Assumptions C05x_complex_missing_IC_rejected.
Print Assumptions C05x_ic_genb_sound.
Print Assumptions C05x_esir_example.
Print Assumptions C05x_ic_sirb_rejects.
Print Assumptions C05x_simple_example.
